(* Proofs/SrcPlFacts.v — the source tie for pl_writer.py: the generated translation (Gen/Src_pl.v) prints
   the TEXT that the hand model (Format/Export.v, propositional section) builds as a syntax tree and
   renders with render_pl. *)
From Coq Require Import List Bool Ascii String ZArith Lia Permutation.
From FM Require Import Base.Result Base.Str Base.AstOp Model.Ast Model.FM Model.Ctc Model.Queries
     Format.Export Model.PyRt Model.Loc Gen.Src_fm Gen.Src_pl Proofs.FMFacts Proofs.C16Facts
     Proofs.SrcFmFacts Proofs.SrcCtcFacts.
Import ListNotations.
Local Open Scope list_scope.

(* ------------------------------------------------------------------ strings *)
Lemma pl_app_assoc : forall a b c : string, ((a ++ b) ++ c)%string = (a ++ (b ++ c))%string.
Proof. induction a as [|ch a IH]; intros b c; cbn [append]; [reflexivity|]. rewrite IH. reflexivity. Qed.

(* right-nest every string concatenation and let the literal prefixes compute *)
Ltac str_norm := repeat rewrite pl_app_assoc; cbn [append].

Lemma str_join_cons : forall sep a l,
  str_join sep (a :: l) = (a ++ str_concat (map (fun y => sep ++ y) l))%string.
Proof.
  intros sep a l. revert a. induction l as [|b l IH]; intros a.
  - cbn. induction a as [|ch a IHa]; cbn [append]; [reflexivity|]. rewrite <- IHa. reflexivity.
  - change (str_join sep (a :: b :: l)) with (a ++ sep ++ str_join sep (b :: l))%string.
    rewrite IH. cbn [map str_concat fold_right]. rewrite pl_app_assoc. reflexivity.
Qed.

Lemma str_join_map_ext {A} (f g : A -> string) sep l :
  (forall x, In x l -> f x = g x) -> str_join sep (map f l) = str_join sep (map g l).
Proof. intros H. f_equal. apply map_ext_in. exact H. Qed.

(* ------------------------------------------------------------------ rendering of joins *)
Section Joins.
  Variable op : pl -> pl -> pl.
  Variable sep : string.
  Hypothesis render_op : forall a b, render_pl (op a b) = (render_pl a ++ sep ++ render_pl b)%string.

  Lemma render_fold_left : forall xs x,
    render_pl (fold_left op xs x)
    = (render_pl x ++ str_concat (map (fun y => sep ++ y) (map render_pl xs)))%string.
  Proof.
    induction xs as [|y ys IH]; intros x; cbn [fold_left map str_concat fold_right].
    - induction (render_pl x) as [|ch a IHa]; cbn [append]; [reflexivity|]. rewrite <- IHa. reflexivity.
    - rewrite IH, render_op. rewrite !pl_app_assoc. reflexivity.
  Qed.

  Lemma render_pjoin : forall l e, l <> [] ->
    render_pl (pjoin op l e) = str_join sep (map render_pl l).
  Proof.
    intros [|x xs] e H; [congruence|]. cbn [pjoin map].
    rewrite render_fold_left, str_join_cons. reflexivity.
  Qed.
End Joins.

Lemma render_pjoin_and : forall l e, l <> [] ->
  render_pl (pjoin PAnd l e) = str_join " and " (map render_pl l).
Proof. apply render_pjoin. intros a b. reflexivity. Qed.

Lemma render_pjoin_or : forall l e, l <> [] ->
  render_pl (pjoin POr l e) = str_join " or " (map render_pl l).
Proof. apply render_pjoin. intros a b. reflexivity. Qed.

(* ------------------------------------------------------------------ result / list helpers *)
Lemma mapM_app' {A B} (f : A -> result B) (l1 l2 : list A) :
  mapM f (l1 ++ l2)
  = match mapM f l1 with
    | Err e => Err e
    | Ok r1 => match mapM f l2 with Err e => Err e | Ok r2 => Ok (r1 ++ r2) end
    end.
Proof.
  induction l1 as [|x xs IH]; cbn [app mapM].
  - destruct (mapM f l2); reflexivity.
  - destruct (f x) as [y|e]; [|reflexivity].
    change (match mapM f (xs ++ l2) with Err e => Err e | Ok ys => Ok (y :: ys) end
            = match (match mapM f xs with Err e => Err e | Ok ys => Ok (y :: ys) end) with
              | Err e => Err e
              | Ok r1 => match mapM f l2 with Err e => Err e | Ok r2 => Ok (r1 ++ r2) end
              end).
    rewrite IH. destruct (mapM f xs) as [ys|e]; [|reflexivity].
    destruct (mapM f l2); reflexivity.
Qed.

Lemma mapM_cons' {A B} (f : A -> result B) x xs :
  mapM f (x :: xs)
  = match f x with
    | Err e => Err e
    | Ok y => match mapM f xs with Err e => Err e | Ok ys => Ok (y :: ys) end
    end.
Proof. reflexivity. Qed.

Lemma mapM_map' {A B C} (g : A -> B) (f : B -> result C) l : mapM f (map g l) = mapM (fun x => f (g x)) l.
Proof.
  induction l as [|x xs IH]; [reflexivity|]. cbn [map]. rewrite !mapM_cons', IH. reflexivity.
Qed.

Lemma mapM_ext_in' {A B} (f g : A -> result B) l :
  (forall x, In x l -> f x = g x) -> mapM f l = mapM g l.
Proof.
  induction l as [|x xs IH]; intros H; [reflexivity|].
  rewrite !mapM_cons', (H x (or_introl eq_refl)), IH; [reflexivity|].
  intros y Hy. apply H. right. exact Hy.
Qed.

Lemma mapM_rmap {A B C} (f : A -> result B) (h : B -> C) l :
  mapM (fun x => rmap h (f x)) l = rmap (map h) (mapM f l).
Proof.
  induction l as [|x xs IH]; [reflexivity|].
  rewrite !mapM_cons', IH. destruct (f x) as [y|e]; cbn [rmap]; [|reflexivity].
  destruct (mapM f xs); reflexivity.
Qed.

Lemma mapM_ok_in {A B} (f : A -> result B) l ys :
  mapM f l = Ok ys -> forall x, In x l -> exists y, f x = Ok y.
Proof.
  revert ys. induction l as [|a l IH]; intros ys H x Hx; [contradiction|].
  rewrite mapM_cons' in H. destruct (f a) as [y|e] eqn:Ea; [|discriminate].
  destruct (mapM f l) as [ys'|e] eqn:El; [|discriminate].
  destruct Hx as [<-|Hx]; [exists y; exact Ea|]. apply (IH ys' eq_refl x Hx).
Qed.

Lemma mapM_err_in {A B} (f : A -> result B) l e :
  mapM f l = Err e -> exists x e', In x l /\ f x = Err e'.
Proof.
  induction l as [|a l IH]; intros H; [discriminate|].
  rewrite mapM_cons' in H. destruct (f a) as [y|e1] eqn:Ea.
  - destruct (mapM f l) as [ys'|e2] eqn:El; [discriminate|].
    destruct (IH H) as (x & e' & Hx & Ex). exists x, e'. split; [right; exact Hx|exact Ex].
  - exists a, e1. split; [left; reflexivity|exact Ea].
Qed.

Lemma mapM_in_err {A B} (f : A -> result B) l x e :
  In x l -> f x = Err e -> exists e', mapM f l = Err e'.
Proof.
  induction l as [|a l IH]; intros Hx Ex; [contradiction|].
  rewrite mapM_cons'. destruct Hx as [->|Hx].
  - rewrite Ex. exists e. reflexivity.
  - destruct (f a) as [y|e1]; [|exists e1; reflexivity].
    destruct (IH Hx Ex) as [e' ->]. exists e'. reflexivity.
Qed.

Lemma mapM_perm {A B} (f : A -> result B) l l' :
  Permutation l l' -> forall ys, mapM f l = Ok ys ->
  exists ys', mapM f l' = Ok ys' /\ Permutation ys ys'.
Proof.
  induction 1 as [|x l l' _ IH|x y l|l l' l'' _ IH1 _ IH2]; intros ys H.
  - exists ys. split; [exact H|apply Permutation_refl].
  - rewrite mapM_cons' in H. rewrite mapM_cons'.
    destruct (f x) as [a|e]; [|discriminate].
    destruct (mapM f l) as [zs|e]; [|discriminate].
    destruct (IH zs eq_refl) as (zs' & -> & Hp). injection H as <-.
    exists (a :: zs'). split; [reflexivity|constructor; exact Hp].
  - rewrite !mapM_cons' in H. rewrite !mapM_cons'.
    destruct (f y) as [b|e]; [|discriminate].
    destruct (f x) as [a|e]; [|destruct (mapM f l); discriminate].
    destruct (mapM f l) as [zs|e]; [|discriminate]. injection H as <-.
    exists (a :: b :: zs). split; [reflexivity|apply perm_swap].
  - destruct (IH1 ys H) as (ys1 & H1 & P1). destruct (IH2 ys1 H1) as (ys2 & H2 & P2).
    exists ys2. split; [exact H2|]. eapply Permutation_trans; eassumption.
Qed.

Lemma flat_map_if_single {A B} (p : A -> bool) (g : A -> B) l :
  flat_map (fun x => if p x then [g x] else []) l = map g (filter p l).
Proof.
  induction l as [|x xs IH]; [reflexivity|]. cbn [flat_map filter].
  destruct (p x); cbn [map app]; rewrite IH; reflexivity.
Qed.

Lemma pl_snoc_cases {A} (l : list A) : l = [] \/ exists r x, l = r ++ [x].
Proof.
  induction l as [|a l IH]; [left; reflexivity|right].
  destruct IH as [->|(r & x & ->)]; [exists [], a; reflexivity|exists (a :: r), x; reflexivity].
Qed.

(* a fold that appends one computed value per element is a mapM *)
Lemma foldM_snoc_mapM {A B} (f : list B -> A -> result (list B)) (g : A -> result B) l :
  (forall s x, In x l -> f s x = match g x with Ok v => Ok (s ++ [v]) | Err e => Err e end) ->
  forall s, foldM f l s = match mapM g l with Ok vs => Ok (s ++ vs) | Err e => Err e end.
Proof.
  induction l as [|x xs IH]; intros H s.
  - cbn [foldM mapM]. rewrite app_nil_r. reflexivity.
  - rewrite mapM_cons'. cbn [foldM]. rewrite (H s x (or_introl eq_refl)).
    destruct (g x) as [v|e]; [|reflexivity].
    change (foldM f xs (s ++ [v]) = match (match mapM g xs with Err e => Err e | Ok ys => Ok (v :: ys) end) with
                                    | Ok vs => Ok (s ++ vs) | Err e => Err e end).
    rewrite IH by (intros s' y Hy; apply H; right; exact Hy).
    destruct (mapM g xs) as [ys|e]; [|reflexivity]. rewrite <- app_assoc. reflexivity.
Qed.

Lemma foldM_pair_mapM {A B C} (f : list B * list C -> A -> result (list B * list C))
      (g : A -> result B) (h : A -> list C) l :
  (forall a b x, In x l ->
     f (a, b) x = match g x with Ok v => Ok (a ++ [v], b ++ h x) | Err e => Err e end) ->
  forall a b, foldM f l (a, b)
              = match mapM g l with Ok vs => Ok (a ++ vs, b ++ flat_map h l) | Err e => Err e end.
Proof.
  induction l as [|x xs IH]; intros H a b.
  - cbn [foldM mapM flat_map]. rewrite !app_nil_r. reflexivity.
  - rewrite mapM_cons'. cbn [foldM]. rewrite (H a b x (or_introl eq_refl)).
    destruct (g x) as [v|e]; [|reflexivity].
    change (foldM f xs (a ++ [v], b ++ h x)
            = match (match mapM g xs with Err e => Err e | Ok ys => Ok (v :: ys) end) with
              | Ok vs => Ok (a ++ vs, b ++ flat_map h (x :: xs)) | Err e => Err e end).
    rewrite IH by (intros a' b' y Hy; apply H; right; exact Hy).
    destruct (mapM g xs) as [ys|e]; [|reflexivity].
    cbn [flat_map]. rewrite <- !app_assoc. reflexivity.
Qed.

(* ------------------------------------------------------------------ _node_formula / _operand_formula *)
Definition pl_operand (c : option node) : result pl :=
  match c with
  | None => Err AttributeError
  | Some x => match pl_node x with
              | Err e => Err e
              | Ok px => Ok (if is_op x then PParen px else px)
              end
  end.

Lemma pl_node_unfold : forall d l r,
  pl_node (Node d l r)
  = match d with
    | DOp NOT => match pl_operand l with Err e => Err e | Ok a => Ok (PNot a) end
    | DOp o =>
        match pl_operand l with Err e => Err e | Ok a =>
        match pl_operand r with Err e => Err e | Ok b =>
          match o with
          | AND => Ok (PAnd a b)
          | OR => Ok (POr a b)
          | IMPLIES | REQUIRES => Ok (PImp a b)
          | EQUIVALENCE => Ok (PIff a b)
          | EXCLUDES => Ok (PImp a (PNot b))
          | XOR => Ok (PAnd (PParen (POr a b)) (PNot (PParen (PAnd a b))))
          | _ => Err ValueError
          end
        end end
    | _ => Ok (PVar (data_str d))
    end.
Proof. intros d l r. reflexivity. Qed.

Lemma node_operand_fuel : forall fuel,
  (forall n, (2 * nsize n <= fuel)%nat -> py__node_formula fuel n = rmap render_pl (pl_node n))
  /\ (forall c, (2 * osz c + 1 <= fuel)%nat ->
        bind (py_need c) (fun v => py__operand_formula fuel v) = rmap render_pl (pl_operand c)).
Proof.
  induction fuel as [|k [IHn IHo]]; split.
  - intros [d l r] H. rewrite nsize_Node in H. lia.
  - intros c H. lia.
  - intros [d l r] H. rewrite nsize_Node in H.
    assert (Hl : bind (py_need l) (fun v => py__operand_formula k v) = rmap render_pl (pl_operand l))
      by (apply IHo; lia).
    assert (Hr : bind (py_need r) (fun v => py__operand_formula k v) = rmap render_pl (pl_operand r))
      by (apply IHo; lia).
    cbn [py__node_formula]. cbv zeta. unfold is_term, is_op. cbn [n_data n_left n_right].
    rewrite pl_node_unfold.
    destruct d as [o|s|z|fl|b]; cbn [negb]; try reflexivity.
    destruct o; cbn [ndata_is_op ndata_in_ops existsb astop_eqb orb];
      rewrite ?Hl, ?Hr;
      destruct (pl_operand l) as [a|e]; cbn [rmap bind]; try reflexivity;
      destruct (pl_operand r) as [b|e]; cbn [rmap bind]; try reflexivity;
      cbn [render_pl]; f_equal; str_norm; reflexivity.
  - intros [x|] H; cbn [py_need bind pl_operand rmap]; [|reflexivity]. cbn [osz] in H.
    cbn [py__operand_formula]. rewrite IHn by lia.
    destruct (pl_node x) as [p|e]; cbn [rmap bind]; [|reflexivity].
    destruct (is_op x); reflexivity.
Qed.

Lemma src_pl_node_formula : forall n fuel, (fuel_node n <= fuel)%nat ->
  py__node_formula fuel n = rmap render_pl (pl_node n).
Proof.
  intros n fuel H. apply (proj1 (node_operand_fuel fuel)). unfold fuel_node in H. lia.
Qed.

Lemma src_pl_constraint_formula : forall c fuel, (fuel_node (c_ast c) <= fuel)%nat ->
  py_get_constraint_formula fuel c = rmap render_pl (pl_node (c_ast c)).
Proof. intros c fuel H. unfold py_get_constraint_formula. apply src_pl_node_formula. exact H. Qed.

(* ------------------------------------------------------------------ built-ins on index lists *)
Lemma children_names : forall r o,
  flat_map (fun child : lfeat => [name (fst child)]) (lr_children (r, o)) = map name (r_children r).
Proof.
  intros r o. rewrite fm_flat_map_single. unfold lr_children. cbn [fst snd]. rewrite map_map. reflexivity.
Qed.

Lemma enumerate_seq {A} (d : A) : forall l a,
  py_enumerate_from a l = map (fun i => ((a + Z.of_nat i)%Z, nth i l d)) (seq 0 (List.length l)).
Proof.
  induction l as [|x xs IH]; intros a; [reflexivity|].
  cbn [py_enumerate_from List.length seq map nth]. f_equal.
  - f_equal. lia.
  - rewrite IH, <- seq_shift, map_map. apply map_ext. intros i. cbn [nth]. f_equal. lia.
Qed.

Lemma enumerate_seq0 {A} (d : A) : forall l,
  py_enumerate_from 0%Z l = map (fun i => (Z.of_nat i, nth i l d)) (seq 0 (List.length l)).
Proof. intros l. rewrite (enumerate_seq d). apply map_ext. intros i. reflexivity. Qed.

Lemma py_range_0 : forall n : nat, py_range 0%Z (Z.of_nat n) = map Z.of_nat (seq 0 n).
Proof.
  intros n. unfold py_range. rewrite Z.sub_0_r, Nat2Z.id. apply map_ext. intros i. reflexivity.
Qed.

Lemma py_combs_map {A B} (f : A -> B) : forall k l, py_combs k (map f l) = map (map f) (py_combs k l).
Proof.
  induction k as [|k IHk]; intros l; [destruct l; reflexivity|].
  induction l as [|x xs IHl]; [reflexivity|].
  cbn [py_combs map]. rewrite map_app, !map_map. rewrite IHk, map_map.
  f_equal. exact IHl.
Qed.

Lemma py_combs_combs : forall k l, py_combs k l = combs k l.
Proof.
  induction k as [|k IHk]; intros l; [destruct l; reflexivity|].
  induction l as [|x xs IHl]; [reflexivity|].
  cbn [py_combs combs]. rewrite IHk, IHl. reflexivity.
Qed.

Lemma z_eqb_of_nat : forall a b : nat, (Z.of_nat a =? Z.of_nat b)%Z = Nat.eqb a b.
Proof.
  intros a b. destruct (Z.eqb_spec (Z.of_nat a) (Z.of_nat b)) as [H|H];
    destruct (Nat.eqb_spec a b) as [H'|H']; try reflexivity; lia.
Qed.

Lemma existsb_positives : forall (i : nat) pos,
  existsb (fun y => (y =? Z.of_nat i)%Z) (map Z.of_nat pos) = existsb (Nat.eqb i) pos.
Proof.
  intros i pos. rewrite fm_existsb_map. apply existsb_ext'. intros y.
  rewrite z_eqb_of_nat. apply Nat.eqb_sym.
Qed.

Lemma flat_map_pair_if {A B C} (f : A * B -> list C) (p : A * B -> bool) (g : A * B -> C) l :
  (forall a b, f (a, b) = if p (a, b) then [g (a, b)] else []) -> flat_map f l = map g (filter p l).
Proof.
  intros H. rewrite <- flat_map_if_single. apply flat_map_ext. intros [a b]. apply H.
Qed.

Lemma flat_map_pair_single {A B C} (f : A * B -> list C) (g : A * B -> C) l :
  (forall a b, f (a, b) = [g (a, b)]) -> flat_map f l = map g l.
Proof.
  intros H. rewrite <- fm_flat_map_single. apply flat_map_ext. intros [a b]. apply H.
Qed.

Lemma foldM_snoc_pure {A B} (f : list B -> A -> result (list B)) (g : A -> B) l :
  (forall s x, In x l -> f s x = Ok (s ++ [g x])) -> forall s, foldM f l s = Ok (s ++ map g l).
Proof.
  intros H s. rewrite (foldM_append f (fun x => [g x]) l H). rewrite fm_flat_map_single. reflexivity.
Qed.

Lemma foldM_guard {A B} (f : list B -> A -> result (list B)) (bad : A -> bool) (g : A -> list B) e l :
  (forall s x, In x l -> f s x = if bad x then Err e else Ok (s ++ g x)) ->
  forall s, foldM f l s = if existsb bad l then Err e else Ok (s ++ flat_map g l).
Proof.
  induction l as [|x xs IH]; intros H s; cbn [foldM existsb flat_map].
  - rewrite app_nil_r. reflexivity.
  - rewrite (H s x (or_introl eq_refl)). destruct (bad x); cbn [orb]; [reflexivity|].
    change (foldM f xs (s ++ g x) = if existsb bad xs then Err e else Ok (s ++ g x ++ flat_map g xs)).
    rewrite IH by (intros s' y Hy; apply H; right; exact Hy).
    rewrite app_assoc. reflexivity.
Qed.

(* ------------------------------------------------------------------ the texts of the group formulas *)
Definition alt_text (P : string) (cs : list string) : string :=
  let n := List.length cs in
  str_join " and "
    (map (fun i => ("(" ++ nth i cs "" ++ " <-> ("
                    ++ str_join " and " (map (fun j => "not " ++ nth j cs "")
                                             (filter (fun j => negb (Nat.eqb j i)) (seq 0 n)) ++ [P])
                    ++ ")" ++ ")")%string)
         (seq 0 n)).

Definition card_item (cs : list string) (positives : list nat) : string :=
  ("(" ++ str_join " and " (map (fun i => if existsb (Nat.eqb i) positives then nth i cs ""
                                          else "not " ++ nth i cs "")
                                (seq 0 (List.length cs))) ++ ")")%string.

Definition card_text (P : string) (cs : list string) (rmin rmax : Z) : result string :=
  let n := List.length cs in
  let card_max := if (rmax =? -1)%Z then Z.of_nat n else rmax in
  let ks := py_range rmin (card_max + 1)%Z in
  if existsb (fun k => (k <? 0)%Z) ks then Err ValueError
  else
    let combos := flat_map (fun k => map (card_item cs) (combs (Z.to_nat k) (seq 0 n))) ks in
    let combos' := match combos with [] => [("(" ++ P ++ " and not " ++ P ++ ")")%string] | _ => combos end in
    Ok (str_join " and " (map (fun c => "(" ++ c ++ " -> " ++ P ++ ")") cs)
        ++ " and (" ++ P ++ " -> (" ++ str_join " or " combos' ++ "))")%string.

Lemma src_alt_text : forall r o,
  py_get_alternative_formula (r, o) = Ok (alt_text (name (fst o)) (map name (r_children r))).
Proof.
  intros r o. unfold py_get_alternative_formula. cbv zeta.
  rewrite !children_names. cbn [lr_parent snd].
  set (P := name (fst o)). set (cs := map name (r_children r)).
  rewrite (enumerate_seq0 ""%string cs).
  set (enum := map (fun i => (Z.of_nat i, nth i cs ""%string)) (seq 0 (List.length cs))).
  match goal with
  | |- context [foldM ?F enum []] =>
      rewrite (foldM_snoc_pure F
                 (fun p : Z * string =>
                    (snd p ++ " <-> ("
                     ++ str_join " and "
                          (map (fun q : Z * string => "not " ++ snd q)
                               (filter (fun q : Z * string => negb (fst q =? fst p)%Z) enum) ++ [P])
                     ++ ")")%string) enum)
  end.
  - cbn [bind app]. f_equal. unfold alt_text. fold cs.
    rewrite fm_flat_map_single. unfold enum. rewrite !map_map.
    apply str_join_map_ext. intros i _. cbn [fst snd].
    rewrite fm_filter_map, map_map. cbn [fst snd].
    rewrite (fm_filter_ext _ (fun j => negb (Nat.eqb j i)))
      by (intros j; rewrite z_eqb_of_nat; reflexivity).
    str_norm. reflexivity.
  - intros s [i ch] _. cbv beta iota zeta. cbn [fst snd].
    rewrite (flat_map_pair_if _ (fun q : Z * string => negb (fst q =? i)%Z)
                              (fun q : Z * string => ("not " ++ snd q)%string))
      by (intros a b; reflexivity).
    str_norm. reflexivity.
Qed.

Lemma src_card_text : forall r o,
  py_get_cardinality_formula (r, o)
  = card_text (name (fst o)) (map name (r_children r)) (r_min r) (r_max r).
Proof.
  intros r o. unfold py_get_cardinality_formula. cbv zeta.
  rewrite !children_names. cbn [lr_parent snd fst].
  set (P := name (fst o)). set (cs := map name (r_children r)).
  unfold card_text. cbv zeta. unfold py_len. fold cs.
  change (Z.opp 1%Z) with (-1)%Z.
  set (cm := if (r_max r =? -1)%Z then Z.of_nat (List.length cs) else r_max r).
  rewrite py_range_0. rewrite (enumerate_seq0 ""%string cs).
  match goal with
  | |- context [foldM ?F ?ks []] =>
      rewrite (foldM_guard F (fun k => (k <? 0)%Z)
                 (fun k => map (card_item cs) (combs (Z.to_nat k) (seq 0 (List.length cs))))
                 ValueError ks)
  end.
  - destruct (existsb (fun k => (k <? 0)%Z) (py_range (r_min r) (cm + 1))); cbn [bind app]; [reflexivity|].
    rewrite !fm_flat_map_single.
    destruct (flat_map (fun k => map (card_item cs) (combs (Z.to_nat k) (seq 0 (List.length cs))))
                       (py_range (r_min r) (cm + 1))) as [|c0 combos];
      cbn [py_is_nil negb app]; f_equal; str_norm; reflexivity.
  - intros s k _. unfold py_combinations. destruct (k <? 0)%Z; cbn [bind]; [reflexivity|].
    rewrite py_combs_map, py_combs_combs.
    match goal with
    | |- context [foldM ?G ?v s] =>
        rewrite (foldM_snoc_pure G (fun pos : list Z =>
                   ("(" ++ str_join " and "
                      (map (fun q : Z * string => if existsb (fun y => (y =? fst q)%Z) pos
                                                  then snd q else ("not " ++ snd q)%string)
                           (map (fun i => (Z.of_nat i, nth i cs ""%string)) (seq 0 (List.length cs))))
                    ++ ")")%string) v)
    end.
    + cbn [bind]. rewrite map_map. do 2 f_equal. apply map_ext. intros pos.
      unfold card_item. rewrite map_map. cbn [fst snd]. do 2 f_equal.
      f_equal. apply map_ext. intros i. rewrite existsb_positives. reflexivity.
    + intros s' pos _. cbv beta iota zeta.
      rewrite (flat_map_pair_single _ (fun q : Z * string =>
                  if existsb (fun y => (y =? fst q)%Z) pos then snd q else ("not " ++ snd q)%string))
        by (intros a b; reflexivity).
      str_norm. reflexivity.
Qed.

(* ------------------------------------------------------------------ the model's formulas, rendered *)
Definition alt_pl (P : pl) (cs : list string) : pl :=
  let n := List.length cs in
  pjoin PAnd
        (map (fun i => PParen (PIff (PVar (nth i cs ""))
                                    (PParen (pjoin PAnd
                                                   (map (fun j => PNot (PVar (nth j cs "")))
                                                        (filter (fun j => negb (Nat.eqb j i)) (seq 0 n))
                                                    ++ [P]) P))))
             (seq 0 n)) P.

Definition card_pl (P : pl) (cs : list string) (rmin rmax : Z) : pl :=
  let n := List.length cs in
  let card_max := if (rmax =? -1)%Z then Z.of_nat n else rmax in
  let ks := map (fun d => (Z.to_nat rmin + d)%nat) (seq 0 (Z.to_nat (card_max + 1 - rmin))) in
  let combos :=
    flat_map (fun k => map (fun positives =>
                              PParen (pjoin PAnd
                                            (map (fun i => if existsb (Nat.eqb i) positives
                                                           then PVar (nth i cs "")
                                                           else PNot (PVar (nth i cs "")))
                                                 (seq 0 n)) P))
                           (combs k (seq 0 n))) ks in
  let combos' := match combos with [] => [PParen (PAnd P (PNot P))] | _ => combos end in
  let cip := pjoin PAnd (map (fun c => PParen (PImp (PVar c) P)) cs) P in
  PAnd cip (PParen (PImp P (PParen (pjoin POr combos' P)))).

Lemma pl_relation_unfold : forall owner r,
  pl_relation owner r
  = let P := PVar owner in
    let cs := map name (r_children r) in
    if rel_is_mandatory r then Ok (PIff P (PVar (hd ""%string cs)))
    else if rel_is_optional r then Ok (PImp (PVar (hd ""%string cs)) P)
    else if rel_is_or r then Ok (PIff P (PParen (pjoin POr (map PVar cs) P)))
    else if rel_is_alternative r then Ok (alt_pl P cs)
    else if (r_min r <? 0)%Z then Err ValueError
    else Ok (card_pl P cs (r_min r) (r_max r)).
Proof. intros owner r. reflexivity. Qed.

Lemma seq_ne : forall {A} (l : list A), l <> [] -> seq 0 (List.length l) <> [].
Proof. intros A [|x l] H; [congruence|discriminate]. Qed.

Lemma map_ne : forall {A B} (f : A -> B) l, l <> [] -> map f l <> [].
Proof. intros A B f [|x l] H; [congruence|discriminate]. Qed.

Lemma snoc_ne : forall {A} (l : list A) x, l ++ [x] <> [].
Proof. intros A [|y l] x; discriminate. Qed.

Lemma render_alt_pl : forall P cs, cs <> [] -> render_pl (alt_pl (PVar P) cs) = alt_text P cs.
Proof.
  intros P cs Hne. unfold alt_pl, alt_text. cbv zeta.
  rewrite render_pjoin_and by (apply map_ne, seq_ne, Hne).
  rewrite map_map. apply str_join_map_ext. intros i _. cbn [render_pl].
  rewrite render_pjoin_and by apply snoc_ne.
  rewrite map_app, map_map. cbn [map render_pl]. str_norm. reflexivity.
Qed.

Lemma render_card_item : forall (P : pl) cs pos, cs <> [] ->
  render_pl (PParen (pjoin PAnd (map (fun i => if existsb (Nat.eqb i) pos
                                               then PVar (nth i cs "")
                                               else PNot (PVar (nth i cs "")))
                                     (seq 0 (List.length cs))) P))
  = card_item cs pos.
Proof.
  intros P cs pos Hne. cbn [render_pl]. unfold card_item.
  rewrite render_pjoin_and by (apply map_ne, seq_ne, Hne).
  rewrite map_map. do 2 f_equal. apply str_join_map_ext. intros i _.
  destruct (existsb (Nat.eqb i) pos); reflexivity.
Qed.

Lemma existsb_false' {A} (p : A -> bool) l : (forall x, In x l -> p x = false) -> existsb p l = false.
Proof.
  induction l as [|x xs IH]; intros H; [reflexivity|]. cbn [existsb].
  rewrite (H x (or_introl eq_refl)), IH; [reflexivity|]. intros y Hy. apply H. right. exact Hy.
Qed.

Lemma map_default {A B} (f : A -> B) (l : list A) d :
  map f (match l with [] => [d] | _ :: _ => l end)
  = match map f l with [] => [f d] | _ :: _ => map f l end.
Proof. destruct l; reflexivity. Qed.

Lemma default_ne {A} (l : list A) d : match l with [] => [d] | _ :: _ => l end <> [].
Proof. destruct l; discriminate. Qed.

Lemma card_text_nonneg : forall P cs rmin rmax, cs <> [] -> (0 <= rmin)%Z ->
  card_text P cs rmin rmax = Ok (render_pl (card_pl (PVar P) cs rmin rmax)).
Proof.
  intros P cs rmin rmax Hne Hmin. unfold card_text, card_pl. cbv zeta.
  set (n := List.length cs).
  set (cm := if (rmax =? -1)%Z then Z.of_nat n else rmax).
  rewrite existsb_false'.
  2:{ intros k Hk. unfold py_range in Hk. apply in_map_iff in Hk. destruct Hk as (i & <- & _).
      apply Z.ltb_ge. lia. }
  f_equal. cbn [render_pl].
  rewrite render_pjoin_and by (apply map_ne, Hne).
  rewrite render_pjoin_or by apply default_ne.
  rewrite map_map, map_default. cbn [render_pl].
  match goal with
  | |- context [map render_pl (flat_map ?F ?ks)] =>
      assert (E : map render_pl (flat_map F ks)
                  = flat_map (fun k => map (card_item cs) (combs (Z.to_nat k) (seq 0 n)))
                             (py_range rmin (cm + 1)))
  end.
  { unfold py_range. rewrite fm_map_flat_map, !fm_flat_map_map. apply flat_map_ext. intros d.
    replace (Z.to_nat (rmin + Z.of_nat d)) with (Z.to_nat rmin + d)%nat by lia.
    rewrite map_map. apply map_ext. intros pos. apply render_card_item. exact Hne. }
  rewrite E.
  rewrite (str_join_map_ext (fun x => ("(" ++ (x ++ " -> " ++ P) ++ ")")%string)
                            (fun c => ("(" ++ c ++ " -> " ++ P ++ ")")%string))
    by (intros x _; str_norm; reflexivity).
  str_norm. reflexivity.
Qed.

Lemma card_text_neg : forall P cs rmin rmax, (rmin < 0)%Z -> (rmin <= rmax)%Z ->
  card_text P cs rmin rmax = Err ValueError.
Proof.
  intros P cs rmin rmax Hneg Hle. unfold card_text. cbv zeta.
  set (cm := if (rmax =? -1)%Z then Z.of_nat (List.length cs) else rmax).
  assert (Hcm : (rmin <= cm)%Z) by (unfold cm; destruct (rmax =? -1)%Z; lia).
  unfold py_range. destruct (Z.to_nat (cm + 1 - rmin)) as [|k] eqn:Ek; [lia|].
  cbn [seq map existsb]. replace (rmin + Z.of_nat 0 <? 0)%Z with true; [reflexivity|].
  symmetry. apply Z.ltb_lt. lia.
Qed.

(* ------------------------------------------------------------------ get_relation_formula *)
Definition rel_text (owner : string) (r : relation) : result string :=
  let cs := map name (r_children r) in
  if rel_is_mandatory r then Ok (owner ++ " <-> " ++ hd "" cs)%string
  else if rel_is_optional r then Ok (hd "" cs ++ " -> " ++ owner)%string
  else if rel_is_or r then Ok (owner ++ " <-> (" ++ str_join " or " cs ++ ")")%string
  else if rel_is_alternative r then Ok (alt_text owner cs)
  else card_text owner cs (r_min r) (r_max r).

Lemma one_child' : forall r, (nchildren r =? 1)%Z = true -> exists c, r_children r = [c].
Proof.
  intros r H. apply Z.eqb_eq in H. unfold nchildren in H.
  destruct (r_children r) as [|c [|c' l]]; cbn [List.length] in H; try lia. exists c. reflexivity.
Qed.

Lemma first_child_name : forall r o, (nchildren r =? 1)%Z = true ->
  bind (py_index (lr_children (r, o)) 0%Z) (fun v => Ok (name (fst v)))
  = Ok (hd ""%string (map name (r_children r))).
Proof.
  intros r o H. destruct (one_child' r H) as [c Hc].
  unfold lr_children. cbn [fst snd]. rewrite Hc. reflexivity.
Qed.

Lemma src_rel_text : forall r o, py_get_relation_formula (r, o) = rel_text (name (fst o)) r.
Proof.
  intros r o. unfold py_get_relation_formula, rel_text. cbv zeta.
  rewrite src_rel_is_mandatory, src_rel_is_optional, src_rel_is_or, src_rel_is_alternative,
    src_rel_is_mutex, src_rel_is_cardinal.
  destruct (rel_is_mandatory r) eqn:Eman.
  { unfold py_get_mandatory_formula. cbv zeta. cbn [lr_parent snd].
    rewrite first_child_name.
    - cbn [bind]. f_equal.
    - unfold rel_is_mandatory in Eman. apply andb_true_iff in Eman. apply Eman. }
  destruct (rel_is_optional r) eqn:Eopt.
  { unfold py_get_optional_formula. cbv zeta. cbn [lr_parent snd].
    rewrite first_child_name.
    - cbn [bind]. f_equal.
    - unfold rel_is_optional in Eopt. apply andb_true_iff in Eopt. apply Eopt. }
  destruct (rel_is_or r) eqn:Eor.
  { unfold py_get_or_formula. cbv zeta. cbn [lr_parent snd]. rewrite children_names.
    f_equal. }
  destruct (rel_is_alternative r) eqn:Ealt.
  { apply src_alt_text. }
  unfold py_get_mutex_formula.
  destruct (rel_is_mutex r) eqn:Emut; [apply src_card_text|].
  unfold rel_is_cardinal. rewrite Eman, Eopt, Eor, Ealt, Emut. cbn [negb andb].
  apply src_card_text.
Qed.

Lemma rel_text_ok : forall owner r p, r_children r <> [] ->
  pl_relation owner r = Ok p -> rel_text owner r = Ok (render_pl p).
Proof.
  intros owner r p Hne H. rewrite pl_relation_unfold in H. cbv zeta in H. unfold rel_text. cbv zeta.
  assert (Hcs : map name (r_children r) <> []) by (apply map_ne, Hne).
  destruct (rel_is_mandatory r); [injection H as <-; reflexivity|].
  destruct (rel_is_optional r); [injection H as <-; reflexivity|].
  destruct (rel_is_or r).
  { injection H as <-. cbn [render_pl]. rewrite render_pjoin_or by (apply map_ne, Hcs).
    rewrite map_map. cbn [render_pl]. rewrite map_id. reflexivity. }
  destruct (rel_is_alternative r).
  { injection H as <-. rewrite render_alt_pl by exact Hcs. reflexivity. }
  destruct (r_min r <? 0)%Z eqn:Emin; [discriminate|]. injection H as <-.
  apply card_text_nonneg; [exact Hcs|]. apply Z.ltb_ge. exact Emin.
Qed.

Lemma pl_relation_min : forall owner r e, pl_relation owner r = Err e -> (r_min r < 0)%Z /\ e = ValueError.
Proof.
  intros owner r e H. rewrite pl_relation_unfold in H. cbv zeta in H.
  destruct (rel_is_mandatory r); [discriminate|].
  destruct (rel_is_optional r); [discriminate|].
  destruct (rel_is_or r); [discriminate|].
  destruct (rel_is_alternative r); [discriminate|].
  destruct (r_min r <? 0)%Z eqn:Emin; [|discriminate].
  apply Z.ltb_lt in Emin. injection H as <-. split; [exact Emin|reflexivity].
Qed.

Lemma rel_text_err : forall owner r e, (0 <= r_min r \/ r_min r <= r_max r)%Z ->
  pl_relation owner r = Err e -> rel_text owner r = Err e.
Proof.
  intros owner r e Hsane H. destruct (pl_relation_min owner r e H) as [Hmin ->].
  rewrite pl_relation_unfold in H. cbv zeta in H. unfold rel_text. cbv zeta.
  destruct (rel_is_mandatory r); [discriminate|].
  destruct (rel_is_optional r); [discriminate|].
  destruct (rel_is_or r); [discriminate|].
  destruct (rel_is_alternative r); [discriminate|].
  apply card_text_neg; lia.
Qed.

(* The statement asked for,
     forall r o, py_get_relation_formula (r, o) = rmap render_pl (pl_relation (name (fst o)) r),
   is FALSE in two situations (Examples below): a relation without children (the code joins an empty
   list into "", the model's pjoin puts the owner in its place), and a negative lower bound with an
   EMPTY range of sizes (itertools.combinations is never called, so nothing raises; the model answers
   ValueError for every negative lower bound).  It holds outside of them. *)
Lemma src_pl_relation_formula : forall r o,
  r_children r <> [] -> (0 <= r_min r \/ r_min r <= r_max r)%Z ->
  py_get_relation_formula (r, o) = rmap render_pl (pl_relation (name (fst o)) r).
Proof.
  intros r o Hne Hsane. rewrite src_rel_text.
  destruct (pl_relation (name (fst o)) r) as [p|e] eqn:E; cbn [rmap].
  - apply rel_text_ok; assumption.
  - apply rel_text_err; assumption.
Qed.

Lemma src_pl_relation_formula_ok : forall r o p,
  r_children r <> [] -> pl_relation (name (fst o)) r = Ok p ->
  py_get_relation_formula (r, o) = Ok (render_pl p).
Proof. intros r o p Hne H. rewrite src_rel_text. apply rel_text_ok; assumption. Qed.

Definition ex_feature (s : string) (rs : list relation) : feature :=
  Feature (Build_finfo s VNone TBoolean 1 1 []) rs.

Example src_pl_relation_formula_needs_children :
  let r := Relation 0 0 [] in
  let o := (ex_feature "R" [r], []) in
  py_get_relation_formula (r, o) = Ok " and (R -> (()))"%string
  /\ rmap render_pl (pl_relation (name (fst o)) r) = Ok "R and (R -> ((R)))"%string.
Proof. vm_compute. split; reflexivity. Qed.

Example src_pl_relation_formula_needs_sane_min :
  let r := Relation (-1) (-2) [ex_feature "A" []; ex_feature "B" []] in
  let o := (ex_feature "R" [r], []) in
  py_get_relation_formula (r, o) = Ok "(A -> R) and (B -> R) and (R -> ((R and not R)))"%string
  /\ rmap render_pl (pl_relation (name (fst o)) r) = Err ValueError.
Proof. vm_compute. split; reflexivity. Qed.

(* ------------------------------------------------------------------ to_exp: the stack loop *)
Definition pl_stack_size (st : list lfeat) : nat := list_sum (map (fun x => fsize (fst x)) st).

Lemma pl_stack_size_app a b : pl_stack_size (a ++ b) = (pl_stack_size a + pl_stack_size b)%nat.
Proof. unfold pl_stack_size. rewrite map_app, list_sum_app. reflexivity. Qed.

Definition lsub (x : lfeat) : list lrel := loc_subrelations (fst x) (snd x).

Definition pushed (x : lfeat) : list lfeat := flat_map lr_children (lf_relations x).

Lemma pushed_size_aux (o : lfeat) : forall rs,
  list_sum (map (fun x : lfeat => fsize (fst x)) (flat_map (fun r => lr_children (r, o)) rs))
  = list_sum (map (fun r => match r with Relation _ _ cs => list_sum (map fsize cs) end) rs).
Proof.
  induction rs as [|r rs IH]; [reflexivity|].
  cbn [flat_map map list_sum]. rewrite map_app, list_sum_app, IH. f_equal.
  destruct r as [a b cs]. unfold lr_children. cbn [fst snd r_children]. rewrite map_map. reflexivity.
Qed.

Lemma pushed_size x : (pl_stack_size (pushed x) < fsize (fst x))%nat.
Proof.
  destruct x as [[i rs] anc]. unfold pushed, lf_relations, pl_stack_size. cbn [fst rels].
  rewrite fm_flat_map_map, pushed_size_aux. cbn [fsize]. lia.
Qed.

Lemma lr_sub_perm : forall l : list lrel,
  Permutation (flat_map lr_sub l) (l ++ flat_map lsub (flat_map lr_children l)).
Proof.
  induction l as [|a l IH]; [constructor|].
  cbn [flat_map app]. unfold lr_sub at 1. cbn [app]. constructor.
  rewrite flat_map_app. fold lsub.
  transitivity (flat_map lsub (lr_children a) ++ (l ++ flat_map lsub (flat_map lr_children l))).
  - apply Permutation_app_head. exact IH.
  - rewrite !app_assoc. apply Permutation_app_tail. apply Permutation_app_comm.
Qed.

Lemma lsub_unfold x : lsub x = flat_map lr_sub (lf_relations x).
Proof. destruct x as [f anc]. unfold lsub. cbn [fst snd]. apply loc_subrelations_unfold. Qed.

(* the loop, for any step function that behaves as the translated one: it applies F to the relations in
   SOME order [vis], a permutation of the pre-order listing *)
Lemma pl_loop (F : lrel -> result string)
      (step : list lfeat * list string -> result (option (list lfeat * list string))) :
  (forall acc, step ([], acc) = Ok None) ->
  (forall rest x acc,
      step (rest ++ [x], acc)
      = match mapM F (lf_relations x) with
        | Ok l => Ok (Some (rest ++ pushed x, acc ++ l))
        | Err e => Err e
        end) ->
  forall fuel st acc, (pl_stack_size st < fuel)%nat ->
    exists vis, Permutation vis (flat_map lsub st)
                /\ whileM fuel step (st, acc)
                   = match mapM F vis with Ok l => Ok ([], acc ++ l) | Err e => Err e end.
Proof.
  intros Hnil Hsnoc.
  induction fuel as [|fuel IH]; intros st acc Hfuel; [lia|].
  destruct (pl_snoc_cases st) as [->|[rest [x ->]]].
  - exists []. split; [constructor|]. cbn [whileM mapM]. rewrite Hnil, app_nil_r. reflexivity.
  - cbn [whileM]. rewrite Hsnoc.
    rewrite pl_stack_size_app in Hfuel. unfold pl_stack_size at 2 in Hfuel.
    cbn [map list_sum fold_right] in Hfuel.
    pose proof (pushed_size x) as Hx.
    assert (Hperm : forall vis', Permutation vis' (flat_map lsub (rest ++ pushed x)) ->
                                 Permutation (lf_relations x ++ vis') (flat_map lsub (rest ++ [x]))).
    { intros vis' Hp. rewrite flat_map_app in *. cbn [flat_map]. rewrite app_nil_r.
      rewrite (lsub_unfold x).
      transitivity (lf_relations x ++ (flat_map lsub rest ++ flat_map lsub (pushed x))).
      - apply Permutation_app_head. exact Hp.
      - transitivity (flat_map lsub rest ++ (lf_relations x ++ flat_map lsub (pushed x))).
        + rewrite !app_assoc. apply Permutation_app_tail. apply Permutation_app_comm.
        + apply Permutation_app_head. symmetry. apply lr_sub_perm. }
    destruct (mapM F (lf_relations x)) as [l|e] eqn:El.
    + destruct (IH (rest ++ pushed x) (acc ++ l)) as [vis' [Hp Hrun]].
      { rewrite pl_stack_size_app. lia. }
      exists (lf_relations x ++ vis'). split; [apply Hperm; exact Hp|].
      rewrite Hrun, mapM_app', El. destruct (mapM F vis') as [l'|e]; [|reflexivity].
      rewrite app_assoc. reflexivity.
    + exists (lf_relations x ++ flat_map lsub (rest ++ pushed x)). split.
      * apply Hperm. apply Permutation_refl.
      * rewrite mapM_app', El. reflexivity.
Qed.

Lemma src_logical_list : forall m,
  py_FeatureModel_get_logical_constraints m = filter (fun c => is_logical (c_ast c)) (ctcs m).
Proof.
  intros m. unfold py_FeatureModel_get_logical_constraints, py_FeatureModel_get_constraints.
  rewrite <- fm_flat_map_filter. apply flat_map_ext. intros c. rewrite src_is_logical. reflexivity.
Qed.

Lemma to_exp_shape : forall m fuel, (fuel_tree (root m) <= fuel)%nat ->
  exists vis, Permutation vis (loc_relations m)
    /\ py_to_exp fuel m
       = match mapM py_get_relation_formula vis with
         | Err e => Err e
         | Ok l =>
             match mapM (py_get_constraint_formula fuel)
                        (filter (fun c => is_logical (c_ast c)) (ctcs m)) with
             | Err e => Err e
             | Ok cl => Ok (name (root m) :: l ++ cl)
             end
         end.
Proof.
  intros m fuel Hfuel. unfold py_to_exp. cbv zeta. cbn [app].
  match goal with
  | |- context [whileM _ ?stp _] => set (step := stp)
  end.
  assert (Hnil : forall acc, step ([], acc) = Ok None) by (intros acc; reflexivity).
  assert (Hsnoc : forall rest x acc,
             step (rest ++ [x], acc)
             = match mapM py_get_relation_formula (lf_relations x) with
               | Ok l => Ok (Some (rest ++ pushed x, acc ++ l))
               | Err e => Err e
               end).
  { intros rest x acc. unfold step.
    rewrite py_is_nil_snoc. cbn [negb]. rewrite py_pop_snoc. cbn [bind].
    unfold py_Feature_get_relations.
    match goal with
    | |- context [foldM ?G ?l (?a, ?b)] =>
        rewrite (foldM_pair_mapM G py_get_relation_formula lr_children l)
    end.
    - destruct (mapM py_get_relation_formula (lf_relations x)); reflexivity.
    - intros a b y _. cbv beta iota zeta.
      destruct (py_get_relation_formula y); reflexivity. }
  destruct (pl_loop py_get_relation_formula step Hnil Hsnoc fuel [fm_root_l m] [name (fst (fm_root_l m))])
    as [vis [Hperm Hrun]].
  { unfold pl_stack_size, fm_root_l, fuel_tree in *. cbn [map list_sum fold_right fst]. lia. }
  exists vis. split.
  { cbn [flat_map] in Hperm. rewrite app_nil_r in Hperm. exact Hperm. }
  rewrite Hrun. destruct (mapM py_get_relation_formula vis) as [l|e]; cbn [bind]; [|reflexivity].
  rewrite src_logical_list.
  match goal with
  | |- context [foldM ?G ?lc ?s] =>
      rewrite (foldM_snoc_mapM G (py_get_constraint_formula fuel) lc)
  end.
  - destruct (mapM (py_get_constraint_formula fuel) (filter (fun c => is_logical (c_ast c)) (ctcs m)));
      reflexivity.
  - intros s c _. destruct (py_get_constraint_formula fuel c); reflexivity.
Qed.

Lemma fuel_ctc_le : forall m c fuel, (fuel_model m <= fuel)%nat ->
  In c (filter (fun c => is_logical (c_ast c)) (ctcs m)) -> (fuel_node (c_ast c) <= fuel)%nat.
Proof.
  intros m c fuel H Hc. apply filter_In in Hc. destruct Hc as [Hc _].
  unfold fuel_model, fuel_ctcs in H.
  assert (Hle : (fuel_node (c_ast c) <= list_sum (map (fun c => fuel_node (c_ast c)) (ctcs m)))%nat).
  { apply le_list_sum. apply (in_map (fun c => fuel_node (c_ast c))). exact Hc. }
  lia.
Qed.

Lemma ctc_mapM : forall m fuel, (fuel_model m <= fuel)%nat ->
  mapM (py_get_constraint_formula fuel) (filter (fun c => is_logical (c_ast c)) (ctcs m))
  = mapM (fun c => rmap render_pl (pl_node (c_ast c))) (filter (fun c => is_logical (c_ast c)) (ctcs m)).
Proof.
  intros m fuel H. apply mapM_ext_in'. intros c Hc. apply src_pl_constraint_formula.
  apply (fuel_ctc_le m c fuel H Hc).
Qed.

(* the model's relation lines, on the located listing *)
Definition rel_line (x : lrel) : result string :=
  rmap render_pl (pl_relation (name (fst (snd x))) (fst x)).

Lemma rel_lines_loc : forall m,
  mapM (fun pr : feature * relation => rmap render_pl (pl_relation (name (fst pr)) (snd pr)))
       (subrelations_ctx (root m))
  = mapM rel_line (loc_relations m).
Proof.
  intros m. unfold loc_relations. rewrite <- (loc_subrelations_ctx (root m) []).
  rewrite mapM_map'. reflexivity.
Qed.

Lemma in_loc_relations : forall m x, In x (loc_relations m) -> In (fst x) (subrelations (root m)).
Proof.
  intros m x Hx. change (subrelations (root m)) with (get_relations m).
  rewrite <- (loc_relations_erase m). apply in_map. exact Hx.
Qed.

(* The statement asked for (without the hypothesis on the children) is FALSE: see
   src_pl_to_exp_needs_children below. *)
Theorem src_pl_to_exp : forall m fuel rl cl, (fuel_model m <= fuel)%nat ->
  Forall (fun r => r_children r <> []) (subrelations (root m)) ->
  mapM (fun pr => rmap render_pl (pl_relation (name (fst pr)) (snd pr))) (subrelations_ctx (root m)) = Ok rl ->
  mapM (fun c => rmap render_pl (pl_node (c_ast c))) (filter (fun c => is_logical (c_ast c)) (ctcs m)) = Ok cl ->
  exists rl', py_to_exp fuel m = Ok (name (root m) :: rl' ++ cl) /\ Permutation rl' rl.
Proof.
  intros m fuel rl cl Hfuel Hne Hrl Hcl.
  destruct (to_exp_shape m fuel) as [vis [Hperm Hrun]].
  { unfold fuel_model in Hfuel. lia. }
  rewrite rel_lines_loc in Hrl.
  destruct (mapM_perm rel_line _ _ (Permutation_sym Hperm) rl Hrl) as (rl' & Hrl' & Hp).
  exists rl'. split; [|symmetry; exact Hp].
  rewrite Hrun.
  rewrite (mapM_ext_in' py_get_relation_formula rel_line vis).
  - rewrite Hrl', (ctc_mapM m fuel Hfuel), Hcl. reflexivity.
  - intros [r o] Hx. unfold rel_line. cbn [fst snd].
    destruct (mapM_ok_in rel_line vis rl' Hrl' (r, o) Hx) as [y Hy].
    unfold rel_line in Hy. cbn [fst snd] in Hy.
    destruct (pl_relation (name (fst o)) r) as [p|e] eqn:Ep; [|discriminate].
    cbn [rmap]. apply src_pl_relation_formula_ok; [|exact Ep].
    rewrite Forall_forall in Hne. apply Hne.
    apply (in_loc_relations m (r, o)). apply (Permutation_in _ Hperm). exact Hx.
Qed.

Lemma pl_lines_split : forall m lines, pl_lines m = Ok lines ->
  exists rl cl,
    mapM (fun pr => rmap render_pl (pl_relation (name (fst pr)) (snd pr))) (subrelations_ctx (root m)) = Ok rl /\
    mapM (fun c => rmap render_pl (pl_node (c_ast c))) (filter (fun c => is_logical (c_ast c)) (ctcs m)) = Ok cl /\
    lines = name (root m) :: rl ++ cl.
Proof.
  intros m lines H. unfold pl_lines, pl_write in H.
  rewrite (mapM_rmap (fun pr : feature * relation => pl_relation (name (fst pr)) (snd pr)) render_pl).
  rewrite (mapM_rmap (fun c => pl_node (c_ast c)) render_pl).
  destruct (mapM (fun pr : feature * relation => pl_relation (name (fst pr)) (snd pr))
                 (subrelations_ctx (root m))) as [rels_|e]; [|discriminate].
  destruct (mapM (fun c => pl_node (c_ast c)) (filter (fun c => is_logical (c_ast c)) (ctcs m)))
    as [cs|e]; [|discriminate].
  injection H as <-. exists (map render_pl rels_), (map render_pl cs).
  split; [reflexivity|]. split; [reflexivity|].
  cbn [map render_pl]. rewrite map_app. reflexivity.
Qed.

Theorem src_pl_to_exp_lines : forall m fuel lines, (fuel_model m <= fuel)%nat ->
  Forall (fun r => r_children r <> []) (subrelations (root m)) ->
  pl_lines m = Ok lines ->
  exists l, py_to_exp fuel m = Ok l /\ Permutation l lines.
Proof.
  intros m fuel lines Hfuel Hne H.
  destruct (pl_lines_split m lines H) as (rl & cl & Hrl & Hcl & ->).
  destruct (src_pl_to_exp m fuel rl cl Hfuel Hne Hrl Hcl) as (rl' & Hrun & Hp).
  exists (name (root m) :: rl' ++ cl). split; [exact Hrun|].
  constructor. apply Permutation_app_tail. exact Hp.
Qed.

(* The statement asked for (without the two hypotheses) is FALSE: see src_pl_to_exp_error_needs_sane_min. *)
Theorem src_pl_to_exp_error : forall m fuel e, (fuel_model m <= fuel)%nat ->
  Forall (fun r => r_children r <> []) (subrelations (root m)) ->
  Forall (fun r => (0 <= r_min r \/ r_min r <= r_max r)%Z) (subrelations (root m)) ->
  pl_lines m = Err e ->
  exists e', py_to_exp fuel m = Err e'.
Proof.
  intros m fuel e Hfuel Hne Hsane H.
  destruct (to_exp_shape m fuel) as [vis [Hperm Hrun]].
  { unfold fuel_model in Hfuel. lia. }
  rewrite Hrun. clear Hrun.
  assert (HF : mapM py_get_relation_formula vis = mapM rel_line vis).
  { apply mapM_ext_in'. intros [r o] Hx. unfold rel_line. cbn [fst snd].
    assert (Hin : In r (subrelations (root m))).
    { apply (in_loc_relations m (r, o)). apply (Permutation_in _ Hperm). exact Hx. }
    rewrite Forall_forall in Hne, Hsane.
    apply src_pl_relation_formula; [apply Hne|apply Hsane]; exact Hin. }
  rewrite HF, (ctc_mapM m fuel Hfuel).
  unfold pl_lines, pl_write in H.
  destruct (mapM (fun pr : feature * relation => pl_relation (name (fst pr)) (snd pr))
                 (subrelations_ctx (root m))) as [rels_|e1] eqn:Erel.
  - (* the constraints fail *)
    destruct (mapM rel_line vis) as [l|e2]; [|exists e2; reflexivity].
    rewrite (mapM_rmap (fun c => pl_node (c_ast c)) render_pl).
    destruct (mapM (fun c => pl_node (c_ast c)) (filter (fun c => is_logical (c_ast c)) (ctcs m)))
      as [cs|e2]; [discriminate|].
    exists e2. reflexivity.
  - (* a relation fails *)
    assert (Erl : mapM rel_line (loc_relations m) = Err e1).
    { rewrite <- rel_lines_loc.
      rewrite (mapM_rmap (fun pr : feature * relation => pl_relation (name (fst pr)) (snd pr)) render_pl).
      rewrite Erel. reflexivity. }
    destruct (mapM_err_in rel_line _ e1 Erl) as (x & e' & Hx & Ex).
    destruct (mapM_in_err rel_line vis x e') as [e2 He2].
    + apply (Permutation_in _ (Permutation_sym Hperm)). exact Hx.
    + exact Ex.
    + rewrite He2. exists e2. reflexivity.
Qed.

Example src_pl_to_exp_needs_children :
  let m := Build_fm (ex_feature "R" [Relation 0 0 []]) [] in
  py_to_exp (fuel_model m) m = Ok ["R"; " and (R -> (()))"]%string
  /\ pl_lines m = Ok ["R"; "R and (R -> ((R)))"]%string.
Proof. vm_compute. split; reflexivity. Qed.

Example src_pl_to_exp_error_needs_sane_min :
  let m := Build_fm (ex_feature "R" [Relation (-1) (-2) [ex_feature "A" []; ex_feature "B" []]]) [] in
  py_to_exp (fuel_model m) m = Ok ["R"; "(A -> R) and (B -> R) and (R -> ((R and not R)))"]%string
  /\ pl_lines m = Err ValueError.
Proof. vm_compute. split; reflexivity. Qed.

(* the same, with the hypothesis spelled as C16Facts.rels_nonempty *)
Corollary src_pl_to_exp_lines_nonempty : forall m fuel lines, (fuel_model m <= fuel)%nat ->
  rels_nonempty (root m) -> pl_lines m = Ok lines ->
  exists l, py_to_exp fuel m = Ok l /\ Permutation l lines.
Proof. intros m fuel lines Hfuel Hne. apply src_pl_to_exp_lines; [exact Hfuel|exact Hne]. Qed.

Corollary src_pl_to_exp_error_nonempty : forall m fuel e, (fuel_model m <= fuel)%nat ->
  rels_nonempty (root m) ->
  Forall (fun r => (0 <= r_min r \/ r_min r <= r_max r)%Z) (subrelations (root m)) ->
  pl_lines m = Err e ->
  exists e', py_to_exp fuel m = Err e'.
Proof. intros m fuel e Hfuel Hne. apply src_pl_to_exp_error; [exact Hfuel|exact Hne]. Qed.

Print Assumptions src_pl_to_exp_lines.
Print Assumptions src_pl_relation_formula.
Print Assumptions src_pl_node_formula.
Print Assumptions src_pl_to_exp.
Print Assumptions src_pl_to_exp_error.
Print Assumptions pl_lines_split.
Print Assumptions src_pl_constraint_formula.
Print Assumptions src_pl_relation_formula_ok.
