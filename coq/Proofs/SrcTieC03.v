(* Proofs/SrcTieC03.v — C03 stated about the TRANSLATED SOURCE of Relation / Feature / FeatureModel
   (Gen/Src_fm.v): the classification, the listings, lookup, parent / root. *)
From Coq Require Import List Bool String ZArith Permutation Lia.
From FM Require Import Base.Result Model.FM Model.Queries Model.Ops Model.PyRt Model.Loc Gen.Src_fm
     Proofs.FMFacts Proofs.QueriesFacts Proofs.SrcFmFacts.
Import ListNotations.
Local Open Scope list_scope.

(* the six predicates of the Relation class, on the translated source *)
Definition src_flags (x : lrel) : list bool :=
  [py_Relation_is_mandatory x; py_Relation_is_optional x; py_Relation_is_alternative x; py_Relation_is_or x;
   py_Relation_is_mutex x; py_Relation_is_cardinal x].

Lemma src_flags_eq : forall r o, src_flags (r, o) = flags r.
Proof.
  intros r o. unfold src_flags, flags.
  now rewrite src_rel_is_mandatory, src_rel_is_optional, src_rel_is_alternative, src_rel_is_or, src_rel_is_mutex,
    src_rel_is_cardinal.
Qed.

Lemma source_class_exactly_one : forall r o, card_hyp r -> count_true (src_flags (r, o)) = 1.
Proof. intros r o H. rewrite src_flags_eq. now apply class_exactly_one. Qed.

Lemma source_class_is_function_of_cards : forall r o, card_hyp r ->
  py_Relation_is_mandatory (r, o) = rclass_eqb (classify r) CMandatory /\
  py_Relation_is_optional (r, o) = rclass_eqb (classify r) COptional /\
  py_Relation_is_alternative (r, o) = rclass_eqb (classify r) CAlternative /\
  py_Relation_is_or (r, o) = rclass_eqb (classify r) COr /\
  py_Relation_is_mutex (r, o) = rclass_eqb (classify r) CMutex /\
  py_Relation_is_cardinal (r, o) = rclass_eqb (classify r) CCardinal.
Proof.
  intros r o H. rewrite src_rel_is_mandatory, src_rel_is_optional, src_rel_is_alternative, src_rel_is_or,
    src_rel_is_mutex, src_rel_is_cardinal. now apply rel_pred_is_class.
Qed.

(* listings *)
Lemma source_features_once : forall m fuel, (fuel_tree (root m) <= fuel)%nat ->
  exists l, py_FeatureModel_get_features fuel m = Ok l /\ Permutation (map fst l) (subfeatures (root m))
            /\ List.length l = fsize (root m).
Proof.
  intros m fuel Hf. exists (loc_features m). split; [now apply src_get_features|]. split.
  - rewrite loc_features_erase. apply get_features_perm.
  - rewrite <- (get_features_length m), <- (loc_features_erase m). symmetry. apply map_length.
Qed.

Lemma source_relations_once : forall m fuel, (fuel_tree (root m) <= fuel)%nat ->
  rmap (map fst) (py_FeatureModel_get_relations fuel m None) = Ok (subrelations (root m)).
Proof. intros m fuel Hf. rewrite src_get_relations by exact Hf. cbn. now rewrite loc_relations_erase. Qed.

(* parent and root queries of the listed feature objects mirror the tree *)
Lemma source_parent : forall m fuel, (fuel_tree (root m) <= fuel)%nat ->
  exists l, py_FeatureModel_get_features fuel m = Ok l /\
    forall x, In x l ->
      match py_Feature_get_parent x with
      | None => py_Feature_is_root x = true /\ fst x = root m
      | Some p => py_Feature_is_root x = false /\ In (fst x) (children (fst p)) /\ In (fst p) (subfeatures (root m))
      end.
Proof.
  intros m fuel Hf. exists (loc_features m). split; [now apply src_get_features|].
  intros [f anc] Hx.
  assert (Hc : In (hd_error anc, f) (get_features_ctx m)).
  { rewrite <- loc_features_ctx. apply (in_map (fun x : lfeat => (hd_error (snd x), fst x))) in Hx. exact Hx. }
  rewrite src_feat_is_root. unfold py_Feature_get_parent, lf_parent. cbn [snd fst].
  destruct anc as [|p a]; cbn [hd_error] in *.
  - split; [reflexivity|]. now apply (get_features_ctx_root m None f Hc).
  - split; [reflexivity|]. now apply get_features_ctx_parent.
Qed.

(* lookup by name *)
Lemma source_lookup : forall m fuel f, (fuel_tree (root m) <= fuel)%nat -> wf_names (root m) = true ->
  In f (get_features m) ->
  exists r, py_FeatureModel_get_feature_by_name fuel m (name f) = Ok r /\ option_map fst r = Some f.
Proof.
  intros m fuel f Hf Hw Hin. destruct (src_get_feature_by_name m fuel (name f) Hf) as (r & Hr & He).
  exists r. split; [exact Hr|]. rewrite He. now apply lookup_by_name.
Qed.

Lemma source_lookup_missing : forall m fuel n, (fuel_tree (root m) <= fuel)%nat ->
  ~ In n (map name (get_features m)) -> py_FeatureModel_get_feature_by_name fuel m n = Ok None.
Proof.
  intros m fuel n Hf Hn. destruct (src_get_feature_by_name m fuel n Hf) as (r & Hr & He).
  rewrite (lookup_missing m n Hn) in He. destruct r; [discriminate|exact Hr].
Qed.

(* feature-level predicates of a listed object = the model's, with the structural parent *)
Lemma source_feature_predicates : forall f anc,
  py_Feature_is_mandatory (f, anc) = feat_is_mandatory (hd_error anc) f /\
  py_Feature_is_optional (f, anc) = feat_is_optional (hd_error anc) f /\
  py_Feature_is_or_group (f, anc) = feat_is_or_group f /\
  py_Feature_is_alternative_group (f, anc) = feat_is_alternative_group f /\
  py_Feature_is_mutex_group (f, anc) = feat_is_mutex_group f /\
  py_Feature_is_cardinality_group (f, anc) = feat_is_cardinality_group f /\
  py_Feature_is_group (f, anc) = feat_is_group f /\
  py_Feature_is_multiple_group_decomposition (f, anc) = feat_is_multiple_group_decomposition f /\
  py_Feature_is_leaf (f, anc) = feat_is_leaf f /\
  py_Feature_is_boolean (f, anc) = feat_is_boolean f /\
  py_Feature_is_numerical (f, anc) = feat_is_numerical f /\
  py_Feature_is_string (f, anc) = feat_is_string f /\
  py_Feature_is_multifeature (f, anc) = feat_is_multifeature f.
Proof.
  intros f anc.
  exact (conj (src_feat_is_mandatory f anc) (conj (src_feat_is_optional f anc)
        (conj (src_feat_is_or_group (f, anc)) (conj (src_feat_is_alternative_group (f, anc))
        (conj (src_feat_is_mutex_group (f, anc)) (conj (src_feat_is_cardinality_group (f, anc))
        (conj (src_feat_is_group (f, anc)) (conj (src_feat_is_multiple_group_decomposition (f, anc))
        (conj (src_feat_is_leaf (f, anc)) (conj (src_feat_is_boolean (f, anc))
        (conj (src_feat_is_numerical (f, anc)) (conj (src_feat_is_string (f, anc))
              (src_feat_is_multifeature (f, anc)))))))))))))).
Qed.

(* the filtered listings of the translated source, erased, are the model's *)
Lemma source_listings : forall m fuel, (fuel_tree (root m) <= fuel)%nat ->
  (exists l, py_FeatureModel_get_mandatory_features fuel m = Ok l /\ map fst l = get_mandatory_features m) /\
  (exists l, py_FeatureModel_get_optional_features fuel m = Ok l /\ map fst l = get_optional_features m) /\
  (exists l, py_FeatureModel_get_alternative_group_features fuel m = Ok l /\ map fst l = get_alternative_group_features m) /\
  (exists l, py_FeatureModel_get_or_group_features fuel m = Ok l /\ map fst l = get_or_group_features m) /\
  (exists l, py_FeatureModel_get_boolean_features fuel m = Ok l /\ map fst l = get_boolean_features m) /\
  (exists l, py_FeatureModel_get_numerical_features fuel m = Ok l /\ map fst l = get_numerical_features m) /\
  (exists l, py_FeatureModel_get_string_features fuel m = Ok l /\ map fst l = get_string_features m).
Proof.
  intros m fuel Hf.
  exact (conj (src_get_mandatory_features m fuel Hf) (conj (src_get_optional_features m fuel Hf)
        (conj (src_get_alternative_group_features m fuel Hf) (conj (src_get_or_group_features m fuel Hf)
        (conj (src_get_boolean_features m fuel Hf) (conj (src_get_numerical_features m fuel Hf)
              (src_get_string_features m fuel Hf))))))).
Qed.
