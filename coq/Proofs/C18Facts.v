(* Proofs/C18Facts.v — constraint classification (is_requires / is_excludes / is_simple / is_complex /
   pseudo- and strict-complex), left_right, split_asts and ctc_features are semantically sound on
   well-formed logical constraints; the XOR / EQUIVALENCE defects of simplify_formula are refuted by
   witnesses. *)
From Coq Require Import List Bool Ascii String ZArith Lia.
From FM Require Import Base.Result Base.Str Base.AstOp Gen.Tables_core Model.Ast Model.Ctc Model.Sem.
Import ListNotations.
Local Open Scope list_scope.

(* ------------------------------------------------------------------ specification side *)

(* a well-formed logical constraint over names *)
Fixpoint node_wf (n : node) : bool :=
  match n with
  | Node (DStr _) None None => true
  | Node (DOp NOT) (Some a) None => node_wf a
  | Node (DOp o) (Some a) (Some b) =>
      op_in o logical_ops && negb (astop_eqb o NOT) && node_wf a && node_wf b
  | _ => false
  end.

(* no XOR / EQUIVALENCE anywhere *)
Fixpoint no_xe (n : node) : bool :=
  match n with
  | Node d l r => negb (match d with DOp XOR | DOp EQUIVALENCE => true | _ => false end)
                  && match l with Some a => no_xe a | None => true end
                  && match r with Some b => no_xe b | None => true end
  end.

(* every operator is AND, OR or NOT *)
Fixpoint only_and_or_not (n : node) : bool :=
  match n with
  | Node d l r => (match d with DOp AND | DOp OR | DOp NOT => true | DOp _ => false | _ => true end)
                  && match l with Some a => only_and_or_not a | None => true end
                  && match r with Some b => only_and_or_not b | None => true end
  end.

(* negation normal form: AND / OR over literals (a term, or NOT of a term) *)
Fixpoint is_nnf (n : node) : bool :=
  match n with
  | Node (DOp NOT) (Some a) None => is_term a
  | Node (DOp o) (Some a) (Some b) =>
      (astop_eqb o AND || astop_eqb o OR) && is_nnf a && is_nnf b
  | Node (DOp _) _ _ => false
  | Node _ _ _ => true
  end.

Definition evalb (σ : string -> bool) (n : node) : bool :=
  match eval σ n with Some b => b | None => false end.

(* the DStr leaves, left to right *)
Fixpoint leaf_names (n : node) : list string :=
  match n with
  | Node (DStr s) None None => [s]
  | Node _ l r => (match l with Some a => leaf_names a | None => [] end)
                  ++ (match r with Some b => leaf_names b | None => [] end)
  end.

(* ------------------------------------------------------------------ the inductive view of node_wf *)

Definition is_binlog (o : astop) : bool := op_in o logical_ops && negb (astop_eqb o NOT).

Inductive WF : node -> Prop :=
| WF_term : forall s, WF (term s)
| WF_not : forall a, WF a -> WF (un NOT a)
| WF_bin : forall o a b, is_binlog o = true -> WF a -> WF b -> WF (bin o a b).

Lemma node_ind2 (P : node -> Prop) :
  (forall d, P (Node d None None)) ->
  (forall d a, P a -> P (Node d (Some a) None)) ->
  (forall d b, P b -> P (Node d None (Some b))) ->
  (forall d a b, P a -> P b -> P (Node d (Some a) (Some b))) ->
  forall n, P n.
Proof.
  intros H0 H1 H2 H3. fix IH 1. intros [d [a|] [b|]].
  - apply H3; apply IH.
  - apply H1; apply IH.
  - apply H2; apply IH.
  - apply H0.
Qed.

Lemma node_wf_WF : forall n, node_wf n = true -> WF n.
Proof.
  induction n as [d|d a IHa|d b IHb|d a b IHa IHb] using node_ind2; intros H.
  - destruct d as [o|s|z|f|b]; cbn in H; try discriminate.
    + destruct o; discriminate.
    + apply WF_term.
  - destruct d as [o|s|z|f|b]; cbn in H; try discriminate.
    destruct o; try discriminate. apply WF_not. auto.
  - destruct d as [o|s|z|f|b0]; cbn in H; try discriminate.
    destruct o; discriminate.
  - destruct d as [o|s|z|f|b0]; cbn in H; try discriminate.
    destruct o; cbn in H; try discriminate;
      apply andb_prop in H; destruct H as [Ha Hb];
      (apply WF_bin; [reflexivity|auto|auto]).
Qed.

Lemma WF_node_wf : forall n, WF n -> node_wf n = true.
Proof.
  induction 1 as [s|a Ha IHa|o a b Ho Ha IHa Hb IHb].
  - reflexivity.
  - exact IHa.
  - destruct o; try discriminate Ho; cbn; rewrite IHa, IHb; reflexivity.
Qed.

Lemma WF_iff : forall n, node_wf n = true <-> WF n.
Proof. split; [apply node_wf_WF|apply WF_node_wf]. Qed.

(* ------------------------------------------------------------------ evaluation *)

Lemma WF_eval : forall σ n, WF n -> exists b, eval σ n = Some b.
Proof.
  intros σ n H. induction H as [s|a Ha IHa|o a b Ho Ha IHa Hb IHb].
  - eexists; reflexivity.
  - destruct IHa as [x Hx]. exists (negb x). cbn. rewrite Hx. reflexivity.
  - destruct IHa as [x Hx], IHb as [y Hy].
    destruct o; try discriminate Ho; cbn; rewrite Hx, Hy; eexists; reflexivity.
Qed.

Lemma node_wf_eval : forall σ n, node_wf n = true -> exists b, eval σ n = Some b.
Proof. intros σ n H. apply WF_eval, node_wf_WF, H. Qed.

Lemma eval_evalb : forall σ n, WF n -> eval σ n = Some (evalb σ n).
Proof.
  intros σ n H. unfold evalb. destruct (WF_eval σ n H) as [b Hb]. rewrite Hb. reflexivity.
Qed.

Lemma eval_eq_evalb : forall σ n m, eval σ n = eval σ m -> evalb σ n = evalb σ m.
Proof. intros σ n m H. unfold evalb. rewrite H. reflexivity. Qed.

Lemma evalb_term : forall σ s, evalb σ (term s) = σ s.
Proof. reflexivity. Qed.

Lemma evalb_not : forall σ a, WF a -> evalb σ (un NOT a) = negb (evalb σ a).
Proof.
  intros σ a Ha. unfold evalb. cbn. destruct (WF_eval σ a Ha) as [x Hx]. rewrite Hx. reflexivity.
Qed.

Lemma evalb_and : forall σ a b, WF a -> WF b -> evalb σ (bin AND a b) = evalb σ a && evalb σ b.
Proof.
  intros σ a b Ha Hb. unfold evalb. cbn.
  destruct (WF_eval σ a Ha) as [x Hx]. destruct (WF_eval σ b Hb) as [y Hy].
  rewrite Hx, Hy. reflexivity.
Qed.

Lemma evalb_or : forall σ a b, WF a -> WF b -> evalb σ (bin OR a b) = evalb σ a || evalb σ b.
Proof.
  intros σ a b Ha Hb. unfold evalb. cbn.
  destruct (WF_eval σ a Ha) as [x Hx]. destruct (WF_eval σ b Hb) as [y Hy].
  rewrite Hx, Hy. reflexivity.
Qed.

(* ------------------------------------------------------------------ shapes of an operand *)

Lemma WF_shape : forall a, WF a ->
  (exists s, a = term s) \/ (exists s, a = un NOT (term s))
  \/ (is_term a = false /\ neg_of_term a = Ok false).
Proof.
  intros a H. destruct H as [s|a Ha|o a b Ho Ha Hb].
  - left. eexists; reflexivity.
  - destruct Ha as [s|a Ha|o a b Ho Ha Hb].
    + right; left. eexists; reflexivity.
    + right; right. split; reflexivity.
    + right; right. split; reflexivity.
  - right; right. destruct o; try discriminate Ho; split; reflexivity.
Qed.

Lemma is_term_WF : forall a, WF a -> is_term a = true -> exists s, a = term s.
Proof.
  intros a H E. destruct H as [s|a Ha|o a b Ho Ha Hb]; try discriminate E. eexists; reflexivity.
Qed.

(* unfolding equations of the classifiers on a binary node *)
Lemma is_requires_imp : forall o a b, o = REQUIRES \/ o = IMPLIES ->
  is_requires (bin o a b) = if is_term a then Ok (is_term b) else Ok false.
Proof. intros o a b [->| ->]; reflexivity. Qed.

Lemma is_requires_or : forall a b,
  is_requires (bin OR a b) =
  match neg_of_term a with Err e => Err e | Ok nl =>
  match neg_of_term b with Err e => Err e | Ok nr =>
    Ok ((nl && is_term b) || (nr && is_term a)) end end.
Proof. reflexivity. Qed.

Lemma is_excludes_exc : forall a b,
  is_excludes (bin EXCLUDES a b) = if is_term a then Ok (is_term b) else Ok false.
Proof. reflexivity. Qed.

Lemma is_excludes_imp : forall o a b, o = REQUIRES \/ o = IMPLIES ->
  is_excludes (bin o a b) =
  match neg_of_term b with Err e => Err e | Ok nr => Ok (is_term a && nr) end.
Proof. intros o a b [->| ->]; reflexivity. Qed.

Lemma is_excludes_or : forall a b,
  is_excludes (bin OR a b) =
  match neg_of_term a with Err e => Err e | Ok nl =>
  match neg_of_term b with Err e => Err e | Ok nr => Ok (nl && nr) end end.
Proof. reflexivity. Qed.

Ltac rw_shape H :=
  repeat match goal with
         | E : is_term ?a = false |- _ => rewrite E in H
         | E : neg_of_term ?a = Ok false |- _ => rewrite E in H
         end.
Ltac rw_shape_goal :=
  repeat match goal with
         | E : is_term ?a = false |- _ => rewrite E
         | E : neg_of_term ?a = Ok false |- _ => rewrite E
         end.
Ltac shape a Ha sa Ta Na := destruct (WF_shape a Ha) as [[sa ->]|[[sa ->]|[Ta Na]]].

(* ------------------------------------------------------------------ requires / excludes *)

Theorem requires_sound : forall n, node_wf n = true -> is_requires n = Ok true ->
  exists l r, left_right n = Ok (DStr l, DStr r) /\ forall σ, eval σ n = Some (implb (σ l) (σ r)).
Proof.
  intros n Hwf Hreq. apply node_wf_WF in Hwf.
  destruct Hwf as [s|a Ha|o a b Ho Ha Hb]; try (cbv in Hreq; discriminate Hreq).
  destruct o; try discriminate Ho; try (cbv in Hreq; discriminate Hreq).
  - (* REQUIRES *)
    rewrite is_requires_imp in Hreq by auto.
    shape a Ha sa Ta Na; shape b Hb sb Tb Nb; rw_shape Hreq; cbn in Hreq; try discriminate Hreq.
    exists sa, sb. split; [reflexivity|intros σ; reflexivity].
  - (* OR *)
    rewrite is_requires_or in Hreq.
    shape a Ha sa Ta Na; shape b Hb sb Tb Nb; rw_shape Hreq; cbn in Hreq; rw_shape Hreq;
      cbn in Hreq; try discriminate Hreq.
    + exists sb, sa. split; [reflexivity|]. intros σ. cbn. destruct (σ sa), (σ sb); reflexivity.
    + exists sa, sb. split; [reflexivity|]. intros σ. cbn. destruct (σ sa), (σ sb); reflexivity.
  - (* IMPLIES *)
    rewrite is_requires_imp in Hreq by auto.
    shape a Ha sa Ta Na; shape b Hb sb Tb Nb; rw_shape Hreq; cbn in Hreq; try discriminate Hreq.
    exists sa, sb. split; [reflexivity|intros σ; reflexivity].
Qed.

Theorem excludes_sound : forall n, node_wf n = true -> is_excludes n = Ok true ->
  exists l r, left_right n = Ok (DStr l, DStr r) /\ forall σ, eval σ n = Some (negb (σ l && σ r)).
Proof.
  intros n Hwf Hex. apply node_wf_WF in Hwf.
  destruct Hwf as [s|a Ha|o a b Ho Ha Hb]; try (cbv in Hex; discriminate Hex).
  destruct o; try discriminate Ho; try (cbv in Hex; discriminate Hex).
  - (* REQUIRES *)
    rewrite is_excludes_imp in Hex by auto.
    shape a Ha sa Ta Na; shape b Hb sb Tb Nb; rw_shape Hex; cbn in Hex; rw_shape Hex;
      cbn in Hex; try discriminate Hex.
    exists sa, sb. split; [reflexivity|]. intros σ. cbn. destruct (σ sa), (σ sb); reflexivity.
  - (* EXCLUDES *)
    rewrite is_excludes_exc in Hex.
    shape a Ha sa Ta Na; shape b Hb sb Tb Nb; rw_shape Hex; cbn in Hex; try discriminate Hex.
    exists sa, sb. split; [reflexivity|intros σ; reflexivity].
  - (* OR *)
    rewrite is_excludes_or in Hex.
    shape a Ha sa Ta Na; shape b Hb sb Tb Nb; rw_shape Hex; cbn in Hex; rw_shape Hex;
      cbn in Hex; try discriminate Hex.
    exists sa, sb. split; [reflexivity|]. intros σ. cbn. destruct (σ sa), (σ sb); reflexivity.
  - (* IMPLIES *)
    rewrite is_excludes_imp in Hex by auto.
    shape a Ha sa Ta Na; shape b Hb sb Tb Nb; rw_shape Hex; cbn in Hex; rw_shape Hex;
      cbn in Hex; try discriminate Hex.
    exists sa, sb. split; [reflexivity|]. intros σ. cbn. destruct (σ sa), (σ sb); reflexivity.
Qed.

(* the seven documented forms are classified as documented, for any two names *)
Theorem documented_forms : forall a b,
  is_requires (bin REQUIRES (term a) (term b)) = Ok true /\
  is_requires (bin IMPLIES (term a) (term b)) = Ok true /\
  is_requires (bin OR (un NOT (term a)) (term b)) = Ok true /\
  is_requires (bin OR (term b) (un NOT (term a))) = Ok true /\
  is_excludes (bin EXCLUDES (term a) (term b)) = Ok true /\
  is_excludes (bin IMPLIES (term a) (un NOT (term b))) = Ok true /\
  is_excludes (bin OR (un NOT (term a)) (un NOT (term b))) = Ok true.
Proof. intros a b. repeat split; reflexivity. Qed.

(* and the pair extracted for each of them is (a, b) *)
Theorem documented_pairs : forall a b,
  left_right (bin REQUIRES (term a) (term b)) = Ok (DStr a, DStr b) /\
  left_right (bin IMPLIES (term a) (term b)) = Ok (DStr a, DStr b) /\
  left_right (bin OR (un NOT (term a)) (term b)) = Ok (DStr a, DStr b) /\
  left_right (bin OR (term b) (un NOT (term a))) = Ok (DStr a, DStr b) /\
  left_right (bin EXCLUDES (term a) (term b)) = Ok (DStr a, DStr b) /\
  left_right (bin IMPLIES (term a) (un NOT (term b))) = Ok (DStr a, DStr b) /\
  left_right (bin OR (un NOT (term a)) (un NOT (term b))) = Ok (DStr a, DStr b).
Proof. intros a b. repeat split; reflexivity. Qed.

(* ------------------------------------------------------------------ mutual consistency *)

Theorem simple_def : forall n b1 b2,
  is_requires n = Ok b1 -> is_excludes n = Ok b2 -> is_simple n = Ok (b1 || b2).
Proof.
  intros n b1 b2 H1 H2. unfold is_simple. rewrite H1. destruct b1; [reflexivity|exact H2].
Qed.

Theorem complex_def : forall n b, is_simple n = Ok b -> is_complex n = Ok (is_logical n && negb b).
Proof.
  intros n b H. unfold is_complex. rewrite H. destruct (is_logical n); reflexivity.
Qed.

Lemma get_operators_not : forall a, get_operators (un NOT a) = NOT :: get_operators a.
Proof. reflexivity. Qed.

Lemma get_operators_bin : forall o a b, is_binlog o = true ->
  get_operators (bin o a b) = o :: get_operators a ++ get_operators b.
Proof. intros o a b Ho. destruct o; try discriminate Ho; reflexivity. Qed.

Lemma WF_is_logical : forall n, WF n -> is_logical n = true.
Proof.
  unfold is_logical. induction 1 as [s|a Ha IHa|o a b Ho Ha IHa Hb IHb].
  - reflexivity.
  - rewrite get_operators_not. cbn [forallb]. rewrite IHa. reflexivity.
  - rewrite get_operators_bin by exact Ho. cbn [forallb]. rewrite forallb_app, IHa, IHb.
    unfold is_binlog in Ho. apply andb_prop in Ho. destruct Ho as [Ho _]. rewrite Ho. reflexivity.
Qed.

(* get_operators of a well-formed tree: every operator, all of them logical *)
Fixpoint all_ops (n : node) : list astop :=
  match n with
  | Node d l r => (match d with DOp o => [o] | _ => [] end)
                  ++ (match l with Some a => all_ops a | None => [] end)
                  ++ (match r with Some b => all_ops b | None => [] end)
  end.

Lemma WF_get_operators : forall n, WF n ->
  get_operators n = all_ops n /\ Forall (fun o => op_in o logical_ops = true) (get_operators n).
Proof.
  intros n H. split.
  - induction H as [s|a Ha IHa|o a b Ho Ha IHa Hb IHb].
    + reflexivity.
    + rewrite get_operators_not, IHa. cbn. rewrite app_nil_r. reflexivity.
    + rewrite get_operators_bin by exact Ho. rewrite IHa, IHb. reflexivity.
  - apply Forall_forall. intros o Ho. pose proof (WF_is_logical n H) as L.
    unfold is_logical in L. rewrite forallb_forall in L. auto.
Qed.

Lemma WF_requires_ok : forall n, WF n -> exists b, is_requires n = Ok b.
Proof.
  intros n H. destruct H as [s|a Ha|o a b Ho Ha Hb]; try (eexists; reflexivity).
  destruct o; try discriminate Ho; try (eexists; reflexivity).
  - rewrite is_requires_imp by auto. destruct (is_term a); eexists; reflexivity.
  - rewrite is_requires_or.
    shape a Ha sa Ta Na; shape b Hb sb Tb Nb; rw_shape_goal; eexists; reflexivity.
  - rewrite is_requires_imp by auto. destruct (is_term a); eexists; reflexivity.
Qed.

Lemma WF_excludes_ok : forall n, WF n -> exists b, is_excludes n = Ok b.
Proof.
  intros n H. destruct H as [s|a Ha|o a b Ho Ha Hb]; try (eexists; reflexivity).
  destruct o; try discriminate Ho; try (eexists; reflexivity).
  - rewrite is_excludes_imp by auto.
    shape b Hb sb Tb Nb; rw_shape_goal; eexists; reflexivity.
  - rewrite is_excludes_exc. destruct (is_term a); eexists; reflexivity.
  - rewrite is_excludes_or.
    shape a Ha sa Ta Na; shape b Hb sb Tb Nb; rw_shape_goal; eexists; reflexivity.
  - rewrite is_excludes_imp by auto.
    shape b Hb sb Tb Nb; rw_shape_goal; eexists; reflexivity.
Qed.

(* no query raises on a well-formed tree *)
Theorem wf_no_error : forall n, node_wf n = true ->
  (exists b, is_requires n = Ok b) /\ (exists b, is_excludes n = Ok b) /\ (exists b, is_simple n = Ok b)
  /\ (exists b, is_complex n = Ok b) /\ is_logical n = true.
Proof.
  intros n Hwf. apply node_wf_WF in Hwf.
  destruct (WF_requires_ok n Hwf) as [b1 H1]. destruct (WF_excludes_ok n Hwf) as [b2 H2].
  pose proof (simple_def n b1 b2 H1 H2) as H3. pose proof (complex_def n _ H3) as H4.
  repeat split; try (eexists; eassumption). apply WF_is_logical, Hwf.
Qed.

Theorem requires_excludes_disjoint : forall n,
  node_wf n = true -> is_requires n = Ok true -> is_excludes n = Ok false.
Proof.
  intros n Hwf Hreq. apply node_wf_WF in Hwf.
  destruct Hwf as [s|a Ha|o a b Ho Ha Hb]; try (cbv in Hreq; discriminate Hreq).
  destruct o; try discriminate Ho; try (cbv in Hreq; discriminate Hreq).
  - rewrite is_requires_imp in Hreq by auto. rewrite is_excludes_imp by auto.
    shape a Ha sa Ta Na; shape b Hb sb Tb Nb; rw_shape Hreq; cbn in Hreq; try discriminate Hreq.
    reflexivity.
  - rewrite is_requires_or in Hreq. rewrite is_excludes_or.
    shape a Ha sa Ta Na; shape b Hb sb Tb Nb; rw_shape Hreq; cbn in Hreq; rw_shape Hreq;
      cbn in Hreq; try discriminate Hreq; reflexivity.
  - rewrite is_requires_imp in Hreq by auto. rewrite is_excludes_imp by auto.
    shape a Ha sa Ta Na; shape b Hb sb Tb Nb; rw_shape Hreq; cbn in Hreq; try discriminate Hreq.
    reflexivity.
Qed.

(* ------------------------------------------------------------------ the known defects *)

Definition sigma_B : string -> bool := fun s => String.eqb s "B".
Definition sigma_AB : string -> bool := fun s => String.eqb s "A" || String.eqb s "B".

(* A <=> B is split as if it were A => B : under A = false, B = true the constraint is false but
   every part is true *)
Theorem split_equivalence_refuted : exists n parts σ,
  node_wf n = true /\ split_asts n = Ok parts /\ evalb σ n <> forallb (evalb σ) parts.
Proof.
  exists (bin EQUIVALENCE (term "A") (term "B")).
  eexists. exists sigma_B.
  split; [reflexivity|]. split; [vm_compute; reflexivity|]. vm_compute. discriminate.
Qed.

(* A xor B is split into parts that are all true under A = B = true *)
Theorem split_xor_refuted : exists n parts σ,
  node_wf n = true /\ split_asts n = Ok parts /\ evalb σ n <> forallb (evalb σ) parts.
Proof.
  exists (bin XOR (term "A") (term "B")).
  eexists. exists sigma_AB.
  split; [reflexivity|]. split; [vm_compute; reflexivity|]. vm_compute. discriminate.
Qed.

(* ------------------------------------------------------------------ ctc_features *)

Lemma list_existsb_eq_In : forall s l, list_existsb_eq s l = true <-> In s l.
Proof.
  intros s l. induction l as [|x xs IH]; cbn.
  - split; [discriminate|tauto].
  - rewrite orb_true_iff, IH, String.eqb_eq. split; intros [H|H]; auto.
Qed.

Lemma add_once_spec : forall s acc, NoDup acc ->
  NoDup (add_once s acc) /\ forall x, In x (add_once s acc) <-> In x acc \/ x = s.
Proof.
  intros s acc Hnd. unfold add_once. destruct (list_existsb_eq s acc) eqn:E.
  - apply list_existsb_eq_In in E. split; [exact Hnd|].
    intros x. split; [tauto|]. intros [H| ->]; assumption.
  - assert (Hn : ~ In s acc).
    { intros Hin. apply list_existsb_eq_In in Hin. rewrite Hin in E. discriminate. }
    split.
    + clear E. induction acc as [|y ys IH]; cbn.
      * constructor; [tauto|constructor].
      * inversion Hnd as [|y' ys' Hy Hys]; subst. constructor.
        -- rewrite in_app_iff. cbn. intros [H|[H|[]]]; [tauto|]. subst. apply Hn. left; reflexivity.
        -- apply IH; [exact Hys|]. intros H. apply Hn. right; exact H.
    + intros x. rewrite in_app_iff. cbn. split.
      * intros [H|[H|[]]]; auto.
      * intros [H| ->]; auto.
Qed.

Lemma ctc_features_acc_bin : forall o a b acc, is_binlog o = true ->
  ctc_features_acc (bin o a b) acc = ctc_features_acc b (ctc_features_acc a acc).
Proof. intros o a b acc Ho. destruct o; try discriminate Ho; reflexivity. Qed.

Lemma leaf_names_bin : forall o a b, leaf_names (bin o a b) = leaf_names a ++ leaf_names b.
Proof. reflexivity. Qed.

Lemma ctc_features_acc_spec : forall n, WF n -> forall acc, NoDup acc ->
  NoDup (ctc_features_acc n acc) /\
  forall x, In x (ctc_features_acc n acc) <->
            In x acc \/ (In x (leaf_names n) /\ starts_with_char "'" x = false).
Proof.
  induction 1 as [s|a Ha IHa|o a b Ho Ha IHa Hb IHb]; intros acc Hnd.
  - change (ctc_features_acc (term s) acc)
      with (if starts_with_char "'" s then acc else add_once s acc).
    change (leaf_names (term s)) with [s].
    destruct (starts_with_char "'" s) eqn:Q.
    + split; [exact Hnd|]. intros x. split; [tauto|].
      intros [H|[[H|[]] Hq]]; [exact H|]. subst x. rewrite Q in Hq. discriminate.
    + destruct (add_once_spec s acc Hnd) as [N I]. split; [exact N|].
      intros x. rewrite I. split.
      * intros [H| ->]; [left; exact H|right]. split; [left; reflexivity|exact Q].
      * intros [H|[[H|[]] _]]; [left; exact H|right; symmetry; exact H].
  - change (ctc_features_acc (un NOT a) acc) with (ctc_features_acc a acc).
    change (leaf_names (un NOT a)) with (leaf_names a ++ []). rewrite app_nil_r.
    apply IHa, Hnd.
  - rewrite ctc_features_acc_bin by exact Ho. rewrite leaf_names_bin.
    destruct (IHa acc Hnd) as [Na Ia]. destruct (IHb _ Na) as [Nb Ib].
    split; [exact Nb|]. intros x. rewrite Ib, Ia, in_app_iff. tauto.
Qed.

(* the features reported are exactly the names occurring (quoted strings excluded), each once *)
Theorem features_exact : forall n, node_wf n = true ->
  NoDup (ctc_features n) /\
  forall s, In s (ctc_features n) <-> (In s (leaf_names n) /\ starts_with_char "'" s = false).
Proof.
  intros n Hwf. apply node_wf_WF in Hwf. unfold ctc_features.
  destruct (ctc_features_acc_spec n Hwf [] (NoDup_nil _)) as [N I]. split; [exact N|].
  intros s. rewrite I. cbn. tauto.
Qed.

(* ------------------------------------------------------------------ the three passes *)

Lemma no_xe_un : forall a, no_xe (un NOT a) = no_xe a.
Proof. intros a. cbn. apply andb_true_r. Qed.

Lemma no_xe_bin : forall o a b,
  no_xe (bin o a b)
  = negb (match o with XOR | EQUIVALENCE => true | _ => false end) && no_xe a && no_xe b.
Proof. reflexivity. Qed.

Lemma oaon_un : forall a, only_and_or_not (un NOT a) = only_and_or_not a.
Proof. intros a. cbn. apply andb_true_r. Qed.

Lemma oaon_bin : forall o a b,
  only_and_or_not (bin o a b)
  = (match o with AND | OR | NOT => true | _ => false end) && only_and_or_not a && only_and_or_not b.
Proof. reflexivity. Qed.

Lemma is_nnf_bin : forall o a b,
  is_nnf (bin o a b) = (astop_eqb o AND || astop_eqb o OR) && is_nnf a && is_nnf b.
Proof. intros o a b. destruct o; reflexivity. Qed.

Ltac split3 H H1 H2 H3 :=
  apply andb_prop in H; destruct H as [H H3]; apply andb_prop in H; destruct H as [H1 H2].

Lemma simplify_core : forall fuel n s, WF n -> no_xe n = true -> simplify_fuel fuel n = Ok s ->
  WF s /\ no_xe s = true /\ only_and_or_not s = true /\ forall σ, eval σ s = eval σ n.
Proof.
  induction fuel as [|fuel IH]; intros n s Hwf Hxe H; [discriminate H|].
  destruct Hwf as [t|a Ha|o a b Ho Ha Hb].
  - cbn in H. inversion H; subst s.
    split; [constructor|]. repeat split; reflexivity.
  - cbn in H. rewrite no_xe_un in Hxe.
    destruct (simplify_fuel fuel a) as [a'|e] eqn:Ea; [|discriminate H].
    inversion H; subst s; clear H.
    destruct (IH a a' Ha Hxe Ea) as (Wa & Xa' & Oa & Ea').
    split; [constructor; exact Wa|].
    split; [rewrite no_xe_un; exact Xa'|].
    split; [rewrite oaon_un; exact Oa|].
    intros σ. cbn. rewrite Ea'. reflexivity.
  - rewrite no_xe_bin in Hxe. split3 Hxe Xo Xa Xb.
    destruct o; try discriminate Ho; try discriminate Xo;
      cbn in H;
      (destruct (simplify_fuel fuel a) as [a'|e] eqn:Ea; [|discriminate H]);
      (destruct (simplify_fuel fuel b) as [b'|e'] eqn:Eb; [|discriminate H]);
      inversion H; subst s; clear H;
      destruct (IH a a' Ha Xa Ea) as (Wa & Xa' & Oa & Ea');
      destruct (IH b b' Hb Xb Eb) as (Wb & Xb' & Ob & Eb');
      (split; [repeat constructor; assumption|]);
      (split; [cbn; rewrite Xa', Xb'; reflexivity|]);
      (split; [cbn; rewrite Oa, Ob; reflexivity|]);
      intros σ; cbn; rewrite Ea', Eb';
      destruct (eval σ a) as [[|]|]; destruct (eval σ b) as [[|]|]; reflexivity.
Qed.

Theorem simplify_sound : forall fuel n s σ,
  node_wf n = true -> no_xe n = true -> simplify_fuel fuel n = Ok s ->
  node_wf s = true /\ no_xe s = true /\ only_and_or_not s = true /\ evalb σ s = evalb σ n.
Proof.
  intros fuel n s σ Hwf Hxe H. apply node_wf_WF in Hwf.
  destruct (simplify_core fuel n s Hwf Hxe H) as (W & X & O & E).
  split; [apply WF_node_wf, W|]. repeat split; try assumption. apply eval_eq_evalb, E.
Qed.

Lemma nnf_core : forall n, WF n -> only_and_or_not n = true ->
  forall neg s, propagate_negation n neg = Ok s ->
  WF s /\ is_nnf s = true /\ forall σ, evalb σ s = if neg then negb (evalb σ n) else evalb σ n.
Proof.
  induction 1 as [t|a Ha IHa|o a b Ho Ha IHa Hb IHb]; intros O neg s H.
  - cbn in H. inversion H; subst s. destruct neg.
    + split; [repeat constructor|]. split; reflexivity.
    + split; [constructor|]. split; reflexivity.
  - cbn in H. rewrite oaon_un in O.
    destruct (IHa O (negb neg) s H) as (W & N & E).
    split; [exact W|]. split; [exact N|].
    intros σ. rewrite E, evalb_not by exact Ha. destruct neg; cbn; [|reflexivity].
    rewrite negb_involutive. reflexivity.
  - rewrite oaon_bin in O. split3 O Oo Oa Ob.
    destruct o; try discriminate Ho; try discriminate Oo;
      cbn in H;
      (destruct (propagate_negation a neg) as [a'|e] eqn:Ea; [|discriminate H]);
      (destruct (propagate_negation b neg) as [b'|e'] eqn:Eb; [|discriminate H]);
      inversion H; subst s; clear H;
      destruct (IHa Oa neg a' Ea) as (Wa & Na & Ea');
      destruct (IHb Ob neg b' Eb) as (Wb & Nb & Eb');
      destruct neg;
      (split; [constructor; [reflexivity|assumption|assumption]|]);
      (split; [rewrite is_nnf_bin, Na, Nb; reflexivity|]);
      intros σ;
      rewrite ?evalb_and, ?evalb_or, ?Ea', ?Eb' by assumption;
      destruct (evalb σ a), (evalb σ b); reflexivity.
Qed.

Theorem nnf_sound : forall n neg s σ,
  node_wf n = true -> only_and_or_not n = true -> propagate_negation n neg = Ok s ->
  node_wf s = true /\ is_nnf s = true /\ evalb σ s = (if neg then negb (evalb σ n) else evalb σ n).
Proof.
  intros n neg s σ Hwf O H. apply node_wf_WF in Hwf.
  destruct (nnf_core n Hwf O neg s H) as (W & N & E).
  split; [apply WF_node_wf, W|]. split; [exact N|apply E].
Qed.

Lemma to_cnf_and : forall fuel a b,
  to_cnf_fuel (S fuel) (bin AND a b) =
  match to_cnf_fuel fuel a with Err e => Err e | Ok l' =>
  match to_cnf_fuel fuel b with Err e => Err e | Ok r' => Ok (bin AND l' r') end end.
Proof. reflexivity. Qed.

Lemma to_cnf_or : forall fuel a b,
  to_cnf_fuel (S fuel) (bin OR a b) =
  match to_cnf_fuel fuel a with Err e => Err e | Ok l' =>
  match to_cnf_fuel fuel b with Err e => Err e | Ok r' =>
    if data_is AND l' then
      to_cnf_fuel fuel (bin AND (Node (DOp OR) (n_left l') (Some r')) (Node (DOp OR) (n_right l') (Some r')))
    else if data_is AND r' then
      to_cnf_fuel fuel (bin AND (Node (DOp OR) (Some l') (n_left r')) (Node (DOp OR) (Some l') (n_right r')))
    else Ok (bin OR l' r')
  end end.
Proof. reflexivity. Qed.

Lemma WF_data_is_and : forall x, WF x -> data_is AND x = true ->
  exists x1 x2, x = bin AND x1 x2 /\ WF x1 /\ WF x2.
Proof.
  intros x H D. destruct H as [t|a Ha|o a b Ho Ha Hb]; try discriminate D.
  destruct o; try discriminate D. exists a, b. auto.
Qed.

Lemma cnf_core : forall fuel n s, WF n -> is_nnf n = true -> to_cnf_fuel fuel n = Ok s ->
  WF s /\ is_nnf s = true /\ forall σ, evalb σ s = evalb σ n.
Proof.
  induction fuel as [|fuel IH]; intros n s Hwf N H; [discriminate H|].
  destruct Hwf as [t|a Ha|o a b Ho Ha Hb].
  - cbn in H. inversion H; subst s. split; [constructor|]. split; reflexivity.
  - cbn in H. inversion H; subst s. split; [constructor; exact Ha|]. split; [exact N|reflexivity].
  - rewrite is_nnf_bin in N. split3 N No Na Nb.
    destruct o; try discriminate Ho; try discriminate No.
    + (* AND *)
      rewrite to_cnf_and in H.
      destruct (to_cnf_fuel fuel a) as [a'|e] eqn:Ea; [|discriminate H].
      destruct (to_cnf_fuel fuel b) as [b'|e'] eqn:Eb; [|discriminate H].
      inversion H; subst s; clear H.
      destruct (IH a a' Ha Na Ea) as (Wa & Na' & Ea').
      destruct (IH b b' Hb Nb Eb) as (Wb & Nb' & Eb').
      split; [constructor; [reflexivity|assumption|assumption]|].
      split; [rewrite is_nnf_bin, Na', Nb'; reflexivity|].
      intros σ. rewrite !evalb_and, Ea', Eb' by assumption. reflexivity.
    + (* OR *)
      rewrite to_cnf_or in H.
      destruct (to_cnf_fuel fuel a) as [a'|e] eqn:Ea; [|discriminate H].
      destruct (to_cnf_fuel fuel b) as [b'|e'] eqn:Eb; [|discriminate H].
      destruct (IH a a' Ha Na Ea) as (Wa & Na' & Ea').
      destruct (IH b b' Hb Nb Eb) as (Wb & Nb' & Eb').
      destruct (data_is AND a') eqn:Da.
      * destruct (WF_data_is_and a' Wa Da) as (x & y & -> & Wx & Wy).
        cbn [n_left n_right] in H.
        rewrite is_nnf_bin in Na'. split3 Na' Nxo Nx Ny.
        assert (Wn : WF (bin AND (bin OR x b') (bin OR y b'))).
        { repeat (constructor; try reflexivity; try assumption). }
        assert (Nn : is_nnf (bin AND (bin OR x b') (bin OR y b')) = true).
        { rewrite !is_nnf_bin, Nx, Ny, Nb'. reflexivity. }
        destruct (IH _ s Wn Nn H) as (Ws & Ns & Es).
        split; [exact Ws|]. split; [exact Ns|].
        intros σ. rewrite Es.
        assert (Wxb : WF (bin OR x b')) by (constructor; [reflexivity|assumption|assumption]).
        assert (Wyb : WF (bin OR y b')) by (constructor; [reflexivity|assumption|assumption]).
        rewrite evalb_and by assumption. rewrite !evalb_or by assumption.
        rewrite <- Ea', <- Eb'. rewrite evalb_and by assumption.
        destruct (evalb σ x), (evalb σ y), (evalb σ b'); reflexivity.
      * destruct (data_is AND b') eqn:Db.
        -- destruct (WF_data_is_and b' Wb Db) as (x & y & -> & Wx & Wy).
           cbn [n_left n_right] in H.
           rewrite is_nnf_bin in Nb'. split3 Nb' Nxo Nx Ny.
           assert (Wn : WF (bin AND (bin OR a' x) (bin OR a' y))).
           { repeat (constructor; try reflexivity; try assumption). }
           assert (Nn : is_nnf (bin AND (bin OR a' x) (bin OR a' y)) = true).
           { rewrite !is_nnf_bin, Nx, Ny, Na'. reflexivity. }
           destruct (IH _ s Wn Nn H) as (Ws & Ns & Es).
           split; [exact Ws|]. split; [exact Ns|].
           intros σ. rewrite Es.
           assert (Wxb : WF (bin OR a' x)) by (constructor; [reflexivity|assumption|assumption]).
           assert (Wyb : WF (bin OR a' y)) by (constructor; [reflexivity|assumption|assumption]).
           rewrite evalb_and by assumption. rewrite !evalb_or by assumption.
           rewrite <- Ea', <- Eb'. rewrite evalb_and by assumption.
           destruct (evalb σ x), (evalb σ y), (evalb σ a'); reflexivity.
        -- inversion H; subst s; clear H.
           split; [constructor; [reflexivity|assumption|assumption]|].
           split; [rewrite is_nnf_bin, Na', Nb'; reflexivity|].
           intros σ. rewrite !evalb_or, Ea', Eb' by assumption. reflexivity.
Qed.

Theorem cnf_sound : forall fuel n s σ,
  node_wf n = true -> is_nnf n = true -> to_cnf_fuel fuel n = Ok s ->
  node_wf s = true /\ is_nnf s = true /\ evalb σ s = evalb σ n.
Proof.
  intros fuel n s σ Hwf N H. apply node_wf_WF in Hwf.
  destruct (cnf_core fuel n s Hwf N H) as (W & N' & E).
  split; [apply WF_node_wf, W|]. split; [exact N'|apply E].
Qed.

(* ------------------------------------------------------------------ splitting *)

(* a property inherited by the operands of a root AND *)
Definition and_closed (P : node -> Prop) : Prop := forall a b, P (bin AND a b) -> P a /\ P b.

Lemma and_closed_true : and_closed (fun _ => True).
Proof. intros a b _. split; exact I. Qed.

Lemma and_closed_no_xe : and_closed (fun n => no_xe n = true).
Proof.
  intros a b H. rewrite no_xe_bin in H. split3 H H1 H2 H3. split; assumption.
Qed.

Lemma and_closed_oaon : and_closed (fun n => only_and_or_not n = true).
Proof.
  intros a b H. rewrite oaon_bin in H. split3 H H1 H2 H3. split; assumption.
Qed.

Lemma and_closed_nnf : and_closed (fun n => is_nnf n = true).
Proof.
  intros a b H. rewrite is_nnf_bin in H. split3 H H1 H2 H3. split; assumption.
Qed.

Lemma split_formula_and : forall a b,
  split_formula (bin AND a b) =
  match split_formula a with Err e => Err e | Ok la =>
  match split_formula b with Err e => Err e | Ok lb => Ok (la ++ lb) end end.
Proof. reflexivity. Qed.

Lemma split_formula_core : forall (P : node -> Prop), and_closed P ->
  forall n, WF n -> P n -> forall parts, split_formula n = Ok parts ->
  Forall (fun p => WF p /\ P p) parts /\ forall σ, evalb σ n = forallb (evalb σ) parts.
Proof.
  intros P HP. induction 1 as [t|a Ha IHa|o a b Ho Ha IHa Hb IHb]; intros Pn parts H.
  - cbn in H. inversion H; subst parts. split.
    + constructor; [split; [constructor|exact Pn]|constructor].
    + intros σ. cbn. rewrite andb_true_r. reflexivity.
  - cbn in H. inversion H; subst parts. split.
    + constructor; [split; [constructor; exact Ha|exact Pn]|constructor].
    + intros σ. cbn [forallb]. rewrite andb_true_r. reflexivity.
  - assert (Hdef : forall parts', Ok [bin o a b] = Ok parts' ->
              Forall (fun p => WF p /\ P p) parts' /\
              forall σ, evalb σ (bin o a b) = forallb (evalb σ) parts').
    { intros parts' E. inversion E; subst parts'. split.
      - constructor; [split; [constructor; assumption|exact Pn]|constructor].
      - intros σ. cbn [forallb]. rewrite andb_true_r. reflexivity. }
    destruct o; try discriminate Ho; try (apply Hdef; exact H).
    clear Hdef. rewrite split_formula_and in H.
    destruct (split_formula a) as [la|e] eqn:Ea; [|discriminate H].
    destruct (split_formula b) as [lb|e'] eqn:Eb; [|discriminate H].
    inversion H; subst parts; clear H.
    destruct (HP a b Pn) as [Pa Pb].
    destruct (IHa Pa la eq_refl) as [Fa Va]. destruct (IHb Pb lb eq_refl) as [Fb Vb].
    split; [apply Forall_app; split; assumption|].
    intros σ. rewrite forallb_app, <- Va, <- Vb. apply evalb_and; assumption.
Qed.

Theorem split_formula_sound : forall n parts σ, node_wf n = true -> split_formula n = Ok parts ->
  Forall (fun p => node_wf p = true) parts /\ evalb σ n = forallb (evalb σ) parts.
Proof.
  intros n parts σ Hwf H. apply node_wf_WF in Hwf.
  destruct (split_formula_core _ and_closed_true n Hwf I parts H) as [F V].
  split; [|apply V].
  eapply Forall_impl; [|exact F]. intros p [W _]. apply WF_node_wf, W.
Qed.

Lemma mapM_cons : forall {A B} (f : A -> result B) x xs,
  mapM f (x :: xs) =
  match f x with Err e => Err e | Ok y =>
  match mapM f xs with Err e => Err e | Ok ys => Ok (y :: ys) end end.
Proof. reflexivity. Qed.

Lemma mapM_Forall2 : forall {A B} (f : A -> result B) l l',
  mapM f l = Ok l' -> Forall2 (fun x y => f x = Ok y) l l'.
Proof.
  intros A B f l. induction l as [|x xs IH]; intros l' H.
  - cbn in H. inversion H. constructor.
  - rewrite mapM_cons in H.
    destruct (f x) as [y|e] eqn:Ex; [|discriminate H].
    destruct (mapM f xs) as [ys|e] eqn:Exs; [|discriminate H].
    inversion H; subst l'. constructor; [exact Ex|apply IH; reflexivity].
Qed.

Lemma flat_split_core : forall (P : node -> Prop), and_closed P ->
  forall l l', Forall (fun p => WF p /\ P p) l -> flat_mapM split_formula l = Ok l' ->
  Forall (fun p => WF p /\ P p) l' /\ forall σ, forallb (evalb σ) l = forallb (evalb σ) l'.
Proof.
  intros P HP l. unfold flat_mapM. induction l as [|x xs IH]; intros l' F H.
  - cbn in H. inversion H; subst l'. split; [constructor|reflexivity].
  - rewrite mapM_cons in H.
    destruct (split_formula x) as [px|e] eqn:Ex; [|discriminate H].
    destruct (mapM split_formula xs) as [pxs|e] eqn:Exs; [|discriminate H].
    inversion H; subst l'; clear H. inversion F as [|x' xs' [Wx Px] Fxs]; subst.
    destruct (split_formula_core P HP x Wx Px px Ex) as [Fx Vx].
    destruct (IH (List.concat pxs) Fxs eq_refl) as [Fr Vr].
    cbn [List.concat]. split; [apply Forall_app; split; assumption|].
    intros σ. cbn [forallb]. rewrite forallb_app, <- Vx, <- Vr. reflexivity.
Qed.

Lemma map_step_core : forall (pre post : node -> Prop) (f : node -> result node),
  (forall x y, pre x -> f x = Ok y -> post y /\ forall σ, evalb σ y = evalb σ x) ->
  forall l l', Forall pre l -> mapM f l = Ok l' ->
  Forall post l' /\ forall σ, forallb (evalb σ) l = forallb (evalb σ) l'.
Proof.
  intros pre post f Hf l l' F H. apply mapM_Forall2 in H.
  induction H as [|x y xs ys Hxy _ IH].
  - split; [constructor|reflexivity].
  - inversion F as [|x' xs' Px Fxs]; subst.
    destruct (Hf x y Px Hxy) as [Py Vy]. destruct (IH Fxs) as [Fr Vr].
    split; [constructor; assumption|].
    intros σ. cbn [forallb]. rewrite Vy, Vr. reflexivity.
Qed.

Lemma split_core : forall n parts, WF n -> no_xe n = true -> split_asts n = Ok parts ->
  Forall (fun p => WF p /\ is_nnf p = true) parts /\ forall σ, evalb σ n = forallb (evalb σ) parts.
Proof.
  intros n parts Hwf Hxe H. unfold split_asts in H.
  destruct (split_formula n) as [l0|e] eqn:E0; [|discriminate H].
  destruct (mapM (fun a => simplify_fuel (default_fuel a) a) l0) as [l1|e] eqn:E1; [|discriminate H].
  destruct (flat_mapM split_formula l1) as [l2|e] eqn:E2; [|discriminate H].
  destruct (mapM (fun a => propagate_negation a false) l2) as [l3|e] eqn:E3; [|discriminate H].
  destruct (flat_mapM split_formula l3) as [l4|e] eqn:E4; [|discriminate H].
  destruct (mapM (fun a => to_cnf_fuel (default_fuel a) a) l4) as [l5|e] eqn:E5; [|discriminate H].
  destruct (split_formula_core _ and_closed_no_xe n Hwf Hxe l0 E0) as [F0 V0].
  assert (S1 : forall x y, WF x /\ no_xe x = true -> simplify_fuel (default_fuel x) x = Ok y ->
               (WF y /\ only_and_or_not y = true) /\ forall σ, evalb σ y = evalb σ x).
  { intros x y [Wx Xx] Hxy. destruct (simplify_core _ x y Wx Xx Hxy) as (Wy & _ & Oy & Ey).
    split; [split; assumption|]. intros σ. apply eval_eq_evalb, Ey. }
  destruct (map_step_core _ _ _ S1 l0 l1 F0 E1) as [F1 V1].
  destruct (flat_split_core _ and_closed_oaon l1 l2 F1 E2) as [F2 V2].
  assert (S3 : forall x y, WF x /\ only_and_or_not x = true -> propagate_negation x false = Ok y ->
               (WF y /\ is_nnf y = true) /\ forall σ, evalb σ y = evalb σ x).
  { intros x y [Wx Ox] Hxy. destruct (nnf_core x Wx Ox false y Hxy) as (Wy & Ny & Ey).
    split; [split; assumption|exact Ey]. }
  destruct (map_step_core _ _ _ S3 l2 l3 F2 E3) as [F3 V3].
  destruct (flat_split_core _ and_closed_nnf l3 l4 F3 E4) as [F4 V4].
  assert (S5 : forall x y, WF x /\ is_nnf x = true -> to_cnf_fuel (default_fuel x) x = Ok y ->
               (WF y /\ is_nnf y = true) /\ forall σ, evalb σ y = evalb σ x).
  { intros x y [Wx Nx] Hxy. destruct (cnf_core _ x y Wx Nx Hxy) as (Wy & Ny & Ey).
    split; [split; assumption|exact Ey]. }
  destruct (map_step_core _ _ _ S5 l4 l5 F4 E5) as [F5 V5].
  destruct (flat_split_core _ and_closed_nnf l5 parts F5 H) as [F6 V6].
  split; [exact F6|].
  intros σ. rewrite V0, V1, V2, V3, V4, V5, V6. reflexivity.
Qed.

(* splitting: the conjunction of the parts is equivalent to the constraint *)
Theorem split_sound : forall n parts, node_wf n = true -> no_xe n = true -> split_asts n = Ok parts ->
  Forall (fun p => node_wf p = true) parts /\ forall σ, evalb σ n = forallb (evalb σ) parts.
Proof.
  intros n parts Hwf Hxe H. apply node_wf_WF in Hwf.
  destruct (split_core n parts Hwf Hxe H) as [F V]. split; [|exact V].
  eapply Forall_impl; [|exact F]. intros p [W _]. apply WF_node_wf, W.
Qed.

(* ------------------------------------------------------------------ pseudo- / strict-complex *)

Definition simple_b (p : node) : bool := match is_simple p with Ok b => b | Err _ => false end.

Lemma WF_simple_b : forall p, WF p ->
  is_simple p = Ok (simple_b p) /\ is_complex p = Ok (negb (simple_b p)).
Proof.
  intros p W. destruct (wf_no_error p (WF_node_wf p W)) as (_ & _ & [b Hb] & _ & L).
  unfold simple_b. rewrite Hb. split; [reflexivity|].
  rewrite (complex_def p b Hb), L. reflexivity.
Qed.

Lemma forallM_ok : forall {A} (f : A -> result bool) (g : A -> bool) l,
  Forall (fun x => f x = Ok (g x)) l -> forallM f l = Ok (forallb g l).
Proof.
  intros A f g l F. induction F as [|x xs Hx _ IH]; [reflexivity|].
  cbn. rewrite Hx. destruct (g x); [exact IH|reflexivity].
Qed.

Lemma existsM_ok : forall {A} (f : A -> result bool) (g : A -> bool) l,
  Forall (fun x => f x = Ok (g x)) l -> existsM f l = Ok (existsb g l).
Proof.
  intros A f g l F. induction F as [|x xs Hx _ IH]; [reflexivity|].
  cbn. rewrite Hx. destruct (g x); [reflexivity|exact IH].
Qed.

Lemma xorb_forall_exists : forall {A} (g : A -> bool) l,
  xorb (forallb g l) (existsb (fun x => negb (g x)) l) = true.
Proof.
  intros A g l. induction l as [|x xs IH]; [reflexivity|].
  cbn. destruct (g x); cbn; [exact IH|reflexivity].
Qed.

(* every complex constraint is exactly one of pseudo- / strict-complex (when the split returns) *)
Theorem pseudo_xor_strict : forall n parts, node_wf n = true -> no_xe n = true ->
  is_complex n = Ok true -> split_asts n = Ok parts ->
  exists p s, is_pseudocomplex n = Ok p /\ is_strictcomplex n = Ok s /\ xorb p s = true.
Proof.
  intros n parts Hwf Hxe Hc Hs.
  destruct (split_sound n parts Hwf Hxe Hs) as [F _].
  unfold is_pseudocomplex, is_strictcomplex. rewrite Hc, Hs.
  exists (forallb simple_b parts), (existsb (fun x => negb (simple_b x)) parts).
  split; [|split].
  - apply forallM_ok. eapply Forall_impl; [|exact F].
    intros p W. apply WF_simple_b, node_wf_WF, W.
  - apply (existsM_ok is_complex (fun x => negb (simple_b x))). eapply Forall_impl; [|exact F].
    intros p W. apply WF_simple_b, node_wf_WF, W.
  - apply xorb_forall_exists.
Qed.

Theorem pseudo_strict_inside_complex : forall n, is_complex n = Ok false ->
  is_pseudocomplex n = Ok false /\ is_strictcomplex n = Ok false.
Proof.
  intros n H. unfold is_pseudocomplex, is_strictcomplex. rewrite H. split; reflexivity.
Qed.

(* ------------------------------------------------------------------ assumptions *)
Print Assumptions node_wf_eval.
Print Assumptions requires_sound.
Print Assumptions excludes_sound.
Print Assumptions documented_forms.
Print Assumptions documented_pairs.
Print Assumptions wf_no_error.
Print Assumptions simple_def.
Print Assumptions complex_def.
Print Assumptions requires_excludes_disjoint.
Print Assumptions simplify_sound.
Print Assumptions nnf_sound.
Print Assumptions cnf_sound.
Print Assumptions split_formula_sound.
Print Assumptions split_sound.
Print Assumptions pseudo_xor_strict.
Print Assumptions pseudo_strict_inside_complex.
Print Assumptions features_exact.
Print Assumptions split_equivalence_refuted.
Print Assumptions split_xor_refuted.
