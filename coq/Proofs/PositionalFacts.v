(* Proofs/PositionalFacts.v — the positional spelling of a real value (Base/Str.v, py_positional: what the AFM and the
   Clafer writer write for a float) never contains an exponent mark: neither grammar has one in its DOUBLE token. *)
From Coq Require Import List Bool Ascii String ZArith Lia.
From FM Require Import Base.Str.
Import ListNotations.
Local Open Scope list_scope.

Lemma forallb_append P : forall a b, str_forallb P (a ++ b)%string = str_forallb P a && str_forallb P b.
Proof. induction a as [|c a IH]; intros b; cbn [append str_forallb]; [reflexivity|]. rewrite IH, andb_assoc. reflexivity. Qed.

Lemma forallb_rev_acc P : forall s acc, str_forallb P (str_rev_acc s acc) = str_forallb P s && str_forallb P acc.
Proof.
  induction s as [|c s IH]; intros acc; cbn [str_rev_acc str_forallb]; [reflexivity|].
  rewrite IH. cbn [str_forallb]. destruct (P c), (str_forallb P s), (str_forallb P acc); reflexivity.
Qed.

Lemma forallb_rev P s : str_forallb P (str_rev s) = str_forallb P s.
Proof. unfold str_rev. rewrite forallb_rev_acc. cbn [str_forallb]. apply andb_true_r. Qed.

Lemma forallb_take P : forall n s, str_forallb P s = true -> str_forallb P (str_take n s) = true.
Proof.
  induction n as [|n IH]; intros [|c s] H; cbn [str_take str_forallb] in *; try reflexivity.
  apply andb_prop in H. destruct H as [Hc Hs]. rewrite Hc. exact (IH _ Hs).
Qed.

Lemma forallb_drop P : forall n s, str_forallb P s = true -> str_forallb P (str_drop n s) = true.
Proof.
  induction n as [|n IH]; intros [|c s] H; cbn [str_drop str_forallb] in *; try assumption; try reflexivity.
  apply andb_prop in H. exact (IH _ (proj2 H)).
Qed.

Lemma forallb_zeros P n : P "0"%char = true -> str_forallb P (str_zeros n) = true.
Proof. intros H. induction n as [|n IH]; cbn [str_zeros str_forallb]; [reflexivity|]. rewrite H, IH. reflexivity. Qed.

(* the pieces of a split are made of characters of the text, and none of them contains the separator *)
Lemma split_pieces P c : forall s cur, str_forallb P s = true -> str_forallb P cur = true ->
  Forall (fun x => str_forallb P x = true) (str_split_aux c s cur).
Proof.
  induction s as [|d s IH]; intros cur Hs Hc; cbn [str_split_aux].
  - constructor; [rewrite forallb_rev; exact Hc|constructor].
  - cbn [str_forallb] in Hs. apply andb_prop in Hs. destruct Hs as [Hd Hs].
    destruct (Ascii.eqb c d).
    + constructor; [rewrite forallb_rev; exact Hc|]. apply IH; [exact Hs|reflexivity].
    + apply IH; [exact Hs|]. cbn [str_forallb]. rewrite Hd, Hc. reflexivity.
Qed.

Lemma split_no_sep c : forall s cur, str_forallb (fun d => negb (Ascii.eqb c d)) cur = true ->
  Forall (fun x => str_forallb (fun d => negb (Ascii.eqb c d)) x = true) (str_split_aux c s cur).
Proof.
  induction s as [|d s IH]; intros cur Hc; cbn [str_split_aux].
  - constructor; [rewrite forallb_rev; exact Hc|constructor].
  - destruct (Ascii.eqb c d) eqn:E.
    + constructor; [rewrite forallb_rev; exact Hc|]. apply IH. reflexivity.
    + apply IH. cbn [str_forallb]. rewrite E, Hc. reflexivity.
Qed.

Lemma split_nonempty c : forall s cur, str_split_aux c s cur <> [].
Proof.
  induction s as [|d s IH]; intros cur; cbn [str_split_aux]; [discriminate|].
  destruct (Ascii.eqb c d); [discriminate|apply IH].
Qed.

(* a split that gives one piece found no separator *)
Lemma split_single c : forall s cur x, str_split_aux c s cur = [x] ->
  str_forallb (fun d => negb (Ascii.eqb c d)) s = true.
Proof.
  induction s as [|d s IH]; intros cur x H; cbn [str_split_aux str_forallb] in *; [reflexivity|].
  destruct (Ascii.eqb c d).
  - exfalso. injection H as _ H. exact (split_nonempty _ _ _ H).
  - cbn [negb andb]. exact (IH _ _ H).
Qed.

Definition no_e (s : string) : bool := str_forallb (fun d => negb (Ascii.eqb "e"%char d)) s.

Theorem py_positional_no_exponent : forall r t, py_positional r = Some t -> no_e t = true.
Proof.
  intros r t H. unfold py_positional in H.
  set (neg := starts_with_char "-" r) in *.
  set (body := if neg then str_drop 1 r else r) in *.
  destruct (str_forallb _ body) eqn:Hchars; [|discriminate].
  destruct (str_split "e" body) as [|m [|ex [|z rest]]] eqn:Hsp; try discriminate.
  - (* no exponent in the repr: returned as it is *)
    injection H as <-. unfold str_split in Hsp. pose proof (split_single _ _ _ _ Hsp) as Hb.
    unfold no_e. subst body. destruct neg eqn:Hn; [|exact Hb].
    destruct r as [|c r']; [reflexivity|]. cbn [str_drop] in Hb. cbn [str_forallb].
    unfold neg, starts_with_char in Hn. cbn [str_first] in Hn.
    apply Ascii.eqb_eq in Hn. subst c. exact Hb.
  - (* mantissa e exponent *)
    destruct (string_to_z (str_remove_char "+" ex)) as [e|]; [|discriminate].
    pose proof (split_no_sep "e"%char body ""%string eq_refl) as Hpieces.
    unfold str_split in Hsp. rewrite Hsp in Hpieces. inversion Hpieces as [|? ? Hm _]; subst.
    fold (no_e m) in Hm.
    pose proof (split_pieces (fun d => negb (Ascii.eqb "e"%char d)) "."%char m ""%string Hm eq_refl) as Hparts.
    fold (str_split "." m) in Hparts.
    set (parts := str_split "." m) in *.
    assert (Hip : no_e (match parts with x :: _ => x | [] => EmptyString end) = true).
    { destruct parts as [|x xs]; [reflexivity|]. inversion Hparts; assumption. }
    assert (Hfp : no_e (match parts with _ :: y :: _ => y | _ => EmptyString end) = true).
    { destruct parts as [|x [|y ys]]; try reflexivity. inversion Hparts as [|? ? _ H2]; subst. inversion H2; assumption. }
    set (ip := match parts with x :: _ => x | [] => EmptyString end) in *.
    set (fp := match parts with _ :: y :: _ => y | _ => EmptyString end) in *.
    assert (Hd : no_e (ip ++ fp) = true) by (unfold no_e in *; rewrite forallb_append, Hip, Hfp; reflexivity).
    assert (Hz : forall n, no_e (str_zeros n) = true) by (intros n; apply forallb_zeros; reflexivity).
    injection H as <-.
    assert (Hall : no_e
      (if (Z.of_nat (String.length (ip ++ fp)) <=? Z.of_nat (String.length ip) + e)%Z
       then ((ip ++ fp) ++ str_zeros (Z.to_nat (Z.of_nat (String.length ip) + e - Z.of_nat (String.length (ip ++ fp)))) ++ ".0")%string
       else if (0 <? Z.of_nat (String.length ip) + e)%Z
            then (str_take (Z.to_nat (Z.of_nat (String.length ip) + e)) (ip ++ fp) ++ "." ++
                  str_drop (Z.to_nat (Z.of_nat (String.length ip) + e)) (ip ++ fp))%string
            else ("0." ++ str_zeros (Z.to_nat (- (Z.of_nat (String.length ip) + e))) ++ (ip ++ fp))%string) = true).
    { unfold no_e in *.
      destruct (_ <=? _)%Z; [|destruct (0 <? _)%Z]; rewrite !forallb_append; cbn [str_forallb];
        rewrite ?Hip, ?Hfp, ?Hz, ?(forallb_take _ _ _ Hd), ?(forallb_drop _ _ _ Hd); reflexivity. }
    destruct neg; [unfold no_e in *; cbn [str_forallb]; exact Hall|exact Hall].
Qed.
Print Assumptions py_positional_no_exponent.
