(* Proofs/SrcUvlFacts.v — the source tie for the UVL writer (uvl_writer.py).
   The definitions GENERATED from the Python text (Gen/Src_uvl.v) produce the text; the hand model
   (Format/Uvl.v, writer part) builds a syntax tree and prints it.  Whatever the model writes, the
   translated code returns, for every fuel that is large enough. *)
From Coq Require Import List Bool Ascii String ZArith Lia Arith.
From FM Require Import Base.Result Base.Str Base.AstOp Model.Ast Model.FM Model.Queries Gen.Tables_uvl
  Format.Uvl Model.PyRt Model.Loc Gen.Src_fm Gen.Src_uvl Proofs.FMFacts Proofs.SrcFmFacts
  Proofs.JsonFacts Proofs.UvlFacts.
Import ListNotations.
Local Open Scope list_scope.

(* ------------------------------------------------------------------------------------------ *)
(* "for every fuel that is large enough"                                                      *)
(* ------------------------------------------------------------------------------------------ *)

Definition evt {A} (f : nat -> A) (v : A) : Prop :=
  exists n0, forall fuel, (n0 <= fuel)%nat -> f fuel = v.

Lemma evt_const_eq : forall {A} (x v : A), x = v -> evt (fun _ => x) v.
Proof. intros A x v E. exists 0%nat. intros fuel _. exact E. Qed.

Lemma evt_all : forall {A} (f : nat -> A) (v : A), (forall n, f n = v) -> evt f v.
Proof. intros A f v E. exists 0%nat. intros fuel _. apply E. Qed.

(* a fuelled function is [Fixpoint F fuel := match fuel with O => _ | S k => body k]: look at [F (S k)] *)
Lemma evt_shift : forall {A} (g : nat -> A) (v : A), evt (fun n => g (S n)) v -> evt g v.
Proof.
  intros A g v [n0 H]. exists (S n0). intros fuel Hf.
  destruct fuel as [|k]; [lia|]. apply H. lia.
Qed.

Lemma evt_bind_ok : forall {A B} (f : nat -> result A) (x : A) (g : nat -> A -> result B) (r : result B),
  evt f (Ok x) ->
  evt (fun fuel => g fuel x) r ->
  evt (fun fuel => bind (f fuel) (g fuel)) r.
Proof.
  intros A B f x g r [n1 H1] [n2 H2]. exists (Nat.max n1 n2). intros fuel Hf.
  rewrite H1 by lia. cbn [bind]. apply H2. lia.
Qed.

(* a loop whose state grows by one piece per element *)
Lemma evt_foldM_pieces : forall {S A P} (f : nat -> S -> A -> result S) (op : S -> P -> S) l ps,
  Forall2 (fun x p => forall s, evt (fun fuel => f fuel s x) (Ok (op s p))) l ps ->
  forall s, evt (fun fuel => foldM (f fuel) l s) (Ok (fold_left op ps s)).
Proof.
  intros S A P f op l ps H. induction H as [|x p l ps Hx _ IH]; intros s.
  - exists 0%nat. intros fuel _. reflexivity.
  - destruct (Hx s) as [n1 H1]. destruct (IH (op s p)) as [n2 H2].
    exists (Nat.max n1 n2). intros fuel Hf. cbn [foldM fold_left].
    rewrite H1 by lia. apply H2. lia.
Qed.

Lemma evt_flat_mapM_pieces : forall {A B} (f : nat -> A -> result (list B)) l ys,
  Forall2 (fun x y => evt (fun fuel => f fuel x) (Ok y)) l ys ->
  evt (fun fuel => py_flat_mapM (f fuel) l) (Ok (List.concat ys)).
Proof.
  intros A B f l ys H. induction H as [|x y l ys Hx _ IH].
  - exists 0%nat. intros fuel _. reflexivity.
  - destruct Hx as [n1 H1]. destruct IH as [n2 H2].
    exists (Nat.max n1 n2). intros fuel Hf. cbn [py_flat_mapM List.concat].
    rewrite H1 by lia.
    change (match py_flat_mapM (f fuel) l with Err e => Err e | Ok ys0 => Ok (y ++ ys0) end
            = Ok (y ++ List.concat ys)).
    rewrite H2 by lia. reflexivity.
Qed.

(* ------------------------------------------------------------------------------------------ *)
(* lists and strings                                                                          *)
(* ------------------------------------------------------------------------------------------ *)

Lemma Forall2_map_l {A B C} (R : B -> C -> Prop) (h : A -> B) : forall l l',
  Forall2 (fun x y => R (h x) y) l l' -> Forall2 R (map h l) l'.
Proof. intros l l' H. induction H; cbn [map]; constructor; assumption. Qed.

Lemma Forall2_map_r {A B C} (R : A -> C -> Prop) (h : B -> C) : forall l l',
  Forall2 (fun x y => R x (h y)) l l' -> Forall2 R l (map h l').
Proof. intros l l' H. induction H; cbn [map]; constructor; assumption. Qed.

Lemma Forall2_Forall_impl {A B} (P : A -> Prop) (R Q : A -> B -> Prop) : forall l l',
  Forall P l -> Forall2 R l l' -> (forall x y, P x -> R x y -> Q x y) -> Forall2 Q l l'.
Proof.
  intros l l' HP HR HQ. induction HR as [|x y l l' Hxy _ IH]; constructor.
  - apply HQ; [exact (Forall_inv HP)|exact Hxy].
  - apply IH. exact (Forall_inv_tail HP).
Qed.

Lemma Forall2_impl {A B} (R Q : A -> B -> Prop) : forall l l',
  Forall2 R l l' -> (forall x y, R x y -> Q x y) -> Forall2 Q l l'.
Proof. intros l l' HR HQ. induction HR; constructor; auto. Qed.

Lemma concat_map_single {A B} (g : A -> B) (l : list A) : List.concat (map (fun x => [g x]) l) = map g l.
Proof. induction l as [|x l IH]; cbn [map List.concat app]; [reflexivity|rewrite IH; reflexivity]. Qed.

Lemma fold_left_snoc {A} (items : list A) : forall acc,
  fold_left (fun a i => a ++ [i]) items acc = acc ++ items.
Proof.
  induction items as [|i items IH]; intros acc; cbn [fold_left].
  - rewrite app_nil_r. reflexivity.
  - rewrite IH, <- app_assoc. reflexivity.
Qed.

Lemma fold_left_append (ps : list string) : forall s,
  fold_left (fun a p => (a ++ p)%string) ps s = (s ++ str_concat ps)%string.
Proof.
  induction ps as [|p ps IH]; intros s; cbn [fold_left str_concat fold_right].
  - rewrite str_app_nil_r. reflexivity.
  - rewrite IH. apply str_app_assoc.
Qed.

Ltac str_norm := rewrite ?str_app_assoc; cbn [append].

Lemma z_to_string_eqb a b : String.eqb (z_to_string a) (z_to_string b) = Z.eqb a b.
Proof.
  destruct (Z.eqb_spec a b) as [E|E].
  - subst b. apply String.eqb_refl.
  - apply String.eqb_neq. intros H. apply (f_equal string_to_z) in H.
    rewrite !string_to_z_to_string in H. congruence.
Qed.

Lemma py_str_repeat_tabs n : py_str_repeat (String "009"%char "") (Z.of_nat n) = tabs n.
Proof.
  unfold py_str_repeat. rewrite Nat2Z.id.
  induction n as [|n IH]; [reflexivity|]. cbn [tabs]. rewrite <- IH. reflexivity.
Qed.

Lemma py_len_eq1 {A} (l : list A) :
  (py_len l =? 1)%Z = match l with [_] => true | _ => false end.
Proof.
  unfold py_len. destruct l as [|x [|y l]]; cbn [List.length]; try reflexivity.
  apply Z.eqb_neq. lia.
Qed.

Lemma py_index_0 {A} (x : A) l : py_index (x :: l) 0%Z = Ok x.
Proof.
  unfold py_index. change (0 <? 0)%Z with false. cbv iota. change (0 <? 0)%Z with false.
  reflexivity.
Qed.

(* ------------------------------------------------------------------------------------------ *)
(* the table, the names, the group header                                                     *)
(* ------------------------------------------------------------------------------------------ *)

Lemma src_uvl_operators : forall o, py_UVL_OPERATORS o = uvl_operator o.
Proof. intros o. destruct o; reflexivity. Qed.

Lemma existsb_eqb_sym (s : string) : forall l,
  existsb (fun y => String.eqb y s) l = list_existsb_eq s l.
Proof.
  induction l as [|x l IH]; [reflexivity|].
  cbn [existsb list_existsb_eq]. rewrite IH, (String.eqb_sym x s). reflexivity.
Qed.

Lemma src_uvl_safe_simple_name : forall s, py_safe_simple_name s = uvl_safe_simple_name s.
Proof.
  intros s. unfold py_safe_simple_name, uvl_safe_simple_name.
  rewrite !existsb_eqb_sym.
  change (py_is_identifier s) with (is_plain_id s).
  fold uvl_keywords. unfold quote.
  destruct (starts_with_char "'" s); destruct (ends_with_char "'" s);
    destruct (is_plain_id s); destruct (list_existsb_eq s uvl_keywords); reflexivity.
Qed.

Lemma src_uvl_safename : forall s, py_safename s = uvl_safename s.
Proof.
  intros s. unfold py_safename, uvl_safename.
  rewrite fm_flat_map_single.
  rewrite (map_ext _ _ src_uvl_safe_simple_name), src_uvl_safe_simple_name. reflexivity.
Qed.

Lemma src_uvl_serialize_relation : forall r o,
  py_UVLWriter_serialize_relation (r, o) = render_gkind (group_kind r).
Proof.
  intros r o. unfold py_UVLWriter_serialize_relation, group_kind.
  rewrite src_rel_is_alternative, src_rel_is_mandatory, src_rel_is_optional, src_rel_is_or.
  cbn [fst].
  destruct (rel_is_alternative r); [reflexivity|].
  destruct (rel_is_mandatory r); [reflexivity|].
  destruct (rel_is_optional r); [reflexivity|].
  destruct (rel_is_or r); [reflexivity|].
  cbv zeta. rewrite !z_to_string_eqb.
  destruct (r_min r =? r_max r)%Z; [reflexivity|].
  cbn [render_gkind]. unfold card_text.
  change (- (1))%Z with (-1)%Z.
  destruct (r_max r =? -1)%Z; str_norm; reflexivity.
Qed.

(* ------------------------------------------------------------------------------------------ *)
(* attribute values                                                                           *)
(* ------------------------------------------------------------------------------------------ *)

Lemma evt_bind_pure : forall {A B} (f : nat -> result A) (x : A) (k : A -> result B) (r : result B),
  evt f (Ok x) -> k x = r -> evt (fun fuel => bind (f fuel) k) r.
Proof.
  intros A B f x k r [n1 H1] H2. exists n1. intros fuel Hf.
  rewrite H1 by lia. exact H2.
Qed.

(* a chain  bind (bind (bind base k1) k2) k3  whose continuations do not use the fuel *)
Ltac evt_pure base := first [ base | eapply evt_bind_pure; [ evt_pure base | ] ].

Definition render_uattr (a : uattr) : string :=
  match a with
  | UAValue k None => k
  | UAValue k (Some x) => (k ++ " " ++ render_value x)%string
  | _ => ""%string
  end.

Lemma render_value_attrs l :
  render_value (UVAttrs l) = ("{" ++ str_join ", " (map render_uattr l) ++ "}")%string.
Proof. reflexivity. Qed.

Lemma value_cst_int_inv v t : value_cst v = Ok (UVInt t) -> exists z, v = VInt z.
Proof.
  destruct v; cbn [value_cst]; intros H; try discriminate.
  - exists z. reflexivity.
  - destruct (float_text repr); discriminate.
  - destruct (mapM value_cst l); discriminate.
  - match type of H with match ?m with _ => _ end = _ => destruct m; discriminate end.
Qed.

(* one entry of a map value / one attribute of a feature: the name, and the value unless it is None.
   [x] is the value (a variable), [Px] the statement for [x], [Hxa : attr_entry k x = Ok a]. *)
Ltac entry_tac x Px Hxa :=
  unfold attr_entry in Hxa;
  destruct x;
  [ inversion Hxa; subst; apply evt_all; intros ?n; cbn [bind render_uattr];
    rewrite src_uvl_safename; reflexivity
  | .. ];
  (let u' := fresh "u" in let Hu := fresh "Hu" in
   match type of Hxa with match ?m with _ => _ end = _ => destruct m as [u'|] eqn:Hu; [|discriminate] end;
   inversion Hxa; subst;
   evt_pure ltac:(first [exact (Px _ eq_refl) | exact (Px _ Hu)]); try reflexivity;
   cbn [render_uattr]; rewrite src_uvl_safename; reflexivity).

Lemma src_uvl_serialize_value_evt : forall v u, value_cst v = Ok u ->
  evt (fun fuel => py_UVLWriter_serialize_value fuel v) (Ok (render_value u)).
Proof.
  apply (aval_ind2 (fun v => forall u, value_cst v = Ok u ->
           evt (fun fuel => py_UVLWriter_serialize_value fuel v) (Ok (render_value u)))).
  - intros u H. inversion H; subst u. apply evt_shift, evt_all. intros n. reflexivity.
  - intros b u H. inversion H; subst u. apply evt_shift, evt_all. intros n. destruct b; reflexivity.
  - intros z u H. inversion H; subst u. apply evt_shift, evt_all. intros n. reflexivity.
  - intros r u H. cbn [value_cst] in H. unfold float_text in H.
    destruct (str_contains_char "e" r) eqn:He; [discriminate|].
    destruct (str_contains_char "E" r) eqn:HE; [discriminate|].
    destruct (str_contains_char "n" r) eqn:Hn; [discriminate|].
    cbn [orb] in H. inversion H; subst u. apply evt_shift, evt_all. intros n.
    cbn [py_UVLWriter_serialize_value bind]. cbv zeta. rewrite He, HE. cbn [bind].
    cbn [render_value]. destruct (str_contains_char "." r); reflexivity.
  - intros s u H. inversion H; subst u. apply evt_shift, evt_all. intros n. reflexivity.
  - intros l IH u H. rewrite value_cst_list in H.
    destruct (mapM value_cst l) as [l'|] eqn:Hl; [|discriminate]. inversion H; subst u. clear H.
    apply mapM_Forall2 in Hl.
    apply evt_shift. cbn [py_UVLWriter_serialize_value bind]. cbv zeta.
    eapply evt_bind_pure.
    + apply evt_flat_mapM_pieces with (ys := map (fun u => [render_value u]) l').
      apply Forall2_map_r. apply (Forall2_Forall_impl _ _ _ _ _ IH Hl).
      intros x y Px Rxy. evt_pure ltac:(exact (Px y Rxy)). reflexivity.
    + rewrite concat_map_single, py_len_eq1.
      destruct Hl as [|v0 u0 l0 l0' H0 Hl0]; [reflexivity|].
      destruct Hl0 as [|v1 u1 l1 l1' H1 Hl1].
      * rewrite py_index_0. cbn [bind map].
        destruct v0; cbn [bind];
          try (destruct u0; try reflexivity; apply value_cst_int_inv in H0; destruct H0; discriminate).
        inversion H0; subst u0. rewrite py_index_0. reflexivity.
      * destruct u0; reflexivity.
  - intros kv IH u H. rewrite value_cst_map in H.
    destruct (mapM (fun p : string * aval => attr_entry (fst p) (snd p)) kv) as [la|] eqn:Hkv;
      [|discriminate]. inversion H; subst u. clear H.
    apply mapM_Forall2 in Hkv.
    apply evt_shift. cbn [py_UVLWriter_serialize_value bind]. cbv zeta.
    eapply evt_bind_pure.
    + apply evt_foldM_pieces with (op := fun a i => a ++ [i]) (ps := map render_uattr la).
      apply Forall2_map_r. apply (Forall2_Forall_impl _ _ _ _ _ IH Hkv).
      intros [k x] a Px Hxa acc. cbn [fst snd] in Px, Hxa. cbv beta iota zeta.
      entry_tac x Px Hxa.
    + rewrite fold_left_snoc. reflexivity.
Qed.

Lemma src_uvl_serialize_value : forall v u, value_cst v = Ok u ->
  exists n0, forall fuel, (n0 <= fuel)%nat -> py_UVLWriter_serialize_value fuel v = Ok (render_value u).
Proof. exact src_uvl_serialize_value_evt. Qed.

(* ------------------------------------------------------------------------------------------ *)
(* constraints                                                                                *)
(* ------------------------------------------------------------------------------------------ *)

Definition on_opt (P : node -> Prop) (c : option node) : Prop :=
  match c with Some x => P x | None => True end.

Lemma node_ind_opt (P : node -> Prop) :
  (forall d l r, on_opt P l -> on_opt P r -> P (Node d l r)) -> forall n, P n.
Proof.
  intros H. fix IH 1. intros [d l r]. apply H.
  - destruct l as [a|]; [apply IH|exact I].
  - destruct r as [b|]; [apply IH|exact I].
Qed.

Definition node_evt (n : node) : Prop :=
  forall k, node_cst n = Ok k ->
  evt (fun fuel => py_UVLWriter__serialize_node fuel n) (Ok (render_cst k)).

Lemma evt_operand x cx : node_cst x = Ok cx -> node_evt x ->
  evt (fun fuel => py_UVLWriter__serialize_operand fuel x)
      (Ok (render_cst (if is_compound x then KParen cx else cx))).
Proof.
  intros Hx Px. apply evt_shift. cbn [py_UVLWriter__serialize_operand].
  eapply evt_bind_pure; [exact (Px _ Hx)|]. cbv beta zeta.
  unfold is_compound, is_op. destruct (n_data x) as [o| | | |]; try reflexivity.
  destruct o; reflexivity.
Qed.

Lemma evt_need_operand c c' : nc_operand c = Ok c' -> on_opt node_evt c ->
  evt (fun fuel => bind (py_need c) (fun v => py_UVLWriter__serialize_operand fuel v))
      (Ok (render_cst c')).
Proof.
  intros H Pc. destruct c as [x|]; [|discriminate]. cbn [py_need bind].
  unfold nc_operand in H. destruct (node_cst x) as [cx|] eqn:Hx; [|discriminate].
  inversion H; subst c'. apply evt_operand; assumption.
Qed.

Ltac node_cbn :=
  cbn [py_UVLWriter__serialize_node is_term is_op n_data n_left n_right negb ndata_is_op ndata_in_ops
       existsb astop_eqb orb any_of_data].

(* one argument of an aggregate; [Ha : nc_arg c = Ok a] *)
Ltac arg_tac c Ha :=
  cbv beta; unfold nc_arg in Ha;
  destruct c as [[[] ? ?]|]; try discriminate; inversion Ha; subst;
  [ apply evt_shift, evt_all; intros ?n; node_cbn; cbn [bind]; cbv zeta;
    match goal with |- context [starts_with_char ?q ?s] => destruct (starts_with_char q s) end;
    cbn [bind]; rewrite ?src_uvl_safename; reflexivity
  | apply evt_all; intros ?n; reflexivity ].

Ltac aggr_tac l r H :=
  let a1 := fresh "a1" in let a2 := fresh "a2" in let H1 := fresh "Ha1" in let H2 := fresh "Ha2" in
  unfold nc_aggr in H;
  destruct (nc_arg l) as [a1|] eqn:H1; [|discriminate];
  destruct (nc_arg r) as [a2|] eqn:H2; [|discriminate];
  inversion H; subst; clear H;
  apply evt_shift; node_cbn; cbv zeta;
  eapply evt_bind_pure;
  [ apply evt_flat_mapM_pieces with (ys := [a1; a2]);
    constructor; [arg_tac l H1 | constructor; [arg_tac r H2 | constructor]]
  | cbn [List.concat]; rewrite app_nil_r; reflexivity ].

Ltac bin_tac l r H Pl Pr :=
  let cl := fresh "cl" in let cr := fresh "cr" in let H1 := fresh "Hcl" in let H2 := fresh "Hcr" in
  unfold nc_bin in H;
  destruct (nc_operand l) as [cl|] eqn:H1; [|discriminate];
  destruct (nc_operand r) as [cr|] eqn:H2; [|discriminate];
  inversion H; subst; clear H;
  apply evt_shift; node_cbn; cbv zeta;
  eapply evt_bind_ok; [exact (evt_need_operand _ _ H1 Pl)|]; cbv beta zeta;
  eapply evt_bind_pure; [exact (evt_need_operand _ _ H2 Pr)|];
  cbv beta zeta; reflexivity.

Lemma src_uvl_serialize_node_evt : forall n, node_evt n.
Proof.
  apply node_ind_opt. intros d l r Pl Pr k H. destruct d as [o|s|z|rp|b].
  - rewrite node_cst_op in H.
    destruct o; cbn [nc_op aggr_of] in H; try discriminate;
      try (aggr_tac l r H); try (bin_tac l r H Pl Pr).
    destruct (nc_operand l) as [c|] eqn:Hc; [|discriminate]. inversion H; subst k. clear H.
    apply evt_shift. node_cbn. cbv zeta.
    eapply evt_bind_pure; [|reflexivity].
    eapply evt_bind_pure; [exact (evt_need_operand _ _ Hc Pl)|]. reflexivity.
  - cbn [node_cst] in H. inversion H; subst k. apply evt_shift, evt_all. intros n.
    node_cbn. cbn [bind]. cbv zeta. destruct (starts_with_char "'" s); cbn [bind render_cst];
      rewrite ?src_uvl_safename; reflexivity.
  - cbn [node_cst] in H. inversion H; subst k. apply evt_shift. node_cbn.
    evt_pure ltac:(exact (src_uvl_serialize_value_evt (VInt z) _ eq_refl)). reflexivity.
  - cbn [node_cst] in H. destruct (float_text rp) as [t|] eqn:Ht; [|discriminate].
    inversion H; subst k. apply evt_shift. node_cbn.
    assert (Hv : value_cst (VFloat rp) = Ok (UVFloat t rp)) by (cbn [value_cst]; rewrite Ht; reflexivity).
    evt_pure ltac:(exact (src_uvl_serialize_value_evt (VFloat rp) _ Hv)). reflexivity.
  - cbn [node_cst] in H. inversion H; subst k. apply evt_shift. node_cbn.
    evt_pure ltac:(exact (src_uvl_serialize_value_evt (VBool b) _ eq_refl)). destruct b; reflexivity.
Qed.

Lemma src_uvl_serialize_node : forall n k, node_cst n = Ok k ->
  exists n0, forall fuel, (n0 <= fuel)%nat -> py_UVLWriter__serialize_node fuel n = Ok (render_cst k).
Proof. exact src_uvl_serialize_node_evt. Qed.

(* ------------------------------------------------------------------------------------------ *)
(* the attributes of a feature, the constraints section                                       *)
(* ------------------------------------------------------------------------------------------ *)

Lemma aval_truthy_eq v : PyRt.aval_truthy v = Xml.aval_truthy v.
Proof.
  destruct v as [| | | | |l|kv]; try reflexivity.
  - destruct l; reflexivity.
  - destruct kv; reflexivity.
Qed.

Lemma evt_read_attributes f anc la :
  mapM (fun a => attr_entry (a_name a) (a_default a)) (f_attrs (info f)) = Ok la ->
  evt (fun fuel => py_UVLWriter_read_attributes fuel (f, anc))
      (Ok (render_attrs (match abs_part (info f) ++ la with [] => None | all => Some all end))).
Proof.
  intros Hla. apply mapM_Forall2 in Hla.
  unfold py_UVLWriter_read_attributes, py_Feature_get_attributes, abs_part. cbv zeta. cbn [fst].
  rewrite aval_truthy_eq.
  destruct (Xml.aval_truthy (f_abstract (info f))).
  - eapply evt_bind_pure.
    + apply evt_foldM_pieces with (op := fun a i => a ++ [i]) (ps := map render_uattr la).
      apply Forall2_map_r. apply (Forall2_impl _ _ _ _ Hla). intros a y Hxa acc. cbv beta zeta.
      pose proof (src_uvl_serialize_value_evt (a_default a)) as Px.
      remember (a_default a) as x eqn:Ex. clear Ex.
      entry_tac x Px Hxa.
    + rewrite fold_left_snoc. reflexivity.
  - eapply evt_bind_pure.
    + apply evt_foldM_pieces with (op := fun a i => a ++ [i]) (ps := map render_uattr la).
      apply Forall2_map_r. apply (Forall2_impl _ _ _ _ Hla). intros a y Hxa acc. cbv beta zeta.
      pose proof (src_uvl_serialize_value_evt (a_default a)) as Px.
      remember (a_default a) as x eqn:Ex. clear Ex.
      entry_tac x Px Hxa.
    + rewrite fold_left_snoc. destruct la; reflexivity.
Qed.

Definition render_ctcs (cs : list ucst) : string :=
  match cs with
  | [] => ""%string
  | _ => ("constraints"
          ++ str_concat (map (fun c => String "010"%char (String "009"%char (render_cst c))) cs))%string
  end.

Lemma evt_read_constraints self cs :
  mapM (fun c => node_cst (c_ast c)) (ctcs (UVLWriter_model self)) = Ok cs ->
  evt (fun fuel => py_UVLWriter_read_constraints fuel self) (Ok (render_ctcs cs)).
Proof.
  intros H. apply mapM_Forall2 in H.
  unfold py_UVLWriter_read_constraints. cbv zeta.
  destruct H as [|c k l ks Hck Hl].
  - apply evt_all. intros n. reflexivity.
  - cbn [py_is_nil negb].
    eapply evt_bind_pure.
    + apply evt_foldM_pieces with (op := fun a p => (a ++ p)%string)
        (ps := map (fun c => String "010"%char (String "009"%char (render_cst c))) (k :: ks)).
      apply Forall2_map_r. apply (Forall2_impl _ _ _ _ (Forall2_cons _ _ Hck Hl)).
      intros c0 k0 H0 s. cbv beta zeta. unfold py_UVLWriter_serialize_constraint.
      evt_pure ltac:(exact (src_uvl_serialize_node_evt _ _ H0)).
      str_norm. reflexivity.
    + rewrite fold_left_append. reflexivity.
Qed.

(* ------------------------------------------------------------------------------------------ *)
(* the feature tree                                                                           *)
(* ------------------------------------------------------------------------------------------ *)

Definition render_group (tab : nat) (g : ugroup) : string :=
  match g with
  | UGroup k cs =>
      (String "010"%char (tabs (S tab)) ++ render_gkind k
       ++ str_concat (map (render_feature (S (S tab))) cs))%string
  end.

Definition feature_evt (self : py_UVLWriter_state) (f : feature) : Prop :=
  forall u, feature_cst f = Ok u -> forall anc res t,
  evt (fun fuel => py_UVLWriter_read_features fuel self (f, anc) res (Z.of_nat t))
      (Ok (res ++ render_feature (S t) u)%string).

Lemma evt_read_features self : forall f, feature_evt self f.
Proof.
  apply (feature_ind2 (feature_evt self) (fun r => Forall (feature_evt self) (r_children r))).
  2:{ intros a b cs IH. exact IH. }
  intros i rs IH u H anc res t. rewrite feature_cst_eq in H.
  destruct (mapM (fun a => attr_entry (a_name a) (a_default a)) (f_attrs i)) as [la|] eqn:Hla;
    [|discriminate].
  destruct (mapM rel_cst rs) as [gs|] eqn:Hgs; [|discriminate].
  inversion H; subst u; clear H.
  apply evt_shift. cbn [py_UVLWriter_read_features]. cbv zeta.
  eapply evt_bind_ok.
  { eapply evt_bind_pure; [apply evt_read_attributes; cbn [info]; exact Hla|reflexivity]. }
  cbv beta zeta.
  eapply evt_bind_pure.
  { apply evt_foldM_pieces with (op := fun a p => (a ++ p)%string) (ps := map (render_group (S t)) gs).
    unfold lf_relations. cbn [fst rels]. apply Forall2_map_l, Forall2_map_r.
    apply (Forall2_Forall_impl _ _ _ _ _ IH (mapM_Forall2 _ _ _ Hgs)).
    intros r g Qr Hrg s. cbv beta zeta. destruct r as [a b cs]. unfold rel_cst in Hrg.
    destruct (mapM feature_cst cs) as [cs'|] eqn:Hcs; [|discriminate]. inversion Hrg; subst g.
    cbn [r_children] in Qr.
    eapply evt_bind_pure.
    { apply evt_foldM_pieces with (op := fun a p => (a ++ p)%string)
        (ps := map (render_feature (S (S (S t)))) cs').
      unfold lr_children. cbn [fst snd r_children]. apply Forall2_map_l, Forall2_map_r.
      apply (Forall2_Forall_impl _ _ _ _ _ Qr (mapM_Forall2 _ _ _ Hcs)).
      intros c u Pc Hcu s'. cbv beta.
      eapply evt_bind_pure; [|reflexivity].
      replace (Z.of_nat t + 1 + 1)%Z with (Z.of_nat (S (S t))) by lia.
      apply (Pc u Hcu). }
    rewrite fold_left_append, src_uvl_serialize_relation.
    replace (Z.of_nat t + 1 + 1)%Z with (Z.of_nat (S (S t))) by lia.
    rewrite py_str_repeat_tabs. cbn [render_group]. str_norm. reflexivity. }
  rewrite fold_left_append.
  replace (Z.of_nat t + 1)%Z with (Z.of_nat (S t)) by lia.
  rewrite py_str_repeat_tabs, src_uvl_safename, src_feat_is_boolean, src_feat_is_multifeature.
  unfold feat_is_boolean, feat_is_multifeature, name. cbn [fst info]. rewrite z_to_string_eqb.
  change (- (1))%Z with (-1)%Z.
  cbn [render_feature]. unfold card_text, ftype_value.
  change (fun g : ugroup => match g with
            | UGroup k cs => (String "010"%char (tabs (S (S t))) ++ render_gkind k
                 ++ str_concat (map (render_feature (S (S (S t)))) cs))%string end)
    with (render_group (S t)).
  destruct (ftype_eqb (f_type i) TBoolean);
    destruct (negb (f_cmin i =? 1)%Z || negb (f_cmax i =? 1)%Z);
    destruct (f_cmax i =? -1)%Z; str_norm; reflexivity.
Qed.

(* ------------------------------------------------------------------------------------------ *)
(* the writer                                                                                 *)
(* ------------------------------------------------------------------------------------------ *)

Theorem src_uvl_transform : forall path m t, uvl_write m = Ok t ->
  exists n0, forall fuel, (n0 <= fuel)%nat -> py_UVLWriter_transform fuel (py_UVLWriter_new path m) = Ok t.
Proof.
  intros path m t H. unfold uvl_write, cst_of_fm in H.
  destruct (feature_cst (root m)) as [rf|] eqn:Hrf; [|discriminate].
  destruct (mapM (fun c => node_cst (c_ast c)) (ctcs m)) as [cs|] eqn:Hcs; [|discriminate].
  inversion H; subst t; clear H.
  change (evt (fun fuel => py_UVLWriter_transform fuel (py_UVLWriter_new path m))
              (Ok (render {| d_root := Some rf; d_ctcs := match cs with [] => None | _ => Some cs end |}))).
  unfold py_UVLWriter_transform. cbv zeta. unfold fm_root_l.
  eapply evt_bind_pure; [|reflexivity].
  eapply evt_bind_ok.
  { eapply evt_bind_pure; [|reflexivity].
    exact (evt_read_features (py_UVLWriter_new path m) (root m) rf Hrf [] "features"%string 0%nat). }
  cbv beta.
  eapply evt_bind_pure.
  { apply (evt_read_constraints (py_UVLWriter_new path m) cs). exact Hcs. }
  unfold render. cbn [d_root d_ctcs]. unfold render_ctcs.
  destruct cs; str_norm; reflexivity.
Qed.

Print Assumptions src_uvl_operators.
Print Assumptions src_uvl_safename.
Print Assumptions src_uvl_serialize_relation.
Print Assumptions src_uvl_serialize_value.
Print Assumptions src_uvl_serialize_node.
Print Assumptions src_uvl_transform.
