(* Proofs/UvlVariant.v — "a UVL document denotes its model whatever surface syntax it uses".

   [dvar d d'] : d' is a surface variant of d.  It is the closure, at any depth of the feature tree
   and at any position of a constraint, of the rewrites listed below; the reader model
   [uvl_read_cst] cannot tell variants apart ([uvl_read_variant]), hence every variant of what the
   writer produced for a model of the UVL fragment is read as the normal form of that model
   ([uvl_variant_denotes]).

   The relations on constraints, features and group lists carry explicit reflexivity / symmetry /
   transitivity constructors: they ARE the equivalence closures of the listed rewrites, so every
   rewrite can be used in both directions and any number of times. *)
From Coq Require Import List Bool Ascii String ZArith Lia.
From FM Require Import Base.Result Base.Str Base.AstOp Gen.Tables_core Model.Ast Model.FM Model.PFM
     Model.Queries Format.Json Format.Glencoe Format.Xml Gen.Tables_uvl Format.Uvl
     Proofs.JsonFacts Proofs.UvlFacts.
Import ListNotations.
Local Open Scope string_scope.
Local Open Scope list_scope.

(* ------------------------------------------------------------------ the atoms *)
(* two spellings of one reference / attribute key: equal once the double quotes are removed *)
Definition refvar (r r' : string) : Prop := strip_quotes r = strip_quotes r'.
(* two spellings of one cardinality (this includes: both rejected with the same exception) *)
Definition cardvar (t t' : string) : Prop := parse_cardinality t = parse_cardinality t'.
(* two spellings of one feature type: None / Some "Boolean", or both rejected *)
Definition tyvar (ty ty' : option string) : Prop := read_ftype ty = read_ftype ty'.

(* ------------------------------------------------------------------ 1. constraints *)
Inductive cvar : ucst -> ucst -> Prop :=
| cv_refl c : cvar c c
| cv_sym a b : cvar a b -> cvar b a
| cv_trans a b c : cvar a b -> cvar b c -> cvar a c
| cv_paren c : cvar c (KParen c)                                   (* add (with cv_sym: remove) parentheses *)
| cv_lit r r' : refvar r r' -> cvar (KLiteral r) (KLiteral r')
| cv_aggr g refs refs' : Forall2 refvar refs refs' -> cvar (KAggr g refs) (KAggr g refs')
| cv_not a a' : cvar a a' -> cvar (KNot a) (KNot a')
| cv_bin o a a' b b' : cvar a a' -> cvar b b' -> cvar (KBin o a b) (KBin o a' b')
| cv_in_paren a a' : cvar a a' -> cvar (KParen a) (KParen a').

Lemma read_aggr_refs g refs refs' : Forall2 refvar refs refs' ->
  uvl_read_ctc (KAggr g refs) = uvl_read_ctc (KAggr g refs').
Proof.
  intros H. destruct H as [|r r' l l' Hr Hl]; [reflexivity|].
  unfold refvar in Hr.
  destruct Hl as [|r2 r2' l2 l2' Hr2 _].
  - destruct g; cbn [uvl_read_ctc astop_of_aggr]; rewrite Hr; reflexivity.
  - unfold refvar in Hr2. destruct g; cbn [uvl_read_ctc astop_of_aggr]; rewrite Hr, ?Hr2; reflexivity.
Qed.

Theorem uvl_read_ctc_variant : forall c c', cvar c c' -> uvl_read_ctc c = uvl_read_ctc c'.
Proof.
  intros c c' H.
  induction H as [c|a b _ IH|a b c _ IH1 _ IH2|c|r r' Hr|g refs refs' Hrefs|a a' _ IH
                  |o a a' b b' _ IHa _ IHb|a a' _ IH].
  - reflexivity.
  - symmetry. exact IH.
  - rewrite IH1. exact IH2.
  - symmetry. apply read_paren.
  - cbn [uvl_read_ctc]. unfold refvar in Hr. rewrite Hr. reflexivity.
  - apply read_aggr_refs. exact Hrefs.
  - cbn [uvl_read_ctc]. rewrite IH. reflexivity.
  - cbn [uvl_read_ctc]. rewrite IHa, IHb. reflexivity.
  - rewrite !read_paren. exact IH.
Qed.

Lemma mapM_ctc_variant : forall l l', Forall2 cvar l l' -> mapM uvl_read_ctc l = mapM uvl_read_ctc l'.
Proof.
  intros l l' H. induction H as [|c c' l l' Hc _ IH]; [reflexivity|].
  rewrite !mapM_cons, (uvl_read_ctc_variant _ _ Hc), IH. reflexivity.
Qed.

(* ------------------------------------------------------------------ 2a. attribute blocks *)
(* keys vary up to [strip_quotes], at any depth of nested attribute maps / vectors; everything else
   is kept *)
Inductive vvar : uvalue -> uvalue -> Prop :=
| vv_refl v : vvar v v
| vv_attrs l l' : avar l l' -> vvar (UVAttrs l) (UVAttrs l')
| vv_vector l l' : vsvar l l' -> vvar (UVVector l) (UVVector l')
with avar : list uattr -> list uattr -> Prop :=
| av_nil : avar [] []
| av_same a l l' : avar l l' -> avar (a :: l) (a :: l')
| av_key k k' l l' : refvar k k' -> avar l l' -> avar (UAValue k None :: l) (UAValue k' None :: l')
| av_val k k' v v' l l' : refvar k k' -> vvar v v' -> avar l l' ->
    avar (UAValue k (Some v) :: l) (UAValue k' (Some v') :: l')
with vsvar : list uvalue -> list uvalue -> Prop :=
| vs_nil : vsvar [] []
| vs_cons v v' l l' : vvar v v' -> vsvar l l' -> vsvar (v :: l) (v' :: l').

Scheme vvar_min := Minimality for vvar Sort Prop
  with avar_min := Minimality for avar Sort Prop
  with vsvar_min := Minimality for vsvar Sort Prop.
Combined Scheme vvar_mutind from vvar_min, avar_min, vsvar_min.

Lemma value_variant :
  (forall v v', vvar v v' -> value_aval v = value_aval v') /\
  (forall l l', avar l l' -> forall acc, va_go l acc = va_go l' acc) /\
  (forall l l', vsvar l l' -> mapM value_aval l = mapM value_aval l').
Proof.
  apply vvar_mutind.
  - intros v. reflexivity.
  - intros l l' _ IH. rewrite !value_aval_attrs, (IH []). reflexivity.
  - intros l l' _ IH. rewrite !value_aval_vector, IH. reflexivity.
  - intros acc. reflexivity.
  - intros a l l' _ IH acc. destruct a as [k [x|]| |]; cbn [va_go].
    + destruct (value_aval x) as [x'|e]; [apply IH|reflexivity].
    + apply IH.
    + apply IH.
    + reflexivity.
  - intros k k' l l' Hk _ IH acc. cbn [va_go]. unfold refvar in Hk. rewrite Hk. apply IH.
  - intros k k' v v' l l' Hk _ IHv _ IH acc. cbn [va_go]. unfold refvar in Hk. rewrite Hk, IHv.
    destruct (value_aval v') as [x'|e]; [apply IH|reflexivity].
  - reflexivity.
  - intros v v' l l' _ IHv _ IH. rewrite !mapM_cons, IHv, IH. reflexivity.
Qed.

Lemma avar_refl : forall l, avar l l.
Proof. induction l as [|a l IH]; [apply av_nil|apply av_same, IH]. Qed.

(* an absent attribute block and an empty one [{}] are the same *)
Inductive atvar : option (list uattr) -> option (list uattr) -> Prop :=
| at_none : atvar None None
| at_some l l' : avar l l' -> atvar (Some l) (Some l')
| at_none_nil : atvar None (Some [])
| at_nil_none : atvar (Some []) None.

Lemma atvar_refl a : atvar a a.
Proof. destruct a as [l|]; [apply at_some, avar_refl|apply at_none]. Qed.

Lemma atvar_kv a a' : atvar a a' -> ur_kv a = ur_kv a'.
Proof.
  intros [|l l' H| |]; try reflexivity.
  unfold ur_kv. rewrite !value_aval_attrs, (proj1 (proj2 value_variant) _ _ H []). reflexivity.
Qed.

(* ------------------------------------------------------------------ 2b. feature cardinalities *)
(* both absent, or both present with the same reading; an absent cardinality is [1..1] *)
Inductive fcvar : option string -> option string -> Prop :=
| fc_none : fcvar None None
| fc_some t t' : cardvar t t' -> fcvar (Some t) (Some t')
| fc_none_one t : parse_cardinality t = Ok (1, 1)%Z -> fcvar None (Some t)
| fc_one_none t : parse_cardinality t = Ok (1, 1)%Z -> fcvar (Some t) None.

Lemma fcvar_refl fc : fcvar fc fc.
Proof. destruct fc as [t|]; [apply fc_some; reflexivity|apply fc_none]. Qed.

Lemma fcvar_card fc fc' : fcvar fc fc' -> ur_card fc = ur_card fc'.
Proof.
  intros [|t t' H|t H|t H]; cbn [ur_card]; [reflexivity|exact H|symmetry; exact H|exact H].
Qed.

(* ------------------------------------------------------------------ 2c / 3. features and group lists *)
Inductive fvar : ufeature -> ufeature -> Prop :=
| fv_refl f : fvar f f
| fv_sym f f' : fvar f f' -> fvar f' f
| fv_trans f1 f2 f3 : fvar f1 f2 -> fvar f2 f3 -> fvar f1 f3
| fv_node ty ty' ref ref' fc fc' at_ at_' gs gs' :
    tyvar ty ty' -> refvar ref ref' -> fcvar fc fc' -> atvar at_ at_' -> gsvar gs gs' ->
    fvar (UFeature ty ref fc at_ gs) (UFeature ty' ref' fc' at_' gs')
with gsvar : list ugroup -> list ugroup -> Prop :=
| gs_refl gs : gsvar gs gs
| gs_sym gs gs' : gsvar gs gs' -> gsvar gs' gs
| gs_trans gs1 gs2 gs3 : gsvar gs1 gs2 -> gsvar gs2 gs3 -> gsvar gs1 gs3
  (* congruence: children of the first group and the rest of the list varied *)
| gs_cons k cs cs' gs gs' : fsvar cs cs' -> gsvar gs gs' -> gsvar (UGroup k cs :: gs) (UGroup k cs' :: gs')
  (* a mandatory / optional group split in two (with gs_sym: two adjacent ones merged) *)
| gs_split k cs1 cs2 gs : (k = GMand \/ k = GOpt) ->
    gsvar (UGroup k (cs1 ++ cs2) :: gs) (UGroup k cs1 :: UGroup k cs2 :: gs)
  (* a mandatory / optional keyword without children contributes nothing *)
| gs_empty k gs : (k = GMand \/ k = GOpt) -> gsvar (UGroup k [] :: gs) gs
  (* group cardinality spelled differently *)
| gs_card t t' cs gs : cardvar t t' -> gsvar (UGroup (GCard t) cs :: gs) (UGroup (GCard t') cs :: gs)
  (* [alternative] is the group cardinality [1..1]; [or] over n children is [1..n] *)
| gs_alt_card t cs gs : parse_cardinality t = Ok (1, 1)%Z ->
    gsvar (UGroup GAlt cs :: gs) (UGroup (GCard t) cs :: gs)
| gs_or_card t cs gs : parse_cardinality t = Ok (1, Z.of_nat (List.length cs))%Z ->
    gsvar (UGroup GOr cs :: gs) (UGroup (GCard t) cs :: gs)
with fsvar : list ufeature -> list ufeature -> Prop :=
| fs_nil : fsvar [] []
| fs_cons c c' cs cs' : fvar c c' -> fsvar cs cs' -> fsvar (c :: cs) (c' :: cs').

Scheme fvar_min := Minimality for fvar Sort Prop
  with gsvar_min := Minimality for gsvar Sort Prop
  with fsvar_min := Minimality for fsvar Sort Prop.
Combined Scheme fvar_mutind from fvar_min, gsvar_min, fsvar_min.

(* ---- the inner loops of the reader, generalised *)
(* per-child groups: only [k + j] matters *)
Lemma ur_goc_shift here k k' : forall cs j j', (k + j = k' + j')%nat ->
  ur_goc here true k j cs = ur_goc here true k' j' cs.
Proof.
  induction cs as [|c cs IH]; intros j j' H; [reflexivity|].
  rewrite !ur_goc_cons, H, (IH (S j) (S j')) by lia. reflexivity.
Qed.

Lemma ur_goc_app here pc k : forall cs1 cs2 j,
  ur_goc here pc k j (cs1 ++ cs2) =
  match ur_goc here pc k j cs1 with
  | Err e => Err e
  | Ok a => match ur_goc here pc k (List.length cs1 + j) cs2 with
            | Err e => Err e
            | Ok b => Ok (a ++ b)
            end
  end.
Proof.
  induction cs1 as [|c cs1 IH]; intros cs2 j.
  - cbn [app List.length Nat.add]. rewrite ur_goc_nil.
    destruct (ur_goc here pc k j cs2) as [b|e]; reflexivity.
  - rewrite <- app_comm_cons, !ur_goc_cons, IH.
    destruct (uvl_read_feature _ (PPath here) c) as [x|e]; [|reflexivity].
    cbn [List.length Nat.add]. rewrite Nat.add_succ_r.
    destruct (ur_goc here pc k (S j) cs1) as [a|e]; [|reflexivity].
    destruct (ur_goc here pc k (S (List.length cs1 + j)) cs2) as [b|e]; reflexivity.
Qed.

Lemma ur_go_split2 here kind cs1 cs2 gs k : (kind = GMand \/ kind = GOpt) ->
  ur_go here k (UGroup kind (cs1 ++ cs2) :: gs) = ur_go here k (UGroup kind cs1 :: UGroup kind cs2 :: gs).
Proof.
  intros Hk.
  rewrite (ur_go_cons here k kind (cs1 ++ cs2)), (ur_go_cons here k kind cs1).
  assert (Hpc : per_child kind = true) by (destruct Hk as [-> | ->]; reflexivity).
  rewrite Hpc, ur_goc_app.
  destruct (ur_goc here true k 0 cs1) as [a|e] eqn:Ha; [|destruct Hk as [-> | ->]; reflexivity].
  rewrite (ur_goc_shift here k (k + List.length a) cs2 (List.length cs1 + 0) 0)
    by (rewrite (ur_goc_length _ _ _ _ _ _ Ha); lia).
  destruct Hk as [-> | ->]; rewrite ur_go_cons; cbn [per_child];
    (destruct (ur_goc here true (k + List.length a) 0 cs2) as [b|e]; [|reflexivity]);
    rewrite app_length, Nat.add_assoc;
    (destruct (ur_go here (k + List.length a + List.length b) gs) as [prs|e]; [|reflexivity]);
    rewrite map_app, app_assoc; reflexivity.
Qed.

Lemma feature_variant :
  (forall f f', fvar f f' -> forall here parent, uvl_read_feature here parent f = uvl_read_feature here parent f') /\
  (forall gs gs', gsvar gs gs' -> forall here k, ur_go here k gs = ur_go here k gs') /\
  (forall cs cs', fsvar cs cs' -> forall here pc k j, ur_goc here pc k j cs = ur_goc here pc k j cs').
Proof.
  apply fvar_mutind.
  - (* fv_refl *) reflexivity.
  - (* fv_sym *) intros f f' _ IH here parent. symmetry. apply IH.
  - (* fv_trans *) intros f1 f2 f3 _ IH1 _ IH2 here parent. rewrite IH1. apply IH2.
  - (* fv_node *)
    intros ty ty' ref ref' fc fc' at_ at_' gs gs' Hty Href Hfc Hat _ IHgs here parent.
    unfold tyvar in Hty. unfold refvar in Href.
    rewrite !uvl_read_feature_eq, (fcvar_card _ _ Hfc), Hty, (atvar_kv _ _ Hat), (IHgs here 0%nat).
    unfold ur_info. rewrite Href. reflexivity.
  - (* gs_refl *) reflexivity.
  - (* gs_sym *) intros gs gs' _ IH here k. symmetry. apply IH.
  - (* gs_trans *) intros gs1 gs2 gs3 _ IH1 _ IH2 here k. rewrite IH1. apply IH2.
  - (* gs_cons *)
    intros kind cs cs' gs gs' _ IHcs _ IHgs here k.
    rewrite !ur_go_cons, (IHcs here (per_child kind) k 0%nat).
    destruct (ur_goc here (per_child kind) k 0 cs') as [kids|e]; [|reflexivity].
    destruct kind; rewrite IHgs; reflexivity.
  - (* gs_split *) intros kind cs1 cs2 gs Hk here k. apply ur_go_split2. exact Hk.
  - (* gs_empty *)
    intros kind gs Hk here k. rewrite ur_go_cons.
    destruct Hk as [-> | ->]; cbn [per_child]; rewrite ur_goc_nil; cbn [List.length map app];
      rewrite Nat.add_0_r; (destruct (ur_go here k gs) as [prs|e]; reflexivity).
  - (* gs_card *)
    intros t t' cs gs Ht here k. unfold cardvar in Ht. rewrite !ur_go_cons. cbn [per_child].
    destruct (ur_goc here false k 0 cs) as [kids|e]; [|reflexivity]. rewrite Ht. reflexivity.
  - (* gs_alt_card *)
    intros t cs gs Ht here k. rewrite !ur_go_cons. cbn [per_child].
    destruct (ur_goc here false k 0 cs) as [kids|e]; [|reflexivity]. rewrite Ht. reflexivity.
  - (* gs_or_card *)
    intros t cs gs Ht here k. rewrite !ur_go_cons. cbn [per_child].
    destruct (ur_goc here false k 0 cs) as [kids|e] eqn:Hkids; [|reflexivity].
    rewrite Ht, (ur_goc_length _ _ _ _ _ _ Hkids). reflexivity.
  - (* fs_nil *) reflexivity.
  - (* fs_cons *)
    intros c c' cs cs' _ IHc _ IHcs here pc k j. rewrite !ur_goc_cons, IHc, IHcs. reflexivity.
Qed.

Theorem uvl_read_feature_variant : forall f f', fvar f f' ->
  forall here parent, uvl_read_feature here parent f = uvl_read_feature here parent f'.
Proof. exact (proj1 feature_variant). Qed.

Lemma fsvar_refl : forall cs, fsvar cs cs.
Proof. induction cs as [|c cs IH]; [apply fs_nil|apply fs_cons; [apply fv_refl|exact IH]]. Qed.

Lemma fsvar_sym : forall cs cs', fsvar cs cs' -> fsvar cs' cs.
Proof.
  fix IH 3. intros cs cs' [|c c' l l' Hc Hl]; [apply fs_nil|].
  apply fs_cons; [apply fv_sym, Hc|apply IH, Hl].
Qed.

Lemma fsvar_trans : forall cs1 cs2 cs3, fsvar cs1 cs2 -> fsvar cs2 cs3 -> fsvar cs1 cs3.
Proof.
  fix IH 4. intros cs1 cs2 cs3 [|c c' l l' Hc Hl] H2; [exact H2|].
  inversion H2 as [|c2 c3 l2 l3 Hc2 Hl2]; subst.
  apply fs_cons; [exact (fv_trans _ _ _ Hc Hc2)|exact (IH _ _ _ Hl Hl2)].
Qed.

(* the form of the task: the rewrites stated on single features *)
Lemma fv_ref ty ref ref' fc at_ gs : refvar ref ref' ->
  fvar (UFeature ty ref fc at_ gs) (UFeature ty ref' fc at_ gs).
Proof.
  intros H. apply fv_node; [reflexivity|exact H|apply fcvar_refl|apply atvar_refl|apply gs_refl].
Qed.
Lemma fv_boolean ref fc at_ gs : fvar (UFeature None ref fc at_ gs) (UFeature (Some "Boolean") ref fc at_ gs).
Proof.
  apply fv_node; [reflexivity|reflexivity|apply fcvar_refl|apply atvar_refl|apply gs_refl].
Qed.
Lemma fv_card ty ref t t' at_ gs : cardvar t t' ->
  fvar (UFeature ty ref (Some t) at_ gs) (UFeature ty ref (Some t') at_ gs).
Proof.
  intros H. apply fv_node; [reflexivity|reflexivity|apply fc_some, H|apply atvar_refl|apply gs_refl].
Qed.
Lemma fv_groups ty ref fc at_ gs gs' : gsvar gs gs' ->
  fvar (UFeature ty ref fc at_ gs) (UFeature ty ref fc at_ gs').
Proof.
  intros H. apply fv_node; [reflexivity|reflexivity|apply fcvar_refl|apply atvar_refl|exact H].
Qed.
(* the rest of a group list varied, the first group kept *)
Lemma gs_tail g gs gs' : gsvar gs gs' -> gsvar (g :: gs) (g :: gs').
Proof. intros H. destruct g as [k cs]. apply gs_cons; [apply fsvar_refl|exact H]. Qed.
(* a rewrite applied after a prefix of the list *)
Lemma gs_app gs0 : forall gs gs', gsvar gs gs' -> gsvar (gs0 ++ gs) (gs0 ++ gs').
Proof.
  induction gs0 as [|g gs0 IH]; intros gs gs' H; [exact H|].
  rewrite <- !app_comm_cons. apply gs_tail, IH, H.
Qed.
(* [Forall2 fvar] is [fsvar] *)
Lemma fsvar_Forall2 : forall cs cs', Forall2 fvar cs cs' -> fsvar cs cs'.
Proof. induction 1 as [|c c' l l' Hc _ IH]; [apply fs_nil|apply fs_cons; assumption]. Qed.
Lemma Forall2_fsvar : forall cs cs', fsvar cs cs' -> Forall2 fvar cs cs'.
Proof.
  fix IH 3. intros cs cs' [|c c' l l' Hc Hl]; constructor; [exact Hc|apply IH, Hl].
Qed.
(* the whole of [read_group_split]: one keyword per child *)
Lemma gs_singles k : (k = GMand \/ k = GOpt) -> forall cs gs,
  gsvar (UGroup k cs :: gs) (map (fun c => UGroup k [c]) cs ++ gs).
Proof.
  intros Hk. induction cs as [|c cs IH]; intros gs.
  - apply gs_empty, Hk.
  - cbn [map app]. apply (gs_trans _ (UGroup k [c] :: UGroup k cs :: gs)).
    + exact (gs_split k [c] cs gs Hk).
    + apply gs_tail, IH.
Qed.

(* ------------------------------------------------------------------ 4. documents *)
Inductive rootvar : option ufeature -> option ufeature -> Prop :=
| rv_none : rootvar None None
| rv_some f f' : fvar f f' -> rootvar (Some f) (Some f').

(* an absent constraints section and an empty one are the same *)
Inductive ctcsvar : option (list ucst) -> option (list ucst) -> Prop :=
| cs_none : ctcsvar None None
| cs_some l l' : Forall2 cvar l l' -> ctcsvar (Some l) (Some l')
| cs_none_nil : ctcsvar None (Some [])
| cs_nil_none : ctcsvar (Some []) None.

Inductive dvar : udoc -> udoc -> Prop :=
| dv_doc r r' cs cs' : rootvar r r' -> ctcsvar cs cs' ->
    dvar {| d_root := r; d_ctcs := cs |} {| d_root := r'; d_ctcs := cs' |}.

Lemma ctcsvar_read cs cs' : ctcsvar cs cs' ->
  mapM uvl_read_ctc (match cs with Some l => l | None => [] end)
  = mapM uvl_read_ctc (match cs' with Some l => l | None => [] end).
Proof. intros [|l l' H| |]; try reflexivity. apply mapM_ctc_variant, H. Qed.

Theorem uvl_read_variant : forall d d', dvar d d' -> uvl_read_cst d = uvl_read_cst d'.
Proof.
  intros d d' [r r' cs cs' Hr Hcs]. rewrite !uvl_read_cst_eq. cbn [d_root d_ctcs].
  destruct Hr as [|f f' Hf]; [reflexivity|].
  rewrite (uvl_read_feature_variant _ _ Hf), (ctcsvar_read _ _ Hcs). reflexivity.
Qed.

Theorem uvl_variant_denotes : forall m d d', uvl_ok m = true -> cst_of_fm m = Ok d -> dvar d d' ->
  uvl_read_cst d' = Ok (annotate_fm (uvl_norm m)).
Proof.
  intros m d d' Hok Hd Hv.
  destruct (uvl_roundtrip_cst m Hok) as (d0 & Hd0 & Hread).
  rewrite Hd in Hd0. injection Hd0 as <-.
  rewrite <- (uvl_read_variant _ _ Hv). exact Hread.
Qed.

(* [dvar] is an equivalence *)
Lemma Forall2_cvar_refl : forall l, Forall2 cvar l l.
Proof. induction l as [|c l IH]; constructor; [apply cv_refl|exact IH]. Qed.
Lemma Forall2_cvar_sym : forall l l', Forall2 cvar l l' -> Forall2 cvar l' l.
Proof. induction 1 as [|c c' l l' Hc _ IH]; constructor; [apply cv_sym, Hc|exact IH]. Qed.
Lemma Forall2_cvar_trans : forall l1 l2, Forall2 cvar l1 l2 -> forall l3, Forall2 cvar l2 l3 -> Forall2 cvar l1 l3.
Proof.
  induction 1 as [|c c' l l' Hc _ IH]; intros l3 H2; [exact H2|].
  inversion H2 as [|c2 c3 l2' l3' Hc2 Hl2]; subst.
  constructor; [exact (cv_trans _ _ _ Hc Hc2)|apply IH, Hl2].
Qed.

Lemma ctcsvar_refl cs : ctcsvar cs cs.
Proof. destruct cs as [l|]; [apply cs_some, Forall2_cvar_refl|apply cs_none]. Qed.
Lemma ctcsvar_sym cs cs' : ctcsvar cs cs' -> ctcsvar cs' cs.
Proof.
  intros [|l l' H| |]; [apply cs_none|apply cs_some, Forall2_cvar_sym, H|apply cs_nil_none|apply cs_none_nil].
Qed.
Lemma ctcsvar_trans c1 c2 c3 : ctcsvar c1 c2 -> ctcsvar c2 c3 -> ctcsvar c1 c3.
Proof.
  intros H1 H2. destruct H1 as [|l l' H| |].
  - exact H2.
  - inversion H2 as [|l2 l3 H3| |]; subst.
    + apply cs_some. exact (Forall2_cvar_trans _ _ H _ H3).
    + inversion H; subst. apply cs_nil_none.
  - inversion H2 as [|l2 l3 H3| |]; subst.
    + inversion H3; subst. apply cs_none_nil.
    + apply cs_none.
  - inversion H2; subst; [apply cs_nil_none|apply cs_some; constructor].
Qed.

Lemma rootvar_refl r : rootvar r r.
Proof. destruct r as [f|]; [apply rv_some, fv_refl|apply rv_none]. Qed.
Lemma rootvar_sym r r' : rootvar r r' -> rootvar r' r.
Proof. intros [|f f' H]; [apply rv_none|apply rv_some, fv_sym, H]. Qed.
Lemma rootvar_trans r1 r2 r3 : rootvar r1 r2 -> rootvar r2 r3 -> rootvar r1 r3.
Proof.
  intros [|f f' H] H2; [exact H2|]. inversion H2 as [|f2 f3 H3]; subst.
  apply rv_some. exact (fv_trans _ _ _ H H3).
Qed.

Theorem dvar_refl : forall d, dvar d d.
Proof. intros [r cs]. apply dv_doc; [apply rootvar_refl|apply ctcsvar_refl]. Qed.
Theorem dvar_sym : forall d d', dvar d d' -> dvar d' d.
Proof. intros d d' [r r' cs cs' Hr Hcs]. apply dv_doc; [apply rootvar_sym, Hr|apply ctcsvar_sym, Hcs]. Qed.
Theorem dvar_trans : forall d1 d2 d3, dvar d1 d2 -> dvar d2 d3 -> dvar d1 d3.
Proof.
  intros d1 d2 d3 [r r' cs cs' Hr Hcs] H2. inversion H2 as [r2 r3 cs2 cs3 Hr2 Hcs2]; subst.
  apply dv_doc; [exact (rootvar_trans _ _ _ Hr Hr2)|exact (ctcsvar_trans _ _ _ Hcs Hcs2)].
Qed.

(* ------------------------------------------------------------------ non-vacuity *)
Definition v_leaf (n : string) : feature := ex_leaf n.
Definition v_model : fm :=
  {| root :=
       Feature (ex_info "Car" true TBoolean 1 1 [ex_attr "cost" (VInt 12); ex_attr "my attr" (VBool true)])
         [ Relation 1 1 [v_leaf "Engine"];
           Relation 1 1 [v_leaf "Body"];
           Relation 1 1 [v_leaf "my wheel"];
           Relation 0 1 [Feature (ex_info "Radio" false TBoolean 1 1 [])
                           [Relation 1 1 [v_leaf "AM"; v_leaf "FM"]]];
           Relation 2 2 [v_leaf "P1"; v_leaf "P2"; v_leaf "P3"] ];
     ctcs :=
       [ {| c_name := "o";
            c_ast := bin OR (un NOT (bin IMPLIES (term "Engine") (term "Body"))) (term "Radio") |};
         {| c_name := "g"; c_ast := bin LOWER (un LEN (term "my wheel")) (Node (DInt 3) None None) |} ] |}.

Definition u_leaf (ty : option string) (ref : string) : ufeature := UFeature ty ref None None [].

(* what the writer produces for [v_model] *)
Definition d0 : udoc :=
  {| d_root := Some
       (UFeature None "Car" None
          (Some [UAValue "abstract" None; UAValue "cost" (Some (UVInt "12"));
                 UAValue """my attr""" (Some (UVBool "true"))])
          [ UGroup GMand [u_leaf None "Engine"];
            UGroup GMand [u_leaf None "Body"];
            UGroup GMand [u_leaf None """my wheel"""];
            UGroup GOpt [UFeature None "Radio" None None
                           [UGroup GAlt [u_leaf None "AM"; u_leaf None "FM"]]];
            UGroup (GCard "[2]") [u_leaf None "P1"; u_leaf None "P2"; u_leaf None "P3"] ]);
     d_ctcs := Some
       [ KBin OR (KNot (KParen (KBin IMPLIES (KLiteral "Engine") (KLiteral "Body")))) (KLiteral "Radio");
         KBin LOWER (KAggr AgLen ["""my wheel"""]) (KInt "3") ] |}.

Example d0_written : cst_of_fm v_model = Ok d0.
Proof. vm_compute. reflexivity. Qed.
Example v_model_ok : uvl_ok v_model = true.
Proof. vm_compute. reflexivity. Qed.

(* a hand-written variant: parentheses added around [Engine] inside the nested implication and around
   the whole second constraint; [Body], [Radio], [AM] and the key [cost] quoted; the three mandatory
   children under two [mandatory] keywords (2 + 1) instead of three; [Engine] typed [Boolean]
   explicitly; [[2]] written [[2..2]]; [alternative] written [[1..1]]; [Radio] with an explicit
   [cardinality [1..1]] and an empty attribute block *)
Definition d1 : udoc :=
  {| d_root := Some
       (UFeature (Some "Boolean") "Car" None
          (Some [UAValue "abstract" None; UAValue """cost""" (Some (UVInt "12"));
                 UAValue """my attr""" (Some (UVBool "true"))])
          [ UGroup GMand [u_leaf (Some "Boolean") "Engine"; u_leaf None """Body"""];
            UGroup GMand [u_leaf None """my wheel"""];
            UGroup GOpt [UFeature None """Radio""" (Some "[1..1]") (Some [])
                           [UGroup (GCard "[1..1]") [u_leaf None """AM"""; u_leaf None "FM"]]];
            UGroup (GCard "[2..2]") [u_leaf None "P1"; u_leaf None "P2"; u_leaf None "P3"] ]);
     d_ctcs := Some
       [ KBin OR (KNot (KParen (KBin IMPLIES (KParen (KLiteral "Engine")) (KLiteral """Body"""))))
                 (KLiteral """Radio""");
         KParen (KBin LOWER (KAggr AgLen ["""my"" wheel"]) (KInt "3")) ] |}.

(* the same document with ONE [mandatory] keyword: [d1] splits its group in two *)
Definition d2 : udoc :=
  {| d_root := Some
       (UFeature None "Car" None
          (Some [UAValue "abstract" None; UAValue "cost" (Some (UVInt "12"));
                 UAValue """my attr""" (Some (UVBool "true"))])
          [ UGroup GMand [u_leaf None "Engine"; u_leaf None "Body"; u_leaf None """my wheel"""];
            UGroup GOpt [UFeature None "Radio" None None
                           [UGroup GAlt [u_leaf None "AM"; u_leaf None "FM"]]];
            UGroup (GCard "[2]") [u_leaf None "P1"; u_leaf None "P2"; u_leaf None "P3"] ]);
     d_ctcs := d_ctcs d0 |}.

Lemma u_leaf_quote ty ty' r r' : tyvar ty ty' -> refvar r r' -> fvar (u_leaf ty r) (u_leaf ty' r').
Proof.
  intros Ht Hr. apply fv_node; [exact Ht|exact Hr|apply fc_none|apply at_none|apply gs_refl].
Qed.

Example d0_d1 : dvar d0 d1.
Proof.
  apply dv_doc.
  - apply rv_some. apply fv_node.
    + reflexivity.
    + reflexivity.
    + apply fc_none.
    + apply at_some. apply av_same. apply av_val; [reflexivity|apply vv_refl|apply avar_refl].
    + (* first merge the first two mandatory groups, then vary group by group *)
      eapply gs_trans.
      * apply gs_sym.
        exact (gs_split GMand [u_leaf None "Engine"] [u_leaf None "Body"] _ (or_introl eq_refl)).
      * cbn [app].
        apply gs_cons.
        { apply fs_cons; [apply u_leaf_quote; reflexivity|].
          apply fs_cons; [apply u_leaf_quote; reflexivity|apply fs_nil]. }
        apply gs_tail.
        apply gs_cons.
        { apply fs_cons; [|apply fs_nil].
          apply fv_node.
          - reflexivity.
          - reflexivity.
          - apply fc_none_one. vm_compute. reflexivity.
          - apply at_none_nil.
          - apply (gs_trans _ [UGroup (GCard "[1..1]") [u_leaf None "AM"; u_leaf None "FM"]]).
            + apply gs_alt_card. vm_compute. reflexivity.
            + apply gs_cons; [|apply gs_refl].
              apply fs_cons; [apply u_leaf_quote; reflexivity|apply fsvar_refl]. }
        apply gs_card. exact (read_card_n 2).
  - apply cs_some. constructor; [|constructor; [|constructor]].
    + apply cv_bin.
      * apply cv_not. apply cv_in_paren. apply cv_bin; [apply cv_paren|apply cv_lit; reflexivity].
      * apply cv_lit. reflexivity.
    + apply (cv_trans _ (KBin LOWER (KAggr AgLen ["""my"" wheel"]) (KInt "3"))); [|apply cv_paren].
      apply cv_bin; [|apply cv_refl]. apply cv_aggr. constructor; [reflexivity|constructor].
Qed.

Example d2_d1 : dvar d2 d1.
Proof.
  apply (dvar_trans _ d0); [|exact d0_d1].
  apply dv_doc; [|apply ctcsvar_refl].
  apply rv_some, fv_groups.
  eapply gs_trans.
  - exact (gs_split GMand [u_leaf None "Engine"] [u_leaf None "Body"; u_leaf None """my wheel"""] _
             (or_introl eq_refl)).
  - apply gs_tail.
    exact (gs_split GMand [u_leaf None "Body"] [u_leaf None """my wheel"""] _ (or_introl eq_refl)).
Qed.

Example d1_read_same : uvl_read_cst d1 = uvl_read_cst d0.
Proof. vm_compute. reflexivity. Qed.
Example d2_read_same : uvl_read_cst d2 = uvl_read_cst d0.
Proof. vm_compute. reflexivity. Qed.
Example d1_read_ok : exists pm, uvl_read_cst d1 = Ok pm.
Proof. vm_compute. eexists. reflexivity. Qed.
Example d1_denotes : uvl_read_cst d1 = Ok (annotate_fm (uvl_norm v_model)).
Proof. exact (uvl_variant_denotes v_model d0 d1 v_model_ok d0_written d0_d1). Qed.

(* ------------------------------------------------------------------ what is NOT a variant *)
(* parentheses are invisible, but a STRING token is not a reference: its quotes are kept *)
Example kstr_quotes_false : uvl_read_ctc (KStr "'a'") <> uvl_read_ctc (KStr "a").
Proof. vm_compute. discriminate. Qed.
(* single quotes are not stripped from references ([strip_quotes] removes the double quote only) *)
Example single_quote_ref_false : uvl_read_ctc (KLiteral "'A'") <> uvl_read_ctc (KLiteral "A").
Proof. vm_compute. discriminate. Qed.
(* splitting is for mandatory / optional only: an [or] / [alternative] / cardinality group split in
   two is two relations *)
Example split_or_false :
  uvl_read_cst {| d_root := Some (UFeature None "R" None None [UGroup GOr [u_leaf None "A"; u_leaf None "B"]]);
                  d_ctcs := None |}
  <> uvl_read_cst {| d_root := Some (UFeature None "R" None None
                                       [UGroup GOr [u_leaf None "A"]; UGroup GOr [u_leaf None "B"]]);
                     d_ctcs := None |}.
Proof. vm_compute. discriminate. Qed.
(* two adjacent groups of DIFFERENT per-child kinds cannot be swapped: the order of relations is kept *)
Example swap_groups_false :
  uvl_read_cst {| d_root := Some (UFeature None "R" None None
                                       [UGroup GMand [u_leaf None "A"]; UGroup GOpt [u_leaf None "B"]]);
                  d_ctcs := None |}
  <> uvl_read_cst {| d_root := Some (UFeature None "R" None None
                                       [UGroup GOpt [u_leaf None "B"]; UGroup GMand [u_leaf None "A"]]);
                     d_ctcs := None |}.
Proof. vm_compute. discriminate. Qed.

Print Assumptions uvl_read_variant.
Print Assumptions uvl_variant_denotes.
Print Assumptions dvar_trans.
Print Assumptions d0_d1.
