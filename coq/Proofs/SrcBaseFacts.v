(* Proofs/SrcBaseFacts.v — helpers shared by the source-tie proofs: foldM / py_flat_mapM / py_pop facts,
   located objects, the relation predicates of the translated Relation class. *)
From Coq Require Import List Bool Ascii String ZArith Lia Permutation.
From FM Require Import Base.Result Base.Str Base.AstOp Model.Ast Model.FM Model.Ctc Model.Queries Model.Sem
     Model.Ops Model.PyRt Model.Loc Gen.Src_fm  Proofs.FMFacts.
Import ListNotations.
Local Open Scope list_scope.
(* ------------------------------------------------------------------ general helpers *)

Lemma flat_map_singleton {A B} (g : A -> B) (l : list A) :
  flat_map (fun x => [g x]) l = map g l.
Proof. induction l as [|x xs IH]; simpl; [reflexivity|]. rewrite IH. reflexivity. Qed.

(* a fold whose step appends [g x] to the state *)
Lemma foldM_append {A B} (F : list B -> A -> result (list B)) (g : A -> list B) :
  forall (l : list A) (s : list B),
    (forall x, In x l -> forall s', F s' x = Ok (s' ++ g x)) ->
    foldM F l s = Ok (s ++ flat_map g l).
Proof.
  induction l as [|x xs IH]; intros s H.
  - simpl. rewrite app_nil_r. reflexivity.
  - cbn [foldM flat_map]. rewrite (H x (or_introl eq_refl)).
    change (foldM F xs (s ++ g x) = Ok (s ++ g x ++ flat_map g xs)).
    rewrite IH.
    + rewrite app_assoc. reflexivity.
    + intros y Hy s'. apply H. right. exact Hy.
Qed.

(* a fold whose step appends [g x] to both components of the state *)
Lemma foldM_append2 {A B} (F : list B * list B -> A -> result (list B * list B)) (g : A -> list B) :
  forall (l : list A) (s1 s2 : list B),
    (forall x, In x l -> forall a b, F (a, b) x = Ok (a ++ g x, b ++ g x)) ->
    foldM F l (s1, s2) = Ok (s1 ++ flat_map g l, s2 ++ flat_map g l).
Proof.
  induction l as [|x xs IH]; intros s1 s2 H.
  - simpl. rewrite !app_nil_r. reflexivity.
  - cbn [foldM flat_map]. rewrite (H x (or_introl eq_refl)).
    change (foldM F xs (s1 ++ g x, s2 ++ g x)
            = Ok (s1 ++ g x ++ flat_map g xs, s2 ++ g x ++ flat_map g xs)).
    rewrite IH.
    + rewrite !app_assoc. reflexivity.
    + intros y Hy a b. apply H. right. exact Hy.
Qed.

(* a fold whose step never fails *)
Lemma foldM_pure {S A} (F : S -> A -> result S) (g : S -> A -> S) :
  (forall s x, F s x = Ok (g s x)) ->
  forall (l : list A) (s : S), foldM F l s = Ok (fold_left g l s).
Proof.
  intros H. induction l as [|x xs IH]; intros s.
  - reflexivity.
  - cbn [foldM fold_left]. rewrite H. apply IH.
Qed.

Lemma py_flat_mapM_map {A B} (F : A -> result (list B)) (g : A -> B) :
  forall l : list A, (forall x, In x l -> F x = Ok [g x]) -> py_flat_mapM F l = Ok (map g l).
Proof.
  induction l as [|x xs IH]; intros H.
  - reflexivity.
  - cbn [py_flat_mapM map]. rewrite (H x (or_introl eq_refl)).
    change (match py_flat_mapM F xs with Err e => Err e | Ok ys => Ok ([g x] ++ ys) end
            = Ok (g x :: map g xs)).
    rewrite IH.
    + reflexivity.
    + intros y Hy. apply H. right. exact Hy.
Qed.

Lemma py_pop_snoc {A} (l : list A) (x : A) : py_pop (l ++ [x]) = Ok (x, l).
Proof. unfold py_pop. rewrite rev_app_distr. simpl. rewrite rev_involutive. reflexivity. Qed.

Lemma list_snoc_cases {A} (l : list A) : l = [] \/ exists r x, l = r ++ [x].
Proof.
  destruct l as [|a l']; [left; reflexivity|right].
  destruct (@exists_last A (a :: l')) as [r [x Hx]]; [discriminate|].
  exists r, x. exact Hx.
Qed.

Lemma py_is_nil_snoc {A} (l : list A) (x : A) : py_is_nil (l ++ [x]) = false.
Proof. destruct l; reflexivity. Qed.

Lemma list_sum_in_le : forall (l : list nat) n, In n l -> (n <= list_sum l)%nat.
Proof.
  induction l as [|a l IH]; intros n Hin; [contradiction|].
  simpl. destruct Hin as [->|Hin]; [lia|]. specialize (IH n Hin). lia.
Qed.

Lemma flat_map_app_perm {A B} (f g : A -> list B) (l : list A) :
  Permutation (flat_map f l ++ flat_map g l) (flat_map (fun x => f x ++ g x) l).
Proof.
  induction l as [|x xs IH]; simpl; [constructor|].
  transitivity ((f x ++ g x) ++ (flat_map f xs ++ flat_map g xs)).
  - rewrite <- !app_assoc. apply Permutation_app_head.
    rewrite !app_assoc. apply Permutation_app_tail. apply Permutation_app_comm.
  - apply Permutation_app_head. exact IH.
Qed.

Lemma flat_map_perm_pointwise {A B} (f g : A -> list B) (l : list A) :
  (forall x, In x l -> Permutation (f x) (g x)) -> Permutation (flat_map f l) (flat_map g l).
Proof.
  induction l as [|x xs IH]; intros H; simpl; [constructor|].
  apply Permutation_app.
  - apply H. left. reflexivity.
  - apply IH. intros y Hy. apply H. right. exact Hy.
Qed.

Lemma flat_map_map' {A B C} (f : A -> B) (g : B -> list C) (l : list A) :
  flat_map g (map f l) = flat_map (fun x => g (f x)) l.
Proof. induction l as [|x xs IH]; simpl; [reflexivity|]. rewrite IH. reflexivity. Qed.

Lemma map_flat_map' {A B C} (f : A -> list B) (g : B -> C) (l : list A) :
  map g (flat_map f l) = flat_map (fun x => map g (f x)) l.
Proof. induction l as [|x xs IH]; simpl; [reflexivity|]. rewrite map_app, IH. reflexivity. Qed.

(* ------------------------------------------------------------------ located objects *)

Lemma py_len_lr_children r o : py_len (lr_children (r, o)) = nchildren r.
Proof. unfold py_len, lr_children, nchildren. cbn [fst snd]. rewrite map_length. reflexivity. Qed.

Lemma map_fst_lr_children r o : map fst (lr_children (r, o)) = r_children r.
Proof.
  unfold lr_children. cbn [fst snd]. rewrite map_map. cbn [fst]. apply map_id.
Qed.

Lemma map_lr_children {B} (g : feature -> B) r o :
  map (fun lc => g (fst lc)) (lr_children (r, o)) = map g (r_children r).
Proof. unfold lr_children. cbn [fst snd]. rewrite map_map. reflexivity. Qed.

Lemma src_rel_is_mandatory r o : py_Relation_is_mandatory (r, o) = rel_is_mandatory r.
Proof.
  unfold py_Relation_is_mandatory, rel_is_mandatory. rewrite py_len_lr_children. cbn [fst].
  rewrite andb_assoc. reflexivity.
Qed.
Lemma src_rel_is_optional r o : py_Relation_is_optional (r, o) = rel_is_optional r.
Proof.
  unfold py_Relation_is_optional, rel_is_optional. rewrite py_len_lr_children. cbn [fst].
  rewrite andb_assoc. reflexivity.
Qed.
Lemma src_rel_is_or r o : py_Relation_is_or (r, o) = rel_is_or r.
Proof.
  unfold py_Relation_is_or, rel_is_or. rewrite py_len_lr_children. cbn [fst].
  rewrite andb_assoc. reflexivity.
Qed.
Lemma src_rel_is_alternative r o : py_Relation_is_alternative (r, o) = rel_is_alternative r.
Proof.
  unfold py_Relation_is_alternative, rel_is_alternative. rewrite py_len_lr_children. cbn [fst].
  rewrite andb_assoc. reflexivity.
Qed.

Lemma src_feat_is_leaf x : py_Feature_is_leaf x = feat_is_leaf (fst x).
Proof.
  unfold py_Feature_is_leaf, py_Feature_get_relations, lf_relations, feat_is_leaf, py_len.
  rewrite map_length. destruct (rels (fst x)); reflexivity.
Qed.

Lemma in_lf_relations lr x : In lr (lf_relations x) -> exists r, lr = (r, x) /\ In r (rels (fst x)).
Proof.
  unfold lf_relations. intros H. apply in_map_iff in H. destruct H as [r [H1 H2]].
  exists r. split; [symmetry; exact H1 | exact H2].
Qed.

Lemma in_lr_children lc r o :
  In lc (lr_children (r, o)) -> exists c, lc = (c, fst o :: snd o) /\ In c (r_children r).
Proof.
  unfold lr_children. cbn [fst snd]. intros H. apply in_map_iff in H. destruct H as [c [H1 H2]].
  exists c. split; [symmetry; exact H1 | exact H2].
Qed.

(* a relation with exactly one child: children[0] *)
Lemma single_child_index r o :
  nchildren r = 1%Z ->
  exists c, r_children r = [c] /\ py_index (lr_children (r, o)) 0%Z = Ok (c, fst o :: snd o).
Proof.
  unfold nchildren, lr_children. cbn [fst snd]. intros H.
  destruct (r_children r) as [|c [|d cs]]; cbn [List.length] in H; try lia.
  exists c. split; reflexivity.
Qed.

Lemma mandatory_single r : rel_is_mandatory r = true -> nchildren r = 1%Z.
Proof.
  unfold rel_is_mandatory. intros H. apply andb_true_iff in H. destruct H as [_ H].
  apply Z.eqb_eq. exact H.
Qed.
Lemma optional_single r : rel_is_optional r = true -> nchildren r = 1%Z.
Proof.
  unfold rel_is_optional. intros H. apply andb_true_iff in H. destruct H as [_ H].
  apply Z.eqb_eq. exact H.
Qed.

(* ------------------------------------------------------------------ sizes *)

Lemma fsize_eq' i rs :
  fsize (Feature i rs) = S (list_sum (map (fun r => list_sum (map fsize (r_children r))) rs)).
Proof. cbn [fsize]. f_equal. f_equal. apply map_ext. intros [a b cs]. reflexivity. Qed.

Lemma fsize_child i rs r c :
  In r rs -> In c (r_children r) -> (fsize c < fsize (Feature i rs))%nat.
Proof.
  intros Hr Hc. rewrite fsize_eq'.
  assert (H1 : (fsize c <= list_sum (map fsize (r_children r)))%nat).
  { apply list_sum_in_le. apply in_map. exact Hc. }
  assert (H2 : (list_sum (map fsize (r_children r))
                <= list_sum (map (fun r => list_sum (map fsize (r_children r))) rs))%nat).
  { apply list_sum_in_le. apply (in_map (fun r => list_sum (map fsize (r_children r)))). exact Hr. }
  lia.
Qed.

