(* Proofs/SrcTieC20.v — C20 stated about the TRANSLATED SOURCE of the comparison methods of feature_model.py
   (Gen/Src_fm.v): Feature / Relation / Constraint / FeatureModel __eq__ and __lt__. *)
From Coq Require Import List Bool String ZArith Permutation.
From FM Require Import Base.Result Base.Str Model.FM Model.Queries Model.EqHash Model.PyRt Model.Loc Gen.Src_fm
     Proofs.C20Facts Proofs.SrcFmFacts Proofs.SrcEqFacts.
Import ListNotations.
Local Open Scope list_scope.

Lemma source_feature_eq_refl_sym : forall x y,
  py_Feature___eq__ x x = true /\ py_Feature___eq__ x y = py_Feature___eq__ y x.
Proof.
  intros x y. rewrite !src_feat_eq. split; [apply String.eqb_refl | apply String.eqb_sym].
Qed.

Lemma source_relation_eq_refl_sym : forall x y,
  py_Relation___eq__ x x = true /\ py_Relation___eq__ x y = py_Relation___eq__ y x.
Proof. intros x y. rewrite !src_rel_eq. split; [apply relation_eqb_refl | apply relation_eqb_sym]. Qed.

Lemma source_ctc_eq_refl_sym : forall a b,
  py_Constraint___eq__ a a = true /\ py_Constraint___eq__ a b = py_Constraint___eq__ b a.
Proof. intros a b. rewrite !src_ctc_eq. split; [apply ctc_eqb_refl | apply ctc_eqb_sym]. Qed.

(* equal relations have equal hash keys (the value Relation.__hash__ hashes) *)
Lemma source_relation_eq_hash : forall x y, py_Relation___eq__ x y = true ->
  relation_hash_key (orel_of x) = relation_hash_key (orel_of y).
Proof. intros x y H. rewrite src_rel_eq in H. now apply relation_eq_hash. Qed.

(* Relation.__lt__ is a strict total order on the canonical form __eq__ uses *)
Lemma source_relation_lt_order : forall x y z,
  py_Relation___lt__ x x = false /\
  (py_Relation___lt__ x y = true -> py_Relation___lt__ y z = true -> py_Relation___lt__ x z = true) /\
  (py_Relation___lt__ x y = false -> py_Relation___lt__ y x = false -> py_Relation___eq__ x y = true).
Proof.
  intros x y z. rewrite !src_rel_lt, src_rel_eq. split; [apply rkey_ltb_irrefl|]. split.
  - apply rkey_ltb_trans.
  - intros H1 H2. apply relation_eqb_iff. now apply rkey_ltb_total.
Qed.

(* model equality *)
Lemma source_fm_eq_refl : forall a fuel, (fuel_tree (root a) <= fuel)%nat ->
  py_FeatureModel___eq__ fuel a a = Ok true.
Proof. intros a fuel H. rewrite src_fm_eq by assumption. now rewrite fm_eqb_refl. Qed.

Lemma source_fm_eq_sym : forall a b fuel, (fuel_tree (root a) <= fuel)%nat -> (fuel_tree (root b) <= fuel)%nat ->
  py_FeatureModel___eq__ fuel a b = py_FeatureModel___eq__ fuel b a.
Proof. intros a b fuel Ha Hb. rewrite !src_fm_eq by assumption. now rewrite fm_eqb_sym. Qed.

Lemma source_fm_eq_characterisation : forall a b fuel,
  (fuel_tree (root a) <= fuel)%nat -> (fuel_tree (root b) <= fuel)%nat ->
  (py_FeatureModel___eq__ fuel a b = Ok true <->
   (name (root a) = name (root b)
    /\ Permutation (map name (get_features a)) (map name (get_features b))
    /\ Permutation (map relation_sort_key (fm_relations a)) (map relation_sort_key (fm_relations b))
    /\ Permutation (map (ctc_key str_lower) (ctcs a)) (map (ctc_key str_lower) (ctcs b)))).
Proof.
  intros a b fuel Ha Hb. rewrite src_fm_eq by assumption. rewrite <- fm_eqb_iff. split.
  - intro H. now injection H.
  - intro H. now rewrite H.
Qed.

Lemma source_fm_permuted_copy : forall a b fuel,
  (fuel_tree (root a) <= fuel)%nat -> (fuel_tree (root b) <= fuel)%nat ->
  fperm (root a) (root b) -> Permutation (ctcs a) (ctcs b) -> py_FeatureModel___eq__ fuel a b = Ok true.
Proof.
  intros a b fuel Ha Hb Hp Hc. rewrite src_fm_eq by assumption. now rewrite (permuted_copy_equal str_lower a b Hp Hc).
Qed.

Lemma source_fm_eq_hash : forall a b fuel,
  (fuel_tree (root a) <= fuel)%nat -> (fuel_tree (root b) <= fuel)%nat ->
  py_FeatureModel___eq__ fuel a b = Ok true -> fm_hash_key str_lower a = fm_hash_key str_lower b.
Proof.
  intros a b fuel Ha Hb H. rewrite src_fm_eq in H by assumption. injection H as H. now apply fm_eq_hash.
Qed.
