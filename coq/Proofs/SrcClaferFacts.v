(* Proofs/SrcClaferFacts.v — the source tie for clafer_writer.py: the generated translation
   (Gen/Src_clafer.v), which produces the TEXT, equals the hand-written model of Format/Export.v
   (section "Clafer"), which builds a structured document and prints it. *)
From Coq Require Import List Bool Ascii String ZArith Lia Permutation.
From FM Require Import Base.Result Base.Str Base.AstOp Model.Ast Model.FM Model.Ctc Model.Queries
     Format.Json Format.Glencoe Format.Export Model.PyRt Model.Loc Gen.Src_fm Gen.Src_clafer
     Proofs.FMFacts Proofs.QueriesFacts Proofs.C16Facts Proofs.PositionalFacts Proofs.SrcFmFacts.
Import ListNotations.
Local Open Scope list_scope.

(* ------------------------------------------------------------------ strings *)
Lemma sc_app_assoc (a b c : string) : ((a ++ b) ++ c)%string = (a ++ (b ++ c))%string.
Proof. induction a as [|x a IH]; cbn [append]; [reflexivity|]. rewrite IH. reflexivity. Qed.

Lemma sc_app_nil_r (a : string) : (a ++ "")%string = a.
Proof. induction a as [|x a IH]; cbn [append]; [reflexivity|]. rewrite IH. reflexivity. Qed.

Lemma sc_str_concat_cons (x : string) (l : list string) :
  str_concat (x :: l) = (x ++ str_concat l)%string.
Proof. reflexivity. Qed.

Lemma sc_str_repeat_tabs (n : Z) : py_str_repeat (String "009"%char "") n = tabs (Z.to_nat n).
Proof.
  unfold py_str_repeat. generalize (Z.to_nat n). intros k.
  induction k as [|k IH]; cbn [tabs]; [reflexivity|]. rewrite IH. reflexivity.
Qed.

(* ------------------------------------------------------------------ loops that build a text *)
(* result += g(x) for x in l *)
Lemma sc_foldM_str {A} (f : string -> A -> result string) (g : A -> string) (l : list A) :
  (forall acc x, In x l -> f acc x = Ok (acc ++ g x)%string) ->
  forall a, foldM f l a = Ok (a ++ str_concat (map g l))%string.
Proof.
  induction l as [|x xs IH]; intros H a; cbn [foldM map].
  - unfold str_concat. cbn [fold_right]. rewrite sc_app_nil_r. reflexivity.
  - rewrite (H a x (or_introl eq_refl)).
    change (foldM f xs (a ++ g x)%string = Ok (a ++ str_concat (g x :: map g xs))%string).
    rewrite IH.
    + rewrite sc_str_concat_cons, sc_app_assoc. reflexivity.
    + intros acc y Hy. apply H. right. exact Hy.
Qed.

(* the same when a step may raise the one exception e *)
Lemma sc_foldM_str_err {A} (f : string -> A -> result string) (bad : A -> bool) (g : A -> string)
      (e : exn) (l : list A) :
  (forall acc x, In x l -> f acc x = if bad x then Err e else Ok (acc ++ g x)%string) ->
  forall a, foldM f l a = if existsb bad l then Err e else Ok (a ++ str_concat (map g l))%string.
Proof.
  induction l as [|x xs IH]; intros H a; cbn [foldM map existsb].
  - unfold str_concat. cbn [fold_right]. rewrite sc_app_nil_r. reflexivity.
  - rewrite (H a x (or_introl eq_refl)).
    destruct (bad x); cbn [orb]; [reflexivity|].
    change (foldM f xs (a ++ g x)%string
            = if existsb bad xs then Err e
              else Ok (a ++ str_concat (g x :: map g xs))%string).
    rewrite IH.
    + rewrite sc_str_concat_cons, sc_app_assoc. reflexivity.
    + intros acc y Hy. apply H. right. exact Hy.
Qed.

(* the same when the piece of text comes from a computation that may raise: the first exception in
   list order, as mapM *)
Lemma sc_foldM_str_mapM {A B} (f : string -> A -> result string) (F : A -> result B)
      (g : B -> string) (l : list A) :
  (forall acc x, In x l -> f acc x = match F x with Err e => Err e | Ok y => Ok (acc ++ g y)%string end) ->
  forall a, foldM f l a
            = match mapM F l with Err e => Err e | Ok ys => Ok (a ++ str_concat (map g ys))%string end.
Proof.
  induction l as [|x xs IH]; intros H a; cbn [foldM mapM map].
  - unfold str_concat. cbn [fold_right]. rewrite sc_app_nil_r. reflexivity.
  - rewrite (H a x (or_introl eq_refl)).
    destruct (F x) as [y|e]; [|reflexivity].
    change (foldM f xs (a ++ g y)%string
            = match (match mapM F xs with Err e => Err e | Ok ys => Ok (y :: ys) end) with
              | Err e => Err e
              | Ok ys => Ok (a ++ str_concat (map g ys))%string
              end).
    rewrite IH.
    + destruct (mapM F xs) as [ys|e]; [|reflexivity].
      cbn [map]. rewrite sc_str_concat_cons, sc_app_assoc. reflexivity.
    + intros acc z Hz. apply H. right. exact Hz.
Qed.

Lemma sc_existsb_perm {A} (p : A -> bool) (l1 l2 : list A) :
  Permutation l1 l2 -> existsb p l1 = existsb p l2.
Proof.
  intros HP. induction HP as [|x l l' _ IH|x y l|l l' l'' _ IH1 _ IH2]; cbn [existsb].
  - reflexivity.
  - rewrite IH. reflexivity.
  - destruct (p x), (p y); reflexivity.
  - rewrite IH1. exact IH2.
Qed.

Lemma sc_existsb_flat_map {A B} (p : B -> bool) (g : A -> list B) (l : list A) :
  existsb p (flat_map g l) = existsb (fun x => existsb p (g x)) l.
Proof.
  induction l as [|x xs IH]; cbn [flat_map existsb]; [reflexivity|].
  rewrite existsb_app, IH. reflexivity.
Qed.

(* ------------------------------------------------------------------ safename *)
Lemma sc_safechar (c : ascii) : str_contains_char c py_safecharacters = is_safechar c.
Proof.
  destruct c as [[] [] [] [] [] [] [] []]; vm_compute; reflexivity.
Qed.

Lemma sc_exists_unsafe (p q : ascii -> bool) (s : string) :
  (forall c, p c = q c) ->
  existsb (fun c => negb (p c)) (list_ascii_of_string s) = negb (str_forallb q s).
Proof.
  intros H. induction s as [|c s IH]; cbn [list_ascii_of_string existsb str_forallb]; [reflexivity|].
  rewrite IH, H, negb_andb. reflexivity.
Qed.

Lemma src_clafer_safename : forall s, py_safename s = cl_safename s.
Proof.
  intros s. unfold py_safename, cl_safename, w_safename, quote, clafer_keywords.
  rewrite (fm_existsb_ext (fun y => String.eqb y s) (String.eqb s));
    [|intros y; apply String.eqb_sym].
  rewrite (sc_exists_unsafe _ is_safechar s sc_safechar).
  destruct (str_forallb is_safechar s); reflexivity.
Qed.

(* ------------------------------------------------------------------ attribute types *)
Lemma src_clafer_parse_type_value : forall v, py_parse_type_value v = clafer_type v.
Proof. intros v. destruct v; reflexivity. Qed.

(* ------------------------------------------------------------------ constraints *)
Lemma sc_node_ind (P : node -> Prop) :
  (forall d l r,
      match l with Some x => P x | None => True end ->
      match r with Some x => P x | None => True end -> P (Node d l r)) ->
  forall n, P n.
Proof.
  intros H. fix IH 1. intros [d l r]. apply H.
  - destruct l as [x|]; [apply IH|exact I].
  - destruct r as [x|]; [apply IH|exact I].
Qed.

Lemma sc_operator : forall o, py_CLAFER_OPERATORS o = clafer_operator o.
Proof. intros o. destruct o; reflexivity. Qed.

(* the operand of the model, named *)
Definition sc_operand (c : option node) : result cexpr :=
  match c with
  | None => Err AttributeError
  | Some x => match clafer_node x with
              | Err e => Err e
              | Ok cx => Ok (if is_op x then CxParen cx else cx)
              end
  end.

Lemma sc_operand_eq fuel (c : option node) :
  match c with
  | Some x => py__serialize_node fuel x = rmap render_cexpr (clafer_node x)
  | None => True
  end ->
  bind (py_need c) (fun v => py__serialize_operand (S fuel) v) = rmap render_cexpr (sc_operand c).
Proof.
  intros H. destruct c as [x|]; cbn [py_need bind sc_operand rmap]; [|reflexivity].
  cbn [py__serialize_operand]. rewrite H.
  destruct (clafer_node x) as [cx|e]; cbn [rmap bind]; [|reflexivity].
  destruct (is_op x); reflexivity.
Qed.

Lemma sc_node_fuel : forall n fuel, (2 * nsize n <= S fuel)%nat ->
  py__serialize_node fuel n = rmap render_cexpr (clafer_node n).
Proof.
  induction n as [d l r IHl IHr] using sc_node_ind. intros fuel Hfuel.
  destruct fuel as [|fuel]; [cbn [nsize] in Hfuel; lia|].
  assert (Hl : bind (py_need l) (fun v => py__serialize_operand fuel v)
               = rmap render_cexpr (sc_operand l)).
  { destruct l as [x|]; [|reflexivity].
    destruct fuel as [|fuel].
    { cbn [nsize] in Hfuel. destruct x as [dx lx rx]. cbn [nsize] in Hfuel. lia. }
    apply (sc_operand_eq fuel (Some x)). apply IHl. cbn [nsize] in Hfuel. lia. }
  assert (Hr : bind (py_need r) (fun v => py__serialize_operand fuel v)
               = rmap render_cexpr (sc_operand r)).
  { destruct r as [x|]; [|reflexivity].
    destruct fuel as [|fuel].
    { cbn [nsize] in Hfuel. destruct x as [dx lx rx]. cbn [nsize] in Hfuel. lia. }
    apply (sc_operand_eq fuel (Some x)). apply IHr. cbn [nsize] in Hfuel. lia. }
  cbn [py__serialize_node].
  change (clafer_node (Node d l r))
    with (match d with
          | DOp NOT => match sc_operand l with Err e => Err e | Ok a => Ok (CxNot a) end
          | DOp o =>
              match sc_operand l with Err e => Err e | Ok a =>
              match sc_operand r with Err e => Err e | Ok b =>
                if astop_eqb o EXCLUDES then Ok (CxBin "=>" a (CxNot b))
                else match clafer_operator o with
                     | Some s => Ok (CxBin s a b)
                     | None => Err KeyError
                     end
              end end
          | _ => Ok (CxVar (cl_safename (data_str d)))
          end).
  unfold is_term, is_op. cbn [n_data n_left n_right].
  destruct d as [o|s|z|q|b]; cbn [negb ndata_is_op];
    try (rewrite src_clafer_safename; reflexivity).
  rewrite Hl, Hr. rewrite sc_operator.
  destruct o; cbn [astop_eqb clafer_operator bind];
    destruct (sc_operand l) as [a|e]; cbn [rmap bind]; try reflexivity;
    destruct (sc_operand r) as [b|e]; cbn [rmap bind render_cexpr append]; try reflexivity.
  all: rewrite ?sc_app_assoc; reflexivity.
Qed.

Lemma src_clafer_node : forall n fuel, (fuel_node n <= fuel)%nat ->
  py__serialize_node fuel n = rmap render_cexpr (clafer_node n).
Proof.
  intros n fuel H. apply sc_node_fuel. unfold fuel_node in H. lia.
Qed.

(* ------------------------------------------------------------------ groups *)
Lemma sc_find_lf_relations (p : lrel -> bool) (q : relation -> bool) (x : lfeat) :
  (forall r, p (r, x) = q r) ->
  find p (lf_relations x) = option_map (fun r => (r, x)) (find q (rels (fst x))).
Proof.
  intros H. unfold lf_relations. rewrite fm_find_map. f_equal.
  induction (rels (fst x)) as [|r rs IH]; cbn [find]; [reflexivity|].
  rewrite H, IH. reflexivity.
Qed.

Lemma src_clafer_group_type : forall x,
  py_parse_group_type x = option_map render_cgroup (clafer_group (fst x)).
Proof.
  intros x. unfold py_parse_group_type, clafer_group.
  rewrite src_feat_is_alternative_group, src_feat_is_or_group, src_feat_is_cardinality_group,
    src_feat_is_mutex_group.
  destruct (feat_is_alternative_group (fst x)); [reflexivity|].
  destruct (feat_is_or_group (fst x)); [reflexivity|].
  destruct (feat_is_cardinality_group (fst x)).
  - rewrite fm_flat_map_filter, fm_head_find. unfold py_Feature_get_relations.
    rewrite (sc_find_lf_relations _ rel_is_cardinal x (fun r => src_rel_is_cardinal r x)).
    destruct (find rel_is_cardinal (rels (fst x))) as [r|]; cbn [option_map fst]; [|reflexivity].
    cbn [render_cgroup]. unfold card_star. rewrite sc_app_assoc. reflexivity.
  - destruct (feat_is_mutex_group (fst x)); reflexivity.
Qed.

Lemma src_clafer_in_any_number_group : forall f anc,
  py__in_any_number_group (f, anc) = in_any_number_group (hd_error anc) f.
Proof.
  intros f anc. unfold py__in_any_number_group, in_any_number_group, py_Feature_get_parent.
  destruct anc as [|p a]; cbn [lf_parent snd hd_error]; [reflexivity|].
  unfold py_Feature_get_relations.
  apply (existsb_lf_relations _
           (fun r => rel_is_cardinal r && (r_min r =? 0)%Z && (r_max r =? -1)%Z && in_children f r)
           (p, a)).
  intros r. rewrite src_rel_is_cardinal, in_children_loc. cbn [fst].
  rewrite !andb_assoc. reflexivity.
Qed.

(* ------------------------------------------------------------------ attribute values *)
Lemma sc_py_str_repr : forall v, py_str v = aval_repr v.
Proof.
  fix IH 1. intros v. destruct v as [|b|z|r|s|l|kv]; cbn [py_str aval_repr]; try reflexivity.
  (* the two fixpoints have the same body, so nothing is left; the script below is for a model whose
     py_str is written differently *)
  all: f_equal; f_equal; f_equal;
    induction l as [|x xs IHl]; cbn [map]; [reflexivity|];
    rewrite (IH x), IHl; reflexivity.
Qed.

(* The code writes a float through _double_literal, which adds ".0" when the positional spelling has
   no point; the model's clafer_value does not.  The two agree exactly on the values below: every real
   repr of a finite Python float is one of them (a repr without exponent always has a point, and
   py_positional puts a point in every spelling it builds from an exponent form). *)
Definition sc_float_pointed (v : aval) : bool :=
  match v with
  | VFloat r => match py_positional r with Some t => str_contains_char "." t | None => true end
  | _ => true
  end.
Definition sc_attrs_pointed (g : feature) : bool :=
  forallb (fun a => sc_float_pointed (a_default a)) (f_attrs (info g)).
Definition sc_attrs_nonfinite (g : feature) : bool :=
  existsb (fun a => nonfinite_float (a_default a)) (f_attrs (info g)).

Example sc_unpointed_float_differs :
  py__double_literal "5" = Ok "5.0"%string /\ clafer_value (VFloat "5") = "5"%string
  /\ nonfinite_float (VFloat "5") = false.
Proof. vm_compute. repeat split; reflexivity. Qed.

(* a sufficient condition on the text: the repr has a point or an exponent mark (every repr of a finite
   Python float has one of the two) *)
Lemma sc_contains_app c (a b : string) :
  str_contains_char c (a ++ b)%string = str_contains_char c a || str_contains_char c b.
Proof.
  unfold str_contains_char. induction a as [|x a IH]; cbn [append str_existsb]; [reflexivity|].
  rewrite IH, orb_assoc. reflexivity.
Qed.

Lemma sc_contains_absent c (s : string) :
  str_forallb (fun d => negb (Ascii.eqb c d)) s = true -> str_contains_char c s = false.
Proof.
  unfold str_contains_char. induction s as [|x s IH]; cbn [str_forallb str_existsb]; [reflexivity|].
  intros H. apply andb_prop in H. destruct H as [Hx Hs].
  apply negb_true_iff in Hx. rewrite Hx, (IH Hs). reflexivity.
Qed.

Lemma sc_repr_pointed : forall r,
  str_contains_char "." r || str_contains_char "e" r = true -> sc_float_pointed (VFloat r) = true.
Proof.
  intros r Hr. cbn [sc_float_pointed]. unfold py_positional.
  set (neg := starts_with_char "-" r).
  set (body := if neg then str_drop 1 r else r).
  destruct (str_forallb _ body); [|reflexivity].
  destruct (str_split "e" body) as [|m [|ex [|z rest]]] eqn:Hsp; try reflexivity.
  - (* no exponent mark in the body: none in the repr, which therefore has a point *)
    unfold str_split in Hsp. pose proof (split_single _ _ _ _ Hsp) as Hb.
    apply sc_contains_absent in Hb.
    assert (He : str_contains_char "e" r = false).
    { subst body. destruct neg eqn:Hn; [|exact Hb].
      destruct r as [|c r']; [reflexivity|]. cbn [str_drop] in Hb.
      unfold neg, starts_with_char in Hn. apply Ascii.eqb_eq in Hn. subst c.
      unfold str_contains_char in *. cbn [str_existsb]. rewrite Hb. reflexivity. }
    rewrite He, orb_false_r in Hr. exact Hr.
  - (* an exponent form: every spelling py_positional builds has a point *)
    destruct (string_to_z (str_remove_char "+" ex)) as [e|]; [|reflexivity].
    match goal with
    | |- str_contains_char _ (if neg then String _ ?t else ?t) = true =>
        assert (Ht : str_contains_char "." t = true); [|destruct neg; [|exact Ht]]
    end.
    + destruct (_ <=? _)%Z; [|destruct (_ <? _)%Z].
      * rewrite !sc_contains_app. rewrite !orb_true_r. reflexivity.
      * rewrite sc_contains_app. cbn [append]. unfold str_contains_char at 2.
        cbn [str_existsb]. rewrite orb_true_r. reflexivity.
      * reflexivity.
    + unfold str_contains_char in *. cbn [str_existsb]. rewrite Ht. reflexivity.
Qed.

Lemma sc_read_feature_attributes : forall x k,
  sc_attrs_pointed (fst x) = true ->
  py_read_feature_attributes x k
  = if sc_attrs_nonfinite (fst x) then Err FlamaException
    else Ok (str_concat (map (fun a => nl ++ tabs (Z.to_nat k) ++ "[" ++ cl_safename (a_name a)
                                          ++ " = " ++ clafer_value (a_default a) ++ "]")%string
                             (f_attrs (info (fst x))))).
Proof.
  intros x k Hpt. unfold py_read_feature_attributes, py_Feature_get_attributes, sc_attrs_nonfinite.
  rewrite (sc_foldM_str_err _ (fun a => nonfinite_float (a_default a))
             (fun a => nl ++ tabs (Z.to_nat k) ++ "[" ++ cl_safename (a_name a)
                          ++ " = " ++ clafer_value (a_default a) ++ "]")%string FlamaException).
  { destruct (existsb _ _); reflexivity. }
  intros acc a Ha.
  unfold sc_attrs_pointed in Hpt. rewrite forallb_forall in Hpt. specialize (Hpt a Ha).
  cbv beta zeta. rewrite sc_str_repeat_tabs, src_clafer_safename.
  unfold py_Attribute_get_name, nl.
  destruct (a_default a) as [|b|z|r|s|l|kv]; cbn [bind nonfinite_float clafer_value aval_str];
    rewrite <- ?sc_py_str_repr; try reflexivity.
  - destruct b; reflexivity.
  - unfold py__double_literal, py_float_isfinite. cbn [sc_float_pointed] in Hpt.
    destruct (py_positional r) as [t|]; [|reflexivity].
    cbn [bind]. rewrite Hpt. reflexivity.
Qed.

(* ------------------------------------------------------------------ the tree *)
Lemma sc_flat_map_flat_map {A B C} (g : B -> list C) (h : A -> list B) (l : list A) :
  flat_map g (flat_map h l) = flat_map (fun x => flat_map g (h x)) l.
Proof.
  induction l as [|x xs IH]; cbn [flat_map]; [reflexivity|].
  rewrite flat_map_app, IH. reflexivity.
Qed.

Lemma sc_children_loc f anc :
  py_Feature_get_children (f, anc) = map (fun c => (c, f :: anc)) (children f).
Proof.
  unfold py_Feature_get_children, py_Feature_get_relations, lf_relations, children. cbn [fst].
  rewrite fm_flat_map_map, fm_map_flat_map. apply flat_map_ext. intros r.
  rewrite fm_flat_map_id. reflexivity.
Qed.

Lemma sc_tree_children p i rs :
  clafer_tree p (Feature i rs)
  = Clf (clafer_group (Feature i rs)) (cl_safename (f_name i))
        (negb (Nat.eqb (List.length (f_attrs i)) 0))
        (feat_is_optional p (Feature i rs) || in_any_number_group p (Feature i rs))
        (map (fun a => (cl_safename (a_name a), clafer_value (a_default a))) (f_attrs i))
        (map (clafer_tree (Some (Feature i rs))) (children (Feature i rs))).
Proof.
  cbn [clafer_tree]. f_equal. unfold children. cbn [rels].
  rewrite fm_map_flat_map. apply flat_map_ext. intros r. destruct r as [a b cs]. reflexivity.
Qed.

Lemma sc_subfeatures_children f : subfeatures f = f :: flat_map subfeatures (children f).
Proof.
  destruct f as [i rs]. cbn [subfeatures]. f_equal. unfold children. cbn [rels].
  rewrite sc_flat_map_flat_map. apply flat_map_ext. intros r. destruct r as [a b cs]. reflexivity.
Qed.

Lemma sc_in_children_inv i rs c :
  In c (children (Feature i rs)) -> exists r, In r rs /\ In c (r_children r).
Proof.
  unfold children. cbn [rels]. intros H. apply in_flat_map in H. exact H.
Qed.

Ltac sc_norm := repeat first [rewrite sc_app_assoc | progress cbn [append]].

Lemma sc_read_features_gen : forall f anc fuel n, (fsize f <= fuel)%nat -> (0 <= n)%Z ->
  (forall g, In g (subfeatures f) -> sc_attrs_pointed g = true) ->
  py_read_features fuel (f, anc) n
  = if existsb sc_attrs_nonfinite (subfeatures f) then Err FlamaException
    else Ok (render_clf (clafer_tree (hd_error anc) f) (Z.to_nat n)).
Proof.
  intros f.
  apply (feature_ind_in
           (fun f => forall anc fuel n, (fsize f <= fuel)%nat -> (0 <= n)%Z ->
              (forall g, In g (subfeatures f) -> sc_attrs_pointed g = true) ->
              py_read_features fuel (f, anc) n
              = if existsb sc_attrs_nonfinite (subfeatures f) then Err FlamaException
                else Ok (render_clf (clafer_tree (hd_error anc) f) (Z.to_nat n)))).
  clear f. intros i rs IH anc fuel n Hfuel Hn Hpt.
  destruct fuel as [|fuel]; [cbn [fsize] in Hfuel; lia|].
  rewrite sc_tree_children, (sc_subfeatures_children (Feature i rs)).
  remember (Feature i rs) as f eqn:Ef.
  (* the loop over the children, for any spelling of its body *)
  assert (Hkids : forall F : string -> lfeat -> result string,
             (forall acc c, F acc c = match py_read_features fuel c (n + 1)%Z with
                                      | Err e => Err e
                                      | Ok v => Ok (acc ++ v)%string
                                      end) ->
             forall a, foldM F (map (fun c => (c, f :: anc)) (children f)) a
                       = if existsb (fun c => existsb sc_attrs_nonfinite (subfeatures c)) (children f)
                         then Err FlamaException
                         else Ok (a ++ str_concat (map (fun c => render_clf (clafer_tree (Some f) c)
                                                                            (S (Z.to_nat n)))
                                                       (children f)))%string).
  { intros F HF a.
    rewrite (sc_foldM_str_err F
               (fun x : lfeat => existsb sc_attrs_nonfinite (subfeatures (fst x)))
               (fun x : lfeat => render_clf (clafer_tree (hd_error (snd x)) (fst x)) (S (Z.to_nat n)))
               FlamaException).
    { rewrite fm_existsb_map, map_map. reflexivity. }
    intros acc x Hx. apply in_map_iff in Hx. destruct Hx as (c & <- & Hc).
    rewrite HF. subst f.
    destruct (sc_in_children_inv i rs c Hc) as (r & Hr & Hcr).
    rewrite (IH r c Hr Hcr (Feature i rs :: anc) fuel (n + 1)%Z).
    - cbn [fst snd hd_error]. replace (Z.to_nat (n + 1)) with (S (Z.to_nat n)) by lia.
      destruct (existsb sc_attrs_nonfinite (subfeatures c)); reflexivity.
    - pose proof (fsize_child i rs r c Hr Hcr) as Hlt. lia.
    - lia.
    - intros g Hg. apply Hpt. rewrite sc_subfeatures_children. right.
      apply in_flat_map. exists c. split; [exact Hc|exact Hg]. }
  assert (Hptf : sc_attrs_pointed f = true).
  { apply Hpt. rewrite sc_subfeatures_children. left. reflexivity. }
  cbn [existsb]. rewrite sc_existsb_flat_map.
  cbn [py_read_features].
  rewrite src_clafer_group_type, src_feat_is_optional, src_clafer_in_any_number_group,
    sc_str_repeat_tabs, src_clafer_safename, sc_children_loc.
  rewrite (sc_read_feature_attributes (f, anc) (n + 1)%Z Hptf).
  unfold py_Feature_get_attributes. rewrite py_is_nil_length.
  replace (Z.to_nat (n + 1)) with (S (Z.to_nat n)) by lia.
  cbn [fst]. unfold name. replace (info f) with i by (subst f; reflexivity).
  cbn [render_clf]. rewrite !map_map. cbn [fst snd]. unfold nl.
  destruct (sc_attrs_nonfinite f);
    destruct (clafer_group f) as [gr|];
    destruct (Nat.eqb (List.length (f_attrs i)) 0);
    destruct (feat_is_optional (hd_error anc) f);
    destruct (in_any_number_group (hd_error anc) f);
    cbn [option_map bind negb orb]; try reflexivity.
  all: erewrite Hkids;
    [|intros acc c; destruct (py_read_features fuel c (n + 1)%Z); reflexivity].
  all: destruct (existsb (fun c => existsb sc_attrs_nonfinite (subfeatures c)) (children f));
    cbn [bind]; [reflexivity|].
  all: f_equal; sc_norm; reflexivity.
Qed.

(* The statement of the task,
     forall f anc fuel n, (fsize f <= fuel)%nat -> (0 <= n)%Z ->
       (forall g, In g (subfeatures f) ->
          forallb (fun a => negb (nonfinite_float (a_default a))) (f_attrs (info g)) = true) ->
       py_read_features fuel (f, anc) n = Ok (render_clf (clafer_tree (hd_error anc) f) (Z.to_nat n))
   is FALSE: a float attribute whose positional spelling has no point (VFloat "5", which is not the repr
   of any Python float) is written "5.0" by the code and "5" by the model. *)
Definition sc_cex_feature : feature :=
  Feature {| f_name := "A"; f_abstract := VBool false; f_type := TBoolean; f_cmin := 1; f_cmax := 1;
             f_attrs := [{| a_name := "x"; a_dom := None; a_default := VFloat "5"; a_null := VNone |}] |}
          [].

Example sc_read_features_counterexample :
  (fsize sc_cex_feature <= 5)%nat
  /\ (forall g, In g (subfeatures sc_cex_feature) ->
        forallb (fun a => negb (nonfinite_float (a_default a))) (f_attrs (info g)) = true)
  /\ py_read_features 5 (sc_cex_feature, []) 0
     = Ok (String "A" (" : AttributedFeature" ++ nl ++ tab ++ "[x = 5.0]" ++ nl))%string
  /\ render_clf (clafer_tree None sc_cex_feature) 0
     = (String "A" (" : AttributedFeature" ++ nl ++ tab ++ "[x = 5]" ++ nl))%string.
Proof.
  split; [vm_compute; lia|]. split; [|split; vm_compute; reflexivity].
  intros g [<-|[]]. vm_compute. reflexivity.
Qed.

Lemma sc_no_nonfinite f :
  (forall g, In g (subfeatures f) ->
     forallb (fun a => negb (nonfinite_float (a_default a))) (f_attrs (info g)) = true) ->
  existsb sc_attrs_nonfinite (subfeatures f) = false.
Proof.
  intros H. destruct (existsb sc_attrs_nonfinite (subfeatures f)) eqn:E; [|reflexivity].
  apply existsb_exists in E. destruct E as (g & Hg & Hbad).
  unfold sc_attrs_nonfinite in Hbad. apply existsb_exists in Hbad. destruct Hbad as (a & Ha & Hnf).
  specialize (H g Hg). rewrite forallb_forall in H. specialize (H a Ha).
  rewrite Hnf in H. discriminate H.
Qed.

(* the strongest true variant: the extra hypothesis is exactly the set of float values on which
   _double_literal and clafer_value agree *)
Lemma src_clafer_read_features : forall f anc fuel n, (fsize f <= fuel)%nat -> (0 <= n)%Z ->
  (forall g, In g (subfeatures f) -> forallb (fun a => negb (nonfinite_float (a_default a))) (f_attrs (info g)) = true) ->
  (forall g, In g (subfeatures f) -> sc_attrs_pointed g = true) ->
  py_read_features fuel (f, anc) n = Ok (render_clf (clafer_tree (hd_error anc) f) (Z.to_nat n)).
Proof.
  intros f anc fuel n Hfuel Hn Hfin Hpt.
  rewrite (sc_read_features_gen f anc fuel n Hfuel Hn Hpt), (sc_no_nonfinite f Hfin). reflexivity.
Qed.

(* ------------------------------------------------------------------ attribute declarations *)
Definition sc_vstr (kv : string * string) : string * aval := (fst kv, VStr (snd kv)).

Lemma sc_dict_set_vstr (d : list (string * string)) k v :
  map sc_vstr (py_dict_set String.eqb d k v) = dict_set (map sc_vstr d) k (VStr v).
Proof.
  induction d as [|[k0 v0] d IH]; cbn [py_dict_set dict_set map]; [reflexivity|].
  unfold sc_vstr at 2. cbn [fst snd].
  rewrite (String.eqb_sym k0 k). destruct (String.eqb_spec k k0) as [E|N].
  - subst k0. reflexivity.
  - cbn [map]. rewrite IH. reflexivity.
Qed.

Lemma sc_dict_of_pairs_vstr (all : list (string * string)) :
  map sc_vstr (py_dict_of_pairs String.eqb all)
  = fold_left (fun acc kv => dict_set acc (fst kv) (VStr (snd kv))) all [].
Proof.
  unfold py_dict_of_pairs.
  change (@nil (string * aval)) with (map sc_vstr []).
  generalize (@nil (string * string)). induction all as [|kv all IH]; intros d; cbn [fold_left].
  - reflexivity.
  - rewrite IH, sc_dict_set_vstr. reflexivity.
Qed.

Lemma sc_attr_pairs m :
  flat_map (fun x : lfeat =>
              flat_map (fun a => [(py_Attribute_get_name a,
                                   py_parse_type_value (py_Attribute_get_default_value a))])
                       (py_Feature_get_attributes x)) (loc_features m)
  = flat_map (fun f => map (fun a => (a_name a, clafer_type (a_default a))) (f_attrs (info f)))
             (get_features m).
Proof.
  rewrite <- loc_features_erase, fm_flat_map_map. apply flat_map_ext. intros x.
  rewrite fm_flat_map_single. unfold py_Feature_get_attributes. apply map_ext. intros a.
  rewrite src_clafer_parse_type_value. reflexivity.
Qed.

Lemma sc_attrdecls m :
  clafer_attrdecls m
  = map (fun kv : string * string => (cl_safename (fst kv), snd kv))
        (py_dict_of_pairs String.eqb
           (flat_map (fun f => map (fun a => (a_name a, clafer_type (a_default a))) (f_attrs (info f)))
                     (get_features m))).
Proof.
  unfold clafer_attrdecls. rewrite <- sc_dict_of_pairs_vstr, map_map. reflexivity.
Qed.

Lemma src_clafer_attributes_definition : forall m fuel, (fuel_tree (root m) <= fuel)%nat ->
  py_attributes_definition fuel m =
  Ok (match clafer_attrdecls m with
      | [] => ""
      | l => "abstract AttributedFeature" ++ nl ++ str_concat (map (fun kv => tab ++ fst kv ++ " -> " ++ snd kv ++ nl) l)
      end)%string.
Proof.
  intros m fuel Hfuel. unfold py_attributes_definition.
  rewrite (src_get_features m fuel Hfuel). cbn [bind].
  rewrite sc_attr_pairs, sc_attrdecls.
  destruct (py_dict_of_pairs String.eqb _) as [|kv d]; [reflexivity|].
  cbn [py_is_nil negb].
  rewrite (sc_foldM_str _ (fun kv : string * string =>
                             tab ++ cl_safename (fst kv) ++ " -> " ++ snd kv ++ nl)%string).
  - cbn [bind map fst snd]. rewrite map_map. cbn [fst snd]. unfold nl. sc_norm. reflexivity.
  - intros acc x _. destruct x as [k v]. rewrite src_clafer_safename. reflexivity.
Qed.

(* ------------------------------------------------------------------ the writer *)
Lemma sc_read_constraints fuel c : (fuel_node (c_ast c) <= fuel)%nat ->
  py_read_constraints fuel c
  = match clafer_node (c_ast c) with
    | Err e => Err e
    | Ok x => Ok (nl ++ "[" ++ render_cexpr x ++ "]")%string
    end.
Proof.
  intros H. unfold py_read_constraints, py_serialize_constraint.
  rewrite (src_clafer_node (c_ast c) fuel H).
  destruct (clafer_node (c_ast c)) as [x|e]; reflexivity.
Qed.

Lemma sc_fuel_ctc (cs : list ctc) c : In c cs -> (fuel_node (c_ast c) <= fuel_ctcs cs)%nat.
Proof.
  intros H. unfold fuel_ctcs. apply le_list_sum.
  apply (in_map (fun c => fuel_node (c_ast c))). exact H.
Qed.

Lemma sc_nonfinite_features m :
  existsb (fun f => existsb (fun a => nonfinite_float (a_default a)) (f_attrs (info f))) (get_features m)
  = existsb sc_attrs_nonfinite (subfeatures (root m)).
Proof. apply sc_existsb_perm. apply get_features_perm. Qed.

(* The statement of the task,
     forall m fuel, (fuel_model m <= fuel)%nat -> py_fm_to_clafer fuel m = clafer_text m
   is FALSE for the same reason as src_clafer_read_features (sc_fm_to_clafer_counterexample below).
   The error cases are all included: the order in which the two sides meet errors is the same. *)
Theorem src_fm_to_clafer : forall m fuel, (fuel_model m <= fuel)%nat ->
  (forall g, In g (subfeatures (root m)) -> sc_attrs_pointed g = true) ->
  py_fm_to_clafer fuel m = clafer_text m.
Proof.
  intros m fuel Hfuel Hpt. unfold fuel_model, fuel_tree in Hfuel.
  unfold py_fm_to_clafer, clafer_text, clafer_write, fm_root_l, py_FeatureModel_get_constraints.
  rewrite sc_nonfinite_features.
  rewrite (sc_read_features_gen (root m) [] fuel 0%Z); [|lia|lia|exact Hpt].
  rewrite (src_clafer_attributes_definition m fuel); [|unfold fuel_tree; lia].
  destruct (existsb sc_attrs_nonfinite (subfeatures (root m))); [reflexivity|].
  cbn [bind fst].
  erewrite (sc_foldM_str_mapM _ (fun c => clafer_node (c_ast c))
              (fun x => nl ++ "[" ++ render_cexpr x ++ "]")%string).
  2:{ intros acc c Hc. rewrite sc_read_constraints.
      - destruct (clafer_node (c_ast c)) as [x|e]; reflexivity.
      - pose proof (sc_fuel_ctc (ctcs m) c Hc) as Hc'. lia. }
  destruct (mapM (fun c => clafer_node (c_ast c)) (ctcs m)) as [cs|e]; [|reflexivity].
  cbn [bind]. unfold render_clafer.
  cbn [cd_attrdecls cd_root cd_ctcs cd_instance_of hd_error].
  rewrite src_clafer_safename. change (Z.to_nat 0) with O.
  generalize (match clafer_attrdecls m with
              | [] => ""
              | _ :: _ => "abstract AttributedFeature" ++ nl
                          ++ str_concat (map (fun kv => tab ++ fst kv ++ " -> " ++ snd kv ++ nl)
                                             (clafer_attrdecls m))
              end)%string.
  intros s. unfold nl. f_equal. sc_norm. reflexivity.
Qed.

Definition sc_cex_model : fm := {| root := sc_cex_feature; ctcs := [] |}.

Example sc_fm_to_clafer_counterexample :
  py_fm_to_clafer (fuel_model sc_cex_model) sc_cex_model <> clafer_text sc_cex_model.
Proof. vm_compute. intros H. discriminate H. Qed.

Print Assumptions src_clafer_safename.
Print Assumptions src_clafer_parse_type_value.
Print Assumptions src_clafer_node.
Print Assumptions src_clafer_group_type.
Print Assumptions src_clafer_in_any_number_group.
Print Assumptions src_clafer_read_features.
Print Assumptions src_clafer_attributes_definition.
Print Assumptions src_fm_to_clafer.
