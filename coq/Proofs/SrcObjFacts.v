(* Proofs/SrcObjFacts.v — the operation OBJECTS of operations/*.py, translated as state records
   (Gen/Src_opobj.v): whatever state an operation object is in (any history of earlier executions),
   the result it reports after execute(model) is the value of the module-level function on THAT model.
   This is the "depends only on the model passed to the current execution" half of C19, proved for the
   translated source of the eight tree operations. *)
From Coq Require Import List Bool String ZArith.
From FM Require Import Base.Result Model.FM Model.PyRt Gen.Src_fm Gen.Src_ops Gen.Src_atomic Gen.Src_opobj.
Import ListNotations.
Local Open Scope list_scope.

Ltac by_result f := unfold f; cbn beta iota;
  match goal with |- context [bind ?x _] => destruct x end; reflexivity.

Lemma src_obj_estimate : forall fuel s m,
  rmap py_FMEstimatedConfigurationsNumber_get_result (py_FMEstimatedConfigurationsNumber_execute fuel s m)
  = py_count_configurations fuel m.
Proof.
  intros fuel s m. unfold py_FMEstimatedConfigurationsNumber_execute,
    py_FMEstimatedConfigurationsNumber_get_configurations_number. cbn.
  destruct (py_count_configurations fuel m); reflexivity.
Qed.

Lemma src_obj_core : forall fuel s m,
  rmap py_FMCoreFeatures_get_result (py_FMCoreFeatures_execute fuel s m) = py_get_core_features fuel m.
Proof. intros fuel s m. unfold py_FMCoreFeatures_execute. cbn. destruct (py_get_core_features fuel m); reflexivity. Qed.

Lemma src_obj_count_leafs : forall fuel s m,
  rmap py_FMCountLeafs_get_result (py_FMCountLeafs_execute fuel s m) = py_count_leaf_features fuel m.
Proof. intros fuel s m. unfold py_FMCountLeafs_execute. cbn. destruct (py_count_leaf_features fuel m); reflexivity. Qed.

Lemma src_obj_leaf_features : forall fuel s m,
  rmap py_FMLeafFeatures_get_result (py_FMLeafFeatures_execute fuel s m) = py_get_leaf_features fuel m.
Proof. intros fuel s m. unfold py_FMLeafFeatures_execute. cbn. destruct (py_get_leaf_features fuel m); reflexivity. Qed.

Lemma src_obj_max_depth : forall fuel s m,
  rmap py_FMMaxDepthTree_get_result (py_FMMaxDepthTree_execute fuel s m) = py_max_depth_tree fuel m.
Proof. intros fuel s m. unfold py_FMMaxDepthTree_execute. cbn. destruct (py_max_depth_tree fuel m); reflexivity. Qed.

Lemma src_obj_abf : forall fuel s m,
  rmap py_FMAverageBranchingFactor_get_result (py_FMAverageBranchingFactor_execute fuel s m)
  = py_average_branching_factor fuel m 2%Z.
Proof.
  intros fuel s m. unfold py_FMAverageBranchingFactor_execute. cbn.
  destruct (py_average_branching_factor fuel m 2%Z); reflexivity.
Qed.

Lemma src_obj_variation_points : forall fuel s m,
  rmap py_FMVariationPoints_get_result (py_FMVariationPoints_execute fuel s m) = py_variation_points fuel m.
Proof. intros fuel s m. unfold py_FMVariationPoints_execute. cbn. destruct (py_variation_points fuel m); reflexivity. Qed.

(* ancestors: the feature set by the latest set_feature, whatever the model argument and the history;
   without a feature the library error *)
Lemma src_obj_ancestors : forall fuel s x m,
  rmap py_FMFeatureAncestors_get_result
       (py_FMFeatureAncestors_execute fuel (py_FMFeatureAncestors_set_feature s x) m)
  = py_get_feature_ancestors fuel x.
Proof.
  intros fuel s x m. unfold py_FMFeatureAncestors_execute, py_FMFeatureAncestors_set_feature. cbn.
  destruct (py_get_feature_ancestors fuel x); reflexivity.
Qed.
Lemma src_obj_ancestors_unset : forall fuel m,
  py_FMFeatureAncestors_execute fuel py_FMFeatureAncestors_new m = Err FlamaException.
Proof. reflexivity. Qed.

(* any history: run a list of executions from a fresh object, the report is about the last model *)
Definition run_core (fuel : nat) (ms : list fm) : result py_FMCoreFeatures_state :=
  fold_left (fun rs m => bind rs (fun s => py_FMCoreFeatures_execute fuel s m)) ms (Ok py_FMCoreFeatures_new).
Lemma src_obj_core_history : forall fuel ms m s,
  run_core fuel ms = Ok s ->
  rmap py_FMCoreFeatures_get_result (py_FMCoreFeatures_execute fuel s m) = py_get_core_features fuel m.
Proof. intros. apply src_obj_core. Qed.

Definition run_estimate (fuel : nat) (ms : list fm) : result py_FMEstimatedConfigurationsNumber_state :=
  fold_left (fun rs m => bind rs (fun s => py_FMEstimatedConfigurationsNumber_execute fuel s m)) ms
            (Ok py_FMEstimatedConfigurationsNumber_new).
Lemma src_obj_estimate_history : forall fuel ms m s,
  run_estimate fuel ms = Ok s ->
  rmap py_FMEstimatedConfigurationsNumber_get_result (py_FMEstimatedConfigurationsNumber_execute fuel s m)
  = py_count_configurations fuel m.
Proof. intros. apply src_obj_estimate. Qed.

Lemma src_obj_atomic_sets : forall fuel s m,
  rmap py_FMAtomicSets_get_result (py_FMAtomicSets_execute fuel s m) = py_get_atomic_sets fuel m.
Proof. intros fuel s m. unfold py_FMAtomicSets_execute. cbn. destruct (py_get_atomic_sets fuel m); reflexivity. Qed.
