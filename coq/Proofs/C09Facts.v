(* Proofs/C09Facts.v — small surface-syntax facts about the AFM and Glencoe reader models (C09). *)
From Coq Require Import List Bool String ZArith.
From FM Require Import Base.Result Base.AstOp Model.Ast Model.FM Model.PFM Format.Json Format.Glencoe Format.Afm.
Import ListNotations.
Local Open Scope string_scope.
Local Open Scope list_scope.

(* ---------------------------------------------------------------- AFM *)
Lemma afm_read_paren : forall p e, afm_read_expr p (EParen e) = afm_read_expr p e.
Proof. reflexivity. Qed.

Fixpoint strip_parens (e : aexpr) : aexpr :=
  match e with
  | EParen a => strip_parens a
  | EBin op a b => EBin op (strip_parens a) (strip_parens b)
  | ENot a => ENot (strip_parens a)
  | _ => e
  end.

Lemma afm_read_strip_parens : forall p e, afm_read_expr p (strip_parens e) = afm_read_expr p e.
Proof.
  intros p e. induction e as [t|t|op a IHa b IHb|a IHa|a IHa]; cbn [strip_parens afm_read_expr]; try reflexivity.
  - rewrite IHa, IHb. reflexivity.
  - rewrite IHa. reflexivity.
  - exact IHa.
Qed.

(* an absent %Attributes / %Constraints section is read as an empty one *)
Lemma afm_read_no_attrs : forall rels cs,
  afm_read_cst {| ad_rels := rels; ad_attrs := None; ad_ctcs := cs |}
  = afm_read_cst {| ad_rels := rels; ad_attrs := Some []; ad_ctcs := cs |}.
Proof. reflexivity. Qed.
Lemma afm_read_no_ctcs : forall rels ats,
  afm_read_cst {| ad_rels := rels; ad_attrs := ats; ad_ctcs := None |}
  = afm_read_cst {| ad_rels := rels; ad_attrs := ats; ad_ctcs := Some [] |}.
Proof. reflexivity. Qed.

(* ---------------------------------------------------------------- Glencoe *)
Lemma assoc_skip : forall k k' v kv1 kv2, String.eqb k k' = false ->
  assoc k (kv1 ++ (k', v) :: kv2) = assoc k (kv1 ++ kv2).
Proof.
  intros k k' v kv1 kv2 H. induction kv1 as [|[k0 v0] kv1 IH]; cbn [app assoc].
  - rewrite H. reflexivity.
  - destruct (String.eqb k k0); [reflexivity|exact IH].
Qed.

Lemma jget_skip : forall k k' v kv1 kv2, String.eqb k k' = false ->
  jget k (VMap (kv1 ++ (k', v) :: kv2)) = jget k (VMap (kv1 ++ kv2)).
Proof. intros. unfold jget. rewrite assoc_skip by assumption. reflexivity. Qed.

(* a top-level key the format does not define is ignored wherever it stands *)
Lemma glencoe_read_extra_key : forall k v kv1 kv2,
  String.eqb "features" k = false -> String.eqb "tree" k = false -> String.eqb "constraints" k = false ->
  glencoe_read (VMap (kv1 ++ (k, v) :: kv2)) = glencoe_read (VMap (kv1 ++ kv2)).
Proof.
  intros k v kv1 kv2 Hf Ht Hc. unfold glencoe_read.
  rewrite !jget_skip by assumption. rewrite assoc_skip by assumption. reflexivity.
Qed.

(* n-ary And / Or / Xor terms are the left fold of their operands *)
Definition nary_term (ty : string) (ops : list aval) : aval := VMap [("type", VStr ty); ("operands", VList ops)].

Lemma glencoe_nary : forall fuel fi ty o ops,
  (ty = "AndTerm" /\ o = AND) \/ (ty = "OrTerm" /\ o = OR) \/ (ty = "XorTerm" /\ o = XOR) ->
  glencoe_parse_ctc (S fuel) fi (nary_term ty ops)
  = match mapM (glencoe_parse_ctc fuel fi) ops with Err e => Err e | Ok l => reduce_op o l end.
Proof.
  intros fuel fi ty o ops [[-> ->]|[[-> ->]|[-> ->]]]; reflexivity.
Qed.

Lemma glencoe_nary_fold : forall fuel fi ty o x xs n ns,
  (ty = "AndTerm" /\ o = AND) \/ (ty = "OrTerm" /\ o = OR) \/ (ty = "XorTerm" /\ o = XOR) ->
  glencoe_parse_ctc fuel fi x = Ok n -> Forall2 (fun y m => glencoe_parse_ctc fuel fi y = Ok m) xs ns ->
  glencoe_parse_ctc (S fuel) fi (nary_term ty (x :: xs)) = Ok (fold_left (fun acc y => bin o acc y) ns n).
Proof.
  intros fuel fi ty o x xs n ns H Hx Hxs. rewrite (glencoe_nary fuel fi ty o (x :: xs) H).
  assert (Hm : mapM (glencoe_parse_ctc fuel fi) xs = Ok ns).
  { induction Hxs as [|y m ys ms Hy _ IH]; [reflexivity|]. cbn [mapM]. rewrite Hy, IH. reflexivity. }
  cbn [mapM]. rewrite Hx, Hm. reflexivity.
Qed.

Print Assumptions afm_read_strip_parens.
Print Assumptions glencoe_read_extra_key.
Print Assumptions glencoe_nary_fold.
