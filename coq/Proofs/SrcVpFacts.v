(* Proofs/SrcVpFacts.v — the source tie of operations/variation_points: the translated work-list
   loop (Gen/Src_ops.v, py_variation_points) returns, up to order and with the locations erased, the
   structural listing Model/Ops.v variation_points — provided the feature names are distinct (the
   result dict is keyed by Feature.__eq__, i.e. by the name). *)
From Coq Require Import List Bool Ascii String ZArith Lia Permutation.
From FM Require Import Base.Result Base.Str Base.AstOp Model.Ast Model.FM Model.Ctc Model.Queries
     Model.Sem Model.Ops Model.PyRt Model.Loc Gen.Src_fm Gen.Src_ops Proofs.FMFacts Proofs.C16Facts.
Import ListNotations.
Local Open Scope list_scope.

(* ------------------------------------------------------------------ general helpers *)
Lemma list_rev_case {A} (l : list A) : l = [] \/ exists r x, l = r ++ [x].
Proof.
  destruct l as [|a l'] using rev_ind; [left; reflexivity|right; eauto].
Qed.

Lemma py_is_nil_snoc {A} (r : list A) x : py_is_nil (r ++ [x]) = false.
Proof. destruct r; reflexivity. Qed.

Lemma py_pop_snoc {A} (r : list A) x : py_pop (r ++ [x]) = Ok (x, r).
Proof. unfold py_pop. rewrite rev_app_distr. cbn [rev app]. rewrite rev_involutive. reflexivity. Qed.

(* an accumulating loop that skips the elements satisfying p and appends g of the others *)
Lemma foldM_skip_app {A B} (p : A -> bool) (g : A -> list B) : forall l acc,
  foldM (fun acc x => if p x then Ok acc else Ok (acc ++ g x)) l acc
  = Ok (acc ++ flat_map (fun x => if p x then [] else g x) l).
Proof.
  induction l as [|x xs IH]; intros acc; cbn [foldM flat_map].
  - rewrite app_nil_r. reflexivity.
  - destruct (p x) eqn:Hp.
    + rewrite IH. reflexivity.
    + rewrite IH, app_assoc. reflexivity.
Qed.

Lemma flat_map_singleton_id {A} (l : list A) : flat_map (fun x => [x]) l = l.
Proof. induction l as [|x xs IH]; cbn [flat_map app]; [reflexivity|rewrite IH; reflexivity]. Qed.

Lemma map_flat_map {A B C} (h : B -> C) (g : A -> list B) (l : list A) :
  map h (flat_map g l) = flat_map (fun x => map h (g x)) l.
Proof.
  induction l as [|x xs IH]; cbn [flat_map map]; [reflexivity|].
  rewrite map_app, IH. reflexivity.
Qed.

Lemma flat_map_map {A B C} (g : B -> list C) (h : A -> B) (l : list A) :
  flat_map g (map h l) = flat_map (fun x => g (h x)) l.
Proof.
  induction l as [|x xs IH]; cbn [flat_map map]; [reflexivity|rewrite IH; reflexivity].
Qed.

Lemma flat_map_flat_map {A B C} (g : B -> list C) (h : A -> list B) (l : list A) :
  flat_map g (flat_map h l) = flat_map (fun x => flat_map g (h x)) l.
Proof.
  induction l as [|x xs IH]; cbn [flat_map]; [reflexivity|].
  rewrite flat_map_app', IH. reflexivity.
Qed.

Lemma filter_map_flat_map {A B} (p : B -> bool) (g : A -> B) (l : list A) :
  filter p (map g l) = flat_map (fun x => if p (g x) then [g x] else []) l.
Proof.
  induction l as [|x xs IH]; cbn [filter map flat_map]; [reflexivity|].
  rewrite IH. destruct (p (g x)); reflexivity.
Qed.

(* setting a key that is not in the dict appends the entry *)
Lemma py_dict_set_fresh {K V} (eqb : K -> K -> bool) (k : K) (v : V) : forall d,
  (forall kv, In kv d -> eqb (fst kv) k = false) ->
  py_dict_set eqb d k v = d ++ [(k, v)].
Proof.
  induction d as [|[k' v'] d' IH]; intros Hfresh; cbn [py_dict_set app]; [reflexivity|].
  pose proof (Hfresh (k', v') (or_introl eq_refl)) as Hk. cbn [fst] in Hk. rewrite Hk.
  rewrite IH; [reflexivity|]. intros kv Hin. apply Hfresh. right. exact Hin.
Qed.

(* ------------------------------------------------------------------ the translated queries *)
Lemma py_len_lr_children r o : py_len (lr_children (r, o)) = nchildren r.
Proof. unfold py_len, lr_children, nchildren. cbn [fst snd]. rewrite map_length. reflexivity. Qed.

Lemma src_rel_is_mandatory r o : py_Relation_is_mandatory (r, o) = rel_is_mandatory r.
Proof.
  unfold py_Relation_is_mandatory, rel_is_mandatory. rewrite py_len_lr_children. cbn [fst].
  rewrite andb_assoc. reflexivity.
Qed.

Lemma map_fst_lr_children r o : map fst (lr_children (r, o)) = r_children r.
Proof. unfold lr_children. cbn [fst snd]. rewrite map_map. cbn [fst]. apply map_id. Qed.

Lemma src_get_children_fst x : map fst (py_Feature_get_children x) = children (fst x).
Proof.
  unfold py_Feature_get_children, py_Feature_get_relations, lf_relations, children.
  rewrite flat_map_map, map_flat_map.
  apply flat_map_ext. intros r. rewrite flat_map_singleton_id. apply map_fst_lr_children.
Qed.

(* the located variants of a located feature: what the inner loop collects *)
Definition lvariants (x : lfeat) : list lfeat :=
  flat_map (fun r => if py_Relation_is_mandatory r then [] else lr_children r)
           (py_Feature_get_relations x).

Lemma lvariants_fst x : map fst (lvariants x) = variants (fst x).
Proof.
  unfold lvariants, py_Feature_get_relations, lf_relations, variants.
  rewrite flat_map_map, map_flat_map.
  apply flat_map_ext. intros r. rewrite src_rel_is_mandatory.
  destruct (rel_is_mandatory r); [reflexivity|apply map_fst_lr_children].
Qed.

(* ------------------------------------------------------------------ the tree side *)
Lemma subfeatures_children f : subfeatures f = f :: flat_map subfeatures (children f).
Proof.
  destruct f as [i rs]. unfold children. cbn [subfeatures rels]. f_equal.
  rewrite flat_map_flat_map. apply flat_map_ext. intros [a b cs]. reflexivity.
Qed.

Lemma fsize_children f : fsize f = S (list_sum (map fsize (children f))).
Proof.
  rewrite <- fsize_subfeatures, subfeatures_children. cbn [List.length]. f_equal.
  induction (children f) as [|c cs IH]; cbn [flat_map map list_sum List.length]; [reflexivity|].
  rewrite app_length, IH, fsize_subfeatures. reflexivity.
Qed.

(* the entry of one feature, and the structural listing as a flat_map *)
Definition vpe (f : feature) : list (feature * list feature) :=
  if negb (Nat.eqb (List.length (variants f)) 0) then [(f, variants f)] else [].

Lemma variation_points_flat m : variation_points m = flat_map vpe (subfeatures (root m)).
Proof. unfold variation_points. rewrite filter_map_flat_map. reflexivity. Qed.

(* all features below a stack of features *)
Definition below (l : list feature) : list feature := flat_map subfeatures l.

Lemma below_snoc_perm rest f :
  Permutation (below (rest ++ [f])) (f :: below (rest ++ children f)).
Proof.
  unfold below. rewrite !flat_map_app'. cbn [flat_map]. rewrite app_nil_r.
  rewrite (subfeatures_children f). symmetry. apply Permutation_middle.
Qed.

(* ------------------------------------------------------------------ the work-list loop *)
Definition er (kv : lfeat * list lfeat) : feature * list feature :=
  (fst (fst kv), map fst (snd kv)).
Definition kname (kv : lfeat * list lfeat) : string := name (fst (fst kv)).

Local Notation vp_state := (list lfeat * list (lfeat * list lfeat))%type.

(* the dict after the visit of x *)
Definition visit (d : list (lfeat * list lfeat)) (x : lfeat) : list (lfeat * list lfeat) :=
  if py_is_nil (lvariants x) then d else py_dict_set py_Feature___eq__ d x (lvariants x).

Lemma visit_fresh d x :
  ~ In (name (fst x)) (map kname d) ->
  map er (visit d x) = map er d ++ vpe (fst x) /\
  Permutation (map kname (visit d x) ++ [])
              (map kname d ++ if py_is_nil (lvariants x) then [] else [name (fst x)]).
Proof.
  intros Hfresh. unfold visit, vpe. rewrite <- lvariants_fst.
  destruct (lvariants x) as [|v vs] eqn:Hv; cbn [py_is_nil map List.length Nat.eqb negb].
  - rewrite !app_nil_r. split; reflexivity.
  - rewrite py_dict_set_fresh.
    + rewrite !map_app. cbn [map]. unfold er at 2. unfold kname at 2. cbn [fst snd map].
      rewrite app_nil_r. split; reflexivity.
    + intros kv Hin. unfold py_Feature___eq__. cbn [andb].
      destruct (String.eqb (name (fst (fst kv))) (name (fst x))) eqn:He; [|reflexivity].
      exfalso. apply Hfresh. apply String.eqb_eq in He. rewrite <- He.
      apply in_map_iff. exists kv. split; [reflexivity|exact Hin].
Qed.

Lemma worklist_run (step : vp_state -> result (option vp_state)) :
  (forall d, step ([], d) = Ok None) ->
  (forall rest x d,
      step (rest ++ [x], d) = Ok (Some (rest ++ py_Feature_get_children x, visit d x))) ->
  forall fuel (st : list lfeat) (d : list (lfeat * list lfeat)),
    (list_sum (map fsize (map fst st)) < fuel)%nat ->
    NoDup (map kname d ++ map name (below (map fst st))) ->
    exists d', whileM fuel step (st, d) = Ok ([], d') /\
               Permutation (map er d') (map er d ++ flat_map vpe (below (map fst st))).
Proof.
  intros Hnil Hsnoc. induction fuel as [|k IH]; intros st d Hfuel Hnd; [lia|].
  destruct (list_rev_case st) as [->|(rest & x & ->)].
  - cbn [whileM]. rewrite Hnil. exists d. split; [reflexivity|].
    cbn [map below flat_map]. rewrite app_nil_r. reflexivity.
  - cbn [whileM]. rewrite Hsnoc.
    rewrite map_app in Hfuel, Hnd |- *. cbn [map] in Hfuel, Hnd |- *.
    pose proof (below_snoc_perm (map fst rest) (fst x)) as Hbelow.
    (* the names: name x is apart from the keys and from the rest *)
    assert (Hnd' : NoDup (map kname d ++ name (fst x)
                            :: map name (below (map fst rest ++ children (fst x))))).
    { eapply Permutation_NoDup; [|exact Hnd].
      apply Permutation_app_head. change (name (fst x) :: map name ?l) with (map name (fst x :: l)).
      apply Permutation_map. exact Hbelow. }
    assert (Hfresh : ~ In (name (fst x)) (map kname d)).
    { apply NoDup_remove_2 in Hnd'. intros Hin. apply Hnd'. apply in_or_app. left. exact Hin. }
    destruct (visit_fresh d x Hfresh) as [Her Hkn]. rewrite app_nil_r in Hkn.
    destruct (IH (rest ++ py_Feature_get_children x) (visit d x)) as (d' & Hrun & Hperm).
    + rewrite map_app, src_get_children_fst, map_app, list_sum_app.
      rewrite map_app, list_sum_app in Hfuel. cbn [map] in Hfuel.
      change (list_sum [?a]) with (a + 0)%nat in Hfuel. rewrite (fsize_children (fst x)) in Hfuel. lia.
    + rewrite map_app, src_get_children_fst.
      eapply Permutation_NoDup.
      * apply Permutation_app_tail. symmetry. exact Hkn.
      * destruct (py_is_nil (lvariants x)).
        -- rewrite app_nil_r. apply NoDup_remove_1 in Hnd'. exact Hnd'.
        -- rewrite <- app_assoc. cbn [app]. exact Hnd'.
    + exists d'. split; [exact Hrun|].
      rewrite map_app, src_get_children_fst in Hperm.
      rewrite Hperm, Her, <- app_assoc. apply Permutation_app_head.
      change (vpe (fst x) ++ flat_map vpe ?l) with (flat_map vpe (fst x :: l)).
      apply Permutation_flat_map. symmetry. exact Hbelow.
Qed.

(* ------------------------------------------------------------------ the tie *)
Lemma src_variation_points : forall m fuel, (fuel_tree (root m) <= fuel)%nat -> NoDup (names (root m)) ->
  exists l, py_variation_points fuel m = Ok l /\
            Permutation (map (fun kv => (fst (fst kv), map fst (snd kv))) l) (variation_points m).
Proof.
  intros m fuel Hfuel Hnd. unfold py_variation_points. cbv zeta.
  match goal with
  | |- context [whileM fuel ?s _] => set (step := s)
  end.
  assert (Hnil : forall d, step ([], d) = Ok None) by (intros d; reflexivity).
  assert (Hsnoc : forall rest x d,
             step (rest ++ [x], d) = Ok (Some (rest ++ py_Feature_get_children x, visit d x))).
  2: destruct (worklist_run step Hnil Hsnoc fuel [fm_root_l m] []) as (d' & Hrun & Hperm).
  - intros rest x d. unfold step. cbv beta iota. rewrite py_is_nil_snoc. cbn [negb]. rewrite py_pop_snoc.
    cbn [bind]. rewrite (foldM_skip_app py_Relation_is_mandatory lr_children). cbn [bind app].
    fold (lvariants x). unfold visit. destruct (py_is_nil (lvariants x)); reflexivity.
  - unfold fuel_tree in Hfuel. change (fsize (root m) + 0 < fuel)%nat. lia.
  - cbn [map fm_root_l fst app below flat_map]. rewrite app_nil_r. exact Hnd.
  - rewrite Hrun. cbn [bind]. exists d'. split; [reflexivity|].
    change (fun kv : lfeat * list lfeat => (fst (fst kv), map fst (snd kv))) with er.
    rewrite Hperm, variation_points_flat.
    cbn [map fm_root_l fst app below flat_map]. rewrite app_nil_r. reflexivity.
Qed.

(* Without distinct names the statement fails: two features named "a", each with an optional child.
   The dict keyed by the name keeps ONE entry for "a" (the first key object, the last value), the
   structural listing has both. *)
Definition vp_twins : fm :=
  {| root := Feature (mk_info "r")
               [Relation 0 2 [Feature (mk_info "a") [Relation 0 1 [Feature (mk_info "b") []]];
                              Feature (mk_info "a") [Relation 0 1 [Feature (mk_info "c") []]]]];
     ctcs := [] |}.

Example src_variation_points_needs_distinct_names :
  ~ (forall m fuel, (fuel_tree (root m) <= fuel)%nat ->
       exists l, py_variation_points fuel m = Ok l /\
                 Permutation (map (fun kv => (fst (fst kv), map fst (snd kv))) l)
                             (variation_points m)).
Proof.
  intros H. destruct (H vp_twins (fuel_tree (root vp_twins)) (le_n _)) as (l & Hrun & Hperm).
  apply Permutation_length in Hperm. rewrite map_length in Hperm.
  vm_compute in Hrun. injection Hrun as <-. vm_compute in Hperm. discriminate Hperm.
Qed.

Print Assumptions src_variation_points.
Print Assumptions src_variation_points_needs_distinct_names.
