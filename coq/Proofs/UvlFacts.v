(* Proofs/UvlFacts.v — the UVL writer / reader pair (Format/Uvl.v):
   C01: reading what the writer wrote returns the normal form of the model with correct back
        pointers; the normal form is written exactly like the original;
   C02: for EVERY parse tree the reader accepts, the back pointers are right and every constraint
        has the shape the library consumes;
   C04: the reader does not depend on surface choices. *)
From Coq Require Import List Bool Ascii String ZArith Lia.
From Coq Require DecimalString DecimalPos DecimalZ.
Import DecimalString.
From FM Require Import Base.Result Base.Str Base.AstOp Gen.Tables_core Model.Ast Model.FM Model.PFM
     Model.Queries Model.Sem Format.Json Format.Glencoe Format.Xml Gen.Tables_uvl Format.Uvl
     Proofs.JsonFacts.
Import ListNotations.
Local Open Scope string_scope.
Local Open Scope list_scope.

(* ------------------------------------------------------------------ the UVL fragment (C01) *)
(* characters a quoted UVL identifier / a UVL string can carry *)
Definition name_ok (s : string) : bool :=
  negb (String.eqb s "") && negb (str_contains_char """" s) && negb (str_contains_char "." s)
  && negb (str_contains_char "010" s) && negb (str_contains_char "013" s) && negb (starts_with_char "'" s).
Definition strval_ok (s : string) : bool :=
  negb (String.eqb s "") && negb (str_contains_char "'" s) && negb (str_contains_char "." s)
  && negb (str_contains_char "010" s) && negb (str_contains_char "013" s).
Definition float_ok (r : string) : bool :=
  match float_text r with Some t => String.eqb t r | None => false end.
Fixpoint value_ok (top : bool) (v : aval) : bool :=      (* top = directly an attribute / map value: None allowed *)
  match v with
  | VNone => top | VBool _ | VInt _ => true
  | VFloat r => match float_text r with Some t => String.eqb t r | None => false end
  | VStr s => strval_ok s
  | VList l => forallb (value_ok false) l
  | VMap kv => nodupb (map fst kv) && forallb (fun p => name_ok (fst p) && value_ok true (snd p)) kv
  end.
Definition attr_ok (a : attr) : bool :=
  name_ok (a_name a) && negb (String.eqb (a_name a) "abstract") && value_ok true (a_default a)
  && match a_dom a, a_null a with None, VNone => true | _, _ => false end.
Definition info_ok (i : finfo) : bool :=
  name_ok (f_name i) && match f_abstract i with VBool _ => true | _ => false end
  && forallb attr_ok (f_attrs i) && nodupb (map a_name (f_attrs i)).
Fixpoint feature_ok (f : feature) : bool :=
  match f with Feature i rs => info_ok i
    && forallb (fun r => match r with Relation _ _ cs => negb (Nat.eqb (List.length cs) 0) && forallb feature_ok cs end) rs end.

(* constraints: shape-correct trees; terms are references, string literals ('...'), integers, plain
   floats; no XOR; aggregates over references.  A reference is a QUALIFIED name: one or more
   '.'-separated parts ("Disk.size in GB"), each of them [name_ok] (in particular not empty: "",
   "a.", ".a", "a..b" are excluded; [str_split] is Python's split, it never returns []).  Feature and
   attribute names declared in the tree keep the plain [name_ok].  [ctc_ok] is the brief's predicate,
   restructured (see [ctc_ok_brief] below, proved equal). *)
Definition qname_ok (s : string) : bool := forallb name_ok (str_split "." s).
Definition term_ok (s : string) : bool := qname_ok s || starts_with_char "'" s.
Definition is_ref (n : node) : bool :=
  match n with Node (DStr a) None None => qname_ok a | _ => false end.
Fixpoint ctc_ok (n : node) : bool :=
  match n with
  | Node (DStr s) None None => term_ok s
  | Node (DInt _) None None => true
  | Node (DFloat r) None None => float_ok r
  | Node (DOp o) (Some a) None =>
      if astop_eqb o NOT then ctc_ok a else op_in o [SUM; AVG; LEN; FLOOR; CEIL] && is_ref a
  | Node (DOp o) (Some a) (Some b) =>
      if op_in o [SUM; AVG] then is_ref a && is_ref b
      else negb (op_in o [NOT; XOR; LEN; FLOOR; CEIL]) && ctc_ok a && ctc_ok b
  | _ => false
  end.

Fixpoint ctc_ok_brief (n : node) : bool :=
  match n with
  | Node (DStr s) None None => qname_ok s || starts_with_char "'" s
  | Node (DInt _) None None => true
  | Node (DFloat r) None None => match float_text r with Some t => String.eqb t r | None => false end
  | Node (DOp NOT) (Some a) None => ctc_ok_brief a
  | Node (DOp o) (Some (Node (DStr a) None None)) None => op_in o [SUM; AVG; LEN; FLOOR; CEIL] && qname_ok a
  | Node (DOp o) (Some (Node (DStr a) None None)) (Some (Node (DStr b) None None)) =>
      if op_in o [SUM; AVG] then qname_ok a && qname_ok b
      else negb (op_in o [NOT; XOR; LEN; FLOOR; CEIL]) && (qname_ok a || starts_with_char "'" a) && (qname_ok b || starts_with_char "'" b)
  | Node (DOp o) (Some a) (Some b) => negb (op_in o [NOT; XOR; SUM; AVG; LEN; FLOOR; CEIL]) && ctc_ok_brief a && ctc_ok_brief b
  | _ => false
  end.

Definition is_strleaf (n : node) : bool :=
  match n with Node (DStr _) None None => true | _ => false end.

Definition uvl_ok (m : fm) : bool := feature_ok (root m) && forallb (fun c => ctc_ok (c_ast c)) (ctcs m).

(* normal form: constraints renamed "Constraint 0", "Constraint 1", ...; REQUIRES -> IMPLIES;
   EXCLUDES l r -> IMPLIES l (NOT r) *)
Fixpoint uvl_norm_node (n : node) : node :=
  match n with
  | Node (DOp o) l r =>
      let l' := match l with Some a => Some (uvl_norm_node a) | None => None end in
      let r' := match r with Some b => Some (uvl_norm_node b) | None => None end in
      match o with
      | REQUIRES => Node (DOp IMPLIES) l' r'
      | EXCLUDES => match r' with
                    | Some b => Node (DOp IMPLIES) l' (Some (un NOT b))
                    | None => Node (DOp EXCLUDES) l' None
                    end
      | _ => Node (DOp o) l' r'
      end
  | _ => n
  end.

Fixpoint name_ctcs (i : Z) (ns : list node) : list ctc :=
  match ns with
  | [] => []
  | n :: rest => {| c_name := ("Constraint " ++ z_to_string i)%string; c_ast := n |} :: name_ctcs (i + 1)%Z rest
  end.

Definition uvl_norm (m : fm) : fm :=
  {| root := root m; ctcs := name_ctcs 0%Z (map (fun c => uvl_norm_node (c_ast c)) (ctcs m)) |}.

(* ------------------------------------------------------------------ concrete test *)
Definition ex_attr (n : string) (v : aval) : attr := {| a_name := n; a_dom := None; a_default := v; a_null := VNone |}.
Definition ex_info (n : string) (ab : bool) (t : ftype) (mn mx : Z) (ats : list attr) : finfo :=
  {| f_name := n; f_abstract := VBool ab; f_type := t; f_cmin := mn; f_cmax := mx; f_attrs := ats |}.
Definition ex_leaf (n : string) : feature := Feature (ex_info n false TBoolean 1 1 []) [].
Definition ex_model : fm :=
  {| root :=
       Feature (ex_info "Root" true TBoolean 1 1
                  [ex_attr "cost" (VInt 12); ex_attr "flag" VNone; ex_attr "w" (VFloat "1.5");
                   ex_attr "my attr" (VList [VInt (-3); VStr "x y"; VBool true; VList [VInt 1]]);
                   ex_attr "m" (VMap [("k1", VNone); ("k 2", VMap [("z", VInt 0)]); ("l", VList [])])])
         [ Relation 1 1 [Feature (ex_info "A" false TInteger 1 1 [ex_attr "or" (VBool false)]) []];
           Relation 0 1 [Feature (ex_info "B" false TBoolean 0 (-1) []) []];
           Relation 1 1 [ex_leaf "C1"; ex_leaf "C 2"];
           Relation 1 3 [ex_leaf "D1"; Feature (ex_info "D2" true TString 2 5 [])
                                          [Relation 2 2 [ex_leaf "E1"; ex_leaf "E2"; ex_leaf "E3"];
                                           Relation 0 (-1) [ex_leaf "G1"; ex_leaf "G2"];
                                           Relation 0 1 [ex_leaf "H1"; ex_leaf "H2"]];
                         Feature (ex_info "D3" false TReal 1 1 []) []];
           Relation 1 1 [ex_leaf "Z"] ];
     ctcs :=
       [ {| c_name := "x"; c_ast := bin REQUIRES (term "A") (term "B") |};
         {| c_name := "y"; c_ast := bin EXCLUDES (term "C1") (bin AND (term "D1") (un NOT (term "C 2"))) |};
         {| c_name := "z"; c_ast := bin AND (bin EXCLUDES (term "A") (term "B")) (bin EQUIVALENCE (term "Z") (term "or")) |};
         {| c_name := "c"; c_ast := bin GREATER_EQUALS (bin ADD (term "A") (Node (DInt 3) None None)) (Node (DFloat "2.5") None None) |};
         {| c_name := "s"; c_ast := bin EQUALS (term "D2") (term "'abc'") |};
         {| c_name := "g"; c_ast := bin LOWER (bin SUM (term "cost") (term "Root")) (un LEN (term "D2")) |};
         {| c_name := "h"; c_ast := bin NOT_EQUALS (un AVG (term "cost")) (bin DIV (un FLOOR (term "A")) (un CEIL (term "A"))) |};
         {| c_name := "o"; c_ast := bin OR (un NOT (bin IMPLIES (term "A") (term "B"))) (term "Z") |};
         (* qualified references feature.attribute; parts that need quotes (blank, leading digit, keyword) *)
         {| c_name := "q1"; c_ast := bin GREATER (term "Disk.size in GB") (Node (DInt 3) None None) |};
         {| c_name := "q2"; c_ast := bin EQUALS (term "features.1st") (term "'lit'") |};
         {| c_name := "q3"; c_ast := bin LOWER_EQUALS (bin AVG (term "Root.my attr") (term "A.or"))
                                                      (un SUM (term "D2.x.y z")) |};
         {| c_name := "q4"; c_ast := bin EXCLUDES (term "Root.cost") (un LEN (term "C 2.n")) |} ] |}.


(* ------------------------------------------------------------------ strings *)
Lemma str_app_nil_r : forall s : string, (s ++ "")%string = s.
Proof. induction s as [|c s IH]; [reflexivity|]. cbn [append]. rewrite IH. reflexivity. Qed.

Lemma str_app_assoc : forall a b c : string, ((a ++ b) ++ c)%string = (a ++ (b ++ c))%string.
Proof. induction a as [|x a IH]; intros b c; [reflexivity|]. cbn [append]. rewrite IH. reflexivity. Qed.

Lemma str_rev_acc_app : forall s acc, str_rev_acc s acc = (str_rev s ++ acc)%string.
Proof.
  unfold str_rev. induction s as [|c s IH]; intros acc; [reflexivity|].
  cbn [str_rev_acc]. rewrite (IH (String c acc)), (IH (String c "")), str_app_assoc. reflexivity.
Qed.

Lemma str_rev_cons c s : str_rev (String c s) = (str_rev s ++ String c "")%string.
Proof. unfold str_rev at 1. cbn [str_rev_acc]. apply str_rev_acc_app. Qed.

Lemma str_rev_app : forall a b, str_rev (a ++ b) = (str_rev b ++ str_rev a)%string.
Proof.
  induction a as [|c a IH]; intros b.
  - cbn [append]. change (str_rev "") with "". rewrite str_app_nil_r. reflexivity.
  - cbn [append]. rewrite !str_rev_cons, IH, str_app_assoc. reflexivity.
Qed.

Lemma str_rev_involutive : forall s, str_rev (str_rev s) = s.
Proof.
  induction s as [|c s IH]; [reflexivity|].
  rewrite str_rev_cons, str_rev_app, IH. reflexivity.
Qed.

Lemma drop_ends_wrap c d s : drop_ends (String c (s ++ String d "")) = s.
Proof.
  unfold drop_ends. rewrite str_rev_app. change (str_rev (String d "")) with (String d "").
  cbn [append]. apply str_rev_involutive.
Qed.

Lemma remove_char_absent c : forall s, str_contains_char c s = false -> str_remove_char c s = s.
Proof.
  unfold str_contains_char. induction s as [|d s IH]; intros H; [reflexivity|].
  cbn [str_existsb] in H. apply orb_false_iff in H. destruct H as [H1 H2].
  cbn [str_remove_char]. rewrite H1, (IH H2). reflexivity.
Qed.

Lemma remove_char_app c : forall a b,
  str_remove_char c (a ++ b) = (str_remove_char c a ++ str_remove_char c b)%string.
Proof.
  induction a as [|d a IH]; intros b; [reflexivity|].
  cbn [append str_remove_char]. destruct (Ascii.eqb c d); [apply IH|].
  cbn [append]. rewrite IH. reflexivity.
Qed.

(* C04: "A" and A denote the same name *)
Theorem read_quoted_ref : forall s, strip_quotes (quote s) = strip_quotes s.
Proof.
  intros s. unfold strip_quotes, quote. rewrite !remove_char_app.
  change (str_remove_char """" """") with "". rewrite str_app_nil_r. reflexivity.
Qed.

Lemma name_ok_parts s : name_ok s = true ->
  s <> "" /\ str_contains_char """" s = false /\ str_contains_char "." s = false
  /\ starts_with_char "'" s = false.
Proof.
  unfold name_ok. intros H.
  repeat (apply andb_true_iff in H; destruct H as [H ?]).
  repeat match goal with X : negb _ = true |- _ => apply negb_true_iff in X end.
  repeat split; try assumption.
  intros ->. discriminate.
Qed.

Lemma strip_safe_simple s : str_contains_char """" s = false ->
  strip_quotes (uvl_safe_simple_name s) = s.
Proof.
  intros H. unfold uvl_safe_simple_name.
  destruct (starts_with_char "'" s && ends_with_char "'" s).
  - apply remove_char_absent. exact H.
  - destruct (is_plain_id s && negb (list_existsb_eq s uvl_keywords)).
    + apply remove_char_absent. exact H.
    + rewrite read_quoted_ref. apply remove_char_absent. exact H.
Qed.

Lemma strip_safename s : name_ok s = true -> strip_quotes (uvl_safename s) = s.
Proof.
  intros H. destruct (name_ok_parts s H) as (_ & Hq & Hd & _).
  unfold uvl_safename. rewrite Hd. apply strip_safe_simple. exact Hq.
Qed.

(* ---- qualified names: split / join / contains / remove *)
Lemma contains_cons c d s :
  str_contains_char c (String d s) = Ascii.eqb c d || str_contains_char c s.
Proof. reflexivity. Qed.

Lemma contains_app c : forall a b,
  str_contains_char c (a ++ b) = str_contains_char c a || str_contains_char c b.
Proof.
  unfold str_contains_char. induction a as [|d a IH]; intros b; [reflexivity|].
  cbn [append str_existsb]. rewrite IH, orb_assoc. reflexivity.
Qed.

Lemma str_split_aux_eq c d s cur :
  str_split_aux c (String d s) cur =
  if Ascii.eqb c d then str_rev cur :: str_split_aux c s "" else str_split_aux c s (String d cur).
Proof. reflexivity. Qed.

Lemma str_split_aux_nonnil c : forall s cur, str_split_aux c s cur <> [].
Proof.
  induction s as [|d s IH]; intros cur; [discriminate|].
  rewrite str_split_aux_eq. destruct (Ascii.eqb c d); [discriminate|apply IH].
Qed.

Lemma str_join_cons2 sep x y l : str_join sep (x :: y :: l) = (x ++ sep ++ str_join sep (y :: l))%string.
Proof. reflexivity. Qed.

Lemma str_join_cons_nonnil sep x l : l <> [] -> str_join sep (x :: l) = (x ++ sep ++ str_join sep l)%string.
Proof. destruct l as [|y l]; [intros H; elim H; reflexivity|intros _; apply str_join_cons2]. Qed.

(* Python: c.join(s.split(c)) == s *)
Lemma str_join_split_aux c : forall s cur,
  str_join (String c "") (str_split_aux c s cur) = (str_rev cur ++ s)%string.
Proof.
  induction s as [|d s IH]; intros cur.
  - cbn [str_split_aux str_join]. rewrite str_app_nil_r. reflexivity.
  - rewrite str_split_aux_eq. destruct (Ascii.eqb_spec c d) as [<-|Hcd].
    + rewrite (str_join_cons_nonnil _ _ _ (str_split_aux_nonnil c s "")), IH. reflexivity.
    + rewrite IH, str_rev_cons, str_app_assoc. reflexivity.
Qed.

Lemma str_join_split c s : str_join (String c "") (str_split c s) = s.
Proof. unfold str_split. apply (str_join_split_aux c s ""). Qed.

(* a string without the separator is its own single part *)
Lemma str_split_aux_absent c : forall s cur, str_contains_char c s = false ->
  str_split_aux c s cur = [(str_rev cur ++ s)%string].
Proof.
  induction s as [|d s IH]; intros cur H.
  - cbn [str_split_aux]. rewrite str_app_nil_r. reflexivity.
  - rewrite contains_cons in H. apply orb_false_iff in H. destruct H as [H1 H2].
    rewrite str_split_aux_eq, H1, (IH _ H2), str_rev_cons, str_app_assoc. reflexivity.
Qed.

Lemma str_split_absent c s : str_contains_char c s = false -> str_split c s = [s].
Proof. intros H. unfold str_split. rewrite (str_split_aux_absent c s "" H). reflexivity. Qed.

(* the parts never contain the separator *)
Lemma str_split_aux_parts c : forall s cur, str_contains_char c (str_rev cur) = false ->
  Forall (fun p => str_contains_char c p = false) (str_split_aux c s cur).
Proof.
  induction s as [|d s IH]; intros cur H.
  - constructor; [exact H|constructor].
  - rewrite str_split_aux_eq. destruct (Ascii.eqb c d) eqn:Hcd.
    + constructor; [exact H|]. apply IH. reflexivity.
    + apply IH. rewrite str_rev_cons, contains_app, H, contains_cons, Hcd. reflexivity.
Qed.

Lemma str_split_parts c s : Forall (fun p => str_contains_char c p = false) (str_split c s).
Proof. apply str_split_aux_parts. reflexivity. Qed.

(* removing a character commutes with joining, when the separator does not contain it *)
Lemma remove_char_join q sep : str_remove_char q sep = sep -> forall l,
  str_remove_char q (str_join sep l) = str_join sep (map (str_remove_char q) l).
Proof.
  intros Hsep. induction l as [|x l IH]; [reflexivity|].
  destruct l as [|y l]; [reflexivity|].
  cbn [map]. rewrite !str_join_cons2, !remove_char_app, Hsep.
  cbn [map] in IH. rewrite IH. reflexivity.
Qed.

(* a join without the character: no part has it *)
Lemma join_absent_parts q sep : forall l, str_contains_char q (str_join sep l) = false ->
  Forall (fun p => str_contains_char q p = false) l.
Proof.
  induction l as [|x l IH]; intros H; [constructor|].
  destruct l as [|y l].
  - constructor; [exact H|constructor].
  - rewrite str_join_cons2, !contains_app in H.
    apply orb_false_iff in H. destruct H as [Hx H]. apply orb_false_iff in H. destruct H as [_ H].
    constructor; [exact Hx|]. apply IH. exact H.
Qed.

(* the writer's quoting of the parts of a qualified name is undone by the reader *)
Lemma strip_join_safe : forall l, Forall (fun p => str_contains_char """" p = false) l ->
  strip_quotes (str_join "." (map uvl_safe_simple_name l)) = str_join "." l.
Proof.
  intros l H. unfold strip_quotes at 1. rewrite (remove_char_join """" "." eq_refl), map_map.
  f_equal. induction H as [|p l Hp _ IH]; [reflexivity|].
  cbn [map]. rewrite IH. f_equal. apply (strip_safe_simple p Hp).
Qed.

(* the general fact: ANY name without a double quote survives writing and reading, in the model
   (empty parts included: "a..b" is written a."".b) — [qname_ok] is stricter only because the
   grammar has no empty identifier *)
Lemma strip_quotes_safename_noquote s : str_contains_char """" s = false ->
  strip_quotes (uvl_safename s) = s.
Proof.
  intros H. unfold uvl_safename. destruct (str_contains_char "." s).
  - rewrite strip_join_safe; [apply (str_join_split "." s)|].
    apply (join_absent_parts """" "."). rewrite (str_join_split "." s). exact H.
  - apply strip_safe_simple. exact H.
Qed.

Lemma forallb_name_ok_noquote : forall l, forallb name_ok l = true ->
  Forall (fun p => str_contains_char """" p = false) l.
Proof.
  induction l as [|p l IH]; intros H; [constructor|].
  cbn [forallb] in H. apply andb_true_iff in H. destruct H as [Hp Hl].
  constructor; [|apply IH; exact Hl]. destruct (name_ok_parts p Hp) as (_ & Hq & _). exact Hq.
Qed.

Lemma qname_ok_noquote s : qname_ok s = true -> str_contains_char """" s = false.
Proof.
  unfold qname_ok. intros H. rewrite <- (str_join_split "." s) at 1.
  pose proof (forallb_name_ok_noquote _ H) as HF. clear H.
  induction HF as [|p l Hp _ IH]; [reflexivity|].
  destruct l as [|y l]; [exact Hp|].
  rewrite str_join_cons2, !contains_app, Hp, IH. reflexivity.
Qed.

(* the core lemma for qualified references *)
Lemma strip_quotes_safename_q : forall s, qname_ok s = true -> strip_quotes (uvl_safename s) = s.
Proof. intros s H. apply strip_quotes_safename_noquote. apply qname_ok_noquote. exact H. Qed.

Lemma starts_with_app c a b : a <> "" -> starts_with_char c (a ++ b) = starts_with_char c a.
Proof. destruct a as [|d a]; [intros H; elim H; reflexivity|reflexivity]. Qed.

(* a qualified reference is never a string literal *)
Lemma qname_ok_not_literal s : qname_ok s = true -> starts_with_char "'" s = false.
Proof.
  unfold qname_ok. intros H. rewrite <- (str_join_split "." s).
  destruct (str_split "." s) as [|p l]; [reflexivity|].
  cbn [forallb] in H. apply andb_true_iff in H. destruct H as [Hp _].
  destruct (name_ok_parts p Hp) as (Hne & _ & _ & Hq).
  destruct l as [|y l]; [exact Hq|].
  rewrite str_join_cons2, (starts_with_app _ _ _ Hne). exact Hq.
Qed.

(* [qname_ok] widens [name_ok]: an undotted qualified name is a plain name, and conversely *)
Lemma name_ok_qname_ok s : name_ok s = true -> qname_ok s = true.
Proof.
  intros H. destruct (name_ok_parts s H) as (_ & _ & Hd & _).
  unfold qname_ok. rewrite (str_split_absent _ _ Hd). cbn [forallb]. rewrite H. reflexivity.
Qed.

Lemma qname_ok_undotted s : str_contains_char "." s = false -> qname_ok s = name_ok s.
Proof.
  intros Hd. unfold qname_ok. rewrite (str_split_absent _ _ Hd). cbn [forallb]. apply andb_true_r.
Qed.

(* every part of a qualified name is a plain name, and joining plain names gives a qualified name *)
Lemma qname_ok_join : forall l, l <> [] -> forallb name_ok l = true -> qname_ok (str_join "." l) = true.
Proof.
  assert (G : forall l cur, l <> [] -> forallb name_ok l = true ->
            forall p rest, l = p :: rest ->
            str_split_aux "." (str_join "." l) cur = (str_rev cur ++ p)%string :: rest).
  { induction l as [|x l IH]; intros cur Hne H p rest E; [elim Hne; reflexivity|].
    injection E as -> ->. cbn [forallb] in H. apply andb_true_iff in H. destruct H as [Hp Hl].
    destruct (name_ok_parts p Hp) as (_ & _ & Hd & _).
    destruct rest as [|y rest].
    - cbn [str_join]. apply str_split_aux_absent. exact Hd.
    - rewrite str_join_cons2. clear Hp Hne. revert cur Hd. induction p as [|d p IHp]; intros cur Hd.
      + cbn [append]. rewrite str_split_aux_eq. cbn [Ascii.eqb Bool.eqb].
        rewrite (IH "" ltac:(discriminate) Hl y rest eq_refl), str_app_nil_r. reflexivity.
      + rewrite contains_cons in Hd. apply orb_false_iff in Hd. destruct Hd as [Hd1 Hd2].
        cbn [append]. rewrite str_split_aux_eq, Hd1, (IHp _ Hd2), str_rev_cons, str_app_assoc. reflexivity. }
  intros l Hne H. unfold qname_ok, str_split. destruct l as [|p rest]; [elim Hne; reflexivity|].
  rewrite (G _ "" Hne H p rest eq_refl). exact H.
Qed.

(* ---- decimal numbers *)
Definition numchar (c : ascii) : bool := is_digit c || Ascii.eqb c "-".

Lemma forallb_str_app p : forall a b,
  str_forallb p (a ++ b) = str_forallb p a && str_forallb p b.
Proof.
  induction a as [|c a IH]; intros b; [reflexivity|].
  cbn [append str_forallb]. rewrite IH, andb_assoc. reflexivity.
Qed.

Lemma uint_numchar : forall d, str_forallb numchar (NilEmpty.string_of_uint d) = true.
Proof. induction d; cbn [NilEmpty.string_of_uint str_forallb]; try rewrite IHd; reflexivity. Qed.

Lemma z_to_string_numchar z : str_forallb numchar (z_to_string z) = true.
Proof.
  unfold z_to_string. destruct (Z.to_int z) as [d|d]; cbn [NilZero.string_of_int].
  - destruct d; try reflexivity; apply (uint_numchar (_ _)).
  - cbn [str_forallb]. destruct d; try reflexivity; apply (uint_numchar (_ _)).
Qed.

Lemma numchar_no c s : numchar c = false -> str_forallb numchar s = true -> str_contains_char c s = false.
Proof.
  intros Hc. unfold str_contains_char. induction s as [|d s IH]; intros H; [reflexivity|].
  cbn [str_forallb] in H. apply andb_true_iff in H. destruct H as [H1 H2].
  cbn [str_existsb]. rewrite (IH H2), orb_false_r.
  destruct (Ascii.eqb_spec c d) as [->|]; [congruence|reflexivity].
Qed.

Lemma z_to_string_nodot z : str_contains_char "." (z_to_string z) = false.
Proof. apply numchar_no; [reflexivity|apply z_to_string_numchar]. Qed.

Lemma z_to_string_not_star z : String.eqb (z_to_string z) "*" = false.
Proof.
  destruct (String.eqb_spec (z_to_string z) "*") as [E|]; [|reflexivity].
  pose proof (z_to_string_numchar z) as H. rewrite E in H. discriminate.
Qed.

Lemma string_to_z_to_string z : string_to_z (z_to_string z) = Some z.
Proof.
  unfold string_to_z, z_to_string. rewrite NilZero.isi.
  - rewrite DecimalZ.of_to. reflexivity.
  - destruct z as [|p|p]; cbn; try discriminate.
    intros E. injection E as E. revert E. apply DecimalPos.Unsigned.to_uint_nonnil.
  - destruct z as [|p|p]; cbn; try discriminate.
    intros E. injection E as E. revert E. apply DecimalPos.Unsigned.to_uint_nonnil.
Qed.

Lemma to_int_z_to_string z : to_int (z_to_string z) = Ok z.
Proof. unfold to_int. rewrite string_to_z_to_string. reflexivity. Qed.

(* ---- cardinalities *)
Lemma split_dotdot_eq c rest acc :
  split_dotdot (String c rest) acc =
  if Ascii.eqb c "." then
    match rest with
    | String d rest' => if Ascii.eqb d "." then Some (str_rev acc, rest')
                        else split_dotdot rest (String c acc)
    | EmptyString => split_dotdot rest (String c acc)
    end
  else split_dotdot rest (String c acc).
Proof.
  destruct c as [[] [] [] [] [] [] [] []]; try reflexivity.
  destruct rest as [|d rest']; [reflexivity|].
  destruct d as [[] [] [] [] [] [] [] []]; reflexivity.
Qed.

Lemma split_dotdot_none : forall s acc, str_contains_char "." s = false -> split_dotdot s acc = None.
Proof.
  induction s as [|c s IH]; intros acc H; [reflexivity|].
  rewrite contains_cons in H. apply orb_false_iff in H. destruct H as [H1 H2].
  rewrite split_dotdot_eq. rewrite Ascii.eqb_sym, H1. apply IH. exact H2.
Qed.

Lemma split_dotdot_found : forall a b acc, str_contains_char "." a = false ->
  split_dotdot (a ++ ".." ++ b) acc = Some ((str_rev acc ++ a)%string, b).
Proof.
  induction a as [|c a IH]; intros b acc H.
  - cbn [append]. rewrite split_dotdot_eq. cbn [Ascii.eqb Bool.eqb]. rewrite str_app_nil_r. reflexivity.
  - rewrite contains_cons in H. apply orb_false_iff in H. destruct H as [H1 H2].
    cbn [append]. rewrite split_dotdot_eq. rewrite Ascii.eqb_sym, H1.
    change (a ++ String "." (String "." b))%string with (a ++ ".." ++ b)%string.
    rewrite (IH b (String c acc) H2), str_rev_cons, str_app_assoc. reflexivity.
Qed.

Lemma drop_ends_brackets s : drop_ends ("[" ++ s ++ "]") = s.
Proof. cbn [append]. apply drop_ends_wrap. Qed.

Lemma parse_card_single n : parse_cardinality ("[" ++ z_to_string n ++ "]") = Ok (n, n).
Proof.
  unfold parse_cardinality. rewrite drop_ends_brackets.
  rewrite (split_dotdot_none _ _ (z_to_string_nodot n)). cbv beta iota zeta.
  rewrite to_int_z_to_string, z_to_string_not_star. reflexivity.
Qed.

Lemma parse_card_range a b :
  parse_cardinality ("[" ++ z_to_string a ++ ".." ++ z_to_string b ++ "]") = Ok (a, b).
Proof.
  unfold parse_cardinality.
  replace ("[" ++ z_to_string a ++ ".." ++ z_to_string b ++ "]")%string
    with ("[" ++ (z_to_string a ++ ".." ++ z_to_string b) ++ "]")%string
    by (cbn [append]; rewrite !str_app_assoc; reflexivity).
  rewrite drop_ends_brackets.
  rewrite (split_dotdot_found _ _ _ (z_to_string_nodot a)). change (str_rev "") with "". cbn [append]. cbv beta iota zeta.
  rewrite !to_int_z_to_string, z_to_string_not_star. reflexivity.
Qed.

Lemma parse_card_text a b : parse_cardinality (card_text a b) = Ok (a, b).
Proof.
  unfold card_text. destruct (Z.eqb_spec b (-1)) as [->|Hb]; [|apply parse_card_range].
  unfold parse_cardinality.
  replace ("[" ++ z_to_string a ++ ".." ++ "*" ++ "]")%string
    with ("[" ++ (z_to_string a ++ ".." ++ "*") ++ "]")%string
    by (cbn [append]; rewrite !str_app_assoc; reflexivity).
  rewrite drop_ends_brackets.
  rewrite (split_dotdot_found _ _ _ (z_to_string_nodot a)). change (str_rev "") with "". cbn [append]. cbv beta iota zeta.
  rewrite to_int_z_to_string. reflexivity.
Qed.

(* C04: [n] and [n..n] *)
Theorem read_card_n : forall n,
  parse_cardinality ("[" ++ z_to_string n ++ "]") = parse_cardinality ("[" ++ z_to_string n ++ ".." ++ z_to_string n ++ "]").
Proof. intros n. rewrite parse_card_single, parse_card_range. reflexivity. Qed.

(* ------------------------------------------------------------------ attribute values *)
Lemma aval_ind2 (P : aval -> Prop) :
  P VNone -> (forall b, P (VBool b)) -> (forall z, P (VInt z)) -> (forall r, P (VFloat r)) ->
  (forall s, P (VStr s)) -> (forall l, Forall P l -> P (VList l)) ->
  (forall kv, Forall (fun p => P (snd p)) kv -> P (VMap kv)) -> forall v, P v.
Proof.
  intros H0 Hb Hz Hf Hs Hl Hm. fix IH 1. intros [|b|z|r|s|l|kv].
  - exact H0.
  - apply Hb.
  - apply Hz.
  - apply Hf.
  - apply Hs.
  - apply Hl. revert l. fix IHl 1. intros [|x l]; constructor; [apply IH|apply IHl].
  - apply Hm. revert kv. fix IHl 1. intros [|[k x] kv]; constructor; [apply IH|apply IHl].
Qed.

(* the nested [fix] of [value_aval] / the lambdas of [value_cst], as top-level functions *)
Fixpoint va_go (l : list uattr) (acc : list (string * aval)) : result (list (string * aval)) :=
  match l with
  | [] => Ok acc
  | UAValue k None :: rest => va_go rest (dict_set acc (strip_quotes k) VNone)
  | UAValue k (Some x) :: rest =>
      match value_aval x with Err e => Err e | Ok x' => va_go rest (dict_set acc (strip_quotes k) x') end
  | UAConstraint :: rest => va_go rest (dict_set acc "None" VNone)
  | UAOther :: _ => Err ValueError
  end.

Lemma value_aval_attrs l :
  value_aval (UVAttrs l) = match va_go l [] with Err e => Err e | Ok kv => Ok (VMap kv) end.
Proof. reflexivity. Qed.

Lemma value_aval_vector l :
  value_aval (UVVector l) = match mapM value_aval l with Err e => Err e | Ok l' => Ok (VList l') end.
Proof. reflexivity. Qed.

Definition attr_entry (k : string) (x : aval) : result uattr :=
  match x with
  | VNone => Ok (UAValue (uvl_safename k) None)
  | _ => match value_cst x with
         | Err e => Err e
         | Ok x' => Ok (UAValue (uvl_safename k) (Some x'))
         end
  end.

Lemma value_cst_map kv :
  value_cst (VMap kv) =
  match mapM (fun p : string * aval => attr_entry (fst p) (snd p)) kv with
  | Err e => Err e | Ok l => Ok (UVAttrs l) end.
Proof.
  cbn [value_cst].
  assert (E : forall l, mapM (fun p : string * aval => let (k, x) := p in
                           match x with
                           | VNone => Ok (UAValue (uvl_safename k) None)
                           | _ => match value_cst x with
                                  | Err e => Err e
                                  | Ok x' => Ok (UAValue (uvl_safename k) (Some x'))
                                  end
                           end) l
                        = mapM (fun p : string * aval => attr_entry (fst p) (snd p)) l).
  { induction l as [|[k x] l IH]; [reflexivity|]. rewrite !mapM_cons, IH.
    cbn [fst snd]. destruct x; reflexivity. }
  rewrite E. reflexivity.
Qed.

Lemma value_cst_list l :
  value_cst (VList l) = match mapM value_cst l with Err e => Err e | Ok l' => Ok (UVVector l') end.
Proof. reflexivity. Qed.

Definition RT (v : aval) : Prop := exists u, value_cst v = Ok u /\ value_aval u = Ok v.

Lemma dict_set_fresh : forall acc k v, list_existsb_eq k (map fst acc) = false ->
  dict_set acc k v = acc ++ [(k, v)].
Proof.
  induction acc as [|[k' v'] acc IH]; intros k v H; [reflexivity|].
  cbn [map fst list_existsb_eq] in H. apply orb_false_iff in H. destruct H as [H1 H2].
  cbn [dict_set app]. rewrite H1, (IH _ _ H2). reflexivity.
Qed.

Lemma existsb_eq_app s : forall a b,
  list_existsb_eq s (a ++ b) = list_existsb_eq s a || list_existsb_eq s b.
Proof.
  induction a as [|x a IH]; intros b; [reflexivity|].
  rewrite <- app_comm_cons. cbn [list_existsb_eq]. rewrite IH, orb_assoc. reflexivity.
Qed.

(* writing then reading a list of (key, value) entries appends them to the dictionary *)
Lemma entries_roundtrip : forall kv acc,
  Forall (fun p => name_ok (fst p) = true /\ (snd p = VNone \/ RT (snd p))) kv ->
  nodupb (map fst kv) = true ->
  Forall (fun p => list_existsb_eq (fst p) (map fst acc) = false) kv ->
  exists l, mapM (fun p : string * aval => attr_entry (fst p) (snd p)) kv = Ok l
            /\ va_go l acc = Ok (acc ++ kv).
Proof.
  induction kv as [|[k x] kv IH]; intros acc Hall Hnd Hfresh.
  - exists []. split; [reflexivity|]. cbn [va_go]. rewrite app_nil_r. reflexivity.
  - inversion Hall as [|? ? [Hk Hx] Hall']; subst. inversion Hfresh as [|? ? Hk1 Hfresh']; subst.
    cbn [map fst nodupb] in Hnd. apply andb_true_iff in Hnd. destruct Hnd as [Hnk Hnd].
    apply negb_true_iff in Hnk. cbn [fst snd] in Hk, Hx, Hk1.
    destruct (IH (acc ++ [(k, x)]) Hall' Hnd) as (l & Hl & Hgo).
    { clear - Hfresh' Hnk Hnd. revert Hnk Hnd Hfresh'.
      induction kv as [|[k' x'] kv IHkv]; intros Hnk Hnd Hf; constructor.
      - cbn [fst]. rewrite map_app, existsb_eq_app. inversion Hf; subst. cbn [fst] in H1. rewrite H1.
        cbn [map fst list_existsb_eq]. cbn [map fst list_existsb_eq] in Hnk.
        apply orb_false_iff in Hnk. destruct Hnk as [Hne _]. rewrite String.eqb_sym, Hne. reflexivity.
      - cbn [map fst list_existsb_eq nodupb] in Hnk, Hnd. apply orb_false_iff in Hnk.
        apply andb_true_iff in Hnd. inversion Hf; subst.
        apply IHkv; [apply Hnk|apply Hnd|assumption]. }
    rewrite mapM_cons. cbn [fst snd]. rewrite Hl.
    destruct Hx as [->|(u & Hu1 & Hu2)].
    + cbn [attr_entry]. eexists. split; [reflexivity|].
      cbn [va_go]. rewrite (strip_safename _ Hk), (dict_set_fresh _ _ _ Hk1), Hgo, <- app_assoc. reflexivity.
    + assert (E : attr_entry k x = Ok (UAValue (uvl_safename k) (match x with VNone => None | _ => Some u end))).
      { unfold attr_entry. rewrite Hu1. destruct x; reflexivity. }
      rewrite E. eexists. split; [reflexivity|].
      destruct x; cbn [va_go]; try rewrite Hu2;
        rewrite (strip_safename _ Hk), (dict_set_fresh _ _ _ Hk1), Hgo, <- app_assoc; reflexivity.
Qed.

Lemma value_roundtrip : forall v top, value_ok top v = true -> v = VNone \/ RT v.
Proof.
  apply (aval_ind2 (fun v => forall top, value_ok top v = true -> v = VNone \/ RT v)).
  - intros top _. left. reflexivity.
  - intros b top _. right. exists (UVBool (if b then "true" else "false")). split; [reflexivity|].
    destruct b; reflexivity.
  - intros z top _. right. exists (UVInt (z_to_string z)). split; [reflexivity|].
    cbn [value_aval]. rewrite to_int_z_to_string. reflexivity.
  - intros r top H. right. cbn [value_ok] in H. unfold RT. cbn [value_cst].
    destruct (float_text r) as [t|]; [|discriminate]. eexists. split; reflexivity.
  - intros s top _. right. eexists. split; [reflexivity|].
    cbn [value_aval]. f_equal. f_equal. cbn [append]. apply drop_ends_wrap.
  - intros l IH top H. right. cbn [value_ok] in H. unfold RT. rewrite value_cst_list.
    assert (E : exists l', mapM value_cst l = Ok l' /\ mapM value_aval l' = Ok l).
    { clear top. induction IH as [|x l Hx _ IHl].
      - exists []. split; reflexivity.
      - cbn [forallb] in H. apply andb_true_iff in H. destruct H as [H1 H2].
        destruct (IHl H2) as (l' & Hl1 & Hl2).
        destruct (Hx _ H1) as [->|(u & Hu1 & Hu2)]; [discriminate|].
        exists (u :: l'). rewrite !mapM_cons, Hu1, Hl1, Hu2, Hl2. split; reflexivity. }
    destruct E as (l' & Hl1 & Hl2). rewrite Hl1. eexists. split; [reflexivity|].
    rewrite value_aval_vector, Hl2. reflexivity.
  - intros kv IH top H. right. cbn [value_ok] in H. apply andb_true_iff in H. destruct H as [Hnd Hall].
    unfold RT. rewrite value_cst_map.
    destruct (entries_roundtrip kv []) as (l & Hl1 & Hl2).
    + clear Hnd. induction IH as [|p kv Hp _ IHkv]; constructor.
      * cbn [forallb] in Hall. apply andb_true_iff in Hall. destruct Hall as [H1 _].
        apply andb_true_iff in H1. destruct H1 as [H1 H2]. split; [exact H1|]. apply (Hp _ H2).
      * cbn [forallb] in Hall. apply andb_true_iff in Hall. apply IHkv. apply Hall.
    + exact Hnd.
    + clear. induction kv; constructor; [reflexivity|assumption].
    + rewrite Hl1. eexists. split; [reflexivity|]. rewrite value_aval_attrs, Hl2. reflexivity.
Qed.

(* ------------------------------------------------------------------ the reader, unfolded *)
Definition abs_entry (p : string * aval) : bool :=
  String.eqb (fst p) "abstract" && match snd p with VNone => true | v => aval_truthy v end.
Definition attr_of_entry (p : string * aval) : attr :=
  {| a_name := fst p; a_dom := None; a_default := snd p; a_null := VNone |}.
Definition ur_attrs (kv : list (string * aval)) : list attr :=
  map attr_of_entry (filter (fun p => negb (abs_entry p)) kv).
Definition ur_info (ref : string) (fty : ftype) (cmin cmax : Z) (kv : list (string * aval)) : finfo :=
  {| f_name := strip_quotes ref; f_abstract := VBool (existsb abs_entry kv); f_type := fty;
     f_cmin := cmin; f_cmax := cmax; f_attrs := ur_attrs kv |}.
Definition ur_card (fc : option string) : result (Z * Z) :=
  match fc with Some t => parse_cardinality t | None => Ok (1, 1)%Z end.
Definition ur_kv (at_ : option (list uattr)) : result (list (string * aval)) :=
  match at_ with
  | None => Ok []
  | Some l => match value_aval (UVAttrs l) with
              | Ok (VMap kv) => Ok kv
              | Ok _ => Ok []
              | Err e => Err e
              end
  end.
Definition per_child (kind : gkind) : bool := match kind with GOpt | GMand => true | _ => false end.
Definition ur_goc (here : path) (pc : bool) (k : nat) :=
  fix goc (j : nat) (cs : list ufeature) : result (list pfeature) :=
    match cs with
    | [] => Ok []
    | c :: cs' =>
        let p := if pc then here ++ [((k + j)%nat, 0%nat)] else here ++ [(k, j)] in
        match uvl_read_feature p (PPath here) c with Err e => Err e | Ok pc =>
        match goc (S j) cs' with Err e => Err e | Ok pcs => Ok (pc :: pcs) end end
    end.
Definition ur_go (here : path) :=
  fix go (k : nat) (gs : list ugroup) : result (list prelation) :=
    match gs with
    | [] => Ok []
    | UGroup kind cs :: rest =>
        match ur_goc here (per_child kind) k 0%nat cs with
        | Err e => Err e
        | Ok kids =>
            let n := List.length kids in
            match kind with
            | GOpt | GMand =>
                let mn := match kind with GMand => 1%Z | _ => 0%Z end in
                match go (k + n)%nat rest with Err e => Err e | Ok prs =>
                  Ok (map (fun c => PRelation (PPath here) mn 1%Z [c]) kids ++ prs) end
            | GAlt =>
                match go (S k) rest with Err e => Err e | Ok prs =>
                  Ok (PRelation (PPath here) 1%Z 1%Z kids :: prs) end
            | GOr =>
                match go (S k) rest with Err e => Err e | Ok prs =>
                  Ok (PRelation (PPath here) 1%Z (Z.of_nat n) kids :: prs) end
            | GCard text =>
                match parse_cardinality text with Err e => Err e | Ok (a, b) =>
                match go (S k) rest with Err e => Err e | Ok prs =>
                  Ok (PRelation (PPath here) a b kids :: prs) end end
            end
        end
    end.

Lemma uvl_read_feature_eq here parent ty ref fc at_ gs :
  uvl_read_feature here parent (UFeature ty ref fc at_ gs) =
  match ur_card fc with Err e => Err e | Ok (cmin, cmax) =>
  match read_ftype ty with Err e => Err e | Ok fty =>
  match ur_kv at_ with Err e => Err e | Ok kv =>
  match ur_go here 0%nat gs with
  | Err e => Err e
  | Ok prs => Ok (PFeature (ur_info ref fty cmin cmax kv) parent
                           (map (fun _ => PPath here) (ur_attrs kv)) prs)
  end end end end.
Proof. reflexivity. Qed.

Lemma ur_goc_nil here pc k j : ur_goc here pc k j [] = Ok [].
Proof. reflexivity. Qed.
Lemma ur_goc_cons here pc k j c cs :
  ur_goc here pc k j (c :: cs) =
  match uvl_read_feature (if pc then here ++ [((k + j)%nat, 0%nat)] else here ++ [(k, j)]) (PPath here) c with
  | Err e => Err e
  | Ok x => match ur_goc here pc k (S j) cs with Err e => Err e | Ok pcs => Ok (x :: pcs) end
  end.
Proof. reflexivity. Qed.
Lemma ur_go_nil here k : ur_go here k [] = Ok [].
Proof. reflexivity. Qed.
Definition mk_single (here : path) (mn : Z) (c : pfeature) : prelation := PRelation (PPath here) mn 1%Z [c].
Lemma ur_go_cons here k kind cs rest :
  ur_go here k (UGroup kind cs :: rest) =
  match ur_goc here (per_child kind) k 0%nat cs with
  | Err e => Err e
  | Ok kids =>
      match kind with
      | GOpt => match ur_go here (k + List.length kids)%nat rest with Err e => Err e | Ok prs =>
                  Ok (map (mk_single here 0%Z) kids ++ prs) end
      | GMand => match ur_go here (k + List.length kids)%nat rest with Err e => Err e | Ok prs =>
                  Ok (map (mk_single here 1%Z) kids ++ prs) end
      | GAlt => match ur_go here (S k) rest with Err e => Err e | Ok prs =>
                  Ok (PRelation (PPath here) 1%Z 1%Z kids :: prs) end
      | GOr => match ur_go here (S k) rest with Err e => Err e | Ok prs =>
                  Ok (PRelation (PPath here) 1%Z (Z.of_nat (List.length kids)) kids :: prs) end
      | GCard text =>
          match parse_cardinality text with Err e => Err e | Ok (a, b) =>
          match ur_go here (S k) rest with Err e => Err e | Ok prs =>
            Ok (PRelation (PPath here) a b kids :: prs) end end
      end
  end.
Proof. destruct kind; reflexivity. Qed.

(* the writer, unfolded *)
Definition rel_cst (r : relation) : result ugroup :=
  match r with
  | Relation _ _ cs => match mapM feature_cst cs with
                       | Err e => Err e
                       | Ok cs' => Ok (UGroup (group_kind r) cs')
                       end
  end.
Definition abs_part (i : finfo) : list uattr :=
  if aval_truthy (f_abstract i) then [UAValue "abstract" None] else [].
Lemma feature_cst_eq i rs :
  feature_cst (Feature i rs) =
  match mapM (fun a => attr_entry (a_name a) (a_default a)) (f_attrs i) with Err e => Err e | Ok l =>
  match mapM rel_cst rs with Err e => Err e | Ok gs =>
    Ok (UFeature (if ftype_eqb (f_type i) TBoolean then None else Some (ftype_value (f_type i)))
                 (uvl_safename (f_name i))
                 (if negb (f_cmin i =? 1)%Z || negb (f_cmax i =? 1)%Z
                  then Some (card_text (f_cmin i) (f_cmax i)) else None)
                 (match abs_part i ++ l with [] => None | all => Some all end) gs)
  end end.
Proof.
  cbn [feature_cst]. unfold attrs_cst. cbn [info].
  assert (E : forall l, mapM (fun a => match a_default a with
                       | VNone => Ok (UAValue (uvl_safename (a_name a)) None)
                       | v => match value_cst v with
                              | Err e => Err e
                              | Ok v' => Ok (UAValue (uvl_safename (a_name a)) (Some v'))
                              end
                       end) l = mapM (fun a => attr_entry (a_name a) (a_default a)) l).
  { induction l as [|a l IH]; [reflexivity|]. rewrite !mapM_cons, IH. unfold attr_entry.
    destruct (a_default a); reflexivity. }
  rewrite E. destruct (mapM (fun a => attr_entry (a_name a) (a_default a)) (f_attrs i)); reflexivity.
Qed.

(* ------------------------------------------------------------------ C01: one feature's own data *)
Lemma mapM_map {A B C} (g : A -> B) (f : B -> result C) : forall l,
  mapM f (map g l) = mapM (fun x => f (g x)) l.
Proof. induction l as [|x l IH]; [reflexivity|]. cbn [map]. rewrite !mapM_cons, IH. reflexivity. Qed.

Definition pair_of_attr (a : attr) : string * aval := (a_name a, a_default a).

Lemma attr_ok_parts a : attr_ok a = true ->
  name_ok (a_name a) = true /\ String.eqb (a_name a) "abstract" = false
  /\ value_ok true (a_default a) = true /\ a_dom a = None /\ a_null a = VNone.
Proof.
  unfold attr_ok. intros H.
  apply andb_true_iff in H. destruct H as [H H4].
  apply andb_true_iff in H. destruct H as [H H3].
  apply andb_true_iff in H. destruct H as [H1 H2].
  apply negb_true_iff in H2.
  destruct (a_dom a); [discriminate|]. destruct (a_null a); try discriminate.
  repeat split; assumption.
Qed.

Lemma attrs_pairs : forall ats, forallb attr_ok ats = true ->
  existsb abs_entry (map pair_of_attr ats) = false /\ ur_attrs (map pair_of_attr ats) = ats.
Proof.
  unfold ur_attrs. induction ats as [|a ats IH]; intros H; [split; reflexivity|].
  cbn [forallb] in H. apply andb_true_iff in H. destruct H as [Ha H].
  destruct (IH H) as [IH1 IH2]. destruct (attr_ok_parts a Ha) as (_ & Hn & _ & Hd & Hnull).
  assert (E : abs_entry (pair_of_attr a) = false).
  { unfold abs_entry, pair_of_attr. cbn [fst snd]. rewrite Hn. reflexivity. }
  cbn [map existsb filter]. rewrite E, IH1. cbn [negb map]. rewrite IH2. split; [reflexivity|].
  f_equal. destruct a as [n d v nl]. cbn in Hd, Hnull. subst. reflexivity.
Qed.

Lemma attrs_entries : forall ats acc,
  forallb attr_ok ats = true -> nodupb (map a_name ats) = true ->
  (forall p, In p acc -> fst p = "abstract") ->
  exists l, mapM (fun a => attr_entry (a_name a) (a_default a)) ats = Ok l
            /\ va_go l acc = Ok (acc ++ map pair_of_attr ats)
            /\ (ats = [] -> l = []).
Proof.
  intros ats acc Hok Hnd Hacc.
  destruct (entries_roundtrip (map pair_of_attr ats) acc) as (l & Hl1 & Hl2).
  - clear Hnd. induction ats as [|a ats IH]; constructor.
    + cbn [forallb] in Hok. apply andb_true_iff in Hok. destruct Hok as [Ha _].
      destruct (attr_ok_parts a Ha) as (Hn & _ & Hv & _). cbn [pair_of_attr fst snd].
      split; [exact Hn|]. apply (value_roundtrip _ _ Hv).
    + cbn [forallb] in Hok. apply andb_true_iff in Hok. apply IH. apply Hok.
  - rewrite map_map. exact Hnd.
  - clear Hnd. induction ats as [|a ats IH]; constructor.
    + cbn [forallb] in Hok. apply andb_true_iff in Hok. destruct Hok as [Ha _].
      destruct (attr_ok_parts a Ha) as (_ & Hn & _). cbn [pair_of_attr fst].
      clear - Hn Hacc. induction acc as [|q acc IHacc]; [reflexivity|].
      cbn [map list_existsb_eq]. rewrite (Hacc q (or_introl eq_refl)), Hn.
      apply IHacc. intros p Hp. apply Hacc. right. exact Hp.
    + cbn [forallb] in Hok. apply andb_true_iff in Hok. apply IH. apply Hok.
  - rewrite mapM_map in Hl1. exists l. split; [exact Hl1|]. split; [exact Hl2|].
    intros ->. rewrite mapM_nil in Hl1. inversion Hl1. reflexivity.
Qed.

Lemma own_data_roundtrip i : info_ok i = true ->
  exists l kv, mapM (fun a => attr_entry (a_name a) (a_default a)) (f_attrs i) = Ok l
    /\ ur_kv (match abs_part i ++ l with [] => None | all => Some all end) = Ok kv
    /\ ur_attrs kv = f_attrs i
    /\ ur_info (uvl_safename (f_name i)) (f_type i) (f_cmin i) (f_cmax i) kv = i.
Proof.
  unfold info_ok. intros H.
  apply andb_true_iff in H. destruct H as [H Hnd].
  apply andb_true_iff in H. destruct H as [H Hats].
  apply andb_true_iff in H. destruct H as [Hname Habs].
  destruct i as [nm ab ty cmin cmax ats]. cbn [f_name f_abstract f_type f_cmin f_cmax f_attrs] in *.
  destruct ab as [|b| | | | |]; try discriminate. clear Habs.
  destruct (attrs_pairs ats Hats) as [Hex Hfil].
  unfold abs_part, ur_info. cbn [f_abstract aval_truthy]. rewrite (strip_safename _ Hname).
  destruct b.
  - destruct (attrs_entries ats [("abstract", VNone)] Hats Hnd) as (l & Hl1 & Hl2 & _).
    { intros p [<-|[]]. reflexivity. }
    exists l, ([("abstract", VNone)] ++ map pair_of_attr ats). split; [exact Hl1|].
    split; [|split].
    + cbn [app ur_kv]. rewrite value_aval_attrs. cbn [va_go].
      change (dict_set [] (strip_quotes "abstract") VNone) with [("abstract", VNone)].
      rewrite Hl2. reflexivity.
    + cbn [app]. unfold ur_attrs in *. cbn [filter abs_entry fst snd String.eqb Ascii.eqb Bool.eqb andb negb].
      exact Hfil.
    + cbn [app existsb]. f_equal. unfold ur_attrs in *.
      cbn [filter abs_entry fst snd String.eqb Ascii.eqb Bool.eqb andb negb]. exact Hfil.
  - destruct (attrs_entries ats [] Hats Hnd) as (l & Hl1 & Hl2 & Hl3).
    { intros p []. }
    exists l, (map pair_of_attr ats). split; [exact Hl1|].
    split; [|split].
    + cbn [app]. destruct l as [|u l].
      * cbn [va_go app] in Hl2. injection Hl2 as <-. reflexivity.
      * cbn [ur_kv]. rewrite value_aval_attrs, Hl2. reflexivity.
    + exact Hfil.
    + rewrite Hex, Hfil. reflexivity.
Qed.

(* ------------------------------------------------------------------ C01: the feature tree *)
Definition FRT (c : feature) : Prop :=
  exists u, feature_cst c = Ok u /\ forall here p, uvl_read_feature here p u = Ok (annotate here p c).

Lemma children_roundtrip : forall cs, Forall FRT cs ->
  exists cs', mapM feature_cst cs = Ok cs'
    /\ (forall here k j, ur_goc here false k j cs' = Ok (an_goc here k j cs))
    /\ (List.length cs = 1%nat -> forall here k, ur_goc here true k 0%nat cs' = Ok (an_goc here k 0%nat cs)).
Proof.
  induction 1 as [|c cs (u & Hu1 & Hu2) _ (cs' & Hc1 & Hc2 & _)].
  - exists []. split; [reflexivity|]. split; [reflexivity|]. discriminate.
  - exists (u :: cs'). rewrite mapM_cons, Hu1, Hc1. split; [reflexivity|]. split.
    + intros here k j. rewrite ur_goc_cons, Hu2, Hc2, an_goc_cons. reflexivity.
    + intros Hlen here k. destruct cs as [|c2 cs]; [|discriminate].
      rewrite mapM_nil in Hc1. injection Hc1 as <-.
      rewrite ur_goc_cons, Hu2, Nat.add_0_r, ur_goc_nil, an_goc_cons. reflexivity.
Qed.

Definition rel_ok (r : relation) : bool :=
  match r with Relation _ _ cs => negb (Nat.eqb (List.length cs) 0) && forallb feature_ok cs end.
Lemma feature_ok_eq i rs : feature_ok (Feature i rs) = info_ok i && forallb rel_ok rs.
Proof. reflexivity. Qed.

Definition RRT (r : relation) : Prop :=
  exists g, rel_cst r = Ok g /\
    forall here k rest, ur_go here k (g :: rest) =
      match ur_go here (S k) rest with
      | Err e => Err e
      | Ok prs => Ok (PRelation (PPath here) (r_min r) (r_max r) (an_goc here k 0%nat (r_children r)) :: prs)
      end.

Lemma single_child {A} (l : list A) : Z.of_nat (List.length l) = 1%Z -> exists x, l = [x].
Proof.
  destruct l as [|x [|y l]]; cbn [List.length]; intros H; try lia. exists x. reflexivity.
Qed.

Lemma rel_roundtrip a b cs : Forall FRT cs -> RRT (Relation a b cs).
Proof.
  intros Hcs. destruct (children_roundtrip cs Hcs) as (cs' & Hc1 & Hc2 & Hc3).
  unfold RRT. cbn [rel_cst r_min r_max r_children]. rewrite Hc1. eexists. split; [reflexivity|].
  intros here k rest. rewrite ur_go_cons. unfold group_kind.
  unfold rel_is_alternative, rel_is_mandatory, rel_is_optional, rel_is_or, nchildren.
  cbn [r_min r_max r_children].
  destruct (Z.eqb_spec a 1) as [Ha1|Ha1].
  - (* min = 1 *)
    destruct (Z.eqb_spec b 1) as [Hb1|Hb1].
    + cbn [andb]. destruct (1 <? Z.of_nat (List.length cs))%Z eqn:Hn.
      * (* alternative *) cbn [per_child]. rewrite Hc2. subst. reflexivity.
      * destruct (Z.eqb_spec (Z.of_nat (List.length cs)) 1) as [Hn1|Hn1].
        -- (* mandatory *) cbn [per_child]. destruct (single_child cs Hn1) as (c & ->).
           rewrite (Hc3 eq_refl). rewrite an_goc_cons. cbn [an_goc List.length map app].
           rewrite Nat.add_1_r. subst. reflexivity.
        -- cbn [andb]. destruct (Z.eqb_spec a 0) as [Ha0|Ha0]; [lia|]. cbn [andb].
           destruct (Z.eqb_spec b (Z.of_nat (List.length cs))) as [Hbn|Hbn]; [lia|]. cbn [andb].
           (* cardinality [1] with a wrong number of children *)
           destruct (Z.eqb_spec a b) as [Hab|Hab]; [|lia].
           rewrite Hc2, parse_card_single. subst. reflexivity.
    + cbn [andb]. destruct (Z.eqb_spec a 0) as [Ha0|Ha0]; [lia|]. cbn [andb].
      destruct (Z.eqb_spec b (Z.of_nat (List.length cs))) as [Hbn|Hbn].
      * cbn [andb]. destruct (1 <? Z.of_nat (List.length cs))%Z eqn:Hn.
        -- (* or *) cbn [per_child]. rewrite Hc2, an_goc_length. subst. reflexivity.
        -- destruct (Z.eqb_spec a b) as [Hab|Hab]; [lia|].
           cbn [per_child]. rewrite Hc2, parse_card_text. reflexivity.
      * cbn [andb]. destruct (Z.eqb_spec a b) as [Hab|Hab]; [lia|].
        cbn [per_child]. rewrite Hc2, parse_card_text. reflexivity.
  - cbn [andb]. destruct (Z.eqb_spec a 0) as [Ha0|Ha0].
    + destruct (Z.eqb_spec b 1) as [Hb1|Hb1].
      * cbn [andb]. destruct (Z.eqb_spec (Z.of_nat (List.length cs)) 1) as [Hn1|Hn1].
        -- (* optional *) cbn [per_child]. destruct (single_child cs Hn1) as (c & ->).
           rewrite (Hc3 eq_refl). rewrite an_goc_cons. cbn [an_goc List.length map app].
           rewrite Nat.add_1_r. subst. reflexivity.
        -- destruct (Z.eqb_spec a b) as [Hab|Hab]; [lia|].
           cbn [per_child]. rewrite Hc2, parse_card_text. reflexivity.
      * cbn [andb]. destruct (Z.eqb_spec a b) as [Hab|Hab].
        -- cbn [per_child]. rewrite Hc2, parse_card_single. subst. reflexivity.
        -- cbn [per_child]. rewrite Hc2, parse_card_text. reflexivity.
    + cbn [andb]. destruct (Z.eqb_spec a b) as [Hab|Hab].
      * cbn [per_child]. rewrite Hc2, parse_card_single. subst. reflexivity.
      * cbn [per_child]. rewrite Hc2, parse_card_text. reflexivity.
Qed.

Lemma rels_roundtrip : forall rs, Forall RRT rs ->
  exists gs, mapM rel_cst rs = Ok gs /\ forall here k, ur_go here k gs = Ok (an_go here k rs).
Proof.
  induction 1 as [|r rs (g & Hg1 & Hg2) _ (gs & Hgs1 & Hgs2)].
  - exists []. split; reflexivity.
  - exists (g :: gs). rewrite mapM_cons, Hg1, Hgs1. split; [reflexivity|].
    intros here k. rewrite Hg2, Hgs2. destruct r as [a b cs]. rewrite an_go_cons. reflexivity.
Qed.

Lemma read_ftype_roundtrip t :
  read_ftype (if ftype_eqb t TBoolean then None else Some (ftype_value t)) = Ok t.
Proof. destruct t; reflexivity. Qed.

Lemma ur_card_roundtrip a b :
  ur_card (if negb (a =? 1)%Z || negb (b =? 1)%Z then Some (card_text a b) else None) = Ok (a, b).
Proof.
  destruct (Z.eqb_spec a 1) as [->|Ha]; destruct (Z.eqb_spec b 1) as [->|Hb]; cbn [negb orb ur_card];
    try apply parse_card_text. reflexivity.
Qed.

Lemma feature_roundtrip : forall f, feature_ok f = true -> FRT f.
Proof.
  apply (feature_ind2 (fun f => feature_ok f = true -> FRT f)
                      (fun r => rel_ok r = true -> RRT r)).
  - intros i rs IH Hok. rewrite feature_ok_eq in Hok. apply andb_true_iff in Hok.
    destruct Hok as [Hi Hrs].
    assert (Hall : Forall RRT rs).
    { induction IH as [|r rs Hr _ IHrs]; constructor.
      - cbn [forallb] in Hrs. apply andb_true_iff in Hrs. apply Hr. apply Hrs.
      - cbn [forallb] in Hrs. apply andb_true_iff in Hrs. apply IHrs. apply Hrs. }
    destruct (rels_roundtrip rs Hall) as (gs & Hgs1 & Hgs2).
    destruct (own_data_roundtrip i Hi) as (l & kv & Hl & Hkv & Hattrs & Hinfo).
    unfold FRT. rewrite feature_cst_eq, Hl, Hgs1. eexists. split; [reflexivity|].
    intros here p. rewrite uvl_read_feature_eq, ur_card_roundtrip, read_ftype_roundtrip, Hkv, Hgs2.
    rewrite Hattrs, Hinfo, annotate_eq. reflexivity.
  - intros a b cs IH Hok. cbn [rel_ok] in Hok. apply andb_true_iff in Hok. destruct Hok as [_ Hcs].
    apply rel_roundtrip.
    induction IH as [|c cs Hc _ IHcs]; constructor.
    + cbn [forallb] in Hcs. apply andb_true_iff in Hcs. apply Hc. apply Hcs.
    + cbn [forallb] in Hcs. apply andb_true_iff in Hcs. apply IHcs. apply Hcs.
Qed.

(* ------------------------------------------------------------------ C01: constraints *)
Definition nc_operand (c : option node) : result ucst :=
  match c with
  | None => Err AttributeError
  | Some x => match node_cst x with
              | Err e => Err e
              | Ok cx => Ok (if is_compound x then KParen cx else cx)
              end
  end.
Definition nc_arg (c : option node) : result (list string) :=
  match c with
  | None => Ok []
  | Some (Node (DStr s) _ _) => Ok [if starts_with_char "'" s then s else uvl_safename s]
  | Some _ => Err OtherExn
  end.
Definition nc_bin (o : astop) (l r : option node) : result ucst :=
  match nc_operand l with Err e => Err e | Ok cl =>
  match nc_operand r with Err e => Err e | Ok cr =>
    match o with
    | EXCLUDES => Ok (KBin IMPLIES cl (KNot cr))
    | REQUIRES => Ok (KBin IMPLIES cl cr)
    | _ => Ok (KBin o cl cr)
    end
  end end.
Definition nc_aggr (ag : aggr) (l r : option node) : result ucst :=
  match nc_arg l with Err e => Err e | Ok a1 =>
  match nc_arg r with Err e => Err e | Ok a2 => Ok (KAggr ag (a1 ++ a2)) end end.
Definition nc_op (o : astop) (l r : option node) : result ucst :=
  match o with
  | XOR => Err FlamaException
  | NOT => match nc_operand l with Err e => Err e | Ok c => Ok (KNot c) end
  | _ => match aggr_of o with
         | Some ag => nc_aggr ag l r
         | None => nc_bin o l r
         end
  end.

Lemma node_cst_op o l r : node_cst (Node (DOp o) l r) = nc_op o l r.
Proof. destruct o; reflexivity. Qed.

Lemma read_operand x c n : node_cst x = Ok c -> uvl_read_ctc c = Ok n ->
  exists c', nc_operand (Some x) = Ok c' /\ uvl_read_ctc c' = Ok n.
Proof.
  intros H1 H2. cbn [nc_operand]. rewrite H1. eexists. split; [reflexivity|].
  destruct (is_compound x); exact H2.
Qed.

Lemma term_ok_read s : term_ok s = true ->
  uvl_read_ctc (if starts_with_char "'" s then KStr s else KLiteral (uvl_safename s)) = Ok (term s).
Proof.
  unfold term_ok. intros H. destruct (starts_with_char "'" s) eqn:Hq; [reflexivity|].
  rewrite orb_false_r in H. cbn [uvl_read_ctc]. rewrite (strip_quotes_safename_q _ H). reflexivity.
Qed.

Lemma is_ref_inv a : is_ref a = true -> exists s, a = Node (DStr s) None None /\ qname_ok s = true.
Proof.
  destruct a as [[o|s|z|r|b] [l|] [r'|]]; cbn [is_ref]; try discriminate.
  intros H. exists s. split; [reflexivity|exact H].
Qed.

Lemma is_ref_arg a : is_ref a = true -> exists s, a = term s /\ qname_ok s = true
  /\ nc_arg (Some a) = Ok [uvl_safename s].
Proof.
  intros H. destruct (is_ref_inv a H) as (s & -> & Hs). exists s. split; [reflexivity|].
  split; [exact Hs|]. cbn [nc_arg]. rewrite (qname_ok_not_literal s Hs). reflexivity.
Qed.

Definition CRT (n : node) : Prop :=
  exists c, node_cst n = Ok c /\ uvl_read_ctc c = Ok (uvl_norm_node n).

Lemma uvl_norm_node_op o l r :
  uvl_norm_node (Node (DOp o) l r) =
  let l' := match l with Some a => Some (uvl_norm_node a) | None => None end in
  let r' := match r with Some b => Some (uvl_norm_node b) | None => None end in
  match o with
  | REQUIRES => Node (DOp IMPLIES) l' r'
  | EXCLUDES => match r' with
                | Some b => Node (DOp IMPLIES) l' (Some (un NOT b))
                | None => Node (DOp EXCLUDES) l' None
                end
  | _ => Node (DOp o) l' r'
  end.
Proof. reflexivity. Qed.

Lemma ctc_roundtrip : forall n, ctc_ok n = true -> CRT n.
Proof.
  apply (node_ind2 (fun n => ctc_ok n = true -> CRT n)).
  - (* terms *)
    intros d Hok. destruct d as [o|s|z|r|b]; cbn [ctc_ok] in Hok; try discriminate.
    + exists (if starts_with_char "'" s then KStr s else KLiteral (uvl_safename s)).
      split; [reflexivity|]. apply (term_ok_read _ Hok).
    + exists (KInt (z_to_string z)). split; [reflexivity|].
      cbn [uvl_read_ctc]. rewrite to_int_z_to_string. reflexivity.
    + unfold CRT. cbn [node_cst]. unfold float_ok in Hok.
      destruct (float_text r) as [t|]; [|discriminate]. eexists. split; reflexivity.
  - (* left operand only *)
    intros d a IHa Hok. destruct d as [o|s|z|r|b]; cbn [ctc_ok] in Hok; try discriminate.
    unfold CRT. rewrite node_cst_op, uvl_norm_node_op.
    destruct (astop_eqb o NOT) eqn:Ho.
    + destruct o; try discriminate. destruct (IHa Hok) as (c & Hc1 & Hc2).
      destruct (read_operand _ _ _ Hc1 Hc2) as (c' & Hc1' & Hc2').
      cbn [nc_op]. rewrite Hc1'. eexists. split; [reflexivity|].
      cbn [uvl_read_ctc]. rewrite Hc2'. reflexivity.
    + apply andb_true_iff in Hok. destruct Hok as [Hagg Href].
      destruct (is_ref_arg a Href) as (s & -> & Hs & Harg).
      destruct o; try discriminate; cbn [nc_op aggr_of]; unfold nc_aggr; rewrite Harg;
        (eexists; split; [reflexivity|]); cbn [nc_arg app uvl_read_ctc astop_of_aggr];
        rewrite (strip_quotes_safename_q _ Hs); reflexivity.
  - (* right operand only *)
    intros d b _ Hok. destruct d; discriminate.
  - (* both operands *)
    intros d a b IHa IHb Hok. destruct d as [o|s|z|r|b0]; cbn [ctc_ok] in Hok; try discriminate.
    unfold CRT. rewrite node_cst_op, uvl_norm_node_op.
    destruct (op_in o [SUM; AVG]) eqn:Hsa.
    + apply andb_true_iff in Hok. destruct Hok as [Ha Hb].
      destruct (is_ref_arg a Ha) as (s & -> & Hs & Harg).
      destruct (is_ref_arg b Hb) as (s2 & -> & Hs2 & Harg2).
      destruct o; try discriminate; cbn [nc_op aggr_of]; unfold nc_aggr; rewrite Harg, Harg2;
        (eexists; split; [reflexivity|]); cbn [app uvl_read_ctc astop_of_aggr];
        rewrite (strip_quotes_safename_q _ Hs), (strip_quotes_safename_q _ Hs2); reflexivity.
    + apply andb_true_iff in Hok. destruct Hok as [Hok Hb].
      apply andb_true_iff in Hok. destruct Hok as [Hop Ha].
      destruct (IHa Ha) as (ca & Ha1 & Ha2). destruct (read_operand _ _ _ Ha1 Ha2) as (ca' & Ha1' & Ha2').
      destruct (IHb Hb) as (cb & Hb1 & Hb2). destruct (read_operand _ _ _ Hb1 Hb2) as (cb' & Hb1' & Hb2').
      destruct o; try discriminate; cbn [nc_op aggr_of]; unfold nc_bin; rewrite Ha1', Hb1';
        (eexists; split; [reflexivity|]); cbn [uvl_read_ctc]; rewrite Ha2', Hb2'; reflexivity.
Qed.

Lemma uvl_read_cst_eq d :
  uvl_read_cst d =
  match d_root d with
  | None => Err FlamaException
  | Some rf =>
      match uvl_read_feature [] PNone rf with Err e => Err e | Ok pr =>
      match mapM uvl_read_ctc (match d_ctcs d with Some l => l | None => [] end) with Err e => Err e | Ok ns =>
        Ok {| proot := pr; pctcs := name_ctcs 0%Z ns |}
      end end
  end.
Proof. reflexivity. Qed.

Lemma ctcs_roundtrip : forall cs, forallb (fun c => ctc_ok (c_ast c)) cs = true ->
  exists l, mapM (fun c => node_cst (c_ast c)) cs = Ok l
    /\ mapM uvl_read_ctc l = Ok (map (fun c => uvl_norm_node (c_ast c)) cs)
    /\ (l = [] -> cs = []).
Proof.
  induction cs as [|c cs IH]; intros H.
  - exists []. repeat split; reflexivity.
  - cbn [forallb] in H. apply andb_true_iff in H. destruct H as [Hc H].
    destruct (IH H) as (l & Hl1 & Hl2 & _). destruct (ctc_roundtrip _ Hc) as (u & Hu1 & Hu2).
    exists (u :: l). rewrite !mapM_cons, Hu1, Hl1, Hu2, Hl2. repeat split. discriminate.
Qed.

(* C01, on the syntax tree *)
Theorem uvl_roundtrip_cst : forall m, uvl_ok m = true ->
  exists d, cst_of_fm m = Ok d /\ uvl_read_cst d = Ok (annotate_fm (uvl_norm m)).
Proof.
  intros m H. unfold uvl_ok in H. apply andb_true_iff in H. destruct H as [Hf Hc].
  destruct (feature_roundtrip _ Hf) as (u & Hu1 & Hu2).
  destruct (ctcs_roundtrip _ Hc) as (l & Hl1 & Hl2 & Hl3).
  unfold cst_of_fm. rewrite Hu1, Hl1. eexists. split; [reflexivity|].
  rewrite uvl_read_cst_eq. cbn [d_root d_ctcs]. rewrite Hu2.
  unfold annotate_fm, uvl_norm. cbn [root ctcs].
  destruct l as [|u0 l].
  - rewrite (Hl3 eq_refl). reflexivity.
  - rewrite Hl2. reflexivity.
Qed.

(* ------------------------------------------------------------------ the normal form *)
Theorem uvl_norm_tree : forall m, root (uvl_norm m) = root m.
Proof. reflexivity. Qed.

Lemma uvl_norm_node_sem σ : forall n, eval σ (uvl_norm_node n) = eval σ n.
Proof.
  apply (node_ind2 (fun n => eval σ (uvl_norm_node n) = eval σ n)).
  - intros d. destruct d as [o| | | |]; try reflexivity. destruct o; reflexivity.
  - intros d a IHa. destruct d as [o| | | |]; try reflexivity.
    rewrite uvl_norm_node_op. destruct o; cbn [eval]; try rewrite IHa; reflexivity.
  - intros d b IHb. destruct d as [o| | | |]; try reflexivity.
    rewrite uvl_norm_node_op. destruct o; reflexivity.
  - intros d a b IHa IHb. destruct d as [o| | | |]; try reflexivity.
    rewrite uvl_norm_node_op. destruct o; cbn [eval un]; rewrite ?IHa, ?IHb; try reflexivity.
    destruct (eval σ a) as [x|]; [|reflexivity]. destruct (eval σ b) as [y|]; [|reflexivity].
    destruct x, y; reflexivity.
Qed.

Lemma name_ctcs_asts : forall ns i, map c_ast (name_ctcs i ns) = ns.
Proof. induction ns as [|n ns IH]; intros i; [reflexivity|]. cbn [name_ctcs map c_ast]. rewrite IH. reflexivity. Qed.

Theorem uvl_norm_sem : forall m σ,
  map (fun c => eval σ (c_ast c)) (ctcs (uvl_norm m)) = map (fun c => eval σ (c_ast c)) (ctcs m).
Proof.
  intros m σ. unfold uvl_norm. cbn [ctcs].
  rewrite <- (map_map c_ast (eval σ)), name_ctcs_asts, map_map.
  apply map_ext. intros c. apply uvl_norm_node_sem.
Qed.

Lemma is_ref_norm a : is_ref a = true -> uvl_norm_node a = a.
Proof. intros H. destruct (is_ref_inv a H) as (s & -> & _). reflexivity. Qed.

Lemma uvl_norm_node_ok : forall n, ctc_ok n = true -> ctc_ok (uvl_norm_node n) = true.
Proof.
  apply (node_ind2 (fun n => ctc_ok n = true -> ctc_ok (uvl_norm_node n) = true)).
  - intros d H. destruct d as [o| | | |]; try exact H. discriminate.
  - intros d a IHa H. destruct d as [o| | | |]; try discriminate. rewrite uvl_norm_node_op.
    cbn [ctc_ok] in H. destruct (astop_eqb o NOT) eqn:Ho.
    + destruct o; try discriminate. cbn [ctc_ok astop_eqb]. apply IHa. exact H.
    + apply andb_true_iff in H. destruct H as [Hagg Href]. rewrite (is_ref_norm _ Href).
      destruct o; try discriminate; cbn [ctc_ok astop_eqb]; rewrite Href; reflexivity.
  - intros d b _ H. destruct d; discriminate.
  - intros d a b IHa IHb H. destruct d as [o| | | |]; try discriminate. rewrite uvl_norm_node_op.
    cbn [ctc_ok] in H. destruct (op_in o [SUM; AVG]) eqn:Hsa.
    + apply andb_true_iff in H. destruct H as [Ha Hb].
      rewrite (is_ref_norm _ Ha), (is_ref_norm _ Hb).
      destruct o; try discriminate; cbn [ctc_ok]; rewrite Ha, Hb; reflexivity.
    + apply andb_true_iff in H. destruct H as [H Hb]. apply andb_true_iff in H. destruct H as [Hop Ha].
      specialize (IHa Ha). specialize (IHb Hb).
      destruct o; try discriminate; cbn [ctc_ok un astop_eqb]; rewrite IHa, IHb; reflexivity.
Qed.

Lemma forallb_name_ctcs (p : node -> bool) : forall ns i,
  forallb (fun c => p (c_ast c)) (name_ctcs i ns) = forallb p ns.
Proof. induction ns as [|n ns IH]; intros i; [reflexivity|]. cbn [name_ctcs forallb c_ast]. rewrite IH. reflexivity. Qed.

Theorem uvl_norm_ok : forall m, uvl_ok m = true -> uvl_ok (uvl_norm m) = true.
Proof.
  intros m H. unfold uvl_ok in *. apply andb_true_iff in H. destruct H as [Hf Hc].
  cbn [uvl_norm root ctcs]. rewrite Hf, forallb_name_ctcs. cbn [andb].
  clear Hf. induction (ctcs m) as [|c cs IH]; [reflexivity|].
  cbn [forallb] in Hc. apply andb_true_iff in Hc. destruct Hc as [Hc Hcs].
  cbn [map forallb]. rewrite (uvl_norm_node_ok _ Hc), (IH Hcs). reflexivity.
Qed.

Lemma uvl_norm_node_idem : forall n, uvl_norm_node (uvl_norm_node n) = uvl_norm_node n.
Proof.
  apply (node_ind2 (fun n => uvl_norm_node (uvl_norm_node n) = uvl_norm_node n)).
  - intros d. destruct d as [o| | | |]; try reflexivity. destruct o; reflexivity.
  - intros d a IHa. destruct d as [o| | | |]; try reflexivity.
    rewrite uvl_norm_node_op. destruct o; cbv beta iota zeta; rewrite uvl_norm_node_op; cbv beta iota zeta; rewrite IHa; reflexivity.
  - intros d b IHb. destruct d as [o| | | |]; try reflexivity.
    rewrite uvl_norm_node_op. destruct o; cbv beta iota zeta; rewrite uvl_norm_node_op; cbv beta iota zeta; rewrite ?IHb; try reflexivity.
    unfold un. rewrite uvl_norm_node_op. cbv beta iota zeta. rewrite IHb. reflexivity.
  - intros d a b IHa IHb. destruct d as [o| | | |]; try reflexivity.
    rewrite uvl_norm_node_op. destruct o; cbv beta iota zeta; rewrite uvl_norm_node_op; cbv beta iota zeta; rewrite ?IHa, ?IHb; try reflexivity.
    unfold un. rewrite uvl_norm_node_op. cbv beta iota zeta. rewrite IHb. reflexivity.
Qed.

Theorem uvl_norm_idempotent : forall m, uvl_norm (uvl_norm m) = uvl_norm m.
Proof.
  intros m. unfold uvl_norm. cbn [root ctcs]. f_equal. f_equal.
  rewrite <- (map_map c_ast uvl_norm_node), name_ctcs_asts, map_map.
  apply map_ext. intros c. apply uvl_norm_node_idem.
Qed.

(* the normal form is written exactly like the original (even the syntax tree is the same) *)
Lemma is_compound_norm n : is_compound (uvl_norm_node n) = is_compound n.
Proof.
  destruct n as [d l r]. destruct d as [o| | | |]; try reflexivity.
  rewrite uvl_norm_node_op. cbv beta iota zeta.
  destruct o; try reflexivity. destruct r; reflexivity.
Qed.

Definition onorm (c : option node) : option node :=
  match c with Some a => Some (uvl_norm_node a) | None => None end.

Lemma nc_arg_norm c : nc_arg (onorm c) = nc_arg c.
Proof.
  destruct c as [[d l r]|]; [|reflexivity]. destruct d as [o| | | |]; try reflexivity.
  cbn [onorm]. rewrite uvl_norm_node_op. cbv beta iota zeta.
  destruct o; try reflexivity. destruct r; reflexivity.
Qed.

Lemma nc_operand_norm c :
  (forall a, c = Some a -> node_cst (uvl_norm_node a) = node_cst a) ->
  nc_operand (onorm c) = nc_operand c.
Proof.
  intros H. destruct c as [a|]; [|reflexivity]. cbn [onorm nc_operand].
  rewrite (H a eq_refl), is_compound_norm. reflexivity.
Qed.

Lemma node_cst_norm : forall n, node_cst (uvl_norm_node n) = node_cst n.
Proof.
  assert (G : forall o l r,
             (forall a, l = Some a -> node_cst (uvl_norm_node a) = node_cst a) ->
             (forall b, r = Some b -> node_cst (uvl_norm_node b) = node_cst b) ->
             node_cst (uvl_norm_node (Node (DOp o) l r)) = node_cst (Node (DOp o) l r)).
  { intros o l r Hl Hr. rewrite uvl_norm_node_op. cbv beta iota zeta.
    fold (onorm l). fold (onorm r).
    pose proof (nc_operand_norm l Hl) as El. pose proof (nc_operand_norm r Hr) as Er.
    pose proof (nc_arg_norm l) as Al. pose proof (nc_arg_norm r) as Ar.
    destruct o; try (rewrite !node_cst_op; cbn [nc_op aggr_of]; unfold nc_bin, nc_aggr;
                     rewrite ?El, ?Er, ?Al, ?Ar; reflexivity).
    (* EXCLUDES *)
    destruct r as [b|].
    - cbn [onorm] in *. rewrite !node_cst_op. cbn [nc_op aggr_of]. unfold nc_bin. rewrite El.
      destruct (nc_operand l) as [cl|e]; [|reflexivity].
      cbn [nc_operand] in Er |- *. unfold un. rewrite node_cst_op. cbn [nc_op nc_operand is_compound n_data astop_eqb negb andb].
      destruct (node_cst (uvl_norm_node b)) as [x|e]; destruct (node_cst b) as [y|e']; try discriminate.
      + injection Er as Er. rewrite Er. reflexivity.
      + exact Er.
    - cbn [onorm] in *. rewrite !node_cst_op. cbn [nc_op aggr_of]. unfold nc_bin. rewrite El. reflexivity. }
  apply (node_ind2 (fun n => node_cst (uvl_norm_node n) = node_cst n)).
  - intros d. destruct d as [o| | | |]; try reflexivity. apply G; discriminate.
  - intros d a IHa. destruct d as [o| | | |]; try reflexivity.
    apply G; [|discriminate]. intros a' E. injection E as <-. exact IHa.
  - intros d b IHb. destruct d as [o| | | |]; try reflexivity.
    apply G; [discriminate|]. intros b' E. injection E as <-. exact IHb.
  - intros d a b IHa IHb. destruct d as [o| | | |]; try reflexivity.
    apply G; intros x E; injection E as <-; assumption.
Qed.

Lemma cst_of_fm_norm m : cst_of_fm (uvl_norm m) = cst_of_fm m.
Proof.
  unfold cst_of_fm, uvl_norm. cbn [root ctcs].
  assert (E : forall ns i, mapM (fun c => node_cst (c_ast c)) (name_ctcs i (map (fun c => uvl_norm_node (c_ast c)) ns))
                         = mapM (fun c => node_cst (c_ast c)) ns).
  { induction ns as [|n ns IH]; intros i; [reflexivity|].
    cbn [map name_ctcs]. rewrite !mapM_cons, IH. cbn [c_ast]. rewrite node_cst_norm. reflexivity. }
  rewrite E. reflexivity.
Qed.

(* byte-identical text at every later cycle *)
Theorem uvl_write_norm : forall m, uvl_ok m = true -> uvl_write (uvl_norm m) = uvl_write m.
Proof. intros m _. unfold uvl_write. rewrite cst_of_fm_norm. reflexivity. Qed.

(* ------------------------------------------------------------------ C01 with the external parser *)
Section Parser.
  Variable antlr : string -> option udoc.
  Hypothesis antlr_render : forall m d, uvl_ok m = true -> cst_of_fm m = Ok d -> antlr (render d) = Some d.

  Definition uvl_read (text : string) : result pfm :=
    match antlr text with Some d => uvl_read_cst d | None => Err FlamaException end.

  Theorem uvl_roundtrip : forall m, uvl_ok m = true ->
    exists t pm, uvl_write m = Ok t /\ uvl_read t = Ok pm /\ erase_fm pm = uvl_norm m.
  Proof.
    intros m H. destruct (uvl_roundtrip_cst m H) as (d & Hd1 & Hd2).
    exists (render d), (annotate_fm (uvl_norm m)). unfold uvl_write, uvl_read.
    rewrite Hd1, (antlr_render m d H Hd1). split; [reflexivity|]. split; [exact Hd2|].
    unfold erase_fm, annotate_fm. cbn [proot pctcs]. rewrite erase_annotate.
    destruct (uvl_norm m). reflexivity.
  Qed.

  Theorem uvl_cycles : forall m, uvl_ok m = true ->
    exists t pm, uvl_write (uvl_norm m) = Ok t /\ uvl_write m = Ok t /\ uvl_read t = Ok pm
                 /\ erase_fm pm = uvl_norm m.
  Proof.
    intros m H. destruct (uvl_roundtrip m H) as (t & pm & H1 & H2 & H3).
    exists t, pm. rewrite (uvl_write_norm m H). repeat split; assumption.
  Qed.

  Theorem uvl_syntax_error : forall text, antlr text = None -> uvl_read text = Err FlamaException.
  Proof. intros text H. unfold uvl_read. rewrite H. reflexivity. Qed.
End Parser.

(* ------------------------------------------------------------------ C02: every accepted parse tree *)
Lemma ufeature_ind2 (P : ufeature -> Prop) :
  (forall ty ref fc at_ gs,
      Forall (fun g => match g with UGroup _ cs => Forall P cs end) gs -> P (UFeature ty ref fc at_ gs)) ->
  forall f, P f.
Proof.
  intros H. fix IH 1. intros [ty ref fc at_ gs]. apply H.
  revert gs. fix IHg 1. intros [|[k cs] gs]; constructor; [|apply IHg].
  revert cs. fix IHc 1. intros [|c cs]; constructor; [apply IH|apply IHc].
Qed.

Definition UWF (u : ufeature) : Prop :=
  forall here parent pf, uvl_read_feature here parent u = Ok pf -> ptr_wf_at here parent pf = true.

Lemma ur_goc_false_wf here k : forall cs, Forall UWF cs ->
  forall j kids, ur_goc here false k j cs = Ok kids -> wf_goc here k j kids = true.
Proof.
  induction 1 as [|c cs Hc _ IH]; intros j kids H.
  - rewrite ur_goc_nil in H. injection H as <-. reflexivity.
  - rewrite ur_goc_cons in H.
    destruct (uvl_read_feature (here ++ [(k, j)]) (PPath here) c) as [x|e] eqn:Hx; [|discriminate].
    destruct (ur_goc here false k (S j) cs) as [pcs|e] eqn:Hpcs; [|discriminate].
    injection H as <-. rewrite wf_goc_cons, (Hc _ _ _ Hx), (IH _ _ Hpcs). reflexivity.
Qed.

Lemma ur_goc_length here pc k : forall cs j kids,
  ur_goc here pc k j cs = Ok kids -> List.length kids = List.length cs.
Proof.
  induction cs as [|c cs IH]; intros j kids H.
  - rewrite ur_goc_nil in H. injection H as <-. reflexivity.
  - rewrite ur_goc_cons in H.
    destruct (uvl_read_feature _ (PPath here) c) as [x|e]; [|discriminate].
    destruct (ur_goc here pc k (S j) cs) as [pcs|e] eqn:Hpcs; [|discriminate].
    injection H as <-. cbn [List.length]. rewrite (IH _ _ Hpcs). reflexivity.
Qed.

Lemma ur_goc_true_wf here k mn : forall cs, Forall UWF cs ->
  forall j kids prs, ur_goc here true k j cs = Ok kids ->
    wf_go here (k + j + List.length kids) prs = true ->
    wf_go here (k + j) (map (mk_single here mn) kids ++ prs) = true.
Proof.
  induction 1 as [|c cs Hc _ IH]; intros j kids prs H Hprs.
  - rewrite ur_goc_nil in H. injection H as <-. cbn [List.length map app] in *.
    rewrite Nat.add_0_r in Hprs. exact Hprs.
  - rewrite ur_goc_cons in H.
    destruct (uvl_read_feature (here ++ [((k + j)%nat, 0%nat)]) (PPath here) c) as [x|e] eqn:Hx; [|discriminate].
    destruct (ur_goc here true k (S j) cs) as [pcs|e] eqn:Hpcs; [|discriminate].
    injection H as <-. cbn [map app]. unfold mk_single at 1.
    rewrite wf_go_cons, ptr_eqb_refl, wf_goc_cons, (Hc _ _ _ Hx). cbn [wf_goc andb].
    rewrite <- Nat.add_succ_r. apply (IH _ _ _ Hpcs).
    cbn [List.length] in Hprs. rewrite Nat.add_succ_r, <- Nat.add_succ_l in Hprs.
    rewrite <- Nat.add_succ_r in Hprs. exact Hprs.
Qed.

Lemma ur_go_wf here : forall gs,
  Forall (fun g => match g with UGroup _ cs => Forall UWF cs end) gs ->
  forall k prs, ur_go here k gs = Ok prs -> wf_go here k prs = true.
Proof.
  induction 1 as [|[kind cs] gs Hg _ IH]; intros k prs H.
  - rewrite ur_go_nil in H. injection H as <-. reflexivity.
  - rewrite ur_go_cons in H.
    destruct (ur_goc here (per_child kind) k 0%nat cs) as [kids|e] eqn:Hkids; [|discriminate].
    destruct kind as [| | | |text]; cbn [per_child] in Hkids.
    + destruct (ur_go here (S k) gs) as [prs'|e] eqn:Hprs; [|discriminate]. injection H as <-.
      rewrite wf_go_cons, ptr_eqb_refl, (ur_goc_false_wf _ _ _ Hg _ _ Hkids), (IH _ _ Hprs). reflexivity.
    + destruct (ur_go here (S k) gs) as [prs'|e] eqn:Hprs; [|discriminate]. injection H as <-.
      rewrite wf_go_cons, ptr_eqb_refl, (ur_goc_false_wf _ _ _ Hg _ _ Hkids), (IH _ _ Hprs). reflexivity.
    + destruct (ur_go here (k + List.length kids) gs) as [prs'|e] eqn:Hprs; [|discriminate]. injection H as <-.
      rewrite <- (Nat.add_0_r k) at 1. apply (ur_goc_true_wf _ _ _ _ Hg _ _ _ Hkids).
      rewrite Nat.add_0_r. apply (IH _ _ Hprs).
    + destruct (ur_go here (k + List.length kids) gs) as [prs'|e] eqn:Hprs; [|discriminate]. injection H as <-.
      rewrite <- (Nat.add_0_r k) at 1. apply (ur_goc_true_wf _ _ _ _ Hg _ _ _ Hkids).
      rewrite Nat.add_0_r. apply (IH _ _ Hprs).
    + destruct (parse_cardinality text) as [[a b]|e]; [|discriminate].
      destruct (ur_go here (S k) gs) as [prs'|e] eqn:Hprs; [|discriminate]. injection H as <-.
      rewrite wf_go_cons, ptr_eqb_refl, (ur_goc_false_wf _ _ _ Hg _ _ Hkids), (IH _ _ Hprs). reflexivity.
Qed.

Lemma uvl_read_feature_wf : forall u, UWF u.
Proof.
  apply (ufeature_ind2 UWF). intros ty ref fc at_ gs IH here parent pf H.
  rewrite uvl_read_feature_eq in H.
  destruct (ur_card fc) as [[cmin cmax]|e]; [|discriminate].
  destruct (read_ftype ty) as [fty|e]; [|discriminate].
  destruct (ur_kv at_) as [kv|e]; [|discriminate].
  destruct (ur_go here 0%nat gs) as [prs|e] eqn:Hprs; [|discriminate].
  injection H as <-. rewrite ptr_wf_at_eq.
  rewrite ptr_eqb_refl, forallb_ptr_map, map_length. unfold ur_info; cbn [f_attrs].
  rewrite Nat.eqb_refl, (ur_go_wf _ _ IH _ _ Hprs). reflexivity.
Qed.

Theorem uvl_read_ptr_wf : forall d pm, uvl_read_cst d = Ok pm -> ptr_wf pm = true.
Proof.
  intros d pm H. rewrite uvl_read_cst_eq in H.
  destruct (d_root d) as [rf|]; [|discriminate].
  destruct (uvl_read_feature [] PNone rf) as [pr|e] eqn:Hpr; [|discriminate].
  destruct (mapM uvl_read_ctc _) as [ns|e]; [|discriminate].
  injection H as <-. unfold ptr_wf. cbn [proot]. apply (uvl_read_feature_wf _ _ _ _ Hpr).
Qed.

(* ---- constraint shape.  [node_shape_ok'] is [node_shape_ok] except that an aggregate operator may
   have only its left operand. *)
Fixpoint node_shape_ok' (n : node) : bool :=
  match n with
  | Node (DOp o) l r =>
      if astop_eqb o NOT then
        match l, r with Some a, None => node_shape_ok' a | _, _ => false end
      else if op_in o [SUM; AVG; LEN; FLOOR; CEIL] then
        match l, r with
        | Some a, None => node_shape_ok' a
        | Some a, Some b => node_shape_ok' a && node_shape_ok' b
        | _, _ => false
        end
      else
        match l, r with Some a, Some b => node_shape_ok' a && node_shape_ok' b | _, _ => false end
  | Node _ None None => true
  | Node _ _ _ => false
  end.

Lemma node_shape_ok_weaken : forall n, node_shape_ok n = true -> node_shape_ok' n = true.
Proof.
  apply (node_ind2 (fun n => node_shape_ok n = true -> node_shape_ok' n = true)).
  - intros d H. destruct d; try reflexivity. cbn [node_shape_ok] in H. destruct (astop_eqb o NOT); discriminate.
  - intros d a IHa H. destruct d as [o| | | |]; try discriminate.
    cbn [node_shape_ok node_shape_ok'] in *. destruct (astop_eqb o NOT); [apply IHa; exact H|discriminate].
  - intros d b IHb H. destruct d as [o| | | |]; try discriminate.
    cbn [node_shape_ok] in H. destruct (astop_eqb o NOT); discriminate.
  - intros d a b IHa IHb H. destruct d as [o| | | |]; try discriminate.
    cbn [node_shape_ok node_shape_ok'] in *. destruct (astop_eqb o NOT); [discriminate|].
    apply andb_true_iff in H. destruct H as [Ha Hb]. rewrite (IHa Ha), (IHb Hb).
    destruct (op_in o [SUM; AVG; LEN; FLOOR; CEIL]); reflexivity.
Qed.

(* The statement
     forall d pm, uvl_read_cst d = Ok pm -> forallb (fun c => node_shape_ok' (c_ast c)) (pctcs pm) = true
   is FALSE for the syntax-tree type as modelled: [KBin] carries an arbitrary [astop], and the reader
   turns [KBin NOT a b] into a NOT node with two operands (counterexample below).  The grammar has no
   binary rule for "!", so the hypothesis [ucst_ok] (no [KBin NOT]) excludes nothing a parser returns;
   every tree the writer produces satisfies it ([node_cst_ucst_ok]). *)
Fixpoint ucst_ok (c : ucst) : bool :=
  match c with
  | KBin o a b => negb (astop_eqb o NOT) && ucst_ok a && ucst_ok b
  | KNot x | KParen x => ucst_ok x
  | _ => true
  end.

Definition shape_counterexample : udoc :=
  {| d_root := Some (UFeature None "A" None None []);
     d_ctcs := Some [KBin NOT (KLiteral "A") (KLiteral "B")] |}.
Example uvl_read_ctc_shape_false :
  exists pm, uvl_read_cst shape_counterexample = Ok pm
             /\ forallb (fun c => node_shape_ok' (c_ast c)) (pctcs pm) = false.
Proof. eexists. split; [vm_compute; reflexivity|reflexivity]. Qed.

Lemma uvl_read_ctc_shape1 : forall c n, ucst_ok c = true -> uvl_read_ctc c = Ok n -> node_shape_ok' n = true.
Proof.
  induction c as [r|x IHx|o a IHa b IHb|x IHx|t|t r|t|ag refs]; intros n Hok H; cbn [uvl_read_ctc] in H.
  - injection H as <-. reflexivity.
  - destruct (uvl_read_ctc x) as [a|e]; [|discriminate]. injection H as <-.
    cbn [un node_shape_ok' astop_eqb]. apply IHx; [exact Hok|reflexivity].
  - cbn [ucst_ok] in Hok. apply andb_true_iff in Hok. destruct Hok as [Hok Hb].
    apply andb_true_iff in Hok. destruct Hok as [Ho Ha]. apply negb_true_iff in Ho.
    destruct (uvl_read_ctc a) as [a'|e]; [|discriminate].
    destruct (uvl_read_ctc b) as [b'|e]; [|discriminate]. injection H as <-.
    cbn [bin node_shape_ok']. rewrite Ho, (IHa _ Ha eq_refl), (IHb _ Hb eq_refl).
    destruct (op_in o [SUM; AVG; LEN; FLOOR; CEIL]); reflexivity.
  - apply IHx; assumption.
  - destruct (to_int t) as [z|e]; [|discriminate]. injection H as <-. reflexivity.
  - injection H as <-. reflexivity.
  - injection H as <-. reflexivity.
  - destruct ag; destruct refs as [|r1 [|r2 refs]]; try discriminate; injection H as <-; reflexivity.
Qed.

Theorem uvl_read_ctc_shape : forall d pm,
  forallb ucst_ok (match d_ctcs d with Some l => l | None => [] end) = true ->
  uvl_read_cst d = Ok pm -> forallb (fun c => node_shape_ok' (c_ast c)) (pctcs pm) = true.
Proof.
  intros d pm Hok H. rewrite uvl_read_cst_eq in H.
  destruct (d_root d) as [rf|]; [|discriminate].
  destruct (uvl_read_feature [] PNone rf) as [pr|e]; [|discriminate].
  destruct (mapM uvl_read_ctc _) as [ns|e] eqn:Hns; [|discriminate].
  injection H as <-. cbn [pctcs]. rewrite forallb_name_ctcs.
  revert ns Hns Hok. generalize (match d_ctcs d with Some l => l | None => [] end).
  induction l as [|c l IH]; intros ns Hns Hok.
  - rewrite mapM_nil in Hns. injection Hns as <-. reflexivity.
  - rewrite mapM_cons in Hns. destruct (uvl_read_ctc c) as [n|e] eqn:Hn; [|discriminate].
    destruct (mapM uvl_read_ctc l) as [ns'|e]; [|discriminate]. injection Hns as <-.
    cbn [forallb] in Hok |- *. apply andb_true_iff in Hok. destruct Hok as [Hc Hl].
    rewrite (uvl_read_ctc_shape1 _ _ Hc Hn), (IH _ eq_refl Hl). reflexivity.
Qed.

(* what the writer produces never has a binary "!" *)
Lemma node_cst_ucst_ok : forall n c, node_cst n = Ok c -> ucst_ok c = true.
Proof.
  assert (Hop : forall x, (forall c, node_cst x = Ok c -> ucst_ok c = true) ->
                          forall c, nc_operand (Some x) = Ok c -> ucst_ok c = true).
  { intros x IH c H. cbn [nc_operand] in H. destruct (node_cst x) as [cx|e]; [|discriminate].
    injection H as <-. destruct (is_compound x); cbn [ucst_ok]; apply IH; reflexivity. }
  assert (G : forall o l r,
             (forall a, l = Some a -> forall c, node_cst a = Ok c -> ucst_ok c = true) ->
             (forall b, r = Some b -> forall c, node_cst b = Ok c -> ucst_ok c = true) ->
             forall c, node_cst (Node (DOp o) l r) = Ok c -> ucst_ok c = true).
  { intros o l r Hl Hr c H. rewrite node_cst_op in H.
    assert (Hl' : forall c, nc_operand l = Ok c -> ucst_ok c = true).
    { destruct l as [a|]; [apply Hop; apply Hl; reflexivity|discriminate]. }
    assert (Hr' : forall c, nc_operand r = Ok c -> ucst_ok c = true).
    { destruct r as [b|]; [apply Hop; apply Hr; reflexivity|discriminate]. }
    destruct o; cbn [nc_op aggr_of] in H; try discriminate; unfold nc_bin, nc_aggr in H;
      try (destruct (nc_operand l) as [cl|e]; [|discriminate];
           try (destruct (nc_operand r) as [cr|e]; [|discriminate]);
           injection H as <-; cbn [ucst_ok astop_eqb negb andb];
           rewrite ?(Hl' _ eq_refl), ?(Hr' _ eq_refl); reflexivity);
      (destruct (nc_arg l) as [a1|e]; [|discriminate]; destruct (nc_arg r) as [a2|e]; [|discriminate];
       injection H as <-; reflexivity). }
  apply (node_ind2 (fun n => forall c, node_cst n = Ok c -> ucst_ok c = true)).
  - intros d c H. destruct d as [o|s|z|r|b].
    + revert c H. apply G; discriminate.
    + cbn [node_cst] in H. injection H as <-. destruct (starts_with_char "'" s); reflexivity.
    + injection H as <-. reflexivity.
    + cbn [node_cst] in H. destruct (float_text r); [|discriminate]. injection H as <-. reflexivity.
    + injection H as <-. reflexivity.
  - intros d a IHa c H. destruct d as [o|s|z|r|b].
    + revert c H. apply G; [|discriminate]. intros a' E. injection E as <-. exact IHa.
    + cbn [node_cst] in H. injection H as <-. destruct (starts_with_char "'" s); reflexivity.
    + injection H as <-. reflexivity.
    + cbn [node_cst] in H. destruct (float_text r); [|discriminate]. injection H as <-. reflexivity.
    + injection H as <-. reflexivity.
  - intros d b0 IHb c H. destruct d as [o|s|z|r|b].
    + revert c H. apply G; [discriminate|]. intros b' E. injection E as <-. exact IHb.
    + cbn [node_cst] in H. injection H as <-. destruct (starts_with_char "'" s); reflexivity.
    + injection H as <-. reflexivity.
    + cbn [node_cst] in H. destruct (float_text r); [|discriminate]. injection H as <-. reflexivity.
    + injection H as <-. reflexivity.
  - intros d a b0 IHa IHb c H. destruct d as [o|s|z|r|b].
    + revert c H. apply G; intros x E; injection E as <-; assumption.
    + cbn [node_cst] in H. injection H as <-. destruct (starts_with_char "'" s); reflexivity.
    + injection H as <-. reflexivity.
    + cbn [node_cst] in H. destruct (float_text r); [|discriminate]. injection H as <-. reflexivity.
    + injection H as <-. reflexivity.
Qed.

(* ------------------------------------------------------------------ C04: surface-syntax invariance *)
Theorem read_paren : forall c, uvl_read_ctc (KParen c) = uvl_read_ctc c.
Proof. reflexivity. Qed.

Lemma ur_go_singles here kind mn :
  (kind = GMand /\ mn = 1%Z) \/ (kind = GOpt /\ mn = 0%Z) ->
  forall cs k j gs2,
  ur_go here (k + j) (map (fun c => UGroup kind [c]) cs ++ gs2) =
  match ur_goc here true k j cs with
  | Err e => Err e
  | Ok kids => match ur_go here (k + j + List.length kids) gs2 with
               | Err e => Err e
               | Ok prs => Ok (map (mk_single here mn) kids ++ prs)
               end
  end.
Proof.
  intros Hk. induction cs as [|c cs IH]; intros k j gs2.
  - rewrite ur_goc_nil. cbn [map app List.length]. rewrite Nat.add_0_r.
    destruct (ur_go here (k + j) gs2); reflexivity.
  - cbn [map app]. rewrite ur_go_cons, ur_goc_cons.
    assert (Hpc : per_child kind = true) by (destruct Hk as [[-> _]|[-> _]]; reflexivity).
    rewrite Hpc, ur_goc_cons, Nat.add_0_r, ur_goc_nil.
    destruct (uvl_read_feature (here ++ [((k + j)%nat, 0%nat)]) (PPath here) c) as [x|e]; [|reflexivity].
    cbn [List.length]. rewrite Nat.add_1_r, <- Nat.add_succ_r, IH.
    destruct (ur_goc here true k (S j) cs) as [pcs|e].
    + cbn [List.length]. replace (k + j + S (List.length pcs))%nat with (k + S j + List.length pcs)%nat by lia.
      destruct Hk as [[-> ->]|[-> ->]];
        (destruct (ur_go here (k + S j + List.length pcs) gs2) as [prs|e]; reflexivity).
    + destruct Hk as [[-> _]|[-> _]]; reflexivity.
Qed.

Lemma ur_go_split here kind cs gs2 : (kind = GMand \/ kind = GOpt) ->
  forall gs1 k,
  ur_go here k (gs1 ++ [UGroup kind cs] ++ gs2) =
  ur_go here k (gs1 ++ map (fun c => UGroup kind [c]) cs ++ gs2).
Proof.
  intros Hk. induction gs1 as [|[kind0 cs0] gs1 IH]; intros k.
  - cbn [app]. rewrite ur_go_cons.
    destruct Hk as [-> | ->].
    + pose proof (ur_go_singles here GMand 1%Z (or_introl (conj eq_refl eq_refl)) cs k 0%nat gs2) as E.
      rewrite !Nat.add_0_r in E. rewrite E. reflexivity.
    + pose proof (ur_go_singles here GOpt 0%Z (or_intror (conj eq_refl eq_refl)) cs k 0%nat gs2) as E.
      rewrite !Nat.add_0_r in E. rewrite E. reflexivity.
  - rewrite <- !app_comm_cons, !ur_go_cons.
    destruct (ur_goc here (per_child kind0) k 0%nat cs0) as [kids|e]; [|reflexivity].
    destruct kind0; rewrite IH; reflexivity.
Qed.

(* several children under one mandatory/optional keyword = one keyword per child *)
Theorem read_group_split : forall ty ref fc at_ k cs gs1 gs2 here parent, (k = GMand \/ k = GOpt) ->
  uvl_read_feature here parent (UFeature ty ref fc at_ (gs1 ++ [UGroup k cs] ++ gs2))
  = uvl_read_feature here parent (UFeature ty ref fc at_ (gs1 ++ map (fun c => UGroup k [c]) cs ++ gs2)).
Proof.
  intros ty ref fc at_ k cs gs1 gs2 here parent Hk.
  rewrite !uvl_read_feature_eq, (ur_go_split here k cs gs2 Hk). reflexivity.
Qed.

Theorem read_explicit_boolean : forall ref fc at_ gs here parent,
  uvl_read_feature here parent (UFeature (Some "Boolean") ref fc at_ gs)
  = uvl_read_feature here parent (UFeature None ref fc at_ gs).
Proof. intros. rewrite !uvl_read_feature_eq. reflexivity. Qed.

(* ------------------------------------------------------------------ [ctc_ok] is the brief's predicate *)
(* [brief_step] is the brief's text with the recursive calls abstracted; the proof goes through
   one-step unfoldings so that the (large) compiled pattern matching is only ever reduced on
   constructor-headed arguments *)
Definition brief_step (rec : node -> bool) (n : node) : bool :=
  match n with
  | Node (DStr s) None None => qname_ok s || starts_with_char "'" s
  | Node (DInt _) None None => true
  | Node (DFloat r) None None => match float_text r with Some t => String.eqb t r | None => false end
  | Node (DOp NOT) (Some a) None => rec a
  | Node (DOp o) (Some (Node (DStr a) None None)) None => op_in o [SUM; AVG; LEN; FLOOR; CEIL] && qname_ok a
  | Node (DOp o) (Some (Node (DStr a) None None)) (Some (Node (DStr b) None None)) =>
      if op_in o [SUM; AVG] then qname_ok a && qname_ok b
      else negb (op_in o [NOT; XOR; LEN; FLOOR; CEIL]) && (qname_ok a || starts_with_char "'" a) && (qname_ok b || starts_with_char "'" b)
  | Node (DOp o) (Some a) (Some b) => negb (op_in o [NOT; XOR; SUM; AVG; LEN; FLOOR; CEIL]) && rec a && rec b
  | _ => false
  end.
Definition my_step (rec : node -> bool) (n : node) : bool :=
  match n with
  | Node (DStr s) None None => term_ok s
  | Node (DInt _) None None => true
  | Node (DFloat r) None None => float_ok r
  | Node (DOp o) (Some a) None =>
      if astop_eqb o NOT then rec a else op_in o [SUM; AVG; LEN; FLOOR; CEIL] && is_ref a
  | Node (DOp o) (Some a) (Some b) =>
      if op_in o [SUM; AVG] then is_ref a && is_ref b
      else negb (op_in o [NOT; XOR; LEN; FLOOR; CEIL]) && rec a && rec b
  | _ => false
  end.
Lemma brief_unfold n : ctc_ok_brief n = brief_step ctc_ok_brief n.
Proof. destruct n; reflexivity. Qed.
Lemma my_unfold n : ctc_ok n = my_step ctc_ok n.
Proof. destruct n; reflexivity. Qed.
Lemma step_eq rec : (forall s, rec (Node (DStr s) None None) = term_ok s) ->
  forall n, brief_step rec n = my_step rec n.
Proof.
  intros Hrec [d l r]. destruct d as [o|s|z|f|b0].
  2-5: destruct l, r; reflexivity.
  destruct l as [a|]; [|destruct r; destruct o; reflexivity].
  destruct r as [b|].
  - (destruct a as [[| | | |] [|] [|]]; try (destruct o; cbn [brief_step my_step is_ref]; rewrite ?andb_false_r; reflexivity);
    destruct b as [[| | | |] [|] [|]]; destruct o; cbn [brief_step my_step is_ref]; rewrite ?Hrec, ?andb_false_r; reflexivity).
  - (destruct o; destruct a as [[| | | |] [|] [|]]; reflexivity).
Qed.

Lemma my_step_ext rec1 rec2 d l r :
  (forall a, l = Some a -> rec1 a = rec2 a) -> (forall b, r = Some b -> rec1 b = rec2 b) ->
  my_step rec1 (Node d l r) = my_step rec2 (Node d l r).
Proof.
  intros Hl Hr. destruct d as [o| | | |]; try reflexivity.
  destruct l as [a|]; [|reflexivity]. destruct r as [b|]; cbn [my_step].
  - rewrite (Hl a eq_refl), (Hr b eq_refl). reflexivity.
  - rewrite (Hl a eq_refl). reflexivity.
Qed.

Lemma ctc_ok_brief_eq : forall n, ctc_ok_brief n = ctc_ok n.
Proof.
  assert (G : forall d l r, (forall a, l = Some a -> ctc_ok_brief a = ctc_ok a) ->
                            (forall b, r = Some b -> ctc_ok_brief b = ctc_ok b) ->
                            ctc_ok_brief (Node d l r) = ctc_ok (Node d l r)).
  { intros d l r Hl Hr. rewrite brief_unfold, my_unfold, step_eq by reflexivity.
    apply my_step_ext; assumption. }
  apply (node_ind2 (fun n => ctc_ok_brief n = ctc_ok n)).
  - intros d. apply G; discriminate.
  - intros d a IHa. apply G; [|discriminate]. intros a' E. injection E as <-. exact IHa.
  - intros d b IHb. apply G; [discriminate|]. intros b' E. injection E as <-. exact IHb.
  - intros d a b IHa IHb. apply G; intros x E; injection E as <-; assumption.
Qed.

(* ------------------------------------------------------------------ concrete instances *)
Definition ex_model2 : fm :=
  {| root :=
       Feature (ex_info "my root" false TString 0 3 [ex_attr "a b" (VStr "hello, world")])
         [ Relation 3 3 [ex_leaf "only"];                      (* [3] over one child *)
           Relation 1 1 [ex_leaf "m1"]; Relation 0 1 [ex_leaf "o1"]; Relation 1 1 [ex_leaf "m2"];
           Relation (-2) 7 [ex_leaf "x"; ex_leaf "y"];         (* [-2..7] *)
           Relation 1 2 [Feature (ex_info "deep" true TBoolean 1 1 [])
                           [Relation 1 1 [Feature (ex_info "deeper" false TBoolean 1 1 [])
                                            [Relation 0 1 [ex_leaf "deepest"]]]];
                         ex_leaf "w"] ];
     ctcs := [] |}.

Example ex_model_ok : uvl_ok ex_model = true.
Proof. vm_compute. reflexivity. Qed.
Example ex_model_roundtrip :
  exists d, cst_of_fm ex_model = Ok d /\ uvl_read_cst d = Ok (annotate_fm (uvl_norm ex_model)).
Proof. vm_compute. eexists. split; reflexivity. Qed.
Example ex_model2_ok : uvl_ok ex_model2 = true.
Proof. vm_compute. reflexivity. Qed.
Example ex_model2_roundtrip :
  exists d, cst_of_fm ex_model2 = Ok d /\ uvl_read_cst d = Ok (annotate_fm (uvl_norm ex_model2)).
Proof. vm_compute. eexists. split; reflexivity. Qed.
(* the normal form really differs from the original: names and REQUIRES / EXCLUDES *)
Example ex_model_norm_ctcs :
  map c_name (ctcs (uvl_norm ex_model)) =
    ["Constraint 0"; "Constraint 1"; "Constraint 2"; "Constraint 3"; "Constraint 4"; "Constraint 5";
     "Constraint 6"; "Constraint 7"; "Constraint 8"; "Constraint 9"; "Constraint 10"; "Constraint 11"]
  /\ nth_error (map c_ast (ctcs (uvl_norm ex_model))) 1
     = Some (bin IMPLIES (term "C1") (un NOT (bin AND (term "D1") (un NOT (term "C 2"))))).
Proof. vm_compute. split; reflexivity. Qed.
(* the text of the qualified references: each part is quoted on its own *)
Example ex_model_qualified_text :
  match mapM (fun c => node_cst (c_ast c)) (skipn 8 (ctcs ex_model)) with
  | Ok l => map render_cst l
  | Err _ => []
  end =
  [ "Disk.""size in GB"" > 3";
    """features"".""1st"" == 'lit'";
    "avg(Root.""my attr"", A.""or"") <= sum(D2.x.""y z"")";
    "Root.cost => !len(""C 2"".n)" ].
Proof. vm_compute. reflexivity. Qed.
(* what [qname_ok] accepts *)
Example qname_ok_examples :
  map qname_ok ["a"; "a.b"; "a b.c d"; "x.1st"; "features.abstract"; "a.b.c"; "a.b'";
                ""; "a..b"; ".a"; "a."; "."; "'a.b"; "a.'b"; "a.b""c"]
  = [true; true; true; true; true; true; true;
     false; false; false; false; false; false; false; false].
Proof. vm_compute. reflexivity. Qed.
Example str_split_examples :
  map (str_split ".") [""; "a."; ".a"; "a..b"; "a.b"] = [[""]; ["a"; ""]; [""; "a"]; ["a"; ""; "b"]; ["a"; "b"]].
Proof. vm_compute. reflexivity. Qed.

(* ------------------------------------------------------------------ assumptions *)
Print Assumptions uvl_roundtrip_cst.
Print Assumptions uvl_norm_tree.
Print Assumptions uvl_norm_sem.
Print Assumptions uvl_norm_ok.
Print Assumptions uvl_norm_idempotent.
Print Assumptions uvl_write_norm.
Print Assumptions uvl_roundtrip.
Print Assumptions uvl_cycles.
Print Assumptions uvl_syntax_error.
Print Assumptions uvl_read_ptr_wf.
Print Assumptions uvl_read_ctc_shape.
Print Assumptions uvl_read_ctc_shape_false.
Print Assumptions node_cst_ucst_ok.
Print Assumptions read_paren.
Print Assumptions read_quoted_ref.
Print Assumptions read_group_split.
Print Assumptions read_explicit_boolean.
Print Assumptions read_card_n.
Print Assumptions ctc_ok_brief_eq.
Print Assumptions ex_model_roundtrip.
Print Assumptions strip_quotes_safename_q.
Print Assumptions strip_quotes_safename_noquote.
Print Assumptions str_join_split.
Print Assumptions qname_ok_join.
Print Assumptions name_ok_qname_ok.
Print Assumptions qname_ok_not_literal.
