(* Proofs/C19Facts.v — random attribute generation (Model/GenRandom.v): a missing domain is an error,
   a drawn value is in the domain, only attribute lists change, every targeted feature gets exactly
   one new attribute at the end, and the stored values come from value_from_domain. *)
From Coq Require Import List Bool Ascii String ZArith Lia Permutation.
From FM Require Import Base.Result Base.Str Base.PyFloat Base.AstOp Model.Ast Model.FM Model.Ctc
  Model.Queries Model.GenRandom Proofs.FMFacts Proofs.QueriesFacts.
Import ListNotations.
Local Open Scope list_scope.

(* ------------------------------------------------------------------------------------------- *)
(* 1. a missing domain is reported as a library error                                          *)
(* ------------------------------------------------------------------------------------------- *)
Theorem gen_no_domain : forall nm ol draws m,
  gen_random_attribute nm None ol draws m = Err FlamaException.
Proof. intros nm ol draws m. reflexivity. Qed.

(* ------------------------------------------------------------------------------------------- *)
(* 2. dec_leb is a total preorder                                                              *)
(* ------------------------------------------------------------------------------------------- *)
Lemma dec_leb_refl a : dec_leb a a = true.
Proof. unfold dec_leb. apply Z.leb_refl. Qed.

Lemma dec_leb_total a b : dec_leb a b = true \/ dec_leb b a = true.
Proof.
  unfold dec_leb. rewrite (Z.min_comm (d_e b) (d_e a)).
  set (x := (d_m a * 10 ^ (d_e a - Z.min (d_e a) (d_e b)))%Z).
  set (y := (d_m b * 10 ^ (d_e b - Z.min (d_e a) (d_e b)))%Z).
  destruct (Z.leb_spec x y) as [H|H]; [left; reflexivity|right].
  apply Z.leb_le. lia.
Qed.

(* comparison at any common exponent below both *)
Lemma dec_leb_at a b e :
  (e <= d_e a)%Z -> (e <= d_e b)%Z ->
  (dec_leb a b = true <-> (d_m a * 10 ^ (d_e a - e) <= d_m b * 10 ^ (d_e b - e))%Z).
Proof.
  intros Ha Hb. unfold dec_leb.
  set (e0 := Z.min (d_e a) (d_e b)).
  assert (He0 : (e <= e0)%Z) by (unfold e0; lia).
  assert (H0a : (e0 <= d_e a)%Z) by (unfold e0; lia).
  assert (H0b : (e0 <= d_e b)%Z) by (unfold e0; lia).
  assert (Ea : (d_e a - e = (d_e a - e0) + (e0 - e))%Z) by lia.
  assert (Eb : (d_e b - e = (d_e b - e0) + (e0 - e))%Z) by lia.
  rewrite Ea, Eb.
  rewrite !Z.pow_add_r by lia.
  assert (Hp : (0 < 10 ^ (e0 - e))%Z) by (apply Z.pow_pos_nonneg; lia).
  rewrite Z.leb_le. rewrite !Z.mul_assoc.
  split; intro H.
  - apply Z.mul_le_mono_nonneg_r; [lia|exact H].
  - apply Z.mul_le_mono_pos_r in H; [exact H|exact Hp].
Qed.

Lemma dec_leb_trans a b c : dec_leb a b = true -> dec_leb b c = true -> dec_leb a c = true.
Proof.
  intros Hab Hbc.
  set (e := Z.min (d_e a) (Z.min (d_e b) (d_e c))).
  assert (Ha : (e <= d_e a)%Z) by (unfold e; lia).
  assert (Hb : (e <= d_e b)%Z) by (unfold e; lia).
  assert (Hc : (e <= d_e c)%Z) by (unfold e; lia).
  apply (dec_leb_at a b e Ha Hb) in Hab.
  apply (dec_leb_at b c e Hb Hc) in Hbc.
  apply (dec_leb_at a c e Ha Hc). lia.
Qed.

(* ------------------------------------------------------------------------------------------- *)
(* 3. membership of a generated value in the domain                                            *)
(* ------------------------------------------------------------------------------------------- *)
Definition in_range_int (z : Z) (rg : range) : Prop :=
  exists lo hi, rg_min rg = VInt lo /\ rg_max rg = VInt hi /\ (lo <= z <= hi)%Z.
Definition in_range_dec (q : dec) (rg : range) : Prop :=
  exists dlo dhi, dec_of_bound (rg_min rg) = Some dlo /\ dec_of_bound (rg_max rg) = Some dhi
                  /\ dec_leb dlo q = true /\ dec_leb q dhi = true
                  /\ (is_float (rg_min rg) || is_float (rg_max rg)) = true.
Definition in_domain (g : gval) (d : domain) : Prop :=
  match g with
  | GElem v => In v (dom_elems d)
  | GInt z => exists rg, In rg (dom_ranges d) /\ in_range_int z rg
  | GDec q => exists rg, In rg (dom_ranges d) /\ in_range_dec q rg
  | GBound v => exists rg q, In rg (dom_ranges d) /\ dec_of_bound v = Some q /\ in_range_dec q rg
  | GNone => dom_elems d = [] /\ dom_ranges d = []
  end.

(* ranges are ordered *)
Definition ranges_ordered (d : domain) : Prop :=
  Forall (fun rg => match dec_of_bound (rg_min rg), dec_of_bound (rg_max rg) with
                    | Some a, Some b => dec_leb a b = true | _, _ => True end) (dom_ranges d).

(* the oracle assumption of the task text (non positional: every DRandint of the stream is inside
   every integer range of the domain) *)
Definition randint_ok (d : domain) (draws : list draw) : Prop :=
  forall (i : nat) z (rest : list draw) rg,
    nth_error (dom_ranges d) i = Some rg -> is_int (rg_min rg) = true -> is_int (rg_max rg) = true ->
    In (DRandint z) draws -> in_range_int z rg.

(* the positional oracle assumption: "random.randint(a, b) is within [a, b]" and nothing more —
   wherever the stream holds DChoice i immediately followed by DRandint z and the i-th range is an
   integer range, z lies inside that range *)
Definition randint_ok_pos (d : domain) (draws : list draw) : Prop :=
  forall pre i z rest rg,
    draws = pre ++ DChoice i :: DRandint z :: rest ->
    nth_error (dom_ranges d) i = Some rg -> is_int (rg_min rg) = true -> is_int (rg_max rg) = true ->
    in_range_int z rg.

Lemma randint_ok_weaken d draws : randint_ok d draws -> randint_ok_pos d draws.
Proof.
  intros H pre i z rest rg Heq Hnth Hlo Hhi.
  apply (H i z rest rg Hnth Hlo Hhi). subst draws.
  apply in_or_app. right. right. left. reflexivity.
Qed.

Lemma randint_ok_pos_suffix d pre draws :
  randint_ok_pos d (pre ++ draws) -> randint_ok_pos d draws.
Proof.
  intros H pre' i z rest rg Heq Hnth Hlo Hhi.
  apply (H (pre ++ pre') i z rest rg); auto.
  rewrite Heq, app_assoc. reflexivity.
Qed.

(* the result of one call on the range list *)
Definition in_ranges (g : gval) (d : domain) : Prop :=
  match g with
  | GInt z => exists rg, In rg (dom_ranges d) /\ in_range_int z rg
  | GDec q => exists rg, In rg (dom_ranges d) /\ in_range_dec q rg
  | GBound v => exists rg q, In rg (dom_ranges d) /\ dec_of_bound v = Some q /\ in_range_dec q rg
  | _ => False
  end.

Lemma in_ranges_in_domain g d : in_ranges g d -> in_domain g d.
Proof. destruct g; simpl; auto; intros []. Qed.

Lemma is_int_inv v : is_int v = true -> exists z, v = VInt z.
Proof. destruct v; simpl; try discriminate. eauto. Qed.

(* the consumed part of the stream *)
Lemma value_from_ranges_suffix rs draws g rest :
  value_from_ranges rs draws = Ok (g, rest) -> exists pre, draws = pre ++ rest.
Proof.
  unfold value_from_ranges. intro H.
  destruct draws as [|[i|n dn|z] ds]; try discriminate.
  destruct (nth_error rs i) as [rg|]; [|discriminate].
  destruct (is_float (rg_min rg) || is_float (rg_max rg)).
  - destruct ds as [|[j|num den|z] ds']; try discriminate.
    destruct (dec_of_bound (rg_min rg)) as [dlo|]; [|discriminate].
    destruct (dec_of_bound (rg_max rg)) as [dhi|]; [|discriminate].
    inversion H; subst. exists [DChoice i; DUniform num den]. reflexivity.
  - destruct (is_int (rg_min rg) && is_int (rg_max rg)); [|discriminate].
    destruct ds as [|[j|num den|z] ds']; try discriminate.
    inversion H; subst. exists [DChoice i; DRandint z]. reflexivity.
Qed.

Lemma value_from_ranges_in d draws g rest :
  ranges_ordered d -> randint_ok_pos d draws ->
  value_from_ranges (dom_ranges d) draws = Ok (g, rest) -> in_ranges g d.
Proof.
  intros Hord Hri H. unfold value_from_ranges in H.
  destruct draws as [|[i|n dn|z] ds]; try discriminate.
  destruct (nth_error (dom_ranges d) i) as [rg|] eqn:Hnth; [|discriminate].
  assert (Hin : In rg (dom_ranges d)) by (eapply nth_error_In; exact Hnth).
  destruct (is_float (rg_min rg) || is_float (rg_max rg)) eqn:Hfl.
  - destruct ds as [|[j|num den|z] ds']; try discriminate.
    destruct (dec_of_bound (rg_min rg)) as [dlo|] eqn:Elo; [|discriminate].
    destruct (dec_of_bound (rg_max rg)) as [dhi|] eqn:Ehi; [|discriminate].
    assert (Hle : dec_leb dlo dhi = true).
    { unfold ranges_ordered in Hord. rewrite Forall_forall in Hord.
      specialize (Hord rg Hin). rewrite Elo, Ehi in Hord. exact Hord. }
    set (v := round_dec num den (Z.max (dot_digits (rg_min rg)) (dot_digits (rg_max rg)))) in H.
    destruct (dec_leb dlo v) eqn:Hlov.
    + destruct (dec_leb v dhi) eqn:Hvhi; inversion H; subst; simpl.
      * exists rg. split; [exact Hin|]. exists dlo, dhi. repeat split; auto.
      * exists rg, dhi. split; [exact Hin|]. split; [exact Ehi|].
        exists dlo, dhi. repeat split; auto. apply dec_leb_refl.
    + rewrite Hle in H. inversion H; subst; simpl.
      exists rg, dlo. split; [exact Hin|]. split; [exact Elo|].
      exists dlo, dhi. repeat split; auto. apply dec_leb_refl.
  - destruct (is_int (rg_min rg) && is_int (rg_max rg)) eqn:Hint; [|discriminate].
    apply andb_prop in Hint. destruct Hint as [Hilo Hihi].
    destruct ds as [|[j|num den|z] ds']; try discriminate.
    inversion H; subst. simpl. exists rg. split; [exact Hin|].
    apply (Hri [] i z rest rg); auto.
Qed.

(* the consumed part of the stream, for a whole value *)
Lemma value_from_domain_suffix d draws g rest :
  value_from_domain d draws = Ok (g, rest) -> exists pre, draws = pre ++ rest.
Proof.
  unfold value_from_domain. intro H.
  destruct (dom_elems d) as [|e es] eqn:Ee; destruct (dom_ranges d) as [|r rs] eqn:Er.
  - inversion H; subst. exists []. reflexivity.
  - apply value_from_ranges_suffix in H. exact H.
  - destruct draws as [|[i|n dn|z] ds]; try discriminate.
    destruct (nth_error (e :: es) i) as [el|]; [|discriminate].
    inversion H; subst. exists [DChoice i]. reflexivity.
  - destruct draws as [|[i|n dn|z] ds]; try discriminate.
    destruct (nth_error (e :: es) i) as [el|]; [|discriminate].
    destruct (value_from_ranges (r :: rs) ds) as [[rv rest']|ex] eqn:Hr; [|discriminate].
    apply value_from_ranges_suffix in Hr. destruct Hr as [pre Hpre].
    destruct rest' as [|[j|n dn|z] rest'']; try discriminate.
    destruct (Nat.eqb j 0).
    + inversion H; subst. exists (DChoice i :: pre ++ [DChoice j]).
      simpl. rewrite <- app_assoc. reflexivity.
    + destruct (Nat.eqb j 1); [|discriminate].
      inversion H; subst. exists (DChoice i :: pre ++ [DChoice j]).
      simpl. rewrite <- app_assoc. reflexivity.
Qed.

(* main statement, with the positional oracle assumption *)
Theorem value_in_domain_pos : forall d draws g rest,
  ranges_ordered d -> randint_ok_pos d draws -> value_from_domain d draws = Ok (g, rest) ->
  in_domain g d.
Proof.
  intros d draws g rest Hord Hri H. unfold value_from_domain in H.
  destruct (dom_elems d) as [|e es] eqn:Ee; destruct (dom_ranges d) as [|r rs] eqn:Er.
  - inversion H; subst. simpl. auto.
  - rewrite <- Er in H. apply in_ranges_in_domain.
    eapply value_from_ranges_in; eauto.
  - destruct draws as [|[i|n dn|z] ds]; try discriminate.
    destruct (nth_error (e :: es) i) as [el|] eqn:Hnth; [|discriminate].
    inversion H; subst. simpl. rewrite Ee. eapply nth_error_In; exact Hnth.
  - destruct draws as [|[i|n dn|z] ds]; try discriminate.
    destruct (nth_error (e :: es) i) as [el|] eqn:Hnth; [|discriminate].
    rewrite <- Er in H.
    destruct (value_from_ranges (dom_ranges d) ds) as [[rv rest']|ex] eqn:Hr; [|discriminate].
    destruct rest' as [|[j|n dn|z] rest'']; try discriminate.
    destruct (Nat.eqb j 0).
    + inversion H; subst. simpl. rewrite Ee. eapply nth_error_In; exact Hnth.
    + destruct (Nat.eqb j 1); [|discriminate].
      inversion H; subst. apply in_ranges_in_domain.
      eapply value_from_ranges_in; [exact Hord| |exact Hr].
      apply (randint_ok_pos_suffix d [DChoice i]). exact Hri.
Qed.

(* the statement of the task text *)
Theorem value_in_domain : forall d draws g rest,
  ranges_ordered d -> randint_ok d draws -> value_from_domain d draws = Ok (g, rest) -> in_domain g d.
Proof.
  intros d draws g rest Hord Hri H.
  eapply value_in_domain_pos; [exact Hord| |exact H]. apply randint_ok_weaken. exact Hri.
Qed.

(* ------------------------------------------------------------------------------------------- *)
(* 4. frame: nothing but attribute lists changes                                               *)
(* ------------------------------------------------------------------------------------------- *)
Definition strip_info (i : finfo) : finfo :=
  {| f_name := f_name i; f_abstract := f_abstract i; f_type := f_type i;
     f_cmin := f_cmin i; f_cmax := f_cmax i; f_attrs := [] |}.

Fixpoint strip_attrs (f : feature) : feature :=
  match f with
  | Feature i rs =>
      Feature (strip_info i)
              (map (fun r => match r with
                             | Relation a b cs => Relation a b (map strip_attrs cs)
                             end) rs)
  end.

Lemma apply_values_strip nm d fs vs :
  forall f, strip_attrs (apply_values nm d fs vs f) = strip_attrs f.
Proof.
  apply (feature_ind2
           (fun f => strip_attrs (apply_values nm d fs vs f) = strip_attrs f)
           (fun r => map strip_attrs (map (apply_values nm d fs vs) (r_children r))
                     = map strip_attrs (r_children r))).
  - intros i rs IH. cbn [apply_values strip_attrs]. f_equal.
    + destruct (lookup_value (f_name i) fs vs); reflexivity.
    + induction IH as [|r rs' Hr _ IHrs]; [reflexivity|].
      cbn [map]. rewrite IHrs. f_equal.
      destruct r as [a b cs]. cbn [r_children] in Hr. rewrite Hr. reflexivity.
  - intros a b cs IH. cbn [r_children].
    induction IH as [|c cs' Hc _ IHcs]; [reflexivity|].
    cbn [map]. rewrite Hc, IHcs. reflexivity.
Qed.

(* the reader-side unfolding of [gen_random_attribute] on a given domain: the emptiness check first *)
Definition dom_empty (d : domain) : bool :=
  match dom_elems d, dom_ranges d with [], [] => true | _, _ => false end.

Lemma gen_random_attribute_some nm d ol draws m :
  gen_random_attribute nm (Some d) ol draws m =
  if dom_empty d then Err FlamaException else
  match decide (get_features m) ol nm d draws with
  | Err e => Err e
  | Ok (vs, _) => Ok {| root := apply_values nm d (get_features m) vs (root m); ctcs := ctcs m |}
  end.
Proof. reflexivity. Qed.

Lemma dom_empty_false d : dom_empty d = false -> dom_elems d <> [] \/ dom_ranges d <> [].
Proof.
  unfold dom_empty. intros H.
  destruct (dom_elems d) as [|e es]; [|left; discriminate].
  destruct (dom_ranges d) as [|r rs]; [discriminate|right; discriminate].
Qed.

(* an accepted call had something to draw from *)
Theorem gen_random_domain_nonempty : forall nm d ol draws m m',
  gen_random_attribute nm (Some d) ol draws m = Ok m' ->
  dom_elems d <> [] \/ dom_ranges d <> [].
Proof.
  intros nm d ol draws m m' H. rewrite gen_random_attribute_some in H.
  destruct (dom_empty d) eqn:Hde; [discriminate|]. apply dom_empty_false. exact Hde.
Qed.

Theorem gen_frame : forall nm d ol draws m m',
  gen_random_attribute nm (Some d) ol draws m = Ok m' ->
  ctcs m' = ctcs m /\ strip_attrs (root m') = strip_attrs (root m).
Proof.
  intros nm d ol draws m m' H. rewrite gen_random_attribute_some in H.
  destruct (dom_empty d) eqn:Hde; [discriminate|].
  destruct (decide (get_features m) ol nm d draws) as [[vs rest]|e]; [|discriminate].
  inversion H; subst. cbn [ctcs root]. split; [reflexivity|]. apply apply_values_strip.
Qed.

(* ------------------------------------------------------------------------------------------- *)
(* 5. the decisions: one per listed feature, Some exactly on the targeted ones, each value       *)
(*    produced by a value_from_domain call on a suffix of the stream                            *)
(* ------------------------------------------------------------------------------------------- *)
Lemma Forall2_impl' {A B} (P Q : A -> B -> Prop) l1 l2 :
  (forall a b, P a b -> Q a b) -> Forall2 P l1 l2 -> Forall2 Q l1 l2.
Proof. intros HPQ H. induction H as [|a b l1 l2 Hab _ IH]; constructor; auto. Qed.

Lemma Forall2_length' {A B} (P : A -> B -> Prop) l1 l2 :
  Forall2 P l1 l2 -> List.length l1 = List.length l2.
Proof. intros H. induction H as [|a b l1 l2 _ _ IH]; simpl; auto. Qed.

(* strong form: the call is made on a suffix [dr] of the given stream *)
Lemma decide_values_suffix : forall fs ol nm d draws vs rest,
  decide fs ol nm d draws = Ok (vs, rest) ->
  (exists pre, draws = pre ++ rest) /\
  Forall2 (fun f v => match v with
                      | Some av => targeted ol nm f = true /\
                                   exists g pre dr dr', draws = pre ++ dr /\
                                     value_from_domain d dr = Ok (g, dr') /\ av = gval_aval g
                      | None => targeted ol nm f = false end) fs vs.
Proof.
  induction fs as [|f fs IH]; intros ol nm d draws vs rest H; cbn [decide] in H.
  - inversion H; subst. split; [exists []; reflexivity|constructor].
  - destruct (targeted ol nm f) eqn:Ht.
    + destruct (value_from_domain d draws) as [[g draws']|e] eqn:Hv; [|discriminate].
      destruct (decide fs ol nm d draws') as [[vs' dr]|e] eqn:Hd; [|discriminate].
      inversion H; subst.
      destruct (value_from_domain_suffix _ _ _ _ Hv) as [pre1 Hpre1].
      destruct (IH _ _ _ _ _ _ Hd) as [[pre2 Hpre2] HF].
      split.
      * exists (pre1 ++ pre2). rewrite <- app_assoc, <- Hpre2. exact Hpre1.
      * constructor.
        -- split; [exact Ht|]. exists g, [], draws, draws'. repeat split; auto.
        -- eapply Forall2_impl'; [|exact HF]. intros f0 [av|]; [|auto].
           intros [Ht0 (g0 & pre & dr0 & dr0' & E1 & E2 & E3)]. split; [exact Ht0|].
           exists g0, (pre1 ++ pre), dr0, dr0'. repeat split; auto.
           rewrite <- app_assoc, <- E1. exact Hpre1.
    + destruct (decide fs ol nm d draws) as [[vs' dr]|e] eqn:Hd; [|discriminate].
      inversion H; subst.
      destruct (IH _ _ _ _ _ _ Hd) as [Hpre HF].
      split; [exact Hpre|]. constructor; [exact Ht|exact HF].
Qed.

Theorem decide_values : forall fs ol nm d draws vs rest,
  decide fs ol nm d draws = Ok (vs, rest) ->
  List.length vs = List.length fs /\
  Forall2 (fun f v => match v with
                      | Some av => targeted ol nm f = true /\
                                   exists g dr dr', value_from_domain d dr = Ok (g, dr') /\ av = gval_aval g
                      | None => targeted ol nm f = false end) fs vs.
Proof.
  intros fs ol nm d draws vs rest H.
  destruct (decide_values_suffix _ _ _ _ _ _ _ H) as [_ HF].
  split.
  - symmetry. eapply Forall2_length'. exact HF.
  - eapply Forall2_impl'; [|exact HF]. intros f [av|]; [|auto].
    intros [Ht (g & pre & dr & dr' & _ & E2 & E3)]. split; [exact Ht|].
    exists g, dr, dr'. split; assumption.
Qed.

(* combined with value_in_domain: every stored value is (the aval of) a value of the domain *)
Theorem decide_values_in_domain : forall fs ol nm d draws vs rest,
  ranges_ordered d -> randint_ok_pos d draws ->
  decide fs ol nm d draws = Ok (vs, rest) ->
  Forall2 (fun f v => match v with
                      | Some av => targeted ol nm f = true /\
                                   exists g, in_domain g d /\ av = gval_aval g
                      | None => targeted ol nm f = false end) fs vs.
Proof.
  intros fs ol nm d draws vs rest Hord Hri H.
  destruct (decide_values_suffix _ _ _ _ _ _ _ H) as [_ HF].
  eapply Forall2_impl'; [|exact HF]. intros f [av|]; [|auto].
  intros [Ht (g & pre & dr & dr' & E1 & E2 & E3)]. split; [exact Ht|].
  exists g. split; [|exact E3].
  eapply value_in_domain_pos; [exact Hord| |exact E2].
  apply (randint_ok_pos_suffix d pre). rewrite <- E1. exact Hri.
Qed.

(* ------------------------------------------------------------------------------------------- *)
(* 6. per feature, under unique names                                                          *)
(* ------------------------------------------------------------------------------------------- *)
Definition attrs_of (n : string) (f : feature) : option (list attr) :=
  option_map (fun g => f_attrs (info g)) (find (fun g => String.eqb (name g) n) (subfeatures f)).

Lemma subfeatures_eq f :
  subfeatures f = f :: flat_map (fun r => flat_map subfeatures (r_children r)) (rels f).
Proof.
  destruct f as [i rs]. cbn [subfeatures rels]. f_equal.
  apply flat_map_ext. intros [a b cs]. reflexivity.
Qed.

Lemma name_apply nm d fs vs f : name (apply_values nm d fs vs f) = name f.
Proof.
  destruct f as [i rs]. unfold name. cbn [apply_values info].
  destruct (lookup_value (f_name i) fs vs); reflexivity.
Qed.

Lemma rels_apply nm d fs vs f :
  rels (apply_values nm d fs vs f)
  = map (fun r => Relation (r_min r) (r_max r) (map (apply_values nm d fs vs) (r_children r))) (rels f).
Proof.
  destruct f as [i rs]. cbn [apply_values rels].
  apply map_ext. intros [a b cs]. reflexivity.
Qed.

Lemma attrs_apply nm d fs vs f :
  f_attrs (info (apply_values nm d fs vs f))
  = match lookup_value (name f) fs vs with
    | Some v => f_attrs (info f) ++ [{| a_name := nm; a_dom := Some d; a_default := v; a_null := VNone |}]
    | None => f_attrs (info f)
    end.
Proof.
  destruct f as [i rs]. unfold name. cbn [apply_values info].
  destruct (lookup_value (f_name i) fs vs); reflexivity.
Qed.

Lemma subfeatures_apply nm d fs vs :
  forall f, subfeatures (apply_values nm d fs vs f) = map (apply_values nm d fs vs) (subfeatures f).
Proof.
  apply (feature_ind2
           (fun f => subfeatures (apply_values nm d fs vs f)
                     = map (apply_values nm d fs vs) (subfeatures f))
           (fun r => flat_map subfeatures (map (apply_values nm d fs vs) (r_children r))
                     = map (apply_values nm d fs vs) (flat_map subfeatures (r_children r)))).
  - intros i rs IH.
    rewrite (subfeatures_eq (apply_values nm d fs vs (Feature i rs))), (subfeatures_eq (Feature i rs)).
    rewrite rels_apply. cbn [map rels]. f_equal.
    induction IH as [|r rs' Hr _ IHrs]; [reflexivity|].
    cbn [map flat_map r_children]. rewrite map_app, IHrs, Hr. reflexivity.
  - intros a b cs IH. cbn [r_children].
    induction IH as [|c cs' Hc _ IHcs]; [reflexivity|].
    cbn [map flat_map]. rewrite map_app, Hc, IHcs. reflexivity.
Qed.

Lemma find_name_map nm d fs vs n (l : list feature) :
  find (fun g => String.eqb (name g) n) (map (apply_values nm d fs vs) l)
  = option_map (apply_values nm d fs vs) (find (fun g => String.eqb (name g) n) l).
Proof.
  induction l as [|g l IH]; [reflexivity|].
  cbn [map find]. rewrite name_apply.
  destruct (String.eqb (name g) n); [reflexivity|exact IH].
Qed.

Lemma attrs_of_apply nm d fs vs r f :
  NoDup (names r) -> In f (subfeatures r) ->
  attrs_of (name f) (apply_values nm d fs vs r) = Some (f_attrs (info (apply_values nm d fs vs f))).
Proof.
  intros Hnd Hin. unfold attrs_of.
  rewrite subfeatures_apply, find_name_map.
  rewrite (find_by_name_unique (subfeatures r) f Hnd Hin). reflexivity.
Qed.

(* the looked-up decision of a listed feature says whether it is targeted (and carries the property
   of the decision) *)
Lemma lookup_targeted ol nm (P : aval -> Prop) fs vs f :
  Forall2 (fun f v => match v with
                      | Some av => targeted ol nm f = true /\ P av
                      | None => targeted ol nm f = false end) fs vs ->
  NoDup (map name fs) -> In f fs ->
  match lookup_value (name f) fs vs with
  | Some av => targeted ol nm f = true /\ P av
  | None => targeted ol nm f = false
  end.
Proof.
  intros HF. induction HF as [|f0 v fs' vs' Hfv _ IH]; intros Hnd Hin; [contradiction|].
  cbn [map] in Hnd. inversion Hnd as [|x xs Hnotin Hnd']; subst.
  cbn [lookup_value]. destruct Hin as [Heq | Hin].
  - subst f0. rewrite String.eqb_refl. exact Hfv.
  - destruct (String.eqb_spec (name f0) (name f)) as [Heq | Hne].
    + exfalso. apply Hnotin. rewrite Heq. apply in_map. exact Hin.
    + apply IH; assumption.
Qed.

Lemma get_features_NoDup m : NoDup (names (root m)) -> NoDup (map name (get_features m)).
Proof.
  intro Hnd. eapply Permutation_NoDup; [|exact Hnd].
  apply Permutation_map. apply Permutation_sym. apply get_features_perm.
Qed.

Lemma in_sub_get_features m f : In f (subfeatures (root m)) -> In f (get_features m).
Proof. intro H. eapply Permutation_in; [apply Permutation_sym; apply get_features_perm|exact H]. Qed.

Theorem gen_attrs : forall nm d ol draws m m' f,
  NoDup (names (root m)) -> gen_random_attribute nm (Some d) ol draws m = Ok m' ->
  In f (subfeatures (root m)) ->
  (targeted ol nm f = true ->
     exists v, attrs_of (name f) (root m')
               = Some (f_attrs (info f) ++ [{| a_name := nm; a_dom := Some d; a_default := v; a_null := VNone |}]))
  /\ (targeted ol nm f = false -> attrs_of (name f) (root m') = Some (f_attrs (info f))).
Proof.
  intros nm d ol draws m m' f Hnd H Hin. rewrite gen_random_attribute_some in H.
  destruct (dom_empty d) eqn:Hde; [discriminate|].
  destruct (decide (get_features m) ol nm d draws) as [[vs rest]|e] eqn:Hd; [|discriminate].
  inversion H; subst. cbn [root].
  rewrite (attrs_of_apply nm d (get_features m) vs (root m) f Hnd Hin), attrs_apply.
  destruct (decide_values _ _ _ _ _ _ _ Hd) as [_ HF].
  pose proof (lookup_targeted ol nm _ _ _ f HF (get_features_NoDup m Hnd) (in_sub_get_features m f Hin))
    as Hl.
  destruct (lookup_value (name f) (get_features m) vs) as [v|]; split; intro Ht.
  - exists v. reflexivity.
  - destruct Hl as [Hl _]. congruence.
  - congruence.
  - reflexivity.
Qed.

(* the same with the provenance of the stored value: under the oracle assumptions it is (the stored
   form of) a value of the domain *)
Theorem gen_attrs_in_domain : forall nm d ol draws m m' f,
  ranges_ordered d -> randint_ok_pos d draws ->
  NoDup (names (root m)) -> gen_random_attribute nm (Some d) ol draws m = Ok m' ->
  In f (subfeatures (root m)) -> targeted ol nm f = true ->
  exists g, in_domain g d /\
    attrs_of (name f) (root m')
    = Some (f_attrs (info f) ++ [{| a_name := nm; a_dom := Some d; a_default := gval_aval g; a_null := VNone |}]).
Proof.
  intros nm d ol draws m m' f Hord Hri Hnd H Hin Ht. rewrite gen_random_attribute_some in H.
  destruct (dom_empty d) eqn:Hde; [discriminate|].
  destruct (decide (get_features m) ol nm d draws) as [[vs rest]|e] eqn:Hd; [|discriminate].
  inversion H; subst. cbn [root].
  rewrite (attrs_of_apply nm d (get_features m) vs (root m) f Hnd Hin), attrs_apply.
  pose proof (decide_values_in_domain _ _ _ _ _ _ _ Hord Hri Hd) as HF.
  pose proof (lookup_targeted ol nm _ _ _ f HF (get_features_NoDup m Hnd) (in_sub_get_features m f Hin))
    as Hl.
  destruct (lookup_value (name f) (get_features m) vs) as [v|].
  - destruct Hl as [_ (g & Hg & Hv)]. exists g. split; [exact Hg|]. rewrite Hv. reflexivity.
  - congruence.
Qed.

(* with the emptiness check of the operation the [GNone] case of [in_domain] (both lists empty, the stored
   value None) cannot occur any more: the stored value is a listed element or lies in a listed range *)
Theorem gen_attrs_in_domain_strict : forall nm d ol draws m m' f,
  ranges_ordered d -> randint_ok_pos d draws ->
  NoDup (names (root m)) -> gen_random_attribute nm (Some d) ol draws m = Ok m' ->
  In f (subfeatures (root m)) -> targeted ol nm f = true ->
  exists g, in_domain g d /\ g <> GNone /\
    attrs_of (name f) (root m')
    = Some (f_attrs (info f) ++ [{| a_name := nm; a_dom := Some d; a_default := gval_aval g; a_null := VNone |}]).
Proof.
  intros nm d ol draws m m' f Hord Hri Hnd H Hin Ht.
  destruct (gen_attrs_in_domain nm d ol draws m m' f Hord Hri Hnd H Hin Ht) as (g & Hg & Ha).
  exists g. split; [exact Hg|]. split; [|exact Ha].
  intros ->. cbn [in_domain] in Hg. destruct Hg as [He Hr].
  destruct (gen_random_domain_nonempty _ _ _ _ _ _ H) as [Hne|Hne]; apply Hne; assumption.
Qed.

(* ------------------------------------------------------------------------------------------- *)
(* 7. a concrete run                                                                           *)
(* ------------------------------------------------------------------------------------------- *)
Local Open Scope string_scope.
Local Open Scope Z_scope.

Definition ex_cost : attr :=
  {| a_name := "cost"; a_dom := None; a_default := VInt 3; a_null := VNone |}.
Definition ex_leaf_with (n : string) (a : list attr) : feature :=
  Feature {| f_name := n; f_abstract := VBool false; f_type := TBoolean; f_cmin := 1; f_cmax := 1;
             f_attrs := a |} [].
(* A -mandatory-> B -alternative-> {C, D};  A -optional-> E;  the leaf C already has "cost" *)
Definition ex_model : fm :=
  {| root := Feature (mk_info "A")
               [Relation 1 1 [Feature (mk_info "B")
                                [Relation 1 1 [ex_leaf_with "C" [ex_cost]; leaf "D"]]];
                Relation 0 1 [leaf "E"]];
     ctcs := [] |}.
Definition ex_dom : domain :=
  {| dom_ranges := [{| rg_min := VFloat "0.5"; rg_max := VFloat "2.5" |}];
     dom_elems := [VInt 1; VStr "x"] |}.
(* D: element "x", range 0, uniform 1.25 -> round(1.25, 1) = 1.2, then the range value is kept;
   E: element 1, range 0, uniform 7.0 -> clamped to the upper bound 2.5, then the range value is kept;
   the trailing DRandint is never consumed *)
Definition ex_draws : list draw :=
  [DChoice 1; DChoice 0; DUniform 5 4; DChoice 1;
   DChoice 0; DChoice 0; DUniform 7 1; DChoice 1; DRandint 9].
Definition ex_new (v : aval) : attr :=
  {| a_name := "cost"; a_dom := Some ex_dom; a_default := v; a_null := VNone |}.

(* the result: same tree, the new attribute exactly on the leaves lacking it (D and E) *)
Example ex_run :
  gen_random_attribute "cost" (Some ex_dom) true ex_draws ex_model
  = Ok {| root := Feature (mk_info "A")
                    [Relation 1 1 [Feature (mk_info "B")
                                     [Relation 1 1 [ex_leaf_with "C" [ex_cost];
                                                    ex_leaf_with "D" [ex_new (VFloat "dec 12 -1")]]]];
                     Relation 0 1 [ex_leaf_with "E" [ex_new (VFloat "2.5")]]];
          ctcs := [] |}.
Proof. vm_compute. reflexivity. Qed.

(* feature name, is-leaf, attribute names before / after *)
Example ex_run_listing :
  match gen_random_attribute "cost" (Some ex_dom) true ex_draws ex_model with
  | Ok m' => map (fun f => (name f, feat_is_leaf f, map a_name (f_attrs (info f)))) (subfeatures (root m'))
  | Err _ => []
  end
  = [("A", false, []); ("B", false, []); ("C", true, ["cost"]); ("D", true, ["cost"]); ("E", true, ["cost"])]
  /\ map (fun f => (name f, feat_is_leaf f, map a_name (f_attrs (info f)))) (subfeatures (root ex_model))
  = [("A", false, []); ("B", false, []); ("C", true, ["cost"]); ("D", true, []); ("E", true, [])].
Proof. vm_compute. split; reflexivity. Qed.

(* the hypotheses of the theorems hold on the example *)
Example ex_hyps : nodupb (names (root ex_model)) = true /\ ranges_ordered ex_dom.
Proof.
  split; [vm_compute; reflexivity|].
  unfold ranges_ordered. constructor; [vm_compute; reflexivity|constructor].
Qed.

(* the hypotheses are needed.  (a) without unique names the by-name re-attachment misses: the leaf "A"
   below the root "A" is targeted but the lookup finds the root's decision (None) first *)
Example ex_dup_names :
  let m := {| root := Feature (mk_info "A") [Relation 1 1 [leaf "A"]]; ctcs := [] |} in
  targeted true "cost" (leaf "A") = true /\
  gen_random_attribute "cost" (Some ex_dom) true ex_draws m = Ok m.
Proof. vm_compute. split; reflexivity. Qed.

(* (b) with an inverted range [2.5, 0.5] the clamp returns the upper bound 0.5, which is not inside
   the (empty) range *)
Example ex_inverted_range :
  let d := {| dom_ranges := [{| rg_min := VFloat "2.5"; rg_max := VFloat "0.5" |}]; dom_elems := [] |} in
  value_from_domain d [DChoice 0; DUniform 1 1] = Ok (GBound (VFloat "0.5"), [])
  /\ ~ in_domain (GBound (VFloat "0.5")) d.
Proof.
  split; [vm_compute; reflexivity|].
  intros (rg & q & Hin & Hq & (dlo & dhi & Hlo & Hhi & H1 & H2 & _)).
  destruct Hin as [<-|[]]. cbn [rg_min rg_max] in Hlo, Hhi.
  vm_compute in Hq, Hlo, Hhi. inversion Hq; subst. inversion Hlo; subst. vm_compute in H1. discriminate.
Qed.

(* (c) a domain without elements and without ranges is refused *)
Example gen_random_empty_domain :
  gen_random_attribute "x" (Some {| dom_ranges := []; dom_elems := [] |}) false []
                       {| root := leaf "A"; ctcs := [] |} = Err FlamaException.
Proof. vm_compute. reflexivity. Qed.

Print Assumptions gen_no_domain.
Print Assumptions dec_leb_refl.
Print Assumptions dec_leb_total.
Print Assumptions dec_leb_trans.
Print Assumptions value_in_domain_pos.
Print Assumptions value_in_domain.
Print Assumptions gen_frame.
Print Assumptions decide_values_suffix.
Print Assumptions decide_values.
Print Assumptions decide_values_in_domain.
Print Assumptions gen_attrs.
Print Assumptions gen_attrs_in_domain.
Print Assumptions gen_random_domain_nonempty.
Print Assumptions gen_attrs_in_domain_strict.
Print Assumptions gen_random_empty_domain.
Print Assumptions ex_run.
Print Assumptions ex_run_listing.
