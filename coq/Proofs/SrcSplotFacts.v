(* Proofs/SrcSplotFacts.v — the source tie for splot_writer.py (the SXFM export): the translation
   (Gen/Src_splot.v), which produces the TEXT, is equal to the hand model of Format/Export.v
   (structured document + rendering). *)
From Coq Require Import List Bool Ascii String ZArith Lia.
From FM Require Import Base.Result Base.Str Base.AstOp Model.Ast Model.FM Model.Ctc Model.Queries
     Format.Export Model.PyRt Model.Loc Gen.Src_fm Gen.Src_splot Proofs.FMFacts Proofs.SrcFmFacts.
Import ListNotations.
Local Open Scope list_scope.

(* ------------------------------------------------------------------ general helpers *)
Lemma sp_append_assoc (a b c : string) : ((a ++ b) ++ c)%string = (a ++ (b ++ c))%string.
Proof. induction a as [|x a IH]; cbn [append]; [reflexivity|]. rewrite IH. reflexivity. Qed.

Lemma sp_foldM_cons {S A} (f : S -> A -> result S) (x : A) (xs : list A) (s : S) :
  foldM f (x :: xs) s = match f s x with Err e => Err e | Ok s' => foldM f xs s' end.
Proof. reflexivity. Qed.

Lemma sp_foldM_nil {S A} (f : S -> A -> result S) (s : S) : foldM f [] s = Ok s.
Proof. reflexivity. Qed.

Lemma sp_mapM_cons {A B} (f : A -> result B) (x : A) (xs : list A) :
  mapM f (x :: xs) = match f x with
                     | Err e => Err e
                     | Ok y => match mapM f xs with Err e => Err e | Ok ys => Ok (y :: ys) end
                     end.
Proof. reflexivity. Qed.

Lemma sp_mapM_nil {A B} (f : A -> result B) : mapM f [] = Ok [].
Proof. reflexivity. Qed.

Lemma sp_flat_mapM_cons {A B} (f : A -> result (list B)) (x : A) (xs : list A) :
  py_flat_mapM f (x :: xs) = match f x with
                             | Err e => Err e
                             | Ok y => match py_flat_mapM f xs with
                                       | Err e => Err e
                                       | Ok ys => Ok (y ++ ys)
                                       end
                             end.
Proof. reflexivity. Qed.

(* a monadic flat_map whose function answers a singleton is a monadic map *)
Lemma sp_flat_mapM_mapM {A B C} (f : A -> result (list B)) (h : A -> result C) (k : C -> B)
      (l : list A) :
  (forall x, f x = rmap (fun y => [k y]) (h x)) ->
  py_flat_mapM f l = rmap (map k) (mapM h l).
Proof.
  intros H. induction l as [|x xs IH]; [reflexivity|].
  rewrite sp_flat_mapM_cons, sp_mapM_cons, H, IH.
  destruct (h x) as [y|e]; cbn [rmap]; [|reflexivity].
  destruct (mapM h xs) as [ys|e]; cbn [rmap]; reflexivity.
Qed.

Lemma sp_py_index_0 {A} (x : A) (l : list A) : py_index (x :: l) 0%Z = Ok x.
Proof. reflexivity. Qed.

(* ------------------------------------------------------------------ safename, escape *)
Lemma sp_safechar (c : ascii) : str_contains_char c py_safecharacters = is_safechar c.
Proof. destruct c as [[] [] [] [] [] [] [] []]; vm_compute; reflexivity. Qed.

Lemma sp_exists_unsafe (s : string) :
  existsb (fun c => negb (str_contains_char c py_safecharacters)) (list_ascii_of_string s)
  = negb (str_forallb is_safechar s).
Proof.
  induction s as [|c s IH]; [reflexivity|].
  cbn [list_ascii_of_string existsb str_forallb].
  rewrite IH, sp_safechar, negb_andb. reflexivity.
Qed.

Lemma src_splot_safename : forall s, py_safename s = sx_safename s.
Proof.
  intros s. unfold py_safename, sx_safename, w_safename, quote.
  destruct (String.eqb s "or"); [reflexivity|].
  rewrite sp_exists_unsafe.
  destruct (str_forallb is_safechar s); reflexivity.
Qed.

Lemma src_splot_escape : forall q s, py_xml_escape q s = xml_escape q s.
Proof.
  intros q s. induction s as [|c r IH]; [reflexivity|].
  cbn [py_xml_escape xml_escape]. rewrite IH. reflexivity.
Qed.

(* ------------------------------------------------------------------ add_features *)
Lemma sp_repeat_tabs (n : Z) : py_str_repeat (String "009"%char "") n = tabs (Z.to_nat n).
Proof.
  unfold py_str_repeat. generalize (Z.to_nat n) as k.
  induction k as [|k IH]; [reflexivity|].
  cbn [tabs]. rewrite IH. reflexivity.
Qed.

Lemma sp_tabs_snoc (n : nat) : (tabs n ++ String "009"%char "")%string = tabs (S n).
Proof.
  induction n as [|n IH]; [reflexivity|].
  change (tabs (S n)) with (String "009"%char (tabs n)).
  cbn [append]. rewrite IH. reflexivity.
Qed.

Lemma sp_sx_name_tree (f : feature) : sx_name (splot_tree f) = name f.
Proof. destruct f as [i rs]. reflexivity. Qed.

Definition sp_item_of (r : relation) : sxitem :=
  match r with
  | Relation mn mx cs =>
      if rel_is_optional r then
        match cs with c :: _ => SxSolitary true (splot_tree c) | [] => SxGroup mn mx [] end
      else if rel_is_mandatory r then
        match cs with c :: _ => SxSolitary false (splot_tree c) | [] => SxGroup mn mx [] end
      else SxGroup mn mx (map splot_tree cs)
  end.

Definition sp_member_lines (ntabs : nat) (c : sxf) : list string :=
  (tabs (S ntabs) ++ ": " ++ sx_label (sx_name c))%string :: sx_lines c (S (S ntabs)).

Definition sp_item_lines (ntabs : nat) (it : sxitem) : list string :=
  match it with
  | SxSolitary opt c =>
      (tabs ntabs ++ (if opt then ":o " else ":m ") ++ sx_label (sx_name c))%string
      :: sx_lines c (S ntabs)
  | SxGroup mn mx ms =>
      (tabs ntabs ++ ":g [" ++ z_to_string mn ++ "," ++ card_star mx ++ "]")%string
      :: flat_map (sp_member_lines ntabs) ms
  end.

Lemma sp_lines_unfold i rs ntabs :
  sx_lines (splot_tree (Feature i rs)) ntabs
  = flat_map (fun r => sp_item_lines ntabs (sp_item_of r)) rs.
Proof.
  cbn [splot_tree sx_lines]. rewrite fm_flat_map_map.
  apply flat_map_ext. intros r. destruct r as [mn mx cs]. reflexivity.
Qed.

Lemma sp_single_child (r : relation) :
  (nchildren r =? 1)%Z = true -> exists c, r_children r = [c].
Proof.
  unfold nchildren. intros H. apply Z.eqb_eq in H.
  destruct (r_children r) as [|c [|d cs]]; cbn [List.length] in H; try lia.
  exists c. reflexivity.
Qed.

Lemma sp_optional_single mn mx cs :
  rel_is_optional (Relation mn mx cs) = true -> exists c, cs = [c].
Proof.
  unfold rel_is_optional. intros H. apply andb_prop in H. destruct H as [_ H].
  apply sp_single_child in H. exact H.
Qed.

Lemma sp_mandatory_single mn mx cs :
  rel_is_mandatory (Relation mn mx cs) = true -> exists c, cs = [c].
Proof.
  unfold rel_is_mandatory. intros H. apply andb_prop in H. destruct H as [_ H].
  apply sp_single_child in H. exact H.
Qed.

Lemma src_splot_add_features : forall f anc fuel n, (fsize f <= fuel)%nat -> (0 <= n)%Z ->
  py_add_features fuel (f, anc) n = Ok (sx_lines (splot_tree f) (Z.to_nat n)).
Proof.
  intros f anc fuel. revert f anc.
  induction fuel as [|fuel IH]; intros f anc n Hsz Hn.
  { destruct f as [i rs]. cbn [fsize] in Hsz. lia. }
  destruct f as [i rs].
  cbn [py_add_features].
  rewrite sp_lines_unfold.
  rewrite (foldM_append _ (fun x : lrel => sp_item_lines (Z.to_nat n) (sp_item_of (fst x)))).
  - cbn [bind app]. unfold py_Feature_get_relations, lf_relations. cbn [fst rels].
    rewrite fm_flat_map_map. reflexivity.
  - intros s x Hx. unfold py_Feature_get_relations, lf_relations in Hx. cbn [fst rels] in Hx.
    apply in_map_iff in Hx. destruct Hx as [r [Hxr Hr]]. subst x.
    rewrite src_rel_is_optional, src_rel_is_mandatory. cbn [fst].
    rewrite !sp_repeat_tabs.
    assert (Hch : forall c, In c (r_children r) -> (fsize c <= fuel)%nat).
    { intros c Hc. pose proof (fsize_child i rs r c Hr Hc) as Hlt. lia. }
    assert (Hn1 : Z.to_nat (n + 1) = S (Z.to_nat n)) by lia.
    assert (Hn2 : Z.to_nat (n + 2) = S (S (Z.to_nat n))) by lia.
    destruct r as [mn mx cs]. unfold sp_item_of. cbn [r_children] in Hch.
    destruct (rel_is_optional (Relation mn mx cs)) eqn:Hopt.
    { destruct (sp_optional_single _ _ _ Hopt) as [c Hc]. subst cs.
      unfold lr_children. cbn [fst snd r_children map].
      rewrite sp_py_index_0. cbn [bind fst].
      rewrite (IH c _ _ (Hch c (or_introl eq_refl))) by lia.
      cbn [bind sp_item_lines]. rewrite Hn1, !src_splot_safename, sp_sx_name_tree.
      rewrite <- app_assoc. reflexivity. }
    destruct (rel_is_mandatory (Relation mn mx cs)) eqn:Hman.
    { destruct (sp_mandatory_single _ _ _ Hman) as [c Hc]. subst cs.
      unfold lr_children. cbn [fst snd r_children map].
      rewrite sp_py_index_0. cbn [bind fst].
      rewrite (IH c _ _ (Hch c (or_introl eq_refl))) by lia.
      cbn [bind sp_item_lines]. rewrite Hn1, !src_splot_safename, sp_sx_name_tree.
      rewrite <- app_assoc. reflexivity. }
    cbn [r_min r_max].
    rewrite (foldM_append _ (fun c : lfeat => sp_member_lines (Z.to_nat n) (splot_tree (fst c)))).
    + cbn [bind sp_item_lines]. unfold lr_children. cbn [fst snd r_children].
      rewrite !fm_flat_map_map. cbn [fst]. rewrite <- app_assoc. reflexivity.
    + intros s' y Hy. unfold lr_children in Hy. cbn [fst snd r_children] in Hy.
      apply in_map_iff in Hy. destruct Hy as [c [Hyc Hc]]. subst y. cbn [fst].
      rewrite (IH c _ _ (Hch c Hc)) by lia.
      cbn [bind]. rewrite Hn2, !src_splot_safename, sp_tabs_snoc.
      unfold sp_member_lines. rewrite sp_sx_name_tree, <- app_assoc. reflexivity.
Qed.

(* ------------------------------------------------------------------ add_constraints *)
(* the clause lines, as render_splot prints them *)
Fixpoint clause_lines (i : Z) (cls : list (list (bool * string))) : list string :=
  match cls with
  | [] => []
  | cl :: rest =>
      (tab ++ "C" ++ z_to_string i ++ ": "
       ++ str_join " or " (map (fun l : bool * string => if fst l then "~" ++ sx_safename (snd l) else sx_safename (snd l)) cl))%string
      :: clause_lines (i + 1)%Z rest
  end.

Definition sp_lit_str (l : bool * string) : string :=
  if fst l then ("~" ++ sx_safename (snd l))%string else sx_safename (snd l).

Definition sp_clause_line (i : Z) (cl : list (bool * string)) : string :=
  (tab ++ "C" ++ z_to_string i ++ ": " ++ str_join " or " (map sp_lit_str cl))%string.

Lemma sp_clause_lines_cons i cl rest :
  clause_lines i (cl :: rest) = sp_clause_line i cl :: clause_lines (i + 1)%Z rest.
Proof. reflexivity. Qed.

Lemma sp_clause_lines_app a : forall i b,
  clause_lines i (a ++ b) = clause_lines i a ++ clause_lines (i + Z.of_nat (List.length a))%Z b.
Proof.
  induction a as [|cl a IH]; intros i b.
  - cbn [app List.length clause_lines Z.of_nat]. rewrite Z.add_0_r. reflexivity.
  - cbn [app]. rewrite !sp_clause_lines_cons, IH. cbn [app List.length].
    replace (i + 1 + Z.of_nat (List.length a))%Z with (i + Z.of_nat (S (List.length a)))%Z by lia.
    reflexivity.
Qed.

Lemma sp_literal_cons (c : ascii) (r : string) :
  splot_literal (DStr (String c r))
  = if Ascii.eqb "-" c then Ok (true, r) else Ok (false, String c r).
Proof. destruct c as [[] [] [] [] [] [] [] []]; reflexivity. Qed.

(* the loop over the clauses of one constraint: state (lines, index) *)
Lemma sp_foldM_clauses {A} (step : list string * Z -> A -> result (list string * Z))
      (h : A -> result (list (bool * string))) (l : list A) :
  (forall ls i x, step (ls, i) x = rmap (fun y => (ls ++ [sp_clause_line i y], (i + 1)%Z)) (h x)) ->
  forall ls i,
    foldM step l (ls, i)
    = rmap (fun ys => (ls ++ clause_lines i ys, (i + Z.of_nat (List.length ys))%Z)) (mapM h l).
Proof.
  intros H. induction l as [|x xs IH]; intros ls i.
  - rewrite sp_foldM_nil, sp_mapM_nil. cbn [rmap clause_lines List.length Z.of_nat].
    rewrite app_nil_r, Z.add_0_r. reflexivity.
  - rewrite sp_foldM_cons, sp_mapM_cons, H.
    destruct (h x) as [y|e]; cbn [rmap]; [|reflexivity].
    rewrite IH. destruct (mapM h xs) as [ys|e]; cbn [rmap]; [|reflexivity].
    rewrite sp_clause_lines_cons, <- app_assoc. cbn [app List.length].
    replace (i + 1 + Z.of_nat (List.length ys))%Z with (i + Z.of_nat (S (List.length ys)))%Z by lia.
    reflexivity.
Qed.

(* the loop over the constraints: state (index, lines) *)
Lemma sp_foldM_ctcs {A} (step : Z * list string -> A -> result (Z * list string))
      (h : A -> result (list (list (bool * string)))) (l : list A) :
  (forall i ls x, step (i, ls) x
                  = rmap (fun ys => ((i + Z.of_nat (List.length ys))%Z, ls ++ clause_lines i ys)) (h x)) ->
  forall i ls,
    foldM step l (i, ls)
    = rmap (fun yss => ((i + Z.of_nat (List.length (List.concat yss)))%Z, ls ++ clause_lines i (List.concat yss)))
           (mapM h l).
Proof.
  intros H. induction l as [|x xs IH]; intros i ls.
  - rewrite sp_foldM_nil, sp_mapM_nil. cbn [rmap List.concat clause_lines List.length Z.of_nat].
    rewrite app_nil_r, Z.add_0_r. reflexivity.
  - rewrite sp_foldM_cons, sp_mapM_cons, H.
    destruct (h x) as [ys|e]; cbn [rmap]; [|reflexivity].
    rewrite IH. destruct (mapM h xs) as [yss|e]; cbn [rmap]; [|reflexivity].
    cbn [List.concat]. rewrite sp_clause_lines_app, app_length, <- app_assoc, Nat2Z.inj_add, Z.add_assoc.
    reflexivity.
Qed.

Lemma src_splot_add_constraints : forall cs, py_add_constraints cs = rmap (clause_lines 1%Z) (splot_clauses cs).
Proof.
  intros cs. unfold py_add_constraints. cbv zeta.
  rewrite (sp_foldM_ctcs _ (fun c => match get_clauses (c_ast c) with
                                     | Err e => Err e
                                     | Ok cls => mapM (mapM splot_literal) cls
                                     end)).
  - unfold splot_clauses.
    destruct (mapM _ cs) as [yss|e]; reflexivity.
  - intros i ls c. cbv beta iota.
    destruct (get_clauses (c_ast c)) as [cls|e]; cbn [bind rmap]; [|reflexivity].
    rewrite (sp_foldM_clauses _ (mapM splot_literal)).
    + destruct (mapM (mapM splot_literal) cls) as [ys|e]; reflexivity.
    + intros ls' i' cl. cbv beta iota.
      rewrite (sp_flat_mapM_mapM _ splot_literal sp_lit_str).
      * destruct (mapM splot_literal cl) as [y|e]; reflexivity.
      * intros t. destruct t as [o|s|z|r|b]; try reflexivity.
        cbn [bind]. rewrite !src_splot_safename.
        destruct s as [|ch r]; [reflexivity|].
        rewrite sp_literal_cons. cbn [starts_with_char str_drop].
        destruct (Ascii.eqb "-" ch); reflexivity.
Qed.

(* ------------------------------------------------------------------ fm_to_splot *)
Lemma sp_render (d : splot_doc) :
  render_splot d
  = str_join nl
      (["<?xml version=""1.0"" encoding=""UTF-8"" standalone=""no""?>"%string;
        ("<feature_model name=""" ++ xml_escape true (sp_model_name d) ++ """>")%string;
        "<feature_tree>"%string]
       ++ map (xml_escape false)
              ((":r " ++ sx_label (sx_name (sp_root d)))%string :: sx_lines (sp_root d) 1)
       ++ ["</feature_tree>"%string; "<constraints>"%string]
       ++ map (xml_escape false) (clause_lines 1%Z (sp_clauses d))
       ++ ["</constraints>"%string; "</feature_model>"%string]).
Proof. reflexivity. Qed.

Lemma sp_map_escape (l : list string) :
  flat_map (fun line => [py_xml_escape false line]) l = map (xml_escape false) l.
Proof.
  rewrite fm_flat_map_single. apply map_ext. intros s. apply src_splot_escape.
Qed.

Theorem src_fm_to_splot : forall m fuel, (fuel_tree (root m) <= fuel)%nat -> py_fm_to_splot fuel m = splot_text m.
Proof.
  intros m fuel Hfuel. unfold py_fm_to_splot, splot_text, splot_write. cbv zeta.
  unfold fm_root_l. cbn [fst].
  rewrite src_splot_add_features; [|unfold fuel_tree in Hfuel; lia|lia].
  rewrite src_splot_add_constraints. cbn [bind].
  destruct (splot_clauses (ctcs m)) as [cl|e]; cbn [rmap bind]; [|reflexivity].
  rewrite sp_render. cbn [sp_model_name sp_root sp_clauses].
  rewrite !sp_map_escape, !src_splot_escape, !src_splot_safename, sp_sx_name_tree.
  change (Z.to_nat 1) with 1%nat.
  f_equal. f_equal.
  repeat rewrite <- app_assoc. cbn [app map]. reflexivity.
Qed.

Print Assumptions src_splot_safename.
Print Assumptions src_splot_escape.
Print Assumptions src_splot_add_features.
Print Assumptions src_splot_add_constraints.
Print Assumptions src_fm_to_splot.
