(* Proofs/SrcTieC13.v — C13 stated about the TRANSLATED SOURCE (Gen/Src_ops.v, Gen/Src_opobj.v): a Src
   equality (translated definition = hand model, any input) combined with the theorem about the hand model. *)
From Coq Require Import List Bool String ZArith Permutation Lia.
From FM Require Import Base.Result Model.FM Model.Queries Model.Sem Model.Ops Model.PyRt Model.Loc
     Gen.Src_fm Gen.Src_ops Gen.Src_opobj Proofs.C13Facts Proofs.SrcEstimateFacts.
Import ListNotations.
Local Open Scope list_scope.

(* the operation object, in ANY state (any history of earlier executions), reports the function's value *)
Lemma src_obj_estimate : forall fuel s m,
  rmap py_FMEstimatedConfigurationsNumber_get_result (py_FMEstimatedConfigurationsNumber_execute fuel s m)
  = py_count_configurations fuel m.
Proof.
  intros fuel s m. unfold py_FMEstimatedConfigurationsNumber_execute,
    py_FMEstimatedConfigurationsNumber_get_configurations_number. cbn.
  destruct (py_count_configurations fuel m); reflexivity.
Qed.

(* ---- C13 ---- *)
Lemma source_estimate_exact : forall m fuel, (fuel_tree (root m) <= fuel)%nat -> cards_sane (root m) ->
  py_count_configurations fuel m = Ok (Z.of_nat (List.length (confs (root m)))).
Proof. intros m fuel Hf Hs. rewrite src_count_configurations by exact Hf. now rewrite estimate_counts. Qed.

Lemma source_estimate_upper : forall m fuel (p : list bool -> bool), (fuel_tree (root m) <= fuel)%nat ->
  cards_sane (root m) ->
  exists n, py_count_configurations fuel m = Ok n /\ (Z.of_nat (List.length (filter p (confs (root m)))) <= n)%Z.
Proof.
  intros m fuel p Hf Hs. exists (estimate (root m)). split.
  - now apply src_count_configurations.
  - now apply estimate_upper.
Qed.

(* the operation object, in any state, reports that number *)
Lemma source_estimate_object : forall m fuel s, (fuel_tree (root m) <= fuel)%nat -> cards_sane (root m) ->
  rmap py_FMEstimatedConfigurationsNumber_get_result (py_FMEstimatedConfigurationsNumber_execute fuel s m)
  = Ok (Z.of_nat (List.length (confs (root m)))).
Proof. intros. rewrite src_obj_estimate. now apply source_estimate_exact. Qed.

