(* Proofs/SrcTieC05.v — C05 stated about the TRANSLATED SOURCE of json_writer.py (Gen/Src_json.v). *)
From Coq Require Import List Bool String ZArith.
From FM Require Import Base.Result Model.FM Model.PFM Model.PyRt Model.Loc Format.Json Gen.Src_json
     Proofs.C16Facts Proofs.JsonFacts Proofs.SrcJsonFacts.
Import ListNotations.
Local Open Scope list_scope.

Lemma source_json_roundtrip : forall m fuel, (fuel_fm m <= fuel)%nat -> json_ok m = true ->
  rels_nonempty (root m) ->
  exists d, py_to_json fuel m = Ok d /\ json_read d = Ok (annotate_fm m).
Proof.
  intros m fuel Hf Hok Hne. destruct (json_roundtrip m Hok Hne) as (d & Hw & Hr).
  exists d. split; [|exact Hr]. rewrite src_to_json by exact Hf. exact Hw.
Qed.
