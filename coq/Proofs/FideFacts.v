(* Proofs/FideFacts.v — FeatureIDE XML: reader well-formedness (C02), writer/reader round trip (C07),
   independence of surface syntax (C09). *)
From Coq Require Import List Bool Ascii String ZArith Lia Permutation.
From FM Require Import Base.Result Base.Str Base.AstOp Model.Ast Model.FM Model.PFM Model.Queries
     Model.Sem Gen.Tables_fide Format.Xml Proofs.QueriesFacts.
Import ListNotations.
Local Open Scope list_scope.

(* ------------------------------------------------------------------ induction principles *)
Section XmlInd.
  Variable P : xml -> Prop.
  Hypothesis HE : forall tag attrs text kids, Forall P kids -> P (Elem tag attrs text kids).
  Fixpoint xml_ind2 (x : xml) : P x :=
    match x with
    | Elem tag attrs text kids =>
        HE tag attrs text kids
           ((fix go (l : list xml) : Forall P l :=
               match l with
               | [] => Forall_nil P
               | k :: l' => Forall_cons k (xml_ind2 k) (go l')
               end) kids)
    end.
End XmlInd.

Lemma fnode_ind2 (P : node -> Prop) :
  (forall d, P (Node d None None)) ->
  (forall d a, P a -> P (Node d (Some a) None)) ->
  (forall d b, P b -> P (Node d None (Some b))) ->
  (forall d a b, P a -> P b -> P (Node d (Some a) (Some b))) ->
  forall n, P n.
Proof.
  intros H0 H1 H2 H3. fix IH 1. intros [d [a|] [b|]].
  - apply H3; apply IH.
  - apply H1; apply IH.
  - apply H2; apply IH.
  - apply H0.
Qed.

(* ------------------------------------------------------------------ the reader, un-nested *)
Definition fide_mypath (pia is_struct : bool) (here : path) (p : nat) : path :=
  if is_struct then [] else if pia then here ++ [(p, 0%nat)] else here ++ [(0%nat, p)].

Definition fide_own (child : xml) (my_path : path) : result (list prelation) :=
  let ctag := x_tag child in
  if String.eqb ctag fide_TAG_ALT || String.eqb ctag fide_TAG_OR then
    match fide_read_features child my_path (PPath my_path) false with
    | Err e => Err e
    | Ok dc =>
        let cs := map fst dc in
        Ok [PRelation (PPath my_path) 1%Z
              (if String.eqb ctag fide_TAG_ALT then 1%Z else Z.of_nat (List.length cs)) cs]
    end
  else if String.eqb ctag fide_TAG_AND then
    match fide_read_features child my_path (PPath my_path) false with
    | Err e => Err e
    | Ok dc =>
        Ok (map (fun fm_ : pfeature * bool =>
                   PRelation (PPath my_path) (if snd fm_ then 1%Z else 0%Z) 1%Z [fst fm_]) dc)
    end
  else Ok [].

Definition attr_true (k : string) (attrs : list (string * string)) : bool :=
  match sassoc k attrs with Some v => String.eqb v "true" | None => false end.

Definition fide_info_of (attrs : list (string * string)) (nm : string) : finfo :=
  {| f_name := nm; f_abstract := VBool (attr_true fide_ATTRIB_ABSTRACT attrs); f_type := TBoolean;
     f_cmin := 1; f_cmax := 1; f_attrs := [] |}.

Definition fide_one (child : xml) (my_path : path) (parent : ptr) : result (pfeature * bool) :=
  match sassoc fide_ATTRIB_NAME (x_attrs child) with
  | None => Err KeyError
  | Some nm =>
      match fide_own child my_path with
      | Err e => Err e
      | Ok rels_ => Ok (PFeature (fide_info_of (x_attrs child) nm) parent [] rels_,
                        attr_true fide_ATTRIB_MANDATORY (x_attrs child))
      end
  end.

Fixpoint fide_go (pia is_struct : bool) (here : path) (parent : ptr) (p : nat) (kids : list xml)
  : result (list (pfeature * bool)) :=
  match kids with
  | [] => Ok []
  | child :: rest =>
      if fide_skipped child then fide_go pia is_struct here parent p rest
      else match fide_one child (fide_mypath pia is_struct here p) parent with
           | Err e => Err e
           | Ok x => match fide_go pia is_struct here parent (S p) rest with
                     | Err e => Err e
                     | Ok others => Ok (x :: others)
                     end
           end
  end.

Lemma fide_read_features_eq : forall rtag a t kids here parent is_struct,
  fide_read_features (Elem rtag a t kids) here parent is_struct =
  match fide_go (String.eqb rtag fide_TAG_AND && negb is_struct) is_struct here parent 0 kids with
  | Err e => Err e
  | Ok [] => Err FlamaException
  | Ok l => Ok l
  end.
Proof.
  intros rtag a t kids here parent is_struct.
  cbn [fide_read_features].
  match goal with
  | |- match ?g 0%nat kids with _ => _ end = _ =>
      assert (Hgo : forall ks p,
                 g p ks = fide_go (String.eqb rtag fide_TAG_AND && negb is_struct) is_struct here parent p ks)
  end.
  { induction ks as [|child rest IH]; intros p; [reflexivity|].
    cbn [fide_go]. lazy beta iota. destruct (fide_skipped child) eqn:Hsk.
    - rewrite <- IH. reflexivity.
    - unfold fide_one, fide_own, fide_mypath, attr_true, fide_info_of.
      destruct (sassoc fide_ATTRIB_NAME (x_attrs child)) as [nm|]; [|reflexivity].
      rewrite <- IH.
      destruct (String.eqb (x_tag child) fide_TAG_ALT || String.eqb (x_tag child) fide_TAG_OR).
      + destruct (fide_read_features child _ _ false); reflexivity.
      + destruct (String.eqb (x_tag child) fide_TAG_AND).
        * destruct (fide_read_features child _ _ false); reflexivity.
        * reflexivity. }
  rewrite Hgo. reflexivity.
Qed.

(* ------------------------------------------------------------------ ptr_wf_at, un-nested *)
Fixpoint wf_goc (here : path) (k j : nat) (cs : list pfeature) : bool :=
  match cs with
  | [] => true
  | c :: cs' => ptr_wf_at (here ++ [(k, j)]) (PPath here) c && wf_goc here k (S j) cs'
  end.
Fixpoint wf_go (here : path) (k : nat) (rs : list prelation) : bool :=
  match rs with
  | [] => true
  | PRelation rp _ _ cs :: rs' => ptr_eqb rp (PPath here) && wf_goc here k 0 cs && wf_go here (S k) rs'
  end.

Lemma ptr_wf_at_eq : forall here expected i p ap rs,
  ptr_wf_at here expected (PFeature i p ap rs) =
  ptr_eqb p expected && forallb (ptr_eqb (PPath here)) ap
  && Nat.eqb (List.length ap) (List.length (f_attrs i)) && wf_go here 0 rs.
Proof.
  intros here expected i p ap rs. cbn [ptr_wf_at]. f_equal.
  match goal with
  | |- ?g 0%nat rs = _ => enough (H : forall rs k, g k rs = wf_go here k rs) by apply H
  end.
  clear rs. induction rs as [|[rp a b cs] rs IH]; intros k; [reflexivity|].
  cbn [wf_go]. lazy beta iota. rewrite <- IH. f_equal. f_equal.
  match goal with
  | |- ?g 0%nat cs = _ => enough (H : forall cs j, g j cs = wf_goc here k j cs) by apply H
  end.
  clear. induction cs as [|c cs IHc]; intros j; [reflexivity|].
  cbn [wf_goc]. lazy beta iota. rewrite <- IHc. reflexivity.
Qed.

Lemma path_eqb_refl : forall p, path_eqb p p = true.
Proof.
  induction p as [|[i j] p IH]; [reflexivity|].
  cbn. rewrite !Nat.eqb_refl. exact IH.
Qed.
Lemma ptr_eqb_refl : forall p, ptr_eqb p p = true.
Proof. intros [|p|]; cbn; auto using path_eqb_refl. Qed.

(* ================================================================== Part 1: C02 *)

(* the list returned for child positions p, p+1, ... : every feature is well-formed at the path
   the reader computed for its position (and carries [parent], which [ptr_wf_at] checks first) *)
Fixpoint feats_ok (pathof : nat -> path) (parent : ptr) (p : nat) (l : list (pfeature * bool)) : Prop :=
  match l with
  | [] => True
  | x :: l' => ptr_wf_at (pathof p) parent (fst x) = true /\ rels_nonempty_p (fst x) = true
               /\ feats_ok pathof parent (S p) l'
  end.

Lemma feats_ok_goc : forall mp par dc j,
  feats_ok (fide_mypath false false mp) par j dc -> par = PPath mp ->
  wf_goc mp 0 j (map fst dc) = true.
Proof.
  intros mp par dc. induction dc as [|x dc IH]; intros j H Hp; [reflexivity|].
  cbn [map wf_goc]. destruct H as (H1 & _ & H3). subst par.
  cbn [fide_mypath] in H1. rewrite H1. cbn [andb]. apply IH; auto.
Qed.

Lemma feats_ok_go : forall mp par dc k,
  feats_ok (fide_mypath true false mp) par k dc -> par = PPath mp ->
  wf_go mp k (map (fun fm_ : pfeature * bool =>
                     PRelation (PPath mp) (if snd fm_ then 1%Z else 0%Z) 1%Z [fst fm_]) dc) = true.
Proof.
  intros mp par dc. induction dc as [|x dc IH]; intros k H Hp; [reflexivity|].
  cbn [map wf_go wf_goc]. destruct H as (H1 & _ & H3). subst par.
  cbn [fide_mypath] in H1. rewrite H1. cbn [ptr_eqb]. rewrite path_eqb_refl. cbn [andb].
  apply IH; auto.
Qed.

Lemma feats_ok_nonempty : forall pathof par dc k,
  feats_ok pathof par k dc -> forallb rels_nonempty_p (map fst dc) = true.
Proof.
  intros pathof par dc. induction dc as [|x dc IH]; intros k H; [reflexivity|].
  destruct H as (_ & H2 & H3). cbn [map forallb]. rewrite H2. cbn [andb]. eauto.
Qed.

Lemma rels_nonempty_p_eq : forall i p a rs,
  rels_nonempty_p (PFeature i p a rs) =
  forallb (fun r => negb (Nat.eqb (List.length (pr_children r)) 0)
                    && forallb rels_nonempty_p (pr_children r)) rs.
Proof.
  intros i p a rs. cbn [rels_nonempty_p].
  induction rs as [|[rp x y cs] rs IH]; [reflexivity|].
  cbn [forallb pr_children]. rewrite IH. reflexivity.
Qed.

Lemma feats_ok_and_nonempty : forall pathof par mp dc k,
  feats_ok pathof par k dc ->
  forallb (fun r => negb (Nat.eqb (List.length (pr_children r)) 0)
                    && forallb rels_nonempty_p (pr_children r))
          (map (fun fm_ : pfeature * bool =>
                  PRelation (PPath mp) (if snd fm_ then 1%Z else 0%Z) 1%Z [fst fm_]) dc) = true.
Proof.
  intros pathof par mp dc. induction dc as [|d dc IHd]; intros k Hok; [reflexivity|].
  destruct Hok as (_ & H2 & H3). cbn [map forallb pr_children List.length Nat.eqb negb].
  rewrite H2. cbn [andb]. eauto.
Qed.

Lemma tag_alt_not_and : forall t, String.eqb t fide_TAG_ALT || String.eqb t fide_TAG_OR = true ->
  String.eqb t fide_TAG_AND = false.
Proof.
  intros t H. apply orb_true_iff in H. destruct H as [H|H]; apply String.eqb_eq in H; subst t; reflexivity.
Qed.

Definition feats_wf_stmt (x : xml) : Prop :=
  forall here parent is_struct l,
    fide_read_features x here parent is_struct = Ok l ->
    l <> [] /\
    feats_ok (fide_mypath (String.eqb (x_tag x) fide_TAG_AND && negb is_struct) is_struct here) parent 0 l.

Lemma fide_one_wf : forall child mp parent f m,
  feats_wf_stmt child ->
  fide_one child mp parent = Ok (f, m) ->
  ptr_wf_at mp parent f = true /\ rels_nonempty_p f = true.
Proof.
  intros child mp parent f m IH H. unfold fide_one in H.
  destruct (sassoc fide_ATTRIB_NAME (x_attrs child)) as [nm|]; [|discriminate].
  destruct (fide_own child mp) as [rels_|e] eqn:Hown; [|discriminate].
  injection H as Hf Hm. subst f. rewrite ptr_wf_at_eq, rels_nonempty_p_eq.
  rewrite ptr_eqb_refl. cbn [forallb List.length fide_info_of f_attrs Nat.eqb andb].
  unfold fide_own in Hown.
  destruct (String.eqb (x_tag child) fide_TAG_ALT || String.eqb (x_tag child) fide_TAG_OR) eqn:Hao.
  - destruct (fide_read_features child mp (PPath mp) false) as [dc|e] eqn:Hrf; [|discriminate].
    injection Hown as Hr. subst rels_.
    destruct (IH _ _ _ _ Hrf) as [Hne Hok].
    rewrite (tag_alt_not_and _ Hao) in Hok. cbn [andb] in Hok.
    cbn [wf_go forallb pr_children ptr_eqb]. rewrite path_eqb_refl.
    rewrite (feats_ok_goc mp (PPath mp) dc 0 Hok eq_refl).
    rewrite (feats_ok_nonempty _ _ _ _ Hok).
    destruct dc as [|d dc]; [congruence|]. split; reflexivity.
  - destruct (String.eqb (x_tag child) fide_TAG_AND) eqn:Hand.
    + destruct (fide_read_features child mp (PPath mp) false) as [dc|e] eqn:Hrf; [|discriminate].
      injection Hown as Hr. subst rels_.
      destruct (IH _ _ _ _ Hrf) as [Hne Hok].
      rewrite Hand in Hok. cbn [andb negb] in Hok.
      rewrite (feats_ok_go mp (PPath mp) dc 0 Hok eq_refl). split; [reflexivity|].
      eapply feats_ok_and_nonempty; eauto.
    + injection Hown as Hr. subst rels_. split; reflexivity.
Qed.

Lemma fide_go_wf : forall pia st here parent kids,
  Forall feats_wf_stmt kids ->
  forall p l, fide_go pia st here parent p kids = Ok l ->
  feats_ok (fide_mypath pia st here) parent p l.
Proof.
  intros pia st here parent kids HF.
  induction HF as [|child rest Hc _ IH]; intros p l H.
  - cbn in H. injection H as <-. exact I.
  - cbn [fide_go] in H. destruct (fide_skipped child); [eauto|].
    destruct (fide_one child (fide_mypath pia st here p) parent) as [[f m]|e] eqn:H1; [|discriminate].
    destruct (fide_go pia st here parent (S p) rest) as [others|e] eqn:H2; [|discriminate].
    injection H as <-. cbn [feats_ok fst].
    destruct (fide_one_wf _ _ _ _ _ Hc H1) as [Ha Hb]. auto.
Qed.

Lemma fide_read_features_wf : forall x, feats_wf_stmt x.
Proof.
  induction x as [rtag a t kids IH] using xml_ind2.
  intros here parent is_struct l H. rewrite fide_read_features_eq in H.
  destruct (fide_go (String.eqb rtag fide_TAG_AND && negb is_struct) is_struct here parent 0 kids)
    as [l0|e] eqn:Hgo; [|discriminate].
  destruct l0 as [|x0 l0]; [discriminate|]. injection H as <-.
  split; [discriminate|]. cbn [x_tag]. eapply fide_go_wf; eauto.
Qed.

(* constraints *)
Definition rule_fold (o : astop) : node -> list xml -> result node :=
  fix go (acc : node) (ks : list xml) : result node :=
    match ks with
    | [] => Ok acc
    | k :: ks' => match fide_parse_rule k with
                  | Err e => Err e
                  | Ok n => go (bin o acc n) ks'
                  end
    end.

Definition rule_sub (kids : list xml) (i : nat) : result node :=
  match nth_error kids i with Some k => fide_parse_rule k | None => Err IndexError end.

Lemma fide_parse_rule_eq : forall tag a text kids,
  fide_parse_rule (Elem tag a text kids) =
  if String.eqb tag fide_TAG_VAR then
    match text with Some t => Ok (term t) | None => Err FlamaException end
  else if String.eqb tag fide_TAG_NOT then
    match rule_sub kids 0 with Err e => Err e | Ok a => Ok (un NOT a) end
  else if String.eqb tag fide_TAG_IMP then
    match rule_sub kids 0 with Err e => Err e | Ok a =>
    match rule_sub kids 1 with Err e => Err e | Ok b => Ok (bin IMPLIES a b) end end
  else if String.eqb tag fide_TAG_EQ then
    match rule_sub kids 0 with Err e => Err e | Ok a =>
    match rule_sub kids 1 with Err e => Err e | Ok b =>
      Ok (bin AND (bin IMPLIES a b) (bin IMPLIES b a)) end end
  else if String.eqb tag fide_TAG_DISJ || String.eqb tag fide_TAG_CONJ then
    match kids with
    | [] => Err IndexError
    | k0 :: ks =>
        match fide_parse_rule k0 with
        | Err e => Err e
        | Ok n0 => rule_fold (if String.eqb tag fide_TAG_DISJ then OR else AND) n0 ks
        end
    end
  else Err UnboundLocalError.
Proof.
  intros tag a text kids. cbn [fide_parse_rule]. cbv zeta.
  destruct kids as [|k0 [|k1 ks]]; reflexivity.
Qed.

Fixpoint first_unskipped (l : list xml) : result xml :=
  match l with
  | [] => Err IndexError
  | x :: l' => if fide_skipped x then first_unskipped l' else Ok x
  end.

Fixpoint read_rules (number : Z) (rules : list xml) : result (list ctc) :=
  match rules with
  | [] => Ok []
  | r :: rest =>
      match first_unskipped (x_children r) with
      | Err e => Err e
      | Ok rule =>
          match fide_parse_rule rule with Err e => Err e | Ok n =>
          match read_rules (number + 1)%Z rest with Err e => Err e | Ok cs =>
            Ok ({| c_name := z_to_string number; c_ast := n |} :: cs) end end
      end
  end.

Lemma fide_read_constraints_eq : forall x, fide_read_constraints x = read_rules 1%Z (x_children x).
Proof. reflexivity. Qed.

Fixpoint read_doc (kids : list xml) (root_ : option pfeature) (cs : list ctc) : result pfm :=
  match kids with
  | [] => match root_ with
          | None => Err FlamaException
          | Some r => Ok {| proot := r; pctcs := cs |}
          end
  | k :: rest =>
      if String.eqb (x_tag k) fide_TAG_STRUCT then
        match fide_read_features k [] PNone true with
        | Err e => Err e
        | Ok l => read_doc rest (option_map fst (last (map Some l) None)) cs
        end
      else if String.eqb (x_tag k) fide_TAG_CONSTRAINTS then
        match fide_read_constraints k with Err e => Err e | Ok c => read_doc rest root_ (cs ++ c) end
      else read_doc rest root_ cs
  end.

Lemma fide_read_eq : forall doc, fide_read doc = read_doc (x_children doc) None [].
Proof. reflexivity. Qed.

Definition rule_shape_stmt (x : xml) : Prop :=
  forall n, fide_parse_rule x = Ok n -> node_shape_ok n = true.

Lemma rule_sub_shape : forall kids i n,
  Forall rule_shape_stmt kids -> rule_sub kids i = Ok n -> node_shape_ok n = true.
Proof.
  intros kids i n HF H. unfold rule_sub in H.
  destruct (nth_error kids i) as [k|] eqn:Hn; [|discriminate].
  apply nth_error_In in Hn. rewrite Forall_forall in HF. exact (HF _ Hn _ H).
Qed.

Lemma rule_fold_shape : forall o ks, Forall rule_shape_stmt ks -> astop_eqb o NOT = false ->
  forall acc n, node_shape_ok acc = true -> rule_fold o acc ks = Ok n -> node_shape_ok n = true.
Proof.
  intros o ks HF Ho. induction HF as [|k ks Hk _ IH]; intros acc n Hacc H.
  - cbn in H. injection H as <-. exact Hacc.
  - cbn [rule_fold] in H. destruct (fide_parse_rule k) as [m|e] eqn:Hm; [|discriminate].
    apply IH in H; [exact H|]. cbn [node_shape_ok bin]. rewrite Ho, Hacc, (Hk _ Hm). reflexivity.
Qed.

Lemma fide_parse_rule_shape : forall x, rule_shape_stmt x.
Proof.
  induction x as [tag a text kids IH] using xml_ind2. intros n H.
  rewrite fide_parse_rule_eq in H.
  destruct (String.eqb tag fide_TAG_VAR).
  { destruct text; [|discriminate]. injection H as <-. reflexivity. }
  destruct (String.eqb tag fide_TAG_NOT).
  { destruct (rule_sub kids 0) as [x|e] eqn:H0; [|discriminate]. injection H as <-.
    cbn. eapply rule_sub_shape; eauto. }
  destruct (String.eqb tag fide_TAG_IMP).
  { destruct (rule_sub kids 0) as [x|e] eqn:H0; [|discriminate].
    destruct (rule_sub kids 1) as [y|e] eqn:H1; [|discriminate]. injection H as <-.
    cbn. rewrite (rule_sub_shape _ _ _ IH H0), (rule_sub_shape _ _ _ IH H1). reflexivity. }
  destruct (String.eqb tag fide_TAG_EQ).
  { destruct (rule_sub kids 0) as [x|e] eqn:H0; [|discriminate].
    destruct (rule_sub kids 1) as [y|e] eqn:H1; [|discriminate]. injection H as <-.
    cbn. rewrite (rule_sub_shape _ _ _ IH H0), (rule_sub_shape _ _ _ IH H1). reflexivity. }
  destruct (String.eqb tag fide_TAG_DISJ || String.eqb tag fide_TAG_CONJ); [|discriminate].
  destruct kids as [|k0 ks]; [discriminate|].
  destruct (fide_parse_rule k0) as [n0|e] eqn:H0; [|discriminate].
  inversion IH as [|? ? Hk0 Hks]; subst.
  eapply rule_fold_shape; [exact Hks| |exact (Hk0 _ H0)|exact H].
  destruct (String.eqb tag fide_TAG_DISJ); reflexivity.
Qed.

Lemma read_rules_shape : forall rules k cs,
  read_rules k rules = Ok cs -> forallb (fun c => node_shape_ok (c_ast c)) cs = true.
Proof.
  induction rules as [|r rest IH]; intros k cs H.
  - cbn in H. injection H as <-. reflexivity.
  - cbn [read_rules] in H.
    destruct (first_unskipped (x_children r)) as [rule|e]; [|discriminate].
    destruct (fide_parse_rule rule) as [n|e] eqn:Hn; [|discriminate].
    destruct (read_rules (k + 1) rest) as [cs'|e] eqn:Hr; [|discriminate].
    injection H as <-. cbn [forallb c_ast]. rewrite (fide_parse_rule_shape _ _ Hn). cbn [andb]. eauto.
Qed.

(* the root is the last feature read below <struct> *)
Lemma last_some_in : forall (l : list (pfeature * bool)) r,
  option_map fst (last (map Some l) None) = Some r -> exists m, In (r, m) l.
Proof.
  induction l as [|x l IH]; intros r H; [discriminate|].
  destruct l as [|y l].
  - cbn in H. injection H as <-. exists (snd x). left. destruct x; reflexivity.
  - change (last (map Some (x :: y :: l)) None) with (last (map Some (y :: l)) None) in H.
    destruct (IH _ H) as [m Hm]. exists m. right. exact Hm.
Qed.

Lemma feats_ok_struct_in : forall pia here par l p f m,
  feats_ok (fide_mypath pia true here) par p l -> In (f, m) l ->
  ptr_wf_at [] par f = true /\ rels_nonempty_p f = true.
Proof.
  intros pia here par l. induction l as [|x l IH]; intros p f m H Hin; [destruct Hin|].
  destruct H as (H1 & H2 & H3). destruct Hin as [->|Hin]; [auto|eauto].
Qed.

Definition doc_inv (root_ : option pfeature) (cs : list ctc) : Prop :=
  (forall r, root_ = Some r -> ptr_wf_at [] PNone r = true /\ rels_nonempty_p r = true)
  /\ forallb (fun c => node_shape_ok (c_ast c)) cs = true.

Lemma read_doc_inv : forall kids root_ cs pm,
  doc_inv root_ cs -> read_doc kids root_ cs = Ok pm ->
  ptr_wf pm = true /\ rels_nonempty_p (proot pm) = true
  /\ forallb (fun c => node_shape_ok (c_ast c)) (pctcs pm) = true.
Proof.
  induction kids as [|k rest IH]; intros root_ cs pm [Hr Hc] H.
  - cbn in H. destruct root_ as [r|]; [|discriminate]. injection H as <-.
    destruct (Hr r eq_refl) as [H1 H2]. unfold ptr_wf. cbn [proot pctcs]. auto.
  - cbn [read_doc] in H. destruct (String.eqb (x_tag k) fide_TAG_STRUCT).
    + destruct (fide_read_features k [] PNone true) as [l|e] eqn:Hl; [|discriminate].
      apply IH in H; [exact H|]. split; [|exact Hc]. intros r Hrl.
      apply last_some_in in Hrl. destruct Hrl as [m Hm].
      destruct (fide_read_features_wf k _ _ _ _ Hl) as [_ Hok].
      eapply feats_ok_struct_in; eauto.
    + destruct (String.eqb (x_tag k) fide_TAG_CONSTRAINTS).
      * destruct (fide_read_constraints k) as [c|e] eqn:Hk; [|discriminate].
        apply IH in H; [exact H|]. split; [exact Hr|].
        rewrite forallb_app, Hc. rewrite fide_read_constraints_eq in Hk.
        apply read_rules_shape in Hk. rewrite Hk. reflexivity.
      * apply IH in H; [exact H|]. split; assumption.
Qed.

Lemma fide_read_all : forall x pm, fide_read x = Ok pm ->
  ptr_wf pm = true /\ rels_nonempty_p (proot pm) = true
  /\ forallb (fun c => node_shape_ok (c_ast c)) (pctcs pm) = true.
Proof.
  intros x pm H. rewrite fide_read_eq in H. eapply read_doc_inv; [|exact H].
  split; [discriminate|reflexivity].
Qed.

Theorem fide_read_ptr_wf : forall x pm, fide_read x = Ok pm -> ptr_wf pm = true.
Proof. intros x pm H. apply fide_read_all in H. tauto. Qed.

Theorem fide_read_ctc_shape : forall x pm, fide_read x = Ok pm ->
  forallb (fun c => node_shape_ok (c_ast c)) (pctcs pm) = true.
Proof. intros x pm H. apply fide_read_all in H. tauto. Qed.

Theorem fide_read_nonempty : forall x pm, fide_read x = Ok pm -> rels_nonempty_p (proot pm) = true.
Proof. intros x pm H. apply fide_read_all in H. tauto. Qed.

(* ================================================================== Part 2: C07, the round trip *)

(* fragment: default info except the abstract flag; a feature has only mandatory/optional single
   children, or exactly one relation that is an alternative or an or group; unique names;
   constraints shape-correct over NOT AND OR IMPLIES EQUIVALENCE REQUIRES EXCLUDES with name terms *)
Definition fide_info_ok (i : finfo) : bool :=
  ftype_eqb (f_type i) TBoolean && (f_cmin i =? 1)%Z && (f_cmax i =? 1)%Z
  && match f_abstract i with VBool _ => true | _ => false end
  && match f_attrs i with [] => true | _ => false end.
Definition fide_rels_ok (rs : list relation) : bool :=
  forallb (fun r => rel_is_mandatory r || rel_is_optional r) rs
  || match rs with [r] => rel_is_alternative r || rel_is_or r | _ => false end.
Fixpoint fide_feature_ok (f : feature) : bool :=
  match f with
  | Feature i rs =>
      fide_info_ok i && fide_rels_ok rs
      && forallb (fun r => match r with Relation _ _ cs => forallb fide_feature_ok cs end) rs
  end.
Fixpoint fide_node_ok (n : node) : bool :=
  match n with
  | Node (DStr _) None None => true
  | Node (DOp o) l r =>
      op_in o [NOT; AND; OR; IMPLIES; EQUIVALENCE; REQUIRES; EXCLUDES] &&
      (if astop_eqb o NOT then match l, r with Some a, None => fide_node_ok a | _, _ => false end
       else match l, r with Some a, Some b => fide_node_ok a && fide_node_ok b | _, _ => false end)
  | _ => false
  end.
Definition fide_ok (m : fm) : bool :=
  fide_feature_ok (root m) && nodupb (names (root m))
  && forallb (fun c => fide_node_ok (c_ast c)) (ctcs m).

(* normal form: constraints renamed "1","2",..; REQUIRES -> IMPLIES; EXCLUDES l r -> IMPLIES l (NOT r);
   EQUIVALENCE a b -> AND (IMPLIES a b) (IMPLIES b a); the tree is unchanged *)
Fixpoint fide_norm_node (n : node) : node :=
  match n with
  | Node (DOp o) (Some a) (Some b) =>
      let a' := fide_norm_node a in
      let b' := fide_norm_node b in
      match o with
      | REQUIRES => bin IMPLIES a' b'
      | EXCLUDES => bin IMPLIES a' (un NOT b')
      | EQUIVALENCE => bin AND (bin IMPLIES a' b') (bin IMPLIES b' a')
      | _ => bin o a' b'
      end
  | Node (DOp NOT) (Some a) None => un NOT (fide_norm_node a)
  | _ => n
  end.
Fixpoint fide_renumber (k : Z) (cs : list ctc) : list ctc :=
  match cs with
  | [] => []
  | c :: cs' => {| c_name := z_to_string k; c_ast := fide_norm_node (c_ast c) |}
                :: fide_renumber (k + 1)%Z cs'
  end.
Definition fide_norm (m : fm) : fm := {| root := root m; ctcs := fide_renumber 1%Z (ctcs m) |}.

(* ------------------------------------------------------------------ constraints: writer side *)
Lemma fide_node_ok_pretty : forall n, fide_node_ok n = true -> exists s, pretty_str n = Ok s.
Proof.
  induction n as [d|d a IHa|d b IHb|d a b IHa IHb] using fnode_ind2; intros H.
  - destruct d as [o|s|z|f|b]; cbn in H; try discriminate.
    + destruct o; discriminate.
    + eexists. reflexivity.
  - destruct d as [o|s|z|f|b]; cbn in H; try discriminate.
    destruct o; cbn in H; try discriminate.
    destruct (IHa H) as [sa Hsa]. cbn [pretty_str]. rewrite Hsa.
    destruct (is_op a); [destruct (is_binary_op a)|]; eexists; reflexivity.
  - destruct d as [o|s|z|f|b0]; cbn in H; try discriminate.
    destruct o; discriminate.
  - destruct d as [o|s|z|f|b0]; cbn in H; try discriminate.
    destruct o; cbn in H; try discriminate;
      apply andb_prop in H; destruct H as [Ha Hb];
      destruct (IHa Ha) as [sa Hsa]; destruct (IHb Hb) as [sb Hsb];
      cbn [pretty_str]; rewrite Hsa, Hsb;
      (destruct (is_op a); [destruct (is_binary_op a)|]);
      (destruct (is_op b); [destruct (is_binary_op b)|]); eexists; reflexivity.
Qed.

Ltac eval_tags :=
  cbv [fide_TAG_VAR fide_TAG_NOT fide_TAG_IMP fide_TAG_EQ fide_TAG_DISJ fide_TAG_CONJ
       fide_TAG_GRAPHICS fide_TAG_DESCRIPTION fide_TAG_AND fide_TAG_OR fide_TAG_ALT fide_TAG_FEATURE
       fide_TAG_STRUCT fide_TAG_CONSTRAINTS fide_TAG_RULE fide_TAG_FEATUREMODEL
       fide_ATTRIB_NAME fide_ATTRIB_ABSTRACT fide_ATTRIB_MANDATORY];
  repeat match goal with
         | |- context [String.eqb ?a ?b] =>
             let v := eval vm_compute in (String.eqb a b) in
             change (String.eqb a b) with v
         end;
  cbn [orb andb negb].

Definition ctc_rt_stmt (n : node) : Prop :=
  fide_node_ok n = true ->
  exists ci, fide_ctc_info n = Ok ci
             /\ fide_parse_rule (fide_ctc_elem ci) = Ok (fide_norm_node n)
             /\ fide_skipped (fide_ctc_elem ci) = false.

Lemma ctc_rt_bin : forall o a b ja jb ty,
  o <> EXCLUDES -> fide_ctc_type o = Some ty -> astop_eqb o NOT = false ->
  fide_ctc_info a = Ok ja -> fide_ctc_info b = Ok jb ->
  fide_ctc_info (Node (DOp o) (Some a) (Some b)) = Ok (COp ty [ja; jb]).
Proof.
  intros o a b ja jb ty Hne Hty Hnot Ha Hb.
  cbn [fide_ctc_info]. change (is_term (Node (DOp o) (Some a) (Some b))) with false. cbv iota.
  rewrite Hty, Ha, Hb. destruct o; try reflexivity. congruence.
Qed.

Lemma fide_ctc_roundtrip : forall n, ctc_rt_stmt n.
Proof.
  induction n as [d|d a IHa|d b IHb|d a b IHa IHb] using fnode_ind2; intros H.
  - destruct d as [o|s|z|f|b]; cbn in H; try discriminate.
    + destruct o; discriminate.
    + exists (CVar s). repeat split.
  - destruct d as [o|s|z|f|b]; cbn in H; try discriminate.
    destruct o; cbn in H; try discriminate.
    destruct (IHa H) as (ja & Hja & Hpa & _).
    exists (COp fide_TAG_NOT [ja]). split; [|split].
    + cbn [fide_ctc_info]. change (is_term (Node (DOp NOT) (Some a) None)) with false. cbv iota.
      cbn [fide_ctc_type]. rewrite Hja. reflexivity.
    + cbn [fide_ctc_elem List.length Nat.ltb Nat.leb map]. eval_tags.
      rewrite fide_parse_rule_eq. eval_tags. unfold rule_sub. cbn [nth_error]. rewrite Hpa. reflexivity.
    + reflexivity.
  - destruct d as [o|s|z|f|b0]; cbn in H; try discriminate.
    destruct o; discriminate.
  - destruct d as [o|s|z|f|b0]; cbn in H; try discriminate.
    destruct o; cbn in H; try discriminate;
      apply andb_prop in H; destruct H as [Ha Hb];
      destruct (IHa Ha) as (ja & Hja & Hpa & _); destruct (IHb Hb) as (jb & Hjb & Hpb & _).
    + (* REQUIRES *)
      exists (COp fide_TAG_IMP [ja; jb]). split; [|split]; [| |reflexivity].
      * apply ctc_rt_bin; [discriminate|reflexivity|reflexivity|exact Hja|exact Hjb].
      * cbn [fide_ctc_elem List.length Nat.ltb Nat.leb map]. eval_tags.
        rewrite fide_parse_rule_eq. eval_tags. unfold rule_sub. cbn [nth_error]. rewrite Hpa, Hpb. reflexivity.
    + (* EXCLUDES *)
      exists (COp fide_TAG_IMP [ja; COp fide_TAG_NOT [jb]]). split; [|split]; [| |reflexivity].
      * cbn [fide_ctc_info]. change (is_term (Node (DOp EXCLUDES) (Some a) (Some b))) with false.
        cbv iota. rewrite Hja, Hjb. reflexivity.
      * cbn [fide_ctc_elem List.length Nat.ltb Nat.leb map]. eval_tags.
        rewrite fide_parse_rule_eq. eval_tags. unfold rule_sub. cbn [nth_error]. rewrite Hpa.
        rewrite fide_parse_rule_eq. eval_tags. unfold rule_sub. cbn [nth_error]. rewrite Hpb. reflexivity.
    + (* AND *)
      exists (COp fide_TAG_CONJ [ja; jb]). split; [|split]; [| |reflexivity].
      * apply ctc_rt_bin; [discriminate|reflexivity|reflexivity|exact Hja|exact Hjb].
      * cbn [fide_ctc_elem List.length Nat.ltb Nat.leb map]. eval_tags.
        rewrite fide_parse_rule_eq. eval_tags. rewrite Hpa. cbn [rule_fold]. rewrite Hpb. reflexivity.
    + (* OR *)
      exists (COp fide_TAG_DISJ [ja; jb]). split; [|split]; [| |reflexivity].
      * apply ctc_rt_bin; [discriminate|reflexivity|reflexivity|exact Hja|exact Hjb].
      * cbn [fide_ctc_elem List.length Nat.ltb Nat.leb map]. eval_tags.
        rewrite fide_parse_rule_eq. eval_tags. rewrite Hpa. cbn [rule_fold]. rewrite Hpb. reflexivity.
    + (* IMPLIES *)
      exists (COp fide_TAG_IMP [ja; jb]). split; [|split]; [| |reflexivity].
      * apply ctc_rt_bin; [discriminate|reflexivity|reflexivity|exact Hja|exact Hjb].
      * cbn [fide_ctc_elem List.length Nat.ltb Nat.leb map]. eval_tags.
        rewrite fide_parse_rule_eq. eval_tags. unfold rule_sub. cbn [nth_error]. rewrite Hpa, Hpb. reflexivity.
    + (* EQUIVALENCE *)
      exists (COp fide_TAG_EQ [ja; jb]). split; [|split]; [| |reflexivity].
      * apply ctc_rt_bin; [discriminate|reflexivity|reflexivity|exact Hja|exact Hjb].
      * cbn [fide_ctc_elem List.length Nat.ltb Nat.leb map]. eval_tags.
        rewrite fide_parse_rule_eq. eval_tags. unfold rule_sub. cbn [nth_error]. rewrite Hpa, Hpb. reflexivity.
Qed.

Lemma fide_ctcs_roundtrip : forall cs,
  forallb (fun c => fide_node_ok (c_ast c)) cs = true ->
  exists infos,
    mapM (fun c => match pretty_str (c_ast c) with
                   | Err e => Err e
                   | Ok _ => fide_ctc_info (c_ast c)
                   end) cs = Ok infos
    /\ forall k, read_rules k (map (fun ci => Elem fide_TAG_RULE [] None [fide_ctc_elem ci]) infos)
                 = Ok (fide_renumber k cs).
Proof.
  induction cs as [|c cs IH]; intros H.
  - exists []. split; reflexivity.
  - cbn [forallb] in H. apply andb_prop in H. destruct H as [Hc Hcs].
    destruct (IH Hcs) as (infos & Hm & Hr).
    destruct (fide_node_ok_pretty _ Hc) as [s Hs].
    destruct (fide_ctc_roundtrip _ Hc) as (ci & Hci & Hp & Hsk).
    exists (ci :: infos). split.
    + cbn [mapM]. rewrite Hs, Hci. fold (mapM (fun c => match pretty_str (c_ast c) with
                   | Err e => Err e
                   | Ok _ => fide_ctc_info (c_ast c)
                   end)). rewrite Hm. reflexivity.
    + intros k. cbn [map read_rules x_children first_unskipped]. rewrite Hsk, Hp, Hr. reflexivity.
Qed.

(* ------------------------------------------------------------------ the normal form *)
Theorem fide_norm_tree : forall m, root (fide_norm m) = root m.
Proof. reflexivity. Qed.

Lemma fide_norm_node_sem : forall σ n, eval σ (fide_norm_node n) = eval σ n.
Proof.
  intros σ. induction n as [d|d a IHa|d b IHb|d a b IHa IHb] using fnode_ind2.
  - destruct d as [o|s|z|f|b]; try reflexivity. destruct o; reflexivity.
  - destruct d as [o|s|z|f|b]; try reflexivity.
    destruct o; try reflexivity. cbn [fide_norm_node un eval]. rewrite IHa. reflexivity.
  - destruct d as [o|s|z|f|b0]; try reflexivity. destruct o; reflexivity.
  - destruct d as [o|s|z|f|b0]; try reflexivity.
    destruct o; cbn [fide_norm_node bin un eval]; rewrite ?IHa, ?IHb;
      destruct (eval σ a) as [x|]; destruct (eval σ b) as [y|]; try reflexivity;
      cbn [option_map]; destruct x, y; reflexivity.
Qed.

Theorem fide_norm_sem : forall m σ,
  map (fun c => eval σ (c_ast c)) (ctcs (fide_norm m)) = map (fun c => eval σ (c_ast c)) (ctcs m).
Proof.
  intros m σ. unfold fide_norm. cbn [ctcs]. generalize 1%Z.
  induction (ctcs m) as [|c cs IH]; intros k; [reflexivity|].
  cbn [fide_renumber map c_ast]. rewrite fide_norm_node_sem, IH. reflexivity.
Qed.

Lemma fide_norm_node_ok : forall n, fide_node_ok n = true -> fide_node_ok (fide_norm_node n) = true.
Proof.
  induction n as [d|d a IHa|d b IHb|d a b IHa IHb] using fnode_ind2; intros H.
  - destruct d as [o|s|z|f|b]; try exact H. destruct o; exact H.
  - destruct d as [o|s|z|f|b]; cbn in H; try discriminate.
    destruct o; cbn in H; try discriminate. cbn. auto.
  - destruct d as [o|s|z|f|b0]; cbn in H; try discriminate. destruct o; discriminate.
  - destruct d as [o|s|z|f|b0]; cbn in H; try discriminate.
    destruct o; cbn in H; try discriminate;
      apply andb_prop in H; destruct H as [Ha Hb]; cbn; rewrite (IHa Ha), (IHb Hb); reflexivity.
Qed.

Lemma fide_renumber_ok : forall cs k,
  forallb (fun c => fide_node_ok (c_ast c)) cs = true ->
  forallb (fun c => fide_node_ok (c_ast c)) (fide_renumber k cs) = true.
Proof.
  induction cs as [|c cs IH]; intros k H; [reflexivity|].
  cbn [forallb] in H. apply andb_prop in H. destruct H as [Hc Hcs].
  cbn [fide_renumber forallb c_ast]. rewrite (fide_norm_node_ok _ Hc). cbn [andb]. auto.
Qed.

Theorem fide_norm_ok : forall m, fide_ok m = true -> fide_ok (fide_norm m) = true.
Proof.
  intros m H. unfold fide_ok in *. cbn [fide_norm root ctcs].
  apply andb_prop in H. destruct H as [H1 H2]. rewrite H1. cbn [andb].
  apply fide_renumber_ok. exact H2.
Qed.

Lemma fide_norm_node_idem : forall n, fide_norm_node (fide_norm_node n) = fide_norm_node n.
Proof.
  induction n as [d|d a IHa|d b IHb|d a b IHa IHb] using fnode_ind2.
  - destruct d as [o|s|z|f|b]; try reflexivity. destruct o; reflexivity.
  - destruct d as [o|s|z|f|b]; try reflexivity.
    destruct o; try reflexivity. cbn [fide_norm_node un]. rewrite IHa. reflexivity.
  - destruct d as [o|s|z|f|b0]; try reflexivity. destruct o; reflexivity.
  - destruct d as [o|s|z|f|b0]; try reflexivity.
    destruct o; cbn [fide_norm_node bin un]; rewrite ?IHa, ?IHb; reflexivity.
Qed.

Lemma fide_renumber_idem : forall cs k, fide_renumber k (fide_renumber k cs) = fide_renumber k cs.
Proof.
  induction cs as [|c cs IH]; intros k; [reflexivity|].
  cbn [fide_renumber c_ast]. rewrite fide_norm_node_idem, IH. reflexivity.
Qed.

(* exact idempotence holds, for every model *)
Theorem fide_norm_idempotent : forall m, fide_norm (fide_norm m) = fide_norm m.
Proof.
  intros m. unfold fide_norm. cbn [root ctcs]. rewrite fide_renumber_idem. reflexivity.
Qed.

Theorem fide_norm_idempotent_after_one : forall m, fide_ok m = true ->
  fide_norm (fide_norm (fide_norm m)) = fide_norm (fide_norm m).
Proof. intros m _. rewrite !fide_norm_idempotent. reflexivity. Qed.

(* ------------------------------------------------------------------ tree: list plumbing *)
Lemma flat_map_app_ {A B} (f : A -> list B) l1 l2 :
  flat_map f (l1 ++ l2) = flat_map f l1 ++ flat_map f l2.
Proof. induction l1 as [|x l1 IH]; cbn; [reflexivity|]. rewrite IH, app_assoc. reflexivity. Qed.

Lemma names_eq : forall f, names f = name f :: flat_map names (children f).
Proof.
  intros [i rs]. unfold names, children. cbn [subfeatures map rels]. f_equal.
  induction rs as [|[a b cs] rs IH]; [reflexivity|].
  cbn [flat_map r_children]. rewrite map_app, flat_map_app_, IH. f_equal.
  clear. induction cs as [|c cs IHc]; [reflexivity|].
  cbn [flat_map]. rewrite map_app, IHc. reflexivity.
Qed.

Lemma NoDup_app_l_ {A} (l1 l2 : list A) : NoDup (l1 ++ l2) -> NoDup l1.
Proof.
  induction l1 as [|x l1 IH]; intros H; [constructor|].
  cbn in H. inversion H as [|? ? Hni Hnd]; subst. constructor.
  - intros Hin. apply Hni. apply in_or_app. left. exact Hin.
  - apply IH. exact Hnd.
Qed.
Lemma NoDup_app_r_ {A} (l1 l2 : list A) : NoDup (l1 ++ l2) -> NoDup l2.
Proof.
  induction l1 as [|x l1 IH]; intros H; [exact H|].
  cbn in H. inversion H; subst. auto.
Qed.

Lemma NoDup_flat_map_in {A B} (g : A -> list B) l x :
  NoDup (flat_map g l) -> In x l -> NoDup (g x).
Proof.
  induction l as [|y l IH]; intros H Hin; [destruct Hin|].
  cbn [flat_map] in H. destruct Hin as [->|Hin].
  - eapply NoDup_app_l_. exact H.
  - apply IH; [|exact Hin]. eapply NoDup_app_r_. exact H.
Qed.

Lemma NoDup_flat_map_heads {A B} (g : A -> list B) (h : A -> B) l :
  (forall x, exists tl, g x = h x :: tl) -> NoDup (flat_map g l) -> NoDup (map h l).
Proof.
  intros Hh. induction l as [|y l IH]; intros H; [constructor|].
  cbn [flat_map map] in *. constructor.
  - intros Hin. apply in_map_iff in Hin. destruct Hin as (z & Hz & Hzl).
    destruct (Hh y) as [tl Hy]. rewrite Hy in H. inversion H as [|? ? Hni _]; subst.
    apply Hni. apply in_or_app. right. apply in_flat_map. exists z. split; [exact Hzl|].
    destruct (Hh z) as [tz Hgz]. rewrite Hgz, Hz. left. reflexivity.
  - apply IH. eapply NoDup_app_r_. exact H.
Qed.

Lemma names_head : forall f, exists tl, names f = name f :: tl.
Proof. intros f. rewrite names_eq. eexists. reflexivity. Qed.

Lemma NoDup_names_children : forall f, NoDup (names f) ->
  NoDup (map name (children f)) /\ forall c, In c (children f) -> NoDup (names c).
Proof.
  intros f H. rewrite names_eq in H. inversion H as [|? ? _ H2]; subst. split.
  - apply (NoDup_flat_map_heads names name); [exact names_head|exact H2].
  - intros c Hc. eapply NoDup_flat_map_in; eauto.
Qed.

(* ------------------------------------------------------------------ tree: relation kinds *)
Lemma rel_single : forall r, (nchildren r =? 1)%Z = true -> exists c, r_children r = [c].
Proof.
  intros [a b cs] H. unfold nchildren in H. cbn [r_children] in *. apply Z.eqb_eq in H.
  destruct cs as [|c [|c' cs]]; cbn [List.length] in H; try lia. exists c. reflexivity.
Qed.

Lemma rel_mo_shape : forall r, rel_is_mandatory r || rel_is_optional r = true ->
  exists c, r = Relation (if rel_is_mandatory r then 1 else 0)%Z 1%Z [c].
Proof.
  intros r H.
  assert (Hn : (nchildren r =? 1)%Z = true).
  { unfold rel_is_mandatory, rel_is_optional in H.
    destruct (nchildren r =? 1)%Z; [reflexivity|]. rewrite !andb_false_r in H. discriminate. }
  destruct (rel_single r Hn) as [c Hc]. exists c.
  destruct r as [a b cs]. cbn [r_children] in Hc. subst cs.
  unfold rel_is_mandatory, rel_is_optional in *. cbn [r_min r_max] in *. rewrite Hn in *.
  rewrite !andb_true_r in H.
  destruct (Z.eqb_spec a 1); destruct (Z.eqb_spec b 1); destruct (Z.eqb_spec a 0);
    cbn in H |- *; try discriminate; subst; try reflexivity; lia.
Qed.

Lemma rel_mo_not_group : forall r, rel_is_mandatory r || rel_is_optional r = true ->
  rel_is_or r = false /\ rel_is_alternative r = false.
Proof.
  intros r H. unfold rel_is_mandatory, rel_is_optional, rel_is_or, rel_is_alternative in *.
  destruct (Z.eqb_spec (nchildren r) 1) as [E|E].
  - rewrite E. cbn. rewrite !andb_false_r. split; reflexivity.
  - rewrite !andb_false_r in H. discriminate.
Qed.

Lemma rel_alt_shape : forall r, rel_is_alternative r = true ->
  r = Relation 1%Z 1%Z (r_children r) /\ rel_is_or r = false /\ r_children r <> [].
Proof.
  intros [a b cs] H. unfold rel_is_alternative, rel_is_or, nchildren in *. cbn [r_min r_max r_children] in *.
  apply andb_prop in H. destruct H as [H H3]. apply andb_prop in H. destruct H as [H1 H2].
  apply Z.eqb_eq in H1, H2. apply Z.ltb_lt in H3. subst a b. repeat split.
  - destruct (Z.eqb_spec 1 (Z.of_nat (List.length cs))); [lia|]. cbn. reflexivity.
  - destruct cs; [cbn in H3; lia|discriminate].
Qed.

Lemma rel_or_shape : forall r, rel_is_or r = true ->
  r = Relation 1%Z (Z.of_nat (List.length (r_children r))) (r_children r) /\ r_children r <> [].
Proof.
  intros [a b cs] H. unfold rel_is_or, nchildren in *. cbn [r_min r_max r_children] in *.
  apply andb_prop in H. destruct H as [H H3]. apply andb_prop in H. destruct H as [H1 H2].
  apply Z.eqb_eq in H1, H2. apply Z.ltb_lt in H3. subst a b. split; [reflexivity|].
  destruct cs; [cbn in H3; lia|discriminate].
Qed.

Inductive rels_kind (rs : list relation) : Prop :=
| RK_leaf : rs = [] -> rels_kind rs
| RK_and : rs <> [] -> forallb (fun r => rel_is_mandatory r || rel_is_optional r) rs = true -> rels_kind rs
| RK_alt : forall r, rs = [r] -> rel_is_alternative r = true -> rels_kind rs
| RK_or : forall r, rs = [r] -> rel_is_or r = true -> rels_kind rs.

Lemma fide_rels_ok_kind : forall rs, fide_rels_ok rs = true -> rels_kind rs.
Proof.
  intros rs H. unfold fide_rels_ok in H. apply orb_true_iff in H. destruct H as [H|H].
  - destruct rs as [|r rs]; [apply RK_leaf; reflexivity|]. apply RK_and; [discriminate|exact H].
  - destruct rs as [|r [|r' rs]]; try discriminate.
    apply orb_true_iff in H. destruct H as [H|H]; [eapply RK_alt|eapply RK_or]; eauto.
Qed.

Lemma existsb_false_forall {A} (p q : A -> bool) l :
  (forall x, q x = true -> p x = false) -> forallb q l = true -> existsb p l = false.
Proof.
  intros Hpq. induction l as [|x l IH]; intros H; [reflexivity|].
  cbn in *. apply andb_prop in H. destruct H as [Hx Hl]. rewrite (Hpq _ Hx), (IH Hl). reflexivity.
Qed.

Lemma fide_tag_and : forall i rs, rs <> [] ->
  forallb (fun r => rel_is_mandatory r || rel_is_optional r) rs = true ->
  fide_tag (Feature i rs) = fide_TAG_AND.
Proof.
  intros i rs Hne H. unfold fide_tag, feat_is_leaf, feat_is_or_group, feat_is_alternative_group.
  cbn [rels]. destruct rs as [|r rs]; [congruence|]. cbn [List.length Nat.eqb].
  rewrite (existsb_false_forall rel_is_or _ (r :: rs) (fun x Hx => proj1 (rel_mo_not_group x Hx)) H).
  rewrite (existsb_false_forall rel_is_alternative _ (r :: rs) (fun x Hx => proj2 (rel_mo_not_group x Hx)) H).
  reflexivity.
Qed.

Lemma fide_tag_alt : forall i r, rel_is_alternative r = true -> fide_tag (Feature i [r]) = fide_TAG_ALT.
Proof.
  intros i r H. unfold fide_tag, feat_is_leaf, feat_is_or_group, feat_is_alternative_group.
  cbn [rels List.length Nat.eqb existsb].
  destruct (rel_alt_shape r H) as (_ & Hor & _). rewrite Hor, H. reflexivity.
Qed.

Lemma fide_tag_or : forall i r, rel_is_or r = true -> fide_tag (Feature i [r]) = fide_TAG_OR.
Proof.
  intros i r H. unfold fide_tag, feat_is_leaf, feat_is_or_group. cbn [rels List.length Nat.eqb existsb].
  rewrite H. reflexivity.
Qed.

(* ------------------------------------------------------------------ tree: the key step *)
Definition mand_in (c : feature) (rs : list relation) : bool :=
  existsb (fun r => rel_is_mandatory r && in_children c r) rs.

Lemma mand_in_absent : forall c rs,
  ~ In (name c) (map name (flat_map r_children rs)) -> mand_in c rs = false.
Proof.
  intros c rs. unfold mand_in. induction rs as [|r rs IH]; intros H; [reflexivity|].
  cbn [existsb flat_map] in *. rewrite map_app in H.
  assert (Hr : in_children c r = false).
  { unfold in_children. destruct (existsb _ (r_children r)) eqn:E; [|reflexivity].
    apply existsb_exists in E. destruct E as (c' & Hc' & He). apply String.eqb_eq in He.
    exfalso. apply H. apply in_or_app. left. rewrite <- He. apply in_map. exact Hc'. }
  rewrite Hr, andb_false_r. cbn [orb]. apply IH. intros Hin. apply H. apply in_or_app. right. exact Hin.
Qed.

Lemma mand_in_here : forall c pre r post, r_children r = [c] ->
  NoDup (map name (flat_map r_children (pre ++ r :: post))) ->
  mand_in c (pre ++ r :: post) = rel_is_mandatory r.
Proof.
  intros c pre r post Hc Hnd. rewrite flat_map_app_ in Hnd. cbn [flat_map] in Hnd.
  rewrite Hc in Hnd. cbn [app] in Hnd. rewrite map_app in Hnd. cbn [map] in Hnd.
  apply NoDup_remove_2 in Hnd.
  unfold mand_in. rewrite existsb_app. cbn [existsb].
  fold (mand_in c pre). fold (mand_in c post).
  rewrite (mand_in_absent c pre), (mand_in_absent c post).
  - unfold in_children. rewrite Hc. cbn [existsb]. rewrite String.eqb_refl. cbn.
    rewrite andb_true_r, orb_false_r. reflexivity.
  - intros Hin. apply Hnd. apply in_or_app. right. exact Hin.
  - intros Hin. apply Hnd. apply in_or_app. left. exact Hin.
Qed.

Lemma and_rels_rebuild : forall post pre,
  forallb (fun r => rel_is_mandatory r || rel_is_optional r) post = true ->
  NoDup (map name (flat_map r_children (pre ++ post))) ->
  map (fun c => Relation (if mand_in c (pre ++ post) then 1 else 0)%Z 1%Z [c]) (flat_map r_children post)
  = post.
Proof.
  induction post as [|r post IH]; intros pre H Hnd; [reflexivity|].
  cbn [forallb] in H. apply andb_prop in H. destruct H as [Hr Hpost].
  destruct (rel_mo_shape r Hr) as [c Hc].
  assert (Hrc : r_children r = [c]) by (rewrite Hc; reflexivity).
  cbn [flat_map]. rewrite Hrc. cbn [app map].
  rewrite (mand_in_here c pre r post Hrc Hnd). rewrite <- Hc. f_equal.
  specialize (IH (pre ++ [r])). rewrite <- app_assoc in IH. cbn [app] in IH. apply IH; assumption.
Qed.

(* ------------------------------------------------------------------ tree: writer output *)
Lemma fide_elem_eq : forall q f,
  fide_elem q f = Elem (fide_tag f) (fide_attributes q f) None (map (fide_elem (Some f)) (children f)).
Proof.
  intros q [i rs]. cbn [fide_elem]. f_equal. unfold children. cbn [rels].
  generalize (fide_elem (Some (Feature i rs))). intros g.
  induction rs as [|[a b cs] rs IH]; [reflexivity|].
  cbn [flat_map r_children]. rewrite map_app, IH. reflexivity.
Qed.

Lemma fide_attrs_name : forall q f, sassoc fide_ATTRIB_NAME (fide_attributes q f) = Some (name f).
Proof.
  intros q f. unfold fide_attributes.
  destruct (feat_is_mandatory q f); destruct (aval_truthy _); reflexivity.
Qed.
Lemma fide_attrs_abs : forall q f,
  attr_true fide_ATTRIB_ABSTRACT (fide_attributes q f) = aval_truthy (f_abstract (info f)).
Proof.
  intros q f. unfold fide_attributes, attr_true.
  destruct (feat_is_mandatory q f); destruct (aval_truthy _); reflexivity.
Qed.
Lemma fide_attrs_mand : forall q f,
  attr_true fide_ATTRIB_MANDATORY (fide_attributes q f) = feat_is_mandatory q f.
Proof.
  intros q f. unfold fide_attributes, attr_true.
  destruct (feat_is_mandatory q f); destruct (aval_truthy _); reflexivity.
Qed.

Lemma fide_info_rt : forall q f, fide_info_ok (info f) = true ->
  fide_info_of (fide_attributes q f) (name f) = info f.
Proof.
  intros q f H. unfold fide_info_of. rewrite fide_attrs_abs. unfold name.
  destruct (info f) as [nm ab ty mn mx ats]. unfold fide_info_ok in H. cbn [f_type f_cmin f_cmax f_abstract f_attrs f_name] in *.
  apply andb_prop in H. destruct H as [H H5]. apply andb_prop in H. destruct H as [H H4].
  apply andb_prop in H. destruct H as [H H3]. apply andb_prop in H. destruct H as [H1 H2].
  apply Z.eqb_eq in H2, H3. subst mn mx.
  destruct ty; try discriminate. destruct ab; try discriminate. destruct ats; try discriminate.
  reflexivity.
Qed.

Lemma fide_elem_not_skipped : forall q f, fide_skipped (fide_elem q f) = false.
Proof.
  intros q f. rewrite fide_elem_eq. unfold fide_skipped. cbn [x_tag]. unfold fide_tag.
  destruct (feat_is_leaf f); [reflexivity|].
  destruct (feat_is_or_group f); [reflexivity|].
  destruct (feat_is_alternative_group f); reflexivity.
Qed.

(* ------------------------------------------------------------------ tree: reading it back *)
Definition feat_rt_stmt (q : option feature) (c : feature) : Prop :=
  forall mp par, exists pf,
    fide_one (fide_elem q c) mp par = Ok (pf, feat_is_mandatory q c) /\ erase pf = c.

Lemma fide_go_map : forall q pia st here parent cs,
  Forall (feat_rt_stmt q) cs ->
  forall p, exists l,
    fide_go pia st here parent p (map (fide_elem q) cs) = Ok l /\
    map (fun x => (erase (fst x), snd x)) l = map (fun c => (c, feat_is_mandatory q c)) cs.
Proof.
  intros q pia st here parent cs HF. induction HF as [|c cs Hc _ IH]; intros p.
  - exists []. split; reflexivity.
  - cbn [map fide_go]. rewrite fide_elem_not_skipped.
    destruct (Hc (fide_mypath pia st here p) parent) as (pf & Hpf & He).
    destruct (IH (S p)) as (l & Hl & Hm).
    rewrite Hpf, Hl. exists ((pf, feat_is_mandatory q c) :: l). split; [reflexivity|].
    cbn [map fst snd]. rewrite He, Hm. reflexivity.
Qed.

Definition erase_rel (r : prelation) : relation :=
  match r with PRelation _ a b cs => Relation a b (map erase cs) end.

Lemma erase_eq : forall i p a rs, erase (PFeature i p a rs) = Feature i (map erase_rel rs).
Proof. reflexivity. Qed.

Lemma pair_map_fst : forall (l : list (pfeature * bool)) (g : feature -> bool) cs,
  map (fun x => (erase (fst x), snd x)) l = map (fun c => (c, g c)) cs ->
  map erase (map fst l) = cs.
Proof.
  intros l g cs H. apply (f_equal (map fst)) in H. rewrite !map_map in H. cbn [fst] in H.
  rewrite map_id in H. rewrite map_map. exact H.
Qed.

Lemma fide_own_rt : forall f a mp,
  fide_rels_ok (rels f) = true -> NoDup (map name (children f)) ->
  Forall (feat_rt_stmt (Some f)) (children f) ->
  exists rels_,
    fide_own (Elem (fide_tag f) a None (map (fide_elem (Some f)) (children f))) mp = Ok rels_
    /\ map erase_rel rels_ = rels f.
Proof.
  intros f a mp Hr Hnd HF. unfold fide_own. cbn [x_tag].
  destruct (fide_rels_ok_kind _ Hr) as [E|Hne Hall|r E Halt|r E Hor].
  - (* leaf *)
    destruct f as [i rs]. cbn [rels] in E. subst rs.
    change (fide_tag (Feature i [])) with fide_TAG_FEATURE. eval_tags.
    exists []. split; reflexivity.
  - (* and *)
    destruct f as [i rs]. cbn [rels] in *. rewrite (fide_tag_and i rs Hne Hall).
    set (f := Feature i rs) in *.
    eval_tags. rewrite fide_read_features_eq. eval_tags.
    destruct (fide_go_map (Some f) true false mp (PPath mp) (children f) HF 0) as (l & Hl & Hm).
    rewrite Hl.
    assert (Hch : children f <> []).
    { unfold children, f. cbn [rels]. destruct rs as [|r rs]; [congruence|].
      cbn [forallb] in Hall. apply andb_prop in Hall. destruct Hall as [Hr0 _].
      destruct (rel_mo_shape r Hr0) as [c Hc]. rewrite Hc. discriminate. }
    destruct l as [|x l]; [destruct (children f); [congruence|discriminate]|].
    eexists. split; [reflexivity|].
    rewrite map_map.
    transitivity (map (fun y : feature * bool => Relation (if snd y then 1 else 0)%Z 1%Z [fst y])
                      (map (fun x => (erase (fst x), snd x)) (x :: l))).
    { rewrite map_map. reflexivity. }
    rewrite Hm, map_map. cbn [fst snd].
    exact (and_rels_rebuild rs [] Hall Hnd).
  - (* alt *)
    destruct f as [i rs]. cbn [rels] in *. subst rs. rewrite (fide_tag_alt i r Halt).
    set (f := Feature i [r]) in *.
    eval_tags. rewrite fide_read_features_eq. eval_tags.
    destruct (fide_go_map (Some f) false false mp (PPath mp) (children f) HF 0) as (l & Hl & Hm).
    rewrite Hl. destruct (rel_alt_shape r Halt) as (Hshape & _ & Hcne).
    assert (Hch : children f = r_children r) by (unfold children, f; cbn; apply app_nil_r).
    destruct l as [|x l]; [rewrite Hch in Hm; destruct (r_children r); [congruence|discriminate]|].
    eexists. split; [reflexivity|].
    change (map erase_rel [PRelation (PPath mp) 1 1 (map fst (x :: l))])
      with [Relation 1 1 (map erase (map fst (x :: l)))].
    rewrite (pair_map_fst _ _ _ Hm), Hch, <- Hshape. reflexivity.
  - (* or *)
    destruct f as [i rs]. cbn [rels] in *. subst rs. rewrite (fide_tag_or i r Hor).
    set (f := Feature i [r]) in *.
    eval_tags. rewrite fide_read_features_eq. eval_tags.
    destruct (fide_go_map (Some f) false false mp (PPath mp) (children f) HF 0) as (l & Hl & Hm).
    rewrite Hl. destruct (rel_or_shape r Hor) as (Hshape & Hcne).
    assert (Hch : children f = r_children r) by (unfold children, f; cbn; apply app_nil_r).
    destruct l as [|x l]; [rewrite Hch in Hm; destruct (r_children r); [congruence|discriminate]|].
    eexists. split; [reflexivity|].
    match goal with
    | |- map erase_rel [PRelation ?p ?a ?b ?cs] = _ =>
        change (map erase_rel [PRelation p a b cs]) with [Relation a b (map erase cs)]
    end.
    assert (Hlen : List.length (map fst (x :: l)) = List.length (r_children r)).
    { rewrite <- Hch, <- (pair_map_fst _ _ _ Hm), !map_length. reflexivity. }
    rewrite Hlen, (pair_map_fst _ _ _ Hm), Hch, <- Hshape. reflexivity.
Qed.

Lemma feature_rt_step : forall f,
  fide_info_ok (info f) = true -> fide_rels_ok (rels f) = true ->
  NoDup (map name (children f)) -> Forall (feat_rt_stmt (Some f)) (children f) ->
  forall q, feat_rt_stmt q f.
Proof.
  intros f Hi Hr Hnd HF q mp par. unfold fide_one. rewrite fide_elem_eq. cbn [x_attrs].
  rewrite fide_attrs_name, fide_attrs_mand, (fide_info_rt _ _ Hi).
  destruct (fide_own_rt f (fide_attributes q f) mp Hr Hnd HF) as (rels_ & Hown & He).
  rewrite Hown. eexists. split; [reflexivity|].
  rewrite erase_eq, He. destruct f; reflexivity.
Qed.

Lemma forall_children : forall (P : feature -> Prop) rs,
  Forall (fun r => Forall P (r_children r)) rs -> Forall P (flat_map r_children rs).
Proof.
  intros P rs H. induction H as [|r rs Hr _ IH]; [constructor|].
  cbn [flat_map]. apply Forall_app. split; assumption.
Qed.

Lemma fide_feature_ok_children : forall i rs c,
  fide_feature_ok (Feature i rs) = true -> In c (flat_map r_children rs) -> fide_feature_ok c = true.
Proof.
  intros i rs c H Hin. cbn [fide_feature_ok] in H. apply andb_prop in H. destruct H as [_ H].
  apply in_flat_map in Hin. destruct Hin as (r & Hr & Hc).
  rewrite forallb_forall in H. specialize (H r Hr). destruct r as [a b cs].
  rewrite forallb_forall in H. exact (H c Hc).
Qed.

Lemma fide_feature_roundtrip : forall f,
  fide_feature_ok f = true -> NoDup (names f) -> forall q, feat_rt_stmt q f.
Proof.
  apply (feature_ind2
           (fun f => fide_feature_ok f = true -> NoDup (names f) -> forall q, feat_rt_stmt q f)
           (fun r => Forall (fun f => fide_feature_ok f = true -> NoDup (names f) ->
                                      forall q, feat_rt_stmt q f) (r_children r))).
  2: { intros a b cs H. exact H. }
  intros i rs IH Hok Hnd.
  apply forall_children in IH.
  destruct (NoDup_names_children _ Hnd) as [Hnd1 Hnd2].
  assert (Hok' := Hok). cbn [fide_feature_ok] in Hok'.
  apply andb_prop in Hok'. destruct Hok' as [Hok' _]. apply andb_prop in Hok'. destruct Hok' as [Hi Hr].
  apply feature_rt_step; [exact Hi|exact Hr|exact Hnd1|].
  unfold children. cbn [rels]. rewrite Forall_forall in *. intros c Hc.
  apply IH; [exact Hc| |].
  - eapply fide_feature_ok_children; eauto.
  - apply Hnd2. exact Hc.
Qed.

(* ------------------------------------------------------------------ the round trip *)
Theorem fide_roundtrip : forall m, fide_ok m = true ->
  exists x pm, fide_write m = Ok x /\ fide_read x = Ok pm /\ erase_fm pm = fide_norm m.
Proof.
  intros m H. unfold fide_ok in H.
  apply andb_prop in H. destruct H as [H Hc]. apply andb_prop in H. destruct H as [Hf Hn].
  apply nodupb_NoDup in Hn.
  destruct (fide_ctcs_roundtrip _ Hc) as (infos & Hinf & Hrules).
  destruct (fide_feature_roundtrip _ Hf Hn None [] PNone) as (pf & Hpf & He).
  unfold fide_write. rewrite Hinf. eexists. exists {| proot := pf; pctcs := fide_renumber 1%Z (ctcs m) |}.
  split; [reflexivity|]. split.
  - rewrite fide_read_eq. cbn [x_children read_doc x_tag]. eval_tags.
    rewrite fide_read_features_eq. cbn [fide_go]. rewrite fide_elem_not_skipped.
    cbn [fide_mypath]. rewrite Hpf. cbn [map last option_map fst].
    rewrite fide_read_constraints_eq. cbn [x_children]. rewrite Hrules. reflexivity.
  - unfold erase_fm, fide_norm. cbn [proot pctcs]. rewrite He. reflexivity.
Qed.

Theorem fide_no_constraints : forall m, fide_ok m = true -> ctcs m = [] ->
  exists x pm, fide_write m = Ok x /\ fide_read x = Ok pm /\ erase_fm pm = m.
Proof.
  intros m H Hc. destruct (fide_roundtrip m H) as (x & pm & Hw & Hr & He).
  exists x, pm. split; [exact Hw|]. split; [exact Hr|].
  rewrite He. unfold fide_norm. rewrite Hc. destruct m as [r cs]. cbn in *. subst cs. reflexivity.
Qed.

(* ================================================================== Part 3: C09, surface syntax *)

(* ------------------------------------------------------------------ 3a. stripping *)
(* The statement "remove <graphics>/<description> children EVERYWHERE and drop every mandatory /
   abstract attribute whose value is not "true"" is false for this reader in three ways
   (counterexamples [strip_cex_*] below):
   1. the reader treats EVERY child of <constraints> as a rule (a <description> there is either an
      IndexError or is parsed as a rule and shifts the numbering);
   2. inside a rule only the first level below <rule> skips <graphics>/<description>; an operand
      position occupied by a <description> is an UnboundLocalError;
   3. with a duplicated attribute key the reader looks at the first occurrence only, so dropping
      ("mandatory","false") in front of ("mandatory","true") changes the flag.
   [fide_strip] therefore removes <graphics>/<description> below the document element, everywhere
   below <struct> and directly below each rule, and the theorem assumes unique attribute keys. *)

Definition strip_attr_keep (kv : string * string) : bool :=
  negb ((String.eqb (fst kv) fide_ATTRIB_MANDATORY || String.eqb (fst kv) fide_ATTRIB_ABSTRACT)
        && negb (String.eqb (snd kv) "true")).
Definition strip_attrs (a : list (string * string)) : list (string * string) := filter strip_attr_keep a.
Definition not_skipped (k : xml) : bool := negb (fide_skipped k).

Fixpoint strip_feat (x : xml) : xml :=
  match x with
  | Elem tag attrs text kids =>
      Elem tag (strip_attrs attrs) text (filter not_skipped (map strip_feat kids))
  end.
Definition strip_rule (r : xml) : xml :=
  match r with Elem tag a t kids => Elem tag a t (filter not_skipped kids) end.
Definition strip_constraints (c : xml) : xml :=
  match c with Elem tag a t kids => Elem tag a t (map strip_rule kids) end.
Definition strip_top (k : xml) : xml :=
  if String.eqb (x_tag k) fide_TAG_STRUCT then strip_feat k
  else if String.eqb (x_tag k) fide_TAG_CONSTRAINTS then strip_constraints k
  else k.
Definition fide_strip (doc : xml) : xml :=
  match doc with Elem tag a t kids => Elem tag a t (map strip_top (filter not_skipped kids)) end.

(* the naive version, for the counterexamples *)
Fixpoint strip_everywhere (x : xml) : xml :=
  match x with
  | Elem tag attrs text kids =>
      Elem tag (strip_attrs attrs) text (filter not_skipped (map strip_everywhere kids))
  end.

Definition cex_doc (struct_kids ctc_kids : list xml) : xml :=
  Elem "featureModel" [] None
       [Elem "struct" [] None struct_kids; Elem "constraints" [] None ctc_kids].
Definition cex_feat (attrs : list (string * string)) := Elem "feature" attrs None [].
Definition is_ok {A} (r : result A) : bool := match r with Ok _ => true | Err _ => false end.

Example strip_cex_constraints_child :
  let x := cex_doc [cex_feat [("name", "a")]] [Elem "description" [] None []] in
  fide_read x = Err IndexError /\ is_ok (fide_read (strip_everywhere x)) = true.
Proof. split; vm_compute; reflexivity. Qed.

Example strip_cex_rule_operand :
  let x := cex_doc [cex_feat [("name", "a")]]
                   [Elem "rule" [] None
                         [Elem "not" [] None [Elem "description" [] None []; Elem "var" [] (Some "a") []]]] in
  fide_read x = Err UnboundLocalError /\ is_ok (fide_read (strip_everywhere x)) = true.
Proof. split; vm_compute; reflexivity. Qed.

Example strip_cex_duplicate_key :
  let x := cex_doc [Elem "and" [("name", "a")] None
                         [cex_feat [("name", "b"); ("mandatory", "false"); ("mandatory", "true")]]] [] in
  is_ok (fide_read x) = true /\ is_ok (fide_read (fide_strip x)) = true
  /\ fide_read (fide_strip x) <> fide_read x.
Proof. split; [|split]; vm_compute; [reflexivity|reflexivity|discriminate]. Qed.

Inductive xml_keys_unique : xml -> Prop :=
| KU : forall tag a t kids,
    NoDup (map fst a) -> Forall xml_keys_unique kids -> xml_keys_unique (Elem tag a t kids).

Lemma xml_keys_unique_inv : forall x, xml_keys_unique x ->
  NoDup (map fst (x_attrs x)) /\ Forall xml_keys_unique (x_children x).
Proof. intros x H. destruct H. split; assumption. Qed.

Lemma sassoc_none : forall k a, ~ In k (map fst a) -> sassoc k a = None.
Proof.
  intros k a. induction a as [|[k' v] a IH]; intros H; [reflexivity|].
  cbn [sassoc]. destruct (String.eqb_spec k k') as [E|E].
  - exfalso. apply H. left. symmetry. exact E.
  - apply IH. intros Hin. apply H. right. exact Hin.
Qed.

Lemma sassoc_filter_none : forall k p a, sassoc k a = None -> sassoc k (filter p a) = None.
Proof.
  intros k p a. induction a as [|[k' v] a IH]; intros H; [reflexivity|].
  cbn [sassoc] in H. cbn [filter]. destruct (String.eqb k k') eqn:E; [discriminate|].
  destruct (p (k', v)); [cbn [sassoc]; rewrite E|]; auto.
Qed.

Lemma sassoc_filter_keep : forall k p a,
  (forall v, p (k, v) = true) -> sassoc k (filter p a) = sassoc k a.
Proof.
  intros k p a Hp. induction a as [|[k' v] a IH]; [reflexivity|].
  cbn [filter sassoc]. destruct (String.eqb_spec k k') as [E|E].
  - subst k'. rewrite Hp. cbn [sassoc]. rewrite String.eqb_refl. reflexivity.
  - destruct (p (k', v)); [cbn [sassoc]|]; [|exact IH].
    destruct (String.eqb_spec k k'); [congruence|exact IH].
Qed.

Lemma strip_attrs_name : forall a, sassoc fide_ATTRIB_NAME (strip_attrs a) = sassoc fide_ATTRIB_NAME a.
Proof. intros a. apply sassoc_filter_keep. intros v. reflexivity. Qed.

Lemma strip_attrs_flag : forall k a,
  NoDup (map fst a) -> attr_true k (strip_attrs a) = attr_true k a.
Proof.
  intros k a. unfold attr_true, strip_attrs. induction a as [|[k' v] a IH]; intros Hnd; [reflexivity|].
  cbn [map fst] in Hnd. inversion Hnd as [|? ? Hni Hnd']; subst.
  cbn [filter sassoc]. destruct (String.eqb_spec k k') as [E|E].
  - subst k'. destruct (strip_attr_keep (k, v)) eqn:Hk.
    + cbn [sassoc]. rewrite String.eqb_refl. reflexivity.
    + rewrite (sassoc_filter_none _ _ _ (sassoc_none _ _ Hni)).
      unfold strip_attr_keep in Hk. cbn [fst snd] in Hk. apply negb_false_iff in Hk.
      apply andb_prop in Hk. destruct Hk as [_ Hk]. apply negb_true_iff in Hk. rewrite Hk. reflexivity.
  - destruct (strip_attr_keep (k', v)); [cbn [sassoc]|]; [|exact (IH Hnd')].
    destruct (String.eqb_spec k k'); [congruence|exact (IH Hnd')].
Qed.

Lemma strip_feat_eq : forall tag a t kids,
  strip_feat (Elem tag a t kids) = Elem tag (strip_attrs a) t (filter not_skipped (map strip_feat kids)).
Proof. reflexivity. Qed.

Lemma strip_feat_tag : forall x, x_tag (strip_feat x) = x_tag x.
Proof. intros [tag a t kids]. reflexivity. Qed.
Lemma strip_feat_attrs : forall x, x_attrs (strip_feat x) = strip_attrs (x_attrs x).
Proof. intros [tag a t kids]. reflexivity. Qed.
Lemma strip_feat_skipped : forall x, fide_skipped (strip_feat x) = fide_skipped x.
Proof. intros x. unfold fide_skipped. rewrite strip_feat_tag. reflexivity. Qed.

Definition strip_feat_stmt (x : xml) : Prop :=
  xml_keys_unique x -> forall here parent st,
    fide_read_features (strip_feat x) here parent st = fide_read_features x here parent st.

Lemma fide_one_strip : forall k mp parent,
  strip_feat_stmt k -> xml_keys_unique k -> fide_one (strip_feat k) mp parent = fide_one k mp parent.
Proof.
  intros k mp parent Hk Hu. unfold fide_one, fide_own.
  destruct (xml_keys_unique_inv _ Hu) as [Hnd _].
  rewrite strip_feat_tag, strip_feat_attrs, strip_attrs_name, !(Hk Hu).
  unfold fide_info_of. rewrite !(strip_attrs_flag _ _ Hnd). reflexivity.
Qed.

Lemma fide_go_strip : forall pia st here parent kids,
  Forall strip_feat_stmt kids -> Forall xml_keys_unique kids ->
  forall p, fide_go pia st here parent p (filter not_skipped (map strip_feat kids))
            = fide_go pia st here parent p kids.
Proof.
  intros pia st here parent kids HF. induction HF as [|k kids Hk _ IH]; intros Hu p; [reflexivity|].
  inversion Hu as [|? ? Hu1 Hu2]; subst.
  cbn [map filter fide_go]. unfold not_skipped at 1. rewrite strip_feat_skipped.
  destruct (fide_skipped k) eqn:Hsk; cbn [negb].
  - apply IH. exact Hu2.
  - cbn [fide_go]. rewrite strip_feat_skipped, Hsk, (fide_one_strip _ _ _ Hk Hu1).
    destruct (fide_one k _ parent) as [x|e]; [|reflexivity]. rewrite (IH Hu2). reflexivity.
Qed.

Lemma strip_feat_correct : forall x, strip_feat_stmt x.
Proof.
  induction x as [tag a t kids IH] using xml_ind2. intros Hu here parent st.
  rewrite strip_feat_eq, !fide_read_features_eq.
  destruct (xml_keys_unique_inv _ Hu) as [_ Hk]. cbn [x_children] in Hk.
  rewrite (fide_go_strip _ _ _ _ _ IH Hk). reflexivity.
Qed.

Lemma first_unskipped_filter : forall l, first_unskipped (filter not_skipped l) = first_unskipped l.
Proof.
  induction l as [|x l IH]; [reflexivity|].
  cbn [filter first_unskipped]. unfold not_skipped at 1.
  destruct (fide_skipped x) eqn:E; cbn [negb]; [exact IH|]. cbn [first_unskipped]. rewrite E. reflexivity.
Qed.

Lemma read_rules_strip : forall rules k, read_rules k (map strip_rule rules) = read_rules k rules.
Proof.
  induction rules as [|r rules IH]; intros k; [reflexivity|].
  cbn [map read_rules]. destruct r as [tag a t kids]. cbn [strip_rule x_children].
  rewrite first_unskipped_filter, IH. reflexivity.
Qed.

Lemma strip_constraints_correct : forall c,
  fide_read_constraints (strip_constraints c) = fide_read_constraints c.
Proof.
  intros [tag a t kids]. rewrite !fide_read_constraints_eq. cbn [strip_constraints x_children].
  apply read_rules_strip.
Qed.

Lemma skipped_tags : forall k, fide_skipped k = true ->
  String.eqb (x_tag k) fide_TAG_STRUCT = false /\ String.eqb (x_tag k) fide_TAG_CONSTRAINTS = false.
Proof.
  intros k H. unfold fide_skipped in H. apply orb_true_iff in H.
  destruct H as [H|H]; apply String.eqb_eq in H; rewrite H; split; reflexivity.
Qed.

Lemma read_doc_strip : forall kids root_ cs,
  Forall xml_keys_unique kids ->
  read_doc (map strip_top (filter not_skipped kids)) root_ cs = read_doc kids root_ cs.
Proof.
  induction kids as [|k kids IH]; intros root_ cs Hu; [reflexivity|].
  inversion Hu as [|? ? Hu1 Hu2]; subst.
  cbn [filter]. unfold not_skipped at 1. destruct (fide_skipped k) eqn:Hsk; cbn [negb].
  - cbn [read_doc]. destruct (skipped_tags k Hsk) as [E1 E2]. rewrite E1, E2. apply IH. exact Hu2.
  - cbn [map read_doc]. unfold strip_top.
    destruct (String.eqb (x_tag k) fide_TAG_STRUCT) eqn:E1.
    + rewrite strip_feat_tag, E1, (strip_feat_correct k Hu1).
      destruct (fide_read_features k [] PNone true); [|reflexivity]. apply IH. exact Hu2.
    + destruct (String.eqb (x_tag k) fide_TAG_CONSTRAINTS) eqn:E2.
      * assert (Ht : x_tag (strip_constraints k) = x_tag k) by (destruct k; reflexivity).
        rewrite Ht, E1, E2, strip_constraints_correct.
        destruct (fide_read_constraints k); [|reflexivity]. apply IH. exact Hu2.
      * rewrite E1, E2. apply IH. exact Hu2.
Qed.

(* original statement (false, see above):  forall x, fide_read (fide_strip x) = fide_read x  with
   [fide_strip] removing graphics/description everywhere *)
Theorem fide_read_strip : forall x, xml_keys_unique x -> fide_read (fide_strip x) = fide_read x.
Proof.
  intros [tag a t kids] Hu. rewrite !fide_read_eq. cbn [fide_strip x_children].
  apply read_doc_strip. exact (proj2 (xml_keys_unique_inv _ Hu)).
Qed.

(* ------------------------------------------------------------------ 3b. attribute order *)
Inductive xml_attr_perm : xml -> xml -> Prop :=
| XAP : forall tag a a' t kids kids',
    Permutation a a' -> NoDup (map fst a) -> Forall2 xml_attr_perm kids kids' ->
    xml_attr_perm (Elem tag a t kids) (Elem tag a' t kids').

Lemma xml_attr_perm_inv : forall x y, xml_attr_perm x y ->
  x_tag x = x_tag y /\ x_text x = x_text y /\ Permutation (x_attrs x) (x_attrs y)
  /\ NoDup (map fst (x_attrs x)) /\ Forall2 xml_attr_perm (x_children x) (x_children y).
Proof. intros x y H. destruct H. cbn. auto. Qed.

Lemma sassoc_perm : forall k a a', Permutation a a' -> NoDup (map fst a) -> sassoc k a = sassoc k a'.
Proof.
  intros k a a' HP. induction HP as [|[k1 v1] l l' HP IH|[k1 v1] [k2 v2] l|l l' l'' HP1 IH1 HP2 IH2];
    intros Hnd.
  - reflexivity.
  - cbn [map fst] in Hnd. inversion Hnd; subst. cbn [sassoc]. rewrite IH by assumption. reflexivity.
  - cbn [map fst] in Hnd. inversion Hnd as [|? ? Hni _]; subst. cbn [sassoc].
    destruct (String.eqb_spec k k1) as [E1|E1]; destruct (String.eqb_spec k k2) as [E2|E2];
      try reflexivity.
    exfalso. apply Hni. left. congruence.
  - rewrite IH1 by assumption. apply IH2.
    eapply Permutation_NoDup; [|exact Hnd]. apply Permutation_map. exact HP1.
Qed.

Definition perm_feat_stmt (x : xml) : Prop :=
  forall y, xml_attr_perm x y -> forall here parent st,
    fide_read_features x here parent st = fide_read_features y here parent st.

Lemma fide_one_perm : forall k k' mp parent,
  perm_feat_stmt k -> xml_attr_perm k k' -> fide_one k mp parent = fide_one k' mp parent.
Proof.
  intros k k' mp parent Hk HP. unfold fide_one, fide_own, fide_info_of, attr_true.
  destruct (xml_attr_perm_inv _ _ HP) as (Ht & _ & Ha & Hnd & _).
  rewrite !(sassoc_perm _ _ _ Ha Hnd), <- Ht, !(Hk _ HP). reflexivity.
Qed.

Lemma fide_go_perm : forall pia st here parent kids kids',
  Forall perm_feat_stmt kids -> Forall2 xml_attr_perm kids kids' ->
  forall p, fide_go pia st here parent p kids = fide_go pia st here parent p kids'.
Proof.
  intros pia st here parent kids kids' HF HP. induction HP as [|k k' kids kids' Hkk _ IH]; intros p;
    [reflexivity|].
  inversion HF as [|? ? Hk HF']; subst. cbn [fide_go].
  assert (Hsk : fide_skipped k = fide_skipped k').
  { unfold fide_skipped. rewrite (proj1 (xml_attr_perm_inv _ _ Hkk)). reflexivity. }
  rewrite <- Hsk, <- (fide_one_perm _ _ _ _ Hk Hkk), !(IH HF'). reflexivity.
Qed.

Lemma perm_feat_correct : forall x, perm_feat_stmt x.
Proof.
  induction x as [tag a t kids IH] using xml_ind2. intros y HP here parent st.
  destruct (xml_attr_perm_inv _ _ HP) as (Ht & _ & _ & _ & Hk).
  destruct y as [tag' a' t' kids']. cbn [x_tag x_children] in *. subst tag'.
  rewrite !fide_read_features_eq, (fide_go_perm _ _ _ _ _ _ IH Hk). reflexivity.
Qed.

Definition perm_rule_stmt (x : xml) : Prop :=
  forall y, xml_attr_perm x y -> fide_parse_rule x = fide_parse_rule y.

Lemma rule_sub_perm : forall kids kids' i,
  Forall perm_rule_stmt kids -> Forall2 xml_attr_perm kids kids' -> rule_sub kids i = rule_sub kids' i.
Proof.
  intros kids kids' i HF HP. revert i. induction HP as [|k k' kids kids' Hkk _ IH]; intros i.
  - destruct i; reflexivity.
  - inversion HF as [|? ? Hk HF']; subst. destruct i as [|i].
    + unfold rule_sub. cbn [nth_error]. exact (Hk _ Hkk).
    + exact (IH HF' i).
Qed.

Lemma rule_fold_perm : forall o kids kids',
  Forall perm_rule_stmt kids -> Forall2 xml_attr_perm kids kids' ->
  forall acc, rule_fold o acc kids = rule_fold o acc kids'.
Proof.
  intros o kids kids' HF HP. induction HP as [|k k' kids kids' Hkk _ IH]; intros acc; [reflexivity|].
  inversion HF as [|? ? Hk HF']; subst. cbn [rule_fold]. rewrite <- (Hk _ Hkk).
  destruct (fide_parse_rule k); [|reflexivity]. apply IH. exact HF'.
Qed.

Lemma perm_rule_correct : forall x, perm_rule_stmt x.
Proof.
  induction x as [tag a t kids IH] using xml_ind2. intros y HP.
  destruct (xml_attr_perm_inv _ _ HP) as (Ht & Htx & _ & _ & Hk).
  destruct y as [tag' a' t' kids']. cbn [x_tag x_text x_children] in *. subst tag' t'.
  rewrite !fide_parse_rule_eq.
  rewrite !(rule_sub_perm _ _ _ IH Hk).
  destruct Hk as [|k k' kids kids' Hkk Hk]; [reflexivity|].
  inversion IH as [|? ? Hk0 IH']; subst.
  rewrite <- (Hk0 _ Hkk). destruct (fide_parse_rule k) as [n0|e]; [|reflexivity].
  rewrite (rule_fold_perm _ _ _ IH' Hk). reflexivity.
Qed.

Lemma first_unskipped_perm : forall l l', Forall2 xml_attr_perm l l' ->
  (exists e, first_unskipped l = Err e /\ first_unskipped l' = Err e)
  \/ (exists r r', first_unskipped l = Ok r /\ first_unskipped l' = Ok r' /\ xml_attr_perm r r').
Proof.
  intros l l' HP. induction HP as [|k k' l l' Hkk _ IH].
  - left. eexists. split; reflexivity.
  - cbn [first_unskipped].
    assert (Hsk : fide_skipped k = fide_skipped k').
    { unfold fide_skipped. rewrite (proj1 (xml_attr_perm_inv _ _ Hkk)). reflexivity. }
    rewrite <- Hsk. destruct (fide_skipped k); [exact IH|].
    right. exists k, k'. auto.
Qed.

Lemma read_rules_perm : forall rules rules', Forall2 xml_attr_perm rules rules' ->
  forall k, read_rules k rules = read_rules k rules'.
Proof.
  intros rules rules' HP. induction HP as [|r r' rules rules' Hrr _ IH]; intros k; [reflexivity|].
  cbn [read_rules].
  destruct (xml_attr_perm_inv _ _ Hrr) as (_ & _ & _ & _ & Hk).
  destruct (first_unskipped_perm _ _ Hk) as [(e & E1 & E2)|(x & x' & E1 & E2 & Hxx)]; rewrite E1, E2.
  - reflexivity.
  - rewrite <- (perm_rule_correct _ _ Hxx), IH. reflexivity.
Qed.

Lemma read_doc_perm : forall kids kids', Forall2 xml_attr_perm kids kids' ->
  forall root_ cs, read_doc kids root_ cs = read_doc kids' root_ cs.
Proof.
  intros kids kids' HP. induction HP as [|k k' kids kids' Hkk _ IH]; intros root_ cs; [reflexivity|].
  cbn [read_doc]. destruct (xml_attr_perm_inv _ _ Hkk) as (Ht & _ & _ & _ & Hk).
  rewrite <- Ht, <- (perm_feat_correct _ _ Hkk), !fide_read_constraints_eq, <- (read_rules_perm _ _ Hk).
  destruct (String.eqb (x_tag k) fide_TAG_STRUCT).
  - destruct (fide_read_features k [] PNone true); [apply IH|reflexivity].
  - destruct (String.eqb (x_tag k) fide_TAG_CONSTRAINTS); [|apply IH].
    destruct (read_rules 1 (x_children k)); [apply IH|reflexivity].
Qed.

Theorem fide_read_attr_perm : forall x y, xml_attr_perm x y -> fide_read x = fide_read y.
Proof.
  intros x y HP. rewrite !fide_read_eq.
  apply read_doc_perm. exact (proj2 (proj2 (proj2 (proj2 (xml_attr_perm_inv _ _ HP))))).
Qed.

(* ------------------------------------------------------------------ 3c. n-ary rules *)
Lemma rule_fold_nary : forall o ks ns,
  Forall2 (fun k n => fide_parse_rule k = Ok n) ks ns ->
  forall acc, rule_fold o acc ks = Ok (fold_left (fun acc n => bin o acc n) ns acc).
Proof.
  intros o ks ns HF. induction HF as [|k n ks ns Hk _ IH]; intros acc; [reflexivity|].
  cbn [rule_fold fold_left]. rewrite Hk. apply IH.
Qed.

Theorem fide_parse_rule_nary : forall tag o k0 ks n0 ns,
  (tag = fide_TAG_CONJ /\ o = AND) \/ (tag = fide_TAG_DISJ /\ o = OR) ->
  fide_parse_rule k0 = Ok n0 -> Forall2 (fun k n => fide_parse_rule k = Ok n) ks ns ->
  fide_parse_rule (Elem tag [] None (k0 :: ks)) = Ok (fold_left (fun acc n => bin o acc n) ns n0).
Proof.
  intros tag o k0 ks n0 ns Ht H0 HF. rewrite fide_parse_rule_eq.
  destruct Ht as [[-> ->]|[-> ->]]; eval_tags; rewrite H0; apply rule_fold_nary; exact HF.
Qed.

(* ================================================================== assumptions *)
Print Assumptions fide_read_ptr_wf.
Print Assumptions fide_read_ctc_shape.
Print Assumptions fide_read_nonempty.
Print Assumptions fide_roundtrip.
Print Assumptions fide_norm_sem.
Print Assumptions fide_norm_tree.
Print Assumptions fide_norm_ok.
Print Assumptions fide_norm_idempotent.
Print Assumptions fide_norm_idempotent_after_one.
Print Assumptions fide_no_constraints.
Print Assumptions fide_read_strip.
Print Assumptions fide_read_attr_perm.
Print Assumptions fide_parse_rule_nary.

(* an empty <var/> (no text) in a rule is a library error; the same rule with a text is read *)
Example fide_read_empty_var :
  fide_read (cex_doc [cex_feat [("name", "a")]] [Elem "rule" [] None [Elem "var" [] None []]])
  = Err FlamaException
  /\ is_ok (fide_read (cex_doc [cex_feat [("name", "a")]] [Elem "rule" [] None [Elem "var" [] (Some "a") []]]))
     = true.
Proof. split; vm_compute; reflexivity. Qed.
Print Assumptions fide_read_empty_var.
