(* Proofs/SrcSplitFacts.v — the source tie for the functions built on split_formula:
   split_constraint, Constraint.is_pseudocomplex_constraint / is_strictcomplex_constraint, the two
   listings of the model and get_new_ctc_name.  The definitions GENERATED from the Python text
   (Gen/Src_fm.v) are equal to the hand-written model (Model/Ctc.v, Model/Queries.v) for every
   fuel that is large enough. *)
From Coq Require Import List Bool Ascii String ZArith Lia Arith FinFun.
From Coq Require DecimalString Decimal DecimalZ DecimalPos.
From FM Require Import Base.Result Base.Str Base.AstOp Gen.Tables_core Model.Ast Model.FM Model.Ctc
  Model.Queries Model.PyRt Model.Loc Gen.Src_fm Proofs.SrcCtcFacts.
Import ListNotations.
Local Open Scope list_scope.

(* ------------------------------------------------------------------------------------------ *)
(* "for every fuel that is large enough"                                                      *)
(* ------------------------------------------------------------------------------------------ *)

Definition evt {A} (f : nat -> A) (v : A) : Prop :=
  exists n0, forall fuel, (n0 <= fuel)%nat -> f fuel = v.

Lemma evt_const : forall {A} (v : A), evt (fun _ => v) v.
Proof. intros A v. exists 0%nat. intros fuel _. reflexivity. Qed.

Lemma evt_eq : forall {A} (f : nat -> A) (v w : A), evt f v -> v = w -> evt f w.
Proof. intros A f v w H E. subst w. exact H. Qed.

Lemma evt_ext : forall {A} (f g : nat -> A) (v : A), (forall n, f n = g n) -> evt g v -> evt f v.
Proof.
  intros A f g v E [n0 H]. exists n0. intros fuel Hf. rewrite E. apply H. exact Hf.
Qed.

Lemma evt_bind : forall {A B} (f : nat -> result A) (a : result A)
    (g : nat -> A -> result B) (k : A -> result B),
  evt f a ->
  (forall x, a = Ok x -> evt (fun fuel => g fuel x) (k x)) ->
  evt (fun fuel => bind (f fuel) (g fuel)) (bind a k).
Proof.
  intros A B f a g k [n1 H1] H2. destruct a as [x|e].
  - destruct (H2 x eq_refl) as [n2 H3]. exists (Nat.max n1 n2). intros fuel Hf.
    rewrite H1 by lia. cbn [bind]. apply H3. lia.
  - exists n1. intros fuel Hf. rewrite H1 by lia. reflexivity.
Qed.

Lemma evt_flat_mapM : forall {A B} (f : nat -> A -> result (list B)) (g : A -> result (list B)) l,
  (forall x, evt (fun fuel => f fuel x) (g x)) ->
  evt (fun fuel => py_flat_mapM (f fuel) l) (py_flat_mapM g l).
Proof.
  intros A B f g l H. induction l as [|x xs IH].
  - exists 0%nat. intros fuel _. reflexivity.
  - destruct (H x) as [n1 H1]. destruct IH as [n2 H2].
    exists (Nat.max n1 n2). intros fuel Hf.
    rewrite !py_flat_mapM_cons. rewrite H1 by lia. rewrite H2 by lia. reflexivity.
Qed.

(* ------------------------------------------------------------------------------------------ *)
(* general helper lemmas                                                                      *)
(* ------------------------------------------------------------------------------------------ *)

Lemma bind_ok_inv : forall {A B} (r : result A) (k : A -> result B) y,
  bind r k = Ok y -> exists x, r = Ok x /\ k x = Ok y.
Proof.
  intros A B r k y H. destruct r as [x|e]; [|discriminate H]. exists x. split; [reflexivity|exact H].
Qed.

Lemma mapM_cons : forall {A B} (f : A -> result B) x xs,
  mapM f (x :: xs) =
  match f x with
  | Err e => Err e
  | Ok y => match mapM f xs with Err e => Err e | Ok ys => Ok (y :: ys) end
  end.
Proof. reflexivity. Qed.

(* [f(x) for x in l] *)
Lemma py_flat_mapM_singleton : forall {A B} (h : A -> result B) l,
  py_flat_mapM (fun a => bind (h a) (fun v => Ok [v])) l = mapM h l.
Proof.
  intros A B h l. induction l as [|x xs IH]; [reflexivity|].
  rewrite py_flat_mapM_cons, mapM_cons, IH.
  destruct (h x) as [y|e]; cbn [bind]; [|reflexivity].
  destruct (mapM h xs) as [ys|e]; reflexivity.
Qed.

Lemma foldM_cons : forall {S A} (f : S -> A -> result S) x xs s,
  foldM f (x :: xs) s = match f s x with Err e => Err e | Ok s' => foldM f xs s' end.
Proof. reflexivity. Qed.

Lemma foldM_ext_in : forall {S A} (f g : S -> A -> result S) l,
  (forall s x, In x l -> f s x = g s x) -> forall s, foldM f l s = foldM g l s.
Proof.
  intros S A f g l. induction l as [|x xs IH]; intros H s; [reflexivity|].
  rewrite !foldM_cons. rewrite (H s x) by (left; reflexivity).
  destruct (g s x) as [s'|e]; [|reflexivity].
  apply IH. intros s0 x0 Hin. apply H. right. exact Hin.
Qed.

(* acc = []; for x in l: acc += g(x) *)
Lemma foldM_app_flat_mapM : forall {A B} (g : A -> result (list B)) l acc,
  foldM (fun acc x => bind (bind (g x) (fun v => Ok (acc ++ v))) (fun v => Ok v)) l acc
  = rmap (app acc) (flat_mapM g l).
Proof.
  intros A B g l. unfold flat_mapM. induction l as [|x xs IH]; intros acc.
  - cbn [foldM mapM List.concat rmap]. rewrite app_nil_r. reflexivity.
  - rewrite foldM_cons, mapM_cons.
    destruct (g x) as [y|e]; cbn [bind]; [|reflexivity].
    rewrite IH.
    destruct (mapM g xs) as [ys|e]; cbn [rmap List.concat]; [|reflexivity].
    rewrite <- app_assoc. reflexivity.
Qed.

Definition maxfuel (l : list node) : nat := fold_right Nat.max 0%nat (map fuel_node l).

Lemma maxfuel_in : forall l x, In x l -> (fuel_node x <= maxfuel l)%nat.
Proof.
  intros l x. unfold maxfuel. induction l as [|y ys IH]; intros H; [destruct H|].
  cbn [map fold_right]. destruct H as [H|H].
  - subst y. lia.
  - specialize (IH H). lia.
Qed.

(* the loop "asts = []; for ctc in l: asts += split_formula(ctc)" *)
Lemma evt_fold_split : forall l,
  evt (fun fuel => foldM (fun acc x => bind (bind (py_split_formula fuel x) (fun v => Ok (acc ++ v)))
                                            (fun v => Ok v)) l [])
      (flat_mapM split_formula l).
Proof.
  intros l. exists (maxfuel l). intros fuel Hf.
  rewrite (foldM_ext_in _ (fun acc x => bind (bind (split_formula x) (fun v => Ok (acc ++ v)))
                                             (fun v => Ok v))).
  - rewrite foldM_app_flat_mapM. destruct (flat_mapM split_formula l) as [r|e]; reflexivity.
  - intros s x Hin. rewrite src_split_formula; [reflexivity|].
    apply maxfuel_in in Hin. lia.
Qed.

(* ------------------------------------------------------------------------------------------ *)
(* split_constraint                                                                           *)
(* ------------------------------------------------------------------------------------------ *)

(* the constraints made of the final list of formulas *)
Definition mk_ctcs (nm : string) (l : list node) : list ctc :=
  flat_map (fun '(i, a) => [{| c_name := (nm ++ z_to_string i)%string; c_ast := a |}])
           (py_enumerate_from 0%Z l).

Lemma split_asts_bind : forall {B} (F : list node -> B) n,
  rmap F (split_asts n) =
  bind (split_formula n) (fun l0 =>
  bind (mapM (fun a => simplify_fuel (default_fuel a) a) l0) (fun l1 =>
  bind (flat_mapM split_formula l1) (fun l2 =>
  bind (mapM (fun a => propagate_negation a false) l2) (fun l3 =>
  bind (flat_mapM split_formula l3) (fun l4 =>
  bind (mapM (fun a => to_cnf_fuel (default_fuel a) a) l4) (fun l5 =>
  bind (flat_mapM split_formula l5) (fun l6 => Ok (F l6)))))))).
Proof.
  intros B F n. unfold split_asts.
  destruct (split_formula n) as [l0|e]; cbn [bind rmap]; [|reflexivity].
  destruct (mapM _ l0) as [l1|e]; cbn [bind rmap]; [|reflexivity].
  destruct (flat_mapM split_formula l1) as [l2|e]; cbn [bind rmap]; [|reflexivity].
  destruct (mapM _ l2) as [l3|e]; cbn [bind rmap]; [|reflexivity].
  destruct (flat_mapM split_formula l3) as [l4|e]; cbn [bind rmap]; [|reflexivity].
  destruct (mapM _ l4) as [l5|e]; cbn [bind rmap]; [|reflexivity].
  destruct (flat_mapM split_formula l5) as [l6|e]; reflexivity.
Qed.

Lemma evt_split_formula : forall n, evt (fun fuel => py_split_formula fuel n) (split_formula n).
Proof. intros n. exists (fuel_node n). intros fuel Hf. apply src_split_formula. exact Hf. Qed.

Lemma evt_singleton_stage : forall (h : node -> result node) l,
  evt (fun _ : nat => py_flat_mapM (fun a => bind (h a) (fun v => Ok [v])) l) (mapM h l).
Proof. intros h l. rewrite py_flat_mapM_singleton. apply evt_const. Qed.

Lemma evt_split_constraint : forall c,
  evt (fun fuel => py_split_constraint fuel c) (rmap (mk_ctcs (c_name c)) (split_asts (c_ast c))).
Proof.
  intros c. rewrite split_asts_bind. unfold py_split_constraint.
  apply evt_bind; [apply evt_split_formula|]. intros l0 _. cbv beta zeta.
  apply evt_bind; [apply evt_singleton_stage|]. intros l1 _. cbv beta zeta.
  apply evt_bind; [apply evt_fold_split|]. intros l2 _. cbv beta zeta.
  apply evt_bind; [apply evt_singleton_stage|]. intros l3 _. cbv beta zeta.
  apply evt_bind; [apply evt_fold_split|]. intros l4 _. cbv beta zeta.
  apply evt_bind; [apply evt_singleton_stage|]. intros l5 _. cbv beta zeta.
  apply evt_bind; [apply evt_fold_split|]. intros l6 _. cbv beta zeta.
  apply evt_const.
Qed.

Lemma mk_ctcs_gen_ast : forall nm l i,
  map c_ast (flat_map (fun '(i, a) => [{| c_name := (nm ++ z_to_string i)%string; c_ast := a |}])
                      (py_enumerate_from i l)) = l.
Proof.
  intros nm l. induction l as [|x xs IH]; intros i; [reflexivity|].
  cbn [py_enumerate_from flat_map app map c_ast]. rewrite IH. reflexivity.
Qed.

Lemma map_c_ast_mk_ctcs : forall nm l, map c_ast (mk_ctcs nm l) = l.
Proof. intros nm l. apply mk_ctcs_gen_ast. Qed.

Lemma src_split_constraint : forall c, exists n0, forall fuel, (n0 <= fuel)%nat ->
  rmap (map c_ast) (py_split_constraint fuel c) = split_asts (c_ast c).
Proof.
  intros c. destruct (evt_split_constraint c) as [n0 H]. exists n0. intros fuel Hf.
  rewrite (H fuel Hf). destruct (split_asts (c_ast c)) as [l|e]; cbn [rmap]; [|reflexivity].
  rewrite map_c_ast_mk_ctcs. reflexivity.
Qed.

(* the names, for every fuel *)
Lemma py_split_constraint_shape : forall c fuel l,
  py_split_constraint fuel c = Ok l -> exists asts, l = mk_ctcs (c_name c) asts.
Proof.
  intros c fuel l H. unfold py_split_constraint in H.
  repeat match type of H with
         | bind _ _ = Ok _ =>
             apply bind_ok_inv in H; destruct H as [? [_ H]]; cbv beta zeta in H
         end.
  match type of H with Ok (flat_map _ (py_enumerate_from _ ?a)) = _ => exists a end.
  injection H as H. symmetry. exact H.
Qed.

Lemma mk_ctcs_gen_names : forall nm l k,
  map c_name (flat_map (fun '(i, a) => [{| c_name := (nm ++ z_to_string i)%string; c_ast := a |}])
                       (py_enumerate_from (Z.of_nat k) l))
  = map (fun i => (nm ++ z_to_string (Z.of_nat i))%string) (seq k (List.length l)).
Proof.
  intros nm l. induction l as [|x xs IH]; intros k; [reflexivity|].
  cbn [py_enumerate_from flat_map app map c_name List.length seq].
  replace (Z.of_nat k + 1)%Z with (Z.of_nat (S k)) by lia.
  rewrite IH. reflexivity.
Qed.

Lemma mk_ctcs_length : forall nm l, List.length (mk_ctcs nm l) = List.length l.
Proof. intros nm l. rewrite <- (map_c_ast_mk_ctcs nm l) at 2. rewrite map_length. reflexivity. Qed.

Lemma src_split_constraint_names : forall c fuel l, py_split_constraint fuel c = Ok l ->
  map c_name l = map (fun i => (c_name c ++ z_to_string (Z.of_nat i))%string) (seq 0 (List.length l)).
Proof.
  intros c fuel l H. apply py_split_constraint_shape in H. destruct H as [asts H]. subst l.
  rewrite mk_ctcs_length. exact (mk_ctcs_gen_names (c_name c) asts 0).
Qed.

(* ------------------------------------------------------------------------------------------ *)
(* pseudo-complex and strict-complex constraints                                              *)
(* ------------------------------------------------------------------------------------------ *)

Lemma py_forallM_map : forall {A B} (f : A -> result bool) (g : B -> result bool) (h : A -> B) l,
  (forall x, f x = g (h x)) -> py_forallM f l = forallM g (map h l).
Proof.
  intros A B f g h l H. induction l as [|x xs IH]; [reflexivity|].
  cbn [map]. unfold py_forallM, forallM in *. rewrite H.
  destruct (g (h x)) as [[|]|e]; try reflexivity. exact IH.
Qed.

Lemma py_existsM_map : forall {A B} (f : A -> result bool) (g : B -> result bool) (h : A -> B) l,
  (forall x, f x = g (h x)) -> py_existsM f l = existsM g (map h l).
Proof.
  intros A B f g h l H. induction l as [|x xs IH]; [reflexivity|].
  cbn [map]. unfold py_existsM, existsM in *. rewrite H.
  destruct (g (h x)) as [[|]|e]; try reflexivity. exact IH.
Qed.

Lemma evt_is_pseudocomplex : forall c,
  evt (fun fuel => py_Constraint_is_pseudocomplex_constraint fuel c) (is_pseudocomplex (c_ast c)).
Proof.
  intros c. unfold py_Constraint_is_pseudocomplex_constraint.
  apply (evt_eq _ (bind (is_complex (c_ast c)) (fun b =>
           if b then bind (rmap (mk_ctcs (c_name c)) (split_asts (c_ast c)))
                          (fun l => py_forallM py_Constraint_is_simple_constraint l)
           else Ok false))).
  - apply evt_bind; [rewrite src_is_complex; apply evt_const|]. intros b _.
    destruct b; [|apply evt_const].
    apply evt_bind; [apply evt_split_constraint|]. intros l _. cbv beta zeta. apply evt_const.
  - unfold is_pseudocomplex.
    destruct (is_complex (c_ast c)) as [[|]|e]; cbn [bind]; try reflexivity.
    destruct (split_asts (c_ast c)) as [l|e]; cbn [rmap bind]; [|reflexivity].
    rewrite (py_forallM_map _ is_simple c_ast) by (intros x; apply src_is_simple).
    rewrite map_c_ast_mk_ctcs. reflexivity.
Qed.

Lemma evt_is_strictcomplex : forall c,
  evt (fun fuel => py_Constraint_is_strictcomplex_constraint fuel c) (is_strictcomplex (c_ast c)).
Proof.
  intros c. unfold py_Constraint_is_strictcomplex_constraint.
  apply (evt_eq _ (bind (is_complex (c_ast c)) (fun b =>
           if b then bind (rmap (mk_ctcs (c_name c)) (split_asts (c_ast c)))
                          (fun l => py_existsM py_Constraint_is_complex_constraint l)
           else Ok false))).
  - apply evt_bind; [rewrite src_is_complex; apply evt_const|]. intros b _.
    destruct b; [|apply evt_const].
    apply evt_bind; [apply evt_split_constraint|]. intros l _. cbv beta zeta. apply evt_const.
  - unfold is_strictcomplex.
    destruct (is_complex (c_ast c)) as [[|]|e]; cbn [bind]; try reflexivity.
    destruct (split_asts (c_ast c)) as [l|e]; cbn [rmap bind]; [|reflexivity].
    rewrite (py_existsM_map _ is_complex c_ast) by (intros x; apply src_is_complex).
    rewrite map_c_ast_mk_ctcs. reflexivity.
Qed.

Lemma src_is_pseudocomplex : forall c, exists n0, forall fuel, (n0 <= fuel)%nat ->
  py_Constraint_is_pseudocomplex_constraint fuel c = is_pseudocomplex (c_ast c).
Proof. intros c. exact (evt_is_pseudocomplex c). Qed.

Lemma src_is_strictcomplex : forall c, exists n0, forall fuel, (n0 <= fuel)%nat ->
  py_Constraint_is_strictcomplex_constraint fuel c = is_strictcomplex (c_ast c).
Proof. intros c. exact (evt_is_strictcomplex c). Qed.

(* ------------------------------------------------------------------------------------------ *)
(* the two listings                                                                           *)
(* ------------------------------------------------------------------------------------------ *)

Lemma evt_listing : forall (f : nat -> ctc -> result bool) (p : node -> result bool) m,
  (forall c, evt (fun fuel => f fuel c) (p (c_ast c))) ->
  evt (fun fuel => py_flat_mapM (fun c => bind (f fuel c) (fun b => Ok (if b then [c] else [])))
                                (py_FeatureModel_get_constraints m))
      (rmap (pick (ctcs m)) (ctc_listing p m)).
Proof.
  intros f p m H. unfold py_FeatureModel_get_constraints, ctc_listing.
  rewrite <- (listing_gen (fun c => p (c_ast c))).
  apply (evt_flat_mapM (fun fuel c => bind (f fuel c) (fun b => Ok (if b then [c] else [])))).
  intros c. apply evt_bind; [apply H|]. intros b _. apply evt_const.
Qed.

Lemma src_get_pseudocomplex_constraints : forall m, exists n0, forall fuel, (n0 <= fuel)%nat ->
  py_FeatureModel_get_pseudocomplex_constraints fuel m = rmap (pick (ctcs m)) (get_pseudocomplex_constraints m).
Proof.
  intros m. unfold py_FeatureModel_get_pseudocomplex_constraints, get_pseudocomplex_constraints.
  exact (evt_listing _ is_pseudocomplex m evt_is_pseudocomplex).
Qed.

Lemma src_get_strictcomplex_constraints : forall m, exists n0, forall fuel, (n0 <= fuel)%nat ->
  py_FeatureModel_get_strictcomplex_constraints fuel m = rmap (pick (ctcs m)) (get_strictcomplex_constraints m).
Proof.
  intros m. unfold py_FeatureModel_get_strictcomplex_constraints, get_strictcomplex_constraints.
  exact (evt_listing _ is_strictcomplex m evt_is_strictcomplex).
Qed.

(* ------------------------------------------------------------------------------------------ *)
(* get_new_ctc_name                                                                           *)
(* ------------------------------------------------------------------------------------------ *)

(* decimal text of integers *)
Lemma string_to_z_to_string' : forall z, string_to_z (z_to_string z) = Some z.
Proof.
  intros z. unfold string_to_z, z_to_string.
  rewrite DecimalString.NilZero.isi.
  - rewrite DecimalZ.of_to. reflexivity.
  - destruct z as [|p|p]; cbn; try discriminate.
    intros H. inversion H as [H1]. exact (DecimalPos.Unsigned.to_uint_nonnil _ H1).
  - destruct z as [|p|p]; cbn; try discriminate.
    intros H. inversion H as [H1]. exact (DecimalPos.Unsigned.to_uint_nonnil _ H1).
Qed.

Lemma z_to_string_inj : forall a b, z_to_string a = z_to_string b -> a = b.
Proof.
  intros a b H. apply (f_equal string_to_z) in H. rewrite !string_to_z_to_string' in H.
  injection H as H. exact H.
Qed.

Lemma z_to_string_nonempty : forall z, z_to_string z <> EmptyString.
Proof.
  intros z H. apply (f_equal string_to_z) in H. rewrite string_to_z_to_string' in H.
  vm_compute in H. discriminate H.
Qed.

Lemma str_app_inv_head : forall p a b : string, (p ++ a = p ++ b)%string -> a = b.
Proof.
  intros p a b. induction p as [|ch p IH]; intros H; [exact H|].
  cbn [String.append] in H. injection H as H. apply IH. exact H.
Qed.

Lemma str_app_self : forall p s : string, (p = p ++ s)%string -> s = EmptyString.
Proof.
  intros p s. induction p as [|ch p IH]; intros H; [symmetry; exact H|].
  cbn [String.append] in H. injection H as H. apply IH. exact H.
Qed.

Lemma list_existsb_eq_in : forall s l, list_existsb_eq s l = true -> In s l.
Proof.
  intros s l. induction l as [|x xs IH]; cbn [list_existsb_eq]; intros H; [discriminate H|].
  apply orb_true_iff in H. destruct H as [H|H].
  - left. apply String.eqb_eq in H. symmetry. exact H.
  - right. apply IH. exact H.
Qed.

Lemma existsb_eqb_list_existsb_eq : forall s l,
  existsb (fun y => String.eqb y s) l = list_existsb_eq s l.
Proof.
  intros s l. induction l as [|x xs IH]; [reflexivity|].
  cbn [existsb list_existsb_eq]. rewrite IH, (String.eqb_sym x s). reflexivity.
Qed.

(* the step of the loop, written by hand (convertible with the generated one up to the test) *)
Definition nn_step (names : list string) (prefix : string) : string * Z -> result (option (string * Z)) :=
  fun '(cur, cnt) =>
    if list_existsb_eq cur names
    then Ok (Some ((prefix ++ z_to_string cnt)%string, (cnt + 1)%Z))
    else Ok None.

(* when the model's run ends on a fresh name, the loop ends on it too *)
Lemma nn_loop : forall names prefix F cur cnt,
  list_existsb_eq (new_ctc_name_aux F names prefix cnt cur) names = false ->
  forall fuel, (F < fuel)%nat ->
  exists cnt', whileM fuel (nn_step names prefix) (cur, cnt)
               = Ok (new_ctc_name_aux F names prefix cnt cur, cnt').
Proof.
  intros names prefix F. induction F as [|F' IH]; intros cur cnt Hfresh fuel Hf.
  - cbn [new_ctc_name_aux] in *. destruct fuel as [|k]; [lia|].
    cbn [whileM nn_step]. rewrite Hfresh. exists cnt. reflexivity.
  - destruct fuel as [|k]; [lia|].
    cbn [new_ctc_name_aux] in *. cbn [whileM nn_step].
    destruct (list_existsb_eq cur names) eqn:E.
    + apply IH; [exact Hfresh|lia].
    + exists cnt. reflexivity.
Qed.

(* when the model's run ends on a name that is taken, all the names it tried are taken *)
Lemma nn_all_taken : forall names prefix F cur cnt,
  list_existsb_eq (new_ctc_name_aux F names prefix cnt cur) names = true ->
  In cur names /\
  forall j, (j < F)%nat -> In (prefix ++ z_to_string (cnt + Z.of_nat j))%string names.
Proof.
  intros names prefix F. induction F as [|F' IH]; intros cur cnt H.
  - cbn [new_ctc_name_aux] in H. split; [apply list_existsb_eq_in; exact H|]. intros j Hj. lia.
  - cbn [new_ctc_name_aux] in H.
    destruct (list_existsb_eq cur names) eqn:E; [|rewrite E in H; discriminate H].
    destruct (IH _ _ H) as [H1 H2]. split; [apply list_existsb_eq_in; exact E|].
    intros j Hj. destruct j as [|j'].
    + replace (cnt + Z.of_nat 0)%Z with cnt by lia. exact H1.
    + replace (cnt + Z.of_nat (S j'))%Z with (cnt + 1 + Z.of_nat j')%Z by lia. apply H2. lia.
Qed.

(* pigeonhole: the model's answer is fresh *)
Lemma get_new_ctc_name_fresh : forall names prefix,
  list_existsb_eq (get_new_ctc_name names prefix) names = false.
Proof.
  intros names prefix. unfold get_new_ctc_name.
  destruct (list_existsb_eq (new_ctc_name_aux (S (List.length names)) names prefix 1 prefix) names) eqn:E;
    [|reflexivity].
  exfalso. apply nn_all_taken in E. destruct E as [H0 H1].
  set (g := fun j : nat => (prefix ++ z_to_string (1 + Z.of_nat j))%string) in *.
  set (L := prefix :: map g (seq 0 (List.length names))).
  assert (Hnd : NoDup L).
  { unfold L. constructor.
    - intros Hin. apply in_map_iff in Hin. destruct Hin as [j [Hj _]]. unfold g in Hj.
      symmetry in Hj. apply str_app_self in Hj. revert Hj. apply z_to_string_nonempty.
    - apply Injective_map_NoDup; [|apply seq_NoDup].
      intros x y Hxy. unfold g in Hxy. apply str_app_inv_head, z_to_string_inj in Hxy. lia. }
  assert (Hincl : incl L names).
  { unfold L. intros s [Hs|Hs].
    - subst s. exact H0.
    - apply in_map_iff in Hs. destruct Hs as [j [Hj Hin]]. subst s.
      apply in_seq in Hin. apply H1. lia. }
  pose proof (NoDup_incl_length Hnd Hincl) as Hlen.
  unfold L in Hlen. cbn [List.length] in Hlen. rewrite map_length, seq_length in Hlen. lia.
Qed.

Lemma src_get_new_ctc_name : forall names prefix, exists n0, forall fuel, (n0 <= fuel)%nat ->
  py_get_new_ctc_name fuel names prefix = Ok (get_new_ctc_name names prefix).
Proof.
  intros names prefix. exists (S (S (List.length names))). intros fuel Hf.
  unfold py_get_new_ctc_name. cbv zeta.
  rewrite (whileM_ext fuel _ (nn_step names prefix)).
  - destruct (nn_loop names prefix (S (List.length names)) prefix 1%Z
                (get_new_ctc_name_fresh names prefix) fuel) as [cnt' H]; [lia|].
    rewrite H. reflexivity.
  - intros [cur cnt]. cbn [nn_step]. rewrite existsb_eqb_list_existsb_eq. reflexivity.
Qed.

Print Assumptions src_split_constraint.
Print Assumptions src_split_constraint_names.
Print Assumptions src_is_pseudocomplex.
Print Assumptions src_is_strictcomplex.
Print Assumptions src_get_pseudocomplex_constraints.
Print Assumptions src_get_strictcomplex_constraints.
Print Assumptions src_get_new_ctc_name.
