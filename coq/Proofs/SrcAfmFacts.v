(* Proofs/SrcAfmFacts.v — the source tie for afm_writer.py: the generated translation (Gen/Src_afm.v),
   which produces the TEXT, equals the hand-written model of Format/Afm.v (writer part), which builds a
   syntax tree and prints it. *)
From Coq Require Import List Bool Ascii String ZArith Lia.
From FM Require Import Base.Result Base.Str Base.AstOp Model.Ast Model.FM Model.PFM Model.Queries
     Gen.Tables_afm Format.Afm Model.PyRt Model.Loc Gen.Src_fm Gen.Src_afm
     Proofs.FMFacts Proofs.PositionalFacts Proofs.SrcFmFacts.
Import ListNotations.
Local Open Scope list_scope.

(* ------------------------------------------------------------------ strings *)
Lemma sa_app_assoc (a b c : string) : ((a ++ b) ++ c)%string = (a ++ (b ++ c))%string.
Proof. induction a as [|x a IH]; cbn [append]; [reflexivity|]. rewrite IH. reflexivity. Qed.

Lemma sa_app_nil_r (a : string) : (a ++ "")%string = a.
Proof. induction a as [|x a IH]; cbn [append]; [reflexivity|]. rewrite IH. reflexivity. Qed.

Lemma sa_concat_cons (x : string) (l : list string) : str_concat (x :: l) = (x ++ str_concat l)%string.
Proof. reflexivity. Qed.

Lemma sa_concat_app (l1 l2 : list string) :
  str_concat (l1 ++ l2) = (str_concat l1 ++ str_concat l2)%string.
Proof.
  induction l1 as [|x xs IH]; cbn [app]; [reflexivity|].
  rewrite !sa_concat_cons, IH, sa_app_assoc. reflexivity.
Qed.

Lemma sa_concat_flat_map {A} (g : A -> list string) (l : list A) :
  str_concat (flat_map g l) = str_concat (map (fun x => str_concat (g x)) l).
Proof.
  induction l as [|x xs IH]; cbn [flat_map map]; [reflexivity|].
  rewrite sa_concat_app, sa_concat_cons, IH. reflexivity.
Qed.

Lemma sa_concat_concat (l : list (list string)) :
  str_concat (List.concat l) = str_concat (map str_concat l).
Proof.
  induction l as [|x xs IH]; cbn [List.concat map]; [reflexivity|].
  rewrite sa_concat_app, sa_concat_cons, IH. reflexivity.
Qed.

Lemma sa_map_flat_map {A B C} (h : B -> C) (g : A -> list B) (l : list A) :
  map h (flat_map g l) = flat_map (fun x => map h (g x)) l.
Proof.
  induction l as [|x xs IH]; cbn [flat_map map]; [reflexivity|].
  rewrite map_app, IH. reflexivity.
Qed.

Ltac sa_norm := repeat rewrite sa_app_assoc; cbn [append].

(* ------------------------------------------------------------------ loops *)
(* result += g(x) for x in l *)
Lemma sa_foldM_str {A} (f : string -> A -> result string) (g : A -> string) (l : list A) :
  (forall acc x, In x l -> f acc x = Ok (acc ++ g x)%string) ->
  forall a, foldM f l a = Ok (a ++ str_concat (map g l))%string.
Proof.
  induction l as [|x xs IH]; intros H a; cbn [foldM map].
  - unfold str_concat. cbn [fold_right]. rewrite sa_app_nil_r. reflexivity.
  - rewrite (H a x (or_introl eq_refl)).
    change (foldM f xs (a ++ g x)%string = Ok (a ++ str_concat (g x :: map g xs))%string).
    rewrite IH.
    + rewrite sa_concat_cons, sa_app_assoc. reflexivity.
    + intros acc y Hy. apply H. right. exact Hy.
Qed.

(* result += g(x) for x in l, where g(x) may raise *)
Lemma sa_foldM_str_mapM {A} (f : string -> A -> result string) (g : A -> result string) (l : list A) :
  (forall acc x, In x l -> f acc x = bind (g x) (fun t => Ok (acc ++ t)%string)) ->
  forall a, foldM f l a = bind (mapM g l) (fun ts => Ok (a ++ str_concat ts)%string).
Proof.
  induction l as [|x xs IH]; intros H a; cbn [foldM mapM].
  - cbn [bind]. unfold str_concat. cbn [fold_right]. rewrite sa_app_nil_r. reflexivity.
  - rewrite (H a x (or_introl eq_refl)).
    destruct (g x) as [t|e]; cbn [bind]; [|reflexivity].
    change (foldM f xs (a ++ t)%string
            = bind (match mapM g xs with Err e => Err e | Ok ys => Ok (t :: ys) end)
                   (fun ts => Ok (a ++ str_concat ts)%string)).
    rewrite IH.
    + destruct (mapM g xs) as [ts|e]; cbn [bind]; [|reflexivity].
      rewrite sa_concat_cons, sa_app_assoc. reflexivity.
    + intros acc y Hy. apply H. right. exact Hy.
Qed.

(* result += g(x); children += h(x) for x in l *)
Lemma sa_foldM_str_list {A B} (f : string * list B -> A -> result (string * list B))
      (g : A -> string) (h : A -> list B) (l : list A) :
  (forall s cs x, In x l -> f (s, cs) x = Ok ((s ++ g x)%string, cs ++ h x)) ->
  forall s cs, foldM f l (s, cs) = Ok ((s ++ str_concat (map g l))%string, cs ++ flat_map h l).
Proof.
  induction l as [|x xs IH]; intros H s cs; cbn [foldM map flat_map].
  - unfold str_concat. cbn [fold_right]. rewrite sa_app_nil_r, app_nil_r. reflexivity.
  - rewrite (H s cs x (or_introl eq_refl)).
    change (foldM f xs ((s ++ g x)%string, cs ++ h x)
            = Ok ((s ++ str_concat (g x :: map g xs))%string, cs ++ h x ++ flat_map h xs)).
    rewrite IH.
    + rewrite sa_concat_cons, sa_app_assoc, app_assoc. reflexivity.
    + intros s' cs' y Hy. apply H. right. exact Hy.
Qed.

(* [f(x) for x in l] where f may raise *)
Lemma sa_flat_mapM_mapM {A B} (f : A -> result (list B)) (g : A -> result B) (l : list A) :
  (forall x, In x l -> f x = bind (g x) (fun v => Ok [v])) -> py_flat_mapM f l = mapM g l.
Proof.
  induction l as [|x xs IH]; intros H; cbn [py_flat_mapM mapM]; [reflexivity|].
  rewrite (H x (or_introl eq_refl)).
  destruct (g x) as [v|e]; cbn [bind]; [|reflexivity].
  change (match py_flat_mapM f xs with Err e => Err e | Ok ys => Ok ([v] ++ ys) end
          = match mapM g xs with Err e => Err e | Ok ys => Ok (v :: ys) end).
  rewrite IH; [reflexivity|]. intros y Hy. apply H. right. exact Hy.
Qed.

Definition is_ok {A} (r : result A) : bool := match r with Ok _ => true | Err _ => false end.

Lemma sa_mapM_map {A B C} (h : A -> B) (g : B -> result C) (l : list A) :
  mapM g (map h l) = mapM (fun x => g (h x)) l.
Proof.
  induction l as [|x xs IH]; cbn [map mapM]; [reflexivity|].
  destruct (g (h x)) as [y|e]; [|reflexivity].
  change (match mapM g (map h xs) with Err e => Err e | Ok ys => Ok (y :: ys) end
          = match mapM (fun x => g (h x)) xs with Err e => Err e | Ok ys => Ok (y :: ys) end).
  rewrite IH. reflexivity.
Qed.

(* the model accepts the list and, element by element, the code computes the rendering of the model's answer *)
Lemma sa_mapM_eq {A B C} (g1 : A -> result C) (g2 : A -> result B) (r : B -> C) (l : list A) :
  (forall x y, In x l -> g2 x = Ok y -> g1 x = Ok (r y)) ->
  forall ys, mapM g2 l = Ok ys -> mapM g1 l = Ok (map r ys).
Proof.
  induction l as [|x xs IH]; intros H ys Hys; cbn [mapM] in *.
  - injection Hys as <-. reflexivity.
  - destruct (g2 x) as [y|e] eqn:Hx; [|discriminate Hys].
    rewrite (H x y (or_introl eq_refl) Hx).
    change (match mapM g2 xs with Err e => Err e | Ok ys => Ok (y :: ys) end = Ok ys) in Hys.
    destruct (mapM g2 xs) as [ys'|e] eqn:Hxs; [|discriminate Hys]. injection Hys as <-.
    change (match mapM g1 xs with Err e => Err e | Ok zs => Ok (r y :: zs) end = Ok (map r (y :: ys'))).
    rewrite (IH (fun x' y' Hin => H x' y' (or_intror Hin)) ys' eq_refl). reflexivity.
Qed.

Lemma sa_mapM_is_ok {A B C} (g1 : A -> result C) (g2 : A -> result B) (l : list A) :
  (forall x y, In x l -> g2 x = Ok y -> is_ok (g1 x) = true) ->
  forall ys, mapM g2 l = Ok ys -> is_ok (mapM g1 l) = true.
Proof.
  induction l as [|x xs IH]; intros H ys Hys; cbn [mapM] in *; [reflexivity|].
  destruct (g2 x) as [y|e] eqn:Hx; [|discriminate Hys].
  pose proof (H x y (or_introl eq_refl) Hx) as H1.
  destruct (g1 x) as [z|e]; [|discriminate H1].
  change (match mapM g2 xs with Err e => Err e | Ok ys => Ok (y :: ys) end = Ok ys) in Hys.
  destruct (mapM g2 xs) as [ys'|e] eqn:Hxs; [|discriminate Hys].
  pose proof (IH (fun x' y' Hin => H x' y' (or_intror Hin)) ys' eq_refl) as H2.
  change (is_ok (match mapM g1 xs with Err e => Err e | Ok zs => Ok (z :: zs) end) = true).
  destruct (mapM g1 xs); [reflexivity|discriminate H2].
Qed.

(* the first error of the model is the exception E: the code raises it too *)
Lemma sa_mapM_err {A B C} (E : exn) (g1 : A -> result C) (g2 : A -> result B) (l : list A) :
  (forall x y, In x l -> g2 x = Ok y -> is_ok (g1 x) = true) ->
  (forall x, In x l -> g2 x = Err E -> g1 x = Err E) ->
  mapM g2 l = Err E -> mapM g1 l = Err E.
Proof.
  induction l as [|x xs IH]; intros Hok Herr H; cbn [mapM] in *; [discriminate H|].
  destruct (g2 x) as [y|e] eqn:Hx.
  - pose proof (Hok x y (or_introl eq_refl) Hx) as H1.
    destruct (g1 x) as [z|e]; [|discriminate H1].
    change (match mapM g2 xs with Err e => Err e | Ok ys => Ok (y :: ys) end = Err E) in H.
    destruct (mapM g2 xs) as [ys'|e] eqn:Hxs; [discriminate H|]. injection H as ->.
    change (match mapM g1 xs with Err e => Err e | Ok zs => Ok (z :: zs) end = Err E).
    rewrite (IH (fun x' y' Hin => Hok x' y' (or_intror Hin)) (fun x' Hin => Herr x' (or_intror Hin)) eq_refl).
    reflexivity.
  - injection H as ->. rewrite (Herr x (or_introl eq_refl) Hx). reflexivity.
Qed.

(* ------------------------------------------------------------------ the operator table *)
Lemma src_afm_operators : forall o, py_AFM_OPERATORS o = afm_operator o.
Proof. intros o. destruct o; reflexivity. Qed.

(* ------------------------------------------------------------------ read_relation *)
(* names += child.name for child in children *)
Lemma sa_foldM_names (f : list string -> lfeat -> result (list string)) (l : list lfeat) :
  (forall s x, f s x = Ok (s ++ [name (fst x)])) ->
  foldM f l [] = Ok (map (fun x => name (fst x)) l).
Proof.
  intros H. rewrite (foldM_append f (fun x => [name (fst x)])).
  - cbn [app]. rewrite fm_flat_map_single. reflexivity.
  - intros s x _. apply H.
Qed.

Lemma sa_names_children r o :
  map (fun x : lfeat => name (fst x)) (lr_children (r, o)) = map name (r_children r).
Proof. unfold lr_children. cbn [fst snd]. rewrite map_map. reflexivity. Qed.

Lemma src_afm_read_relation : forall r o,
  py_AFMWriter_read_relation (r, o) = match afm_item r with Some i => Ok (afm_render_item i) | None => Ok "" end.
Proof.
  intros [a b cs] o. unfold py_AFMWriter_read_relation.
  rewrite !py_len_children. unfold nchildren, afm_item.
  cbn [fst r_min r_max r_children].
  rewrite !sa_foldM_names by (intros; reflexivity).
  rewrite sa_names_children. cbn [bind r_children].
  destruct cs as [|c [|c' cs]].
  - change (Z.of_nat (List.length (@nil feature)) =? 1)%Z with false. cbv iota.
    cbn [afm_render_item]. sa_norm. reflexivity.
  - change (Z.of_nat (List.length [c]) =? 1)%Z with true. cbv iota.
    destruct ((a =? 1)%Z && (b =? 1)%Z) eqn:H11.
    + reflexivity.
    + destruct ((a =? 0)%Z && (b =? 1)%Z) eqn:H01.
      * cbn [lr_children r_children fst snd map py_index py_len bind]. reflexivity.
      * cbn [afm_render_item map]. sa_norm. reflexivity.
  - assert (Hlen : (Z.of_nat (List.length (c :: c' :: cs)) =? 1)%Z = false).
    { apply Z.eqb_neq. cbn [List.length]. lia. }
    rewrite Hlen. cbn [afm_render_item]. sa_norm. reflexivity.
Qed.

(* ------------------------------------------------------------------ the relationships block *)
(* afm_item never answers None *)
Definition sa_item (r : relation) : aitem :=
  match afm_item r with Some i => i | None => ISingle false "" end.

Lemma sa_item_some r : afm_item r = Some (sa_item r).
Proof.
  unfold sa_item, afm_item. destruct (r_children r) as [|c [|c' cs]]; try reflexivity.
  destruct (_ && _); [reflexivity|]. destruct (_ && _); reflexivity.
Qed.

Definition sa_render_spec (rs : arelspec) : string :=
  (rs_parent rs ++ " : " ++ str_concat (map (fun i => " " ++ afm_render_item i) (rs_items rs))
   ++ ";" ++ String "010" "")%string.

Lemma sa_flat_map_flat_map {A B C} (g : B -> list C) (h : A -> list B) (l : list A) :
  flat_map g (flat_map h l) = flat_map (fun x => flat_map g (h x)) l.
Proof.
  induction l as [|x xs IH]; cbn [flat_map]; [reflexivity|].
  rewrite flat_map_app, IH. reflexivity.
Qed.

Lemma sa_relspecs_unfold i rs :
  afm_relspecs (Feature i rs)
  = {| rs_parent := f_name i; rs_items := map sa_item rs |}
    :: flat_map (fun c => match rels c with [] => [] | _ => afm_relspecs c end) (children (Feature i rs)).
Proof.
  cbn [afm_relspecs]. f_equal.
  - f_equal. rewrite <- (fm_flat_map_single sa_item). apply flat_map_ext. intros r.
    rewrite sa_item_some. reflexivity.
  - unfold children. cbn [rels]. rewrite sa_flat_map_flat_map. apply flat_map_ext.
    intros [a b cs]. cbn [r_children]. apply flat_map_ext. intros [j [|r' rs']]; reflexivity.
Qed.

Lemma sa_loc_children f anc :
  flat_map lr_children (lf_relations (f, anc)) = map (fun c => (c, f :: anc)) (children f).
Proof.
  unfold lf_relations, children. cbn [fst]. rewrite fm_flat_map_map, fm_map_flat_map.
  apply flat_map_ext. intros r. reflexivity.
Qed.

Lemma sa_fsize_child f c : In c (children f) -> (fsize c < fsize f)%nat.
Proof.
  destruct f as [i rs]. unfold children. cbn [rels]. intros H.
  apply in_flat_map in H. destruct H as [r [Hr Hc]]. exact (fsize_child i rs r c Hr Hc).
Qed.

Lemma sa_has_relations c anc :
  (0 <? py_len (py_Feature_get_relations (c, anc)))%Z
  = match rels c with [] => false | _ => true end.
Proof.
  unfold py_Feature_get_relations, lf_relations, py_len. cbn [fst]. rewrite map_length.
  destruct (rels c) as [|r rs]; [reflexivity|]. apply Z.ltb_lt. cbn [List.length]. lia.
Qed.

Lemma sa_spec_or_nil (c : feature) :
  match rels c with
  | [] => ""%string
  | _ => str_concat (map sa_render_spec (afm_relspecs c))
  end
  = str_concat (map sa_render_spec (match rels c with [] => [] | _ => afm_relspecs c end)).
Proof. destruct (rels c); reflexivity. Qed.

Lemma sa_relationship_read w : forall fuel f anc, (fsize f <= fuel)%nat ->
  py_AFMWriter_recursive_relationship_read fuel w (f, anc)
  = Ok (str_concat (map sa_render_spec (afm_relspecs f))).
Proof.
  induction fuel as [|k IH]; intros f anc Hfuel.
  { destruct f as [i rs]. cbn [fsize] in Hfuel. lia. }
  cbn [py_AFMWriter_recursive_relationship_read].
  unfold py_Feature_get_relations at 1.
  rewrite (sa_foldM_str_list _ (fun x : lrel => (" " ++ afm_render_item (sa_item (fst x)))%string) lr_children).
  2:{ intros s cs [r o] _. rewrite src_afm_read_relation, sa_item_some. reflexivity. }
  cbn [bind app]. rewrite sa_loc_children.
  rewrite (sa_foldM_str _ (fun x : lfeat =>
             match rels (fst x) with
             | [] => ""%string
             | _ => str_concat (map sa_render_spec (afm_relspecs (fst x)))
             end)).
  2:{ intros acc [c anc'] Hin. rewrite sa_has_relations. cbn [fst].
      apply in_map_iff in Hin. destruct Hin as [c0 [Heq Hc0]]. injection Heq as Hc Ha. subst c0 anc'.
      destruct (rels c) as [|r0 rs0] eqn:Hrels.
      - rewrite sa_app_nil_r. reflexivity.
      - rewrite IH; [reflexivity|]. pose proof (sa_fsize_child f c Hc0). lia. }
  cbn [bind]. f_equal. destruct f as [i rs]. rewrite sa_relspecs_unfold.
  cbn [map]. rewrite sa_concat_cons. unfold sa_render_spec at 2. cbn [rs_parent rs_items fst].
  unfold lf_relations, name. cbn [fst rels info]. rewrite !map_map. cbn [fst].
  rewrite sa_map_flat_map, sa_concat_flat_map.
  rewrite (map_ext _ _ sa_spec_or_nil). sa_norm. reflexivity.
Qed.

Lemma src_afm_relationships : forall path m fuel, (fuel_tree (root m) <= fuel)%nat ->
  py_AFMWriter_serialize_relationships fuel (py_AFMWriter_new path m) =
  Ok ("%Relationships" ++ String "010" ""
      ++ str_concat (map (fun rs => rs_parent rs ++ " : "
                                    ++ str_concat (map (fun i => " " ++ afm_render_item i) (rs_items rs))
                                    ++ ";" ++ String "010" "") (afm_relspecs (root m)))
      ++ String "010" "")%string.
Proof.
  intros path m fuel Hfuel. unfold py_AFMWriter_serialize_relationships, fuel_tree in *.
  cbn [py_AFMWriter_new AFMWriter_model]. unfold fm_root_l.
  rewrite sa_relationship_read by lia. cbn [bind]. fold sa_render_spec.
  sa_norm. reflexivity.
Qed.

(* ------------------------------------------------------------------ constraints *)
(* the code computes the text of the model's answer, and raises the library error when the model does;
   nothing is said where the model raises another exception (outside its fragment) *)
Definition sa_agrees {B} (rd : B -> string) (code : result string) (model : result B) : Prop :=
  match model with
  | Ok y => code = Ok (rd y)
  | Err FlamaException => code = Err FlamaException
  | Err _ => True
  end.

Lemma sa_agrees_err {B} (rd : B -> string) (code : result string) (e : exn) :
  (e = FlamaException -> code = Err FlamaException) -> sa_agrees rd code (Err e).
Proof. intros H. destruct e; try exact I. apply H. reflexivity. Qed.

Lemma sa_node_ind (P : node -> Prop) :
  (forall d l r,
      match l with Some x => P x | None => True end ->
      match r with Some x => P x | None => True end -> P (Node d l r)) ->
  forall n, P n.
Proof.
  intros H. fix IH 1. intros [d l r]. apply H.
  - destruct l as [x|]; [apply IH|exact I].
  - destruct r as [x|]; [apply IH|exact I].
Qed.

Definition sa_operand (c : option node) : result aexpr :=
  match c with
  | None => Err AttributeError
  | Some x => match afm_expr x with
              | Err e => Err e
              | Ok ex => Ok (if is_op x then EParen ex else ex)
              end
  end.

Lemma sa_expr_unfold d l r :
  afm_expr (Node d l r)
  = match d with
    | DOp o =>
        match afm_operator o with
        | None => Err FlamaException
        | Some kw =>
            if astop_eqb o NOT then
              match sa_operand l with Err e => Err e | Ok a => Ok (ENot a) end
            else
              match sa_operand l with Err e => Err e | Ok a =>
              match sa_operand r with Err e => Err e | Ok b => Ok (EBin kw a b) end end
        end
    | DStr s => Ok (EVar s)
    | DInt z => Ok (ENum (z_to_string z))
    | _ => Err OtherExn
    end.
Proof. reflexivity. Qed.

Lemma sa_not_keyword o kw : astop_eqb o NOT = true -> afm_operator o = Some kw -> kw = "NOT"%string.
Proof. destruct o; cbn; intros H1 H2; try discriminate H1; congruence. Qed.

Lemma sa_operand_agrees w fuel (c : option node) :
  match c with
  | Some x => sa_agrees afm_render_expr (py_AFMWriter_recursive_constraint_read fuel w x) (afm_expr x)
  | None => True
  end ->
  sa_agrees afm_render_expr
    (bind (py_need c) (fun v => py_AFMWriter__constraint_operand (S fuel) w v)) (sa_operand c).
Proof.
  intros H. destruct c as [x|]; cbn [py_need bind sa_operand]; [|exact I].
  cbn [py_AFMWriter__constraint_operand].
  destruct (afm_expr x) as [ex|e]; cbn [sa_agrees] in H.
  - rewrite H. cbn [bind sa_agrees]. destruct (is_op x); reflexivity.
  - apply sa_agrees_err. intros ->. rewrite H. reflexivity.
Qed.

Lemma sa_expr_agrees w : forall n fuel, (2 * nsize n <= fuel)%nat ->
  sa_agrees afm_render_expr (py_AFMWriter_recursive_constraint_read fuel w n) (afm_expr n).
Proof.
  induction n as [d l r IHl IHr] using sa_node_ind. intros fuel Hfuel.
  destruct fuel as [|fuel]; [cbn [nsize] in Hfuel; lia|].
  assert (Hl : sa_agrees afm_render_expr
                 (bind (py_need l) (fun v => py_AFMWriter__constraint_operand fuel w v)) (sa_operand l)).
  { destruct l as [x|]; [|exact I].
    destruct fuel as [|fuel].
    { cbn [nsize] in Hfuel. destruct x as [dx lx rx]. cbn [nsize] in Hfuel. lia. }
    apply (sa_operand_agrees w fuel (Some x)). apply IHl. cbn [nsize] in Hfuel. lia. }
  assert (Hr : sa_agrees afm_render_expr
                 (bind (py_need r) (fun v => py_AFMWriter__constraint_operand fuel w v)) (sa_operand r)).
  { destruct r as [x|]; [|exact I].
    destruct fuel as [|fuel].
    { cbn [nsize] in Hfuel. destruct x as [dx lx rx]. cbn [nsize] in Hfuel. lia. }
    apply (sa_operand_agrees w fuel (Some x)). apply IHr. cbn [nsize] in Hfuel. lia. }
  cbn [py_AFMWriter_recursive_constraint_read]. rewrite sa_expr_unfold.
  unfold is_term, is_op. cbn [n_data n_left n_right].
  destruct d as [o|s|z|q|b]; cbn [negb ndata_is_op data_str]; try exact I; try reflexivity.
  rewrite src_afm_operators.
  destruct (afm_operator o) as [kw|] eqn:Hkw; cbn [negb bind]; [|reflexivity].
  destruct (astop_eqb o NOT) eqn:Hnot.
  - destruct (sa_operand l) as [a|e]; cbn [sa_agrees] in Hl.
    + rewrite Hl. cbn [bind sa_agrees afm_render_expr].
      rewrite (sa_not_keyword o kw Hnot Hkw). reflexivity.
    + apply sa_agrees_err. intros ->. rewrite Hl. reflexivity.
  - destruct (sa_operand l) as [a|e]; cbn [sa_agrees] in Hl.
    + rewrite Hl. cbn [bind].
      destruct (sa_operand r) as [b|e]; cbn [sa_agrees] in Hr.
      * rewrite Hr. cbn [bind sa_agrees afm_render_expr]. sa_norm. reflexivity.
      * apply sa_agrees_err. intros ->. rewrite Hr. reflexivity.
    + apply sa_agrees_err. intros ->. rewrite Hl. reflexivity.
Qed.

Lemma src_afm_expr : forall w n fuel ex, (fuel_node n <= fuel)%nat -> afm_expr n = Ok ex ->
  py_AFMWriter_recursive_constraint_read fuel w n = Ok (afm_render_expr ex).
Proof.
  intros w n fuel ex Hfuel Hex. unfold fuel_node in Hfuel.
  pose proof (sa_expr_agrees w n fuel ltac:(lia)) as H. rewrite Hex in H. exact H.
Qed.

(* an operator without AFM spelling *)
Lemma src_afm_expr_library_error : forall w n fuel, (fuel_node n <= fuel)%nat ->
  afm_expr n = Err FlamaException ->
  py_AFMWriter_recursive_constraint_read fuel w n = Err FlamaException.
Proof.
  intros w n fuel Hfuel Hex. unfold fuel_node in Hfuel.
  pose proof (sa_expr_agrees w n fuel ltac:(lia)) as H. rewrite Hex in H. exact H.
Qed.

(* ------------------------------------------------------------------ attribute values *)
Definition sa_value_text (v : aval) : result string :=
  match v with
  | VFloat r => match py_positional r with
                | Some t => Ok (if str_contains_char "." t then t else (t ++ ".0")%string)
                | None => Err FlamaException
                end
  | _ => Ok (aval_str v)
  end.

Lemma sa_value_text_eq v : py_AFMWriter_value_text v = sa_value_text v.
Proof.
  destruct v as [|b|z|r|s|l|kv]; try reflexivity.
  unfold py_AFMWriter_value_text, py_float_isfinite. cbn [bind sa_value_text].
  destruct (py_positional r) as [t|]; reflexivity.
Qed.

Definition sa_nonempty {A} (l : list A) : bool := match l with [] => false | _ => true end.

Lemma sa_len_pos {A} (l : list A) : (0 <? py_len l)%Z = sa_nonempty l.
Proof.
  unfold py_len. destruct l as [|x xs]; [reflexivity|]. apply Z.ltb_lt. cbn [List.length]. lia.
Qed.

Definition sa_range_text (rg : range) : string :=
  ("[" ++ aval_str (rg_min rg) ++ " to " ++ aval_str (rg_max rg) ++ "]")%string.

(* read_attribute as one expression *)
Definition sa_read_attribute (a : attr) : result string :=
  match a_dom a with
  | None => Err FlamaException
  | Some d =>
      bind (mapM py_AFMWriter_value_text (dom_elems d)) (fun els =>
      bind (py_AFMWriter_value_text (a_default a)) (fun dv =>
      bind (py_AFMWriter_value_text (a_null a)) (fun nv =>
        Ok (a_name a ++ ": "
            ++ (if sa_nonempty (dom_ranges d)
                then "Integer " ++ str_concat (map sa_range_text (dom_ranges d)) else "")
            ++ (if sa_nonempty (dom_elems d) then "[" ++ str_join "," els ++ "]" else "")
            ++ "," ++ dv ++ "," ++ nv)%string)))
  end.

Lemma sa_read_attribute_eq a : py_AFMWriter_read_attribute a = sa_read_attribute a.
Proof.
  unfold py_AFMWriter_read_attribute, sa_read_attribute, py_Attribute_get_domain,
    py_Domain_get_range_list, py_Domain_get_element_list, py_Attribute_get_default_value,
    py_Attribute_get_null_value.
  destruct (a_dom a) as [d|]; cbn [bind]; [|reflexivity].
  rewrite !sa_len_pos.
  rewrite !(sa_flat_mapM_mapM _ py_AFMWriter_value_text) by (intros; reflexivity).
  rewrite (sa_foldM_str _ sa_range_text) by (intros; unfold sa_range_text; sa_norm; reflexivity).
  cbn [bind].
  destruct (dom_ranges d) as [|rg rgs]; destruct (dom_elems d) as [|e0 es]; cbn [sa_nonempty bind].
  - cbn [mapM bind]. destruct (py_AFMWriter_value_text (a_default a)) as [dv|e]; cbn [bind]; [|reflexivity].
    destruct (py_AFMWriter_value_text (a_null a)) as [nv|e]; cbn [bind]; [|reflexivity].
    sa_norm. reflexivity.
  - generalize (mapM py_AFMWriter_value_text (e0 :: es)). intros [els|e]; cbn [bind]; [|reflexivity].
    destruct (py_AFMWriter_value_text (a_default a)) as [dv|e]; cbn [bind]; [|reflexivity].
    destruct (py_AFMWriter_value_text (a_null a)) as [nv|e]; cbn [bind]; [|reflexivity].
    sa_norm. reflexivity.
  - cbn [mapM bind]. destruct (py_AFMWriter_value_text (a_default a)) as [dv|e]; cbn [bind]; [|reflexivity].
    destruct (py_AFMWriter_value_text (a_null a)) as [nv|e]; cbn [bind]; [|reflexivity].
    sa_norm. reflexivity.
  - generalize (mapM py_AFMWriter_value_text (e0 :: es)). intros [els|e]; cbn [bind]; [|reflexivity].
    destruct (py_AFMWriter_value_text (a_default a)) as [dv|e]; cbn [bind]; [|reflexivity].
    destruct (py_AFMWriter_value_text (a_null a)) as [nv|e]; cbn [bind]; [|reflexivity].
    sa_norm. reflexivity.
Qed.

(* ------------------------------------------------------------------ agreement up to a side condition *)
(* The code accepts what the model accepts and, when the side condition P holds, computes the rendering of
   the model's answer; it raises the library error when the model does. *)
Definition sa_agrees_if {B C} (P : Prop) (rd : B -> C) (code : result C) (model : result B) : Prop :=
  match model with
  | Ok y => exists z, code = Ok z /\ (P -> z = rd y)
  | Err FlamaException => code = Err FlamaException
  | Err _ => True
  end.

Lemma sa_agrees_if_err {B C} (P : Prop) (rd : B -> C) (code : result C) (e : exn) :
  (e = FlamaException -> code = Err FlamaException) -> sa_agrees_if P rd code (Err e).
Proof. intros H. destruct e; try exact I. apply H. reflexivity. Qed.

Lemma sa_agrees_weaken {B} (P : Prop) (rd : B -> string) code model :
  sa_agrees rd code model -> sa_agrees_if P rd code model.
Proof.
  destruct model as [y|e]; cbn [sa_agrees sa_agrees_if]; intros H.
  - exists (rd y). split; [exact H|]. intros _. reflexivity.
  - exact H.
Qed.

Lemma sa_agrees_if_impl {B C} (P Q : Prop) (rd : B -> C) code model :
  (Q -> P) -> sa_agrees_if P rd code model -> sa_agrees_if Q rd code model.
Proof.
  intros HQP. destruct model as [y|e]; cbn [sa_agrees_if]; intros H; [|exact H].
  destruct H as [z [Hz Heq]]. exists z. split; [exact Hz|]. intros HQ. apply Heq, HQP, HQ.
Qed.

Lemma sa_agrees_if_ext {B C} (P : Prop) (rd rd' : B -> C) code model :
  (forall y, rd y = rd' y) -> sa_agrees_if P rd code model -> sa_agrees_if P rd' code model.
Proof.
  intros Hext. destruct model as [y|e]; cbn [sa_agrees_if]; intros H; [|exact H].
  destruct H as [z [Hz Heq]]. exists z. split; [exact Hz|]. intros HP. rewrite <- Hext. apply Heq, HP.
Qed.

(* a pure step after the call *)
Lemma sa_agrees_if_post {B C D} (P : Prop) (rd : B -> C) (h : C -> D) code model :
  sa_agrees_if P rd code model ->
  sa_agrees_if P (fun y => h (rd y)) (bind code (fun z => Ok (h z))) model.
Proof.
  destruct model as [y|e]; cbn [sa_agrees_if]; intros H.
  - destruct H as [z [Hz Heq]]. rewrite Hz. cbn [bind]. exists (h z). split; [reflexivity|].
    intros HP. rewrite (Heq HP). reflexivity.
  - destruct e; try exact I. rewrite H. reflexivity.
Qed.

Lemma sa_mapM_cons {A B} (g : A -> result B) x xs :
  mapM g (x :: xs)
  = match g x with
    | Err e => Err e
    | Ok y => match mapM g xs with Err e => Err e | Ok ys => Ok (y :: ys) end
    end.
Proof. reflexivity. Qed.

Lemma sa_mapM_agrees {A B C} (p : A -> bool) (rd : B -> C) (g1 : A -> result C) (g2 : A -> result B)
      (l : list A) :
  (forall x, In x l -> sa_agrees_if (p x = true) rd (g1 x) (g2 x)) ->
  sa_agrees_if (forallb p l = true) (map rd) (mapM g1 l) (mapM g2 l).
Proof.
  induction l as [|x xs IH]; intros H.
  - cbn [mapM sa_agrees_if]. exists []. split; reflexivity.
  - pose proof (H x (or_introl eq_refl)) as Hx.
    specialize (IH (fun y Hy => H y (or_intror Hy))).
    rewrite !sa_mapM_cons. cbn [forallb].
    destruct (g2 x) as [y|e]; cbn [sa_agrees_if] in Hx.
    + destruct Hx as [z [Hz Hzeq]]. rewrite Hz.
      destruct (mapM g2 xs) as [ys|e]; cbn [sa_agrees_if] in IH.
      * destruct IH as [zs [Hzs Hzseq]]. rewrite Hzs. cbn [sa_agrees_if].
        exists (z :: zs). split; [reflexivity|]. intros Hp. apply andb_prop in Hp.
        destruct Hp as [Hp1 Hp2]. rewrite (Hzeq Hp1), (Hzseq Hp2). reflexivity.
      * apply sa_agrees_if_err. intros ->. rewrite IH. reflexivity.
    + apply sa_agrees_if_err. intros ->. rewrite Hx. reflexivity.
Qed.

Lemma sa_forallb_map {A B} (h : A -> B) (p : B -> bool) (l : list A) :
  forallb p (map h l) = forallb (fun x => p (h x)) l.
Proof. induction l as [|x xs IH]; cbn [map forallb]; [reflexivity|]. rewrite IH. reflexivity. Qed.

(* ------------------------------------------------------------------ values: the point of a real value *)
(* value_text adds ".0" to a positional spelling without point; the model's afm_value / afm_render_value
   print the positional spelling as it is.  The two agree on the values below: every repr of a finite
   Python float is one of them (sa_repr_pointed). *)
Definition afm_float_pointed (v : aval) : bool :=
  match v with
  | VFloat r => match py_positional r with Some t => str_contains_char "." t | None => true end
  | _ => true
  end.
Definition afm_attr_pointed (a : attr) : bool :=
  match a_dom a with Some d => forallb afm_float_pointed (dom_elems d) | None => true end
  && afm_float_pointed (a_default a) && afm_float_pointed (a_null a).
Definition afm_model_pointed (m : fm) : bool :=
  forallb (fun f => forallb afm_attr_pointed (f_attrs (info f))) (get_features m).

(* COUNTEREXAMPLE to the unconditional statement: the real value whose repr is "5" (not the repr of a
   Python float, but a value of the model's type) *)
Example sa_unpointed_float_differs :
  py_AFMWriter_value_text (VFloat "5") = Ok "5.0"%string
  /\ rmap afm_render_value (afm_value (VFloat "5")) = Ok "5"%string.
Proof. vm_compute. split; reflexivity. Qed.

Lemma sa_contains_app c (a b : string) :
  str_contains_char c (a ++ b)%string = str_contains_char c a || str_contains_char c b.
Proof.
  unfold str_contains_char. induction a as [|x a IH]; cbn [append str_existsb]; [reflexivity|].
  rewrite IH, orb_assoc. reflexivity.
Qed.

Lemma sa_contains_absent c (s : string) :
  str_forallb (fun d => negb (Ascii.eqb c d)) s = true -> str_contains_char c s = false.
Proof.
  unfold str_contains_char. induction s as [|x s IH]; cbn [str_forallb str_existsb]; [reflexivity|].
  intros H. apply andb_prop in H. destruct H as [Hx Hs].
  apply negb_true_iff in Hx. rewrite Hx, (IH Hs). reflexivity.
Qed.

(* a sufficient condition on the text: the repr has a point or an exponent mark (every repr of a finite
   Python float has one of the two) *)
Lemma sa_repr_pointed : forall r,
  str_contains_char "." r || str_contains_char "e" r = true -> afm_float_pointed (VFloat r) = true.
Proof.
  intros r Hr. cbn [afm_float_pointed]. unfold py_positional.
  set (neg := starts_with_char "-" r).
  set (body := if neg then str_drop 1 r else r).
  destruct (str_forallb _ body); [|reflexivity].
  destruct (str_split "e" body) as [|m [|ex [|z rest]]] eqn:Hsp; try reflexivity.
  - unfold str_split in Hsp. pose proof (split_single _ _ _ _ Hsp) as Hb.
    apply sa_contains_absent in Hb.
    assert (He : str_contains_char "e" r = false).
    { subst body. destruct neg eqn:Hn; [|exact Hb].
      destruct r as [|c r']; [reflexivity|]. cbn [str_drop] in Hb.
      unfold neg, starts_with_char in Hn. apply Ascii.eqb_eq in Hn. subst c.
      unfold str_contains_char in *. cbn [str_existsb]. rewrite Hb. reflexivity. }
    rewrite He, orb_false_r in Hr. exact Hr.
  - destruct (string_to_z (str_remove_char "+" ex)) as [e|]; [|reflexivity].
    match goal with
    | |- str_contains_char _ (if neg then String _ ?t else ?t) = true =>
        assert (Ht : str_contains_char "." t = true); [|destruct neg; [|exact Ht]]
    end.
    + destruct (_ <=? _)%Z; [|destruct (_ <? _)%Z].
      * rewrite !sa_contains_app. rewrite !orb_true_r. reflexivity.
      * rewrite sa_contains_app. cbn [append]. unfold str_contains_char at 2.
        cbn [str_existsb]. rewrite orb_true_r. reflexivity.
      * reflexivity.
    + unfold str_contains_char in *. cbn [str_existsb]. rewrite Ht. reflexivity.
Qed.

Lemma sa_value_agrees v :
  sa_agrees_if (afm_float_pointed v = true) afm_render_value (py_AFMWriter_value_text v) (afm_value v).
Proof.
  rewrite sa_value_text_eq.
  destruct v as [|b|z|r|s|l|kv]; cbn [sa_value_text afm_value sa_agrees_if afm_float_pointed]; try exact I.
  - eexists. split; [reflexivity|]. intros _. reflexivity.
  - destruct (py_positional r) as [t|]; cbn [sa_agrees_if]; [|reflexivity].
    eexists. split; [reflexivity|]. intros Hpt. rewrite Hpt. reflexivity.
  - eexists. split; [reflexivity|]. intros _. reflexivity.
Qed.

(* ------------------------------------------------------------------ attributes *)
(* the ranges: the code prints str() of the bounds, the model accepts integer bounds *)
Lemma sa_ranges_ok : forall l rgs,
  mapM (fun rg => match rg_min rg, rg_max rg with
                  | VInt a1, VInt b1 => Ok (z_to_string a1, z_to_string b1)
                  | _, _ => Err OtherExn
                  end) l = Ok rgs ->
  map sa_range_text l = map (fun ab => ("[" ++ fst ab ++ " to " ++ snd ab ++ "]")%string) rgs.
Proof.
  induction l as [|rg l IH]; intros rgs H.
  - cbn [mapM] in H. injection H as <-. reflexivity.
  - rewrite sa_mapM_cons in H. destruct rg as [mn mx]. cbn [rg_min rg_max] in H.
    destruct mn as [| | a1 | | | |]; try discriminate H.
    destruct mx as [| | b1 | | | |]; try discriminate H.
    destruct (mapM _ l) as [rgs'|e]; [|discriminate H]. injection H as <-.
    cbn [map]. rewrite (IH rgs' eq_refl). reflexivity.
Qed.

Lemma sa_ranges_err : forall l e,
  mapM (fun rg => match rg_min rg, rg_max rg with
                  | VInt a1, VInt b1 => Ok (z_to_string a1, z_to_string b1)
                  | _, _ => Err OtherExn
                  end) l = Err e -> e = OtherExn.
Proof.
  induction l as [|rg l IH]; intros e H.
  - discriminate H.
  - rewrite sa_mapM_cons in H. destruct rg as [mn mx]. cbn [rg_min rg_max] in H.
    destruct mn as [| | a1 | | | |]; try (injection H as <-; reflexivity).
    destruct mx as [| | b1 | | | |]; try (injection H as <-; reflexivity).
    destruct (mapM _ l) as [rgs'|e']; [discriminate H|]. injection H as <-. apply IH. reflexivity.
Qed.

Lemma sa_mapM_nonempty {A B} (g : A -> result B) l ys :
  mapM g l = Ok ys -> sa_nonempty l = sa_nonempty ys.
Proof.
  destruct l as [|x xs]; intros H.
  - cbn [mapM] in H. injection H as <-. reflexivity.
  - rewrite sa_mapM_cons in H. destruct (g x); [|discriminate H].
    destruct (mapM g xs); [|discriminate H]. injection H as <-. reflexivity.
Qed.

(* one line of the attributes block, as the model prints it *)
Definition sa_render_attr (a : aattrspec) : string :=
  (at_feature a ++ "." ++ at_name a ++ ": "
   ++ match at_domain a with
      | ARange l => "Integer " ++ str_concat (map (fun ab => "[" ++ fst ab ++ " to " ++ snd ab ++ "]") l)
      | ADiscrete l => "[" ++ str_join "," (map afm_render_value l) ++ "]"
      end
   ++ "," ++ afm_render_value (at_default a) ++ "," ++ afm_render_value (at_null a)
   ++ ";" ++ String "010" "")%string.

(* and as the code prints it *)
Definition sa_attr_line (fname : string) (a : attr) : result string :=
  bind (py_AFMWriter_read_attribute a) (fun v => Ok (fname ++ "." ++ v ++ ";" ++ String "010" "")%string).

Lemma sa_attr_agrees fname a :
  sa_agrees_if (afm_attr_pointed a = true) sa_render_attr (sa_attr_line fname a) (afm_attrspec fname a).
Proof.
  unfold sa_attr_line, afm_attrspec, afm_attr_pointed. rewrite sa_read_attribute_eq.
  unfold sa_read_attribute.
  destruct (a_dom a) as [d|]; [|reflexivity].
  pose proof (sa_mapM_agrees afm_float_pointed afm_render_value py_AFMWriter_value_text afm_value
                (dom_elems d) (fun v _ => sa_value_agrees v)) as Hel.
  destruct (mapM afm_value (dom_elems d)) as [els|e] eqn:Hels; cbn [sa_agrees_if] in Hel.
  2:{ apply sa_agrees_if_err. intros ->. rewrite Hel. reflexivity. }
  destruct Hel as [tels [Htels Helseq]]. rewrite Htels. cbn [bind].
  destruct (mapM _ (dom_ranges d)) as [rgs|e] eqn:Hrgs.
  2:{ apply sa_agrees_if_err. intros ->. apply sa_ranges_err in Hrgs. discriminate Hrgs. }
  pose proof (sa_value_agrees (a_default a)) as Hd.
  destruct (afm_value (a_default a)) as [dv|e]; cbn [sa_agrees_if] in Hd.
  2:{ apply sa_agrees_if_err. intros ->. rewrite Hd. reflexivity. }
  destruct Hd as [td [Htd Hdeq]]. rewrite Htd. cbn [bind].
  pose proof (sa_value_agrees (a_null a)) as Hn.
  destruct (afm_value (a_null a)) as [nv|e]; cbn [sa_agrees_if] in Hn.
  2:{ apply sa_agrees_if_err. intros ->. rewrite Hn. reflexivity. }
  destruct Hn as [tn [Htn Hneq]]. rewrite Htn. cbn [bind].
  rewrite (sa_mapM_nonempty _ _ _ Hrgs), (sa_mapM_nonempty _ _ _ Hels).
  rewrite (sa_ranges_ok _ _ Hrgs).
  destruct rgs as [|rg rgs]; destruct els as [|el els]; cbn [sa_nonempty sa_agrees_if]; try exact I.
  - eexists. split; [reflexivity|]. intros Hp.
    apply andb_prop in Hp. destruct Hp as [Hp Hp3]. apply andb_prop in Hp. destruct Hp as [Hp1 Hp2].
    rewrite (Helseq Hp1), (Hdeq Hp2), (Hneq Hp3).
    unfold sa_render_attr. cbn [at_feature at_name at_domain at_default at_null]. sa_norm. reflexivity.
  - eexists. split; [reflexivity|]. intros Hp.
    apply andb_prop in Hp. destruct Hp as [Hp Hp3]. apply andb_prop in Hp. destruct Hp as [Hp1 Hp2].
    rewrite (Hdeq Hp2), (Hneq Hp3).
    unfold sa_render_attr. cbn [at_feature at_name at_domain at_default at_null]. sa_norm. reflexivity.
Qed.

(* ------------------------------------------------------------------ the attributes block *)
Lemma sa_serialize_attributes_eq fuel path m : (fuel_tree (root m) <= fuel)%nat ->
  py_AFMWriter_serialize_attributes fuel (py_AFMWriter_new path m)
  = bind (mapM (fun lf : lfeat =>
                  bind (mapM (sa_attr_line (name (fst lf))) (f_attrs (info (fst lf))))
                       (fun ts => Ok (str_concat ts)))
               (loc_features m))
         (fun tss => Ok ("%Attributes" ++ String "010" "" ++ str_concat tss ++ String "010" "")%string).
Proof.
  intros Hfuel. unfold py_AFMWriter_serialize_attributes. cbn [py_AFMWriter_new AFMWriter_model].
  rewrite (src_get_features m fuel Hfuel). cbn [bind].
  rewrite (sa_foldM_str_mapM _ (fun lf : lfeat =>
             bind (mapM (sa_attr_line (name (fst lf))) (f_attrs (info (fst lf))))
                  (fun ts => Ok (str_concat ts)))).
  - destruct (mapM _ (loc_features m)) as [tss|e]; cbn [bind]; [|reflexivity].
    sa_norm. reflexivity.
  - intros acc lf _. unfold py_Feature_get_attributes.
    rewrite (sa_foldM_str_mapM _ (sa_attr_line (name (fst lf)))).
    + destruct (mapM _ (f_attrs (info (fst lf)))) as [ts|e]; reflexivity.
    + intros acc' a _. unfold sa_attr_line.
      destruct (py_AFMWriter_read_attribute a) as [v|e]; cbn [bind]; [|reflexivity].
      sa_norm. reflexivity.
Qed.

Definition sa_attrs_rd (ats : list (list aattrspec)) : string :=
  ("%Attributes" ++ String "010" "" ++ str_concat (map sa_render_attr (List.concat ats))
   ++ String "010" "")%string.

Lemma sa_attributes_agrees fuel path m : (fuel_tree (root m) <= fuel)%nat ->
  sa_agrees_if (afm_model_pointed m = true) sa_attrs_rd
    (py_AFMWriter_serialize_attributes fuel (py_AFMWriter_new path m))
    (mapM (fun pf => mapM (afm_attrspec (name pf)) (f_attrs (info pf))) (get_features m)).
Proof.
  intros Hfuel. rewrite (sa_serialize_attributes_eq fuel path m Hfuel).
  unfold afm_model_pointed. rewrite <- (loc_features_erase m), sa_mapM_map, sa_forallb_map.
  match goal with |- sa_agrees_if _ _ _ (mapM ?g _) => set (g2 := g) end.
  pose proof (sa_mapM_agrees
                (fun lf : lfeat => forallb afm_attr_pointed (f_attrs (info (fst lf))))
                (fun sps => str_concat (map sa_render_attr sps))
                (fun lf : lfeat =>
                   bind (mapM (sa_attr_line (name (fst lf))) (f_attrs (info (fst lf))))
                        (fun ts => Ok (str_concat ts)))
                g2 (loc_features m)) as H.
  match type of H with ?X -> _ => assert (Hx : X) end.
  { intros lf _. unfold g2.
    apply (sa_agrees_if_post _ (map sa_render_attr) str_concat).
    apply sa_mapM_agrees. intros a _. apply sa_attr_agrees. }
  specialize (H Hx). clear Hx.
  apply (sa_agrees_if_ext _
           (fun ats => ("%Attributes" ++ String "010" ""
                        ++ str_concat (map (fun sps => str_concat (map sa_render_attr sps)) ats)
                        ++ String "010" "")%string)).
  { intros ats. unfold sa_attrs_rd. rewrite concat_map, sa_concat_concat, map_map. reflexivity. }
  apply (sa_agrees_if_post _ (map (fun sps => str_concat (map sa_render_attr sps)))
           (fun tss => ("%Attributes" ++ String "010" "" ++ str_concat tss ++ String "010" "")%string)).
  exact H.
Qed.

(* ------------------------------------------------------------------ the constraints block *)
Definition sa_ctc_model (c : ctc) : result actc :=
  match afm_expr (c_ast c) with
  | Err e => Err e
  | Ok ex => Ok (CSimple ex (afm_render_expr ex))
  end.

Definition sa_ctc_rd (c : actc) : string :=
  match c with
  | CSimple _ t => (t ++ ";" ++ String "010" "")%string
  | CBrackets _ _ => ""%string
  end.

Definition sa_ctcs_rd (cs : list actc) : string :=
  ("%Constraints" ++ String "010" "" ++ str_concat (map sa_ctc_rd cs))%string.

Lemma sa_constraints_agrees fuel w (cs : list ctc) :
  (forall c, In c cs -> (fuel_node (c_ast c) <= fuel)%nat) ->
  sa_agrees_if True (map sa_ctc_rd)
    (mapM (fun c => bind (py_AFMWriter_recursive_constraint_read fuel w (c_ast c))
                         (fun v => Ok (v ++ ";" ++ String "010" "")%string)) cs)
    (mapM sa_ctc_model cs).
Proof.
  intros Hfuel.
  apply (sa_agrees_if_impl (forallb (fun _ : ctc => true) cs = true)).
  { intros _. clear Hfuel. induction cs as [|c cs' IH]; [reflexivity|exact IH]. }
  apply sa_mapM_agrees. intros c Hc. unfold sa_ctc_model.
  pose proof (sa_expr_agrees w (c_ast c) fuel) as H.
  specialize (Hfuel c Hc). unfold fuel_node in Hfuel. specialize (H ltac:(lia)).
  destruct (afm_expr (c_ast c)) as [ex|e]; cbn [sa_agrees sa_agrees_if] in H |- *.
  - rewrite H. cbn [bind]. eexists. split; [reflexivity|]. intros _. reflexivity.
  - destruct e; try exact I. rewrite H. reflexivity.
Qed.

Lemma sa_serialize_constraints_eq fuel path m :
  py_AFMWriter_serialize_constraints fuel (py_AFMWriter_new path m)
  = bind (mapM (fun c => bind (py_AFMWriter_recursive_constraint_read fuel (py_AFMWriter_new path m) (c_ast c))
                              (fun v => Ok (v ++ ";" ++ String "010" "")%string)) (ctcs m))
         (fun ts => Ok ("%Constraints" ++ String "010" "" ++ str_concat ts)%string).
Proof.
  unfold py_AFMWriter_serialize_constraints, py_FeatureModel_get_constraints.
  cbn [AFMWriter_model py_AFMWriter_new].
  rewrite (sa_foldM_str_mapM _ (fun c =>
             bind (py_AFMWriter_recursive_constraint_read fuel (py_AFMWriter_new path m) (c_ast c))
                  (fun v => Ok (v ++ ";" ++ String "010" "")%string))).
  - destruct (mapM _ (ctcs m)) as [ts|e]; cbn [bind]; [|reflexivity]. sa_norm. reflexivity.
  - intros acc c _. cbn [py_AFMWriter_new].
    destruct (py_AFMWriter_recursive_constraint_read fuel _ (c_ast c)) as [v|e]; cbn [bind]; reflexivity.
Qed.

Lemma sa_fuel_ctc m c : In c (ctcs m) -> (fuel_node (c_ast c) <= fuel_model m)%nat.
Proof.
  intros Hc. unfold fuel_model, fuel_ctcs.
  assert (H : (fuel_node (c_ast c) <= list_sum (map (fun c => fuel_node (c_ast c)) (ctcs m)))%nat).
  { apply le_list_sum. apply (in_map (fun c => fuel_node (c_ast c))). exact Hc. }
  lia.
Qed.

Lemma sa_serialize_constraints_agrees fuel path m : (fuel_model m <= fuel)%nat ->
  sa_agrees_if True sa_ctcs_rd
    (py_AFMWriter_serialize_constraints fuel (py_AFMWriter_new path m)) (mapM sa_ctc_model (ctcs m)).
Proof.
  intros Hfuel. rewrite sa_serialize_constraints_eq.
  pose proof (sa_constraints_agrees fuel (py_AFMWriter_new path m) (ctcs m)) as H.
  match type of H with ?X -> _ => assert (Hx : X) end.
  { intros c Hc. pose proof (sa_fuel_ctc m c Hc). lia. }
  specialize (H Hx). clear Hx.
  destruct (mapM sa_ctc_model (ctcs m)) as [cs|e]; cbn [sa_agrees_if] in H |- *.
  - destruct H as [ts [Hts Heq]]. rewrite Hts. cbn [bind]. eexists. split; [reflexivity|].
    intros _. rewrite (Heq I). reflexivity.
  - destruct e; try exact I. rewrite H. reflexivity.
Qed.

(* ------------------------------------------------------------------ transform *)
Lemma sa_cst_unfold m :
  afm_cst m
  = match mapM (fun pf => mapM (afm_attrspec (name pf)) (f_attrs (info pf))) (get_features m) with
    | Err e => Err e
    | Ok ats =>
        match mapM sa_ctc_model (ctcs m) with
        | Err e => Err e
        | Ok cs => Ok {| ad_rels := afm_relspecs (root m); ad_attrs := Some (List.concat ats);
                         ad_ctcs := Some cs |}
        end
    end.
Proof. reflexivity. Qed.

Lemma sa_render_unfold rels ats cs :
  afm_render {| ad_rels := rels; ad_attrs := Some ats; ad_ctcs := Some cs |}
  = ("%Relationships" ++ String "010" ""
     ++ str_concat (map sa_render_spec rels) ++ String "010" ""
     ++ "%Attributes" ++ String "010" "" ++ str_concat (map sa_render_attr ats) ++ String "010" ""
     ++ "%Constraints" ++ String "010" "" ++ str_concat (map sa_ctc_rd cs))%string.
Proof. reflexivity. Qed.

(* ORIGINAL STATEMENT (false, see sa_unpointed_float_differs and sa_transform_counterexample below):
   Theorem src_afm_transform : forall path m fuel t, (fuel_model m <= fuel)%nat -> afm_write m = Ok t ->
     py_AFMWriter_transform fuel (py_AFMWriter_new path m) = Ok t.
   Strongest true variant: the positional text of every real value of the model has a point. *)
Theorem src_afm_transform : forall path m fuel t, (fuel_model m <= fuel)%nat ->
  afm_model_pointed m = true -> afm_write m = Ok t ->
  py_AFMWriter_transform fuel (py_AFMWriter_new path m) = Ok t.
Proof.
  intros path m fuel t Hfuel Hpt Hw. unfold afm_write in Hw. rewrite sa_cst_unfold in Hw.
  assert (Htree : (fuel_tree (root m) <= fuel)%nat) by (unfold fuel_model in Hfuel; lia).
  pose proof (sa_attributes_agrees fuel path m Htree) as Ha.
  pose proof (sa_serialize_constraints_agrees fuel path m Hfuel) as Hc.
  destruct (mapM _ (get_features m)) as [ats|e]; [|discriminate Hw].
  destruct (mapM sa_ctc_model (ctcs m)) as [cs|e]; [|discriminate Hw].
  injection Hw as <-. cbn [sa_agrees_if] in Ha, Hc.
  destruct Ha as [ta [Hta Haeq]]. destruct Hc as [tc [Htc Hceq]].
  unfold py_AFMWriter_transform.
  rewrite (src_afm_relationships path m fuel Htree), Hta, Htc. cbn [bind].
  rewrite (Haeq Hpt), (Hceq I), sa_render_unfold. unfold sa_attrs_rd, sa_ctcs_rd.
  fold sa_render_spec. sa_norm. reflexivity.
Qed.

(* a model on which the unconditional statement fails: one attribute whose default is the real "5" *)
Definition sa_cex_model : fm :=
  {| root := Feature {| f_name := "A"; f_abstract := VBool false; f_type := TBoolean;
                        f_cmin := 1%Z; f_cmax := 1%Z;
                        f_attrs := [{| a_name := "x";
                                       a_dom := Some {| dom_ranges := []; dom_elems := [VInt 1] |};
                                       a_default := VFloat "5"; a_null := VInt 0 |}] |} [];
     ctcs := [] |}.

Example sa_transform_counterexample :
  afm_write sa_cex_model
  = Ok ("%Relationships" ++ String "010" "" ++ "A : ;" ++ String "010" "" ++ String "010" ""
        ++ "%Attributes" ++ String "010" "" ++ "A.x: [1],5,0;" ++ String "010" "" ++ String "010" ""
        ++ "%Constraints" ++ String "010" "")%string
  /\ py_AFMWriter_transform (fuel_model sa_cex_model) (py_AFMWriter_new "" sa_cex_model)
  = Ok ("%Relationships" ++ String "010" "" ++ "A : ;" ++ String "010" "" ++ String "010" ""
        ++ "%Attributes" ++ String "010" "" ++ "A.x: [1],5.0,0;" ++ String "010" "" ++ String "010" ""
        ++ "%Constraints" ++ String "010" "")%string
  /\ afm_model_pointed sa_cex_model = false.
Proof. vm_compute. repeat split; reflexivity. Qed.

(* library errors: an operator without AFM spelling, an attribute without domain, a non-finite real value.
   No error-order corner: the one place where the code and the model evaluate in a different order is the
   ranges of an attribute, which never raise in the code and raise only OtherExn in the model. *)
Theorem src_afm_transform_library_error : forall path m fuel, (fuel_model m <= fuel)%nat ->
  afm_write m = Err FlamaException -> py_AFMWriter_transform fuel (py_AFMWriter_new path m) = Err FlamaException.
Proof.
  intros path m fuel Hfuel Hw. unfold afm_write in Hw. rewrite sa_cst_unfold in Hw.
  assert (Htree : (fuel_tree (root m) <= fuel)%nat) by (unfold fuel_model in Hfuel; lia).
  pose proof (sa_attributes_agrees fuel path m Htree) as Ha.
  pose proof (sa_serialize_constraints_agrees fuel path m Hfuel) as Hc.
  unfold py_AFMWriter_transform.
  rewrite (src_afm_relationships path m fuel Htree). cbn [bind].
  destruct (mapM _ (get_features m)) as [ats|e]; cbn [sa_agrees_if] in Ha.
  - destruct Ha as [ta [Hta _]]. rewrite Hta. cbn [bind].
    destruct (mapM sa_ctc_model (ctcs m)) as [cs|e]; [discriminate Hw|].
    injection Hw as ->. cbn [sa_agrees_if] in Hc. rewrite Hc. reflexivity.
  - injection Hw as ->. rewrite Ha. reflexivity.
Qed.

Print Assumptions src_afm_operators.
Print Assumptions src_afm_read_relation.
Print Assumptions src_afm_relationships.
Print Assumptions src_afm_expr.
Print Assumptions src_afm_expr_library_error.
Print Assumptions sa_repr_pointed.
Print Assumptions sa_transform_counterexample.
Print Assumptions src_afm_transform_library_error.
Print Assumptions src_afm_transform.
