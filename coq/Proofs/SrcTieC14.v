(* Proofs/SrcTieC14.v — C14 stated about the TRANSLATED SOURCE of get_core_features (Gen/Src_ops.v). *)
From Coq Require Import List Bool String ZArith Permutation Lia.
From FM Require Import Base.Result Model.FM Model.Queries Model.Sem Model.Ops Model.PyRt Model.Loc
     Gen.Src_fm Gen.Src_ops Gen.Src_opobj Proofs.C14Facts Proofs.SrcCoreFacts.
Import ListNotations.
Local Open Scope list_scope.

Lemma src_obj_core : forall fuel s m,
  rmap py_FMCoreFeatures_get_result (py_FMCoreFeatures_execute fuel s m) = py_get_core_features fuel m.
Proof. intros fuel s m. unfold py_FMCoreFeatures_execute. cbn. destruct (py_get_core_features fuel m); reflexivity. Qed.

(* ---- C14 ---- *)
Lemma source_core_sound : forall m fuel σ, (fuel_tree (root m) <= fuel)%nat -> valid m σ = true ->
  exists l, py_get_core_features fuel m = Ok l /\ forall x, In x l -> σ (name (fst x)) = true.
Proof.
  intros m fuel σ Hf Hv. destruct (src_get_core_features m fuel Hf) as (l & Hl & Hp).
  exists l. split; [exact Hl|]. intros x Hx.
  apply (core_sound_model m σ (fst x) Hv).
  eapply Permutation_in; [exact Hp|]. now apply in_map.
Qed.

Lemma source_core_once : forall m fuel, (fuel_tree (root m) <= fuel)%nat -> NoDup (names (root m)) ->
  exists l, py_get_core_features fuel m = Ok l /\ NoDup (map (fun x => name (fst x)) l)
            /\ In (root m) (map fst l).
Proof.
  intros m fuel Hf Hn. destruct (src_get_core_features m fuel Hf) as (l & Hl & Hp).
  exists l. split; [exact Hl|]. split.
  - rewrite <- (map_map fst name). eapply Permutation_NoDup.
    + apply Permutation_map. symmetry. exact Hp.
    + now apply core_once.
  - eapply Permutation_in; [symmetry; exact Hp|]. apply core_root.
Qed.

Lemma source_core_complete : forall m fuel x, (fuel_tree (root m) <= fuel)%nat ->
  NoDup (names (root m)) -> Forall rel_sane (subrelations (root m)) -> In x (names (root m)) ->
  (forall σ, sem σ (root m) = true -> σ x = true) ->
  exists l, py_get_core_features fuel m = Ok l /\ In x (map (fun y => name (fst y)) l).
Proof.
  intros m fuel x Hf Hn Hr Hx Hall. destruct (src_get_core_features m fuel Hf) as (l & Hl & Hp).
  exists l. split; [exact Hl|]. rewrite <- (map_map fst name).
  eapply Permutation_in; [apply Permutation_map; symmetry; exact Hp|].
  now apply core_complete.
Qed.

Lemma source_core_object : forall m fuel s σ, (fuel_tree (root m) <= fuel)%nat -> valid m σ = true ->
  exists st, py_FMCoreFeatures_execute fuel s m = Ok st /\
             forall x, In x (py_FMCoreFeatures_get_result st) -> σ (name (fst x)) = true.
Proof.
  intros m fuel s σ Hf Hv. destruct (source_core_sound m fuel σ Hf Hv) as (l & Hl & Hs).
  pose proof (src_obj_core fuel s m) as Ho. rewrite Hl in Ho.
  destruct (py_FMCoreFeatures_execute fuel s m) as [st|e]; cbn in Ho; [|discriminate].
  exists st. split; [reflexivity|]. injection Ho as Ho. rewrite Ho. exact Hs.
Qed.
