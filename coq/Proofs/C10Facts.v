(* Proofs/C10Facts.v — the SPLOT (SXFM) and propositional (.exp) exports denote the configurations of
   the model: tree part for every feature tree, constraint part for the stated fragments. *)
From Coq Require Import List Bool Ascii String ZArith Lia Permutation.
From FM Require Import Base.Result Base.Str Base.AstOp Gen.Tables_core Model.Ast Model.FM Model.Ctc
     Model.Queries Model.Sem Format.Export Proofs.FMFacts Proofs.QueriesFacts Proofs.C14Facts Proofs.C18Facts.
Import ListNotations.
Local Open Scope list_scope.

(* ------------------------------------------------------------------ generic helpers *)
Lemma bool_eq_iff : forall a b : bool, (a = true <-> b = true) -> a = b.
Proof. intros [|] [|] [H1 H2]; auto. symmetry; auto. Qed.

Lemma forallb_map {A B} (g : A -> B) (p : B -> bool) l :
  forallb p (map g l) = forallb (fun x => p (g x)) l.
Proof. induction l as [|x l IH]; cbn; [reflexivity|rewrite IH; reflexivity]. Qed.

Lemma existsb_map {A B} (g : A -> B) (p : B -> bool) l :
  existsb p (map g l) = existsb (fun x => p (g x)) l.
Proof. induction l as [|x l IH]; cbn; [reflexivity|rewrite IH; reflexivity]. Qed.

Lemma filter_map_length {A B} (g : A -> B) (p : B -> bool) l :
  List.length (filter p (map g l)) = List.length (filter (fun x => p (g x)) l).
Proof.
  induction l as [|x l IH]; cbn [map filter]; [reflexivity|].
  destruct (p (g x)); cbn [List.length]; rewrite IH; reflexivity.
Qed.

Lemma forallb_flat_map {A B} (g : A -> list B) (p : B -> bool) l :
  forallb p (flat_map g l) = forallb (fun x => forallb p (g x)) l.
Proof.
  induction l as [|x l IH]; cbn [flat_map forallb]; [reflexivity|].
  rewrite forallb_app, IH. reflexivity.
Qed.

Lemma mapM_forallb {A B} (f : A -> result B) (g : B -> bool) (h : A -> bool) l l' :
  mapM f l = Ok l' -> (forall x y, In x l -> f x = Ok y -> g y = h x) -> forallb g l' = forallb h l.
Proof.
  intros H. apply mapM_Forall2 in H. induction H as [|x y xs ys Hxy _ IH]; intros Hf; [reflexivity|].
  cbn [forallb]. rewrite (Hf x y (or_introl eq_refl) Hxy). f_equal.
  apply IH. intros x' y' Hx'. apply Hf. right. exact Hx'.
Qed.

Lemma existsb_false {A} (p : A -> bool) l : (forall x, In x l -> p x = false) -> existsb p l = false.
Proof.
  induction l as [|x l IH]; intros H; [reflexivity|].
  cbn [existsb]. rewrite (H x (or_introl eq_refl)). apply IH. intros y Hy. apply H. right. exact Hy.
Qed.

(* ================================================================== SXFM: the tree *)

Lemma sx_name_splot : forall f, sx_name (splot_tree f) = name f.
Proof. intros [i rs]. reflexivity. Qed.

(* a relation that is optional or mandatory has exactly one child *)
Lemma one_child : forall r, (nchildren r =? 1)%Z = true -> exists c, r_children r = [c].
Proof.
  intros [a b cs] H. unfold nchildren in H. cbn [r_children] in *.
  apply Z.eqb_eq in H. destruct cs as [|c [|c' cs]]; cbn [List.length] in H; try lia.
  exists c. reflexivity.
Qed.

Lemma optional_one : forall r, rel_is_optional r = true ->
  exists c, r_children r = [c] /\ r_min r = 0%Z /\ r_max r = 1%Z.
Proof.
  intros r H. unfold rel_is_optional in H.
  apply andb_prop in H. destruct H as [H H3]. apply andb_prop in H. destruct H as [H1 H2].
  destruct (one_child r H3) as [c Hc]. exists c. apply Z.eqb_eq in H1, H2. auto.
Qed.

Lemma mandatory_one : forall r, rel_is_mandatory r = true ->
  exists c, r_children r = [c] /\ r_min r = 1%Z /\ r_max r = 1%Z.
Proof.
  intros r H. unfold rel_is_mandatory in H.
  apply andb_prop in H. destruct H as [H H3]. apply andb_prop in H. destruct H as [H1 H2].
  destruct (one_child r H3) as [c Hc]. exists c. apply Z.eqb_eq in H1, H2. auto.
Qed.

(* the item exported for one relation *)
Definition splot_item (r : relation) : sxitem :=
  match r with
  | Relation mn mx cs =>
      if rel_is_optional r then
        match cs with c :: _ => SxSolitary true (splot_tree c) | [] => SxGroup mn mx [] end
      else if rel_is_mandatory r then
        match cs with c :: _ => SxSolitary false (splot_tree c) | [] => SxGroup mn mx [] end
      else SxGroup mn mx (map splot_tree cs)
  end.

Lemma splot_tree_unfold : forall i rs, splot_tree (Feature i rs) = SxF (f_name i) (map splot_item rs).
Proof.
  intros i rs. reflexivity.
Qed.

Definition sx_item_none (σ : string -> bool) (it : sxitem) : bool :=
  match it with SxSolitary _ c => sx_none σ c | SxGroup _ _ ms => forallb (sx_none σ) ms end.

Definition sx_item_sem (σ : string -> bool) (it : sxitem) : bool :=
  match it with
  | SxSolitary opt c => if σ (sx_name c) then sx_sem σ c else (opt && sx_none σ c)
  | SxGroup mn mx ms =>
      card_okb mn mx (List.length ms) (Z.of_nat (List.length (filter (fun c => σ (sx_name c)) ms)))
      && forallb (fun c => if σ (sx_name c) then sx_sem σ c else sx_none σ c) ms
  end.

Lemma sx_none_unfold : forall σ n items,
  sx_none σ (SxF n items) = negb (σ n) && forallb (sx_item_none σ) items.
Proof.
  intros σ n items. reflexivity.
Qed.

Lemma sx_sem_unfold : forall σ n items,
  sx_sem σ (SxF n items) = σ n && forallb (sx_item_sem σ) items.
Proof.
  intros σ n items. reflexivity.
Qed.

Lemma splot_item_none : forall σ r,
  Forall (fun c => sx_none σ (splot_tree c) = none_selected σ c) (r_children r) ->
  sx_item_none σ (splot_item r) = forallb (none_selected σ) (r_children r).
Proof.
  intros σ r IH. destruct r as [a b cs]. cbn [r_children] in IH. unfold splot_item.
  destruct (rel_is_optional (Relation a b cs)) eqn:Eo.
  { destruct (optional_one _ Eo) as (c & Hc & _). cbn [r_children] in Hc. subst cs.
    inversion IH as [|c' cs' Hc _]; subst. cbn. rewrite Hc, andb_true_r. reflexivity. }
  destruct (rel_is_mandatory (Relation a b cs)) eqn:Em.
  { destruct (mandatory_one _ Em) as (c & Hc & _). cbn [r_children] in Hc. subst cs.
    inversion IH as [|c' cs' Hc _]; subst. cbn. rewrite Hc, andb_true_r. reflexivity. }
  cbn [sx_item_none r_children]. rewrite forallb_map.
  apply forallb_ext_in. intros c Hc. rewrite Forall_forall in IH. apply IH, Hc.
Qed.

(* SXFM: the exported tree has exactly the tree semantics of the model, for EVERY feature tree *)
Theorem splot_none : forall σ f, sx_none σ (splot_tree f) = none_selected σ f.
Proof.
  intros σ.
  apply (feature_ind2 (fun f => sx_none σ (splot_tree f) = none_selected σ f)
           (fun r => Forall (fun c => sx_none σ (splot_tree c) = none_selected σ c) (r_children r))).
  - intros i rs IH. rewrite splot_tree_unfold, sx_none_unfold, none_unfold. f_equal.
    rewrite forallb_map. apply forallb_ext_in. intros r Hr.
    rewrite Forall_forall in IH. apply splot_item_none, IH, Hr.
  - intros a b cs IH. exact IH.
Qed.

Lemma count_sel_one : forall σ c, count_sel σ [c] = if σ (name c) then 1%Z else 0%Z.
Proof. intros σ c. unfold count_sel. cbn [filter]. destruct (σ (name c)); reflexivity. Qed.

Lemma splot_item_sem : forall σ r,
  Forall (fun c => sx_sem σ (splot_tree c) = sem σ c) (r_children r) ->
  sx_item_sem σ (splot_item r) = rel_ok σ r.
Proof.
  intros σ r IH. destruct r as [a b cs]. cbn [r_children] in IH. unfold splot_item, rel_ok.
  destruct (rel_is_optional (Relation a b cs)) eqn:Eo.
  { destruct (optional_one _ Eo) as (c & Hc & Hmin & Hmax). cbn [r_children r_min r_max] in *. subst cs a b.
    inversion IH as [|c' cs' Hc _]; subst.
    unfold cs_ok. cbn [sx_item_sem forallb List.length]. rewrite sx_name_splot, Hc, splot_none, count_sel_one.
    destruct (σ (name c)); cbn; rewrite ?andb_true_r; reflexivity. }
  destruct (rel_is_mandatory (Relation a b cs)) eqn:Em.
  { destruct (mandatory_one _ Em) as (c & Hc & Hmin & Hmax). cbn [r_children r_min r_max] in *. subst cs a b.
    inversion IH as [|c' cs' Hc _]; subst.
    unfold cs_ok. cbn [sx_item_sem forallb List.length]. rewrite sx_name_splot, Hc, count_sel_one.
    destruct (σ (name c)); cbn; rewrite ?andb_true_r; reflexivity. }
  cbn [sx_item_sem r_children r_min r_max]. rewrite map_length, filter_map_length, forallb_map.
  unfold count_sel, cs_ok. f_equal.
  - f_equal. f_equal. f_equal. apply filter_ext. intros c. rewrite sx_name_splot. reflexivity.
  - apply forallb_ext_in. intros c Hc. rewrite Forall_forall in IH.
    rewrite sx_name_splot, (IH c Hc), splot_none. reflexivity.
Qed.

Theorem splot_tree_sem : forall σ f, sx_sem σ (splot_tree f) = sem σ f.
Proof.
  intros σ.
  apply (feature_ind2 (fun f => sx_sem σ (splot_tree f) = sem σ f)
           (fun r => Forall (fun c => sx_sem σ (splot_tree c) = sem σ c) (r_children r))).
  - intros i rs IH. rewrite splot_tree_unfold, sx_sem_unfold, sem_unfold. f_equal.
    rewrite forallb_map. apply forallb_ext_in. intros r Hr.
    rewrite Forall_forall in IH. apply splot_item_sem, IH, Hr.
  - intros a b cs IH. exact IH.
Qed.

(* ------------------------------------------------------------------ SXFM: no feature is missing *)

Definition sx_item_names (sxf_names : sxf -> list string) (it : sxitem) : list string :=
  match it with SxSolitary _ c => sxf_names c | SxGroup _ _ ms => flat_map sxf_names ms end.

(* all names of the exported tree *)
Fixpoint sxf_names (f : sxf) : list string :=
  match f with
  | SxF n items =>
      n :: flat_map (fun it => match it with
                               | SxSolitary _ c => sxf_names c
                               | SxGroup _ _ ms => flat_map sxf_names ms
                               end) items
  end.

Lemma sxf_names_unfold : forall n items,
  sxf_names (SxF n items) = n :: flat_map (sx_item_names sxf_names) items.
Proof. reflexivity. Qed.

Lemma flat_map_map {A B C} (f : A -> B) (g : B -> list C) l :
  flat_map g (map f l) = flat_map (fun x => g (f x)) l.
Proof. induction l as [|x l IH]; cbn; [reflexivity|rewrite IH; reflexivity]. Qed.

Lemma flat_map_ext_in {A B} (f g : A -> list B) l :
  (forall x, In x l -> f x = g x) -> flat_map f l = flat_map g l.
Proof.
  induction l as [|x l IH]; intros H; [reflexivity|].
  cbn [flat_map]. rewrite (H x (or_introl eq_refl)). f_equal. apply IH. intros y Hy. apply H. right; exact Hy.
Qed.

Lemma splot_item_names : forall r,
  Forall (fun c => sxf_names (splot_tree c) = names c) (r_children r) ->
  sx_item_names sxf_names (splot_item r) = rnames r.
Proof.
  intros r IH. destruct r as [a b cs]. cbn [r_children] in IH. unfold splot_item, rnames.
  destruct (rel_is_optional (Relation a b cs)) eqn:Eo.
  { destruct (optional_one _ Eo) as (c & Hc & _). cbn [r_children] in *. subst cs.
    inversion IH as [|c' cs' Hc _]; subst. cbn [sx_item_names flat_map]. rewrite Hc, app_nil_r. reflexivity. }
  destruct (rel_is_mandatory (Relation a b cs)) eqn:Em.
  { destruct (mandatory_one _ Em) as (c & Hc & _). cbn [r_children] in *. subst cs.
    inversion IH as [|c' cs' Hc _]; subst. cbn [sx_item_names flat_map]. rewrite Hc, app_nil_r. reflexivity. }
  cbn [sx_item_names r_children]. rewrite flat_map_map.
  apply flat_map_ext_in. intros c Hc. rewrite Forall_forall in IH. apply IH, Hc.
Qed.

Lemma splot_names_eq : forall f, sxf_names (splot_tree f) = names f.
Proof.
  apply (feature_ind2 (fun f => sxf_names (splot_tree f) = names f)
           (fun r => Forall (fun c => sxf_names (splot_tree c) = names c) (r_children r))).
  - intros i rs IH. rewrite splot_tree_unfold, sxf_names_unfold, names_unfold. f_equal.
    rewrite flat_map_map. apply flat_map_ext_in. intros r Hr.
    rewrite Forall_forall in IH. apply splot_item_names, IH, Hr.
  - intros a b cs IH. exact IH.
Qed.

Theorem C10_splot_names : forall m d, splot_write m = Ok d -> incl (names (root m)) (sxf_names (sp_root d)).
Proof.
  intros m d H. unfold splot_write in H.
  destruct (splot_clauses (ctcs m)) as [cl|e]; [|discriminate H].
  inversion H; subst d. cbn [sp_root]. rewrite splot_names_eq. apply incl_refl.
Qed.

(* ================================================================== SXFM: the clauses *)

Definition name_plain (s : string) : bool := negb (starts_with_char "-" s).

(* every DStr leaf satisfies name_plain *)
Fixpoint names_plain (n : node) : bool :=
  match n with
  | Node d l r =>
      (match d with DStr s => name_plain s | _ => true end)
      && (match l with Some a => names_plain a | None => true end)
      && (match r with Some b => names_plain b | None => true end)
  end.

Lemma names_plain_term : forall s, names_plain (term s) = name_plain s.
Proof. intros s. cbn. rewrite !andb_true_r. reflexivity. Qed.

Lemma names_plain_un : forall o a, names_plain (un o a) = names_plain a.
Proof. intros o a. cbn. rewrite andb_true_r. reflexivity. Qed.

Lemma names_plain_bin : forall o a b, names_plain (bin o a b) = names_plain a && names_plain b.
Proof. reflexivity. Qed.

(* literals over plain names, clauses, conjunctive and negation normal forms *)
Inductive Lit : node -> Prop :=
| Lit_pos : forall s, name_plain s = true -> Lit (term s)
| Lit_neg : forall s, name_plain s = true -> Lit (un NOT (term s)).
Inductive Clause : node -> Prop :=
| Cl_lit : forall n, Lit n -> Clause n
| Cl_or : forall a b, Clause a -> Clause b -> Clause (bin OR a b).
Inductive Cnf : node -> Prop :=
| Cnf_cl : forall n, Clause n -> Cnf n
| Cnf_and : forall a b, Cnf a -> Cnf b -> Cnf (bin AND a b).
Inductive Nnf : node -> Prop :=
| Nnf_lit : forall n, Lit n -> Nnf n
| Nnf_and : forall a b, Nnf a -> Nnf b -> Nnf (bin AND a b)
| Nnf_or : forall a b, Nnf a -> Nnf b -> Nnf (bin OR a b).

Lemma Lit_WF : forall n, Lit n -> WF n.
Proof. intros n [s _|s _]; repeat constructor. Qed.
Lemma Clause_WF : forall n, Clause n -> WF n.
Proof.
  induction 1 as [n L|a b _ IHa _ IHb]; [apply Lit_WF, L|].
  constructor; [reflexivity|assumption|assumption].
Qed.
Lemma Cnf_WF : forall n, Cnf n -> WF n.
Proof.
  induction 1 as [n C|a b _ IHa _ IHb]; [apply Clause_WF, C|].
  constructor; [reflexivity|assumption|assumption].
Qed.
Lemma Clause_Nnf : forall n, Clause n -> Nnf n.
Proof. induction 1 as [n L|a b _ IHa _ IHb]; [apply Nnf_lit, L|apply Nnf_or; assumption]. Qed.
Lemma Cnf_Nnf : forall n, Cnf n -> Nnf n.
Proof. induction 1 as [n C|a b _ IHa _ IHb]; [apply Clause_Nnf, C|apply Nnf_and; assumption]. Qed.

Lemma Clause_not_and : forall n, Clause n -> data_is AND n = false.
Proof. intros n [m [s _|s _]|a b _ _]; reflexivity. Qed.

Lemma Cnf_and_inv : forall n, Cnf n -> data_is AND n = true ->
  exists x y, n = bin AND x y /\ Cnf x /\ Cnf y.
Proof.
  intros n [m C|a b Ca Cb] D.
  - rewrite (Clause_not_and m C) in D. discriminate D.
  - exists a, b. auto.
Qed.

Lemma Cnf_not_and : forall n, Cnf n -> data_is AND n = false -> Clause n.
Proof. intros n [m C|a b Ca Cb] D; [exact C|discriminate D]. Qed.

(* pass 1: simplify keeps the names *)
Lemma simplify_plain : forall fuel n s, WF n -> no_xe n = true -> names_plain n = true ->
  simplify_fuel fuel n = Ok s -> names_plain s = true.
Proof.
  induction fuel as [|fuel IH]; intros n s Hwf Hxe Hp H; [discriminate H|].
  destruct Hwf as [t|a Ha|o a b Ho Ha Hb].
  - cbn in H. inversion H; subst s. exact Hp.
  - cbn in H. rewrite no_xe_un in Hxe. rewrite names_plain_un in Hp.
    destruct (simplify_fuel fuel a) as [a'|e] eqn:Ea; [|discriminate H].
    inversion H; subst s; clear H. rewrite names_plain_un. exact (IH a a' Ha Hxe Hp Ea).
  - rewrite no_xe_bin in Hxe. split3 Hxe Xo Xa Xb.
    rewrite names_plain_bin in Hp. apply andb_prop in Hp. destruct Hp as [Pa Pb].
    destruct o; try discriminate Ho; try discriminate Xo;
      cbn in H;
      (destruct (simplify_fuel fuel a) as [a'|e] eqn:Ea; [|discriminate H]);
      (destruct (simplify_fuel fuel b) as [b'|e'] eqn:Eb; [|discriminate H]);
      inversion H; subst s; clear H;
      pose proof (IH a a' Ha Xa Pa Ea) as Pa';
      pose proof (IH b b' Hb Xb Pb Eb) as Pb';
      rewrite ?names_plain_bin, ?names_plain_un, ?names_plain_bin, Pa', Pb'; reflexivity.
Qed.

(* pass 2: the result of propagate_negation is in negation normal form over plain names *)
Lemma nnf_plain : forall n, WF n -> only_and_or_not n = true -> names_plain n = true ->
  forall neg s, propagate_negation n neg = Ok s -> Nnf s.
Proof.
  induction 1 as [t|a Ha IHa|o a b Ho Ha IHa Hb IHb]; intros O P neg s H.
  - cbn in H. inversion H; subst s. rewrite names_plain_term in P.
    destruct neg; apply Nnf_lit; [apply Lit_neg|apply Lit_pos]; exact P.
  - cbn in H. rewrite oaon_un in O. rewrite names_plain_un in P. exact (IHa O P (negb neg) s H).
  - rewrite oaon_bin in O. split3 O Oo Oa Ob.
    rewrite names_plain_bin in P. apply andb_prop in P. destruct P as [Pa Pb].
    destruct o; try discriminate Ho; try discriminate Oo;
      cbn in H;
      (destruct (propagate_negation a neg) as [a'|e] eqn:Ea; [|discriminate H]);
      (destruct (propagate_negation b neg) as [b'|e'] eqn:Eb; [|discriminate H]);
      inversion H; subst s; clear H;
      pose proof (IHa Oa Pa neg a' Ea) as Na; pose proof (IHb Ob Pb neg b' Eb) as Nb;
      destruct neg; (apply Nnf_and || apply Nnf_or); assumption.
Qed.

(* pass 3: the result of to_cnf is a conjunction of clauses *)
Lemma cnf_Cnf : forall fuel n s, Nnf n -> to_cnf_fuel fuel n = Ok s -> Cnf s.
Proof.
  induction fuel as [|fuel IH]; intros n s N H; [discriminate H|].
  destruct N as [n L|a b Na Nb|a b Na Nb].
  - destruct L as [t Pt|t Pt]; cbn in H; inversion H; subst s; apply Cnf_cl, Cl_lit;
      [apply Lit_pos|apply Lit_neg]; exact Pt.
  - rewrite to_cnf_and in H.
    destruct (to_cnf_fuel fuel a) as [a'|e] eqn:Ea; [|discriminate H].
    destruct (to_cnf_fuel fuel b) as [b'|e'] eqn:Eb; [|discriminate H].
    inversion H; subst s. apply Cnf_and; [exact (IH a a' Na Ea)|exact (IH b b' Nb Eb)].
  - rewrite to_cnf_or in H.
    destruct (to_cnf_fuel fuel a) as [a'|e] eqn:Ea; [|discriminate H].
    destruct (to_cnf_fuel fuel b) as [b'|e'] eqn:Eb; [|discriminate H].
    pose proof (IH a a' Na Ea) as Ca. pose proof (IH b b' Nb Eb) as Cb.
    destruct (data_is AND a') eqn:Da.
    + destruct (Cnf_and_inv a' Ca Da) as (x & y & -> & Cx & Cy). cbn [n_left n_right] in H.
      apply (IH _ s) in H; [exact H|].
      apply Nnf_and; apply Nnf_or; apply Cnf_Nnf; assumption.
    + destruct (data_is AND b') eqn:Db.
      * destruct (Cnf_and_inv b' Cb Db) as (x & y & -> & Cx & Cy). cbn [n_left n_right] in H.
        apply (IH _ s) in H; [exact H|].
        apply Nnf_and; apply Nnf_or; apply Cnf_Nnf; assumption.
      * inversion H; subst s. apply Cnf_cl, Cl_or; apply Cnf_not_and; assumption.
Qed.

(* the literals *)
Lemma splot_literal_pos : forall s, name_plain s = true -> splot_literal (DStr s) = Ok (false, s).
Proof.
  intros [|c s] H; [reflexivity|]. unfold name_plain in H. cbn [starts_with_char] in H.
  destruct c as [[] [] [] [] [] [] [] []]; try reflexivity; discriminate H.
Qed.

Lemma splot_literal_neg : forall s, splot_literal (DStr ("-" ++ s)) = Ok (true, s).
Proof. reflexivity. Qed.

Definition cfo_side (x : node) : result (list ndata) :=
  if is_op x && data_is OR x then clause_from_or x
  else if is_term x then Ok [n_data x]
  else match n_left x with
       | Some y => Ok [neg_lit_fmt (n_data y)]
       | None => Err AttributeError
       end.

Lemma clause_from_or_bin : forall d a b,
  clause_from_or (Node d (Some a) (Some b)) =
  match cfo_side a with Err e => Err e | Ok x =>
  match cfo_side b with Err e => Err e | Ok y => Ok (x ++ y) end end.
Proof. reflexivity. Qed.

Lemma mapM_app {A B} (f : A -> result B) l1 l2 r1 r2 :
  mapM f l1 = Ok r1 -> mapM f l2 = Ok r2 -> mapM f (l1 ++ l2) = Ok (r1 ++ r2).
Proof.
  revert r1. induction l1 as [|x l1 IH]; intros r1 H1 H2.
  - cbn in H1. inversion H1; subst r1. exact H2.
  - cbn [app]. rewrite mapM_cons in *.
    destruct (f x) as [y|e]; [|discriminate H1].
    destruct (mapM f l1) as [ys|e] eqn:E; [|discriminate H1].
    inversion H1; subst r1. rewrite (IH ys eq_refl H2). reflexivity.
Qed.

Lemma clause_true_app : forall σ l1 l2, clause_true σ (l1 ++ l2) = clause_true σ l1 || clause_true σ l2.
Proof. intros σ l1 l2. unfold clause_true. apply existsb_app. Qed.

Lemma side_clause : forall σ x, Clause x ->
  exists ds ls, cfo_side x = Ok ds /\ mapM splot_literal ds = Ok ls /\ clause_true σ ls = evalb σ x.
Proof.
  intros σ x C. induction C as [n L|a b Ca IHa Cb IHb].
  - destruct L as [s P|s P].
    + exists [DStr s], [(false, s)]. split; [reflexivity|]. split.
      * rewrite mapM_cons, (splot_literal_pos s P). reflexivity.
      * cbn. apply orb_false_r.
    + exists [DStr ("-" ++ s)], [(true, s)]. split; [reflexivity|]. split; [reflexivity|].
      cbn. apply orb_false_r.
  - destruct IHa as (da & la & Sa & Ma & Ta). destruct IHb as (db & lb & Sb & Mb & Tb).
    exists (da ++ db), (la ++ lb). split; [|split].
    + change (cfo_side (bin OR a b)) with (clause_from_or (bin OR a b)).
      unfold bin. rewrite clause_from_or_bin, Sa, Sb. reflexivity.
    + apply mapM_app; assumption.
    + rewrite clause_true_app, Ta, Tb. symmetry. apply evalb_or; apply Clause_WF; assumption.
Qed.

Lemma clauses_of_and : forall a b,
  clauses_of (bin AND a b) =
  match clauses_of a with Err e => Err e | Ok ca =>
  match clauses_of b with Err e => Err e | Ok cb => Ok (ca ++ cb) end end.
Proof. reflexivity. Qed.

Lemma clauses_of_or : forall a b,
  clauses_of (bin OR a b) = match cfo_side (bin OR a b) with Ok c => Ok [c] | Err e => Err e end.
Proof. reflexivity. Qed.

Lemma clauses_Cnf : forall σ c, Cnf c ->
  exists cls cl, clauses_of c = Ok cls /\ mapM (mapM splot_literal) cls = Ok cl
                 /\ forallb (clause_true σ) cl = evalb σ c.
Proof.
  intros σ c C. induction C as [n Cn|a b Ca IHa Cb IHb].
  - destruct Cn as [n L|a b Ca Cb].
    + destruct L as [s P|s P].
      * exists [[DStr s]], [[(false, s)]]. split; [reflexivity|]. split.
        -- rewrite mapM_cons, mapM_cons, (splot_literal_pos s P). reflexivity.
        -- cbn. rewrite orb_false_r, andb_true_r. reflexivity.
      * exists [[DStr ("-" ++ s)]], [[(true, s)]]. split; [reflexivity|]. split; [reflexivity|].
        cbn. rewrite orb_false_r, andb_true_r. reflexivity.
    + destruct (side_clause σ (bin OR a b) (Cl_or a b Ca Cb)) as (ds & ls & S & M & T).
      exists [ds], [ls]. split; [rewrite clauses_of_or, S; reflexivity|]. split.
      * rewrite mapM_cons, M. reflexivity.
      * cbn [forallb]. rewrite T. apply andb_true_r.
  - destruct IHa as (ca & la & Sa & Ma & Ta). destruct IHb as (cb & lb & Sb & Mb & Tb).
    exists (ca ++ cb), (la ++ lb). split; [rewrite clauses_of_and, Sa, Sb; reflexivity|]. split.
    + apply mapM_app; assumption.
    + rewrite forallb_app, Ta, Tb. symmetry. apply evalb_and; apply Cnf_WF; assumption.
Qed.

Lemma splot_clauses_chain : forall σ n f1 f2 s p c cls cl,
  WF n -> no_xe n = true -> names_plain n = true ->
  simplify_fuel f1 n = Ok s -> propagate_negation s false = Ok p -> to_cnf_fuel f2 p = Ok c ->
  clauses_of c = Ok cls -> mapM (mapM splot_literal) cls = Ok cl ->
  forallb (clause_true σ) cl = evalb σ n.
Proof.
  intros σ n f1 f2 s p c cls cl W X P Es Ep Ec Hc Hm.
  destruct (simplify_core _ n s W X Es) as (Ws & Xs & Os & Vs).
  pose proof (simplify_plain _ n s W X P Es) as Ps.
  destruct (nnf_core s Ws Os false p Ep) as (Wp & Np & Vp).
  pose proof (nnf_plain s Ws Os Ps false p Ep) as NNp.
  destruct (cnf_core _ p c Wp Np Ec) as (Wc & Nc & Vc).
  pose proof (cnf_Cnf _ p c NNp Ec) as Cc.
  destruct (clauses_Cnf σ c Cc) as (cls' & cl' & S & M & T).
  rewrite S in Hc. inversion Hc; subst cls'. rewrite M in Hm. inversion Hm; subst cl'.
  rewrite T, Vc, Vp. apply eval_eq_evalb, Vs.
Qed.

Lemma get_clauses_eq : forall n, get_clauses n =
  match simplify_fuel (default_fuel n) n with Err e => Err e | Ok s =>
    match propagate_negation s false with Err e => Err e | Ok p =>
      match to_cnf_fuel (default_fuel p) p with Err e => Err e | Ok c => clauses_of c end end end.
Proof.
  intros n. unfold get_clauses, convert_into_cnf.
  destruct (simplify_fuel (default_fuel n) n) as [s|e]; [|reflexivity].
  destruct (propagate_negation s false) as [p|e]; reflexivity.
Qed.

Lemma get_clauses_inv : forall n cls, get_clauses n = Ok cls ->
  exists f1 f2 s p c, simplify_fuel f1 n = Ok s /\ propagate_negation s false = Ok p
                      /\ to_cnf_fuel f2 p = Ok c /\ clauses_of c = Ok cls.
Proof.
  intros n cls H. rewrite get_clauses_eq in H.
  destruct (simplify_fuel (default_fuel n) n) as [s|e] eqn:Es; [|discriminate H].
  destruct (propagate_negation s false) as [p|e] eqn:Ep; [|discriminate H].
  destruct (to_cnf_fuel (default_fuel p) p) as [c|e] eqn:Ec; [|discriminate H].
  exists (default_fuel n), (default_fuel p), s, p, c. auto.
Qed.

Lemma splot_clauses_one : forall σ n cl, WF n -> no_xe n = true -> names_plain n = true ->
  match get_clauses n with Err e => Err e | Ok cls => mapM (mapM splot_literal) cls end = Ok cl ->
  forallb (clause_true σ) cl = evalb σ n.
Proof.
  intros σ n cl W X P H.
  destruct (get_clauses n) as [cls|e] eqn:G; [|discriminate H].
  destruct (get_clauses_inv n cls G) as (f1 & f2 & s & p & c & Es & Ep & Ec & Hc).
  exact (splot_clauses_chain σ n f1 f2 s p c cls cl W X P Es Ep Ec Hc H).
Qed.

Definition ctc_plain_ok (c : ctc) : Prop :=
  node_wf (c_ast c) = true /\ no_xe (c_ast c) = true /\ names_plain (c_ast c) = true.

(* SXFM clauses: for well-formed logical constraints without XOR / EQUIVALENCE whose names do not start
   with '-', the clauses are satisfied exactly when the constraints hold *)
Theorem splot_clauses_sound : forall cs cl σ,
  Forall (fun c => node_wf (c_ast c) = true /\ no_xe (c_ast c) = true /\ names_plain (c_ast c) = true) cs ->
  splot_clauses cs = Ok cl ->
  forallb (clause_true σ) cl = forallb (fun c => evalb σ (c_ast c)) cs.
Proof.
  intros cs cl σ F H. unfold splot_clauses in H.
  match type of H with context [mapM ?f cs] => destruct (mapM f cs) as [l|e] eqn:E end; [|discriminate H].
  inversion H; subst cl; clear H. apply mapM_Forall2 in E.
  induction E as [|c y cs ys Hcy _ IH]; [reflexivity|].
  inversion F as [|c' cs' (Wc & Xc & Pc) Fcs]; subst.
  cbn [List.concat forallb]. rewrite forallb_app, (IH Fcs). f_equal.
  apply (splot_clauses_one σ (c_ast c) y (node_wf_WF _ Wc) Xc Pc Hcy).
Qed.

Theorem C10_splot_partial : forall m d σ,
  Forall (fun c => node_wf (c_ast c) = true /\ no_xe (c_ast c) = true /\ names_plain (c_ast c) = true) (ctcs m) ->
  splot_write m = Ok d -> sxfm_sat σ d = valid m σ.
Proof.
  intros m d σ F H. unfold splot_write in H.
  destruct (splot_clauses (ctcs m)) as [cl|e] eqn:E; [|discriminate H].
  inversion H; subst d; clear H. unfold sxfm_sat, valid. cbn [sp_root sp_clauses].
  rewrite splot_tree_sem, (splot_clauses_sound (ctcs m) cl σ F E). reflexivity.
Qed.

(* the refuted full statement: A <=> B is exported as the clauses of A => B only *)
Definition xe_model : fm :=
  {| root := Feature (mk_info "R") [Relation 0 1 [leaf "A"]; Relation 0 1 [leaf "B"]];
     ctcs := [{| c_name := "c"; c_ast := bin EQUIVALENCE (term "A") (term "B") |}] |}.
Definition sigma_RB : string -> bool := fun s => String.eqb s "R" || String.eqb s "B".

Theorem C10_splot_xe_refuted : exists m d σ,
  splot_write m = Ok d /\ Forall (fun c => node_wf (c_ast c) = true) (ctcs m) /\ sxfm_sat σ d <> valid m σ.
Proof.
  exists xe_model. eexists. exists sigma_RB.
  split; [vm_compute; reflexivity|]. split.
  - repeat constructor.
  - vm_compute. discriminate.
Qed.

(* ================================================================== propositional export: constraints *)

Definition binop_sem (o : astop) (x y : bool) : bool :=
  match o with
  | AND => x && y | OR => x || y | IMPLIES | REQUIRES => implb x y | EXCLUDES => negb (x && y)
  | XOR => xorb x y | EQUIVALENCE => Bool.eqb x y | _ => false
  end.

Lemma evalb_bin : forall σ o a b, WF a -> WF b -> is_binlog o = true ->
  evalb σ (bin o a b) = binop_sem o (evalb σ a) (evalb σ b).
Proof.
  intros σ o a b Ha Hb Ho. unfold evalb.
  destruct (WF_eval σ a Ha) as [x Hx]. destruct (WF_eval σ b Hb) as [y Hy].
  destruct o; try discriminate Ho; cbn [eval bin]; rewrite Hx, Hy; reflexivity.
Qed.

Definition pl_operand (x : node) : result pl :=
  match pl_node x with Err e => Err e | Ok px => Ok (if is_op x then PParen px else px) end.

Lemma pl_node_not : forall a,
  pl_node (un NOT a) = match pl_operand a with Err e => Err e | Ok pa => Ok (PNot pa) end.
Proof. reflexivity. Qed.

Lemma pl_node_bin : forall o a b, is_binlog o = true ->
  pl_node (bin o a b) =
  match pl_operand a with Err e => Err e | Ok pa =>
  match pl_operand b with Err e => Err e | Ok pb =>
    match o with
    | AND => Ok (PAnd pa pb) | OR => Ok (POr pa pb) | IMPLIES | REQUIRES => Ok (PImp pa pb)
    | EQUIVALENCE => Ok (PIff pa pb) | EXCLUDES => Ok (PImp pa (PNot pb))
    | XOR => Ok (PAnd (PParen (POr pa pb)) (PNot (PParen (PAnd pa pb))))
    | _ => Err ValueError
    end end end.
Proof. intros o a b Ho. destruct o; try discriminate Ho; reflexivity. Qed.

Lemma pl_operand_eval : forall σ a pa,
  (forall p, pl_node a = Ok p -> pl_eval σ p = evalb σ a) ->
  pl_operand a = Ok pa -> pl_eval σ pa = evalb σ a.
Proof.
  intros σ a pa IH H. unfold pl_operand in H.
  destruct (pl_node a) as [px|e] eqn:E; [|discriminate H].
  inversion H; subst pa. destruct (is_op a); cbn [pl_eval]; apply IH; reflexivity.
Qed.

Lemma pl_node_core : forall σ n, WF n -> forall p, pl_node n = Ok p -> pl_eval σ p = evalb σ n.
Proof.
  intros σ n W. induction W as [s|a Ha IHa|o a b Ho Ha IHa Hb IHb]; intros p H.
  - cbn in H. inversion H; subst p. reflexivity.
  - rewrite pl_node_not in H. destruct (pl_operand a) as [pa|e] eqn:Ea; [|discriminate H].
    inversion H; subst p. cbn [pl_eval]. rewrite evalb_not by exact Ha.
    f_equal. apply (pl_operand_eval σ a pa IHa Ea).
  - rewrite pl_node_bin in H by exact Ho.
    destruct (pl_operand a) as [pa|e] eqn:Ea; [|discriminate H].
    destruct (pl_operand b) as [pb|e] eqn:Eb; [|discriminate H].
    pose proof (pl_operand_eval σ a pa IHa Ea) as Xa.
    pose proof (pl_operand_eval σ b pb IHb Eb) as Xb.
    rewrite evalb_bin by assumption. rewrite <- Xa, <- Xb.
    destruct o; try discriminate Ho; inversion H; subst p; cbn [pl_eval binop_sem];
      destruct (pl_eval σ pa), (pl_eval σ pb); reflexivity.
Qed.

(* propositional export: all eight logical operators *)
Theorem pl_node_sound : forall n p σ, node_wf n = true -> pl_node n = Ok p -> pl_eval σ p = evalb σ n.
Proof. intros n p σ Hwf H. apply (pl_node_core σ n (node_wf_WF n Hwf) p H). Qed.

(* ================================================================== propositional export: relations *)

Lemma fold_and_eval : forall σ xs x,
  pl_eval σ (fold_left PAnd xs x) = pl_eval σ x && forallb (pl_eval σ) xs.
Proof.
  intros σ xs. induction xs as [|y ys IH]; intros x; cbn [fold_left forallb].
  - rewrite andb_true_r. reflexivity.
  - rewrite IH. cbn [pl_eval]. rewrite andb_assoc. reflexivity.
Qed.

Lemma fold_or_eval : forall σ xs x,
  pl_eval σ (fold_left POr xs x) = pl_eval σ x || existsb (pl_eval σ) xs.
Proof.
  intros σ xs. induction xs as [|y ys IH]; intros x; cbn [fold_left existsb].
  - rewrite orb_false_r. reflexivity.
  - rewrite IH. cbn [pl_eval]. rewrite orb_assoc. reflexivity.
Qed.

Lemma pjoin_and_eval : forall σ l e, l <> [] -> pl_eval σ (pjoin PAnd l e) = forallb (pl_eval σ) l.
Proof. intros σ [|x xs] e H; [congruence|]. cbn [pjoin forallb]. apply fold_and_eval. Qed.

Lemma pjoin_or_eval : forall σ l e, l <> [] -> pl_eval σ (pjoin POr l e) = existsb (pl_eval σ) l.
Proof. intros σ [|x xs] e H; [congruence|]. cbn [pjoin existsb]. apply fold_or_eval. Qed.

Lemma existsb_flat_map {A B} (g : A -> list B) (p : B -> bool) l :
  existsb p (flat_map g l) = existsb (fun x => existsb p (g x)) l.
Proof.
  induction l as [|x l IH]; cbn [flat_map existsb]; [reflexivity|].
  rewrite existsb_app, IH. reflexivity.
Qed.

Lemma existsb_andb_const {A} (b : bool) (f : A -> bool) l :
  existsb (fun y => b && f y) l = b && existsb f l.
Proof.
  induction l as [|x l IH]; cbn [existsb]; [rewrite andb_false_r; reflexivity|].
  rewrite IH. destruct b; reflexivity.
Qed.

Lemma forall_imp {A} (p : A -> bool) (o : bool) l :
  forallb (fun c => implb (p c) o) l = implb (existsb p l) o.
Proof.
  induction l as [|x l IH]; cbn [forallb existsb]; [reflexivity|].
  rewrite IH. destruct (p x), o, (existsb p l); reflexivity.
Qed.

Lemma none_count {A} (p : A -> bool) l :
  forallb (fun j => negb (p j)) l = Nat.eqb (List.length (filter p l)) 0.
Proof.
  induction l as [|x l IH]; cbn [forallb filter]; [reflexivity|].
  destruct (p x); cbn [negb andb List.length]; [reflexivity|exact IH].
Qed.

Lemma count_pos_exists {A} (p : A -> bool) l :
  List.length (filter p l) <> 0 -> exists x, In x l /\ p x = true.
Proof.
  intros H. destruct (filter p l) as [|x m] eqn:E; [cbn in H; congruence|].
  assert (Hx : In x (filter p l)) by (rewrite E; left; reflexivity).
  apply filter_In in Hx. exists x. exact Hx.
Qed.

Lemma existsb_count {A} (p : A -> bool) l :
  existsb p l = negb (Nat.eqb (List.length (filter p l)) 0).
Proof.
  induction l as [|x l IH]; cbn [existsb filter]; [reflexivity|].
  destruct (p x); cbn [orb List.length]; [reflexivity|exact IH].
Qed.

Lemma filter_true {A} (p : A -> bool) l : (forall x, In x l -> p x = true) -> filter p l = l.
Proof.
  induction l as [|x l IH]; intros H; [reflexivity|].
  cbn [filter]. rewrite (H x (or_introl eq_refl)). f_equal. apply IH. intros y Hy. apply H. right; exact Hy.
Qed.

(* removing one index from a duplicate-free list of indices *)
Lemma count_remove : forall (sel : nat -> bool) l i, NoDup l -> In i l ->
  List.length (filter sel l)
  = ((if sel i then 1 else 0) + List.length (filter sel (filter (fun j => negb (Nat.eqb j i)) l)))%nat.
Proof.
  intros sel l i. induction l as [|x l IH]; intros Hnd Hin; [contradiction|].
  inversion Hnd as [|x' l' Hx Hl]; subst.
  destruct (Nat.eqb_spec x i) as [E|N].
  - subst x. cbn [filter]. rewrite Nat.eqb_refl. cbn [negb].
    rewrite (filter_true (fun j => negb (Nat.eqb j i)) l).
    + destruct (sel i); reflexivity.
    + intros y Hy. destruct (Nat.eqb_spec y i) as [E|N]; [subst y; contradiction|reflexivity].
  - destruct Hin as [Hin|Hin]; [contradiction|].
    cbn [filter]. destruct (Nat.eqb_spec x i) as [E|_]; [contradiction|]. cbn [negb filter].
    specialize (IH Hl Hin). destruct (sel x); cbn [List.length]; lia.
Qed.

(* alternative: each member is selected iff the owner is and no other member is *)
Lemma alt_core : forall (sel : nat -> bool) (o : bool) l, NoDup l -> l <> [] ->
  forallb (fun i => Bool.eqb (sel i)
                      (forallb (fun j => negb (sel j)) (filter (fun j => negb (Nat.eqb j i)) l) && o)) l
  = implb (existsb sel l) o && implb o (Nat.eqb (List.length (filter sel l)) 1).
Proof.
  intros sel o l Hnd Hne.
  assert (Hi : forall i, In i l ->
            forallb (fun j => negb (sel j)) (filter (fun j => negb (Nat.eqb j i)) l)
            = Nat.eqb (List.length (filter sel l) - (if sel i then 1 else 0)) 0).
  { intros i Hin. rewrite none_count, (count_remove sel l i Hnd Hin). f_equal. destruct (sel i); lia. }
  apply bool_eq_iff. rewrite forallb_forall, andb_true_iff. split.
  - intros H.
    assert (Hsel : forall i, In i l -> sel i = true -> o = true /\ List.length (filter sel l) = 1).
    { intros i Hin Hs. specialize (H i Hin). rewrite (Hi i Hin), Hs in H.
      apply eqb_prop in H. symmetry in H. apply andb_prop in H. destruct H as [H1 H2].
      apply Nat.eqb_eq in H1. split; [exact H2|].
      pose proof (count_remove sel l i Hnd Hin) as Hc. rewrite Hs in Hc. lia. }
    split.
    + destruct (existsb sel l) eqn:E; [|reflexivity]. apply existsb_exists in E.
      destruct E as (i & Hin & Hs). destruct (Hsel i Hin Hs) as [-> _]. reflexivity.
    + destruct o; [|reflexivity]. cbn [implb]. apply Nat.eqb_eq.
      destruct l as [|i0 l0]; [congruence|].
      assert (Hin0 : In i0 (i0 :: l0)) by (left; reflexivity).
      destruct (sel i0) eqn:Es; [apply (Hsel i0 Hin0 Es)|].
      pose proof (H i0 Hin0) as H0. rewrite (Hi i0 Hin0), Es, andb_true_r in H0.
      apply eqb_prop in H0. symmetry in H0. apply Nat.eqb_neq in H0.
      destruct (count_pos_exists sel (i0 :: l0)) as (i1 & Hin1 & Hs1); [lia|].
      apply (Hsel i1 Hin1 Hs1).
  - intros [H1 H2] i Hin. rewrite (Hi i Hin).
    destruct (sel i) eqn:Es.
    + assert (E : existsb sel l = true) by (apply existsb_exists; exists i; auto).
      rewrite E in H1. destruct o; [|discriminate H1]. cbn [implb] in H2. apply Nat.eqb_eq in H2.
      rewrite H2. reflexivity.
    + destruct o; [|rewrite andb_false_r; reflexivity]. cbn [implb] in H2. apply Nat.eqb_eq in H2.
      rewrite H2. reflexivity.
Qed.

(* itertools.combinations *)
Lemma combs_0 : forall l, combs 0 l = [[]].
Proof. intros [|x l]; reflexivity. Qed.

Lemma combs_incl : forall l k pos, In pos (combs k l) -> incl pos l.
Proof.
  induction l as [|x xs IH]; intros k pos H; destruct k as [|k']; cbn in H.
  - destruct H as [<-|[]]. apply incl_refl.
  - contradiction.
  - destruct H as [<-|[]]. intros y [].
  - apply in_app_or in H. destruct H as [H|H].
    + apply in_map_iff in H. destruct H as (pos' & <- & Hp).
      intros y [<-|Hy]; [left; reflexivity|right; apply (IH k' pos' Hp y Hy)].
    + apply incl_tl. apply (IH (S k') pos H).
Qed.

Lemma existsb_nat_notin : forall i l, ~ In i l -> existsb (Nat.eqb i) l = false.
Proof.
  intros i l H. apply existsb_false. intros y Hy. apply Nat.eqb_neq. intros E. subst y. contradiction.
Qed.

Lemma zero_pattern : forall (sel : nat -> bool) l,
  forallb (fun i => Bool.eqb false (sel i)) l = Nat.eqb (List.length (filter sel l)) 0.
Proof.
  intros sel l. rewrite <- none_count. apply forallb_ext_in. intros i _. destruct (sel i); reflexivity.
Qed.

(* the sign patterns of the k-element index sets: one of them holds iff exactly k indices are selected *)
Lemma combs_core : forall (sel : nat -> bool) l, NoDup l -> forall k,
  existsb (fun pos => forallb (fun i => Bool.eqb (existsb (Nat.eqb i) pos) (sel i)) l) (combs k l)
  = Nat.eqb (List.length (filter sel l)) k.
Proof.
  intros sel l Hnd. induction Hnd as [|x xs Hx Hxs IH]; intros k.
  - destruct k; reflexivity.
  - destruct k as [|k'].
    + rewrite combs_0. cbn [existsb]. rewrite orb_false_r.
      rewrite <- zero_pattern. apply forallb_ext_in. intros i _. reflexivity.
    + cbn [combs]. rewrite existsb_app, existsb_map.
      rewrite (existsb_ext_in _ (fun pos' => sel x &&
                 forallb (fun i => Bool.eqb (existsb (Nat.eqb i) pos') (sel i)) xs) (combs k' xs)).
      2:{ intros pos' Hp. cbn [forallb existsb]. rewrite Nat.eqb_refl. cbn [orb]. f_equal.
          - destruct (sel x); reflexivity.
          - apply forallb_ext_in. intros i Hi. f_equal.
            destruct (Nat.eqb_spec i x) as [E|N]; [subst i; contradiction|reflexivity]. }
      rewrite (existsb_ext_in _ (fun pos => negb (sel x) &&
                 forallb (fun i => Bool.eqb (existsb (Nat.eqb i) pos) (sel i)) xs) (combs (S k') xs)).
      2:{ intros pos Hp. cbn [forallb]. f_equal.
          rewrite existsb_nat_notin; [destruct (sel x); reflexivity|].
          intros Hin. apply Hx. apply (combs_incl xs (S k') pos Hp x Hin). }
      rewrite !existsb_andb_const, !IH. cbn [filter].
      destruct (sel x); cbn [negb andb orb List.length]; [|reflexivity].
      rewrite orb_false_r. reflexivity.
Qed.

(* indices and elements *)
Lemma count_indices : forall (σ : string -> bool) l,
  List.length (filter (fun i => σ (nth i l ""%string)) (seq 0 (List.length l)))
  = List.length (filter σ l).
Proof.
  intros σ l. induction l as [|x l IH]; [reflexivity|].
  cbn [List.length seq filter nth]. rewrite <- seq_shift.
  destruct (σ x); cbn [List.length]; rewrite filter_map_length; cbv beta iota; rewrite IH; reflexivity.
Qed.

Lemma range_exists : forall K a m,
  existsb (fun k => Nat.eqb K k) (map (fun d => (a + d)%nat) (seq 0 m))
  = Nat.leb a K && Nat.ltb K (a + m).
Proof.
  intros K a m. apply bool_eq_iff. rewrite existsb_exists, andb_true_iff, Nat.leb_le, Nat.ltb_lt. split.
  - intros (k & Hin & E). apply Nat.eqb_eq in E. subst k.
    apply in_map_iff in Hin. destruct Hin as (d & <- & Hd). apply in_seq in Hd. lia.
  - intros [H1 H2]. exists K. split; [|apply Nat.eqb_refl].
    apply in_map_iff. exists (K - a)%nat. split; [lia|]. apply in_seq. lia.
Qed.

Lemma seq_nonempty : forall n, n <> 0%nat -> seq 0 n <> [].
Proof. intros [|n] H; [congruence|discriminate]. Qed.

Definition pl_rel_ok (r : relation) : Prop :=
  (0 <= r_min r)%Z /\ (r_max r = -1 \/ 0 <= r_max r)%Z /\ r_children r <> []
  /\ NoDup (map name (r_children r)).

(* the flat condition of one relation: every selected child implies the owner, and a selected owner has
   a count within the cardinality *)
Definition rel_flat (σ : string -> bool) (owner : string) (r : relation) : bool :=
  forallb (fun c => implb (σ (name c)) (σ owner)) (r_children r)
  && implb (σ owner) (card_okb (r_min r) (r_max r) (List.length (r_children r)) (count_sel σ (r_children r))).

Lemma count_sel_names : forall σ cs,
  count_sel σ cs = Z.of_nat (List.length (filter σ (map name cs))).
Proof. intros σ cs. unfold count_sel. rewrite filter_map_length. reflexivity. Qed.

Lemma rel_flat_names : forall σ owner r,
  rel_flat σ owner r =
  implb (existsb σ (map name (r_children r))) (σ owner)
  && implb (σ owner) (card_okb (r_min r) (r_max r) (List.length (map name (r_children r)))
                               (Z.of_nat (List.length (filter σ (map name (r_children r)))))).
Proof.
  intros σ owner r. unfold rel_flat. rewrite count_sel_names, map_length. f_equal.
  rewrite <- forall_imp, forallb_map. reflexivity.
Qed.

(* the cardinality formula *)
Lemma card_formula_eval : forall σ (cs : list string) (P : pl) (a : Z) (cm : Z), cs <> [] -> (0 <= a)%Z ->
  existsb (pl_eval σ)
    (flat_map (fun k => map (fun positives =>
                 PParen (pjoin PAnd
                           (map (fun i => if existsb (Nat.eqb i) positives
                                          then PVar (nth i cs ""%string)
                                          else PNot (PVar (nth i cs ""%string)))
                                (seq 0 (List.length cs))) P))
               (combs k (seq 0 (List.length cs))))
       (map (fun d => (Z.to_nat a + d)%nat) (seq 0 (Z.to_nat (cm + 1 - a)))))
  = ((a <=? Z.of_nat (List.length (filter σ cs))) && (Z.of_nat (List.length (filter σ cs)) <=? cm))%Z.
Proof.
  intros σ cs P a cm Hne Ha.
  assert (Hn : List.length cs <> 0%nat) by (destruct cs; [congruence|discriminate]).
  rewrite existsb_flat_map.
  rewrite (existsb_ext_in _ (fun k => Nat.eqb (List.length (filter σ cs)) k)).
  - rewrite range_exists. apply bool_eq_iff.
    rewrite !andb_true_iff, Nat.leb_le, Nat.ltb_lt, !Z.leb_le. lia.
  - intros k _. rewrite existsb_map. rewrite <- (count_indices σ cs).
    rewrite <- (combs_core (fun i => σ (nth i cs ""%string)) _ (seq_NoDup _ 0) k).
    apply existsb_ext_in. intros pos _. cbn [pl_eval].
    rewrite pjoin_and_eval.
    + rewrite forallb_map. apply forallb_ext_in. intros i _.
      destruct (existsb (Nat.eqb i) pos); cbn [pl_eval];
        destruct (σ (nth i cs ""%string)); reflexivity.
    + intros E. apply map_eq_nil in E. apply (seq_nonempty _ Hn E).
Qed.

Lemma combos_default : forall σ (c : list pl) d, pl_eval σ d = false ->
  existsb (pl_eval σ) (match c with [] => [d] | _ :: _ => c end) = existsb (pl_eval σ) c.
Proof. intros σ [|x c] d H; [cbn; rewrite H; reflexivity|reflexivity]. Qed.

Lemma combos_default_ne : forall (c : list pl) d, match c with [] => [d] | _ :: _ => c end <> [].
Proof. intros [|x c] d; discriminate. Qed.

Lemma nat_eqb_1_Z : forall K : nat, Nat.eqb K 1 = ((1 <=? Z.of_nat K) && (Z.of_nat K <=? 1))%Z.
Proof.
  intros K. apply bool_eq_iff. rewrite Nat.eqb_eq, andb_true_iff, !Z.leb_le. lia.
Qed.

Lemma nat_pos_Z : forall K : nat, negb (Nat.eqb K 0) = (1 <=? Z.of_nat K)%Z.
Proof.
  intros K. apply bool_eq_iff. rewrite negb_true_iff, Nat.eqb_neq, Z.leb_le. lia.
Qed.

Lemma nchildren_names : forall r, nchildren r = Z.of_nat (List.length (map name (r_children r))).
Proof. intros r. unfold nchildren. rewrite map_length. reflexivity. Qed.

Theorem pl_relation_sound : forall owner r p σ, pl_rel_ok r -> pl_relation owner r = Ok p ->
  pl_eval σ p =
    (forallb (fun c => implb (σ (name c)) (σ owner)) (r_children r)
     && implb (σ owner) (card_okb (r_min r) (r_max r) (List.length (r_children r))
                                  (count_sel σ (r_children r)))).
Proof.
  intros owner r p σ (Hmin & _ & Hne & _) H.
  change (pl_eval σ p = rel_flat σ owner r).
  unfold pl_relation in H. cbv zeta in H.
  destruct (rel_is_mandatory r) eqn:Em.
  { inversion H; subst p; clear H. destruct (mandatory_one r Em) as (c & Hc & E1 & E2).
    unfold rel_flat. rewrite Hc, E1, E2, count_sel_one. cbn [map hd pl_eval forallb List.length].
    destruct (σ owner), (σ (name c)); reflexivity. }
  destruct (rel_is_optional r) eqn:Eo.
  { inversion H; subst p; clear H. destruct (optional_one r Eo) as (c & Hc & E1 & E2).
    unfold rel_flat. rewrite Hc, E1, E2, count_sel_one. cbn [map hd pl_eval forallb List.length].
    destruct (σ owner), (σ (name c)); reflexivity. }
  rewrite rel_flat_names.
  assert (Hcs : map name (r_children r) <> []).
  { intros E. apply map_eq_nil in E. contradiction. }
  set (cs := map name (r_children r)) in *.
  assert (Hn : List.length cs <> 0%nat) by (destruct cs; [congruence|discriminate]).
  pose proof (filter_length_le' σ cs) as Hle.
  destruct (rel_is_or r) eqn:Eor.
  { inversion H; subst p; clear H. unfold rel_is_or in Eor.
    rewrite nchildren_names in Eor. fold cs in Eor.
    apply andb_prop in Eor. destruct Eor as [Eor _]. apply andb_prop in Eor. destruct Eor as [E1 E2].
    apply Z.eqb_eq in E1, E2. rewrite E1, E2.
    cbn [pl_eval]. rewrite pjoin_or_eval by (intros E; apply map_eq_nil in E; contradiction).
    rewrite existsb_map. cbn [pl_eval].
    change (existsb (fun x => σ x) cs) with (existsb σ cs).
    unfold card_okb, eff_max.
    assert (Hc2 : (Z.of_nat (List.length (filter σ cs))
                   <=? (if Z.of_nat (List.length cs) =? -1 then Z.of_nat (List.length cs)
                        else Z.of_nat (List.length cs)))%Z = true).
    { apply Z.leb_le. destruct (Z.of_nat (List.length cs) =? -1)%Z; lia. }
    rewrite Hc2, andb_true_r, <- nat_pos_Z, <- existsb_count.
    destruct (σ owner), (existsb σ cs); reflexivity. }
  destruct (rel_is_alternative r) eqn:Ea.
  { inversion H; subst p; clear H. unfold rel_is_alternative in Ea.
    apply andb_prop in Ea. destruct Ea as [Ea _]. apply andb_prop in Ea. destruct Ea as [E1 E2].
    apply Z.eqb_eq in E1, E2. rewrite E1, E2.
    rewrite pjoin_and_eval by (intros E; apply map_eq_nil in E; apply (seq_nonempty _ Hn E)).
    rewrite forallb_map.
    rewrite (forallb_ext_in _ (fun i => Bool.eqb (σ (nth i cs ""%string))
               (forallb (fun j => negb (σ (nth j cs ""%string)))
                        (filter (fun j => negb (Nat.eqb j i)) (seq 0 (List.length cs))) && σ owner))).
    2:{ intros i _. cbn [pl_eval]. f_equal.
        rewrite pjoin_and_eval by (intros E; apply app_eq_nil in E; destruct E as [_ E]; discriminate E).
        rewrite forallb_app, forallb_map. cbn [forallb pl_eval]. rewrite andb_true_r. reflexivity. }
    rewrite (alt_core (fun i => σ (nth i cs ""%string)) (σ owner) _ (seq_NoDup _ 0) (seq_nonempty _ Hn)).
    rewrite (existsb_count (fun i => σ (nth i cs ""%string))), count_indices, <- existsb_count.
    rewrite nat_eqb_1_Z. unfold card_okb, eff_max. cbn [Z.eqb]. reflexivity. }
  destruct (r_min r <? 0)%Z eqn:Eneg; [discriminate H|].
  inversion H; subst p; clear H. cbn [pl_eval].
  rewrite pjoin_and_eval by (intros E; apply map_eq_nil in E; contradiction).
  rewrite forallb_map. cbn [pl_eval]. rewrite (forall_imp σ (σ owner) cs).
  f_equal. f_equal.
  rewrite pjoin_or_eval by apply combos_default_ne.
  rewrite combos_default by (cbn [pl_eval]; destruct (σ owner); reflexivity).
  rewrite (card_formula_eval σ cs (PVar owner) (r_min r) _ Hcs Hmin).
  unfold card_okb, eff_max. reflexivity.
Qed.

(* ================================================================== propositional export: the model *)

Definition pair_flat (σ : string -> bool) (pr : feature * relation) : bool :=
  rel_flat σ (name (fst pr)) (snd pr).

(* every (owner, relation) of the sub-tree satisfies the flat condition *)
Definition flat (σ : string -> bool) (f : feature) : bool := forallb (pair_flat σ) (subrelations_ctx f).

Lemma subrelations_ctx_unfold : forall i rs,
  subrelations_ctx (Feature i rs)
  = flat_map (fun r => (Feature i rs, r) :: flat_map subrelations_ctx (r_children r)) rs.
Proof. intros i rs. cbn [subrelations_ctx]. apply flat_map_ext. intros [a b cs]. reflexivity. Qed.

Lemma flat_unfold : forall σ i rs,
  flat σ (Feature i rs)
  = forallb (fun r => rel_flat σ (f_name i) r && forallb (flat σ) (r_children r)) rs.
Proof.
  intros σ i rs. unfold flat at 1. rewrite subrelations_ctx_unfold, forallb_flat_map.
  apply forallb_ext_in. intros r _. cbn [forallb]. rewrite forallb_flat_map. reflexivity.
Qed.

Lemma none_selected_name : forall σ f, none_selected σ f = true -> σ (name f) = false.
Proof.
  intros σ [i rs] H. rewrite none_unfold in H. apply andb_prop in H. destruct H as [H _].
  apply negb_true_iff in H. exact H.
Qed.

Lemma none_flat : forall σ f, none_selected σ f = true -> flat σ f = true.
Proof.
  intros σ f. pattern f. apply feature_ind3. clear f. intros i rs IH H.
  pose proof (none_selected_name σ _ H) as Hn. change (σ (f_name i) = false) in Hn.
  rewrite none_unfold in H. apply andb_prop in H. destruct H as [_ H]. rewrite forallb_forall in H.
  rewrite flat_unfold. apply forallb_forall. intros r Hr. specialize (H r Hr). rewrite forallb_forall in H.
  apply andb_true_intro. split.
  - unfold rel_flat. rewrite Hn. cbn [implb]. rewrite andb_true_r.
    apply forallb_forall. intros c Hc. rewrite (none_selected_name σ c (H c Hc)). reflexivity.
  - apply forallb_forall. intros c Hc. apply (IH r c Hr Hc), H, Hc.
Qed.

Lemma flat_none : forall σ f, flat σ f = true -> σ (name f) = false -> none_selected σ f = true.
Proof.
  intros σ f. pattern f. apply feature_ind3. clear f. intros i rs IH H Hn. change (σ (f_name i) = false) in Hn.
  rewrite flat_unfold in H. rewrite forallb_forall in H.
  rewrite none_unfold, Hn. cbn [negb andb].
  apply forallb_forall. intros r Hr. specialize (H r Hr). apply andb_prop in H. destruct H as [H1 H2].
  unfold rel_flat in H1. apply andb_prop in H1. destruct H1 as [H1 _].
  rewrite forallb_forall in H1, H2.
  apply forallb_forall. intros c Hc. apply (IH r c Hr Hc); [apply H2, Hc|].
  specialize (H1 c Hc). rewrite Hn in H1. destruct (σ (name c)); [discriminate H1|reflexivity].
Qed.

Lemma sem_flat_sel : forall σ f, σ (name f) = true -> sem σ f = flat σ f.
Proof.
  intros σ f. pattern f. apply feature_ind3. clear f. intros i rs IH Hs. change (σ (f_name i) = true) in Hs.
  rewrite sem_unfold, flat_unfold, Hs. cbn [andb].
  apply forallb_ext_in. intros r Hr. unfold rel_ok, rel_flat. rewrite Hs. cbn [implb].
  assert (Hall : forallb (fun c => implb (σ (name c)) true) (r_children r) = true).
  { apply forallb_forall. intros c _. destruct (σ (name c)); reflexivity. }
  rewrite Hall. cbn [andb]. f_equal. unfold cs_ok.
  apply forallb_ext_in. intros c Hc. destruct (σ (name c)) eqn:Ec.
  - apply (IH r c Hr Hc Ec).
  - apply bool_eq_iff. split; [apply none_flat|]. intros Hf. apply (flat_none σ c Hf Ec).
Qed.

(* the key characterisation: the tree rules are the root plus the flat conditions *)
Lemma sem_flat : forall σ f, sem σ f = σ (name f) && flat σ f.
Proof.
  intros σ f. destruct (σ (name f)) eqn:E.
  - apply (sem_flat_sel σ f E).
  - destruct f as [i rs]. rewrite sem_unfold. change (σ (f_name i) = false) in E. rewrite E. reflexivity.
Qed.

Lemma filter_id {A} (p : A -> bool) l : (forall x, In x l -> p x = true) -> filter p l = l.
Proof. apply filter_true. Qed.

Theorem C10_pl : forall m d σ,
  Forall pl_rel_ok (subrelations (root m)) -> Forall (fun c => node_wf (c_ast c) = true) (ctcs m) ->
  pl_write m = Ok d -> pl_sat σ d = valid m σ.
Proof.
  intros m d σ Hrel Hwf H. unfold pl_write in H.
  destruct (mapM (fun pr => pl_relation (name (fst pr)) (snd pr)) (subrelations_ctx (root m)))
    as [rels_|e] eqn:Er; [|discriminate H].
  destruct (mapM (fun c => pl_node (c_ast c)) (filter (fun c => is_logical (c_ast c)) (ctcs m)))
    as [cs|e] eqn:Ec; [|discriminate H].
  inversion H; subst d; clear H.
  rewrite Forall_forall in Hrel, Hwf.
  rewrite filter_true in Ec.
  2:{ intros c Hc. apply WF_is_logical, node_wf_WF, Hwf, Hc. }
  unfold pl_sat, valid. cbn [forallb pl_eval]. rewrite forallb_app, sem_flat. rewrite <- andb_assoc.
  f_equal. f_equal.
  - unfold flat. apply (mapM_forallb _ _ _ _ _ Er). intros [o r] p Hin Hp. cbn [fst snd] in Hp.
    unfold pair_flat, rel_flat. cbn [fst snd]. apply (pl_relation_sound (name o) r p σ); [|exact Hp].
    apply Hrel. rewrite <- map_snd_ctx_rels. apply in_map_iff. exists (o, r). split; [reflexivity|exact Hin].
  - apply (mapM_forallb _ _ _ _ _ Ec). intros c p Hc Hp.
    apply (pl_node_sound (c_ast c) p σ (Hwf c Hc) Hp).
Qed.

(* ------------------------------------------------------------------ no name is missing *)

(* the name occurs in the formula *)
Fixpoint pl_mentions (x : string) (p : pl) : Prop :=
  match p with
  | PVar s => s = x
  | PNot a | PParen a => pl_mentions x a
  | PAnd a b | POr a b | PImp a b | PIff a b => pl_mentions x a \/ pl_mentions x b
  end.

Lemma fold_mentions : forall x (op : pl -> pl -> pl),
  (forall a b, pl_mentions x a \/ pl_mentions x b -> pl_mentions x (op a b)) ->
  forall xs x0, (pl_mentions x x0 \/ exists y, In y xs /\ pl_mentions x y) ->
  pl_mentions x (fold_left op xs x0).
Proof.
  intros x op Hop xs. induction xs as [|z xs IH]; intros x0 H; cbn [fold_left].
  - destruct H as [H|(y & [] & _)]. exact H.
  - apply IH. destruct H as [H|(y & [<-|Hy] & Hm)].
    + left. apply Hop. left; exact H.
    + left. apply Hop. right; exact Hm.
    + right. exists y. split; assumption.
Qed.

Lemma pjoin_mentions : forall x (op : pl -> pl -> pl),
  (forall a b, pl_mentions x a \/ pl_mentions x b -> pl_mentions x (op a b)) ->
  forall l e y, In y l -> pl_mentions x y -> pl_mentions x (pjoin op l e).
Proof.
  intros x op Hop l e y Hin Hm. destruct l as [|z l]; [contradiction|].
  cbn [pjoin]. apply (fold_mentions x op Hop). destruct Hin as [<-|Hin]; [left; exact Hm|].
  right. exists y. split; assumption.
Qed.

Lemma and_mentions : forall x a b, pl_mentions x a \/ pl_mentions x b -> pl_mentions x (PAnd a b).
Proof. intros x a b H. exact H. Qed.
Lemma or_mentions : forall x a b, pl_mentions x a \/ pl_mentions x b -> pl_mentions x (POr a b).
Proof. intros x a b H. exact H. Qed.

Lemma pl_relation_mentions : forall owner r p c,
  pl_relation owner r = Ok p -> In c (r_children r) -> pl_mentions (name c) p.
Proof.
  intros owner r p c H Hc. unfold pl_relation in H. cbv zeta in H.
  destruct (rel_is_mandatory r) eqn:Em.
  { inversion H; subst p. destruct (mandatory_one r Em) as (c0 & Hc0 & _). rewrite Hc0 in *.
    destruct Hc as [<-|[]]. cbn. right; reflexivity. }
  destruct (rel_is_optional r) eqn:Eo.
  { inversion H; subst p. destruct (optional_one r Eo) as (c0 & Hc0 & _). rewrite Hc0 in *.
    destruct Hc as [<-|[]]. cbn. left; reflexivity. }
  assert (Hn : In (name c) (map name (r_children r))) by (apply in_map, Hc).
  destruct (rel_is_or r).
  { inversion H; subst p. cbn [pl_mentions]. right.
    apply (pjoin_mentions _ POr (or_mentions _) _ _ (PVar (name c))); [|reflexivity].
    apply in_map, Hn. }
  destruct (rel_is_alternative r).
  { inversion H; subst p.
    destruct (In_nth _ _ ""%string Hn) as (k & Hk & Enth).
    apply (pjoin_mentions _ PAnd (and_mentions _) _ _
             (PParen (PIff (PVar (nth k (map name (r_children r)) ""%string))
                (PParen (pjoin PAnd
                   (map (fun j => PNot (PVar (nth j (map name (r_children r)) ""%string)))
                        (filter (fun j => negb (Nat.eqb j k)) (seq 0 (List.length (map name (r_children r)))))
                    ++ [PVar owner]) (PVar owner)))))).
    - apply in_map_iff. exists k. split; [reflexivity|]. apply in_seq. lia.
    - cbn [pl_mentions]. left. exact Enth. }
  destruct (r_min r <? 0)%Z; [discriminate H|].
  inversion H; subst p. cbn [pl_mentions]. left.
  apply (pjoin_mentions _ PAnd (and_mentions _) _ _ (PParen (PImp (PVar (name c)) (PVar owner)))).
  - apply in_map_iff. exists (name c). split; [reflexivity|exact Hn].
  - cbn [pl_mentions]. left. reflexivity.
Qed.

Lemma mapM_in {A B} (f : A -> result B) l l' x :
  mapM f l = Ok l' -> In x l -> exists y, In y l' /\ f x = Ok y.
Proof.
  intros H. apply mapM_Forall2 in H. induction H as [|a b l l' Hab _ IH]; intros Hin; [contradiction|].
  destruct Hin as [<-|Hin].
  - exists b. split; [left; reflexivity|exact Hab].
  - destruct (IH Hin) as (y & Hy & Hf). exists y. split; [right; exact Hy|exact Hf].
Qed.

Theorem C10_pl_names : forall m d, pl_write m = Ok d ->
  forall x, In x (names (root m)) -> exists p, In p d /\ pl_mentions x p.
Proof.
  intros m d H x Hx. unfold pl_write in H.
  destruct (mapM (fun pr => pl_relation (name (fst pr)) (snd pr)) (subrelations_ctx (root m)))
    as [rels_|e] eqn:Er; [|discriminate H].
  destruct (mapM (fun c => pl_node (c_ast c)) (filter (fun c => is_logical (c_ast c)) (ctcs m)))
    as [cs|e] eqn:Ec; [|discriminate H].
  inversion H; subst d; clear H.
  unfold names in Hx. apply in_map_iff in Hx. destruct Hx as (g & Hg & Hin).
  apply (Permutation_in _ (Permutation_sym (children_of_subrelations_perm (root m)))) in Hin.
  destruct Hin as [<-|Hin].
  - exists (PVar (name (root m))). split; [left; reflexivity|exact Hg].
  - apply in_flat_map in Hin. destruct Hin as (r & Hr & Hgr).
    rewrite <- map_snd_ctx_rels in Hr. apply in_map_iff in Hr. destruct Hr as ([o r'] & E & Hor).
    cbn [snd] in E. subst r'.
    destruct (mapM_in _ _ _ _ Er Hor) as (p & Hp & Hf). cbn [fst snd] in Hf.
    exists p. split; [right; apply in_or_app; left; exact Hp|].
    rewrite <- Hg. apply (pl_relation_mentions (name o) r p g Hf Hgr).
Qed.

(* ------------------------------------------------------------------ assumptions *)
Print Assumptions splot_none.
Print Assumptions splot_tree_sem.
Print Assumptions pl_node_sound.
Print Assumptions C10_splot_names.
Print Assumptions splot_clauses_sound.
Print Assumptions C10_splot_partial.
Print Assumptions C10_splot_xe_refuted.
Print Assumptions pl_relation_sound.
Print Assumptions C10_pl.
Print Assumptions C10_pl_names.
