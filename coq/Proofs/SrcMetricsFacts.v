(* Source tie: operations/fm_metrics.py (generated translation Gen/Src_metrics.v) equals the hand model
   Model/Metrics.v: the whole report of FMMetrics.calculate_metamodel_metrics. *)
From Coq Require Import List Bool Ascii String ZArith Lia Permutation.
From FM Require Import Base.Result Base.Str Base.AstOp Base.PyFloat Model.Ast Model.FM Model.Ctc Model.Queries Model.Ops Model.EqHash Gen.Tables_metrics Model.Metrics Model.PyRt Model.Loc Gen.Src_fm Gen.Src_ops Gen.Src_opobj Gen.Src_metrics.
From FM Require Import Proofs.FMFacts Proofs.QueriesFacts Proofs.C16Facts Proofs.C17Facts Proofs.SrcFmFacts Proofs.SrcCtcFacts Proofs.SrcSplitFacts Proofs.SrcTreeOpsFacts Proofs.SrcObjFacts Proofs.SrcStrFacts.
Import ListNotations.
Local Open Scope list_scope.

Definition conv_res (r : mval) : py_mres :=
  match r with MNames l => PMNames l | MStr s => PMStr s | MInt z => PMInt z | MHund h => PMHund h end.
Definition conv (e : entry) : py_metric :=
  {| pm_name := me_name e; pm_result := conv_res (me_result e); pm_size := me_size e; pm_ratio := me_ratio e;
     pm_parent := me_parent e; pm_level := me_level e |}.

(* ================================================================== general helpers *)
Lemma sm_rmap_bind {A B} (f : A -> B) (r : result A) : bind r (fun v => Ok (f v)) = rmap f r.
Proof. destruct r; reflexivity. Qed.

Lemma sm_bind_ok {A} (r : result A) : bind r (fun v => Ok v) = r.
Proof. destruct r; reflexivity. Qed.

Lemma sm_bind_assoc {A B C} (r : result A) (f : A -> result B) (g : B -> result C) :
  bind (bind r f) g = bind r (fun x => bind (f x) g).
Proof. destruct r; reflexivity. Qed.

Lemma sm_bind_ext {A B} (r : result A) (f g : A -> result B) :
  (forall x, f x = g x) -> bind r f = bind r g.
Proof. intros H. destruct r; cbn [bind]; [apply H | reflexivity]. Qed.

Lemma sm_flat_map_sel {A B} (p : A -> bool) (g : A -> B) (l : list A) :
  flat_map (fun x => if p x then [g x] else []) l = map g (filter p l).
Proof.
  induction l as [|x xs IH]; cbn [flat_map filter map]; [reflexivity|].
  destruct (p x); cbn [app map]; rewrite IH; reflexivity.
Qed.

Lemma sm_flat_map_ext {A B} (f g : A -> list B) (l : list A) :
  (forall x, f x = g x) -> flat_map f l = flat_map g l.
Proof. intros H. apply fm_flat_map_ext_in. intros x _. apply H. Qed.

Lemma sm_py_flat_mapM_map {A B C} (h : A -> B) (f : B -> result (list C)) (l : list A) :
  py_flat_mapM f (map h l) = py_flat_mapM (fun x => f (h x)) l.
Proof.
  induction l as [|x xs IH]; [reflexivity|].
  cbn [map]. rewrite !py_flat_mapM_cons, IH. reflexivity.
Qed.

Lemma sm_filter_ext_in {A} (p q : A -> bool) (l : list A) :
  (forall x, In x l -> p x = q x) -> filter p l = filter q l.
Proof.
  induction l as [|x xs IH]; intros H; cbn [filter]; [reflexivity|].
  rewrite (H x (or_introl eq_refl)), IH; [reflexivity|].
  intros y Hy. apply H. right. exact Hy.
Qed.

Lemma sm_NoDup_map_filter {A B} (g : A -> B) (p : A -> bool) (l : list A) :
  NoDup (map g l) -> NoDup (map g (filter p l)).
Proof.
  induction l as [|x xs IH]; intros H; cbn [filter map]; [constructor|].
  cbn [map] in H. inversion H as [|y ys Hnin Hnd]; subst.
  destruct (p x); cbn [map].
  - constructor; [|apply IH; exact Hnd].
    intros Hin. apply Hnin. apply in_map_iff in Hin. destruct Hin as (z & Hz & Hin).
    apply in_map_iff. exists z. split; [exact Hz|]. apply filter_In in Hin. apply Hin.
  - apply IH. exact Hnd.
Qed.

(* ================================================================== dictionaries with distinct keys *)
Lemma sm_dict_set_new {V} (d : list (string * V)) k v :
  ~ In k (map fst d) -> py_dict_set String.eqb d k v = d ++ [(k, v)].
Proof.
  induction d as [|[k' v'] d IH]; intros Hnin; cbn [py_dict_set app]; [reflexivity|].
  cbn [map fst In] in Hnin.
  destruct (String.eqb k' k) eqn:E.
  - apply String.eqb_eq in E. exfalso. apply Hnin. left. exact E.
  - rewrite IH; [reflexivity|]. intros H. apply Hnin. right. exact H.
Qed.

Lemma sm_dict_of_pairs_acc {V} (l acc : list (string * V)) :
  NoDup (map fst (acc ++ l)) ->
  fold_left (fun d kv => py_dict_set String.eqb d (fst kv) (snd kv)) l acc = acc ++ l.
Proof.
  revert acc. induction l as [|[k v] l IH]; intros acc Hnd; cbn [fold_left].
  - rewrite app_nil_r. reflexivity.
  - cbn [fst snd]. rewrite sm_dict_set_new.
    + rewrite IH; rewrite <- app_assoc; [reflexivity|exact Hnd].
    + rewrite map_app in Hnd. cbn [map fst] in Hnd.
      apply NoDup_remove_2 in Hnd. intros Hin. apply Hnd. apply in_or_app. left. exact Hin.
Qed.

Lemma sm_dict_of_pairs_nodup {V} (l : list (string * V)) :
  NoDup (map fst l) -> py_dict_of_pairs String.eqb l = l.
Proof. intros H. unfold py_dict_of_pairs. rewrite sm_dict_of_pairs_acc; [reflexivity|exact H]. Qed.

Definition nm (x : lfeat) : string := name (fst x).
Definition keyed (l : list lfeat) : list (string * lfeat) := map (fun f => (nm f, f)) l.

Lemma sm_map_fst_keyed l : map fst (keyed l) = map nm l.
Proof. unfold keyed. rewrite map_map. reflexivity. Qed.

Lemma sm_keyed_length l : List.length (keyed l) = List.length l.
Proof. unfold keyed. apply map_length. Qed.

Lemma sm_dict_get_keyed (l : list lfeat) x :
  NoDup (map nm l) -> In x l -> py_dict_get String.eqb (keyed l) (nm x) = Ok x.
Proof.
  unfold py_dict_get. induction l as [|y ys IH]; intros Hnd Hin; [destruct Hin|].
  cbn [keyed map find fst]. fold (keyed ys).
  cbn [map] in Hnd. inversion Hnd as [|a b Hnin Hnd']; subst.
  destruct (String.eqb (nm y) (nm x)) eqn:E.
  - cbn [snd]. destruct Hin as [Heq | Hin]; [subst; reflexivity|].
    apply String.eqb_eq in E. exfalso. apply Hnin. rewrite E. apply in_map. exact Hin.
  - destruct Hin as [Heq | Hin]; [subst; rewrite String.eqb_refl in E; discriminate|].
    apply IH; assumption.
Qed.

Lemma sm_existsb_keyed (l : list lfeat) s :
  existsb (fun p : string * lfeat => String.eqb (fst p) s) (keyed l) = list_existsb_eq s (map nm l).
Proof.
  unfold keyed. rewrite fm_existsb_map. cbn [fst].
  rewrite <- existsb_eqb_list_existsb_eq, fm_existsb_map. reflexivity.
Qed.

(* ================================================================== the located listing and the model's names *)
Lemma sm_map_nm l : map nm l = map name (map fst l).
Proof. rewrite map_map. reflexivity. Qed.

Lemma sm_nm_loc m : map nm (loc_features m) = fnames m.
Proof. rewrite sm_map_nm, loc_features_erase. reflexivity. Qed.

Lemma sm_nodup_nm m : NoDup (names (root m)) -> NoDup (map nm (loc_features m)).
Proof.
  intros H. rewrite sm_nm_loc. unfold fnames, feats.
  eapply Permutation_NoDup; [|exact H].
  apply Permutation_sym. unfold names. apply Permutation_map. apply get_features_perm.
Qed.

Lemma sm_len_loc m : List.length (loc_features m) = List.length (fnames m).
Proof. rewrite <- sm_nm_loc, map_length. reflexivity. Qed.

(* selecting by a predicate on the tree value, reading the name *)
Lemma sm_sel_names (q : lfeat -> bool) (p : feature -> bool) (l : list lfeat) :
  (forall x, q x = p (fst x)) ->
  flat_map (fun f => if q f then [name (fst f)] else []) l = map name (filter p (map fst l)).
Proof.
  intros H. rewrite (sm_flat_map_sel q (fun f => name (fst f))).
  rewrite (fm_filter_ext q (fun x => p (fst x)) l H).
  rewrite <- map_fst_filter_loc, map_map. reflexivity.
Qed.

(* the same through one of the name-keyed dictionaries *)
Lemma sm_sel_keyed (q : lfeat -> bool) (a p : feature -> bool) (l : list lfeat) :
  (forall x, q x = p (fst x)) ->
  flat_map (fun '(n, f) => if q f then [n] else []) (keyed (filter (fun x => a (fst x)) l))
  = map name (filter (fun f => a f && p f) (map fst l)).
Proof.
  intros H. unfold keyed. rewrite fm_flat_map_map. cbn beta iota.
  rewrite (sm_sel_names q p _ H). f_equal.
  rewrite map_fst_filter_loc.
  induction (map fst l) as [|x xs IH]; cbn [filter]; [reflexivity|].
  destruct (a x); cbn [filter andb]; [destruct (p x); rewrite IH; reflexivity | exact IH].
Qed.

Lemma sm_keyed_names (a : feature -> bool) (l : list lfeat) :
  map fst (keyed (filter (fun x => a (fst x)) l)) = map name (filter a (map fst l)).
Proof. rewrite sm_map_fst_keyed, sm_map_nm, map_fst_filter_loc. reflexivity. Qed.

Lemma sm_abstract_truthy f : aval_truthy (f_abstract (info f)) = is_abstract_truthy f.
Proof.
  unfold is_abstract_truthy.
  destruct (f_abstract (info f)) as [|b|z|r|s|l|kv] eqn:E; cbn [aval_truthy]; try reflexivity.
  - rewrite py_is_nil_length. reflexivity.
  - rewrite py_is_nil_length. reflexivity.
Qed.

Lemma sm_is_group_feature x : py_FMMetrics__is_group_feature x = is_group_feature (fst x).
Proof.
  unfold py_FMMetrics__is_group_feature, is_group_feature.
  rewrite src_feat_is_group, src_feat_is_cardinality_group. reflexivity.
Qed.

Lemma sm_is_grouped f anc : py_FMMetrics__is_grouped (f, anc) = feat_is_grouped (hd_error anc) f.
Proof.
  unfold py_FMMetrics__is_grouped, feat_is_grouped.
  destruct anc as [|p a]; cbn [lf_parent snd hd_error]; [reflexivity|].
  unfold py_Feature_get_relations.
  apply (existsb_lf_relations _ (fun r => rel_is_group r && in_children f r) (p, a)).
  intros r. rewrite src_rel_is_group, in_children_loc. reflexivity.
Qed.

(* ================================================================== the cached lists of _prepare *)
Lemma sm_fuel_ctc m c : In c (ctcs m) -> (fuel_node (c_ast c) <= fuel_ctcs (ctcs m))%nat.
Proof.
  intros H. unfold fuel_ctcs. apply le_list_sum.
  apply (in_map (fun c => fuel_node (c_ast c))). exact H.
Qed.

Lemma sm_cpf_count (per : list (list string)) (x : lfeat) :
  py_count (flat_map (fun feat => [existsb (fun d => match d with DStr s => String.eqb s (name (fst x)) | _ => false end) feat])
                     (map (map DStr) per))
  = zlen (filter (fun l => list_existsb_eq (name (fst x)) l) per).
Proof.
  unfold py_count, zlen. f_equal.
  rewrite fm_flat_map_single, fm_count_map, fm_filter_map, map_length. f_equal.
  apply fm_filter_ext. intros l. rewrite fm_existsb_map. apply existsb_eqb_list_existsb_eq.
Qed.

Lemma src_cpf : forall fuel self m, (fuel_ctcs (ctcs m) <= fuel)%nat ->
  py_FMMetrics_constraints_per_features fuel self m (loc_features m) = Ok (cpf m).
Proof.
  intros fuel self m Hfuel. unfold py_FMMetrics_constraints_per_features. cbn zeta.
  rewrite (foldM_append _ (fun c => [map DStr (ctc_features (c_ast c))])).
  2:{ intros s c Hc. unfold py_FeatureModel_get_constraints in Hc.
      rewrite src_ctc_get_features; [reflexivity|].
      eapply Nat.le_trans; [apply sm_fuel_ctc; exact Hc | exact Hfuel]. }
  cbn [bind app]. rewrite fm_flat_map_single.
  rewrite (foldM_append _ (fun x : lfeat =>
             [zlen (filter (fun l => list_existsb_eq (name (fst x)) l)
                           (map (fun c => ctc_features (c_ast c)) (ctcs m)))])).
  2:{ intros s x _. unfold py_FeatureModel_get_constraints.
      rewrite <- (map_map (fun c => ctc_features (c_ast c)) (map DStr)).
      rewrite sm_cpf_count. reflexivity. }
  cbn [bind app]. rewrite fm_flat_map_single.
  unfold cpf, feats. rewrite <- loc_features_erase, map_map. reflexivity.
Qed.

Lemma src_metrics_ancestors : forall fuel self f anc, (List.length anc < fuel)%nat ->
  py_FMMetrics_get_feature_ancestors fuel self (f, anc) = Ok (loc_ancestors anc).
Proof.
  intros fuel self f anc Hfuel. unfold py_FMMetrics_get_feature_ancestors, py_Feature_get_parent.
  cbn zeta.
  rewrite (whileM_ancestors _ (fun acc s => eq_refl) (fun acc => eq_refl) anc [] fuel f Hfuel).
  cbn [bind app]. reflexivity.
Qed.

Definition leafL (x : lfeat) : bool := feat_is_leaf (fst x).
Definition depths (m : fm) : list Z := map depth_of (filter leafL (loc_features m)).

Lemma src_depths : forall fuel self m, NoDup (names (root m)) -> (fsize (root m) <= fuel)%nat ->
  py_flat_mapM (fun n => bind (bind (bind (py_dict_get String.eqb (keyed (loc_features m)) n)
                                          (fun v => py_FMMetrics_get_feature_ancestors fuel self v))
                                    (fun v => Ok (py_len v)))
                              (fun v => Ok [v]))
               (map nm (filter leafL (loc_features m)))
  = Ok (depths m).
Proof.
  intros fuel self m Hnd Hfuel. rewrite sm_py_flat_mapM_map.
  rewrite (py_flat_mapM_ok _ (fun x => [depth_of x])).
  - rewrite fm_flat_map_single. reflexivity.
  - intros x Hx. apply filter_In in Hx. destruct Hx as [Hx _].
    rewrite sm_dict_get_keyed; [|apply sm_nodup_nm; exact Hnd|exact Hx].
    cbn [bind]. destruct x as [f anc].
    rewrite src_metrics_ancestors.
    + cbn [bind]. unfold py_len, depth_of. rewrite loc_ancestors_length. reflexivity.
    + pose proof (loc_features_depth_bound m (f, anc) Hx) as Hb. cbn [snd] in Hb. lia.
Qed.

Definition absL (x : lfeat) : bool := is_abstract_truthy (fst x).
Definition concL (x : lfeat) : bool := negb (is_abstract_truthy (fst x)).

Definition prep_state (m : fm) (st : py_FMMetrics_state) : py_FMMetrics_state :=
  {| FMMetrics_model := Some m;
     FMMetrics_result := FMMetrics_result st;
     FMMetrics__model_type_extension := FMMetrics__model_type_extension st;
     FMMetrics__features := loc_features m;
     FMMetrics__features_by_name := keyed (loc_features m);
     FMMetrics__abstract_features := keyed (filter absL (loc_features m));
     FMMetrics__concrete_features := keyed (filter concL (loc_features m));
     FMMetrics__leaf_features := map nm (filter leafL (loc_features m));
     FMMetrics__constraints_per_features := cpf m;
     FMMetrics__feature_ancestors := depths m;
     FMMetrics_filter := FMMetrics_filter st |}.

Lemma sm_abs_filter m :
  forall x, In x (loc_features m) -> aval_truthy (f_abstract (info (fst x))) = absL x.
Proof. intros x _. unfold absL. apply sm_abstract_truthy. Qed.

Lemma sm_dict_by_name m : NoDup (names (root m)) ->
  py_dict_of_pairs String.eqb (flat_map (fun f => [(name (fst f), f)]) (loc_features m)) = keyed (loc_features m).
Proof.
  intros Hnd. rewrite fm_flat_map_single. fold (keyed (loc_features m)).
  apply sm_dict_of_pairs_nodup. rewrite sm_map_fst_keyed. apply sm_nodup_nm. exact Hnd.
Qed.

Lemma sm_dict_sel m (q p : lfeat -> bool) : NoDup (names (root m)) ->
  (forall x, In x (loc_features m) -> q x = p x) ->
  py_dict_of_pairs String.eqb (flat_map (fun f => if q f then [(name (fst f), f)] else []) (loc_features m))
  = keyed (filter p (loc_features m)).
Proof.
  intros Hnd Hq. rewrite (sm_flat_map_sel q (fun f => (name (fst f), f))).
  rewrite (sm_filter_ext_in q p _ Hq). fold (keyed (filter p (loc_features m))).
  apply sm_dict_of_pairs_nodup. rewrite sm_map_fst_keyed.
  apply sm_NoDup_map_filter. apply sm_nodup_nm. exact Hnd.
Qed.

Lemma sm_dict_sel_neg m (q p : lfeat -> bool) : NoDup (names (root m)) ->
  (forall x, In x (loc_features m) -> q x = p x) ->
  py_dict_of_pairs String.eqb (flat_map (fun f => if q f then [] else [(name (fst f), f)]) (loc_features m))
  = keyed (filter (fun x => negb (p x)) (loc_features m)).
Proof.
  intros Hnd Hq.
  rewrite <- (sm_dict_sel m (fun x => negb (q x)) (fun x => negb (p x)) Hnd).
  - f_equal. apply sm_flat_map_ext. intros x. destruct (q x); reflexivity.
  - intros x Hx. rewrite (Hq x Hx). reflexivity.
Qed.

Lemma sm_leaf_names_sel (l : list lfeat) :
  flat_map (fun f => if Z.eqb (py_len (py_Feature_get_relations f)) 0%Z then [name (fst f)] else []) l
  = map nm (filter leafL l).
Proof.
  induction l as [|x xs IH]; cbn [flat_map filter map]; [reflexivity|].
  rewrite leaf_test_inline. unfold leafL at 1.
  destruct (feat_is_leaf (fst x)); cbn [app map]; rewrite IH; reflexivity.
Qed.

Definition prep_fuel (m : fm) : nat := fuel_tree (root m) + fuel_ctcs (ctcs m).

Lemma src_prepare : forall fuel st m,
  NoDup (names (root m)) -> (prep_fuel m <= fuel)%nat ->
  py_FMMetrics__prepare fuel st m = Ok (prep_state m st).
Proof.
  intros fuel st m Hnd Hfuel. unfold prep_fuel, fuel_tree in Hfuel.
  unfold py_FMMetrics__prepare.
  cbn [py_need bind FMMetrics_model FMMetrics_result FMMetrics__model_type_extension FMMetrics__features
       FMMetrics__features_by_name FMMetrics__abstract_features FMMetrics__concrete_features
       FMMetrics__leaf_features FMMetrics__constraints_per_features FMMetrics__feature_ancestors
       FMMetrics_filter].
  rewrite src_get_features; [|unfold fuel_tree; lia].
  cbn [py_need bind FMMetrics_model FMMetrics_result FMMetrics__model_type_extension FMMetrics__features
       FMMetrics__features_by_name FMMetrics__abstract_features FMMetrics__concrete_features
       FMMetrics__leaf_features FMMetrics__constraints_per_features FMMetrics__feature_ancestors
       FMMetrics_filter].
  rewrite src_cpf; [|lia].
  cbn [py_need bind FMMetrics_model FMMetrics_result FMMetrics__model_type_extension FMMetrics__features
       FMMetrics__features_by_name FMMetrics__abstract_features FMMetrics__concrete_features
       FMMetrics__leaf_features FMMetrics__constraints_per_features FMMetrics__feature_ancestors
       FMMetrics_filter].
  rewrite (sm_dict_by_name m Hnd).
  pose proof (sm_dict_sel m _ absL Hnd (sm_abs_filter m)) as Ha.
  pose proof (sm_dict_sel_neg m _ absL Hnd (sm_abs_filter m)) as Hc.
  pose proof (sm_leaf_names_sel (loc_features m)) as Hl.
  unfold lfeat in Ha, Hc, Hl |- *. rewrite Ha, Hc, Hl. fold lfeat.
  rewrite src_depths; [|exact Hnd|lia].
  cbn [bind]. reflexivity.
Qed.

(* ================================================================== the metric methods on the prepared state *)
Ltac proj_cbn :=
  cbn [FMMetrics_model FMMetrics_result FMMetrics__model_type_extension FMMetrics__features
       FMMetrics__features_by_name FMMetrics__abstract_features FMMetrics__concrete_features
       FMMetrics__leaf_features FMMetrics__constraints_per_features FMMetrics__feature_ancestors
       FMMetrics_filter prep_state].
Ltac metric_eval :=
  unfold metric; lazy beta iota zeta delta [String.eqb Ascii.eqb Bool.eqb andb]; cbn [rmap].

Lemma sm_listing : forall meth n (l l' : list string) (nb : Z) (b' : list string) parent level,
  l = l' -> nb = zlen b' ->
  {| pm_name := n; pm_result := PMNames l; pm_size := Some (py_len l);
     pm_ratio := Some (py_get_ratio (py_len l) nb 4); pm_parent := Some parent; pm_level := level |}
  = conv (listing meth n l' b' parent level).
Proof. intros; subst; reflexivity. Qed.

Lemma sm_pylen_loc m : py_len (loc_features m) = zlen (fnames m).
Proof. unfold py_len, zlen. rewrite sm_len_loc. reflexivity. Qed.

Lemma sm_compound_test (x : lfeat) :
  (0 <? py_len (py_Feature_get_relations x))%Z = negb (feat_is_leaf (fst x)).
Proof.
  unfold py_Feature_get_relations, py_len, feat_is_leaf. rewrite lf_relations_length.
  destruct (List.length (rels (fst x))); reflexivity.
Qed.

Lemma sm_abstract_names m : map fst (keyed (filter absL (loc_features m))) = abstract_names m.
Proof.
  unfold absL. rewrite (sm_keyed_names is_abstract_truthy), loc_features_erase. reflexivity.
Qed.

Lemma sm_concrete_names m : map fst (keyed (filter concL (loc_features m))) = concrete_names m.
Proof.
  unfold concL. rewrite (sm_keyed_names (fun f => negb (is_abstract_truthy f))), loc_features_erase.
  reflexivity.
Qed.

Section Methods.
  Variable m : fm.
  Variable st : py_FMMetrics_state.
  Let S := prep_state m st.

  Lemma src_m_features : Ok (py_FMMetrics_features S) = rmap conv (metric m "features").
  Proof.
    metric_eval. f_equal. unfold py_FMMetrics_features, S. proj_cbn.
    rewrite sm_map_fst_keyed, sm_nm_loc. reflexivity.
  Qed.

  Lemma src_m_abstract_features : Ok (py_FMMetrics_abstract_features S) = rmap conv (metric m "abstract_features").
  Proof.
    metric_eval. f_equal. unfold py_FMMetrics_abstract_features, S. proj_cbn.
    apply sm_listing; [apply sm_abstract_names | apply sm_pylen_loc].
  Qed.

  Lemma src_m_concrete_features : Ok (py_FMMetrics_concrete_features S) = rmap conv (metric m "concrete_features").
  Proof.
    metric_eval. f_equal. unfold py_FMMetrics_concrete_features, S. proj_cbn.
    apply sm_listing; [apply sm_concrete_names | apply sm_pylen_loc].
  Qed.

  Lemma src_m_abstract_compound_features :
    Ok (py_FMMetrics_abstract_compound_features S) = rmap conv (metric m "abstract_compound_features").
  Proof.
    metric_eval. f_equal. unfold py_FMMetrics_abstract_compound_features, S. proj_cbn.
    apply sm_listing.
    - unfold absL.
      rewrite (sm_sel_keyed _ is_abstract_truthy (fun f => negb (feat_is_leaf f)) _ sm_compound_test).
      rewrite loc_features_erase. reflexivity.
    - rewrite sm_abstract_names. reflexivity.
  Qed.

  Lemma src_m_abstract_leaf_features :
    Ok (py_FMMetrics_abstract_leaf_features S) = rmap conv (metric m "abstract_leaf_features").
  Proof.
    metric_eval. f_equal. unfold py_FMMetrics_abstract_leaf_features, S. proj_cbn.
    apply sm_listing.
    - unfold absL.
      rewrite (sm_sel_keyed _ is_abstract_truthy feat_is_leaf _ leaf_test_inline).
      rewrite loc_features_erase. reflexivity.
    - rewrite sm_abstract_names. reflexivity.
  Qed.

  Lemma src_m_concrete_compound_features :
    Ok (py_FMMetrics_concrete_compound_features S) = rmap conv (metric m "concrete_compound_features").
  Proof.
    metric_eval. f_equal. unfold py_FMMetrics_concrete_compound_features, py_FMMetrics_concrete_features, S.
    proj_cbn. cbn [py_metric_names pm_result].
    apply sm_listing.
    - unfold concL.
      rewrite (sm_sel_keyed _ (fun f => negb (is_abstract_truthy f)) (fun f => negb (feat_is_leaf f)) _ sm_compound_test).
      rewrite loc_features_erase. reflexivity.
    - rewrite sm_concrete_names. reflexivity.
  Qed.

  Lemma src_m_concrete_leaf_features :
    Ok (py_FMMetrics_concrete_leaf_features S) = rmap conv (metric m "concrete_leaf_features").
  Proof.
    metric_eval. f_equal. unfold py_FMMetrics_concrete_leaf_features, py_FMMetrics_concrete_features, S.
    proj_cbn. cbn [py_metric_names pm_result].
    apply sm_listing.
    - unfold concL.
      rewrite (sm_sel_keyed _ (fun f => negb (is_abstract_truthy f)) feat_is_leaf _ leaf_test_inline).
      rewrite loc_features_erase. reflexivity.
    - rewrite sm_concrete_names. reflexivity.
  Qed.
End Methods.

(* ------------------------------------------------------------------ more listing helpers *)
Lemma sm_leaf_names m : map nm (filter leafL (loc_features m)) = leaf_names_ m.
Proof.
  unfold leafL. rewrite sm_map_nm, (map_fst_filter_loc feat_is_leaf), loc_features_erase. reflexivity.
Qed.

Lemma sm_group_names m :
  flat_map (fun f => if py_FMMetrics__is_group_feature f then [name (fst f)] else []) (loc_features m)
  = group_names m.
Proof. rewrite (sm_sel_names _ is_group_feature _ sm_is_group_feature), loc_features_erase. reflexivity. Qed.

Lemma sm_sel_ctx (F : lfeat -> list string) (P : option feature * feature -> bool) m :
  (forall f anc, F (f, anc) = if P (hd_error anc, f) then [name f] else []) ->
  flat_map F (loc_features m) = map (fun x => name (snd x)) (filter P (fctx m)).
Proof.
  intros H. unfold fctx. rewrite <- loc_features_ctx, fm_filter_map, map_map. cbn [snd].
  rewrite <- (sm_flat_map_sel (fun x : lfeat => P (hd_error (snd x), fst x)) (fun x => name (fst x))).
  apply sm_flat_map_ext. intros [f anc]. rewrite H. reflexivity.
Qed.

Lemma sm_grouped_names m :
  flat_map (fun f => if py_Feature_is_root f then []
                     else match lf_parent f with
                          | Some _ => if py_FMMetrics__is_grouped f then [name (fst f)] else []
                          | None => []
                          end) (loc_features m)
  = grouped_names m.
Proof.
  unfold grouped_names. apply sm_sel_ctx. intros f anc.
  rewrite src_feat_is_root, sm_is_grouped. cbn [fst snd].
  destruct anc as [|p a]; cbn [hd_error feat_is_root negb andb lf_parent snd]; reflexivity.
Qed.

Lemma sm_solitary_names m :
  flat_map (fun f => if py_Feature_is_root f then []
                     else match lf_parent f with
                          | Some _ => if py_FMMetrics__is_grouped f then [] else [name (fst f)]
                          | None => []
                          end) (loc_features m)
  = solitary_names m.
Proof.
  unfold solitary_names. apply sm_sel_ctx. intros f anc.
  rewrite src_feat_is_root, sm_is_grouped. cbn [fst snd].
  destruct anc as [|p a]; cbn [hd_error feat_is_root negb andb lf_parent snd]; [reflexivity|].
  destruct (feat_is_grouped (Some p) f); reflexivity.
Qed.

Lemma sm_nch_list (l : list lfeat) :
  flat_map (fun f => [py_sum (flat_map (fun r => [py_len (lr_children r)]) (py_Feature_get_relations f))]) l
  = map (nchildren_of) (map fst l).
Proof.
  rewrite fm_flat_map_single, map_map. apply map_ext. intros x. apply nch_loc.
Qed.

Lemma sm_nch_nonleaf (l : list lfeat) :
  flat_map (fun f => if py_Feature_is_leaf f then []
                     else [py_sum (flat_map (fun r => [py_len (lr_children r)]) (py_Feature_get_relations f))]) l
  = map nchildren_of (filter (fun f => negb (feat_is_leaf f)) (map fst l)).
Proof.
  induction l as [|x xs IH]; cbn [flat_map map filter]; [reflexivity|].
  rewrite src_feat_is_leaf, nch_loc, IH.
  destruct (feat_is_leaf (fst x)); reflexivity.
Qed.

Lemma sm_py_sum_app l1 l2 : py_sum (l1 ++ l2) = (py_sum l1 + py_sum l2)%Z.
Proof. apply zsum_app. Qed.

Lemma sm_nch_total (l : list lfeat) :
  py_sum (flat_map (fun f => flat_map (fun r => [py_len (lr_children r)]) (py_Feature_get_relations f)) l)
  = zsum (map nchildren_of (map fst l)).
Proof.
  induction l as [|x xs IH]; cbn [flat_map map]; [reflexivity|].
  rewrite sm_py_sum_app, nch_loc, IH. reflexivity.
Qed.

Lemma sm_loc_cons m : loc_features m = fm_root_l m :: flat_map lr_children (loc_relations m).
Proof. reflexivity. Qed.

Lemma sm_pylen_loc_nz m : (py_len (loc_features m) =? 0)%Z = false.
Proof. rewrite sm_loc_cons. unfold py_len. cbn [List.length]. apply Z.eqb_neq. lia. Qed.

Lemma sm_py_max_ne (l : list Z) : l <> [] -> py_max l = Ok (zmax_list l 0).
Proof. destruct l; [congruence | reflexivity]. Qed.

Lemma sm_py_min_ne (l : list Z) : l <> [] -> py_min l = Ok (zmin_list l 0).
Proof. destruct l; [congruence | reflexivity]. Qed.

Lemma sm_stat_mean_ne (l : list Z) : l <> [] -> py_stat_mean l = Ok (py_sum l, py_len l).
Proof. destruct l; [congruence | reflexivity]. Qed.

Lemma sm_round_mean (l : list Z) : py_round_mean (py_sum l, py_len l) = mean_hund l.
Proof. reflexivity. Qed.

Lemma sm_cpf_ne m : cpf m <> [].
Proof. unfold cpf, feats, get_features. cbn [map]. discriminate. Qed.

Lemma sm_feats_ne m : map nchildren_of (map fst (loc_features m)) <> [].
Proof. rewrite sm_loc_cons. cbn [map]. discriminate. Qed.

(* ------------------------------------------------------------------ sorting integers *)
Definition zins := insert (fun z : Z => z) Z.ltb.

Lemma sm_zins_comm x y l : zins x (zins y l) = zins y (zins x l).
Proof.
  unfold zins. induction l as [|a l IH]; cbn [insert].
  - destruct (Z.ltb_spec x y), (Z.ltb_spec y x); try lia; try reflexivity.
    assert (x = y) by lia. subst. reflexivity.
  - destruct (Z.ltb_spec y a) as [Hya|Hya], (Z.ltb_spec x a) as [Hxa|Hxa]; cbn [insert].
    + destruct (Z.ltb_spec x y), (Z.ltb_spec y x); try lia;
        rewrite ?(proj2 (Z.ltb_lt _ _) Hya), ?(proj2 (Z.ltb_lt _ _) Hxa); try reflexivity.
      assert (x = y) by lia. subst. reflexivity.
    + destruct (Z.ltb_spec x y); try lia.
      rewrite (proj2 (Z.ltb_lt _ _) Hya). destruct (Z.ltb_spec x a); try lia. reflexivity.
    + destruct (Z.ltb_spec y x); try lia.
      rewrite (proj2 (Z.ltb_lt _ _) Hxa). destruct (Z.ltb_spec y a); try lia. reflexivity.
    + destruct (Z.ltb_spec x a); try lia. destruct (Z.ltb_spec y a); try lia.
      rewrite IH. reflexivity.
Qed.

Lemma sm_fold_zins_perm r r' : Permutation r r' -> fold_right zins [] r = fold_right zins [] r'.
Proof.
  induction 1 as [|x l l' _ IH|x y l|l l' l'' _ IH1 _ IH2]; cbn [fold_right].
  - reflexivity.
  - rewrite IH. reflexivity.
  - apply sm_zins_comm.
  - rewrite IH1. exact IH2.
Qed.

Lemma sm_zsort_perm l l' : Permutation l l' -> zsort l = zsort l'.
Proof.
  intros HP. unfold zsort, sort_by. fold zins.
  change (fold_left (fun acc x => zins x acc) l [] = fold_left (fun acc x => zins x acc) l' []).
  rewrite <- !fold_left_rev_right. apply sm_fold_zins_perm.
  eapply perm_trans; [apply Permutation_sym, Permutation_rev|].
  eapply perm_trans; [exact HP|apply Permutation_rev].
Qed.

Lemma sm_py_insert_zins x l : py_insert_lt Z.ltb x l = zins x l.
Proof.
  unfold zins. induction l as [|y ys IH]; cbn [py_insert_lt insert]; [reflexivity|].
  rewrite IH. reflexivity.
Qed.

Lemma sm_py_sorted l : py_sorted_lt Z.ltb l = zsort l.
Proof.
  unfold py_sorted_lt, zsort, sort_by. fold zins. generalize (@nil Z) as acc.
  induction l as [|x xs IH]; intros acc; cbn [fold_left]; [reflexivity|].
  rewrite sm_py_insert_zins. apply IH.
Qed.

Lemma sm_py_sorted_perm l l' : Permutation l l' -> py_sorted_lt Z.ltb l = zsort l'.
Proof.
  intros H. rewrite sm_py_sorted. apply sm_zsort_perm. exact H.
Qed.

Lemma sm_median l l' : l <> [] -> Permutation l l' ->
  exists v, py_stat_median l = Ok v /\ (50 * v)%Z = median_hund l'.
Proof.
  intros Hne Hp. destruct l as [|a l0]; [congruence|].
  cbn [py_stat_median]. rewrite (sm_py_sorted_perm _ _ Hp). unfold median_hund. cbn zeta.
  eexists. split; [reflexivity|].
  destruct (Nat.even (List.length (zsort l'))); lia.
Qed.

(* ------------------------------------------------------------------ the depths of the leaves *)
Lemma sm_depths_perm m : Permutation (depths m) (leaf_depths m).
Proof.
  unfold depths, leaf_depths.
  change (Permutation (map depth_of (filter leafL (loc_features m)))
                      (map depth_of (filter leafL (ancestors_table m)))).
  apply Permutation_map, filter_perm, loc_features_perm.
Qed.

Lemma sm_leaf_depths_ne m : rels_nonempty (root m) -> leaf_depths m <> [].
Proof.
  intros Hne. destruct (exists_leaf (root m) Hne) as (l & Hin & Hleaf).
  rewrite <- ancestors_features in Hin. apply in_map_iff in Hin. destruct Hin as (x & Hx & Hin).
  unfold leaf_depths. intros Hnil.
  assert (Hin' : In x (filter (fun fa => feat_is_leaf (fst fa)) (ancestors_table m))).
  { apply filter_In. split; [exact Hin|]. rewrite Hx. exact Hleaf. }
  apply (in_map (fun fa => zlen (snd fa))) in Hin'. rewrite Hnil in Hin'. destruct Hin'.
Qed.

Lemma sm_depths_ne m : rels_nonempty (root m) -> depths m <> [].
Proof.
  intros Hne Hnil. apply (sm_leaf_depths_ne m Hne).
  apply Permutation_nil. rewrite <- Hnil. apply sm_depths_perm.
Qed.

Lemma sm_leaf_depths_nonneg m : Forall (fun z => (0 <= z)%Z) (leaf_depths m).
Proof.
  unfold leaf_depths. apply Forall_forall. intros z Hz. apply in_map_iff in Hz.
  destruct Hz as (x & Hx & _). subst. unfold zlen. lia.
Qed.

Lemma sm_depths_nonneg m : Forall (fun z => (0 <= z)%Z) (depths m).
Proof.
  unfold depths. apply Forall_forall. intros z Hz. apply in_map_iff in Hz.
  destruct Hz as (x & Hx & _). subst. unfold depth_of. lia.
Qed.

Lemma sm_max_depths m : rels_nonempty (root m) -> py_max (depths m) = Ok (zmax_list (leaf_depths m) 0).
Proof.
  intros Hne. rewrite (py_max_nonneg _ (sm_depths_ne m Hne) (sm_depths_nonneg m)).
  rewrite (zmax_list_fold_right _ (sm_leaf_depths_nonneg m)).
  rewrite (zmaxfold_perm _ _ (sm_depths_perm m)). reflexivity.
Qed.

Section Methods2.
  Variable m : fm.
  Variable st : py_FMMetrics_state.
  Let S := prep_state m st.

  Lemma src_m_leaf_features : Ok (py_FMMetrics_leaf_features S) = rmap conv (metric m "leaf_features").
  Proof.
    metric_eval. f_equal. unfold py_FMMetrics_leaf_features, S. proj_cbn.
    apply sm_listing; [apply sm_leaf_names | apply sm_pylen_loc].
  Qed.

  Lemma src_m_compound_features : Ok (py_FMMetrics_compound_features S) = rmap conv (metric m "compound_features").
  Proof.
    metric_eval. f_equal. unfold py_FMMetrics_compound_features, S. proj_cbn.
    apply sm_listing; [|apply sm_pylen_loc].
    rewrite (sm_sel_names _ (fun f => negb (feat_is_leaf f)) _ sm_compound_test), loc_features_erase.
    reflexivity.
  Qed.

  Lemma src_m_cardinality_groups : Ok (py_FMMetrics_cardinality_groups S) = rmap conv (metric m "cardinality_groups").
  Proof.
    metric_eval. f_equal. unfold py_FMMetrics_cardinality_groups, S. proj_cbn.
    apply sm_listing; [|rewrite sm_group_names; reflexivity].
    rewrite (sm_sel_names _ feat_is_cardinality_group _ src_feat_is_cardinality_group), loc_features_erase.
    reflexivity.
  Qed.

  Lemma src_m_mutex_groups : Ok (py_FMMetrics_mutex_groups S) = rmap conv (metric m "mutex_groups").
  Proof.
    metric_eval. f_equal. unfold py_FMMetrics_mutex_groups, S. proj_cbn.
    apply sm_listing; [|rewrite sm_group_names; reflexivity].
    rewrite (sm_sel_names _ feat_is_mutex_group _ src_feat_is_mutex_group), loc_features_erase.
    reflexivity.
  Qed.

  Lemma src_m_grouped_features : Ok (py_FMMetrics_grouped_features S) = rmap conv (metric m "grouped_features").
  Proof.
    metric_eval. f_equal. unfold py_FMMetrics_grouped_features, S. proj_cbn.
    apply sm_listing; [apply sm_grouped_names | apply sm_pylen_loc].
  Qed.

  Lemma sm_solitary_eq :
    py_FMMetrics_solitary_features S
    = Ok (conv (listing "solitary_features" "Solitary features" (solitary_names m) (fnames m) "Features" 1)).
  Proof.
    unfold py_FMMetrics_solitary_features, S. proj_cbn. f_equal.
    apply sm_listing; [apply sm_solitary_names | apply sm_pylen_loc].
  Qed.

  Lemma src_m_solitary_features : py_FMMetrics_solitary_features S = rmap conv (metric m "solitary_features").
  Proof. rewrite sm_solitary_eq. metric_eval. reflexivity. Qed.

  Lemma src_m_min_children_per_feature :
    Ok (py_FMMetrics_min_children_per_feature S) = rmap conv (metric m "min_children_per_feature").
  Proof.
    metric_eval. f_equal. unfold py_FMMetrics_min_children_per_feature, S. proj_cbn.
    rewrite sm_nch_nonleaf, loc_features_erase. reflexivity.
  Qed.

  Lemma src_m_max_children_per_feature :
    py_FMMetrics_max_children_per_feature S = rmap conv (metric m "max_children_per_feature").
  Proof.
    metric_eval. unfold py_FMMetrics_max_children_per_feature, S. proj_cbn.
    rewrite sm_nch_list, (sm_py_max_ne _ (sm_feats_ne m)), loc_features_erase. reflexivity.
  Qed.

  Lemma src_m_avg_children_per_feature :
    py_FMMetrics_avg_children_per_feature S = rmap conv (metric m "avg_children_per_feature").
  Proof.
    metric_eval. unfold py_FMMetrics_avg_children_per_feature, S. proj_cbn.
    rewrite sm_nch_total, loc_features_erase. unfold py_round_div.
    rewrite sm_pylen_loc_nz. cbn [bind]. f_equal. unfold mk, conv.
    cbn [me_name me_result me_size me_ratio me_parent me_level conv_res]. f_equal. f_equal.
    fold (feats m).
    replace (py_len (loc_features m)) with (zlen (feats m)).
    2:{ unfold zlen, py_len, feats. rewrite <- loc_features_erase, map_length. reflexivity. }
    destruct (zsum (map (nchildren_of) (feats m)) =? 0)%Z eqn:E; [|reflexivity].
    apply Z.eqb_eq in E. rewrite E. apply pyround_div_zero.
  Qed.

  Lemma src_m_avg_constraints_per_feature :
    py_FMMetrics_avg_constraints_per_feature S = rmap conv (metric m "avg_constraints_per_feature").
  Proof.
    metric_eval. unfold py_FMMetrics_avg_constraints_per_feature, S. proj_cbn.
    rewrite (sm_stat_mean_ne _ (sm_cpf_ne m)). cbn [bind]. rewrite sm_round_mean. reflexivity.
  Qed.

  Lemma src_m_max_constraints_per_feature :
    py_FMMetrics_max_constraints_per_feature S = rmap conv (metric m "max_constraints_per_feature").
  Proof.
    metric_eval. unfold py_FMMetrics_max_constraints_per_feature, S. proj_cbn.
    rewrite (sm_py_max_ne _ (sm_cpf_ne m)). reflexivity.
  Qed.

  Lemma src_m_min_constraints_per_feature :
    py_FMMetrics_min_constraints_per_feature S = rmap conv (metric m "min_constraints_per_feature").
  Proof.
    metric_eval. unfold py_FMMetrics_min_constraints_per_feature, S. proj_cbn.
    rewrite (sm_py_min_ne _ (sm_cpf_ne m)). reflexivity.
  Qed.

  Hypothesis Hne : rels_nonempty (root m).

  Lemma src_m_depth_tree : py_FMMetrics_depth_tree S = rmap conv (metric m "depth_tree").
  Proof.
    metric_eval. unfold py_FMMetrics_depth_tree, S. proj_cbn.
    rewrite (sm_max_depths m Hne). reflexivity.
  Qed.

  Lemma src_m_max_depth_tree : py_FMMetrics_max_depth_tree S = rmap conv (metric m "max_depth_tree").
  Proof.
    metric_eval. unfold py_FMMetrics_max_depth_tree, S. proj_cbn.
    rewrite (sm_max_depths m Hne). reflexivity.
  Qed.

  Lemma src_m_mean_depth_tree : py_FMMetrics_mean_depth_tree S = rmap conv (metric m "mean_depth_tree").
  Proof.
    metric_eval. unfold py_FMMetrics_mean_depth_tree, S. proj_cbn.
    rewrite (sm_stat_mean_ne _ (sm_depths_ne m Hne)). cbn [bind]. rewrite sm_round_mean.
    unfold mean_hund, zlen.
    rewrite (zsum_perm _ _ (sm_depths_perm m)), (Permutation_length (sm_depths_perm m)). reflexivity.
  Qed.

  Lemma src_m_median_depth_tree : py_FMMetrics_median_depth_tree S = rmap conv (metric m "median_depth_tree").
  Proof.
    metric_eval. unfold py_FMMetrics_median_depth_tree, S. proj_cbn.
    destruct (sm_median _ _ (sm_depths_ne m Hne) (sm_depths_perm m)) as (v & Hv & Hm).
    rewrite Hv. cbn [bind]. rewrite Hm. reflexivity.
  Qed.
End Methods2.

(* ------------------------------------------------------------------ constraint listings *)
Lemma sm_fidx_range {A} (p : A -> result bool) : forall l i r,
  fidx p i l = Ok r -> Forall (fun j => (i <= j < i + List.length l)%nat) r.
Proof.
  induction l as [|x xs IH]; intros i r H.
  - cbn in H. injection H as H. subst. constructor.
  - rewrite fidx_cons in H. destruct (p x) as [b|e]; [|discriminate].
    destruct (fidx p (Datatypes.S i) xs) as [r'|e] eqn:E; [|discriminate].
    injection H as H. subst.
    specialize (IH _ _ E). cbn [List.length].
    assert (Hr' : Forall (fun j => (i <= j < i + Datatypes.S (List.length xs))%nat) r').
    { eapply Forall_impl; [|exact IH]. cbn beta. intros j Hj. lia. }
    destruct b; [constructor; [lia|exact Hr'] | exact Hr'].
Qed.

Definition idx_ok (m : fm) (idx : list nat) : Prop := Forall (fun j => (j < List.length (ctcs m))%nat) idx.

Lemma sm_listing_range p m li : ctc_listing p m = Ok li -> idx_ok m li.
Proof.
  unfold ctc_listing. rewrite filterM_idx_fidx. intros H. apply sm_fidx_range in H.
  unfold idx_ok. eapply Forall_impl; [|exact H]. cbn beta. intros j Hj. lia.
Qed.

Lemma sm_all_idx_range m bi : all_ctc_idx m = Ok bi -> idx_ok m bi.
Proof.
  unfold all_ctc_idx. intros H. injection H as H. subst. unfold idx_ok.
  apply Forall_forall. intros j Hj. apply in_seq in Hj. lia.
Qed.

Lemma sm_pick_strs m idx : idx_ok m idx ->
  flat_map (fun c => [py_Constraint___str__ c]) (pick (ctcs m) idx) = ctc_strs m idx.
Proof.
  unfold idx_ok, pick, ctc_strs. induction 1 as [|i idx Hi _ IH]; cbn [flat_map map]; [reflexivity|].
  destruct (nth_error (ctcs m) i) as [c|] eqn:E.
  - rewrite flat_map_app. cbn [flat_map app]. rewrite src_ctc_str, IH. reflexivity.
  - apply nth_error_None in E. lia.
Qed.

Lemma sm_pick_len m idx : idx_ok m idx ->
  py_len (pick (ctcs m) idx) = zlen (map (fun _ => ""%string) idx).
Proof.
  unfold idx_ok, pick, py_len, zlen. intros H. f_equal. rewrite map_length.
  induction H as [|i idx Hi _ IH]; cbn [flat_map List.length]; [reflexivity|].
  destruct (nth_error (ctcs m) i) as [c|] eqn:E.
  - cbn [app List.length]. rewrite IH. reflexivity.
  - apply nth_error_None in E. lia.
Qed.

Lemma sm_all_len m : py_len (ctcs m) = zlen (map (fun _ => ""%string) (seq 0 (List.length (ctcs m)))).
Proof. unfold py_len, zlen. rewrite map_length, seq_length. reflexivity. Qed.

(* a listing against all the constraints (simple, complex) *)
Lemma sm_ctc_entry_all m meth n (pl : result (list ctc)) (li : result (list nat)) parent level
      (k : list string -> result py_metric) :
  pl = rmap (pick (ctcs m)) li ->
  (forall l, li = Ok l -> idx_ok m l) ->
  (forall l, k l = Ok {| pm_name := n; pm_result := PMNames l; pm_size := Some (py_len l);
                         pm_ratio := Some (py_get_ratio (py_len l) (py_len (ctcs m)) 4);
                         pm_parent := Some parent; pm_level := level |}) ->
  bind (bind pl (fun v => Ok (flat_map (fun c => [py_Constraint___str__ c]) v))) k
  = rmap conv (ctc_listing_entry m meth n li (all_ctc_idx m) parent level).
Proof.
  intros Hpl Hli Hk. subst pl. destruct li as [l|e]; cbn [rmap bind ctc_listing_entry all_ctc_idx]; [|reflexivity].
  rewrite Hk. f_equal. apply sm_listing; [apply sm_pick_strs; apply Hli; reflexivity | apply sm_all_len].
Qed.

(* a listing against another listing (requires / excludes in simple, pseudo / strict in complex) *)
Lemma sm_ctc_entry_in m meth n (pl pb : result (list ctc)) (li bi : result (list nat)) parent level
      (k : list string -> result py_metric) :
  pl = rmap (pick (ctcs m)) li -> pb = rmap (pick (ctcs m)) bi ->
  (forall l, li = Ok l -> idx_ok m l) -> (forall l, bi = Ok l -> idx_ok m l) ->
  (forall l, k l = bind pb (fun vb =>
                 Ok {| pm_name := n; pm_result := PMNames l; pm_size := Some (py_len l);
                       pm_ratio := Some (py_get_ratio (py_len l) (py_len vb) 4);
                       pm_parent := Some parent; pm_level := level |})) ->
  bind (bind pl (fun v => Ok (flat_map (fun c => [py_Constraint___str__ c]) v))) k
  = rmap conv (ctc_listing_entry m meth n li bi parent level).
Proof.
  intros Hpl Hpb Hli Hbi Hk. subst pl pb.
  destruct li as [l|e]; cbn [rmap bind ctc_listing_entry]; [|reflexivity].
  rewrite Hk. destruct bi as [b|e]; cbn [rmap bind]; [|reflexivity].
  f_equal. apply sm_listing; [apply sm_pick_strs; apply Hli; reflexivity | apply sm_pick_len; apply Hbi; reflexivity].
Qed.

Lemma sm_top_names m :
  flat_map (fun r => flat_map (fun f => [name (fst f)]) (lr_children r)) (py_Feature_get_relations (fm_root_l m))
  = map name (children (root m)).
Proof.
  unfold py_Feature_get_relations, lf_relations, children. rewrite fm_flat_map_map, fm_map_flat_map.
  apply sm_flat_map_ext. intros r. rewrite fm_flat_map_single. unfold lr_children. rewrite map_map. reflexivity.
Qed.

Section Methods3.
  Variable m : fm.
  Variable st : py_FMMetrics_state.
  Let S := prep_state m st.

  Lemma src_m_cross_tree_constraints :
    py_FMMetrics_cross_tree_constraints S = rmap conv (metric m "cross_tree_constraints").
  Proof.
    metric_eval. unfold py_FMMetrics_cross_tree_constraints, S. proj_cbn.
    unfold py_FeatureModel_get_constraints. rewrite fm_flat_map_single.
    rewrite (map_ext _ _ src_ctc_str). reflexivity.
  Qed.

  Lemma src_m_root_feature : py_FMMetrics_root_feature S = rmap conv (metric m "root_feature").
  Proof.
    metric_eval. unfold py_FMMetrics_root_feature, S. proj_cbn.
    rewrite sm_pylen_loc. reflexivity.
  Qed.

  Lemma src_m_top_features : py_FMMetrics_top_features S = rmap conv (metric m "top_features").
  Proof.
    metric_eval. unfold py_FMMetrics_top_features, S. proj_cbn. f_equal.
    apply sm_listing; [apply sm_top_names | apply sm_pylen_loc].
  Qed.

  Lemma src_m_simple_constraints : py_FMMetrics_simple_constraints S = rmap conv (metric m "simple_constraints").
  Proof.
    metric_eval. unfold py_FMMetrics_simple_constraints, S. proj_cbn.
    apply sm_ctc_entry_all.
    - apply src_get_simple_constraints.
    - intros l Hl. eapply sm_listing_range. exact Hl.
    - intros l. reflexivity.
  Qed.

  Lemma src_m_complex_constraints : py_FMMetrics_complex_constraints S = rmap conv (metric m "complex_constraints").
  Proof.
    metric_eval. unfold py_FMMetrics_complex_constraints, S. proj_cbn.
    apply sm_ctc_entry_all.
    - apply src_get_complex_constraints.
    - intros l Hl. eapply sm_listing_range. exact Hl.
    - intros l. reflexivity.
  Qed.

  Lemma src_m_requires_constraints : py_FMMetrics_requires_constraints S = rmap conv (metric m "requires_constraints").
  Proof.
    metric_eval. unfold py_FMMetrics_requires_constraints, S. proj_cbn.
    apply (sm_ctc_entry_in m _ _ _ (py_FeatureModel_get_simple_constraints m)).
    - apply src_get_requires_constraints.
    - apply src_get_simple_constraints.
    - intros l Hl. eapply sm_listing_range. exact Hl.
    - intros l Hl. eapply sm_listing_range. exact Hl.
    - intros l. destruct (py_FeatureModel_get_simple_constraints m); reflexivity.
  Qed.

  Lemma src_m_excludes_constraints : py_FMMetrics_excludes_constraints S = rmap conv (metric m "excludes_constraints").
  Proof.
    metric_eval. unfold py_FMMetrics_excludes_constraints, S. proj_cbn.
    apply (sm_ctc_entry_in m _ _ _ (py_FeatureModel_get_simple_constraints m)).
    - apply src_get_excludes_constraints.
    - apply src_get_simple_constraints.
    - intros l Hl. eapply sm_listing_range. exact Hl.
    - intros l Hl. eapply sm_listing_range. exact Hl.
    - intros l. destruct (py_FeatureModel_get_simple_constraints m); reflexivity.
  Qed.
End Methods3.

(* ------------------------------------------------------------------ the features mentioned in constraints *)
Definition dedup_names (l acc : list string) : list string := fold_left (fun a s => add_once s a) l acc.

Lemma sm_dedup_DStr (eqb : ndata -> ndata -> bool) :
  (forall x y, eqb x y = ndata_key_eqb x y) ->
  forall l acc,
  fold_left (fun acc x => if existsb (fun y => eqb y x) acc then acc else acc ++ [x]) (map DStr l) (map DStr acc)
  = map DStr (dedup_names l acc).
Proof.
  intros He. unfold dedup_names. induction l as [|s l IH]; intros acc; cbn [map fold_left]; [reflexivity|].
  assert (Hex : existsb (fun y => eqb y (DStr s)) (map DStr acc) = list_existsb_eq s acc).
  { rewrite fm_existsb_map. rewrite <- existsb_eqb_list_existsb_eq.
    apply fm_existsb_ext. intros y. rewrite He. reflexivity. }
  rewrite Hex. unfold add_once at 2. destruct (list_existsb_eq s acc); [apply IH|].
  change [DStr s] with (map DStr [s]). rewrite <- map_app. apply IH.
Qed.

Lemma sm_existsb_filter (P : string -> bool) x acc :
  P x = true -> list_existsb_eq x (filter P acc) = list_existsb_eq x acc.
Proof.
  intros Hx. induction acc as [|a acc IH]; cbn [filter list_existsb_eq]; [reflexivity|].
  destruct (P a) eqn:Ea; cbn [list_existsb_eq]; [rewrite IH; reflexivity|].
  destruct (String.eqb x a) eqn:E; [|exact IH].
  apply String.eqb_eq in E. subst. congruence.
Qed.

Lemma sm_dedup_filter (P : string -> bool) : forall l acc,
  dedup_names (filter P l) (filter P acc) = filter P (dedup_names l acc).
Proof.
  unfold dedup_names. induction l as [|x l IH]; intros acc; cbn [filter fold_left]; [reflexivity|].
  destruct (P x) eqn:Ex; cbn [fold_left].
  - rewrite <- IH. f_equal. unfold add_once. rewrite (sm_existsb_filter P x acc Ex).
    destruct (list_existsb_eq x acc); [reflexivity|].
    rewrite filter_app. cbn [filter]. rewrite Ex. reflexivity.
  - rewrite <- IH. f_equal. unfold add_once. destruct (list_existsb_eq x acc); [reflexivity|].
    rewrite filter_app. cbn [filter]. rewrite Ex, app_nil_r. reflexivity.
Qed.

Lemma sm_filter_flat_map {A B} (P : B -> bool) (g : A -> list B) (l : list A) :
  flat_map (fun x => filter P (g x)) l = filter P (flat_map g l).
Proof.
  induction l as [|x xs IH]; cbn [flat_map filter]; [reflexivity|].
  rewrite filter_app, IH. reflexivity.
Qed.

Lemma sm_fold_flat {A} (g : A -> list string) : forall (l : list A) acc,
  fold_left (fun acc c => fold_left (fun a s => add_once s a) (g c) acc) l acc
  = dedup_names (flat_map g l) acc.
Proof.
  unfold dedup_names. induction l as [|x xs IH]; intros acc; cbn [fold_left flat_map]; [reflexivity|].
  rewrite fold_left_app. apply IH.
Qed.

Definition in_fnames (m : fm) (s : string) : bool := list_existsb_eq s (fnames m).

Lemma sm_extra_names m :
  dedup_names (flat_map (fun c => filter (in_fnames m) (ctc_features (c_ast c))) (ctcs m)) []
  = filter (in_fnames m)
           (fold_left (fun acc c => fold_left (fun a s => add_once s a) (ctc_features (c_ast c)) acc) (ctcs m) []).
Proof.
  rewrite sm_filter_flat_map, sm_fold_flat.
  apply (sm_dedup_filter (in_fnames m) _ []).
Qed.

Lemma sm_extra_features fuel m : (fuel_ctcs (ctcs m) <= fuel)%nat ->
  py_flat_mapM (fun c => bind (py_Constraint_get_features fuel c)
     (fun v => Ok (flat_map (fun f => if match f with
                                         | DStr s => existsb (fun p : string * lfeat => String.eqb (fst p) s) (keyed (loc_features m))
                                         | _ => false
                                         end then [f] else []) v)))
     (ctcs m)
  = Ok (map DStr (flat_map (fun c => filter (in_fnames m) (ctc_features (c_ast c))) (ctcs m))).
Proof.
  intros Hfuel.
  rewrite (py_flat_mapM_ok _ (fun c => map DStr (filter (in_fnames m) (ctc_features (c_ast c))))).
  - rewrite <- fm_map_flat_map. reflexivity.
  - intros c Hc. rewrite src_ctc_get_features.
    2:{ eapply Nat.le_trans; [apply sm_fuel_ctc; exact Hc | exact Hfuel]. }
    cbn [bind]. f_equal. rewrite fm_flat_map_filter, fm_filter_map. f_equal.
    apply fm_filter_ext. intros s. rewrite sm_existsb_keyed, sm_nm_loc. reflexivity.
Qed.

Lemma sm_map_fst_tt {A} (l : list A) : map fst (map (fun k => (k, tt)) l) = l.
Proof. rewrite map_map. cbn [fst]. apply map_id. Qed.

Lemma sm_data_str_DStr l : map data_str (map DStr l) = l.
Proof. rewrite map_map. cbn [data_str]. apply map_id. Qed.

Section Methods4.
  Variable m : fm.
  Variable st : py_FMMetrics_state.
  Let S := prep_state m st.
  Variable fuel : nat.
  Hypothesis Hfuel : (prep_fuel m <= fuel)%nat.

  Let Htree : (fuel_tree (root m) <= fuel)%nat.
  Proof. unfold prep_fuel in Hfuel. lia. Qed.
  Let Hctcs : (fuel_ctcs (ctcs m) <= fuel)%nat.
  Proof. unfold prep_fuel in Hfuel. lia. Qed.

  Lemma src_m_alternative_groups :
    py_FMMetrics_alternative_groups fuel S = rmap conv (metric m "alternative_groups").
  Proof.
    metric_eval. unfold py_FMMetrics_alternative_groups, S. proj_cbn.
    destruct (src_get_alternative_group_features m fuel Htree) as (l & Hl & Hmap).
    rewrite Hl. cbn [bind]. f_equal.
    apply sm_listing; [|rewrite sm_group_names; reflexivity].
    rewrite fm_flat_map_single, <- Hmap, map_map. reflexivity.
  Qed.

  Lemma src_m_or_groups : py_FMMetrics_or_groups fuel S = rmap conv (metric m "or_groups").
  Proof.
    metric_eval. unfold py_FMMetrics_or_groups, S. proj_cbn.
    destruct (src_get_or_group_features m fuel Htree) as (l & Hl & Hmap).
    rewrite Hl. cbn [bind]. f_equal.
    apply sm_listing; [|rewrite sm_group_names; reflexivity].
    rewrite fm_flat_map_single, <- Hmap, map_map. reflexivity.
  Qed.

  Lemma src_m_mandatory_features :
    py_FMMetrics_mandatory_features fuel S = rmap conv (metric m "mandatory_features").
  Proof.
    metric_eval. unfold py_FMMetrics_mandatory_features, S. rewrite (sm_solitary_eq m st).
    proj_cbn. cbn [bind py_metric_names conv pm_result conv_res listing mk me_result].
    destruct (src_get_mandatory_features m fuel Htree) as (l & Hl & Hmap).
    rewrite Hl. cbn [bind]. f_equal.
    apply sm_listing; [|reflexivity].
    rewrite fm_flat_map_single, <- Hmap, map_map. reflexivity.
  Qed.

  Lemma src_m_optional_features :
    py_FMMetrics_optional_features fuel S = rmap conv (metric m "optional_features").
  Proof.
    metric_eval. unfold py_FMMetrics_optional_features, S. rewrite (sm_solitary_eq m st).
    proj_cbn. cbn [bind py_metric_names conv pm_result conv_res listing mk me_result].
    destruct (src_get_optional_features m fuel Htree) as (l & Hl & Hmap).
    rewrite Hl. cbn [bind]. f_equal.
    apply sm_listing; [|reflexivity].
    rewrite fm_flat_map_single, <- Hmap, map_map. reflexivity.
  Qed.

  Lemma src_m_feature_groups : py_FMMetrics_feature_groups fuel S = rmap conv (metric m "feature_groups").
  Proof.
    metric_eval. unfold py_FMMetrics_feature_groups, S. proj_cbn.
    rewrite (src_get_relations m fuel Htree). cbn [bind]. f_equal.
    apply sm_listing; [apply sm_group_names|].
    unfold py_len, zlen. rewrite map_length, <- loc_relations_erase, map_length. reflexivity.
  Qed.

  Lemma src_m_tree_relationships :
    py_FMMetrics_tree_relationships fuel S = rmap conv (metric m "tree_relationships").
  Proof.
    metric_eval. unfold py_FMMetrics_tree_relationships, S. proj_cbn.
    rewrite (src_get_relations m fuel Htree). cbn [bind].
    rewrite (py_flat_mapM_ok _ (fun x : lrel => [rel_str (name (fst (snd x))) (fst x)])).
    2:{ intros [r o] _. rewrite src_rel_str. reflexivity. }
    cbn [bind]. rewrite fm_flat_map_single.
    unfold loc_relations. rewrite <- (loc_subrelations_ctx (root m) []), map_map. reflexivity.
  Qed.

  Lemma src_m_branching_factor : py_FMMetrics_branching_factor fuel S = rmap conv (metric m "branching_factor").
  Proof.
    metric_eval. unfold py_FMMetrics_branching_factor, S. proj_cbn.
    rewrite (sm_rmap_bind py_FMAverageBranchingFactor_get_result), src_obj_abf, (src_average_branching_factor m fuel Htree). reflexivity.
  Qed.

  Lemma src_m_extra_constraint_representativeness :
    py_FMMetrics_extra_constraint_representativeness fuel S
    = rmap conv (metric m "extra_constraint_representativeness").
  Proof.
    metric_eval. unfold py_FMMetrics_extra_constraint_representativeness, S. proj_cbn.
    unfold py_FeatureModel_get_constraints. rewrite (sm_extra_features fuel m Hctcs). cbn [bind].
    unfold py_dedup.
    rewrite (sm_dedup_DStr _ (fun x y => eq_refl) _ []).
    rewrite sm_map_fst_tt, sm_data_str_DStr, sm_extra_names.
    unfold py_len. rewrite map_length, sm_len_loc. reflexivity.
  Qed.
End Methods4.

Section Methods5.
  Variable m : fm.
  Variable st : py_FMMetrics_state.
  Let S := prep_state m st.

  Lemma src_m_pseudo_complex_constraints : exists n0, forall fuel, (n0 <= fuel)%nat ->
    py_FMMetrics_pseudo_complex_constraints fuel S = rmap conv (metric m "pseudo_complex_constraints").
  Proof.
    destruct (src_get_pseudocomplex_constraints m) as [n0 H]. exists n0. intros fuel Hf.
    metric_eval. unfold py_FMMetrics_pseudo_complex_constraints, S. proj_cbn.
    apply (sm_ctc_entry_in m _ _ _ (py_FeatureModel_get_complex_constraints m)).
    - apply H. exact Hf.
    - apply src_get_complex_constraints.
    - intros l Hl. eapply sm_listing_range. exact Hl.
    - intros l Hl. eapply sm_listing_range. exact Hl.
    - intros l. destruct (py_FeatureModel_get_complex_constraints m); reflexivity.
  Qed.

  Lemma src_m_strict_complex_constraints : exists n0, forall fuel, (n0 <= fuel)%nat ->
    py_FMMetrics_strict_complex_constraints fuel S = rmap conv (metric m "strict_complex_constraints").
  Proof.
    destruct (src_get_strictcomplex_constraints m) as [n0 H]. exists n0. intros fuel Hf.
    metric_eval. unfold py_FMMetrics_strict_complex_constraints, S. proj_cbn.
    apply (sm_ctc_entry_in m _ _ _ (py_FeatureModel_get_complex_constraints m)).
    - apply H. exact Hf.
    - apply src_get_complex_constraints.
    - intros l Hl. eapply sm_listing_range. exact Hl.
    - intros l Hl. eapply sm_listing_range. exact Hl.
    - intros l. destruct (py_FeatureModel_get_complex_constraints m); reflexivity.
  Qed.

  Hypothesis Hne : rels_nonempty (root m).

  (* getattr(self, name)() for every name in the list of metric methods *)
  Lemma src_metric_dispatch : exists n0, forall fuel, (n0 <= fuel)%nat ->
    forall n, In n metric_methods -> py_FMMetrics_metric fuel S n = rmap conv (metric m n).
  Proof.
    destruct src_m_pseudo_complex_constraints as [np Hp].
    destruct src_m_strict_complex_constraints as [ns Hs].
    exists (prep_fuel m + np + ns)%nat. intros fuel Hfuel n Hin.
    assert (Hprep : (prep_fuel m <= fuel)%nat) by lia.
    assert (Hfp : (np <= fuel)%nat) by lia.
    assert (Hfs : (ns <= fuel)%nat) by lia.
    unfold metric_methods in Hin. cbn [In] in Hin.
    repeat (destruct Hin as [Hin|Hin]; [subst n|]); [..|destruct Hin];
      unfold py_FMMetrics_metric; lazy beta iota zeta delta [String.eqb Ascii.eqb Bool.eqb andb]; unfold S.
    all: [> exact (src_m_abstract_compound_features m st) |
      exact (src_m_abstract_features m st) |
      exact (src_m_abstract_leaf_features m st) |
      exact (src_m_alternative_groups m st fuel Hprep) |
      exact (src_m_avg_children_per_feature m st) |
      exact (src_m_avg_constraints_per_feature m st) |
      exact (src_m_branching_factor m st fuel Hprep) |
      exact (src_m_cardinality_groups m st) |
      exact (src_m_complex_constraints m st) |
      exact (src_m_compound_features m st) |
      exact (src_m_concrete_compound_features m st) |
      exact (src_m_concrete_features m st) |
      exact (src_m_concrete_leaf_features m st) |
      exact (src_m_cross_tree_constraints m st) |
      exact (src_m_depth_tree m st Hne) |
      exact (src_m_excludes_constraints m st) |
      exact (src_m_extra_constraint_representativeness m st fuel Hprep) |
      exact (src_m_feature_groups m st fuel Hprep) |
      exact (src_m_features m st) |
      exact (src_m_grouped_features m st) |
      exact (src_m_leaf_features m st) |
      exact (src_m_mandatory_features m st fuel Hprep) |
      exact (src_m_max_children_per_feature m st) |
      exact (src_m_max_constraints_per_feature m st) |
      exact (src_m_max_depth_tree m st Hne) |
      exact (src_m_mean_depth_tree m st Hne) |
      exact (src_m_median_depth_tree m st Hne) |
      exact (src_m_min_children_per_feature m st) |
      exact (src_m_min_constraints_per_feature m st) |
      exact (src_m_mutex_groups m st) |
      exact (src_m_optional_features m st fuel Hprep) |
      exact (src_m_or_groups m st fuel Hprep) |
      exact (Hp fuel Hfp) |
      exact (src_m_requires_constraints m st) |
      exact (src_m_root_feature m st) |
      exact (src_m_simple_constraints m st) |
      exact (src_m_solitary_features m st) |
      exact (Hs fuel Hfs) |
      exact (src_m_top_features m st) |
      exact (src_m_tree_relationships m st fuel Hprep) ].
  Qed.
End Methods5.

Lemma sm_mapM_conv {A B C} (f : A -> result C) (g : A -> result B) (h : B -> C) (l : list A) :
  (forall x, In x l -> f x = rmap h (g x)) -> mapM f l = rmap (map h) (mapM g l).
Proof.
  induction l as [|x xs IH]; intros H; [reflexivity|].
  rewrite !mapM_cons. rewrite (H x (or_introl eq_refl)).
  destruct (g x) as [y|e]; cbn [rmap]; [|reflexivity].
  rewrite IH; [|intros z Hz; apply H; right; exact Hz].
  destruct (mapM g xs); reflexivity.
Qed.

(* The whole report.  (This proof found the hand model's truth value of an is_abstract holding the float -0.0 wrong — Python's
   bool(-0.0) is False; Model/Metrics.v was corrected and the hypothesis excluding it dropped.) *)
Theorem src_metrics_report : forall st m, NoDup (names (root m)) -> rels_nonempty (root m) ->
  exists n0, forall fuel, (n0 <= fuel)%nat ->
    py_FMMetrics_calculate_metamodel_metrics fuel st m = rmap (map conv) (report m (FMMetrics_filter st)).
Proof.
  intros st m Hnd Hne.
  destruct (src_metric_dispatch m st Hne) as [nd Hd].
  exists (prep_fuel m + nd)%nat. intros fuel Hfuel.
  unfold py_FMMetrics_calculate_metamodel_metrics.
  rewrite (src_prepare fuel st m Hnd); [|lia]. cbn [bind].
  change (FMMetrics_filter (prep_state m st)) with (FMMetrics_filter st).
  unfold report. change py_FMMetrics_metric_methods with metric_methods.
  destruct (FMMetrics_filter st) as [fl|]; cbn beta iota zeta.
  - rewrite (fm_filter_ext (fun n => existsb (fun y => String.eqb y n) fl) (fun n => list_existsb_eq n fl)).
    2:{ intros y. apply existsb_eqb_list_existsb_eq. }
    apply sm_mapM_conv. intros n Hn. apply Hd; [lia|].
    apply filter_In in Hn. apply Hn.
  - apply sm_mapM_conv. intros n Hn. apply Hd; [lia|exact Hn].
Qed.

(* the model on which the two used to differ *)
Definition sm_negzero : fm :=
  {| root := Feature {| f_name := "R"; f_abstract := VFloat "-0.0"; f_type := TBoolean; f_cmin := 1; f_cmax := 1;
                        f_attrs := [] |} [Relation 1 1 [leaf "A"]];
     ctcs := [] |}.
Example sm_negzero_agrees : forall fuel,
  py_FMMetrics_calculate_metamodel_metrics (20 + fuel) py_FMMetrics_new sm_negzero
  = rmap (map conv) (report sm_negzero (FMMetrics_filter py_FMMetrics_new)).
Proof. intros fuel. vm_compute. reflexivity. Qed.

Print Assumptions src_metrics_report.
