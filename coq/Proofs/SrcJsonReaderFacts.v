(* Proofs/SrcJsonReaderFacts.v — the source tie of the constraint part of json_reader.py: the
   translations in Gen/Src_jsonr.v (py_parse_ast_constraint, py_parse_constraints) are equal to the
   hand-written reader of Format/Json.v (json_parse_ctc and the constraint loop of json_read), error
   cases included, for every fuel that covers the nesting depth of the JSON value. *)
From Coq Require Import List Bool Ascii String ZArith Lia.
From FM Require Import Base.Result Base.Str Base.AstOp Model.Ast Model.FM Model.PFM Gen.Tables_json
     Format.Json Model.PyRt Model.Loc Gen.Src_fm Gen.Src_jsonr Proofs.JsonFacts.
Import ListNotations.
Local Open Scope list_scope.

(* ------------------------------------------------------------------ general helpers *)

(* d[k]: the two spellings of the lookup agree *)
Lemma aval_get_jget : forall d k, aval_get d k = jget k d.
Proof.
  intros d k. destruct d; try reflexivity. cbn [aval_get jget].
  induction kv as [|[k' v'] kv IH]; [reflexivity|].
  cbn [find assoc fst]. rewrite (String.eqb_sym k k').
  destruct (String.eqb k' k) eqn:E; [reflexivity|]. exact IH.
Qed.

(* l[0], l[1] *)
Lemma py_index_0 : forall {A} (l : list A), py_index l 0%Z = match nth_error l 0 with Some x => Ok x | None => Err IndexError end.
Proof. intros A l. reflexivity. Qed.

Lemma py_index_1 : forall {A} (l : list A), py_index l 1%Z = match nth_error l 1 with Some x => Ok x | None => Err IndexError end.
Proof. intros A l. reflexivity. Qed.

Lemma py_index_operand_0 : forall l, py_index l 0%Z = nth_operand l 0.
Proof. intros l. rewrite py_index_0. reflexivity. Qed.

Lemma py_index_operand_1 : forall l, py_index l 1%Z = nth_operand l 1.
Proof. intros l. rewrite py_index_1. reflexivity. Qed.

Lemma nth_operand_In : forall l i x, nth_operand l i = Ok x -> In x l.
Proof.
  intros l i x H. unfold nth_operand in H.
  destruct (nth_error l i) as [y|] eqn:E; [|discriminate].
  inversion H; subst. eapply nth_error_In; eassumption.
Qed.

(* a comprehension of one computed element per element is a mapM *)
Lemma flat_mapM_single : forall {A B} (g : A -> result B) (l : list A),
  py_flat_mapM (fun x => bind (g x) (fun v => Ok [v])) l = mapM g l.
Proof.
  intros A B g. induction l as [|x xs IH]; [reflexivity|].
  cbn [py_flat_mapM mapM].
  destruct (g x) as [y|e]; cbn [bind]; [|reflexivity].
  change (match py_flat_mapM (fun x => bind (g x) (fun v => Ok [v])) xs with
          | Err e => Err e | Ok ys => Ok ([y] ++ ys) end =
          match mapM g xs with Err e => Err e | Ok ys => Ok (y :: ys) end).
  rewrite IH. reflexivity.
Qed.

Lemma mapM_ext_in : forall {A B} (g h : A -> result B) (l : list A),
  (forall x, In x l -> g x = h x) -> mapM g l = mapM h l.
Proof.
  intros A B g h. induction l as [|x xs IH]; intros H; [reflexivity|].
  rewrite !mapM_cons. rewrite (H x (or_introl eq_refl)).
  rewrite IH; [reflexivity|]. intros y Hy. apply H. now right.
Qed.

(* a loop whose body appends one element that may fail is a mapM *)
Lemma foldM_snoc_mapM : forall {A B} (F : list B -> A -> result (list B)) (g : A -> result B)
  (l : list A),
  (forall acc x, In x l ->
     F acc x = match g x with Ok v => Ok (acc ++ [v]) | Err e => Err e end) ->
  forall acc, foldM F l acc = match mapM g l with Ok vs => Ok (acc ++ vs) | Err e => Err e end.
Proof.
  intros A B F g l. induction l as [|x xs IH]; intros HF acc.
  - cbn. now rewrite app_nil_r.
  - cbn [foldM mapM]. rewrite (HF acc x (or_introl eq_refl)).
    destruct (g x) as [v|e]; [|reflexivity].
    change (foldM F xs (acc ++ [v]) =
            match match mapM g xs with Err e => Err e | Ok ys => Ok (v :: ys) end with
            | Ok vs => Ok (acc ++ vs) | Err e => Err e end).
    rewrite IH.
    + destruct (mapM g xs) as [ys|e]; [|reflexivity]. now rewrite <- app_assoc.
    + intros acc' y Hy. apply HF. now right.
Qed.

Lemma reduce_reduce_op : forall o l,
  py_reduce (fun a b => Node (DOp o) (Some a) (Some b)) l = reduce_op o l.
Proof. intros o l. reflexivity. Qed.

Lemma list_max_in_le : forall l n x, (list_max l <= n)%nat -> In x l -> (x <= n)%nat.
Proof.
  intros l n x H Hin. apply list_max_le in H. rewrite Forall_forall in H. apply H. exact Hin.
Qed.

(* ------------------------------------------------------------------ parse_ast_constraint *)

(* one unfolding on both sides, given agreement on the operands (two levels further down) *)
Definition agree (f f' : nat) (x : aval) : Prop := py_parse_ast_constraint f x = json_parse_ctc f' x.

  (* an indexed operand, parsed *)
  Lemma sub_agree : forall f f' ops i,
    (forall x, In x ops -> agree f f' x) ->
    bind (nth_operand ops i) (fun x => py_parse_ast_constraint f x) =
    match nth_operand ops i with Err e => Err e | Ok x => json_parse_ctc f' x end.
  Proof.
    intros f f' ops i H. destruct (nth_operand ops i) as [x|e] eqn:E; cbn [bind]; [|reflexivity].
    apply H. eapply nth_operand_In; eassumption.
  Qed.

  Lemma all_agree : forall f f' ops,
    (forall x, In x ops -> agree f f' x) ->
    py_flat_mapM (fun x => bind (py_parse_ast_constraint f x) (fun v => Ok [v])) ops =
    mapM (json_parse_ctc f') ops.
  Proof.
    intros f f' ops H. rewrite flat_mapM_single. apply mapM_ext_in. exact H.
  Qed.

  Ltac bin_case f f' Hops :=
    rewrite py_index_operand_0, (sub_agree f f' _ 0 Hops);
    destruct (nth_operand _ 0) as [?x0|?e0]; [|reflexivity];
    destruct (json_parse_ctc f' _) as [?a|?e1]; cbn [bind]; [|reflexivity];
    rewrite py_index_operand_1, (sub_agree f f' _ 1 Hops);
    destruct (nth_operand _ 1) as [?x1|?e2]; [|reflexivity];
    destruct (json_parse_ctc f' _) as [?b|?e3]; cbn [bind py_need]; reflexivity.

  Ltac nary_case f f' Hops :=
    rewrite (all_agree f f' _ Hops);
    destruct (mapM (json_parse_ctc f') _) as [?ns|?e0]; cbn [bind]; [|reflexivity];
    rewrite reduce_reduce_op;
    destruct (reduce_op _ _) as [?n|?e1]; cbn [bind py_need]; reflexivity.

  Lemma parse_step : forall f f' v,
    (forall ops x, jget "operands" v = Ok (VList ops) -> In x ops -> agree f f' x) ->
    py_parse_ast_constraint (S f) v = json_parse_ctc (S f') v.
  Proof.
    intros f f' v IH. rewrite json_parse_ctc_S. cbn [py_parse_ast_constraint].
    rewrite !aval_get_jget.
    destruct (jget "type" v) as [tv|e] eqn:Ht; cbn [bind]; [|reflexivity].
    destruct (jget "operands" v) as [ov|e] eqn:Ho; cbn [bind]; [|reflexivity].
    destruct ov as [| | | | |ops|]; cbn [jlist]; try reflexivity.
    assert (Hops : forall x, In x ops -> agree f f' x) by (intros x Hx; eapply IH; [reflexivity|exact Hx]).
    clear IH.
    destruct tv as [| | | |ty| |]; cbn [jstr]; try reflexivity.
    change jt_FEATURE with "FEATURE"%string.
    destruct (String.eqb ty "FEATURE") eqn:E0.
    { rewrite ?aval_get_jget, ?Ho. cbn [bind].
      rewrite py_index_operand_0.
      destruct (nth_operand ops 0) as [x|e]; cbn [bind]; [|reflexivity].
      destruct x; reflexivity. }
    destruct (String.eqb ty (astop_value NOT)) eqn:E1.
    { cbn [bind].
      rewrite py_index_operand_0, (sub_agree f f' _ 0 Hops).
      destruct (nth_operand ops 0) as [x|e]; [|reflexivity].
      destruct (json_parse_ctc f' x) as [a|e]; cbn [bind py_need]; reflexivity. }
    destruct (String.eqb ty (astop_value IMPLIES)) eqn:E2.
    { cbn [bind]. bin_case f f' Hops. }
    destruct (String.eqb ty (astop_value REQUIRES)) eqn:E3.
    { cbn [bind]. bin_case f f' Hops. }
    destruct (String.eqb ty (astop_value EXCLUDES)) eqn:E4.
    { cbn [bind]. bin_case f f' Hops. }
    destruct (String.eqb ty (astop_value EQUIVALENCE)) eqn:E5.
    { cbn [bind]. bin_case f f' Hops. }
    destruct (String.eqb ty (astop_value AND)) eqn:E6.
    { cbn [bind]. nary_case f f' Hops. }
    destruct (String.eqb ty (astop_value OR)) eqn:E7.
    { cbn [bind]. nary_case f f' Hops. }
    destruct (String.eqb ty (astop_value XOR)) eqn:E8.
    { cbn [bind]. nary_case f f' Hops. }
    reflexivity.
  Qed.

(* both sides with enough fuel: the same node or the same exception *)
Theorem src_parse_ast_constraint : forall v fuel fuel', (aval_depth v <= fuel)%nat -> (aval_depth v <= fuel')%nat ->
  py_parse_ast_constraint fuel v = json_parse_ctc fuel' v.
Proof.
  intros v fuel. revert v. induction fuel as [|f IH]; intros v fuel' H1 H2.
  - exfalso. destruct v; cbn [aval_depth] in H1; lia.
  - destruct fuel' as [|f'].
    + exfalso. destruct v; cbn [aval_depth] in H2; lia.
    + apply parse_step. intros ops x Ho Hx.
      pose proof (depth_jget _ _ _ Ho) as D1.
      pose proof (depth_list_in _ _ Hx) as D2.
      unfold agree. apply IH; lia.
Qed.

(* ------------------------------------------------------------------ parse_constraints *)

(* what the translated loop does for one element of "constraints" *)
Definition src_ctc_of (av : aval) : result ctc :=
  match jget "name" av with Err e => Err e | Ok nv =>
  match jget "ast" av with Err e => Err e | Ok tv =>
  match json_parse_ctc (aval_depth tv) tv with Err e => Err e | Ok n =>
  match nv with VStr s => Ok {| c_name := s; c_ast := n |} | _ => Err TypeError end end end end.

(* what [json_read] does for one element of "constraints" (literally the function of its mapM) *)
Definition model_ctc_of (ci : aval) : result ctc :=
  match jget "name" ci with Err e => Err e | Ok nv =>
  match jget "ast" ci with Err e => Err e | Ok av =>
  match jstr nv with Err e => Err e | Ok name =>
  match json_parse_ctc (aval_depth av) av with Err e => Err e | Ok n =>
    Ok {| c_name := name; c_ast := n |}
  end end end end.

Theorem src_parse_constraints : forall l fuel, (list_max (map aval_depth l) <= fuel)%nat ->
  py_parse_constraints fuel l =
  mapM (fun av => match jget "name" av with Err e => Err e | Ok nv =>
                  match jget "ast" av with Err e => Err e | Ok tv =>
                  match json_parse_ctc (aval_depth tv) tv with Err e => Err e | Ok n =>
                  match nv with VStr s => Ok {| c_name := s; c_ast := n |} | _ => Err TypeError end end end end) l.
Proof.
  intros l fuel H. unfold py_parse_constraints.
  rewrite (foldM_snoc_mapM _ src_ctc_of).
  - fold src_ctc_of. cbn [bind app].
    destruct (mapM src_ctc_of l) as [cs|e]; reflexivity.
  - intros acc av Hin. unfold src_ctc_of.
    rewrite !aval_get_jget.
    destruct (jget "name" av) as [nv|e] eqn:Hn; cbn [bind]; [|reflexivity].
    destruct (jget "ast" av) as [tv|e] eqn:Ha; cbn [bind]; [|reflexivity].
    assert (D : (aval_depth tv <= fuel)%nat).
    { pose proof (depth_jget _ _ _ Ha) as D1.
      assert (D2 : (aval_depth av <= fuel)%nat)
        by (eapply list_max_in_le; [exact H|apply in_map; exact Hin]).
      lia. }
    rewrite (src_parse_ast_constraint tv fuel (aval_depth tv) D (le_n _)).
    destruct (json_parse_ctc (aval_depth tv) tv) as [n|e]; cbn [bind]; [|reflexivity].
    destruct nv; reflexivity.
Qed.

(* ------------------------------------------------------------------ against json_read itself *)

(* [json_read] is its tree part followed by [mapM model_ctc_of] on the list under "constraints" *)
Lemma json_read_constraints : forall doc,
  json_read doc =
  match jget "features" doc with Err e => Err e | Ok fv =>
  match jget "constraints" doc with Err e => Err e | Ok cv =>
  match json_parse_tree (aval_depth fv) [] PNone fv with Err e => Err e | Ok proot_ =>
  match jlist cv with Err e => Err e | Ok cl =>
  match mapM model_ctc_of cl with
  | Err e => Err e
  | Ok cs => Ok {| proot := proot_; pctcs := cs |}
  end end end end end.
Proof. intros doc. reflexivity. Qed.

(* The two element functions differ only for a "name" that is no string: the source parses the tree
   first (any exception of the tree wins) and then answers TypeError; the model answers OtherExn at once.

   The statement with [model_ctc_of] in place of the right-hand side is FALSE: *)
Example src_model_differ_kind :
  let av := VMap [("name", VInt 1); ("ast", VMap [("type", VStr "FEATURE"); ("operands", VList [VStr "A"])])] in
  (py_parse_constraints 5 [av], mapM model_ctc_of [av]) = (Err TypeError, Err OtherExn).
Proof. vm_compute. reflexivity. Qed.

Example src_model_differ_order :
  let av := VMap [("name", VInt 1); ("ast", VMap [("type", VStr "FEATURE"); ("operands", VList [])])] in
  (py_parse_constraints 5 [av], mapM model_ctc_of [av]) = (Err IndexError, Err OtherExn).
Proof. vm_compute. reflexivity. Qed.

(* element by element: the same constraint on success, and the same exception whenever the name is a string *)
Lemma src_model_ctc_ok : forall av c, src_ctc_of av = Ok c <-> model_ctc_of av = Ok c.
Proof.
  intros av c. unfold src_ctc_of, model_ctc_of.
  destruct (jget "name" av) as [nv|e]; [|tauto].
  destruct (jget "ast" av) as [tv|e]; [|tauto].
  destruct nv; cbn [jstr];
    destruct (json_parse_ctc (aval_depth tv) tv) as [n|e]; split; intros H; try discriminate H; exact H.
Qed.

Definition name_is_str (av : aval) : Prop :=
  forall nv, jget "name" av = Ok nv -> exists s, nv = VStr s.

Lemma src_model_ctc_str : forall av, name_is_str av -> src_ctc_of av = model_ctc_of av.
Proof.
  intros av Hs. unfold src_ctc_of, model_ctc_of.
  destruct (jget "name" av) as [nv|e] eqn:Hn; [|reflexivity].
  destruct (Hs nv Hn) as [s ->].
  destruct (jget "ast" av) as [tv|e]; [|reflexivity].
  cbn [jstr]. reflexivity.
Qed.

Lemma mapM_ok_iff : forall {A B} (g h : A -> result B) (l : list A),
  (forall x y, g x = Ok y <-> h x = Ok y) -> forall ys, mapM g l = Ok ys <-> mapM h l = Ok ys.
Proof.
  intros A B g h l H ys. split; apply mapM_ext_ok; intros x y; apply H.
Qed.

(* success: the translated loop returns a list exactly when json_read's loop returns it *)
Theorem src_parse_constraints_ok : forall l fuel cs, (list_max (map aval_depth l) <= fuel)%nat ->
  (py_parse_constraints fuel l = Ok cs <-> mapM model_ctc_of l = Ok cs).
Proof.
  intros l fuel cs H. rewrite (src_parse_constraints l fuel H).
  apply (mapM_ok_iff src_ctc_of model_ctc_of). intros x y. apply src_model_ctc_ok.
Qed.

(* failure included, when every present name is a string: literally json_read's loop *)
Theorem src_parse_constraints_model : forall l fuel, (list_max (map aval_depth l) <= fuel)%nat ->
  Forall name_is_str l ->
  py_parse_constraints fuel l = mapM model_ctc_of l.
Proof.
  intros l fuel H Hs. rewrite (src_parse_constraints l fuel H).
  apply (mapM_ext_in src_ctc_of model_ctc_of). intros x Hx.
  apply src_model_ctc_str. rewrite Forall_forall in Hs. apply Hs. exact Hx.
Qed.

Print Assumptions src_parse_constraints.
Print Assumptions src_parse_constraints_ok.
Print Assumptions src_parse_constraints_model.
Print Assumptions src_parse_ast_constraint.
