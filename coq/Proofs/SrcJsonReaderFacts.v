(* Proofs/SrcJsonReaderFacts.v — the source tie of the constraint part of json_reader.py: the
   translations in Gen/Src_jsonr.v (py_parse_ast_constraint, py_parse_constraints) are equal to the
   hand-written reader of Format/Json.v (json_parse_ctc and the constraint loop of json_read), error
   cases included, for every fuel that covers the nesting depth of the JSON value. *)
From Coq Require Import List Bool Ascii String ZArith Lia.
From FM Require Import Base.Result Base.Str Base.AstOp Model.Ast Model.FM Model.PFM Gen.Tables_json
     Format.Json Model.PyRt Model.Loc Gen.Src_fm Gen.Src_jsonr Proofs.JsonFacts.
Import ListNotations.
Local Open Scope list_scope.

(* ------------------------------------------------------------------ general helpers *)

(* d[k]: the two spellings of the lookup agree *)
Lemma aval_get_jget : forall d k, aval_get d k = jget k d.
Proof.
  intros d k. destruct d; try reflexivity. cbn [aval_get jget].
  induction kv as [|[k' v'] kv IH]; [reflexivity|].
  cbn [find assoc fst]. rewrite (String.eqb_sym k k').
  destruct (String.eqb k' k) eqn:E; [reflexivity|]. exact IH.
Qed.

(* l[0], l[1] *)
Lemma py_index_0 : forall {A} (l : list A), py_index l 0%Z = match nth_error l 0 with Some x => Ok x | None => Err IndexError end.
Proof. intros A l. reflexivity. Qed.

Lemma py_index_1 : forall {A} (l : list A), py_index l 1%Z = match nth_error l 1 with Some x => Ok x | None => Err IndexError end.
Proof. intros A l. reflexivity. Qed.

Lemma py_index_operand_0 : forall l, py_index l 0%Z = nth_operand l 0.
Proof. intros l. rewrite py_index_0. reflexivity. Qed.

Lemma py_index_operand_1 : forall l, py_index l 1%Z = nth_operand l 1.
Proof. intros l. rewrite py_index_1. reflexivity. Qed.

Lemma nth_operand_In : forall l i x, nth_operand l i = Ok x -> In x l.
Proof.
  intros l i x H. unfold nth_operand in H.
  destruct (nth_error l i) as [y|] eqn:E; [|discriminate].
  inversion H; subst. eapply nth_error_In; eassumption.
Qed.

(* a comprehension of one computed element per element is a mapM *)
Lemma flat_mapM_single : forall {A B} (g : A -> result B) (l : list A),
  py_flat_mapM (fun x => bind (g x) (fun v => Ok [v])) l = mapM g l.
Proof.
  intros A B g. induction l as [|x xs IH]; [reflexivity|].
  cbn [py_flat_mapM mapM].
  destruct (g x) as [y|e]; cbn [bind]; [|reflexivity].
  change (match py_flat_mapM (fun x => bind (g x) (fun v => Ok [v])) xs with
          | Err e => Err e | Ok ys => Ok ([y] ++ ys) end =
          match mapM g xs with Err e => Err e | Ok ys => Ok (y :: ys) end).
  rewrite IH. reflexivity.
Qed.

Lemma mapM_ext_in : forall {A B} (g h : A -> result B) (l : list A),
  (forall x, In x l -> g x = h x) -> mapM g l = mapM h l.
Proof.
  intros A B g h. induction l as [|x xs IH]; intros H; [reflexivity|].
  rewrite !mapM_cons. rewrite (H x (or_introl eq_refl)).
  rewrite IH; [reflexivity|]. intros y Hy. apply H. now right.
Qed.

(* a loop whose body appends one element that may fail is a mapM *)
Lemma foldM_snoc_mapM : forall {A B} (F : list B -> A -> result (list B)) (g : A -> result B)
  (l : list A),
  (forall acc x, In x l ->
     F acc x = match g x with Ok v => Ok (acc ++ [v]) | Err e => Err e end) ->
  forall acc, foldM F l acc = match mapM g l with Ok vs => Ok (acc ++ vs) | Err e => Err e end.
Proof.
  intros A B F g l. induction l as [|x xs IH]; intros HF acc.
  - cbn. now rewrite app_nil_r.
  - cbn [foldM mapM]. rewrite (HF acc x (or_introl eq_refl)).
    destruct (g x) as [v|e]; [|reflexivity].
    change (foldM F xs (acc ++ [v]) =
            match match mapM g xs with Err e => Err e | Ok ys => Ok (v :: ys) end with
            | Ok vs => Ok (acc ++ vs) | Err e => Err e end).
    rewrite IH.
    + destruct (mapM g xs) as [ys|e]; [|reflexivity]. now rewrite <- app_assoc.
    + intros acc' y Hy. apply HF. now right.
Qed.

Lemma reduce_reduce_op : forall o l,
  py_reduce (fun a b => Node (DOp o) (Some a) (Some b)) l = reduce_op o l.
Proof. intros o l. reflexivity. Qed.

Lemma list_max_in_le : forall l n x, (list_max l <= n)%nat -> In x l -> (x <= n)%nat.
Proof.
  intros l n x H Hin. apply list_max_le in H. rewrite Forall_forall in H. apply H. exact Hin.
Qed.

(* ------------------------------------------------------------------ parse_ast_constraint *)

(* one unfolding on both sides, given agreement on the operands (two levels further down) *)
Definition agree (f f' : nat) (x : aval) : Prop := py_parse_ast_constraint f x = json_parse_ctc f' x.

  (* an indexed operand, parsed *)
  Lemma sub_agree : forall f f' ops i,
    (forall x, In x ops -> agree f f' x) ->
    bind (nth_operand ops i) (fun x => py_parse_ast_constraint f x) =
    match nth_operand ops i with Err e => Err e | Ok x => json_parse_ctc f' x end.
  Proof.
    intros f f' ops i H. destruct (nth_operand ops i) as [x|e] eqn:E; cbn [bind]; [|reflexivity].
    apply H. eapply nth_operand_In; eassumption.
  Qed.

  Lemma all_agree : forall f f' ops,
    (forall x, In x ops -> agree f f' x) ->
    py_flat_mapM (fun x => bind (py_parse_ast_constraint f x) (fun v => Ok [v])) ops =
    mapM (json_parse_ctc f') ops.
  Proof.
    intros f f' ops H. rewrite flat_mapM_single. apply mapM_ext_in. exact H.
  Qed.

  Ltac bin_case f f' Hops :=
    rewrite py_index_operand_0, (sub_agree f f' _ 0 Hops);
    destruct (nth_operand _ 0) as [?x0|?e0]; [|reflexivity];
    destruct (json_parse_ctc f' _) as [?a|?e1]; cbn [bind]; [|reflexivity];
    rewrite py_index_operand_1, (sub_agree f f' _ 1 Hops);
    destruct (nth_operand _ 1) as [?x1|?e2]; [|reflexivity];
    destruct (json_parse_ctc f' _) as [?b|?e3]; cbn [bind py_need]; reflexivity.

  Ltac nary_case f f' Hops :=
    rewrite (all_agree f f' _ Hops);
    destruct (mapM (json_parse_ctc f') _) as [?ns|?e0]; cbn [bind]; [|reflexivity];
    rewrite reduce_reduce_op;
    destruct (reduce_op _ _) as [?n|?e1]; cbn [bind py_need]; reflexivity.

  Lemma parse_step : forall f f' v,
    (forall ops x, jget "operands" v = Ok (VList ops) -> In x ops -> agree f f' x) ->
    py_parse_ast_constraint (S f) v = json_parse_ctc (S f') v.
  Proof.
    intros f f' v IH. rewrite json_parse_ctc_S. cbn [py_parse_ast_constraint].
    rewrite !aval_get_jget.
    destruct (jget "type" v) as [tv|e] eqn:Ht; cbn [bind]; [|reflexivity].
    destruct (jget "operands" v) as [ov|e] eqn:Ho; cbn [bind]; [|reflexivity].
    destruct ov as [| | | | |ops|]; cbn [jlist]; try reflexivity.
    assert (Hops : forall x, In x ops -> agree f f' x) by (intros x Hx; eapply IH; [reflexivity|exact Hx]).
    clear IH.
    destruct tv as [| | | |ty| |]; cbn [jstr]; try reflexivity.
    change jt_FEATURE with "FEATURE"%string.
    destruct (String.eqb ty "FEATURE") eqn:E0.
    { rewrite ?aval_get_jget, ?Ho. cbn [bind].
      rewrite py_index_operand_0.
      destruct (nth_operand ops 0) as [x|e]; cbn [bind]; [|reflexivity].
      destruct x; reflexivity. }
    destruct (String.eqb ty (astop_value NOT)) eqn:E1.
    { cbn [bind].
      rewrite py_index_operand_0, (sub_agree f f' _ 0 Hops).
      destruct (nth_operand ops 0) as [x|e]; [|reflexivity].
      destruct (json_parse_ctc f' x) as [a|e]; cbn [bind py_need]; reflexivity. }
    destruct (String.eqb ty (astop_value IMPLIES)) eqn:E2.
    { cbn [bind]. bin_case f f' Hops. }
    destruct (String.eqb ty (astop_value REQUIRES)) eqn:E3.
    { cbn [bind]. bin_case f f' Hops. }
    destruct (String.eqb ty (astop_value EXCLUDES)) eqn:E4.
    { cbn [bind]. bin_case f f' Hops. }
    destruct (String.eqb ty (astop_value EQUIVALENCE)) eqn:E5.
    { cbn [bind]. bin_case f f' Hops. }
    destruct (String.eqb ty (astop_value AND)) eqn:E6.
    { cbn [bind]. nary_case f f' Hops. }
    destruct (String.eqb ty (astop_value OR)) eqn:E7.
    { cbn [bind]. nary_case f f' Hops. }
    destruct (String.eqb ty (astop_value XOR)) eqn:E8.
    { cbn [bind]. nary_case f f' Hops. }
    reflexivity.
  Qed.

(* both sides with enough fuel: the same node or the same exception *)
Theorem src_parse_ast_constraint : forall v fuel fuel', (aval_depth v <= fuel)%nat -> (aval_depth v <= fuel')%nat ->
  py_parse_ast_constraint fuel v = json_parse_ctc fuel' v.
Proof.
  intros v fuel. revert v. induction fuel as [|f IH]; intros v fuel' H1 H2.
  - exfalso. destruct v; cbn [aval_depth] in H1; lia.
  - destruct fuel' as [|f'].
    + exfalso. destruct v; cbn [aval_depth] in H2; lia.
    + apply parse_step. intros ops x Ho Hx.
      pose proof (depth_jget _ _ _ Ho) as D1.
      pose proof (depth_list_in _ _ Hx) as D2.
      unfold agree. apply IH; lia.
Qed.

(* ------------------------------------------------------------------ parse_constraints *)

(* what the translated loop does for one element of "constraints" *)
Definition src_ctc_of (av : aval) : result ctc :=
  match jget "name" av with Err e => Err e | Ok nv =>
  match jget "ast" av with Err e => Err e | Ok tv =>
  match json_parse_ctc (aval_depth tv) tv with Err e => Err e | Ok n =>
  match nv with VStr s => Ok {| c_name := s; c_ast := n |} | _ => Err TypeError end end end end.

(* what [json_read] does for one element of "constraints" (literally the function of its mapM) *)
Definition model_ctc_of (ci : aval) : result ctc :=
  match jget "name" ci with Err e => Err e | Ok nv =>
  match jget "ast" ci with Err e => Err e | Ok av =>
  match jstr nv with Err e => Err e | Ok name =>
  match json_parse_ctc (aval_depth av) av with Err e => Err e | Ok n =>
    Ok {| c_name := name; c_ast := n |}
  end end end end.

Theorem src_parse_constraints : forall l fuel, (list_max (map aval_depth l) <= fuel)%nat ->
  py_parse_constraints fuel l =
  mapM (fun av => match jget "name" av with Err e => Err e | Ok nv =>
                  match jget "ast" av with Err e => Err e | Ok tv =>
                  match json_parse_ctc (aval_depth tv) tv with Err e => Err e | Ok n =>
                  match nv with VStr s => Ok {| c_name := s; c_ast := n |} | _ => Err TypeError end end end end) l.
Proof.
  intros l fuel H. unfold py_parse_constraints.
  rewrite (foldM_snoc_mapM _ src_ctc_of).
  - fold src_ctc_of. cbn [bind app].
    destruct (mapM src_ctc_of l) as [cs|e]; reflexivity.
  - intros acc av Hin. unfold src_ctc_of.
    rewrite !aval_get_jget.
    destruct (jget "name" av) as [nv|e] eqn:Hn; cbn [bind]; [|reflexivity].
    destruct (jget "ast" av) as [tv|e] eqn:Ha; cbn [bind]; [|reflexivity].
    assert (D : (aval_depth tv <= fuel)%nat).
    { pose proof (depth_jget _ _ _ Ha) as D1.
      assert (D2 : (aval_depth av <= fuel)%nat)
        by (eapply list_max_in_le; [exact H|apply in_map; exact Hin]).
      lia. }
    rewrite (src_parse_ast_constraint tv fuel (aval_depth tv) D (le_n _)).
    destruct (json_parse_ctc (aval_depth tv) tv) as [n|e]; cbn [bind]; [|reflexivity].
    destruct nv; reflexivity.
Qed.

(* ------------------------------------------------------------------ against json_read itself *)

(* [json_read] is its tree part followed by [mapM model_ctc_of] on the list under "constraints" *)
Lemma json_read_constraints : forall doc,
  json_read doc =
  match jget "features" doc with Err e => Err e | Ok fv =>
  match jget "constraints" doc with Err e => Err e | Ok cv =>
  match json_parse_tree (aval_depth fv) [] PNone fv with Err e => Err e | Ok proot_ =>
  match jlist cv with Err e => Err e | Ok cl =>
  match mapM model_ctc_of cl with
  | Err e => Err e
  | Ok cs => Ok {| proot := proot_; pctcs := cs |}
  end end end end end.
Proof. intros doc. reflexivity. Qed.

(* The two element functions differ only for a "name" that is no string: the source parses the tree
   first (any exception of the tree wins) and then answers TypeError; the model answers OtherExn at once.

   The statement with [model_ctc_of] in place of the right-hand side is FALSE: *)
Example src_model_differ_kind :
  let av := VMap [("name", VInt 1); ("ast", VMap [("type", VStr "FEATURE"); ("operands", VList [VStr "A"])])] in
  (py_parse_constraints 5 [av], mapM model_ctc_of [av]) = (Err TypeError, Err OtherExn).
Proof. vm_compute. reflexivity. Qed.

Example src_model_differ_order :
  let av := VMap [("name", VInt 1); ("ast", VMap [("type", VStr "FEATURE"); ("operands", VList [])])] in
  (py_parse_constraints 5 [av], mapM model_ctc_of [av]) = (Err IndexError, Err OtherExn).
Proof. vm_compute. reflexivity. Qed.

(* element by element: the same constraint on success, and the same exception whenever the name is a string *)
Lemma src_model_ctc_ok : forall av c, src_ctc_of av = Ok c <-> model_ctc_of av = Ok c.
Proof.
  intros av c. unfold src_ctc_of, model_ctc_of.
  destruct (jget "name" av) as [nv|e]; [|tauto].
  destruct (jget "ast" av) as [tv|e]; [|tauto].
  destruct nv; cbn [jstr];
    destruct (json_parse_ctc (aval_depth tv) tv) as [n|e]; split; intros H; try discriminate H; exact H.
Qed.

Definition name_is_str (av : aval) : Prop :=
  forall nv, jget "name" av = Ok nv -> exists s, nv = VStr s.

Lemma src_model_ctc_str : forall av, name_is_str av -> src_ctc_of av = model_ctc_of av.
Proof.
  intros av Hs. unfold src_ctc_of, model_ctc_of.
  destruct (jget "name" av) as [nv|e] eqn:Hn; [|reflexivity].
  destruct (Hs nv Hn) as [s ->].
  destruct (jget "ast" av) as [tv|e]; [|reflexivity].
  cbn [jstr]. reflexivity.
Qed.

Lemma mapM_ok_iff : forall {A B} (g h : A -> result B) (l : list A),
  (forall x y, g x = Ok y <-> h x = Ok y) -> forall ys, mapM g l = Ok ys <-> mapM h l = Ok ys.
Proof.
  intros A B g h l H ys. split; apply mapM_ext_ok; intros x y; apply H.
Qed.

(* success: the translated loop returns a list exactly when json_read's loop returns it *)
Theorem src_parse_constraints_ok : forall l fuel cs, (list_max (map aval_depth l) <= fuel)%nat ->
  (py_parse_constraints fuel l = Ok cs <-> mapM model_ctc_of l = Ok cs).
Proof.
  intros l fuel cs H. rewrite (src_parse_constraints l fuel H).
  apply (mapM_ok_iff src_ctc_of model_ctc_of). intros x y. apply src_model_ctc_ok.
Qed.

(* failure included, when every present name is a string: literally json_read's loop *)
Theorem src_parse_constraints_model : forall l fuel, (list_max (map aval_depth l) <= fuel)%nat ->
  Forall name_is_str l ->
  py_parse_constraints fuel l = mapM model_ctc_of l.
Proof.
  intros l fuel H Hs. rewrite (src_parse_constraints l fuel H).
  apply (mapM_ext_in src_ctc_of model_ctc_of). intros x Hx.
  apply src_model_ctc_str. rewrite Forall_forall in Hs. apply Hs. exact Hx.
Qed.

Print Assumptions src_parse_constraints.
Print Assumptions src_parse_constraints_ok.
Print Assumptions src_parse_constraints_model.
Print Assumptions src_parse_ast_constraint.

(* ================================================================== the tree part (builder mode) *)

(* the model's answer and the translation's answer: the same value up to a relation, or an exception on
   both sides, the translation's being ParsingException whenever the model's is *)
Definition rrel {A B} (R : A -> B -> Prop) (m : result A) (c : result B) : Prop :=
  match m, c with
  | Ok a, Ok b => R a b
  | Err e, Err e' => e = ParsingException -> e' = ParsingException
  | _, _ => False
  end.

Lemma rrel_err_same : forall {A B} (R : A -> B -> Prop) e, rrel R (Err e) (Err e).
Proof. intros A B R e H. exact H. Qed.

Lemma rrel_err_other : forall {A B} (R : A -> B -> Prop) e e', e <> ParsingException -> rrel R (Err e) (Err e').
Proof. intros A B R e e' Hne H. contradiction. Qed.

Lemma bind_ret : forall {A} (m : result A), bind m (fun x => Ok x) = m.
Proof. intros A [a|e]; reflexivity. Qed.

(* 'k' in d, d.get(k) *)
Lemma aval_has_jhas : forall d k, aval_has d k = jhas k d.
Proof.
  intros d k. destruct d; try reflexivity. cbn [aval_has jhas].
  induction kv as [|[k' v'] kv IH]; [reflexivity|].
  cbn [existsb assoc fst]. rewrite (String.eqb_sym k k').
  destruct (String.eqb k' k); [reflexivity|]. exact IH.
Qed.

Lemma aval_get_default_assoc : forall a k,
  aval_get_default a k VNone =
  match a with
  | VMap kv => match assoc k kv with Some x => x | None => VNone end
  | _ => VNone
  end.
Proof.
  intros a k. destruct a; try reflexivity. cbn [aval_get_default].
  induction kv as [|[k' v'] kv IH]; [reflexivity|].
  cbn [find assoc fst]. rewrite (String.eqb_sym k k').
  destruct (String.eqb k' k); [reflexivity|]. exact IH.
Qed.

Lemma aval_depth_pos : forall v, (1 <= aval_depth v)%nat.
Proof. intros v. destruct v; cbn [aval_depth]; lia. Qed.

(* an indexed mapM: the shape of the model's loops *)
Fixpoint imapM {X A} (step : nat -> X -> result A) (k : nat) (l : list X) : result (list A) :=
  match l with
  | [] => Ok []
  | x :: xs => match step k x with
               | Err e => Err e
               | Ok y => match imapM step (S k) xs with Err e => Err e | Ok ys => Ok (y :: ys) end
               end
  end.

Lemma rd_goc_imapM : forall rec here k chl j,
  rd_goc rec here k j chl = imapM (fun j c => rec (here ++ [(k, j)]) (PPath here) c) j chl.
Proof.
  intros rec here k. induction chl as [|c cs IH]; intros j; [reflexivity|].
  rewrite rd_goc_cons. cbn [imapM]. rewrite IH. reflexivity.
Qed.

Lemma rd_go_imapM : forall rec here rels k,
  rd_go rec here k rels = imapM (rd_rel rec here) k rels.
Proof.
  intros rec here. induction rels as [|r rs IH]; intros k; [reflexivity|].
  rewrite rd_go_cons. cbn [imapM]. rewrite IH. reflexivity.
Qed.

Lemma mapM_imapM : forall {X A} (f : X -> result A) l k, mapM f l = imapM (fun _ => f) k l.
Proof.
  intros X A f. induction l as [|x xs IH]; intros k; [reflexivity|].
  rewrite mapM_cons. cbn [imapM]. rewrite (IH (S k)). reflexivity.
Qed.

Lemma foldM_cons : forall {S A} (F : S -> A -> result S) x xs s,
  foldM F (x :: xs) s = match F s x with Err e => Err e | Ok s' => foldM F xs s' end.
Proof. reflexivity. Qed.

(* a loop that threads an accumulator, against an indexed mapM of the model *)
Lemma imapM_foldM : forall {X A B S} (step : nat -> X -> result A) (F : S -> X -> result S)
  (er : A -> B) (G : S -> B -> S) (l : list X),
  (forall x, In x l -> forall k acc, rrel (fun y acc' => acc' = G acc (er y)) (step k x) (F acc x)) ->
  forall k acc, rrel (fun ys acc' => acc' = fold_left G (map er ys) acc) (imapM step k l) (foldM F l acc).
Proof.
  intros X A B S step F er G. induction l as [|x xs IH]; intros H k acc.
  - cbn. reflexivity.
  - cbn [imapM]. rewrite foldM_cons. pose proof (H x (or_introl eq_refl) k acc) as Hx.
    destruct (step k x) as [y|e], (F acc x) as [acc1|e']; cbn [rrel] in Hx; try contradiction.
    + subst acc1.
      assert (Hxs : forall x0, In x0 xs -> forall k0 acc0,
                 rrel (fun y0 acc' => acc' = G acc0 (er y0)) (step k0 x0) (F acc0 x0))
        by (intros x0 Hx0; apply H; now right).
      specialize (IH Hxs (Datatypes.S k) (G acc (er y))).
      destruct (imapM step (Datatypes.S k) xs) as [ys|e], (foldM F xs (G acc (er y))) as [acc2|e'];
        cbn [rrel] in IH |- *; try contradiction.
      * cbn [map fold_left]. exact IH.
      * exact IH.
    + exact Hx.
Qed.

Lemma fold_left_snoc : forall {B} (bs acc : list B), fold_left (fun a b => a ++ [b]) bs acc = acc ++ bs.
Proof.
  intros B. induction bs as [|b bs IH]; intros acc; cbn [fold_left].
  - now rewrite app_nil_r.
  - rewrite IH, <- app_assoc. reflexivity.
Qed.

Definition erase_rel (r : prelation) : relation :=
  match r with PRelation _ a b cs => Relation a b (map erase cs) end.

Lemma fold_left_add_relation : forall rs i rs0,
  fold_left py_add_relation rs (Feature i rs0) = Feature i (rs0 ++ rs).
Proof.
  induction rs as [|r rs IH]; intros i rs0; cbn [fold_left py_add_relation].
  - now rewrite app_nil_r.
  - rewrite IH, <- app_assoc. reflexivity.
Qed.

Lemma fold_left_add_attribute : forall ats n ab t a b ats0 rs,
  fold_left py_add_attribute ats
    (Feature {| f_name := n; f_abstract := ab; f_type := t; f_cmin := a; f_cmax := b; f_attrs := ats0 |} rs) =
  Feature {| f_name := n; f_abstract := ab; f_type := t; f_cmin := a; f_cmax := b; f_attrs := ats0 ++ ats |} rs.
Proof.
  induction ats as [|x ats IH]; intros n ab t a b ats0 rs; cbn [fold_left py_add_attribute].
  - now rewrite app_nil_r.
  - cbn [f_name f_abstract f_type f_cmin f_cmax f_attrs]. rewrite IH, <- app_assoc. reflexivity.
Qed.

Lemma rrel_impl : forall {A B} (R R' : A -> B -> Prop) m c,
  rrel R m c -> (forall a b, R a b -> R' a b) -> rrel R' m c.
Proof. intros A B R R' [a|e] [b|e'] H HR; cbn [rrel] in *; auto. Qed.

(* ------------------------------------------------------------------ parse_attributes *)
Lemma src_parse_attributes : forall node feat,
  rrel (fun attrs f' => f' = fold_left py_add_attribute attrs feat)
       (json_read_attributes node) (py_parse_attributes feat node).
Proof.
  intros node feat. rewrite json_read_attributes_eq. unfold py_parse_attributes.
  rewrite aval_has_jhas, aval_get_jget.
  destruct (jhas "attributes" node); [|cbn; reflexivity].
  destruct (jget "attributes" node) as [al|e]; cbn [bind]; [|apply rrel_err_same].
  destruct al as [| | | | |l|]; cbn [jlist bind]; try (apply rrel_err_other; discriminate).
  rewrite bind_ret, (mapM_imapM rd_attr l 0).
  eapply rrel_impl.
  - apply (imapM_foldM (fun _ => rd_attr) _ (fun a => a) py_add_attribute).
    intros a _ _ acc. cbv beta. unfold rd_attr.
    rewrite aval_get_jget, aval_get_default_assoc.
    destruct (jget "name" a) as [nv|e]; cbn [bind]; [|apply rrel_err_same].
    destruct nv; cbn [jstr bind]; try (apply rrel_err_other; discriminate).
    cbn [rrel]. reflexivity.
  - intros ats f' H. cbv beta in H. rewrite map_id in H. exact H.
Qed.

(* ------------------------------------------------------------------ parse_relations / parse_tree *)
Definition tree_rel (n fuel : nat) (c : aval) : Prop :=
  forall here parent p,
    rrel (fun pf f => f = erase pf) (json_parse_tree n here parent c) (py_parse_tree fuel p c).

Lemma src_parse_relations_step : forall n f here node feat,
  (forall rels rel chl c, jget "relations" node = Ok (VList rels) -> In rel rels ->
     jget "children" rel = Ok (VList chl) -> In c chl -> tree_rel n f c) ->
  rrel (fun prs f' => f' = fold_left py_add_relation (map erase_rel prs) feat)
       (rd_rels (json_parse_tree n) here node) (py_parse_relations (S f) feat node).
Proof.
  intros n f here node feat IH. unfold rd_rels. cbn [py_parse_relations].
  rewrite aval_has_jhas, aval_get_jget.
  destruct (jhas "relations" node); [|cbn; reflexivity].
  destruct (jget "relations" node) as [rl|e] eqn:Hrl; cbn [bind]; [|apply rrel_err_same].
  destruct rl as [| | | | |rels|]; cbn [jlist bind]; try (apply rrel_err_other; discriminate).
  rewrite bind_ret, rd_go_imapM.
  apply (imapM_foldM (rd_rel (json_parse_tree n) here) _ erase_rel py_add_relation).
  intros rel Hrel k acc. cbv beta. unfold rd_rel. rewrite aval_get_jget.
  destruct (jget "children" rel) as [chv|e] eqn:Hch; cbn [bind]; [|apply rrel_err_same].
  destruct chv as [| | | | |chl|]; cbn [jlist bind]; try (apply rrel_err_other; discriminate).
  rewrite rd_goc_imapM.
  match goal with |- context [foldM ?F chl []] =>
    assert (Hc : rrel (fun pcs cs => cs = fold_left (fun a b => a ++ [b]) (map erase pcs) [])
                   (imapM (fun j c => json_parse_tree n (here ++ [(k, j)]) (PPath here) c) 0 chl)
                   (foldM F chl []))
  end.
  { apply imapM_foldM. intros c Hc j acc'. cbv beta.
    pose proof (IH rels rel chl c eq_refl Hrel Hch Hc (here ++ [(k, j)]) (PPath here) (Some acc)) as Ht.
    destruct (json_parse_tree n (here ++ [(k, j)]) (PPath here) c) as [pc|e],
             (py_parse_tree f (Some acc) c) as [fc|e']; cbn [rrel bind] in Ht |- *; try contradiction.
    - subst fc. reflexivity.
    - exact Ht. }
  destruct (imapM (fun j c => json_parse_tree n (here ++ [(k, j)]) (PPath here) c) 0 chl) as [pcs|e],
           (foldM _ chl []) as [cs|e']; cbn [rrel] in Hc; try contradiction; cbn [bind]; [|exact Hc].
  rewrite fold_left_snoc in Hc. cbn [app] in Hc. subst cs.
  destruct pcs as [|pc pcs]; [cbn; auto|].
  cbn [map py_is_nil negb]. rewrite aval_get_jget.
  destruct (jget "type" rel) as [tv|e]; cbn [bind]; [|apply rrel_err_same].
  destruct tv as [| | | |s| |]; cbn [jstr]; try (apply rrel_err_other; discriminate).
  unfold json_relation_cards, jt_OPTIONAL, jt_MANDATORY, jt_XOR, jt_OR, jt_MUTEX, jt_CARDINALITY.
  destruct (String.eqb s "OPTIONAL") eqn:E1; [cbn [rrel erase_rel map]; reflexivity|].
  destruct (String.eqb s "MANDATORY") eqn:E2; [cbn [rrel erase_rel map]; reflexivity|].
  destruct (String.eqb s "XOR") eqn:E3; [cbn [rrel erase_rel map]; reflexivity|].
  destruct (String.eqb s "OR") eqn:E4.
  { cbn [rrel erase_rel]. unfold py_len. cbn [List.length map]. rewrite map_length. reflexivity. }
  destruct (String.eqb s "MUTEX") eqn:E5; [cbn [rrel erase_rel map]; reflexivity|].
  destruct (String.eqb s "CARDINALITY") eqn:E6; [|apply rrel_err_same].
  rewrite aval_get_jget.
  destruct (jget "card_min" rel) as [a|e]; cbn [bind]; [|apply rrel_err_same].
  rewrite aval_get_jget.
  destruct (jget "card_max" rel) as [b|e]; cbn [bind]; [|apply rrel_err_same].
  destruct a; cbn [jint foldM bind]; try apply rrel_err_same;
  destruct b; cbn [jint foldM bind]; try apply rrel_err_same.
  cbn [rrel erase_rel map]. reflexivity.
Qed.

(* attributes, then relations, on the feature just created *)
Lemma src_parse_tree_tail : forall n f here parent node s abv,
  (forall rels rel chl c, jget "relations" node = Ok (VList rels) -> In rel rels ->
     jget "children" rel = Ok (VList chl) -> In c chl -> tree_rel n f c) ->
  rrel (fun pf f' => f' = erase pf)
    (match json_read_attributes node with Err e => Err e | Ok attrs =>
     match rd_rels (json_parse_tree n) here node with
     | Err e => Err e
     | Ok prs => Ok (PFeature {| f_name := s; f_abstract := abv; f_type := TBoolean; f_cmin := 1; f_cmax := 1;
                                 f_attrs := attrs |} parent (map (fun _ => PPath here) attrs) prs)
     end end)
    (bind (py_parse_attributes
             (Feature {| f_name := s; f_abstract := abv; f_type := TBoolean; f_cmin := 1; f_cmax := 1;
                         f_attrs := [] |} []) node)
          (fun f9 => bind (py_parse_relations (S f) f9 node) (fun x => Ok x))).
Proof.
  intros n f here parent node s abv IH.
  match goal with |- context [py_parse_attributes ?F node] => pose proof (src_parse_attributes node F) as Ha end.
  destruct (json_read_attributes node) as [attrs|e], (py_parse_attributes _ node) as [f9|e'];
    cbn [rrel] in Ha; try contradiction; cbn [bind]; [|exact Ha].
  rewrite fold_left_add_attribute in Ha. cbn [app] in Ha. subst f9.
  rewrite bind_ret.
  match goal with |- context [py_parse_relations (S f) ?F node] =>
    pose proof (src_parse_relations_step n f here node F IH) as Hr end.
  destruct (rd_rels (json_parse_tree n) here node) as [prs|e], (py_parse_relations (S f) _ node) as [f10|e'];
    cbn [rrel] in Hr |- *; try contradiction; [|exact Hr].
  rewrite fold_left_add_relation in Hr. cbn [app] in Hr. subst f10.
  rewrite erase_eq. reflexivity.
Qed.

Lemma src_parse_tree_rel : forall n fuel node,
  (aval_depth node <= n)%nat -> (aval_depth node < fuel)%nat -> tree_rel n fuel node.
Proof.
  induction n as [|n IH]; intros fuel node Hn Hf.
  - pose proof (aval_depth_pos node). lia.
  - destruct fuel as [|[|f]]; [lia|pose proof (aval_depth_pos node); lia|].
    intros here parent p. rewrite json_parse_tree_S. cbn [py_parse_tree].
    rewrite aval_get_jget.
    destruct (jget "name" node) as [nv|e]; cbn [bind]; [|apply rrel_err_same].
    rewrite aval_get_jget.
    destruct (jget "abstract" node) as [ab|e]; cbn [bind]; [|apply rrel_err_same].
    destruct nv as [| | | |s| |]; cbn [jstr]; try apply rrel_err_same.
    assert (IH' : forall rels rel chl c, jget "relations" node = Ok (VList rels) -> In rel rels ->
              jget "children" rel = Ok (VList chl) -> In c chl -> tree_rel n f c).
    { intros rels rel chl c H1 H2 H3 H4.
      pose proof (depth_jget _ _ _ H1) as D1. pose proof (depth_list_in _ _ H2) as D2.
      pose proof (depth_jget _ _ _ H3) as D3. pose proof (depth_list_in _ _ H4) as D4.
      apply IH; lia. }
    unfold rd_info.
    destruct ab; cbn [json_abstract bind]; apply (src_parse_tree_tail n f here parent node s _ IH').
Qed.

(* ------------------------------------------------------------------ the constraints, relationally *)
Lemma src_model_ctc_rrel : forall av, rrel eq (model_ctc_of av) (src_ctc_of av).
Proof.
  intros av. unfold src_ctc_of, model_ctc_of.
  destruct (jget "name" av) as [nv|e]; [|apply rrel_err_same].
  destruct (jget "ast" av) as [tv|e]; [|apply rrel_err_same].
  destruct nv; cbn [jstr];
    destruct (json_parse_ctc (aval_depth tv) tv) as [n|e];
    first [apply rrel_err_other; discriminate | apply rrel_err_same | (cbn [rrel]; reflexivity)].
Qed.

Lemma mapM_rrel : forall {X A} (g h : X -> result A) (l : list X),
  (forall x, In x l -> rrel eq (g x) (h x)) -> rrel eq (mapM g l) (mapM h l).
Proof.
  intros X A g h. induction l as [|x xs IH]; intros H; [cbn; reflexivity|].
  rewrite !mapM_cons. pose proof (H x (or_introl eq_refl)) as Hx.
  destruct (g x) as [y|e], (h x) as [y'|e']; cbn [rrel] in Hx; try contradiction; [|exact Hx].
  subst y'.
  assert (IH' : rrel eq (mapM g xs) (mapM h xs)) by (apply IH; intros x0 Hx0; apply H; now right).
  destruct (mapM g xs) as [ys|e], (mapM h xs) as [ys'|e']; cbn [rrel] in IH' |- *; try contradiction.
  - now subst ys'.
  - exact IH'.
Qed.

(* ------------------------------------------------------------------ JSONReader.parse_json *)
Lemma src_json_parse_json_rrel : forall doc fuel, (aval_depth doc <= fuel)%nat ->
  rrel (fun pm m => m = erase_fm pm) (json_read doc) (py_JSONReader_parse_json fuel doc).
Proof.
  intros doc fuel Hf. rewrite json_read_constraints. unfold py_JSONReader_parse_json.
  rewrite aval_get_jget.
  destruct (jget "features" doc) as [fv|e] eqn:Hfv; cbn [bind]; [|apply rrel_err_same].
  rewrite aval_get_jget.
  destruct (jget "constraints" doc) as [cv|e] eqn:Hcv; cbn [bind]; [|apply rrel_err_same].
  pose proof (depth_jget _ _ _ Hfv) as D1. pose proof (depth_jget _ _ _ Hcv) as D2.
  assert (D3 : (aval_depth fv < fuel)%nat) by lia.
  pose proof (src_parse_tree_rel (aval_depth fv) fuel fv (le_n _) D3 [] PNone None) as Ht.
  destruct (json_parse_tree (aval_depth fv) [] PNone fv) as [pr|e],
           (py_parse_tree fuel None fv) as [r|e']; cbn [rrel] in Ht; try contradiction; cbn [bind]; [|exact Ht].
  subst r.
  destruct cv as [| | | | |cl|]; cbn [jlist bind]; try (apply rrel_err_other; discriminate).
  assert (D4 : (list_max (map aval_depth cl) <= fuel)%nat).
  { apply list_max_le. rewrite Forall_forall. intros d Hd. apply in_map_iff in Hd.
    destruct Hd as (x & <- & Hx). pose proof (depth_list_in _ _ Hx). lia. }
  rewrite (src_parse_constraints cl fuel D4).
  change (mapM _ cl) with (mapM src_ctc_of cl) at 2.
  pose proof (mapM_rrel model_ctc_of src_ctc_of cl (fun x _ => src_model_ctc_rrel x)) as Hc.
  destruct (mapM model_ctc_of cl) as [cs|e], (mapM src_ctc_of cl) as [cs'|e'];
    cbn [rrel bind] in Hc |- *; try contradiction; [|exact Hc].
  subst cs'. reflexivity.
Qed.

(* a model read by the hand-written reader is what the translated reader returns, pointers forgotten *)
Theorem src_json_parse_json : forall doc pm, json_read doc = Ok pm ->
  exists n0, forall fuel, (n0 <= fuel)%nat -> py_JSONReader_parse_json fuel doc = Ok (erase_fm pm).
Proof.
  intros doc pm H. exists (aval_depth doc). intros fuel Hf.
  pose proof (src_json_parse_json_rrel doc fuel Hf) as R. rewrite H in R.
  destruct (py_JSONReader_parse_json fuel doc) as [m|e]; cbn [rrel] in R; [|contradiction].
  now subst m.
Qed.

(* a document the hand-written reader rejects is rejected by the translated reader *)
Theorem src_json_parse_json_error : forall doc e, json_read doc = Err e ->
  exists n0, forall fuel, (n0 <= fuel)%nat -> exists e', py_JSONReader_parse_json fuel doc = Err e'.
Proof.
  intros doc e H. exists (aval_depth doc). intros fuel Hf.
  pose proof (src_json_parse_json_rrel doc fuel Hf) as R. rewrite H in R.
  destruct (py_JSONReader_parse_json fuel doc) as [m|e']; cbn [rrel] in R; [contradiction|].
  exists e'. reflexivity.
Qed.

(* ... and with the library's ParsingException when the hand-written reader says so *)
Theorem src_json_parse_json_library_error : forall doc, json_read doc = Err ParsingException ->
  exists n0, forall fuel, (n0 <= fuel)%nat -> py_JSONReader_parse_json fuel doc = Err ParsingException.
Proof.
  intros doc H. exists (aval_depth doc). intros fuel Hf.
  pose proof (src_json_parse_json_rrel doc fuel Hf) as R. rewrite H in R.
  destruct (py_JSONReader_parse_json fuel doc) as [m|e']; cbn [rrel] in R; [contradiction|].
  now rewrite (R eq_refl).
Qed.


(* The exception KINDS are not the same in general (so "= json_read doc" with the pointers erased is false on
   malformed documents): an attribute whose name is no string is OtherExn in the model, TypeError in the
   translation; a relation whose type is no string is OtherExn in the model and ParsingException in the
   translation (so the converse of the third theorem fails). *)
Example src_json_attr_name_kind :
  let doc := VMap [("features", VMap [("name", VStr "A"); ("abstract", VBool false);
                                      ("attributes", VList [VMap [("name", VInt 1)]])]);
                   ("constraints", VList [])] in
  (match json_read doc with Ok _ => None | Err e => Some e end,
   match py_JSONReader_parse_json 10 doc with Ok _ => None | Err e => Some e end)
  = (Some OtherExn, Some TypeError).
Proof. vm_compute. reflexivity. Qed.

Example src_json_rel_type_kind :
  let doc := VMap [("features", VMap [("name", VStr "A"); ("abstract", VBool false);
                                      ("relations", VList [VMap [("type", VInt 1);
                                         ("children", VList [VMap [("name", VStr "B"); ("abstract", VBool false)]])]])]);
                   ("constraints", VList [])] in
  (match json_read doc with Ok _ => None | Err e => Some e end,
   match py_JSONReader_parse_json 10 doc with Ok _ => None | Err e => Some e end)
  = (Some OtherExn, Some ParsingException).
Proof. vm_compute. reflexivity. Qed.

Print Assumptions src_json_parse_json_error.
Print Assumptions src_json_parse_json_library_error.
Print Assumptions src_json_parse_json.
