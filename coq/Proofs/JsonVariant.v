(* Proofs/JsonVariant.v — "a Glencoe / JSON document denotes its model whatever irrelevant JSON surface it has".

   Part 0  a generic compatibility theorem for the Glencoe reader: whenever three relations on JSON values
           (features table / tree node / constraint term) are respected by the look-ups the reader makes,
           related documents are read to the SAME result (same model or same exception), whatever the fuel.
   Part B  keys the format does not define are ignored at every level            (glencoe_read_extra)
   Part C  n-ary And/Or/Xor terms nested in first position can be flattened      (glencoe_read_flat)
   Part A  objects are read by key, not by position                              (glencoe_read_perm, json_read_perm)
           — FALSE for the "constraints" object of a Glencoe document (its entry order is the order of the
           constraint list) and, for json_read, under "abstract" and an attribute's "value" (the raw value is
           stored in the model); exactly these are excluded, counterexamples are kept below. *)
From Coq Require Import List Bool Ascii String ZArith Lia Permutation Wf_nat Relations.
From FM Require Import Base.Result Base.Str Base.AstOp Gen.Tables_json Model.Ast Model.FM Model.PFM Format.Json Format.Glencoe
     Proofs.JsonFacts Proofs.GlencoeFacts Proofs.C09Facts.
Import ListNotations.
Local Open Scope string_scope.
Local Open Scope list_scope.

(* ================================================================== Part 0 : generic machinery *)

(* two results agree: the same exception, or values related by [P] *)
Definition res_rel {A} (P : A -> A -> Prop) (r r' : result A) : Prop :=
  match r, r' with
  | Ok a, Ok a' => P a a'
  | Err e, Err e' => e = e'
  | _, _ => False
  end.

Lemma res_rel_refl {A} (P : A -> A -> Prop) r : (forall a, P a a) -> res_rel P r r.
Proof. intros H. destruct r as [a|e]; cbn [res_rel]; [apply H|reflexivity]. Qed.

Lemma res_rel_impl {A} (P Q : A -> A -> Prop) r r' :
  (forall a a', P a a' -> Q a a') -> res_rel P r r' -> res_rel Q r r'.
Proof. intros H. destruct r as [a|e], r' as [a'|e']; cbn [res_rel]; auto. Qed.

(* the two values cannot be told apart by the scalar projections of the reader *)
Definition leaf_eq (v v' : aval) : Prop := jstr v = jstr v' /\ jtruthy v = jtruthy v' /\ jint v = jint v'.

Lemma leaf_eq_refl v : leaf_eq v v.
Proof. repeat split. Qed.

Lemma Forall2_refl {A} (R : A -> A -> Prop) : (forall a, R a a) -> forall l, Forall2 R l l.
Proof. intros H l. induction l as [|a l IH]; constructor; [apply H|exact IH]. Qed.

Lemma Forall2_nth_error {A} (R : A -> A -> Prop) : forall l l' i, Forall2 R l l' ->
  match nth_error l i, nth_error l' i with
  | Some x, Some x' => R x x' /\ In x l /\ In x' l'
  | None, None => True
  | _, _ => False
  end.
Proof.
  intros l l' i H. revert i. induction H as [|x x' l l' Hx _ IH]; intros i.
  - destruct i; exact I.
  - destruct i as [|i]; cbn [nth_error].
    + split; [exact Hx|split; left; reflexivity].
    + specialize (IH i). destruct (nth_error l i) as [y|], (nth_error l' i) as [y'|]; try exact IH.
      destruct IH as (H1 & H2 & H3). split; [exact H1|split; right; assumption].
Qed.

Lemma mapM_app {A B} (f : A -> result B) : forall l1 l2,
  mapM f (l1 ++ l2) =
  match mapM f l1 with
  | Err e => Err e
  | Ok a => match mapM f l2 with Err e => Err e | Ok b => Ok (a ++ b) end
  end.
Proof.
  induction l1 as [|x l1 IH]; intros l2.
  - cbn [app]. rewrite mapM_nil. destruct (mapM f l2); reflexivity.
  - cbn [app]. rewrite !mapM_cons, IH. destruct (f x) as [y|e]; [|reflexivity].
    destruct (mapM f l1) as [a|e]; [|reflexivity]. destruct (mapM f l2) as [b|e]; reflexivity.
Qed.

Lemma mapM_rel {A B} (R : A -> A -> Prop) (f g : A -> result B) : forall l l',
  Forall2 R l l' -> (forall x x', In x l -> In x' l' -> R x x' -> f x = g x') -> mapM f l = mapM g l'.
Proof.
  intros l l' H. induction H as [|x x' l l' Hx _ IH]; intros Hfg; [reflexivity|].
  rewrite !mapM_cons. rewrite (Hfg x x' (or_introl eq_refl) (or_introl eq_refl) Hx).
  rewrite IH; [reflexivity|]. intros y y' Hy Hy'. apply Hfg; right; assumption.
Qed.

Lemma mapM_ok_cons {A B} (f : A -> result B) x xs l : mapM f (x :: xs) = Ok l -> exists y ys, l = y :: ys.
Proof.
  rewrite mapM_cons. destruct (f x) as [y|e]; [|discriminate]. destruct (mapM f xs) as [ys|e]; [|discriminate].
  intros H. inversion H. eauto.
Qed.

(* ---- the key sets of the four kinds of Glencoe objects ---- *)
Definition doc_keys  : list string := ["features"; "tree"; "constraints"].
Definition feat_keys : list string := ["name"; "type"; "optional"; "min"; "max"].
Definition tree_keys : list string := ["id"; "children"].
Definition term_keys : list string := ["type"; "operands"].

(* the reader's constraint step, with the recursive call abstracted *)
Definition ctc_body (rec : aval -> result node) (fi : aval) (ty : string) (ops : list aval) : result node :=
  let sub (i : nat) : result node :=
    match nth_operand ops i with Err e => Err e | Ok x => rec x end in
  let bin2 (o : astop) : result node :=
    match sub 0%nat with Err e => Err e | Ok a =>
    match sub 1%nat with Err e => Err e | Ok b => Ok (bin o a b) end end in
  let nary (o : astop) : result node :=
    match mapM rec ops with Err e => Err e | Ok l => reduce_op o l end in
  if String.eqb ty "FeatureTerm" then
    match nth_operand ops 0 with Err e => Err e | Ok x =>
    match finfo_get fi x "name" with Err e => Err e | Ok nv =>
    match jstr nv with Err _ => Err FlamaException | Ok nm => Ok (term nm) end end end
  else if String.eqb ty "NotTerm" then
    match sub 0%nat with Err e => Err e | Ok a => Ok (un NOT a) end
  else if String.eqb ty "ImpliesTerm" then bin2 IMPLIES
  else if String.eqb ty "ExcludesTerm" then bin2 EXCLUDES
  else if String.eqb ty "EquivalentTerm" then bin2 EQUIVALENCE
  else if String.eqb ty "AndTerm" then nary AND
  else if String.eqb ty "OrTerm" then nary OR
  else if String.eqb ty "XorTerm" then nary XOR
  else Err FlamaException.

Lemma glencoe_parse_ctc_S fuel fi info :
  glencoe_parse_ctc (S fuel) fi info =
  match jget "type" info with Err e => Err e | Ok tv =>
  match jget "operands" info with Err e => Err e | Ok ov =>
  match jstr tv with Err e => Err e | Ok ty =>
  match jlist ov with Err e => Err e | Ok ops => ctc_body (glencoe_parse_ctc fuel fi) fi ty ops
  end end end end.
Proof. reflexivity. Qed.

(* data.get("constraints", {}) *)
Definition gl_constraints (doc : aval) : result aval :=
  match doc with
  | VMap kv => match assoc "constraints" kv with Some x => Ok x | None => Ok (VMap []) end
  | _ => Err AttributeError
  end.

Definition gl_ctc_entry (fv : aval) (kc : string * aval) : result ctc :=
  match glencoe_parse_ctc (aval_depth (snd kc)) fv (snd kc) with
  | Err e => Err e
  | Ok n => Ok {| c_name := fst kc; c_ast := n |}
  end.

Lemma glencoe_read_eq doc :
  glencoe_read doc =
  match jget "features" doc with Err e => Err e | Ok fv =>
  match jget "tree" doc with Err e => Err e | Ok tv =>
  match gl_constraints doc with Err e => Err e | Ok cv =>
  match glencoe_parse_tree (aval_depth tv) fv [] PNone tv with Err e => Err e | Ok proot_ =>
  match cv with
  | VMap ckv => match mapM (gl_ctc_entry fv) ckv with
                | Err e => Err e
                | Ok cs => Ok {| proot := proot_; pctcs := cs |}
                end
  | _ => Err AttributeError
  end end end end end.
Proof. reflexivity. Qed.

(* the accepted n-ary term types *)
Definition nary_ty (ty : string) (o : astop) : Prop :=
  (ty = "AndTerm" /\ o = AND) \/ (ty = "OrTerm" /\ o = OR) \/ (ty = "XorTerm" /\ o = XOR).

(* same keys in the same order, values related *)
Definition dict_rel (R : aval -> aval -> Prop) : list (string * aval) -> list (string * aval) -> Prop :=
  Forall2 (fun e e' => fst e = fst e' /\ R (snd e) (snd e')).

Lemma assoc_dict_rel (R : aval -> aval -> Prop) k : forall kv kv', dict_rel R kv kv' ->
  match assoc k kv, assoc k kv' with
  | Some v, Some v' => R v v'
  | None, None => True
  | _, _ => False
  end.
Proof.
  intros kv kv' H. induction H as [|[k1 v1] [k2 v2] kv kv' [Hk Hv] _ IH]; [exact I|].
  cbn [fst snd] in Hk, Hv. subst k2. cbn [assoc]. destruct (String.eqb k k1); [exact Hv|exact IH].
Qed.

(* ---- what the reader can observe of a features table / a tree node / a constraint term ---- *)
Definition feats_compat (fv fv' : aval) : Prop :=
  forall id id' key, jstr id = jstr id' -> In key feat_keys ->
    res_rel leaf_eq (finfo_get fv id key) (finfo_get fv' id' key).

Definition tnode_compat (Rt : aval -> aval -> Prop) (tv tv' : aval) : Prop :=
  res_rel (fun a b => jstr a = jstr b) (jget "id" tv) (jget "id" tv') /\
  jhas "children" tv = jhas "children" tv' /\
  res_rel (fun chv chv' => res_rel (Forall2 Rt) (jlist chv) (jlist chv')) (jget "children" tv) (jget "children" tv').

Definition cterm_compat (Rc : aval -> aval -> Prop) (c c' : aval) : Prop :=
  jstr c = jstr c' /\
  res_rel (fun a b => jstr a = jstr b) (jget "type" c) (jget "type" c') /\
  res_rel (fun ov ov' => res_rel (Forall2 Rc) (jlist ov) (jlist ov')) (jget "operands" c) (jget "operands" c').

(* T [T xs; ys...]  ~>  T (xs ++ ys), operands related *)
Definition cterm_flat (Rc : aval -> aval -> Prop) (c c' : aval) : Prop :=
  exists ty o xs ys zs, nary_ty ty o /\ xs <> [] /\
    c = nary_term ty (nary_term ty xs :: ys) /\ c' = nary_term ty zs /\ Forall2 Rc (xs ++ ys) zs.

Definition cmap_compat (Rc : aval -> aval -> Prop) (cv cv' : aval) : Prop :=
  match cv, cv' with
  | VMap ckv, VMap ckv' => dict_rel Rc ckv ckv'
  | VMap _, _ | _, VMap _ => False
  | _, _ => True
  end.

Definition doc_compat (Rf Rt Rc : aval -> aval -> Prop) (d d' : aval) : Prop :=
  res_rel Rf (jget "features" d) (jget "features" d') /\
  res_rel Rt (jget "tree" d) (jget "tree" d') /\
  res_rel (cmap_compat Rc) (gl_constraints d) (gl_constraints d').

Lemma nary_term_depth ty ops x : In x ops -> aval_depth x + 2 <= aval_depth (nary_term ty ops).
Proof.
  intros H. apply depth_list_in in H.
  assert (H2 : aval_depth (VList ops) < aval_depth (nary_term ty ops)).
  { apply (depth_map_assoc "operands"). reflexivity. }
  lia.
Qed.

Lemma aval_depth_pos v : 1 <= aval_depth v.
Proof. destruct v; cbn [aval_depth]; lia. Qed.

(* step through two related results: same error (goal closed) or two related values *)
Ltac rr_step H x x' Ex Ex' :=
  match type of H with
  | res_rel _ ?a ?b =>
      let e := fresh "e" in let e' := fresh "e" in
      destruct a as [x|e] eqn:Ex; destruct b as [x'|e'] eqn:Ex'; cbn [res_rel] in H;
      [ | contradiction | contradiction | first [rewrite H; reflexivity | reflexivity] ]
  end.

Section Compat.
  Variables Rf Rt Rc : aval -> aval -> Prop.
  Hypothesis Hf : forall fv fv', Rf fv fv' -> feats_compat fv fv'.
  Hypothesis Ht : forall tv tv', Rt tv tv' -> tnode_compat Rt tv tv'.
  Hypothesis Hc : forall c c', Rc c c' -> cterm_compat Rc c c' \/ cterm_flat Rc c c'.

  Lemma opt_key : In "optional" feat_keys. Proof. cbn; tauto. Qed.
  Lemma type_key : In "type" feat_keys. Proof. cbn; tauto. Qed.
  Lemma name_key : In "name" feat_keys. Proof. cbn; tauto. Qed.
  Lemma min_key : In "min" feat_keys. Proof. cbn; tauto. Qed.
  Lemma max_key : In "max" feat_keys. Proof. cbn; tauto. Qed.

  (* ---------------- tree ---------------- *)
  Lemma gl_child_opt_compat fv fv' c c' : Rf fv fv' -> Rt c c' -> gl_child_opt fv c = gl_child_opt fv' c'.
  Proof.
    intros HRf HRt. destruct (Ht _ _ HRt) as (Hid & _ & _). unfold gl_child_opt.
    rr_step Hid cid cid' E1 E2.
    pose proof (Hf _ _ HRf cid cid' "optional" Hid opt_key) as Ho.
    rr_step Ho ov ov' E3 E4. destruct Ho as (_ & Hb & _). rewrite Hb. reflexivity.
  Qed.

  Lemma gl_flags_compat fv fv' chl chl' : Rf fv fv' -> Forall2 Rt chl chl' -> gl_flags fv chl = gl_flags fv' chl'.
  Proof.
    intros HRf H. unfold gl_flags. induction H as [|c c' l l' Hcc _ IH]; [reflexivity|].
    cbn [map]. rewrite IH. f_equal.
    pose proof (gl_child_opt_compat fv fv' c c' HRf Hcc) as Ho. unfold gl_child_opt in Ho.
    destruct (jget "id" c) as [cid|e], (jget "id" c') as [cid'|e']; try discriminate; try reflexivity.
    - destruct (finfo_get fv cid "optional") as [ov|e], (finfo_get fv' cid' "optional") as [ov'|e'];
        try discriminate; try reflexivity.
      injection Ho as ->. reflexivity.
    - destruct (finfo_get fv cid "optional") as [ov|e]; [discriminate|reflexivity].
    - destruct (finfo_get fv' cid' "optional") as [ov'|e']; [discriminate|reflexivity].
  Qed.

  Lemma gl_goc_compat rec rec' fv fv' here wh : Rf fv fv' -> forall chl chl', Forall2 Rt chl chl' ->
    (forall h c c', In c chl -> In c' chl' -> Rt c c' -> rec h c = rec' h c') ->
    forall p, gl_goc rec fv here wh p chl = gl_goc rec' fv' here wh p chl'.
  Proof.
    intros HRf chl chl' H. induction H as [|c c' l l' Hcc _ IH]; intros Hrec p; [reflexivity|].
    cbn [gl_goc]. rewrite (Hrec _ c c' (or_introl eq_refl) (or_introl eq_refl) Hcc).
    rewrite (gl_child_opt_compat fv fv' c c' HRf Hcc).
    rewrite IH; [reflexivity|]. intros h y y' Hy Hy'. apply Hrec; right; assumption.
  Qed.

  Lemma gl_build_compat fv fv' fid fid' fty info here parent kids :
    Rf fv fv' -> jstr fid = jstr fid' ->
    gl_build fv fid fty info here parent kids = gl_build fv' fid' fty info here parent kids.
  Proof.
    intros HRf Hid. unfold gl_build.
    destruct (String.eqb fty "FEATURE"); [reflexivity|]. cbv zeta.
    destruct (map fst (filter (fun ko : pfeature * bool => snd ko) kids)) as [|g0 gs]; [reflexivity|].
    assert (Hgrp : forall n, gl_grp fv fid fty n = gl_grp fv' fid' fty n); [|rewrite Hgrp; reflexivity].
    intros n. unfold gl_grp.
    destruct (String.eqb fty "XOR"); [reflexivity|].
    destruct (String.eqb fty "OR"); [reflexivity|].
    pose proof (Hf _ _ HRf fid fid' "min" Hid min_key) as Hmin.
    pose proof (Hf _ _ HRf fid fid' "max" Hid max_key) as Hmax.
    rr_step Hmin a a' E1 E2. rr_step Hmax b b' E3 E4.
    destruct Hmin as (_ & _ & Ha). destruct Hmax as (_ & _ & Hb). rewrite Ha, Hb. reflexivity.
  Qed.

  Theorem parse_tree_compat : forall n1 n2 fv fv' here parent tv tv',
    Rf fv fv' -> Rt tv tv' -> aval_depth tv <= n1 -> aval_depth tv' <= n2 ->
    glencoe_parse_tree n1 fv here parent tv = glencoe_parse_tree n2 fv' here parent tv'.
  Proof.
    induction n1 as [|n1 IH]; intros n2 fv fv' here parent tv tv' HRf HRt Hd Hd'.
    { pose proof (aval_depth_pos tv). lia. }
    destruct n2 as [|n2]. { pose proof (aval_depth_pos tv'). lia. }
    rewrite !glencoe_parse_tree_S.
    destruct (Ht _ _ HRt) as (Hid & Hhas & Hch).
    rr_step Hid fid fid' E1 E2.
    pose proof (Hf _ _ HRf fid fid' "type" Hid type_key) as Hty.
    rr_step Hty tyv tyv' E3 E4.
    pose proof (Hf _ _ HRf fid fid' "name" Hid name_key) as Hnm.
    rr_step Hnm nmv nmv' E5 E6.
    destruct Hty as (Hty & _ & _). destruct Hnm as (Hnm & _ & _). rewrite <- Hty, <- Hnm.
    destruct (jstr tyv) as [fty|e]; [|reflexivity].
    destruct (jstr nmv) as [fname|e]; [|reflexivity].
    destruct (negb (gl_known_type fty)); [reflexivity|].
    rewrite <- Hhas. destruct (jhas "children" tv); [|reflexivity].
    rr_step Hch chv chv' E7 E8.
    rr_step Hch chl chl' E9 E10.
    unfold gl_mand. rewrite (gl_flags_compat fv fv' chl chl' HRf Hch).
    rewrite (gl_goc_compat _ (fun h c => glencoe_parse_tree n2 fv' h (PPath here) c) fv fv' here _ HRf chl chl' Hch).
    - destruct (gl_goc _ fv' here _ 0 chl') as [kids|e]; [|reflexivity].
      apply gl_build_compat; assumption.
    - intros h c c' Hin Hin' Hcc. apply IH; [assumption|assumption| |].
      + apply depth_jget in E7. destruct chv; try discriminate. cbn [jlist] in E9. inversion E9; subst.
        apply depth_list_in in Hin. lia.
      + apply depth_jget in E8. destruct chv'; try discriminate. cbn [jlist] in E10. inversion E10; subst.
        apply depth_list_in in Hin'. lia.
  Qed.

  (* ---------------- constraints ---------------- *)
  Lemma Rc_jstr c c' : Rc c c' -> jstr c = jstr c'.
  Proof.
    intros H. destruct (Hc _ _ H) as [(Hs & _)|(ty & o & xs & ys & zs & _ & _ & -> & -> & _)]; [exact Hs|reflexivity].
  Qed.

  Lemma ctc_body_compat rec rec' fv fv' ty ops ops' :
    Rf fv fv' -> Forall2 Rc ops ops' ->
    (forall x x', In x ops -> In x' ops' -> Rc x x' -> rec x = rec' x') ->
    ctc_body rec fv ty ops = ctc_body rec' fv' ty ops'.
  Proof.
    intros HRf Hops Hrec.
    assert (Hsub : forall i,
      match nth_operand ops i with Err e => Err e | Ok x => rec x end =
      match nth_operand ops' i with Err e => Err e | Ok x => rec' x end).
    { intros i. unfold nth_operand. pose proof (Forall2_nth_error Rc ops ops' i Hops) as Hn.
      destruct (nth_error ops i) as [x|], (nth_error ops' i) as [x'|]; try contradiction; [|reflexivity].
      destruct Hn as (H1 & H2 & H3). apply Hrec; assumption. }
    assert (Hmap : mapM rec ops = mapM rec' ops').
    { apply (mapM_rel Rc); assumption. }
    unfold ctc_body. rewrite !Hsub, Hmap.
    destruct (String.eqb ty "FeatureTerm"); [|reflexivity].
    unfold nth_operand. pose proof (Forall2_nth_error Rc ops ops' 0 Hops) as Hn.
    destruct (nth_error ops 0) as [x|], (nth_error ops' 0) as [x'|]; try contradiction; [|reflexivity].
    destruct Hn as (H1 & _ & _).
    pose proof (Hf _ _ HRf x x' "name" (Rc_jstr _ _ H1) name_key) as Hnm.
    rr_step Hnm nv nv' E1 E2. destruct Hnm as (Hnm & _ & _). rewrite Hnm. reflexivity.
  Qed.

  Theorem parse_ctc_compat : forall n1 n2 fv fv' c c',
    Rf fv fv' -> Rc c c' -> aval_depth c <= n1 -> aval_depth c' <= n2 ->
    glencoe_parse_ctc n1 fv c = glencoe_parse_ctc n2 fv' c'.
  Proof.
    induction n1 as [n1 IH] using lt_wf_ind. intros n2 fv fv' c c' HRf HRc Hd Hd'.
    destruct n1 as [|m1]. { pose proof (aval_depth_pos c). lia. }
    destruct n2 as [|m2]. { pose proof (aval_depth_pos c'). lia. }
    destruct (Hc _ _ HRc) as [(_ & Hty & Hops)|(ty & o & xs & ys & zs & Hn & Hxs & -> & -> & Hzs)].
    - (* look-up compatible *)
      rewrite !glencoe_parse_ctc_S.
      rr_step Hty tv tv' E1 E2. rr_step Hops ov ov' E3 E4. rewrite <- Hty.
      destruct (jstr tv) as [ty|e]; [|reflexivity].
      rr_step Hops ops ops' E5 E6.
      apply ctc_body_compat; [assumption|assumption|].
      intros x x' Hin Hin' Hxx. apply (IH m1); [lia|assumption|assumption| |].
      + apply depth_jget in E3. destruct ov; try discriminate. cbn [jlist] in E5. inversion E5; subst.
        apply depth_list_in in Hin. lia.
      + apply depth_jget in E4. destruct ov'; try discriminate. cbn [jlist] in E6. inversion E6; subst.
        apply depth_list_in in Hin'. lia.
    - (* flattening *)
      destruct (Forall2_app_inv_l _ _ Hzs) as (zx & zy & Hzx & Hzy & ->).
      assert (Hin1 : aval_depth (nary_term ty xs) + 2 <= aval_depth (nary_term ty (nary_term ty xs :: ys))).
      { apply nary_term_depth. left; reflexivity. }
      destruct m1 as [|m1']; [lia|].
      rewrite (glencoe_nary _ _ ty o _ Hn), (glencoe_nary _ _ ty o _ Hn).
      rewrite mapM_cons, (glencoe_nary _ _ ty o _ Hn), mapM_app.
      assert (Hx : mapM (glencoe_parse_ctc m1' fv) xs = mapM (glencoe_parse_ctc m2 fv') zx).
      { apply (mapM_rel Rc); [exact Hzx|]. intros x x' Hin Hin' Hxx.
        apply (IH m1'); [lia|assumption|assumption| |].
        - pose proof (nary_term_depth ty xs x Hin). lia.
        - pose proof (nary_term_depth ty (zx ++ zy) x' (in_or_app _ _ _ (or_introl Hin'))). lia. }
      assert (Hy : mapM (glencoe_parse_ctc (S m1') fv) ys = mapM (glencoe_parse_ctc m2 fv') zy).
      { apply (mapM_rel Rc); [exact Hzy|]. intros y y' Hin Hin' Hyy.
        apply (IH (S m1')); [lia|assumption|assumption| |].
        - pose proof (nary_term_depth ty (nary_term ty xs :: ys) y (or_intror Hin)). lia.
        - pose proof (nary_term_depth ty (zx ++ zy) y' (in_or_app _ _ _ (or_intror Hin'))). lia. }
      rewrite Hx, Hy.
      destruct xs as [|x0 xs0]; [congruence|].
      destruct (mapM (glencoe_parse_ctc m2 fv') zx) as [la|e]; [|reflexivity].
      destruct (mapM_ok_cons _ _ _ _ Hx) as (a0 & la' & ->).
      cbn [reduce_op]. destruct (mapM (glencoe_parse_ctc m2 fv') zy) as [lb|e]; [|reflexivity].
      cbn [reduce_op app]. rewrite fold_left_app. reflexivity.
  Qed.

  (* ---------------- document ---------------- *)
  Theorem glencoe_read_compat : forall d d', doc_compat Rf Rt Rc d d' -> glencoe_read d = glencoe_read d'.
  Proof.
    intros d d' (Hfe & Htr & Hcs). rewrite !glencoe_read_eq.
    rr_step Hfe fv fv' E1 E2. rr_step Htr tv tv' E3 E4. rr_step Hcs cv cv' E5 E6.
    rewrite (parse_tree_compat (aval_depth tv) (aval_depth tv') fv fv' [] PNone tv tv' Hfe Htr (le_n _) (le_n _)).
    destruct (glencoe_parse_tree (aval_depth tv') fv' [] PNone tv') as [pr|e]; [|reflexivity].
    destruct cv as [| | | | | |ckv], cv' as [| | | | | |ckv']; cbn [cmap_compat] in Hcs; try contradiction;
      try reflexivity.
    assert (Hm : mapM (gl_ctc_entry fv) ckv = mapM (gl_ctc_entry fv') ckv').
    { apply (mapM_rel (fun e e' => fst e = fst e' /\ Rc (snd e) (snd e'))); [exact Hcs|].
      intros [k c] [k' c'] _ _ [Hk Hcc]. cbn [fst snd] in Hk, Hcc. subst k'. unfold gl_ctc_entry. cbn [fst snd].
      rewrite (parse_ctc_compat (aval_depth c) (aval_depth c') fv fv' c c' Hfe Hcc (le_n _) (le_n _)).
      reflexivity. }
    rewrite Hm. reflexivity.
  Qed.
End Compat.

(* ================================================================== Part B / C : the relations *)

(* entry lists of an object whose look-up keys are [keys]: pairs with a key outside [keys] may be INSERTED
   anywhere; the value of a kept pair may change as [R key] allows *)
Inductive xents (keys : list string) (R : string -> aval -> aval -> Prop)
  : list (string * aval) -> list (string * aval) -> Prop :=
| xe_nil : xents keys R [] []
| xe_ins k v kv kv' : ~ In k keys -> xents keys R kv kv' -> xents keys R kv ((k, v) :: kv')
| xe_keep k v v' kv kv' : R k v v' -> xents keys R kv kv' -> xents keys R ((k, v) :: kv) ((k, v') :: kv').

Lemma assoc_xents keys (R : string -> aval -> aval -> Prop) k : In k keys -> forall kv kv', xents keys R kv kv' ->
  match assoc k kv, assoc k kv' with
  | Some v, Some v' => R k v v'
  | None, None => True
  | _, _ => False
  end.
Proof.
  intros Hk kv kv' H. induction H as [|k0 v kv kv' Hn _ IH|k0 v v' kv kv' Hv _ IH]; [exact I| |].
  - cbn [assoc]. destruct (String.eqb k k0) eqn:E; [|exact IH].
    apply String.eqb_eq in E. subst k0. contradiction.
  - cbn [assoc]. destruct (String.eqb k k0) eqn:E; [|exact IH].
    apply String.eqb_eq in E. subst k0. exact Hv.
Qed.

Lemma jget_xents keys (R : string -> aval -> aval -> Prop) k kv kv' : In k keys -> xents keys R kv kv' ->
  res_rel (R k) (jget k (VMap kv)) (jget k (VMap kv')).
Proof.
  intros Hk H. pose proof (assoc_xents keys R k Hk kv kv' H) as Ha. cbn [jget].
  destruct (assoc k kv), (assoc k kv'); try contradiction; cbn [res_rel]; [exact Ha|reflexivity].
Qed.

Lemma jhas_xents keys (R : string -> aval -> aval -> Prop) k kv kv' : In k keys -> xents keys R kv kv' -> jhas k (VMap kv) = jhas k (VMap kv').
Proof.
  intros Hk H. pose proof (assoc_xents keys R k Hk kv kv' H) as Ha. cbn [jhas].
  destruct (assoc k kv), (assoc k kv'); try contradiction; reflexivity.
Qed.

Lemma xents_refl keys (R : string -> aval -> aval -> Prop) : (forall k v, R k v v) -> forall kv, xents keys R kv kv.
Proof. intros H kv. induction kv as [|[k v] kv IH]; constructor; [apply H|exact IH]. Qed.

Lemma jget_dict_rel (R : aval -> aval -> Prop) k kv kv' : dict_rel R kv kv' -> res_rel R (jget k (VMap kv)) (jget k (VMap kv')).
Proof.
  intros H. pose proof (assoc_dict_rel R k kv kv' H) as Ha. cbn [jget].
  destruct (assoc k kv), (assoc k kv'); try contradiction; cbn [res_rel]; [exact Ha|reflexivity].
Qed.

(* a JSON list whose elements are related *)
Inductive lift_list (R : aval -> aval -> Prop) : aval -> aval -> Prop :=
| ll_list l l' : Forall2 R l l' -> lift_list R (VList l) (VList l').

(* an object whose KEYS are data (feature ids, constraint names): same keys, same order, related values *)
Inductive dictx (R : aval -> aval -> Prop) : aval -> aval -> Prop :=
| dx_refl v : dictx R v v
| dx_map kv kv' : dict_rel R kv kv' -> dictx R (VMap kv) (VMap kv').

(* an entry of the "features" map: look-up keys [feat_keys], values unchanged *)
Inductive fx_entry : aval -> aval -> Prop :=
| fxe_refl v : fx_entry v v
| fxe_map kv kv' : xents feat_keys (fun _ v v' => v = v') kv kv' -> fx_entry (VMap kv) (VMap kv').

(* the "features" map *)
Definition fx : aval -> aval -> Prop := dictx fx_entry.

(* a tree node: look-up keys [tree_keys]; below "children", a list of tree nodes *)
Inductive tx : aval -> aval -> Prop :=
| tx_refl v : tx v v
| tx_node kv kv' :
    xents tree_keys (fun k v v' => v = v' \/ (k = "children" /\ lift_list tx v v')) kv kv' ->
    tx (VMap kv) (VMap kv').

(* a constraint term: look-up keys [term_keys]; below "operands", a list of terms.
   With [fl = true] an n-ary term standing first in a term of the same type may also be flattened:
   T [T xs; ys...] ~> T (xs ++ ys), xs non-empty. *)
Inductive cvar (fl : bool) : aval -> aval -> Prop :=
| cv_refl v : cvar fl v v
| cv_node kv kv' :
    xents term_keys (fun k v v' => v = v' \/ (k = "operands" /\ lift_list (cvar fl) v v')) kv kv' ->
    cvar fl (VMap kv) (VMap kv')
| cv_flat ty o xs ys zs :
    fl = true -> nary_ty ty o -> xs <> [] -> Forall2 (cvar fl) (xs ++ ys) zs ->
    cvar fl (nary_term ty (nary_term ty xs :: ys)) (nary_term ty zs).

(* the document: look-up keys [doc_keys] *)
Definition gdoc_val (fl : bool) (k : string) (v v' : aval) : Prop :=
  v = v' \/ (k = "features" /\ fx v v') \/ (k = "tree" /\ tx v v') \/ (k = "constraints" /\ dictx (cvar fl) v v').

Inductive gvar (fl : bool) : aval -> aval -> Prop :=
| gv_refl d : gvar fl d d
| gv_doc kv kv' : xents doc_keys (gdoc_val fl) kv kv' -> gvar fl (VMap kv) (VMap kv').

Definition gextra : aval -> aval -> Prop := gvar false.   (* Part B: extra keys only *)
Definition gflat  : aval -> aval -> Prop := gvar true.    (* Part C: extra keys and flattened n-ary terms *)

(* ---- the relations are respected by the reader's look-ups ---- *)
Lemma feats_compat_intro (Re : aval -> aval -> Prop) fv fv' :
  (forall k, res_rel Re (jget k fv) (jget k fv')) ->
  (forall fi fi' key, Re fi fi' -> In key feat_keys -> res_rel leaf_eq (jget key fi) (jget key fi')) ->
  feats_compat fv fv'.
Proof.
  intros H1 H2 id id' key Hid Hkey. unfold finfo_get. rewrite <- Hid.
  destruct (jstr id) as [ids|e]; [|reflexivity].
  specialize (H1 ids). destruct (jget ids fv) as [fi|e], (jget ids fv') as [fi'|e']; cbn [res_rel] in H1;
    try contradiction; [|exact H1].
  apply H2; assumption.
Qed.

Lemma fx_compat fv fv' : fx fv fv' -> feats_compat fv fv'.
Proof.
  intros H. apply (feats_compat_intro fx_entry).
  - intros k. destruct H as [v|kv kv' H].
    + apply res_rel_refl. apply fxe_refl.
    + apply jget_dict_rel. exact H.
  - intros fi fi' key He Hkey. destruct He as [v|kv kv' He].
    + apply res_rel_refl. apply leaf_eq_refl.
    + eapply res_rel_impl; [|exact (jget_xents _ _ key _ _ Hkey He)].
      intros a a' ->. apply leaf_eq_refl.
Qed.

Lemma lift_refl_compat (R : aval -> aval -> Prop) : (forall v, R v v) ->
  forall r : result aval, res_rel (fun chv chv' => res_rel (Forall2 R) (jlist chv) (jlist chv')) r r.
Proof.
  intros HR r. apply res_rel_refl. intros a. apply res_rel_refl. apply Forall2_refl. exact HR.
Qed.

Lemma tx_compat tv tv' : tx tv tv' -> tnode_compat tx tv tv'.
Proof.
  intros H. destruct H as [v|kv kv' H].
  - split; [apply res_rel_refl; reflexivity|]. split; [reflexivity|]. apply lift_refl_compat. apply tx_refl.
  - split; [|split].
    + eapply res_rel_impl; [|exact (jget_xents tree_keys _ "id" kv kv' ltac:(cbn; tauto) H)].
      intros a a' [->|[Hk _]]; [reflexivity|discriminate].
    + exact (jhas_xents tree_keys _ "children" kv kv' ltac:(cbn; tauto) H).
    + eapply res_rel_impl; [|exact (jget_xents tree_keys _ "children" kv kv' ltac:(cbn; tauto) H)].
      intros a a' [->|[_ Hl]].
      * apply res_rel_refl. apply Forall2_refl. apply tx_refl.
      * destruct Hl as [l l' Hl]. exact Hl.
Qed.

Lemma cvar_compat fl c c' : cvar fl c c' -> cterm_compat (cvar fl) c c' \/ cterm_flat (cvar fl) c c'.
Proof.
  intros H. destruct H as [v|kv kv' H|ty o xs ys zs _ Hn Hxs Hzs].
  - left. split; [reflexivity|]. split; [apply res_rel_refl; reflexivity|]. apply lift_refl_compat. apply cv_refl.
  - left. split; [reflexivity|]. split.
    + eapply res_rel_impl; [|exact (jget_xents term_keys _ "type" kv kv' ltac:(cbn; tauto) H)].
      intros a a' [->|[Hk _]]; [reflexivity|discriminate].
    + eapply res_rel_impl; [|exact (jget_xents term_keys _ "operands" kv kv' ltac:(cbn; tauto) H)].
      intros a a' [->|[_ Hl]].
      * apply res_rel_refl. apply Forall2_refl. apply cv_refl.
      * destruct Hl as [l l' Hl]. exact Hl.
  - right. exists ty, o, xs, ys, zs. repeat split; assumption.
Qed.

Lemma cmap_compat_refl (R : aval -> aval -> Prop) : (forall v, R v v) -> forall cv, cmap_compat R cv cv.
Proof.
  intros HR cv. destruct cv; cbn [cmap_compat]; try exact I.
  apply Forall2_refl. intros a. split; [reflexivity|apply HR].
Qed.

Lemma cmap_compat_dictx (R : aval -> aval -> Prop) : (forall v, R v v) ->
  forall cv cv', dictx R cv cv' -> cmap_compat R cv cv'.
Proof.
  intros HR cv cv' H. destruct H as [v|kv kv' H]; [apply cmap_compat_refl; exact HR|exact H].
Qed.

Lemma gvar_compat fl d d' : gvar fl d d' -> doc_compat fx tx (cvar fl) d d'.
Proof.
  intros H. destruct H as [d|kv kv' H].
  - split; [apply res_rel_refl; apply dx_refl|]. split; [apply res_rel_refl; apply tx_refl|].
    apply res_rel_refl. apply cmap_compat_refl. apply cv_refl.
  - split; [|split].
    + eapply res_rel_impl; [|exact (jget_xents doc_keys _ "features" kv kv' ltac:(cbn; tauto) H)].
      intros a a' [->|[[_ Hx]|[[Hk _]|[Hk _]]]]; [apply dx_refl|exact Hx|discriminate|discriminate].
    + eapply res_rel_impl; [|exact (jget_xents doc_keys _ "tree" kv kv' ltac:(cbn; tauto) H)].
      intros a a' [->|[[Hk _]|[[_ Hx]|[Hk _]]]]; [apply tx_refl|discriminate|exact Hx|discriminate].
    + pose proof (assoc_xents doc_keys _ "constraints" ltac:(cbn; tauto) kv kv' H) as Ha.
      cbn [gl_constraints].
      destruct (assoc "constraints" kv) as [cv|], (assoc "constraints" kv') as [cv'|]; try contradiction;
        cbn [res_rel].
      * destruct Ha as [->|[[Hk _]|[[Hk _]|[_ Hx]]]]; [|discriminate|discriminate|].
        -- apply cmap_compat_refl. apply cv_refl.
        -- apply cmap_compat_dictx; [apply cv_refl|exact Hx].
      * constructor.
Qed.

(* ================================================================== Part B / C : the theorems *)
Theorem glencoe_read_var : forall fl d d', gvar fl d d' -> glencoe_read d = glencoe_read d'.
Proof.
  intros fl d d' H. apply (glencoe_read_compat fx tx (cvar fl) fx_compat tx_compat (cvar_compat fl)).
  apply gvar_compat. exact H.
Qed.

(* Part B *)
Theorem glencoe_read_extra : forall d d', gextra d d' -> glencoe_read d = glencoe_read d'.
Proof. exact (glencoe_read_var false). Qed.

(* Part C, document level *)
Theorem glencoe_read_flat : forall d d', gflat d d' -> glencoe_read d = glencoe_read d'.
Proof. exact (glencoe_read_var true). Qed.

(* any number of steps, in either direction *)
Corollary glencoe_read_var_star : forall fl d d',
  clos_refl_sym_trans aval (gvar fl) d d' -> glencoe_read d = glencoe_read d'.
Proof.
  intros fl d d' H. induction H as [x y H|x|x y _ IH|x y z _ IH1 _ IH2].
  - apply (glencoe_read_var fl). exact H.
  - reflexivity.
  - symmetry. exact IH.
  - rewrite IH1. exact IH2.
Qed.

(* the term-level statements, with explicit fuel: ANY two fuels that cover the depth of the terms *)
Theorem glencoe_parse_ctc_var : forall fl n1 n2 fv fv' c c',
  fx fv fv' -> cvar fl c c' -> aval_depth c <= n1 -> aval_depth c' <= n2 ->
  glencoe_parse_ctc n1 fv c = glencoe_parse_ctc n2 fv' c'.
Proof. intros fl. exact (parse_ctc_compat fx (cvar fl) fx_compat (cvar_compat fl)). Qed.

Theorem glencoe_parse_tree_var : forall n1 n2 fv fv' here parent tv tv',
  fx fv fv' -> tx tv tv' -> aval_depth tv <= n1 -> aval_depth tv' <= n2 ->
  glencoe_parse_tree n1 fv here parent tv = glencoe_parse_tree n2 fv' here parent tv'.
Proof. exact (parse_tree_compat fx tx fx_compat tx_compat). Qed.

(* the literal statement of the task: T [T [a; b]; c] and T [a; b; c] *)
Corollary glencoe_flatten_3 : forall ty o fv a b c n1 n2, nary_ty ty o ->
  aval_depth (nary_term ty [nary_term ty [a; b]; c]) <= n1 -> aval_depth (nary_term ty [a; b; c]) <= n2 ->
  glencoe_parse_ctc n1 fv (nary_term ty [nary_term ty [a; b]; c]) = glencoe_parse_ctc n2 fv (nary_term ty [a; b; c]).
Proof.
  intros ty o fv a b c n1 n2 Hn H1 H2.
  apply (glencoe_parse_ctc_var true); [apply dx_refl| |assumption|assumption].
  apply (cv_flat true ty o [a; b] [c] [a; b; c]); [reflexivity|exact Hn|discriminate|].
  apply Forall2_refl. apply cv_refl.
Qed.

(* fuel sufficiency of both Glencoe readers (both for results and for exceptions) *)
Corollary glencoe_parse_tree_fuel : forall n1 n2 fv here parent tv,
  aval_depth tv <= n1 -> aval_depth tv <= n2 ->
  glencoe_parse_tree n1 fv here parent tv = glencoe_parse_tree n2 fv here parent tv.
Proof. intros. apply glencoe_parse_tree_var; [apply dx_refl|apply tx_refl|assumption|assumption]. Qed.

Corollary glencoe_parse_ctc_fuel : forall n1 n2 fv c,
  aval_depth c <= n1 -> aval_depth c <= n2 -> glencoe_parse_ctc n1 fv c = glencoe_parse_ctc n2 fv c.
Proof. intros. apply (glencoe_parse_ctc_var false); [apply dx_refl|apply cv_refl|assumption|assumption]. Qed.

(* ================================================================== Part B / C : non-vacuity *)
Definition ex_model : fm :=
  {| root := Feature (mk_info "R") [Relation 1 1 [leaf "A"]; Relation 0 1 [leaf "B"]];
     ctcs := [ {| c_name := "c1"; c_ast := bin AND (bin AND (term "A") (term "B")) (term "B") |};
               {| c_name := "c2"; c_ast := bin IMPLIES (term "B") (term "A") |} ] |}.

Definition ft (s : string) : aval := VMap [("type", VStr "FeatureTerm"); ("operands", VList [VStr s])].
Definition ex_finfo (n : string) (opt : bool) : aval :=
  VMap [("name", VStr n); ("optional", VBool opt); ("type", VStr "FEATURE"); ("note", VStr "")].

Definition ex_doc : aval :=
  VMap [("id", VStr "FM_R"); ("name", VStr "FM_R");
        ("features", VMap [("A", ex_finfo "A" false); ("B", ex_finfo "B" true); ("R", ex_finfo "R" true)]);
        ("tree", VMap [("id", VStr "R"); ("children", VList [VMap [("id", VStr "A")]; VMap [("id", VStr "B")]])]);
        ("constraints",
         VMap [("c1", nary_term "AndTerm" [nary_term "AndTerm" [ft "A"; ft "B"]; ft "B"]);
               ("c2", VMap [("type", VStr "ImpliesTerm"); ("operands", VList [ft "B"; ft "A"])])])].

Example ex_doc_written : glencoe_write ex_model = Ok ex_doc.
Proof. vm_compute. reflexivity. Qed.

(* extra keys in the document, in an entry of "features", in tree nodes (two levels) and in constraint terms
   (two levels); the inserted values are arbitrary (here also deeper than the document) *)
Definition ex_doc_extra : aval :=
  VMap [("id", VStr "FM_R"); ("$schema", VList [VList [VList [VList [VList [VList [VStr "deep"]]]]]]);
        ("name", VStr "FM_R");
        ("features",
         VMap [("A", VMap [("colour", VStr "red"); ("name", VStr "A"); ("optional", VBool false);
                           ("type", VStr "FEATURE"); ("note", VStr ""); ("children", VList [])]);
               ("B", ex_finfo "B" true); ("R", ex_finfo "R" true)]);
        ("tree", VMap [("collapsed", VBool true); ("id", VStr "R");
                       ("children", VList [VMap [("id", VStr "A"); ("name", VList [VList [VList [VList []]]])];
                                           VMap [("id", VStr "B")]]);
                       ("type", VStr "XOR")]);
        ("constraints",
         VMap [("c1", VMap [("type", VStr "AndTerm"); ("id", VInt 7);
                            ("operands",
                             VList [nary_term "AndTerm"
                                      [VMap [("name", VStr "?"); ("type", VStr "FeatureTerm");
                                             ("operands", VList [VStr "A"])]; ft "B"];
                                    ft "B"])]);
               ("c2", VMap [("type", VStr "ImpliesTerm"); ("operands", VList [ft "B"; ft "A"])])]);
        ("features_", VNone)].

Ltac xe_auto :=
  repeat first [ apply xe_nil
               | apply xe_keep; [left; reflexivity|]
               | apply xe_ins; [cbn; intuition discriminate|] ].

Example ex_extra_rel : gextra ex_doc ex_doc_extra.
Proof.
  apply gv_doc. xe_auto.
  apply xe_keep.
  { right; left. split; [reflexivity|]. apply dx_map.
    constructor; [split; [reflexivity|]|apply Forall2_refl; intros a; split; [reflexivity|apply fxe_refl]].
    apply fxe_map. unfold ex_finfo.
    repeat first [ apply xe_nil | apply xe_keep; [reflexivity|] | apply xe_ins; [cbn; intuition discriminate|] ]. }
  xe_auto. apply xe_keep.
  { right; right; left. split; [reflexivity|]. apply tx_node. xe_auto. apply xe_keep.
    - right. split; [reflexivity|]. constructor. constructor; [|apply Forall2_refl; apply tx_refl].
      apply tx_node. xe_auto.
    - xe_auto. }
  xe_auto. apply xe_keep.
  { right; right; right. split; [reflexivity|]. apply dx_map.
    constructor; [split; [reflexivity|]|apply Forall2_refl; intros a; split; [reflexivity|apply cv_refl]].
    apply cv_node. xe_auto. apply xe_keep; [|xe_auto].
    right. split; [reflexivity|]. constructor. constructor; [|apply Forall2_refl; apply cv_refl].
    apply cv_node. xe_auto. apply xe_keep; [|xe_auto].
    right. split; [reflexivity|]. constructor. constructor; [|apply Forall2_refl; apply cv_refl].
    apply cv_node. xe_auto. }
  xe_auto.
Qed.

Example ex_extra_read :
  glencoe_read ex_doc_extra = glencoe_read ex_doc /\ exists pm, glencoe_read ex_doc = Ok pm.
Proof. split; [vm_compute; reflexivity|eexists; vm_compute; reflexivity]. Qed.

Example ex_extra_by_theorem : glencoe_read ex_doc = glencoe_read ex_doc_extra.
Proof. apply glencoe_read_extra. exact ex_extra_rel. Qed.

(* an extra key is NOT harmless when it is one the reader looks up: "children" in a tree node *)
Example ex_lookup_key_matters :
  glencoe_read (VMap [("features", VMap [("R", ex_finfo "R" true)]); ("tree", VMap [("id", VStr "R")])])
  <> glencoe_read (VMap [("features", VMap [("R", ex_finfo "R" true)]);
                         ("tree", VMap [("id", VStr "R"); ("children", VInt 0)])]).
Proof. vm_compute. discriminate. Qed.

(* Part C: c1 = And [And [A; B]; B] written as And [A; B; B] *)
Definition ex_doc_flat : aval :=
  VMap [("id", VStr "FM_R"); ("name", VStr "FM_R");
        ("features", VMap [("A", ex_finfo "A" false); ("B", ex_finfo "B" true); ("R", ex_finfo "R" true)]);
        ("tree", VMap [("id", VStr "R"); ("children", VList [VMap [("id", VStr "A")]; VMap [("id", VStr "B")]])]);
        ("constraints",
         VMap [("c1", nary_term "AndTerm" [ft "A"; ft "B"; ft "B"]);
               ("c2", VMap [("type", VStr "ImpliesTerm"); ("operands", VList [ft "B"; ft "A"])])])].

Example ex_flat_rel : gflat ex_doc ex_doc_flat.
Proof.
  apply gv_doc. xe_auto. apply xe_keep; [|xe_auto].
  right; right; right. split; [reflexivity|]. apply dx_map.
  constructor; [split; [reflexivity|]|apply Forall2_refl; intros a; split; [reflexivity|apply cv_refl]].
  apply (cv_flat true "AndTerm" AND [ft "A"; ft "B"] [ft "B"]); [reflexivity|left; split; reflexivity|discriminate|].
  apply Forall2_refl. apply cv_refl.
Qed.

Example ex_flat_read : glencoe_read ex_doc_flat = glencoe_read ex_doc.
Proof. vm_compute. reflexivity. Qed.

(* flattening needs a NON-EMPTY inner term: And [And []; A] raises TypeError, And [A] is A *)
Example ex_flat_empty_false :
  glencoe_parse_ctc 9 (VMap [("A", ex_finfo "A" false)]) (nary_term "AndTerm" [nary_term "AndTerm" []; ft "A"])
  <> glencoe_parse_ctc 9 (VMap [("A", ex_finfo "A" false)]) (nary_term "AndTerm" ([] ++ [ft "A"])).
Proof. vm_compute. discriminate. Qed.

(* and only the FIRST operand may be flattened: And [A; And [B; B]] is a different tree from And [A; B; B] *)
Example ex_flat_second_false :
  glencoe_parse_ctc 9 (VMap [("A", ex_finfo "A" false); ("B", ex_finfo "B" true)])
    (nary_term "AndTerm" [ft "A"; nary_term "AndTerm" [ft "B"; ft "B"]])
  <> glencoe_parse_ctc 9 (VMap [("A", ex_finfo "A" false); ("B", ex_finfo "B" true)])
    (nary_term "AndTerm" [ft "A"; ft "B"; ft "B"]).
Proof. vm_compute. discriminate. Qed.

(* ================================================================== Part A : objects are read by key *)
(* entries of an object: related pairwise (same key, values related as [R key] allows), after a
   PERMUTATION when the keys of the object are pairwise distinct *)
Definition pent (R : string -> aval -> aval -> Prop) (e e' : string * aval) : Prop :=
  fst e = fst e' /\ R (fst e) (snd e) (snd e').

Inductive pdict (R : string -> aval -> aval -> Prop) : list (string * aval) -> list (string * aval) -> Prop :=
| pd_cong kv kv' : Forall2 (pent R) kv kv' -> pdict R kv kv'
| pd_perm kv kv1 kv' :
    NoDup (map fst kv) -> Permutation kv kv1 -> Forall2 (pent R) kv1 kv' -> pdict R kv kv'.

(* the least congruence on JSON values that permutes the entries of objects with distinct keys *)
Inductive jperm : aval -> aval -> Prop :=
| jp_refl v : jperm v v
| jp_list l l' : Forall2 jperm l l' -> jperm (VList l) (VList l')
| jp_map kv kv' : pdict (fun _ => jperm) kv kv' -> jperm (VMap kv) (VMap kv').

Lemma assoc_pent (R : string -> aval -> aval -> Prop) k : forall kv kv', Forall2 (pent R) kv kv' ->
  match assoc k kv, assoc k kv' with
  | Some v, Some v' => R k v v'
  | None, None => True
  | _, _ => False
  end.
Proof.
  intros kv kv' H. induction H as [|[k1 v1] [k2 v2] kv kv' [Hk Hv] _ IH]; [exact I|].
  cbn [fst snd] in Hk, Hv. subst k2. cbn [assoc]. destruct (String.eqb k k1) eqn:E; [|exact IH].
  apply String.eqb_eq in E. subst k1. exact Hv.
Qed.

Lemma assoc_In_nodup k v : forall kv, NoDup (map fst kv) -> In (k, v) kv -> assoc k kv = Some v.
Proof.
  induction kv as [|[k0 v0] kv IH]; intros Hnd Hin; [contradiction|].
  cbn [map fst] in Hnd. inversion Hnd as [|a l Hnotin Hnd']; subst. cbn [assoc].
  destruct (String.eqb k k0) eqn:E.
  - apply String.eqb_eq in E. subst k0. destruct Hin as [Heq|Hin]; [inversion Heq; reflexivity|].
    exfalso. apply Hnotin. apply (in_map fst) in Hin. exact Hin.
  - destruct Hin as [Heq|Hin]; [inversion Heq; subst; rewrite String.eqb_refl in E; discriminate|].
    apply IH; assumption.
Qed.

Lemma assoc_perm k kv kv1 : NoDup (map fst kv) -> Permutation kv kv1 -> assoc k kv = assoc k kv1.
Proof.
  intros Hnd Hp.
  assert (Hnd1 : NoDup (map fst kv1)).
  { eapply Permutation_NoDup; [apply Permutation_map; exact Hp|exact Hnd]. }
  destruct (assoc k kv) as [v|] eqn:E.
  - symmetry. apply assoc_In_nodup; [exact Hnd1|]. eapply Permutation_in; [exact Hp|]. apply assoc_in. exact E.
  - destruct (assoc k kv1) as [v1|] eqn:E1; [|reflexivity].
    apply assoc_in in E1. apply (Permutation_in _ (Permutation_sym Hp)) in E1.
    rewrite (assoc_In_nodup k v1 kv Hnd E1) in E. discriminate.
Qed.

Lemma assoc_pdict (R : string -> aval -> aval -> Prop) k kv kv' : pdict R kv kv' ->
  match assoc k kv, assoc k kv' with
  | Some v, Some v' => R k v v'
  | None, None => True
  | _, _ => False
  end.
Proof.
  intros H. destruct H as [kv kv' H|kv kv1 kv' Hnd Hp H].
  - apply assoc_pent. exact H.
  - rewrite (assoc_perm k kv kv1 Hnd Hp). apply assoc_pent. exact H.
Qed.

Lemma jget_pdict (R : string -> aval -> aval -> Prop) k kv kv' : pdict R kv kv' ->
  res_rel (R k) (jget k (VMap kv)) (jget k (VMap kv')).
Proof.
  intros H. pose proof (assoc_pdict R k kv kv' H) as Ha. cbn [jget].
  destruct (assoc k kv), (assoc k kv'); try contradiction; cbn [res_rel]; [exact Ha|reflexivity].
Qed.

Lemma jhas_pdict (R : string -> aval -> aval -> Prop) k kv kv' : pdict R kv kv' ->
  jhas k (VMap kv) = jhas k (VMap kv').
Proof.
  intros H. pose proof (assoc_pdict R k kv kv' H) as Ha. cbn [jhas].
  destruct (assoc k kv), (assoc k kv'); try contradiction; reflexivity.
Qed.

(* the truth value of a list / an object is its non-emptiness *)
Lemma jtruthy_list_length l l' : List.length l = List.length l' -> jtruthy (VList l) = jtruthy (VList l').
Proof. destruct l, l'; cbn [List.length jtruthy]; intros H; try discriminate H; reflexivity. Qed.

Lemma jtruthy_map_length kv kv' : List.length kv = List.length kv' -> jtruthy (VMap kv) = jtruthy (VMap kv').
Proof. destruct kv, kv'; cbn [List.length jtruthy]; intros H; try discriminate H; reflexivity. Qed.

Lemma Forall2_same_length {A B} (R : A -> B -> Prop) l l' : Forall2 R l l' -> List.length l = List.length l'.
Proof. intros H. induction H as [|x y l l' _ _ IH]; [reflexivity|]. cbn [List.length]. rewrite IH. reflexivity. Qed.

Lemma pdict_length (R : string -> aval -> aval -> Prop) kv kv' : pdict R kv kv' -> List.length kv = List.length kv'.
Proof.
  intros H. destruct H as [kv kv' H|kv kv1 kv' _ Hp H].
  - exact (Forall2_same_length _ _ _ H).
  - rewrite (Permutation_length Hp). exact (Forall2_same_length _ _ _ H).
Qed.

Lemma jperm_leaf v v' : jperm v v' -> leaf_eq v v'.
Proof.
  intros H. destruct H as [v|l l' H|kv kv' H]; repeat split.
  - apply jtruthy_list_length. exact (Forall2_same_length _ _ _ H).
  - apply jtruthy_map_length. exact (pdict_length _ _ _ H).
Qed.

Lemma jperm_jget k v v' : jperm v v' -> res_rel jperm (jget k v) (jget k v').
Proof.
  intros H. destruct H as [v|l l' H|kv kv' H].
  - apply res_rel_refl. apply jp_refl.
  - reflexivity.
  - apply (jget_pdict (fun _ => jperm)). exact H.
Qed.

Lemma jperm_jhas k v v' : jperm v v' -> jhas k v = jhas k v'.
Proof.
  intros H. destruct H as [v|l l' H|kv kv' H]; [reflexivity|reflexivity|].
  apply (jhas_pdict (fun _ => jperm)). exact H.
Qed.

Lemma jperm_jlist v v' : jperm v v' -> res_rel (Forall2 jperm) (jlist v) (jlist v').
Proof.
  intros H. destruct H as [v|l l' H|kv kv' H].
  - apply res_rel_refl. apply Forall2_refl. apply jp_refl.
  - exact H.
  - reflexivity.
Qed.

Lemma jperm_feats fv fv' : jperm fv fv' -> feats_compat fv fv'.
Proof.
  intros H. apply (feats_compat_intro jperm).
  - intros k. apply jperm_jget. exact H.
  - intros fi fi' key He _. eapply res_rel_impl; [|apply jperm_jget; exact He]. exact jperm_leaf.
Qed.

Lemma jperm_tnode tv tv' : jperm tv tv' -> tnode_compat jperm tv tv'.
Proof.
  intros H. split; [|split].
  - eapply res_rel_impl; [|apply jperm_jget; exact H]. intros a a' Ha. apply jperm_leaf. exact Ha.
  - apply jperm_jhas. exact H.
  - eapply res_rel_impl; [|apply jperm_jget; exact H]. exact jperm_jlist.
Qed.

Lemma jperm_cterm c c' : jperm c c' -> cterm_compat jperm c c' \/ cterm_flat jperm c c'.
Proof.
  intros H. left. split; [apply jperm_leaf; exact H|]. split.
  - eapply res_rel_impl; [|apply jperm_jget; exact H]. intros a a' Ha. apply jperm_leaf. exact Ha.
  - eapply res_rel_impl; [|apply jperm_jget; exact H]. exact jperm_jlist.
Qed.

(* the Glencoe document: every object may be permuted EXCEPT the "constraints" object itself (the terms inside
   it may) *)
Definition gperm_val (k : string) (v v' : aval) : Prop :=
  (k = "constraints" /\ dictx jperm v v') \/ (k <> "constraints" /\ jperm v v').

Inductive gperm : aval -> aval -> Prop :=
| gp_refl d : gperm d d
| gp_doc kv kv' : pdict gperm_val kv kv' -> gperm (VMap kv) (VMap kv').

Lemma gperm_compat d d' : gperm d d' -> doc_compat jperm jperm jperm d d'.
Proof.
  intros H. destruct H as [d|kv kv' H].
  - split; [apply res_rel_refl; apply jp_refl|]. split; [apply res_rel_refl; apply jp_refl|].
    apply res_rel_refl. apply cmap_compat_refl. apply jp_refl.
  - split; [|split].
    + eapply res_rel_impl; [|exact (jget_pdict gperm_val "features" kv kv' H)].
      intros a a' [[Hk _]|[_ Hx]]; [discriminate|exact Hx].
    + eapply res_rel_impl; [|exact (jget_pdict gperm_val "tree" kv kv' H)].
      intros a a' [[Hk _]|[_ Hx]]; [discriminate|exact Hx].
    + pose proof (assoc_pdict gperm_val "constraints" kv kv' H) as Ha. cbn [gl_constraints].
      destruct (assoc "constraints" kv) as [cv|], (assoc "constraints" kv') as [cv'|]; try contradiction;
        cbn [res_rel].
      * destruct Ha as [[_ Hx]|[Hk _]]; [|congruence]. apply cmap_compat_dictx; [apply jp_refl|exact Hx].
      * constructor.
Qed.

Theorem glencoe_read_perm : forall d d', gperm d d' -> glencoe_read d = glencoe_read d'.
Proof.
  intros d d' H. apply (glencoe_read_compat jperm jperm jperm jperm_feats jperm_tnode jperm_cterm).
  apply gperm_compat. exact H.
Qed.

(* parts of a document, any fuels covering the depth *)
Theorem glencoe_parse_tree_perm : forall n1 n2 fv fv' here parent tv tv',
  jperm fv fv' -> jperm tv tv' -> aval_depth tv <= n1 -> aval_depth tv' <= n2 ->
  glencoe_parse_tree n1 fv here parent tv = glencoe_parse_tree n2 fv' here parent tv'.
Proof. exact (parse_tree_compat jperm jperm jperm_feats jperm_tnode). Qed.

Theorem glencoe_parse_ctc_perm : forall n1 n2 fv fv' c c',
  jperm fv fv' -> jperm c c' -> aval_depth c <= n1 -> aval_depth c' <= n2 ->
  glencoe_parse_ctc n1 fv c = glencoe_parse_ctc n2 fv' c'.
Proof. exact (parse_ctc_compat jperm jperm jperm_feats jperm_cterm). Qed.

(* ---- the statement of the task with the untyped [jperm] is FALSE:
        Theorem glencoe_read_perm : forall d d', jperm d d' -> glencoe_read d = glencoe_read d'.
   the entry order of the "constraints" object is the order of the constraint list ---- *)
Definition ex_doc_cswap : aval :=
  VMap [("id", VStr "FM_R"); ("name", VStr "FM_R");
        ("features", VMap [("A", ex_finfo "A" false); ("B", ex_finfo "B" true); ("R", ex_finfo "R" true)]);
        ("tree", VMap [("id", VStr "R"); ("children", VList [VMap [("id", VStr "A")]; VMap [("id", VStr "B")]])]);
        ("constraints",
         VMap [("c2", VMap [("type", VStr "ImpliesTerm"); ("operands", VList [ft "B"; ft "A"])]);
               ("c1", nary_term "AndTerm" [nary_term "AndTerm" [ft "A"; ft "B"]; ft "B"])])].

Lemma pent_refl_jperm : forall kv, Forall2 (pent (fun _ => jperm)) kv kv.
Proof. apply Forall2_refl. intros a. split; [reflexivity|apply jp_refl]. Qed.

Ltac nodup_keys := cbn [map fst]; repeat (constructor; [cbn [In]; intuition discriminate|]); constructor.

Example glencoe_read_jperm_false : jperm ex_doc ex_doc_cswap /\ glencoe_read ex_doc <> glencoe_read ex_doc_cswap.
Proof.
  split; [|vm_compute; discriminate].
  apply jp_map. apply pd_cong.
  repeat (constructor; [split; [reflexivity|apply jp_refl]|]).
  constructor; [|constructor]. split; [reflexivity|]. cbn [fst snd].
  apply jp_map. eapply pd_perm; [nodup_keys|apply perm_swap|apply pent_refl_jperm].
Qed.

(* ---- non-vacuity: everything permuted except the constraints object ---- *)
Definition ex_doc_perm : aval :=
  VMap [("constraints",
         VMap [("c1", VMap [("operands", VList [nary_term "AndTerm" [ft "A"; ft "B"];
                                                VMap [("operands", VList [VStr "B"]); ("type", VStr "FeatureTerm")]]);
                            ("type", VStr "AndTerm")]);
               ("c2", VMap [("type", VStr "ImpliesTerm"); ("operands", VList [ft "B"; ft "A"])])]);
        ("tree", VMap [("children", VList [VMap [("id", VStr "A")]; VMap [("id", VStr "B")]]); ("id", VStr "R")]);
        ("features",
         VMap [("R", ex_finfo "R" true);
               ("A", VMap [("note", VStr ""); ("type", VStr "FEATURE"); ("optional", VBool false); ("name", VStr "A")]);
               ("B", ex_finfo "B" true)]);
        ("name", VStr "FM_R"); ("id", VStr "FM_R")].

Example ex_perm_rel : gperm ex_doc ex_doc_perm.
Proof.
  apply gp_doc.
  apply (pd_perm _ _
           [("constraints", VMap [("c1", nary_term "AndTerm" [nary_term "AndTerm" [ft "A"; ft "B"]; ft "B"]);
                                  ("c2", VMap [("type", VStr "ImpliesTerm"); ("operands", VList [ft "B"; ft "A"])])]);
            ("tree", VMap [("id", VStr "R"); ("children", VList [VMap [("id", VStr "A")]; VMap [("id", VStr "B")]])]);
            ("features", VMap [("A", ex_finfo "A" false); ("B", ex_finfo "B" true); ("R", ex_finfo "R" true)]);
            ("name", VStr "FM_R"); ("id", VStr "FM_R")]).
  - nodup_keys.
  - change (Permutation (rev (rev [("id", VStr "FM_R"); ("name", VStr "FM_R");
        ("features", VMap [("A", ex_finfo "A" false); ("B", ex_finfo "B" true); ("R", ex_finfo "R" true)]);
        ("tree", VMap [("id", VStr "R"); ("children", VList [VMap [("id", VStr "A")]; VMap [("id", VStr "B")]])]);
        ("constraints",
         VMap [("c1", nary_term "AndTerm" [nary_term "AndTerm" [ft "A"; ft "B"]; ft "B"]);
               ("c2", VMap [("type", VStr "ImpliesTerm"); ("operands", VList [ft "B"; ft "A"])])])]))
      (rev [("id", VStr "FM_R"); ("name", VStr "FM_R");
        ("features", VMap [("A", ex_finfo "A" false); ("B", ex_finfo "B" true); ("R", ex_finfo "R" true)]);
        ("tree", VMap [("id", VStr "R"); ("children", VList [VMap [("id", VStr "A")]; VMap [("id", VStr "B")]])]);
        ("constraints",
         VMap [("c1", nary_term "AndTerm" [nary_term "AndTerm" [ft "A"; ft "B"]; ft "B"]);
               ("c2", VMap [("type", VStr "ImpliesTerm"); ("operands", VList [ft "B"; ft "A"])])])])).
    apply Permutation_sym, Permutation_rev.
  - constructor.
    { split; [reflexivity|]. left. split; [reflexivity|]. apply dx_map.
      constructor; [split; [reflexivity|]|apply Forall2_refl; intros a; split; [reflexivity|apply jp_refl]].
      cbn [fst snd]. apply jp_map. unfold nary_term at 1.
      eapply pd_perm; [nodup_keys|apply perm_swap|].
      constructor; [|apply pent_refl_jperm]. split; [reflexivity|]. cbn [fst snd].
      apply jp_list. constructor; [apply jp_refl|]. constructor; [|constructor].
      apply jp_map. eapply pd_perm; [nodup_keys|apply perm_swap|apply pent_refl_jperm]. }
    constructor.
    { split; [reflexivity|]. right. split; [discriminate|]. cbn [fst snd].
      apply jp_map. eapply pd_perm; [nodup_keys|apply perm_swap|apply pent_refl_jperm]. }
    constructor.
    { split; [reflexivity|]. right. split; [discriminate|]. cbn [fst snd].
      apply jp_map.
      apply (pd_perm _ _ [("R", ex_finfo "R" true); ("A", ex_finfo "A" false); ("B", ex_finfo "B" true)]).
      - nodup_keys.
      - apply Permutation_sym. apply (Permutation_cons_app [("A", ex_finfo "A" false); ("B", ex_finfo "B" true)] []).
        rewrite app_nil_r. apply Permutation_refl.
      - constructor; [split; [reflexivity|apply jp_refl]|].
        constructor; [|apply pent_refl_jperm]. split; [reflexivity|]. cbn [fst snd].
        apply jp_map. unfold ex_finfo.
        eapply pd_perm; [nodup_keys|apply Permutation_rev|apply pent_refl_jperm]. }
    repeat (constructor; [split; [reflexivity|right; split; [discriminate|apply jp_refl]]|]).
    constructor.
Qed.

Example ex_perm_read : glencoe_read ex_doc_perm = glencoe_read ex_doc.
Proof. vm_compute. reflexivity. Qed.

Example ex_perm_by_theorem : glencoe_read ex_doc = glencoe_read ex_doc_perm.
Proof. apply glencoe_read_perm. exact ex_perm_rel. Qed.

(* the hypothesis [NoDup] is needed: with a repeated key the FIRST entry is read *)
Example perm_dup_keys_false :
  Permutation [("tree", VMap [("id", VStr "A")]); ("tree", VMap [("id", VStr "B")])]
              [("tree", VMap [("id", VStr "B")]); ("tree", VMap [("id", VStr "A")])] /\
  glencoe_read (VMap (("features", VMap [("A", ex_finfo "A" false); ("B", ex_finfo "B" true)])
                      :: [("tree", VMap [("id", VStr "A")]); ("tree", VMap [("id", VStr "B")])]))
  <> glencoe_read (VMap (("features", VMap [("A", ex_finfo "A" false); ("B", ex_finfo "B" true)])
                         :: [("tree", VMap [("id", VStr "B")]); ("tree", VMap [("id", VStr "A")])])).
Proof. split; [apply perm_swap|vm_compute; discriminate]. Qed.

(* ================================================================== Part A for json_read *)
(* ---- generic compatibility theorem for the JSON reader ---- *)
Definition jctc_body (rec : aval -> result node) (ty : string) (ops : list aval) : result node :=
  let sub (i : nat) : result node :=
    match nth_operand ops i with Err e => Err e | Ok x => rec x end in
  let bin2 (o : astop) : result node :=
    match sub 0%nat with Err e => Err e | Ok a =>
    match sub 1%nat with Err e => Err e | Ok b => Ok (bin o a b) end end in
  if String.eqb ty jt_FEATURE then
    match nth_operand ops 0 with Err e => Err e | Ok x =>
    match data_of_json x with Err e => Err e | Ok d => Ok (Node d None None) end end
  else if String.eqb ty (astop_value NOT) then
    match sub 0%nat with Err e => Err e | Ok a => Ok (un NOT a) end
  else if String.eqb ty (astop_value IMPLIES) then bin2 IMPLIES
  else if String.eqb ty (astop_value REQUIRES) then bin2 REQUIRES
  else if String.eqb ty (astop_value EXCLUDES) then bin2 EXCLUDES
  else if String.eqb ty (astop_value EQUIVALENCE) then bin2 EQUIVALENCE
  else if String.eqb ty (astop_value AND) then
    match mapM rec ops with Err e => Err e | Ok l => reduce_op AND l end
  else if String.eqb ty (astop_value OR) then
    match mapM rec ops with Err e => Err e | Ok l => reduce_op OR l end
  else if String.eqb ty (astop_value XOR) then
    match mapM rec ops with Err e => Err e | Ok l => reduce_op XOR l end
  else Err ParsingException.

Lemma json_parse_ctc_S' fuel info :
  json_parse_ctc (S fuel) info =
  match jget "type" info with Err e => Err e | Ok tv =>
  match jget "operands" info with Err e => Err e | Ok ov =>
  match jlist ov with Err _ => Err ParsingException | Ok ops =>
  match jstr tv with Err _ => Err ParsingException | Ok ty => jctc_body (json_parse_ctc fuel) ty ops
  end end end end.
Proof. reflexivity. Qed.

Definition jlist_rel (R : aval -> aval -> Prop) (v v' : aval) : Prop := res_rel (Forall2 R) (jlist v) (jlist v').
Definition jstr_eq (v v' : aval) : Prop := jstr v = jstr v'.

Definition jnode_compat (Rr : aval -> aval -> Prop) (n n' : aval) : Prop :=
  res_rel jstr_eq (jget "name" n) (jget "name" n') /\
  res_rel eq (jget "abstract" n) (jget "abstract" n') /\          (* the raw value is stored *)
  json_read_attributes n = json_read_attributes n' /\
  jhas "relations" n = jhas "relations" n' /\
  res_rel (jlist_rel Rr) (jget "relations" n) (jget "relations" n').

Definition jrel_compat (Rn : aval -> aval -> Prop) (r r' : aval) : Prop :=
  res_rel (jlist_rel Rn) (jget "children" r) (jget "children" r') /\
  res_rel jstr_eq (jget "type" r) (jget "type" r') /\
  res_rel leaf_eq (jget "card_min" r) (jget "card_min" r') /\
  res_rel leaf_eq (jget "card_max" r) (jget "card_max" r').

Definition jterm_compat (Rc : aval -> aval -> Prop) (c c' : aval) : Prop :=
  data_of_json c = data_of_json c' /\
  res_rel jstr_eq (jget "type" c) (jget "type" c') /\
  res_rel (jlist_rel Rc) (jget "operands" c) (jget "operands" c').

Definition jentry_compat (Rc : aval -> aval -> Prop) (e e' : aval) : Prop :=
  res_rel jstr_eq (jget "name" e) (jget "name" e') /\ res_rel Rc (jget "ast" e) (jget "ast" e').

Definition jdoc_compat (Rn Rc : aval -> aval -> Prop) (d d' : aval) : Prop :=
  res_rel Rn (jget "features" d) (jget "features" d') /\
  res_rel (jlist_rel (jentry_compat Rc)) (jget "constraints" d) (jget "constraints" d').

Lemma jlist_depth v l x : jlist v = Ok l -> In x l -> aval_depth x < aval_depth v.
Proof.
  intros H Hin. destruct v; try discriminate. cbn [jlist] in H. inversion H; subst.
  apply depth_list_in. exact Hin.
Qed.

Section JCompat.
  Variables Rn Rr Rc : aval -> aval -> Prop.
  Hypothesis Hn : forall n n', Rn n n' -> jnode_compat Rr n n'.
  Hypothesis Hr : forall r r', Rr r r' -> jrel_compat Rn r r'.
  Hypothesis Hc : forall c c', Rc c c' -> jterm_compat Rc c c'.

  Lemma rd_goc_compat rec rec' here k : forall chl chl', Forall2 Rn chl chl' ->
    (forall h p c c', In c chl -> In c' chl' -> Rn c c' -> rec h p c = rec' h p c') ->
    forall j, rd_goc rec here k j chl = rd_goc rec' here k j chl'.
  Proof.
    intros chl chl' H. induction H as [|c c' l l' Hcc _ IH]; intros Hrec j; [reflexivity|].
    rewrite !rd_goc_cons. rewrite (Hrec _ _ c c' (or_introl eq_refl) (or_introl eq_refl) Hcc).
    rewrite IH; [reflexivity|]. intros h p y y' Hy Hy'. apply Hrec; right; assumption.
  Qed.

  Lemma cards_compat rtype rel rel' n : Rr rel rel' ->
    json_relation_cards rtype rel n = json_relation_cards rtype rel' n.
  Proof.
    intros H. destruct (Hr _ _ H) as (_ & _ & Hmin & Hmax). unfold json_relation_cards.
    destruct (String.eqb rtype jt_OPTIONAL); [reflexivity|].
    destruct (String.eqb rtype jt_MANDATORY); [reflexivity|].
    destruct (String.eqb rtype jt_XOR); [reflexivity|].
    destruct (String.eqb rtype jt_OR); [reflexivity|].
    destruct (String.eqb rtype jt_MUTEX); [reflexivity|].
    destruct (String.eqb rtype jt_CARDINALITY); [|reflexivity].
    rr_step Hmin a a' E1 E2. rr_step Hmax b b' E3 E4.
    destruct Hmin as (_ & _ & Ha). destruct Hmax as (_ & _ & Hb). rewrite Ha, Hb. reflexivity.
  Qed.

  Lemma rd_rel_compat rec rec' here k rel rel' : Rr rel rel' ->
    (forall h p c c', Rn c c' -> aval_depth c < aval_depth rel -> aval_depth c' < aval_depth rel' ->
                      rec h p c = rec' h p c') ->
    rd_rel rec here k rel = rd_rel rec' here k rel'.
  Proof.
    intros H Hrec. destruct (Hr _ _ H) as (Hch & Hty & _ & _). unfold rd_rel.
    rr_step Hch chv chv' E1 E2. unfold jlist_rel in Hch. rr_step Hch chl chl' E3 E4.
    rewrite (rd_goc_compat rec rec' here k chl chl' Hch).
    - destruct (rd_goc rec' here k 0 chl') as [children|e]; [|reflexivity].
      rr_step Hty tv tv' E5 E6. unfold jstr_eq in Hty. rewrite <- Hty.
      destruct (jstr tv) as [rtype|e]; [|reflexivity].
      rewrite (cards_compat rtype rel rel' _ H). reflexivity.
    - intros h p c c' Hin Hin' Hcc. apply Hrec; [exact Hcc| |].
      + apply depth_jget in E1. pose proof (jlist_depth _ _ _ E3 Hin). lia.
      + apply depth_jget in E2. pose proof (jlist_depth _ _ _ E4 Hin'). lia.
  Qed.

  Lemma rd_go_compat rec rec' here : forall rels rels', Forall2 Rr rels rels' ->
    (forall rel rel' k, In rel rels -> In rel' rels' -> Rr rel rel' ->
                        rd_rel rec here k rel = rd_rel rec' here k rel') ->
    forall k, rd_go rec here k rels = rd_go rec' here k rels'.
  Proof.
    intros rels rels' H. induction H as [|r r' l l' Hrr _ IH]; intros Hrec k; [reflexivity|].
    rewrite !rd_go_cons. rewrite (Hrec r r' k (or_introl eq_refl) (or_introl eq_refl) Hrr).
    rewrite IH; [reflexivity|]. intros y y' k' Hy Hy'. apply Hrec; right; assumption.
  Qed.

  Lemma rd_rels_compat rec rec' here node node' : Rn node node' ->
    (forall h p c c', Rn c c' -> aval_depth c < aval_depth node -> aval_depth c' < aval_depth node' ->
                      rec h p c = rec' h p c') ->
    rd_rels rec here node = rd_rels rec' here node'.
  Proof.
    intros H Hrec. destruct (Hn _ _ H) as (_ & _ & _ & Hhas & Hrl). unfold rd_rels.
    rewrite <- Hhas. destruct (jhas "relations" node); [|reflexivity].
    rr_step Hrl rl rl' E1 E2. unfold jlist_rel in Hrl. rr_step Hrl rls rls' E3 E4.
    apply rd_go_compat; [exact Hrl|].
    intros rel rel' k Hin Hin' Hrr. apply rd_rel_compat; [exact Hrr|].
    intros h p c c' Hcc Hd Hd'. apply Hrec; [exact Hcc| |].
    - apply depth_jget in E1. pose proof (jlist_depth _ _ _ E3 Hin). lia.
    - apply depth_jget in E2. pose proof (jlist_depth _ _ _ E4 Hin'). lia.
  Qed.

  Theorem json_parse_tree_compat : forall n1 n2 here parent node node',
    Rn node node' -> aval_depth node <= n1 -> aval_depth node' <= n2 ->
    json_parse_tree n1 here parent node = json_parse_tree n2 here parent node'.
  Proof.
    induction n1 as [|n1 IH]; intros n2 here parent node node' H Hd Hd'.
    { pose proof (aval_depth_pos node). lia. }
    destruct n2 as [|n2]. { pose proof (aval_depth_pos node'). lia. }
    rewrite !json_parse_tree_S.
    destruct (Hn _ _ H) as (Hnm & Hab & Hat & _ & _).
    rr_step Hnm nv nv' E1 E2. rr_step Hab ab ab' E3 E4. subst ab'.
    unfold jstr_eq in Hnm. rewrite <- Hnm, <- Hat.
    destruct (jstr nv) as [name|e]; [|reflexivity].
    destruct (json_read_attributes node) as [attrs|e]; [|reflexivity].
    rewrite (rd_rels_compat (json_parse_tree n1) (json_parse_tree n2) here node node' H); [reflexivity|].
    intros h p c c' Hcc Hdc Hdc'. apply IH; [exact Hcc|lia|lia].
  Qed.

  Lemma jctc_body_compat rec rec' ty ops ops' :
    Forall2 Rc ops ops' ->
    (forall x x', In x ops -> In x' ops' -> Rc x x' -> rec x = rec' x') ->
    jctc_body rec ty ops = jctc_body rec' ty ops'.
  Proof.
    intros Hops Hrec.
    assert (Hsub : forall i,
      match nth_operand ops i with Err e => Err e | Ok x => rec x end =
      match nth_operand ops' i with Err e => Err e | Ok x => rec' x end).
    { intros i. unfold nth_operand. pose proof (Forall2_nth_error Rc ops ops' i Hops) as Hi.
      destruct (nth_error ops i) as [x|], (nth_error ops' i) as [x'|]; try contradiction; [|reflexivity].
      destruct Hi as (H1 & H2 & H3). apply Hrec; assumption. }
    assert (Hmap : mapM rec ops = mapM rec' ops').
    { apply (mapM_rel Rc); assumption. }
    unfold jctc_body. rewrite !Hsub, Hmap.
    destruct (String.eqb ty jt_FEATURE); [|reflexivity].
    unfold nth_operand. pose proof (Forall2_nth_error Rc ops ops' 0 Hops) as Hi.
    destruct (nth_error ops 0) as [x|], (nth_error ops' 0) as [x'|]; try contradiction; [|reflexivity].
    destruct Hi as (H1 & _ & _). destruct (Hc _ _ H1) as (Hdata & _ & _). rewrite Hdata. reflexivity.
  Qed.

  Theorem json_parse_ctc_compat : forall n1 n2 c c',
    Rc c c' -> aval_depth c <= n1 -> aval_depth c' <= n2 -> json_parse_ctc n1 c = json_parse_ctc n2 c'.
  Proof.
    induction n1 as [|n1 IH]; intros n2 c c' H Hd Hd'.
    { pose proof (aval_depth_pos c). lia. }
    destruct n2 as [|n2]. { pose proof (aval_depth_pos c'). lia. }
    rewrite !json_parse_ctc_S'. destruct (Hc _ _ H) as (_ & Hty & Hops).
    rr_step Hty tv tv' E1 E2. rr_step Hops ov ov' E3 E4. unfold jstr_eq in Hty. rewrite <- Hty.
    unfold jlist_rel in Hops. rr_step Hops ops ops' E5 E6.
    destruct (jstr tv) as [ty|e]; [|reflexivity].
    apply jctc_body_compat; [exact Hops|].
    intros x x' Hin Hin' Hxx. apply IH; [exact Hxx| |].
    - apply depth_jget in E3. pose proof (jlist_depth _ _ _ E5 Hin). lia.
    - apply depth_jget in E4. pose proof (jlist_depth _ _ _ E6 Hin'). lia.
  Qed.

  Theorem json_read_compat : forall d d', jdoc_compat Rn Rc d d' -> json_read d = json_read d'.
  Proof.
    intros d d' (Hfe & Hcs). rewrite !json_read_eq.
    rr_step Hfe fv fv' E1 E2. rr_step Hcs cv cv' E3 E4.
    rewrite (json_parse_tree_compat (aval_depth fv) (aval_depth fv') [] PNone fv fv' Hfe (le_n _) (le_n _)).
    destruct (json_parse_tree (aval_depth fv') [] PNone fv') as [pr|e]; [|reflexivity].
    unfold jlist_rel in Hcs. rr_step Hcs cl cl' E5 E6.
    assert (Hm : mapM rd_ctc cl = mapM rd_ctc cl').
    { apply (mapM_rel (jentry_compat Rc)); [exact Hcs|].
      intros ci ci' _ _ (Hnm & Hast). unfold rd_ctc.
      rr_step Hnm nv nv' E7 E8. rr_step Hast av av' E9 E10. unfold jstr_eq in Hnm. rewrite <- Hnm.
      destruct (jstr nv) as [name|e]; [|reflexivity].
      rewrite (json_parse_ctc_compat (aval_depth av) (aval_depth av') av av' Hast (le_n _) (le_n _)).
      reflexivity. }
    rewrite Hm. reflexivity.
  Qed.
End JCompat.

(* ---- the relation for json_read: [jperm], except that the values found under the keys "abstract" and "value"
        are left untouched (the reader stores them as they are: f_abstract, a_default) ---- *)
Definition frozen_keys : list string := ["abstract"; "value"].

Inductive jperm' : aval -> aval -> Prop :=
| jq_refl v : jperm' v v
| jq_list l l' : Forall2 jperm' l l' -> jperm' (VList l) (VList l')
| jq_map kv kv' :
    pdict (fun k v v' => (In k frozen_keys /\ v = v') \/ (~ In k frozen_keys /\ jperm' v v')) kv kv' ->
    jperm' (VMap kv) (VMap kv').

Lemma jq_jget_free k v v' : ~ In k frozen_keys -> jperm' v v' -> res_rel jperm' (jget k v) (jget k v').
Proof.
  intros Hk H. destruct H as [v|l l' H|kv kv' H].
  - apply res_rel_refl. apply jq_refl.
  - reflexivity.
  - eapply res_rel_impl; [|exact (jget_pdict _ k kv kv' H)].
    intros a a' [[Hin _]|[_ Ha]]; [contradiction|exact Ha].
Qed.

Lemma jq_jget_frozen k v v' : In k frozen_keys -> jperm' v v' -> res_rel eq (jget k v) (jget k v').
Proof.
  intros Hk H. destruct H as [v|l l' H|kv kv' H].
  - apply res_rel_refl. reflexivity.
  - reflexivity.
  - eapply res_rel_impl; [|exact (jget_pdict _ k kv kv' H)].
    intros a a' [[_ Ha]|[Hin _]]; [exact Ha|contradiction].
Qed.

Lemma jq_jhas k v v' : jperm' v v' -> jhas k v = jhas k v'.
Proof.
  intros H. destruct H as [v|l l' H|kv kv' H]; [reflexivity|reflexivity|].
  exact (jhas_pdict _ k kv kv' H).
Qed.

Lemma jq_jlist v v' : jperm' v v' -> jlist_rel jperm' v v'.
Proof.
  intros H. unfold jlist_rel. destruct H as [v|l l' H|kv kv' H].
  - apply res_rel_refl. apply Forall2_refl. apply jq_refl.
  - exact H.
  - reflexivity.
Qed.

Lemma jq_leaf v v' : jperm' v v' -> leaf_eq v v'.
Proof.
  intros H. destruct H as [v|l l' H|kv kv' H]; repeat split.
  - apply jtruthy_list_length. exact (Forall2_same_length _ _ _ H).
  - apply jtruthy_map_length. exact (pdict_length _ _ _ H).
Qed.

Lemma jq_data v v' : jperm' v v' -> data_of_json v = data_of_json v'.
Proof. intros H. destruct H; reflexivity. Qed.

Lemma free_name : ~ In "name" frozen_keys. Proof. cbn; intuition discriminate. Qed.
Lemma free_attributes : ~ In "attributes" frozen_keys. Proof. cbn; intuition discriminate. Qed.
Lemma free_relations : ~ In "relations" frozen_keys. Proof. cbn; intuition discriminate. Qed.
Lemma free_children : ~ In "children" frozen_keys. Proof. cbn; intuition discriminate. Qed.
Lemma free_type : ~ In "type" frozen_keys. Proof. cbn; intuition discriminate. Qed.
Lemma free_card_min : ~ In "card_min" frozen_keys. Proof. cbn; intuition discriminate. Qed.
Lemma free_card_max : ~ In "card_max" frozen_keys. Proof. cbn; intuition discriminate. Qed.
Lemma free_operands : ~ In "operands" frozen_keys. Proof. cbn; intuition discriminate. Qed.
Lemma free_ast : ~ In "ast" frozen_keys. Proof. cbn; intuition discriminate. Qed.
Lemma free_features : ~ In "features" frozen_keys. Proof. cbn; intuition discriminate. Qed.
Lemma free_constraints : ~ In "constraints" frozen_keys. Proof. cbn; intuition discriminate. Qed.
Lemma frozen_abstract : In "abstract" frozen_keys. Proof. cbn; tauto. Qed.
Lemma frozen_value : In "value" frozen_keys. Proof. cbn; tauto. Qed.

Lemma jq_str k v v' : ~ In k frozen_keys -> jperm' v v' -> res_rel jstr_eq (jget k v) (jget k v').
Proof.
  intros Hk H. eapply res_rel_impl; [|exact (jq_jget_free k v v' Hk H)].
  intros a a' Ha. apply jq_leaf. exact Ha.
Qed.

Lemma jq_sublist k v v' : ~ In k frozen_keys -> jperm' v v' ->
  res_rel (jlist_rel jperm') (jget k v) (jget k v').
Proof.
  intros Hk H. eapply res_rel_impl; [|exact (jq_jget_free k v v' Hk H)]. exact jq_jlist.
Qed.

Lemma jq_attr a a' : jperm' a a' -> rd_attr a = rd_attr a'.
Proof.
  intros H. unfold rd_attr. pose proof (jq_str "name" a a' free_name H) as Hnm.
  rr_step Hnm n n' E1 E2. unfold jstr_eq in Hnm. rewrite <- Hnm.
  destruct (jstr n) as [name|e]; [|reflexivity].
  destruct H as [v|l l' H|kv kv' H]; [reflexivity|reflexivity|].
  pose proof (assoc_pdict _ "value" kv kv' H) as Hv.
  destruct (assoc "value" kv) as [x|], (assoc "value" kv') as [x'|]; try contradiction; [|reflexivity].
  destruct Hv as [[_ ->]|[Hin _]]; [reflexivity|]. exfalso. apply Hin. exact frozen_value.
Qed.

Lemma jq_attrs n n' : jperm' n n' -> json_read_attributes n = json_read_attributes n'.
Proof.
  intros H. rewrite !json_read_attributes_eq. rewrite <- (jq_jhas "attributes" n n' H).
  destruct (jhas "attributes" n); [|reflexivity].
  pose proof (jq_sublist "attributes" n n' free_attributes H) as Hal.
  rr_step Hal al al' E1 E2. unfold jlist_rel in Hal. rr_step Hal l l' E3 E4.
  apply (mapM_rel jperm'); [exact Hal|]. intros a a' _ _ Ha. apply jq_attr. exact Ha.
Qed.

Lemma jq_node n n' : jperm' n n' -> jnode_compat jperm' n n'.
Proof.
  intros H. split; [apply jq_str; [exact free_name|exact H]|].
  split; [apply jq_jget_frozen; [exact frozen_abstract|exact H]|].
  split; [apply jq_attrs; exact H|].
  split; [apply jq_jhas; exact H|]. apply jq_sublist; [exact free_relations|exact H].
Qed.

Lemma jq_rel r r' : jperm' r r' -> jrel_compat jperm' r r'.
Proof.
  intros H. split; [apply jq_sublist; [exact free_children|exact H]|].
  split; [apply jq_str; [exact free_type|exact H]|]. split.
  - eapply res_rel_impl; [|exact (jq_jget_free "card_min" r r' free_card_min H)]. exact jq_leaf.
  - eapply res_rel_impl; [|exact (jq_jget_free "card_max" r r' free_card_max H)]. exact jq_leaf.
Qed.

Lemma jq_term c c' : jperm' c c' -> jterm_compat jperm' c c'.
Proof.
  intros H. split; [apply jq_data; exact H|].
  split; [apply jq_str; [exact free_type|exact H]|]. apply jq_sublist; [exact free_operands|exact H].
Qed.

Lemma jq_entry e e' : jperm' e e' -> jentry_compat jperm' e e'.
Proof.
  intros H. split; [apply jq_str; [exact free_name|exact H]|]. apply jq_jget_free; [exact free_ast|exact H].
Qed.

Lemma Forall2_impl' {A} (P Q : A -> A -> Prop) l l' :
  (forall a a', P a a' -> Q a a') -> Forall2 P l l' -> Forall2 Q l l'.
Proof. intros HPQ H. induction H as [|a a' l l' Ha _ IH]; constructor; [apply HPQ; exact Ha|exact IH]. Qed.

Lemma jq_doc d d' : jperm' d d' -> jdoc_compat jperm' jperm' d d'.
Proof.
  intros H. split; [apply jq_jget_free; [exact free_features|exact H]|].
  eapply res_rel_impl; [|exact (jq_sublist "constraints" d d' free_constraints H)].
  intros cv cv' Hcv. unfold jlist_rel in *. eapply res_rel_impl; [|exact Hcv].
  intros l l' Hl. eapply Forall2_impl'; [|exact Hl]. exact jq_entry.
Qed.

Theorem json_read_perm : forall d d', jperm' d d' -> json_read d = json_read d'.
Proof.
  intros d d' H. apply (json_read_compat jperm' jperm' jperm' jq_node jq_rel jq_term). apply jq_doc. exact H.
Qed.

Theorem json_parse_tree_perm : forall n1 n2 here parent node node',
  jperm' node node' -> aval_depth node <= n1 -> aval_depth node' <= n2 ->
  json_parse_tree n1 here parent node = json_parse_tree n2 here parent node'.
Proof. exact (json_parse_tree_compat jperm' jperm' jq_node jq_rel). Qed.

Theorem json_parse_ctc_perm : forall n1 n2 c c',
  jperm' c c' -> aval_depth c <= n1 -> aval_depth c' <= n2 -> json_parse_ctc n1 c = json_parse_ctc n2 c'.
Proof. exact (json_parse_ctc_compat jperm' jq_term). Qed.

(* ---- with the untyped [jperm] the statement is FALSE for json_read:
        Theorem json_read_perm : forall d d', jperm d d' -> json_read d = json_read d'.
   the value of "abstract" and an attribute's "value" end up in the model as they are ---- *)
Example json_read_jperm_false_abstract :
  let d  := VMap [("features", VMap [("name", VStr "R"); ("abstract", VMap [("x", VInt 1); ("y", VInt 2)])]);
                  ("constraints", VList [])] in
  let d' := VMap [("features", VMap [("name", VStr "R"); ("abstract", VMap [("y", VInt 2); ("x", VInt 1)])]);
                  ("constraints", VList [])] in
  jperm d d' /\ json_read d <> json_read d' /\ exists pm, json_read d = Ok pm.
Proof.
  split; [|split; [vm_compute; discriminate|eexists; vm_compute; reflexivity]].
  apply jp_map. apply pd_cong. constructor; [|apply pent_refl_jperm]. split; [reflexivity|]. cbn [fst snd].
  apply jp_map. apply pd_cong. constructor; [split; [reflexivity|apply jp_refl]|].
  constructor; [|constructor]. split; [reflexivity|]. cbn [fst snd].
  apply jp_map. eapply pd_perm; [nodup_keys|apply perm_swap|apply pent_refl_jperm].
Qed.

Example json_read_jperm_false_value :
  let d  := VMap [("features", VMap [("name", VStr "R"); ("abstract", VBool false);
                     ("attributes", VList [VMap [("name", VStr "a"); ("value", VMap [("x", VInt 1); ("y", VInt 2)])]])]);
                  ("constraints", VList [])] in
  let d' := VMap [("features", VMap [("name", VStr "R"); ("abstract", VBool false);
                     ("attributes", VList [VMap [("name", VStr "a"); ("value", VMap [("y", VInt 2); ("x", VInt 1)])]])]);
                  ("constraints", VList [])] in
  jperm d d' /\ json_read d <> json_read d' /\ exists pm, json_read d = Ok pm.
Proof.
  split; [|split; [vm_compute; discriminate|eexists; vm_compute; reflexivity]].
  apply jp_map. apply pd_cong. constructor; [|apply pent_refl_jperm]. split; [reflexivity|]. cbn [fst snd].
  apply jp_map. apply pd_cong. constructor; [split; [reflexivity|apply jp_refl]|].
  constructor; [split; [reflexivity|apply jp_refl]|].
  constructor; [|constructor]. split; [reflexivity|]. cbn [fst snd].
  apply jp_list. constructor; [|constructor].
  apply jp_map. apply pd_cong. constructor; [split; [reflexivity|apply jp_refl]|].
  constructor; [|constructor]. split; [reflexivity|]. cbn [fst snd].
  apply jp_map. eapply pd_perm; [nodup_keys|apply perm_swap|apply pent_refl_jperm].
Qed.

(* ---- non-vacuity for json_read ---- *)
Definition jx_model : fm :=
  {| root := Feature (mk_info "R")
       [Relation 1 1 [leaf "A"];
        Relation 0 1 [Feature {| f_name := "B"; f_abstract := VBool true; f_type := TBoolean; f_cmin := 1; f_cmax := 1;
                                 f_attrs := [ {| a_name := "cost"; a_dom := None; a_default := VInt 3;
                                                 a_null := VNone |} ] |} []]];
     ctcs := [ {| c_name := "c1"; c_ast := bin AND (bin AND (term "A") (term "B")) (term "B") |} ] |}.

Definition jft (s : string) : aval := VMap [("type", VStr "FEATURE"); ("operands", VList [VStr s])].
Definition jx_A : aval := VMap [("name", VStr "A"); ("abstract", VBool false); ("relations", VList [])].
Definition jx_rel1 : aval :=
  VMap [("type", VStr "MANDATORY"); ("card_min", VInt 1); ("card_max", VInt 1); ("children", VList [jx_A])].
Definition jx_and2 : aval := VMap [("type", VStr "AND"); ("operands", VList [jft "A"; jft "B"])].

Definition jx_doc : aval :=
  VMap [("features",
         VMap [("name", VStr "R"); ("abstract", VBool false);
               ("relations",
                VList [jx_rel1;
                       VMap [("type", VStr "OPTIONAL"); ("card_min", VInt 0); ("card_max", VInt 1);
                             ("children",
                              VList [VMap [("name", VStr "B"); ("abstract", VBool true); ("relations", VList []);
                                           ("attributes", VList [VMap [("name", VStr "cost"); ("value", VInt 3)]])]])]])]);
        ("constraints",
         VList [VMap [("name", VStr "c1"); ("expr", VStr "(A AND B) AND B");
                      ("ast", VMap [("type", VStr "AND"); ("operands", VList [jx_and2; jft "B"])])]])].

Example jx_doc_written : json_write jx_model = Ok jx_doc.
Proof. vm_compute. reflexivity. Qed.

(* the document, the root node, the second relation, node B, its attribute, the constraint entry and its term,
   each with its entries in REVERSE order *)
Definition jx_doc_perm : aval :=
  VMap [("constraints",
         VList [VMap [("ast", VMap [("operands", VList [jx_and2; jft "B"]); ("type", VStr "AND")]);
                      ("expr", VStr "(A AND B) AND B"); ("name", VStr "c1")]]);
        ("features",
         VMap [("relations",
                VList [jx_rel1;
                       VMap [("children",
                              VList [VMap [("attributes", VList [VMap [("value", VInt 3); ("name", VStr "cost")]]);
                                           ("relations", VList []); ("abstract", VBool true); ("name", VStr "B")]]);
                             ("card_max", VInt 1); ("card_min", VInt 0); ("type", VStr "OPTIONAL")]]);
               ("abstract", VBool false); ("name", VStr "R")])].

Ltac jq_rev := apply jq_map; eapply pd_perm; [nodup_keys|apply Permutation_rev|cbn [rev app]].
Ltac jq_same := split; [reflexivity|];
  first [ left; split; [cbn; tauto|reflexivity] | right; split; [cbn; intuition discriminate|apply jq_refl] ].
Ltac jq_into := split; [reflexivity|]; right; split; [cbn; intuition discriminate|]; cbn [fst snd].

Example jx_perm_rel : jperm' jx_doc jx_doc_perm.
Proof.
  unfold jx_doc, jx_doc_perm. jq_rev.
  constructor.
  { jq_into. apply jq_list. constructor; [|constructor]. jq_rev.
    constructor.
    { jq_into. jq_rev. constructor; [|repeat (constructor; [jq_same|]); constructor].
      jq_into. apply jq_list. repeat (constructor; [apply jq_refl|]). constructor. }
    repeat (constructor; [jq_same|]). constructor. }
  constructor; [|constructor].
  jq_into. jq_rev.
  constructor; [|repeat (constructor; [jq_same|]); constructor].
  jq_into. apply jq_list. constructor; [apply jq_refl|]. constructor; [|constructor].
  jq_rev. constructor; [|repeat (constructor; [jq_same|]); constructor].
  jq_into. apply jq_list. constructor; [|constructor].
  jq_rev. constructor; [|repeat (constructor; [jq_same|]); constructor].
  jq_into. apply jq_list. constructor; [|constructor].
  jq_rev. repeat (constructor; [jq_same|]). constructor.
Qed.

Example jx_perm_read : json_read jx_doc_perm = json_read jx_doc /\ exists pm, json_read jx_doc = Ok pm.
Proof. split; [vm_compute; reflexivity|eexists; vm_compute; reflexivity]. Qed.

Example jx_perm_by_theorem : json_read jx_doc = json_read jx_doc_perm.
Proof. apply json_read_perm. exact jx_perm_rel. Qed.

(* fuel sufficiency of both JSON readers (results and exceptions alike) *)
Corollary json_parse_tree_fuel : forall n1 n2 here parent node,
  aval_depth node <= n1 -> aval_depth node <= n2 ->
  json_parse_tree n1 here parent node = json_parse_tree n2 here parent node.
Proof. intros. apply json_parse_tree_perm; [apply jq_refl|assumption|assumption]. Qed.

Corollary json_parse_ctc_fuel : forall n1 n2 c,
  aval_depth c <= n1 -> aval_depth c <= n2 -> json_parse_ctc n1 c = json_parse_ctc n2 c.
Proof. intros. apply json_parse_ctc_perm; [apply jq_refl|assumption|assumption]. Qed.

Print Assumptions glencoe_read_compat.
Print Assumptions glencoe_read_var.
Print Assumptions glencoe_read_extra.
Print Assumptions glencoe_read_flat.
Print Assumptions glencoe_read_var_star.
Print Assumptions glencoe_parse_ctc_var.
Print Assumptions glencoe_parse_tree_var.
Print Assumptions glencoe_flatten_3.
Print Assumptions glencoe_parse_tree_fuel.
Print Assumptions glencoe_parse_ctc_fuel.
Print Assumptions glencoe_read_perm.
Print Assumptions glencoe_parse_tree_perm.
Print Assumptions glencoe_parse_ctc_perm.
Print Assumptions glencoe_read_jperm_false.
Print Assumptions json_read_compat.
Print Assumptions json_read_perm.
Print Assumptions json_parse_tree_perm.
Print Assumptions json_parse_ctc_perm.
Print Assumptions json_read_jperm_false_abstract.
Print Assumptions json_read_jperm_false_value.
Print Assumptions ex_extra_by_theorem.
Print Assumptions ex_flat_rel.
Print Assumptions ex_perm_by_theorem.
Print Assumptions jx_perm_by_theorem.
