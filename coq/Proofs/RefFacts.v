(* Proofs/RefFacts.v — the FaMa XML reader returns the model a reference emitter's document denotes (C09):
   whatever the surface choices of the writer (tag letter case, position of <cardinality>, relation names,
   binaryRelation / setRelation for a single child), [fama_read (fama_emit ch m)] is exactly the annotated
   reference model. *)
From Coq Require Import List Bool Ascii String ZArith Lia.
From FM Require Import Base.Result Base.Str Base.AstOp Model.Ast Model.FM Model.PFM Model.Queries
     Format.Xml Format.Ref Proofs.QueriesFacts Proofs.C16Facts Proofs.JsonFacts Proofs.FamaFacts Proofs.AfmFacts.
Import ListNotations.
Local Open Scope list_scope.

(* ------------------------------------------------------------------ the reference models *)
(* the reference models of the format: default feature info, unique names, requires/excludes constraints between
   features of the model *)
Fixpoint fama_feature_ok (f : feature) : bool :=
  match f with Feature i rs =>
    match f_attrs i, f_abstract i with [], VBool false => true | _, _ => false end
    && ftype_eqb (f_type i) TBoolean && (f_cmin i =? 1)%Z && (f_cmax i =? 1)%Z
    && forallb (fun r => match r with Relation _ _ cs => forallb fama_feature_ok cs end) rs end.
Definition fama_ctc_ok (names_ : list string) (c : ctc) : bool :=
  match c_ast c with
  | Node (DOp o) (Some (Node (DStr a) None None)) (Some (Node (DStr b) None None)) =>
      (astop_eqb o REQUIRES || astop_eqb o EXCLUDES) && list_existsb_eq a names_ && list_existsb_eq b names_
  | _ => false
  end.
Definition fama_ok (m : fm) : bool :=
  fama_feature_ok (root m) && nodupb (names (root m)) && forallb (fama_ctc_ok (names (root m))) (ctcs m).

(* ------------------------------------------------------------------ the emitter, un-nested *)
Definition fama_single (ch : fama_choices) (cs : list feature) : bool :=
  match cs with [_] => negb (fc_set_for_single ch) | _ => false end.

Definition fama_kid_tag (ch : fama_choices) (single : bool) : string :=
  tag_in (fc_case ch) (if single then "solitaryFeature" else "groupedFeature")%string.

Definition fama_rel (ch : fama_choices) (r : relation) : xml :=
  match r with
  | Relation mn mx cs =>
      let single := fama_single ch cs in
      let kids := map (fama_feature ch (fama_kid_tag ch single)) cs in
      Elem (tag_in (fc_case ch) (if single then "binaryRelation" else "setRelation")%string)
           (if fc_rel_names ch then [("name", "R")]%string else []) None
           (if fc_card_last ch then kids ++ [fama_card ch mn mx] else fama_card ch mn mx :: kids)
  end.

Lemma fama_feature_eq ch tag i rs :
  fama_feature ch tag (Feature i rs) = Elem tag [("name"%string, f_name i)] None (map (fama_rel ch) rs).
Proof.
  reflexivity.
Qed.

(* ------------------------------------------------------------------ tags *)
Lemma lower_feature c : str_lower (tag_in c "feature") = "feature"%string.
Proof. destruct c; reflexivity. Qed.
Lemma lower_solitary c : str_lower (tag_in c "solitaryFeature") = "solitaryfeature"%string.
Proof. destruct c; reflexivity. Qed.
Lemma lower_grouped c : str_lower (tag_in c "groupedFeature") = "groupedfeature"%string.
Proof. destruct c; reflexivity. Qed.
Lemma lower_binary c : str_lower (tag_in c "binaryRelation") = "binaryrelation"%string.
Proof. destruct c; reflexivity. Qed.
Lemma lower_set c : str_lower (tag_in c "setRelation") = "setrelation"%string.
Proof. destruct c; reflexivity. Qed.
Lemma lower_card c : str_lower (tag_in c "cardinality") = "cardinality"%string.
Proof. destruct c; reflexivity. Qed.
Lemma lower_requires c : str_lower (tag_in c "requires") = "requires"%string.
Proof. destruct c; reflexivity. Qed.
Lemma lower_excludes c : str_lower (tag_in c "excludes") = "excludes"%string.
Proof. destruct c; reflexivity. Qed.

Lemma tag_is_elem t tag a tx k : tag_is t (Elem tag a tx k) = String.eqb (str_lower tag) t.
Proof. reflexivity. Qed.

Lemma tag_is_feature ch tag f t :
  tag_is t (fama_feature ch tag f) = String.eqb (str_lower tag) t.
Proof. destruct f as [i rs]. rewrite fama_feature_eq. reflexivity. Qed.

(* the lower-cased tag of the children of a relation, as the reader computes it *)
Definition low_kid_tag (single : bool) : string :=
  (if single then "solitaryfeature" else "groupedfeature")%string.

Lemma lower_kid_tag ch single : str_lower (fama_kid_tag ch single) = low_kid_tag single.
Proof. unfold fama_kid_tag, low_kid_tag. destruct single; [apply lower_solitary|apply lower_grouped]. Qed.

Lemma low_kid_tag_not_card single : String.eqb "cardinality" (low_kid_tag single) = false.
Proof. destruct single; reflexivity. Qed.

(* ------------------------------------------------------------------ the cardinality element *)
Lemma xint_card_min ch mn mx : xint "min" (fama_card ch mn mx) = Ok mn.
Proof.
  unfold xint, xattr, fama_card. cbn [x_attrs sassoc].
  change (String.eqb "min" "min") with true. cbv iota.
  rewrite string_to_z_to_string. reflexivity.
Qed.

Lemma xint_card_max ch mn mx : xint "max" (fama_card ch mn mx) = Ok mx.
Proof.
  unfold xint, xattr, fama_card. cbn [x_attrs sassoc].
  change (String.eqb "max" "min") with false. change (String.eqb "max" "max") with true. cbv iota.
  rewrite string_to_z_to_string. reflexivity.
Qed.

Lemma tag_is_card ch mn mx t :
  tag_is t (fama_card ch mn mx) = String.eqb "cardinality" t.
Proof. unfold fama_card. rewrite tag_is_elem, lower_card. reflexivity. Qed.

Lemma fama_gor_card ct here k j ch mn mx its a b seen :
  String.eqb "cardinality" ct = false ->
  fama_gor ct here k j (fama_card ch mn mx :: its) a b seen = fama_gor ct here k j its mn mx seen.
Proof.
  intros Hct. cbn [fama_gor]. rewrite !tag_is_card, Hct.
  change (String.eqb "cardinality" "cardinality") with true. cbv iota.
  rewrite xint_card_min, xint_card_max. reflexivity.
Qed.

(* ------------------------------------------------------------------ names, freshness *)
Definition cnames (cs : list feature) : list string := flat_map names cs.
Definition rnames (rs : list relation) : list string := flat_map (fun r => cnames (r_children r)) rs.

Lemma map_flat_map {A B C} (g : B -> C) (f : A -> list B) l :
  map g (flat_map f l) = flat_map (fun x => map g (f x)) l.
Proof. induction l as [|x l IH]; [reflexivity|]. cbn [flat_map]. rewrite map_app, IH. reflexivity. Qed.

Lemma names_eq i rs : names (Feature i rs) = f_name i :: rnames rs.
Proof.
  unfold names at 1. cbn [subfeatures map]. f_equal. unfold rnames, cnames.
  rewrite map_flat_map. apply flat_map_ext. intros [a b cs]. cbn [r_children].
  rewrite map_flat_map. reflexivity.
Qed.

Lemma cnames_cons c cs : cnames (c :: cs) = names c ++ cnames cs.
Proof. reflexivity. Qed.
Lemma rnames_cons a b cs rs : rnames (Relation a b cs :: rs) = cnames cs ++ rnames rs.
Proof. reflexivity. Qed.

(* [l] can be read with [seen] already seen: no duplicate in [l], nothing of [l] seen yet *)
Definition fresh (l seen : list string) : Prop := NoDup l /\ forall n, In n l -> ~ In n seen.

Lemma fresh_cons n l seen : fresh (n :: l) seen -> ~ In n seen /\ fresh l (n :: seen).
Proof.
  intros [Hnd Hd]. inversion Hnd as [|x xs Hn Hnd']; subst. split.
  - apply Hd. left. reflexivity.
  - split; [exact Hnd'|]. intros m Hm [Heq|Hs].
    + subst m. exact (Hn Hm).
    + exact (Hd m (or_intror Hm) Hs).
Qed.

Lemma NoDup_app_inv {A} (a b : list A) :
  NoDup (a ++ b) -> NoDup a /\ NoDup b /\ forall x, In x a -> ~ In x b.
Proof.
  induction a as [|x a IH]; intros H.
  - split; [constructor|]. split; [exact H|]. intros x [].
  - cbn [app] in H. inversion H as [|y ys Hn Hnd]; subst.
    destruct (IH Hnd) as [Ha [Hb Hab]]. split; [|split].
    + constructor; [|exact Ha]. intros Hin. apply Hn. apply in_or_app. left. exact Hin.
    + exact Hb.
    + intros z [Heq|Hz] Hzb.
      * subst z. apply Hn. apply in_or_app. right. exact Hzb.
      * exact (Hab z Hz Hzb).
Qed.

Lemma fresh_app a b seen : fresh (a ++ b) seen -> fresh a seen /\ fresh b (rev a ++ seen).
Proof.
  intros [Hnd Hd]. destruct (NoDup_app_inv _ _ Hnd) as [Ha [Hb Hab]]. split.
  - split; [exact Ha|]. intros n Hn. apply Hd. apply in_or_app. left. exact Hn.
  - split; [exact Hb|]. intros n Hn Hin. apply in_app_or in Hin. destruct Hin as [Hin|Hin].
    + apply in_rev in Hin. exact (Hab n Hin Hn).
    + apply (Hd n); [apply in_or_app; right; exact Hn|exact Hin].
Qed.

(* ------------------------------------------------------------------ the tree *)
Definition feat_stmt (ch : fama_choices) (f : feature) : Prop :=
  fama_feature_ok f = true -> rels_nonempty f ->
  forall tag here parent seen,
    fresh (names f) seen ->
    fama_parse_feature (fama_feature ch tag f) here parent seen
    = Ok (annotate here parent f, rev (names f) ++ seen).

Lemma fama_gor_kids ch ct here k tag tl (A B : Z -> Z -> Z) :
  String.eqb (str_lower tag) ct = true ->
  (forall j mn mx seen, fama_gor ct here k j tl mn mx seen = Ok ([], A mn mx, B mn mx, seen)) ->
  forall cs, Forall (feat_stmt ch) cs ->
  forallb fama_feature_ok cs = true ->
  Forall rels_nonempty cs ->
  forall j mn mx seen,
    fresh (cnames cs) seen ->
    fama_gor ct here k j (map (fama_feature ch tag) cs ++ tl) mn mx seen
    = Ok (an_goc here k j cs, A mn mx, B mn mx, rev (cnames cs) ++ seen).
Proof.
  intros Htag Htl cs HF. induction HF as [|c cs Hc _ IH]; intros Hok Hne j mn mx seen Hfr.
  - cbn [map app cnames flat_map rev]. apply Htl.
  - cbn [forallb] in Hok. apply andb_true_iff in Hok. destruct Hok as [Hokc Hokcs].
    inversion Hne as [|? ? Hnec Hnecs]; subst.
    rewrite cnames_cons in Hfr. apply fresh_app in Hfr. destruct Hfr as [Hfc Hfcs].
    cbn [map app fama_gor]. rewrite tag_is_feature, Htag.
    rewrite (Hc Hokc Hnec tag _ _ seen Hfc).
    rewrite (IH Hokcs Hnecs (S j) mn mx _ Hfcs).
    rewrite an_goc_cons, cnames_cons, rev_app_distr, app_assoc. reflexivity.
Qed.

Lemma fama_gor_rel ch here k mn mx cs seen :
  Forall (feat_stmt ch) cs ->
  forallb fama_feature_ok cs = true ->
  Forall rels_nonempty cs ->
  fresh (cnames cs) seen ->
  fama_gor (low_kid_tag (fama_single ch cs)) here k 0%nat
           (x_children (fama_rel ch (Relation mn mx cs))) 0%Z 0%Z seen
  = Ok (an_goc here k 0%nat cs, mn, mx, rev (cnames cs) ++ seen).
Proof.
  intros HF Hok Hne Hfr. cbn [fama_rel]. cbv zeta. cbn [x_children].
  set (single := fama_single ch cs).
  destruct (fc_card_last ch) eqn:Hlast.
  - apply (fama_gor_kids ch _ here k (fama_kid_tag ch single) [fama_card ch mn mx]
             (fun _ _ => mn) (fun _ _ => mx)); try assumption.
    + rewrite lower_kid_tag. apply String.eqb_refl.
    + intros j a b s. rewrite fama_gor_card; [reflexivity|apply low_kid_tag_not_card].
  - rewrite fama_gor_card; [|apply low_kid_tag_not_card].
    rewrite <- (app_nil_r (map _ cs)).
    apply (fama_gor_kids ch _ here k (fama_kid_tag ch single) []
             (fun a _ => a) (fun _ b => b)); try assumption.
    + rewrite lower_kid_tag. apply String.eqb_refl.
    + intros j a b s. reflexivity.
Qed.

Definition rel_stmt (ch : fama_choices) (r : relation) : Prop :=
  match r with Relation _ _ cs => Forall (feat_stmt ch) cs end.

Lemma fama_go_rel_step ch here k mn mx cs rest seen :
  fama_go here k (fama_rel ch (Relation mn mx cs) :: rest) seen =
  match fama_gor (low_kid_tag (fama_single ch cs)) here k 0%nat
                 (x_children (fama_rel ch (Relation mn mx cs))) 0%Z 0%Z seen with
  | Err e => Err e
  | Ok ([], _, _, _) => Err FlamaException
  | Ok ((_ :: _) as pcs, a, b, seen') =>
      match fama_go here (S k) rest seen' with
      | Err e => Err e
      | Ok (prs, s3) => Ok (PRelation (PPath here) a b pcs :: prs, s3)
      end
  end.
Proof.
  cbn [fama_go]. cbv zeta.
  assert (Hb : tag_is "binaryrelation" (fama_rel ch (Relation mn mx cs)) = fama_single ch cs).
  { cbn [fama_rel]. cbv zeta. rewrite tag_is_elem.
    destruct (fama_single ch cs); [rewrite lower_binary|rewrite lower_set]; reflexivity. }
  assert (Hs : tag_is "setrelation" (fama_rel ch (Relation mn mx cs)) = negb (fama_single ch cs)).
  { cbn [fama_rel]. cbv zeta. rewrite tag_is_elem.
    destruct (fama_single ch cs); [rewrite lower_binary|rewrite lower_set]; reflexivity. }
  rewrite Hb, Hs. unfold low_kid_tag. destruct (fama_single ch cs); reflexivity.
Qed.

Lemma fama_go_rels ch here rs :
  Forall (rel_stmt ch) rs ->
  forallb (fun r => match r with Relation _ _ cs => forallb fama_feature_ok cs end) rs = true ->
  Forall (fun r => r_children r <> [] /\ Forall rels_nonempty (r_children r)) rs ->
  forall k seen,
    fresh (rnames rs) seen ->
    fama_go here k (map (fama_rel ch) rs) seen = Ok (an_go here k rs, rev (rnames rs) ++ seen).
Proof.
  intros HF. induction HF as [|r rs Hr _ IH]; intros Hok Hne k seen Hfr.
  - reflexivity.
  - destruct r as [mn mx cs]. cbn [rel_stmt] in Hr.
    cbn [forallb] in Hok. apply andb_true_iff in Hok. destruct Hok as [Hokc Hokrs].
    inversion Hne as [|? ? [Hnec Hnecs] Hners]; subst. cbn [r_children] in Hnec, Hnecs.
    rewrite rnames_cons in Hfr. apply fresh_app in Hfr. destruct Hfr as [Hfc Hfrs].
    cbn [map]. rewrite fama_go_rel_step.
    rewrite (fama_gor_rel ch here k mn mx cs seen Hr Hokc Hnecs Hfc).
    destruct (an_goc here k 0%nat cs) as [|pc pcs] eqn:Ean.
    { exfalso. apply Hnec. apply length_zero_iff_nil.
      rewrite <- (an_goc_length here k cs 0%nat), Ean. reflexivity. }
    rewrite <- Ean.
    rewrite (IH Hokrs Hners (S k) _ Hfrs).
    rewrite an_go_cons, rnames_cons, rev_app_distr, app_assoc. reflexivity.
Qed.

Lemma finfo_default i :
  match f_attrs i, f_abstract i with [], VBool false => true | _, _ => false end
  && ftype_eqb (f_type i) TBoolean && (f_cmin i =? 1)%Z && (f_cmax i =? 1)%Z = true ->
  i = mk_info (f_name i).
Proof.
  destruct i as [n ab ty mn mx ats]. cbn [f_attrs f_abstract f_type f_cmin f_cmax f_name]. intros H.
  apply andb_true_iff in H. destruct H as [H Hmx].
  apply andb_true_iff in H. destruct H as [H Hmn].
  apply andb_true_iff in H. destruct H as [H Hty].
  apply Z.eqb_eq in Hmx. apply Z.eqb_eq in Hmn. subst mn mx.
  destruct ats as [|a ats]; [|discriminate].
  destruct ab as [|b| | | | |]; try discriminate. destruct b; [discriminate|].
  destruct ty; try discriminate. reflexivity.
Qed.

Lemma fama_feature_denotes ch : forall f, feat_stmt ch f.
Proof.
  apply (feature_ind2 (feat_stmt ch) (rel_stmt ch)).
  - intros i rs IH Hok Hne tag here parent seen Hfr.
    apply rels_nonempty_inv in Hne.
    cbn [fama_feature_ok] in Hok. apply andb_true_iff in Hok. destruct Hok as [Hinfo Hrs].
    apply finfo_default in Hinfo.
    rewrite names_eq in Hfr |- *. apply fresh_cons in Hfr. destruct Hfr as [Hn Hfr].
    rewrite fama_feature_eq, fama_parse_feature_eq. cbn [sassoc].
    change (String.eqb "name" "name") with true. cbv iota zeta.
    apply mem_not_In in Hn. rewrite Hn.
    rewrite (fama_go_rels ch here rs IH Hrs Hne 0%nat _ Hfr).
    assert (Hat : f_attrs i = []) by (rewrite Hinfo; reflexivity).
    rewrite annotate_eq, Hat, <- Hinfo. cbn [map rev]. rewrite <- app_assoc. reflexivity.
  - intros a b cs IH. exact IH.
Qed.

(* ------------------------------------------------------------------ the constraints *)
Lemma fama_ctc_read ch names_ seen c :
  fama_ctc_ok names_ c = true ->
  (forall n, In n names_ -> In n seen) ->
  exists x, fama_ctc ch c = Some x
    /\ tag_is "feature" x = false
    /\ (tag_is "excludes" x || tag_is "requires" x = true)
    /\ fama_parse_ctc x seen = Ok c.
Proof.
  intros Hok Hsub. destruct c as [nm ast]. unfold fama_ctc_ok in Hok. unfold fama_ctc. cbn [c_ast c_name] in *.
  destruct ast as [d l r]. destruct d as [o| | | |]; try discriminate.
  destruct l as [[dl ll lr]|]; [|discriminate]. destruct dl as [|a| | |]; try discriminate.
  destruct ll; [discriminate|]. destruct lr; [discriminate|].
  destruct r as [[dr rl rr]|]; [|discriminate]. destruct dr as [|b| | |]; try discriminate.
  destruct rl; [discriminate|]. destruct rr; [discriminate|].
  apply andb_true_iff in Hok. destruct Hok as [Hok Hb].
  apply andb_true_iff in Hok. destruct Hok as [Ho Ha].
  apply mem_In in Ha. apply mem_In in Hb. apply Hsub in Ha. apply Hsub in Hb.
  apply mem_In in Ha. apply mem_In in Hb.
  destruct o; try discriminate.
  - eexists. split; [reflexivity|]. rewrite !tag_is_elem, lower_requires.
    split; [reflexivity|]. split; [reflexivity|].
    unfold fama_parse_ctc, xattr. rewrite !tag_is_elem, lower_requires. cbn [x_attrs sassoc].
    change (String.eqb "name" "name") with true.
    change (String.eqb "feature" "name") with false.
    change (String.eqb "feature" "feature") with true.
    change (String.eqb "excludes" "name") with false.
    change (String.eqb "excludes" "feature") with false.
    change (String.eqb "excludes" "requires") with false.
    change (String.eqb "requires" "name") with false.
    change (String.eqb "requires" "feature") with false.
    change (String.eqb "requires" "requires") with true.
    change (String.eqb "requires" "excludes") with false.
    cbv iota. rewrite Ha, Hb. reflexivity.
  - eexists. split; [reflexivity|]. rewrite !tag_is_elem, lower_excludes.
    split; [reflexivity|]. split; [reflexivity|].
    unfold fama_parse_ctc, xattr. rewrite !tag_is_elem, lower_excludes. cbn [x_attrs sassoc].
    change (String.eqb "name" "name") with true.
    change (String.eqb "feature" "name") with false.
    change (String.eqb "feature" "feature") with true.
    change (String.eqb "excludes" "name") with false.
    change (String.eqb "excludes" "feature") with false.
    change (String.eqb "excludes" "excludes") with true.
    cbv iota. rewrite Ha, Hb. reflexivity.
Qed.

Lemma fama_doc_ctcs ch names_ seen r :
  (forall n, In n names_ -> In n seen) ->
  forall cs acc,
    forallb (fama_ctc_ok names_) cs = true ->
    fama_doc (flat_map (fun c => match fama_ctc ch c with Some x => [x] | None => [] end) cs)
             (Some (r, acc)) seen
    = Ok {| proot := r; pctcs := acc ++ cs |}.
Proof.
  intros Hsub. induction cs as [|c cs IH]; intros acc Hok.
  - cbn [flat_map fama_doc]. rewrite app_nil_r. reflexivity.
  - cbn [forallb] in Hok. apply andb_true_iff in Hok. destruct Hok as [Hc Hcs].
    destruct (fama_ctc_read ch names_ seen c Hc Hsub) as [x [Hx [Hf [Her Hp]]]].
    cbn [flat_map]. rewrite Hx. cbn [app fama_doc]. rewrite Hf, Her, Hp.
    rewrite (IH _ Hcs), <- app_assoc. reflexivity.
Qed.

(* ------------------------------------------------------------------ the document *)
(* Since the reader rejects a binaryRelation / setRelation without child features, the statement needs the
   hypothesis [rels_nonempty (root m)] (C16Facts.v: every relation of the tree has a child).  The statement before
   that change was
     Theorem fama_denotes : forall ch m, fama_ok m = true -> fama_read (fama_emit ch m) = Ok (annotate_fm m).
   and is refuted by [fama_denotes_old_false] below ([fama_ok] allows a relation without children); the hypothesis
   is also necessary ([fama_denotes_needs_nonempty]). *)
Theorem fama_denotes : forall ch m, fama_ok m = true -> rels_nonempty (root m) ->
  fama_read (fama_emit ch m) = Ok (annotate_fm m).
Proof.
  intros ch m Hok Hne. unfold fama_ok in Hok.
  apply andb_true_iff in Hok. destruct Hok as [Hok Hctcs].
  apply andb_true_iff in Hok. destruct Hok as [Hfeat Hnd].
  rewrite fama_read_eq. unfold fama_emit. cbn [x_children fama_doc].
  rewrite tag_is_feature, lower_feature. change (String.eqb "feature" "feature") with true. cbv iota.
  rewrite (fama_feature_denotes ch (root m) Hfeat Hne).
  - rewrite (fama_doc_ctcs ch (names (root m)) _ _ ) with (acc := []); [reflexivity| |exact Hctcs].
    intros n Hn. rewrite app_nil_r. apply in_rev. rewrite rev_involutive. exact Hn.
  - split; [apply nodupb_NoDup; exact Hnd|]. intros n _ [].
Qed.

(* ------------------------------------------------------------------ a concrete instance *)
Definition ref_all_choices : list fama_choices :=
  flat_map (fun c => flat_map (fun a => flat_map (fun b => map (fun d =>
    {| fc_case := c; fc_card_last := a; fc_rel_names := b; fc_set_for_single := d |}) [true; false])
    [true; false]) [true; false]) [CaseCamel; CaseLower; CaseUpper].

Definition ref_m1 : fm :=
  {| root := Feature (mk_info "Root")
       [Relation 1 1 [Feature (mk_info "A") [Relation 0 1 [leaf "A1"]; Relation 1 2 [leaf "A2"; leaf "A3"]]];
        Relation 0 1 [leaf "B"];
        Relation (-3) 7 [leaf "G"];
        Relation 1 3 [leaf "C"; Feature (mk_info "D") [Relation 1 1 [leaf "E"]]; leaf "F"]];
     ctcs := [ {| c_name := "c1"; c_ast := bin REQUIRES (term "A1") (term "F") |};
               {| c_name := "c2"; c_ast := bin EXCLUDES (term "E") (term "Root") |} ] |}.

(* [ref_m1] as it was before the reader rejected a relation without child features: the third relation is empty *)
Definition ref_m1_empty : fm :=
  {| root := Feature (mk_info "Root")
       [Relation 1 1 [Feature (mk_info "A") [Relation 0 1 [leaf "A1"]; Relation 1 2 [leaf "A2"; leaf "A3"]]];
        Relation 0 1 [leaf "B"];
        Relation (-3) 7 [];
        Relation 1 3 [leaf "C"; Feature (mk_info "D") [Relation 1 1 [leaf "E"]]; leaf "F"]];
     ctcs := [ {| c_name := "c1"; c_ast := bin REQUIRES (term "A1") (term "F") |};
               {| c_name := "c2"; c_ast := bin EXCLUDES (term "E") (term "Root") |} ] |}.

Definition ref_m2 : fm :=
  {| root := leaf "x"; ctcs := [ {| c_name := ""; c_ast := bin EXCLUDES (term "x") (term "x") |} ] |}.

Example ref_m1_ok : fama_ok ref_m1 = true.
Proof. vm_compute. reflexivity. Qed.
Example ref_m1_nonempty : rels_nonempty (root ref_m1).
Proof. repeat constructor; discriminate. Qed.
Example ref_m2_nonempty : rels_nonempty (root ref_m2).
Proof. constructor. Qed.

Example fama_denotes_m1 :
  map (fun ch => fama_read (fama_emit ch ref_m1)) ref_all_choices
  = map (fun _ => Ok (annotate_fm ref_m1)) ref_all_choices.
Proof. vm_compute. reflexivity. Qed.

Example fama_denotes_m2 :
  List.length ref_all_choices = 24%nat /\
  map (fun ch => fama_read (fama_emit ch ref_m2)) ref_all_choices
  = map (fun _ => Ok (annotate_fm ref_m2)) ref_all_choices.
Proof. vm_compute. split; reflexivity. Qed.

Example fama_denotes_m1_by_theorem :
  forall ch, fama_read (fama_emit ch ref_m1) = Ok (annotate_fm ref_m1).
Proof. intros ch. exact (fama_denotes ch ref_m1 ref_m1_ok ref_m1_nonempty). Qed.

(* the added hypothesis is necessary: a model that is read back has no relation without children *)
Theorem fama_denotes_needs_nonempty : forall ch m,
  fama_read (fama_emit ch m) = Ok (annotate_fm m) -> rels_nonempty (root m).
Proof.
  intros ch m Hr. apply fama_read_nonempty in Hr. unfold annotate_fm in Hr. cbn [proot] in Hr.
  exact (rels_nonempty_p_annotate _ _ _ Hr).
Qed.

(* the statement without the hypothesis is false: a reference model of the fragment with a relation without
   children is rejected by the reader, whatever the surface choices of the emitter *)
Example fama_denotes_old_false :
  fama_ok ref_m1_empty = true
  /\ map (fun ch => fama_read (fama_emit ch ref_m1_empty)) ref_all_choices
     = map (fun _ => Err FlamaException) ref_all_choices
  /\ ~ rels_nonempty (root ref_m1_empty).
Proof.
  split; [vm_compute; reflexivity|]. split; [vm_compute; reflexivity|].
  intros H. apply rels_nonempty_inv in H.
  inversion H as [|? ? _ H1]; subst. inversion H1 as [|? ? _ H2]; subst.
  inversion H2 as [|? ? [Hne _] _]; subst. apply Hne. reflexivity.
Qed.

Print Assumptions fama_denotes.
Print Assumptions fama_denotes_needs_nonempty.
Print Assumptions fama_denotes_old_false.
