(* Proofs/SrcTieC18.v — C18 stated about the TRANSLATED SOURCE of the Constraint class (Gen/Src_fm.v). *)
From Coq Require Import List Bool Ascii String ZArith Lia.
From FM Require Import Base.Result Base.Str Base.AstOp Model.Ast Model.FM Model.Ctc Model.Queries Model.Sem Model.PyRt Model.Loc
     Gen.Src_fm Proofs.C18Facts Proofs.SrcCtcFacts.
Import ListNotations.
Local Open Scope list_scope.

Lemma source_requires_sound : forall c, node_wf (c_ast c) = true ->
  py_Constraint_is_requires_constraint c = Ok true ->
  exists l r, py_left_right_features_from_simple_constraint c = Ok (DStr l, DStr r)
              /\ forall σ, eval σ (c_ast c) = Some (implb (σ l) (σ r)).
Proof.
  intros c Hwf H. rewrite src_is_requires in H. rewrite src_left_right. now apply requires_sound.
Qed.

Lemma source_excludes_sound : forall c, node_wf (c_ast c) = true ->
  py_Constraint_is_excludes_constraint c = Ok true ->
  exists l r, py_left_right_features_from_simple_constraint c = Ok (DStr l, DStr r)
              /\ forall σ, eval σ (c_ast c) = Some (negb (σ l && σ r)).
Proof.
  intros c Hwf H. rewrite src_is_excludes in H. rewrite src_left_right. now apply excludes_sound.
Qed.

Lemma source_no_error : forall c, node_wf (c_ast c) = true ->
  (exists b, py_Constraint_is_requires_constraint c = Ok b) /\
  (exists b, py_Constraint_is_excludes_constraint c = Ok b) /\
  (exists b, py_Constraint_is_simple_constraint c = Ok b) /\
  (exists b, py_Constraint_is_complex_constraint c = Ok b) /\
  py_Constraint_is_logical_constraint c = true.
Proof.
  intros c Hwf. rewrite src_is_requires, src_is_excludes, src_is_simple, src_is_complex, src_is_logical.
  now apply wf_no_error.
Qed.

Lemma source_features : forall c fuel, (fuel_node (c_ast c) <= fuel)%nat -> node_wf (c_ast c) = true ->
  exists l, py_Constraint_get_features fuel c = Ok (map DStr l) /\ NoDup l /\
            forall s, In s l <-> (In s (leaf_names (c_ast c)) /\ starts_with_char "'"%char s = false).
Proof.
  intros c fuel Hf Hwf. exists (ctc_features (c_ast c)). split.
  - now apply src_ctc_get_features.
  - now apply features_exact.
Qed.

(* ---- split_constraint, pseudo- / strict-complex (Proofs/SrcSplitFacts.v) ---- *)
From FM Require Import Proofs.SrcSplitFacts.

Lemma source_split_sound : forall c parts, node_wf (c_ast c) = true -> no_xe (c_ast c) = true ->
  split_asts (c_ast c) = Ok parts ->
  exists n0, forall fuel, (n0 <= fuel)%nat ->
    exists l, py_split_constraint fuel c = Ok l /\ map c_ast l = parts /\
              Forall (fun p => node_wf (c_ast p) = true) l /\
              forall σ, evalb σ (c_ast c) = forallb (evalb σ) (map c_ast l).
Proof.
  intros c parts Hwf Hxe Hs. destruct (src_split_constraint c) as (n0 & Hn). exists n0. intros fuel Hf.
  specialize (Hn fuel Hf). rewrite Hs in Hn.
  destruct (py_split_constraint fuel c) as [l|e]; cbn in Hn; [|discriminate].
  injection Hn as Hn. exists l. split; [reflexivity|]. split; [exact Hn|].
  destruct (split_sound (c_ast c) parts Hwf Hxe Hs) as (Hall & Hev). split.
  - rewrite <- Hn in Hall. now rewrite Forall_map in Hall.
  - intro σ. rewrite Hn. apply Hev.
Qed.

Lemma source_pseudo_strict : forall c, exists n0, forall fuel, (n0 <= fuel)%nat ->
  py_Constraint_is_pseudocomplex_constraint fuel c = is_pseudocomplex (c_ast c) /\
  py_Constraint_is_strictcomplex_constraint fuel c = is_strictcomplex (c_ast c).
Proof.
  intro c. destruct (src_is_pseudocomplex c) as (n1 & H1). destruct (src_is_strictcomplex c) as (n2 & H2).
  exists (Nat.max n1 n2). intros fuel Hf. split; [apply H1|apply H2]; lia.
Qed.
