(* Proofs/HeapFacts.v — the objects stay linked along every guarded run of public calls, and on linked objects the
   queries that follow the parent pointer say what the relation says. *)
From Coq Require Import List Bool String ZArith Arith Lia.
From FM Require Import Model.Heap.
Import ListNotations.
Local Open Scope list_scope.

(* ------------------------------------------------------------------ lists *)
Lemma nth_error_update_nth_eq {A} (g : A -> A) : forall l n,
  nth_error (update_nth n g l) n = option_map g (nth_error l n).
Proof.
  induction l as [|x xs IH]; intros [|n]; cbn [update_nth nth_error option_map]; try reflexivity. apply IH.
Qed.

Lemma nth_error_update_nth_neq {A} (g : A -> A) : forall l n m, n <> m ->
  nth_error (update_nth n g l) m = nth_error l m.
Proof.
  induction l as [|x xs IH]; intros [|n] [|m] H; cbn [update_nth nth_error]; try reflexivity.
  - contradiction.
  - apply IH. intros E. apply H. f_equal. exact E.
Qed.

Lemma length_update_nth {A} (g : A -> A) : forall l n, List.length (update_nth n g l) = List.length l.
Proof. induction l as [|x xs IH]; intros [|n]; cbn [update_nth List.length]; try reflexivity. f_equal. apply IH. Qed.

Lemma In_remove_nth {A} : forall (l : list A) k x, In x (remove_nth k l) -> In x l.
Proof.
  induction l as [|y ys IH]; intros [|k] x H; cbn [remove_nth] in H; try contradiction.
  - right. exact H.
  - destruct H as [H|H]; [left; exact H|right; exact (IH _ _ H)].
Qed.

Lemma In_update_nth {A} (g : A -> A) : forall (l : list A) k x,
  In x (update_nth k g l) -> In x l \/ exists y, In y l /\ x = g y.
Proof.
  induction l as [|y ys IH]; intros [|k] x H; cbn [update_nth] in H; try contradiction.
  - destruct H as [H|H]; [right; exists y; split; [left; reflexivity|symmetry; exact H]|left; right; exact H].
  - destruct H as [H|H]; [left; left; exact H|].
    destruct (IH _ _ H) as [H1|[z [Hz Hx]]]; [left; right; exact H1|right; exists z; split; [right; exact Hz|exact Hx]].
Qed.

Lemma existsb_eqb_In (c : nat) l : existsb (Nat.eqb c) l = true <-> In c l.
Proof.
  rewrite existsb_exists. split.
  - intros [x [Hx He]]. apply Nat.eqb_eq in He. subst. exact Hx.
  - intros H. exists c. split; [exact H|apply Nat.eqb_refl].
Qed.

Lemma NoDup_app_disjoint {A} : forall (l1 l2 : list A) a, NoDup (l1 ++ l2) -> In a l1 -> In a l2 -> False.
Proof.
  induction l1 as [|x xs IH]; intros l2 a H H1 H2; [contradiction|].
  cbn [app] in H. apply NoDup_cons_iff in H. destruct H as [Hx Hnd].
  destruct H1 as [->|H1].
  - apply Hx. apply in_or_app. right. exact H2.
  - exact (IH _ _ Hnd H1 H2).
Qed.

Lemma NoDup_app_right {A} : forall (l1 l2 : list A), NoDup (l1 ++ l2) -> NoDup l2.
Proof.
  induction l1 as [|x xs IH]; intros l2 H; [exact H|].
  cbn [app] in H. apply NoDup_cons_iff in H. exact (IH _ (proj2 H)).
Qed.

Lemma NoDup_flat_map_same {A B C} (ch : A -> list B) (g : B -> C) : forall l r r' c d,
  NoDup (map g (flat_map ch l)) -> In r l -> In r' l -> In c (ch r) -> In d (ch r') -> g c = g d -> r = r'.
Proof.
  induction l as [|a l' IH]; intros r r' c d Hnd Hr Hr' Hc Hd Hg; [contradiction|].
  cbn [flat_map] in Hnd. rewrite map_app in Hnd.
  assert (Hin : forall s e, In s l' -> In e (ch s) -> In (g e) (map g (flat_map ch l'))).
  { intros s e Hs He. apply in_map. apply in_flat_map. exists s. split; assumption. }
  destruct Hr as [<-|Hr]; destruct Hr' as [<-|Hr'].
  - reflexivity.
  - exfalso. apply (NoDup_app_disjoint _ _ (g c) Hnd); [apply in_map; exact Hc|rewrite Hg; exact (Hin _ _ Hr' Hd)].
  - exfalso. apply (NoDup_app_disjoint _ _ (g d) Hnd); [apply in_map; exact Hd|rewrite <- Hg; exact (Hin _ _ Hr Hc)].
  - apply (IH r r' c d); try assumption. exact (NoDup_app_right _ _ Hnd).
Qed.

(* ------------------------------------------------------------------ the invariant *)
Definition linked (h : heap) : Prop :=
  forall f x r, nth_error h f = Some x -> In r (hf_rels x) ->
    hr_owner r = f /\ forall c, In c (hr_children r) -> h_parent h c = Some f /\ c < List.length h.

Lemma linked_nil : linked [].
Proof. intros f x r H. destruct f; discriminate. Qed.

Lemma occurs_false h c : occurs h c = false ->
  forall f x r, nth_error h f = Some x -> In r (hf_rels x) -> ~ In c (hr_children r).
Proof.
  intros Ho f x r Hx Hr Hc.
  assert (occurs h c = true); [|congruence].
  unfold occurs. apply existsb_exists. exists x. split; [exact (nth_error_In _ _ Hx)|].
  apply existsb_exists. exists r. split; [exact Hr|]. apply existsb_eqb_In. exact Hc.
Qed.

Lemma h_parent_update_other h n g i : (forall x, hf_parent (g x) = hf_parent x) ->
  h_parent (update_nth n g h) i = h_parent h i.
Proof.
  intros Hg. unfold h_parent. destruct (Nat.eq_dec n i) as [->|Hne].
  - rewrite nth_error_update_nth_eq. destruct (nth_error h i); cbn [option_map]; [apply Hg|reflexivity].
  - rewrite nth_error_update_nth_neq by exact Hne. reflexivity.
Qed.

Lemma h_parent_set h c p i :
  h_parent (update_nth c (set_parent p) h) i =
  if Nat.eqb c i && Nat.ltb i (List.length h) then p else h_parent h i.
Proof.
  unfold h_parent. destruct (Nat.eq_dec c i) as [->|Hne].
  - rewrite nth_error_update_nth_eq, Nat.eqb_refl. cbn [andb].
    destruct (nth_error h i) as [x|] eqn:Hx; cbn [option_map].
    + assert (i < List.length h) by (apply nth_error_Some; congruence).
      destruct (Nat.ltb_spec i (List.length h)); [reflexivity|lia].
    + apply nth_error_None in Hx. destruct (Nat.ltb_spec i (List.length h)); [lia|reflexivity].
  - rewrite nth_error_update_nth_neq by exact Hne.
    destruct (Nat.eqb_spec c i); [contradiction|reflexivity].
Qed.

Lemma rels_set_parent h c p i x :
  nth_error (update_nth c (set_parent p) h) i = Some x ->
  exists y, nth_error h i = Some y /\ hf_rels x = hf_rels y.
Proof.
  intros H. destruct (Nat.eq_dec c i) as [->|Hne].
  - rewrite nth_error_update_nth_eq in H. destruct (nth_error h i) as [y|]; [|discriminate].
    injection H as <-. exists y. split; reflexivity.
  - rewrite nth_error_update_nth_neq in H by exact Hne. exists x. split; [exact H|reflexivity].
Qed.

(* the fold of add_relation over the children *)
Definition point_all (f : nat) (cs : list nat) (h : heap) : heap :=
  fold_left (fun h' c => update_nth c (set_parent (Some f)) h') cs h.

Lemma point_all_length f : forall cs h, List.length (point_all f cs h) = List.length h.
Proof.
  unfold point_all. induction cs as [|c cs IH]; intros h; cbn [fold_left]; [reflexivity|].
  rewrite IH. apply length_update_nth.
Qed.

Lemma point_all_rels f : forall cs h i x, nth_error (point_all f cs h) i = Some x ->
  exists y, nth_error h i = Some y /\ hf_rels x = hf_rels y.
Proof.
  unfold point_all. induction cs as [|c cs IH]; intros h i x H; cbn [fold_left] in H.
  - exists x. split; [exact H|reflexivity].
  - destruct (IH _ _ _ H) as [y [Hy Hr]]. destruct (rels_set_parent _ _ _ _ _ Hy) as [z [Hz Hr']].
    exists z. split; [exact Hz|congruence].
Qed.

Lemma point_all_parent f : forall cs h i,
  h_parent (point_all f cs h) i =
  if existsb (Nat.eqb i) cs && Nat.ltb i (List.length h) then Some f else h_parent h i.
Proof.
  unfold point_all. induction cs as [|c cs IH]; intros h i; cbn [fold_left existsb]; [reflexivity|].
  rewrite IH, length_update_nth, h_parent_set.
  rewrite (Nat.eqb_sym c i).
  destruct (Nat.eqb i c); destruct (existsb (Nat.eqb i) cs); destruct (Nat.ltb i (List.length h)); reflexivity.
Qed.

(* ------------------------------------------------------------------ one guarded call keeps the objects linked *)
Lemma linked_step h o : linked h -> guard h o = true -> linked (step h o).
Proof.
  intros HL HG. destruct o as [name parent|f rp mn mx cs|f k|f k c|c p]; cbn [step guard] in *.
  - (* HNew *)
    intros f x r Hx Hr.
    destruct (Nat.lt_ge_cases f (List.length h)) as [Hlt|Hge].
    + rewrite nth_error_app1 in Hx by exact Hlt. destruct (HL _ _ _ Hx Hr) as [Ho Hc]. split; [exact Ho|].
      intros c Hin. destruct (Hc _ Hin) as [Hp Hlen]. split.
      * unfold h_parent in *. rewrite nth_error_app1 by exact Hlen. exact Hp.
      * rewrite app_length. lia.
    + rewrite nth_error_app2 in Hx by exact Hge.
      destruct (f - List.length h) as [|n]; cbn [nth_error] in Hx.
      * injection Hx as <-. contradiction.
      * destruct n; discriminate.
  - (* HAddRel *)
    apply andb_prop in HG. destruct HG as [HG Hnd]. apply andb_prop in HG. destruct HG as [HG Hcs].
    apply andb_prop in HG. destruct HG as [Hf Hrp]. rewrite Hf.
    apply Nat.ltb_lt in Hf. apply Nat.eqb_eq in Hrp. subst rp.
    assert (Hcs' : forall c, In c cs -> c < List.length h /\ occurs h c = false).
    { intros c Hc. rewrite forallb_forall in Hcs. specialize (Hcs _ Hc). apply andb_prop in Hcs.
      destruct Hcs as [H1 H2]. apply Nat.ltb_lt in H1. apply negb_true_iff in H2. split; assumption. }
    set (newrel := {| hr_owner := f; hr_min := mn; hr_max := mx; hr_children := cs |}).
    set (h1 := update_nth f (set_rels (fun rs => rs ++ [newrel])) h).
    change (linked (point_all f cs h1)).
    assert (Hlen1 : List.length h1 = List.length h) by apply length_update_nth.
    assert (Hpar1 : forall i, h_parent h1 i = h_parent h i).
    { intros i. apply h_parent_update_other. intros x. reflexivity. }
    intros f' x' r' Hx' Hr'.
    destruct (point_all_rels _ _ _ _ _ Hx') as [y [Hy Hrels]]. rewrite Hrels in Hr'.
    assert (Hold : forall z, nth_error h f' = Some z -> In r' (hf_rels z) ->
              hr_owner r' = f' /\ forall c, In c (hr_children r') ->
                h_parent (point_all f cs h1) c = Some f' /\ c < List.length (point_all f cs h1)).
    { intros z Hz Hin. destruct (HL _ _ _ Hz Hin) as [Ho Hc]. split; [exact Ho|].
      intros c Hc'. destruct (Hc _ Hc') as [Hp Hl]. split.
      - rewrite point_all_parent.
        assert (Hnot : existsb (Nat.eqb c) cs = false).
        { destruct (existsb (Nat.eqb c) cs) eqn:E; [|reflexivity].
          apply existsb_eqb_In in E. destruct (Hcs' _ E) as [_ Hocc].
          exfalso. exact (occurs_false _ _ Hocc _ _ _ Hz Hin Hc'). }
        rewrite Hnot. cbn [andb]. rewrite Hpar1. exact Hp.
      - rewrite point_all_length, Hlen1. exact Hl. }
    unfold h1 in Hy. destruct (Nat.eq_dec f f') as [<-|Hne].
    + rewrite nth_error_update_nth_eq in Hy. destruct (nth_error h f) as [z|] eqn:Hz; [|discriminate].
      cbn [option_map] in Hy. injection Hy as <-. cbn [set_rels hf_rels] in Hr'.
      apply in_app_or in Hr'. destruct Hr' as [Hin|[<-|[]]].
      * exact (Hold z eq_refl Hin).
      * split; [reflexivity|]. cbn [hr_children newrel]. intros c Hc. destruct (Hcs' _ Hc) as [Hl _]. split.
        -- rewrite point_all_parent. apply existsb_eqb_In in Hc. rewrite Hc. cbn [andb].
           rewrite Hlen1. destruct (Nat.ltb_spec c (List.length h)); [reflexivity|lia].
        -- rewrite point_all_length, Hlen1. exact Hl.
    + rewrite nth_error_update_nth_neq in Hy by exact Hne. exact (Hold y Hy Hr').
  - (* HDelRel *)
    intros f' x' r' Hx' Hr'.
    assert (Hpar : forall i, h_parent (update_nth f (set_rels (remove_nth k)) h) i = h_parent h i).
    { intros i. apply h_parent_update_other. intros x. reflexivity. }
    assert (Hold : exists z, nth_error h f' = Some z /\ In r' (hf_rels z)).
    { destruct (Nat.eq_dec f f') as [<-|Hne].
      - rewrite nth_error_update_nth_eq in Hx'. destruct (nth_error h f) as [z|]; [|discriminate].
        cbn [option_map] in Hx'. injection Hx' as <-. cbn [set_rels hf_rels] in Hr'.
        exists z. split; [reflexivity|exact (In_remove_nth _ _ _ Hr')].
      - rewrite nth_error_update_nth_neq in Hx' by exact Hne. exists x'. split; assumption. }
    destruct Hold as [z [Hz Hin]]. destruct (HL _ _ _ Hz Hin) as [Ho Hc]. split; [exact Ho|].
    intros c Hc'. destruct (Hc _ Hc') as [Hp Hl]. split; [rewrite Hpar; exact Hp|rewrite length_update_nth; exact Hl].
  - (* HAddChild *)
    apply andb_prop in HG. destruct HG as [HG Hpc]. apply andb_prop in HG. destruct HG as [Hcl Hocc].
    apply Nat.ltb_lt in Hcl. apply negb_true_iff in Hocc.
    assert (Hpc' : h_parent h c = Some f).
    { destruct (h_parent h c) as [p|]; [|discriminate]. apply Nat.eqb_eq in Hpc. subst. reflexivity. }
    intros f' x' r' Hx' Hr'.
    assert (Hpar : forall i, h_parent (update_nth f (set_rels (update_nth k (add_child_rel c))) h) i = h_parent h i).
    { intros i. apply h_parent_update_other. intros x. reflexivity. }
    assert (Hfin : forall z r0, nth_error h f' = Some z -> In r0 (hf_rels z) ->
              hr_owner r0 = f' /\ forall d, In d (hr_children r0) ->
                h_parent (update_nth f (set_rels (update_nth k (add_child_rel c))) h) d = Some f'
                /\ d < List.length (update_nth f (set_rels (update_nth k (add_child_rel c))) h)).
    { intros z r0 Hz Hin. destruct (HL _ _ _ Hz Hin) as [Ho Hc]. split; [exact Ho|].
      intros d Hd. destruct (Hc _ Hd) as [Hp Hl]. split; [rewrite Hpar; exact Hp|rewrite length_update_nth; exact Hl]. }
    destruct (Nat.eq_dec f f') as [<-|Hne].
    + rewrite nth_error_update_nth_eq in Hx'. destruct (nth_error h f) as [z|] eqn:Hz; [|discriminate].
      cbn [option_map] in Hx'. injection Hx' as <-. cbn [set_rels hf_rels] in Hr'.
      destruct (In_update_nth _ _ _ _ Hr') as [Hin|[r0 [Hin ->]]].
      * exact (Hfin z r' eq_refl Hin).
      * destruct (Hfin z r0 eq_refl Hin) as [Ho Hc]. split; [exact Ho|].
        cbn [add_child_rel hr_children]. intros d Hd. apply in_app_or in Hd. destruct Hd as [Hd|[<-|[]]].
        -- exact (Hc _ Hd).
        -- split; [rewrite Hpar; exact Hpc'|rewrite length_update_nth; exact Hcl].
    + rewrite nth_error_update_nth_neq in Hx' by exact Hne. exact (Hfin x' r' Hx' Hr').
  - (* HSetParent *)
    apply negb_true_iff in HG.
    intros f' x' r' Hx' Hr'. destruct (rels_set_parent _ _ _ _ _ Hx') as [y [Hy Hrels]]. rewrite Hrels in Hr'.
    destruct (HL _ _ _ Hy Hr') as [Ho Hc]. split; [exact Ho|].
    intros d Hd. destruct (Hc _ Hd) as [Hp Hl]. split; [|rewrite length_update_nth; exact Hl].
    rewrite h_parent_set. destruct (Nat.eqb_spec c d) as [->|Hne]; [|exact Hp].
    exfalso. exact (occurs_false _ _ HG _ _ _ Hy Hr' Hd).
Qed.

(* every reachable state of a guarded run *)
Theorem guarded_run_linked : forall ops h, linked h -> guards h ops = true -> linked (run h ops).
Proof.
  induction ops as [|o ops IH]; intros h HL HG; cbn [run fold_left guards] in *; [exact HL|].
  apply andb_prop in HG. destruct HG as [Hg Hrest].
  apply (IH (step h o)); [exact (linked_step _ _ HL Hg)|exact Hrest].
Qed.

Corollary construction_linked : forall ops, guards [] ops = true -> linked (run [] ops).
Proof. intros ops. apply guarded_run_linked. exact linked_nil. Qed.

(* ------------------------------------------------------------------ what the pointer-following queries say *)
Theorem h_parent_spec : forall h f x r c, linked h -> nth_error h f = Some x -> In r (hf_rels x) ->
  In c (hr_children r) -> h_parent h c = Some f /\ h_is_root h c = false.
Proof.
  intros h f x r c HL Hx Hr Hc. destruct (HL _ _ _ Hx Hr) as [_ H]. destruct (H _ Hc) as [Hp _].
  split; [exact Hp|]. unfold h_is_root. rewrite Hp. reflexivity.
Qed.

Theorem h_is_kind_spec : forall kind h f x r c, linked h -> nth_error h f = Some x -> In r (hf_rels x) ->
  In c (hr_children r) -> NoDup (map (h_name h) (h_children h f)) ->
  h_is_kind kind h c = kind r.
Proof.
  intros kind h f x r c HL Hx Hr Hc Hnd.
  destruct (HL _ _ _ Hx Hr) as [_ H]. destruct (H _ Hc) as [Hp _].
  unfold h_is_kind. rewrite Hp. unfold h_children, h_rels in *. rewrite Hx in *.
  destruct (kind r) eqn:Hk.
  - apply existsb_exists. exists r. split; [exact Hr|]. rewrite Hk. cbn [andb].
    unfold named_in. apply existsb_exists. exists c. split; [exact Hc|apply String.eqb_refl].
  - destruct (existsb _ (hf_rels x)) eqn:E; [|reflexivity]. exfalso.
    apply existsb_exists in E. destruct E as [r' [Hr' Hb]]. apply andb_prop in Hb. destruct Hb as [Hk' Hn].
    unfold named_in in Hn. apply existsb_exists in Hn. destruct Hn as [d [Hd He]]. apply String.eqb_eq in He.
    assert (r = r') by (apply (NoDup_flat_map_same hr_children (h_name h) (hf_rels x) r r' c d); auto).
    subst r'. congruence.
Qed.

Corollary h_is_mandatory_spec : forall h f x r c, linked h -> nth_error h f = Some x -> In r (hf_rels x) ->
  In c (hr_children r) -> NoDup (map (h_name h) (h_children h f)) -> h_is_mandatory h c = hrel_is_mandatory r.
Proof. intros. eapply h_is_kind_spec; eassumption. Qed.

Corollary h_is_optional_spec : forall h f x r c, linked h -> nth_error h f = Some x -> In r (hf_rels x) ->
  In c (hr_children r) -> NoDup (map (h_name h) (h_children h f)) -> h_is_optional h c = hrel_is_optional r.
Proof. intros. eapply h_is_kind_spec; eassumption. Qed.

(* ------------------------------------------------------------------ non-vacuity and the need for the guard *)
Local Open Scope string_scope.
(* R with optional A and mandatory B; then A (with its child X) is MOVED under B as a mandatory child *)
Definition ex_move : list hop :=
  [HNew "R" None; HNew "A" None; HNew "B" None; HNew "X" (Some 1);
   HAddRel 1 1 0%Z 1%Z [3]; HAddRel 0 0 0%Z 1%Z [1]; HAddRel 0 0 1%Z 1%Z [2];
   HDelRel 0 0; HAddRel 2 2 1%Z 1%Z [1]].

Example ex_move_guarded :
  guards [] ex_move = true
  /\ h_parent (run [] ex_move) 1 = Some 2 /\ h_is_mandatory (run [] ex_move) 1 = true
  /\ h_is_optional (run [] ex_move) 1 = false /\ h_children (run [] ex_move) 0 = [2] /\ h_children (run [] ex_move) 2 = [1].
Proof. vm_compute. repeat split; reflexivity. Qed.

(* without the guard (A attached to B while R still holds it) the objects are not linked: R's relation names a child
   whose parent is B, and A answers "mandatory" although R's relation is optional *)
Definition ex_shared : list hop :=
  [HNew "R" None; HNew "A" None; HNew "B" None; HAddRel 0 0 0%Z 1%Z [1]; HAddRel 0 0 1%Z 1%Z [2];
   HAddRel 2 2 1%Z 1%Z [1]].

Example ex_shared_not_linked :
  guards [] ex_shared = false /\ h_parent (run [] ex_shared) 1 = Some 2 /\ h_children (run [] ex_shared) 0 = [1; 2]
  /\ h_is_mandatory (run [] ex_shared) 1 = true.
Proof. vm_compute. repeat split; reflexivity. Qed.

Print Assumptions guarded_run_linked.
Print Assumptions h_is_kind_spec.
