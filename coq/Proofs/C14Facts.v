(* Proofs/C14Facts.v — core features: soundness, uniqueness, completeness (without constraints) *)
From Coq Require Import List Bool Ascii String ZArith Lia Permutation.
From FM Require Import Base.Result Base.Str Base.AstOp Model.Ast Model.FM Model.Ctc Model.Queries
     Model.Sem Model.Ops.
From FM Require Import Proofs.FMFacts Proofs.QueriesFacts.
Import ListNotations.
Local Open Scope list_scope.

(* ------------------------------------------------------------------ membership-style induction *)
Lemma feature_ind3 (P : feature -> Prop) :
  (forall i rs, (forall r d, In r rs -> In d (r_children r) -> P d) -> P (Feature i rs)) ->
  forall f, P f.
Proof.
  intros H. apply (feature_ind2 P (fun r => forall d, In d (r_children r) -> P d)).
  - intros i rs IH. apply H. intros r d Hr Hd. rewrite Forall_forall in IH. exact (IH r Hr d Hd).
  - intros a b cs IH d Hd. simpl in Hd. rewrite Forall_forall in IH. exact (IH d Hd).
Qed.

(* ------------------------------------------------------------------ unfolding equations *)
Definition cs_ok (σ : string -> bool) (cs : list feature) : bool :=
  forallb (fun c => if σ (name c) then sem σ c else none_selected σ c) cs.

Definition rel_ok (σ : string -> bool) (r : relation) : bool :=
  card_okb (r_min r) (r_max r) (List.length (r_children r)) (count_sel σ (r_children r))
  && cs_ok σ (r_children r).

Definition rcore (r : relation) : list feature :=
  if forces_all r then flat_map core_features (r_children r) else [].

Definition rnames (r : relation) : list string := flat_map names (r_children r).

Lemma sem_unfold σ i rs : sem σ (Feature i rs) = σ (f_name i) && forallb (rel_ok σ) rs.
Proof.
  cbn [sem]. f_equal.
  induction rs as [|r rs IH]; [reflexivity|].
  cbn [forallb]. rewrite IH. f_equal. destruct r as [a b cs]. reflexivity.
Qed.

Lemma none_unfold σ i rs :
  none_selected σ (Feature i rs)
  = negb (σ (f_name i)) && forallb (fun r => forallb (none_selected σ) (r_children r)) rs.
Proof.
  cbn [none_selected]. f_equal.
  induction rs as [|r rs IH]; [reflexivity|].
  cbn [forallb]. rewrite IH. f_equal. destruct r as [a b cs]. reflexivity.
Qed.

Lemma core_unfold i rs : core_features (Feature i rs) = Feature i rs :: flat_map rcore rs.
Proof.
  cbn [core_features]. f_equal.
  induction rs as [|r rs IH]; [reflexivity|].
  cbn [flat_map]. rewrite IH. f_equal. destruct r as [a b cs]. reflexivity.
Qed.

Lemma subfeatures_unfold i rs :
  subfeatures (Feature i rs)
  = Feature i rs :: flat_map (fun r => flat_map subfeatures (r_children r)) rs.
Proof.
  cbn [subfeatures]. f_equal.
  induction rs as [|r rs IH]; [reflexivity|].
  cbn [flat_map]. rewrite IH. f_equal. destruct r as [a b cs]. reflexivity.
Qed.

Lemma subrelations_unfold i rs :
  subrelations (Feature i rs)
  = flat_map (fun r => r :: flat_map subrelations (r_children r)) rs.
Proof.
  cbn [subrelations].
  induction rs as [|r rs IH]; [reflexivity|].
  cbn [flat_map]. rewrite IH. f_equal. destruct r as [a b cs]. reflexivity.
Qed.

Lemma map_flat_map' {A B C} (g : B -> C) (f : A -> list B) l :
  map g (flat_map f l) = flat_map (fun x => map g (f x)) l.
Proof. induction l as [|x l IH]; simpl; auto. rewrite map_app, IH. reflexivity. Qed.

Lemma names_unfold i rs : names (Feature i rs) = f_name i :: flat_map rnames rs.
Proof.
  unfold names. rewrite subfeatures_unfold. cbn [map]. f_equal.
  rewrite map_flat_map'. apply flat_map_ext. intros r. unfold rnames.
  rewrite map_flat_map'. reflexivity.
Qed.

Lemma name_in_names f : In (name f) (names f).
Proof. destruct f as [i rs]. rewrite names_unfold. left. reflexivity. Qed.

Lemma in_names_child cs d y : In d cs -> In y (names d) -> In y (flat_map names cs).
Proof. intros Hd Hy. apply in_flat_map. exists d. auto. Qed.

Lemma in_rnames rs r y : In r rs -> In y (rnames r) -> In y (flat_map rnames rs).
Proof. intros Hr Hy. apply in_flat_map. exists r. auto. Qed.

(* ------------------------------------------------------------------ counting *)
Lemma filter_length_le' {A} (p : A -> bool) l : (List.length (filter p l) <= List.length l)%nat.
Proof. induction l as [|x l IH]; simpl; auto. destruct (p x); simpl; lia. Qed.

Lemma filter_all {A} (p : A -> bool) l :
  (List.length l <= List.length (filter p l))%nat -> forall x, In x l -> p x = true.
Proof.
  induction l as [|y l IH]; intros Hlen x Hin; [contradiction|].
  simpl in Hlen. destruct (p y) eqn:Hpy.
  - simpl in Hlen. destruct Hin as [-> | Hin]; [exact Hpy|]. apply IH; [lia | exact Hin].
  - pose proof (filter_length_le' p l) as Hle. lia.
Qed.

Lemma forces_all_min r : forces_all r = true -> r_min r = nchildren r.
Proof.
  unfold forces_all, rel_is_mandatory. intros H.
  apply orb_prop in H. destruct H as [H | H].
  - apply andb_prop in H. destruct H as [H H3]. apply andb_prop in H. destruct H as [H1 H2].
    apply Z.eqb_eq in H1. apply Z.eqb_eq in H3. lia.
  - apply andb_prop in H. destruct H as [H1 _]. apply Z.eqb_eq in H1. exact H1.
Qed.

Lemma forces_all_selected σ r :
  forces_all r = true -> rel_ok σ r = true ->
  forall c, In c (r_children r) -> σ (name c) = true /\ sem σ c = true.
Proof.
  intros Hfa Hok c Hc.
  apply forces_all_min in Hfa.
  unfold rel_ok in Hok. apply andb_prop in Hok. destruct Hok as [Hcard Hcs].
  unfold card_okb in Hcard. apply andb_prop in Hcard. destruct Hcard as [Hmin _].
  apply Z.leb_le in Hmin. unfold count_sel in Hmin. unfold nchildren in Hfa.
  assert (Hlen : (List.length (r_children r)
                  <= List.length (filter (fun c0 => σ (name c0)) (r_children r)))%nat) by lia.
  pose proof (filter_all _ _ Hlen c Hc) as Hsel. cbv beta in Hsel.
  split; [exact Hsel|].
  unfold cs_ok in Hcs. rewrite forallb_forall in Hcs.
  specialize (Hcs c Hc). cbv beta in Hcs. rewrite Hsel in Hcs. exact Hcs.
Qed.

(* ------------------------------------------------------------------ soundness *)
Theorem core_sound : forall σ f x, sem σ f = true -> In x (core_features f) -> σ (name x) = true.
Proof.
  intros σ f. pattern f. apply feature_ind3. clear f.
  intros i rs IH x Hsem Hin.
  rewrite sem_unfold in Hsem. apply andb_prop in Hsem. destruct Hsem as [Hroot Hrs].
  rewrite core_unfold in Hin. destruct Hin as [<- | Hin]; [exact Hroot|].
  apply in_flat_map in Hin. destruct Hin as [r [Hr Hin]].
  rewrite forallb_forall in Hrs. specialize (Hrs r Hr).
  unfold rcore in Hin. destruct (forces_all r) eqn:Hfa; [|contradiction].
  apply in_flat_map in Hin. destruct Hin as [d [Hd Hin]].
  destruct (forces_all_selected σ r Hfa Hrs d Hd) as [_ Hsd].
  exact (IH r d Hr Hd x Hsd Hin).
Qed.

Theorem core_sound_model : forall m σ x,
  valid m σ = true -> In x (core_features (root m)) -> σ (name x) = true.
Proof.
  intros m σ x Hv Hin. unfold valid in Hv. apply andb_prop in Hv. destruct Hv as [Hsem _].
  exact (core_sound σ (root m) x Hsem Hin).
Qed.

Theorem core_root : forall f, In f (core_features f).
Proof. intros [i rs]. rewrite core_unfold. left. reflexivity. Qed.

(* ------------------------------------------------------------------ returned once *)
Inductive subseq {A : Type} : list A -> list A -> Prop :=
| ss_nil : forall l, subseq [] l
| ss_cons : forall x l1 l2, subseq l1 l2 -> subseq (x :: l1) (x :: l2)
| ss_skip : forall x l1 l2, subseq l1 l2 -> subseq l1 (x :: l2).

Lemma subseq_in {A} (l1 l2 : list A) : subseq l1 l2 -> forall x, In x l1 -> In x l2.
Proof.
  induction 1 as [l | y l1 l2 _ IH | y l1 l2 _ IH]; intros x Hin.
  - contradiction.
  - destruct Hin as [-> | Hin]; [left; reflexivity | right; apply IH; exact Hin].
  - right. apply IH. exact Hin.
Qed.

Lemma subseq_NoDup {A} (l1 l2 : list A) : subseq l1 l2 -> NoDup l2 -> NoDup l1.
Proof.
  induction 1 as [l | y l1 l2 Hs IH | y l1 l2 Hs IH]; intros Hnd.
  - constructor.
  - inversion Hnd as [|? ? Hnotin Hnd']; subst. constructor; [|apply IH; exact Hnd'].
    intro Hin. apply Hnotin. exact (subseq_in _ _ Hs _ Hin).
  - inversion Hnd as [|? ? _ Hnd']; subst. apply IH. exact Hnd'.
Qed.

Lemma subseq_app_r {A} (l1 l l2 : list A) : subseq l1 l2 -> subseq l1 (l ++ l2).
Proof. intros H. induction l as [|y l IH]; simpl; [exact H | apply ss_skip; exact IH]. Qed.

Lemma subseq_app {A} (a b c d : list A) : subseq a b -> subseq c d -> subseq (a ++ c) (b ++ d).
Proof.
  intros Hab Hcd. induction Hab as [l | y l1 l2 _ IH | y l1 l2 _ IH]; simpl.
  - apply subseq_app_r. exact Hcd.
  - apply ss_cons. exact IH.
  - apply ss_skip. exact IH.
Qed.

Lemma subseq_map {A B} (g : A -> B) (l1 l2 : list A) : subseq l1 l2 -> subseq (map g l1) (map g l2).
Proof. induction 1; simpl; constructor; auto. Qed.

Lemma subseq_flat_map {A B} (f g : A -> list B) l :
  (forall x, In x l -> subseq (f x) (g x)) -> subseq (flat_map f l) (flat_map g l).
Proof.
  induction l as [|x l IH]; intros H; simpl; [constructor|].
  apply subseq_app.
  - apply H. left. reflexivity.
  - apply IH. intros y Hy. apply H. right. exact Hy.
Qed.

Lemma core_subseq : forall f, subseq (core_features f) (subfeatures f).
Proof.
  apply feature_ind3. intros i rs IH.
  rewrite core_unfold, subfeatures_unfold. apply ss_cons.
  apply subseq_flat_map. intros r Hr. unfold rcore.
  destruct (forces_all r); [|constructor].
  apply subseq_flat_map. intros d Hd. exact (IH r d Hr Hd).
Qed.

Theorem core_once : forall f, NoDup (names f) -> NoDup (map name (core_features f)).
Proof.
  intros f Hnd. apply (subseq_NoDup _ (names f)); [|exact Hnd].
  unfold names. apply subseq_map. apply core_subseq.
Qed.

(* ------------------------------------------------------------------ completeness *)
Definition rel_sane (r : relation) : Prop :=
  (0 <= r_min r)%Z /\ (r_min r <= eff_max (r_max r) (List.length (r_children r)))%Z
  /\ (eff_max (r_max r) (List.length (r_children r)) <= Z.of_nat (List.length (r_children r)))%Z
  /\ (1 <= List.length (r_children r))%nat.

(* --- sigma_of --- *)
Lemma sigma_of_In sel y : sigma_of sel y = true <-> In y sel.
Proof.
  unfold sigma_of. induction sel as [|a sel IH]; simpl.
  - split; [discriminate | contradiction].
  - rewrite orb_true_iff, IH, String.eqb_eq. split; intros [H | H]; auto.
Qed.

Lemma sigma_of_notin sel y : ~ In y sel -> sigma_of sel y = false.
Proof.
  intros H. destruct (sigma_of sel y) eqn:E; [|reflexivity].
  apply sigma_of_In in E. contradiction.
Qed.

Lemma sigma_of_app a b y : sigma_of (a ++ b) y = sigma_of a y || sigma_of b y.
Proof.
  unfold sigma_of. induction a as [|x a IH]; simpl; [reflexivity|].
  rewrite IH, orb_assoc. reflexivity.
Qed.

(* --- NoDup helpers --- *)
Lemma NoDup_app_inv {A} (a b : list A) :
  NoDup (a ++ b) -> NoDup a /\ NoDup b /\ (forall y, In y a -> In y b -> False).
Proof.
  induction a as [|x a IH]; simpl; intros H.
  - split; [constructor|]. split; [exact H|]. intros y Hy; contradiction.
  - inversion H as [|? ? Hnotin Hnd]; subst.
    destruct (IH Hnd) as (Ha & Hb & Hdis).
    split; [|split; [exact Hb|]].
    + constructor; [|exact Ha]. intro Hin. apply Hnotin. apply in_or_app. left. exact Hin.
    + intros y [-> | Hy] Hyb.
      * apply Hnotin. apply in_or_app. right. exact Hyb.
      * exact (Hdis y Hy Hyb).
Qed.

Lemma NoDup_flat_map_in {A B} (f : A -> list B) l x :
  NoDup (flat_map f l) -> In x l -> NoDup (f x).
Proof.
  induction l as [|y l IH]; simpl; intros Hnd Hin; [contradiction|].
  destruct (NoDup_app_inv _ _ Hnd) as (Ha & Hb & _).
  destruct Hin as [-> | Hin]; [exact Ha | exact (IH Hb Hin)].
Qed.

(* --- the semantics only looks at the names of the sub-tree --- *)
Lemma forallb_ext_in {A} (p q : A -> bool) l :
  (forall x, In x l -> p x = q x) -> forallb p l = forallb q l.
Proof.
  induction l as [|x l IH]; simpl; intros H; auto.
  rewrite (H x (or_introl eq_refl)). f_equal. apply IH. intros y Hy. apply H. right; exact Hy.
Qed.

Lemma cs_ext_gen σ σ' cs :
  (forall d, In d cs -> σ (name d) = σ' (name d) /\ sem σ d = sem σ' d
                        /\ none_selected σ d = none_selected σ' d) ->
  count_sel σ cs = count_sel σ' cs /\ cs_ok σ cs = cs_ok σ' cs
  /\ forallb (none_selected σ) cs = forallb (none_selected σ') cs.
Proof.
  intros H. split; [|split].
  - unfold count_sel. f_equal. f_equal. apply filter_ext_in. intros d Hd.
    destruct (H d Hd) as (H1 & _). exact H1.
  - unfold cs_ok. apply forallb_ext_in. intros d Hd.
    destruct (H d Hd) as (H1 & H2 & H3). rewrite H1, H2, H3. reflexivity.
  - apply forallb_ext_in. intros d Hd. destruct (H d Hd) as (_ & _ & H3). exact H3.
Qed.

Lemma sem_ext σ σ' : forall f,
  (forall y, In y (names f) -> σ y = σ' y) ->
  sem σ f = sem σ' f /\ none_selected σ f = none_selected σ' f.
Proof.
  apply (feature_ind3 (fun f => (forall y, In y (names f) -> σ y = σ' y) ->
                                sem σ f = sem σ' f /\ none_selected σ f = none_selected σ' f)).
  intros i rs IH Hag. rewrite names_unfold in Hag.
  assert (Hhead : σ (f_name i) = σ' (f_name i)) by (apply Hag; left; reflexivity).
  assert (Hrel : forall r, In r rs ->
            count_sel σ (r_children r) = count_sel σ' (r_children r)
            /\ cs_ok σ (r_children r) = cs_ok σ' (r_children r)
            /\ forallb (none_selected σ) (r_children r) = forallb (none_selected σ') (r_children r)).
  { intros r Hr. apply cs_ext_gen. intros d Hd.
    assert (Hagd : forall y, In y (names d) -> σ y = σ' y).
    { intros y Hy. apply Hag. right. apply (in_rnames rs r y Hr).
      unfold rnames. exact (in_names_child _ d y Hd Hy). }
    destruct (IH r d Hr Hd Hagd) as [H1 H2].
    split; [|split; assumption]. apply Hagd. apply name_in_names. }
  rewrite !sem_unfold, !none_unfold, Hhead. split.
  - f_equal. apply forallb_ext_in. intros r Hr. destruct (Hrel r Hr) as (H1 & H2 & _).
    unfold rel_ok. rewrite H1, H2. reflexivity.
  - f_equal. apply forallb_ext_in. intros r Hr. destruct (Hrel r Hr) as (_ & _ & H3). exact H3.
Qed.

Lemma cs_ext σ σ' cs :
  (forall y, In y (flat_map names cs) -> σ y = σ' y) ->
  count_sel σ cs = count_sel σ' cs /\ cs_ok σ cs = cs_ok σ' cs.
Proof.
  intros Hag.
  destruct (cs_ext_gen σ σ' cs) as (H1 & H2 & _); [|split; assumption].
  intros d Hd.
  assert (Hagd : forall y, In y (names d) -> σ y = σ' y).
  { intros y Hy. apply Hag. exact (in_names_child _ d y Hd Hy). }
  destruct (sem_ext σ σ' d Hagd) as [H1 H2].
  split; [|split; assumption]. apply Hagd. apply name_in_names.
Qed.

Lemma rel_ext σ σ' r :
  (forall y, In y (rnames r) -> σ y = σ' y) -> rel_ok σ r = rel_ok σ' r.
Proof.
  intros Hag. destruct (cs_ext σ σ' (r_children r) Hag) as [H1 H2].
  unfold rel_ok. rewrite H1, H2. reflexivity.
Qed.

Lemma none_intro σ : forall f, (forall y, In y (names f) -> σ y = false) -> none_selected σ f = true.
Proof.
  apply (feature_ind3 (fun f => (forall y, In y (names f) -> σ y = false) ->
                                none_selected σ f = true)).
  intros i rs IH Hf. rewrite names_unfold in Hf. rewrite none_unfold.
  rewrite (Hf (f_name i) (or_introl eq_refl)). cbn [negb andb].
  apply forallb_forall. intros r Hr. apply forallb_forall. intros d Hd.
  apply (IH r d Hr Hd). intros y Hy. apply Hf. right.
  apply (in_rnames rs r y Hr). unfold rnames. exact (in_names_child _ d y Hd Hy).
Qed.

(* --- adding one child in front of a list of children --- *)
Lemma count_sel_cons σ c cs :
  count_sel σ (c :: cs) = ((if σ (name c) then 1 else 0) + count_sel σ cs)%Z.
Proof.
  unfold count_sel. cbn [filter]. destruct (σ (name c)); cbn [List.length]; lia.
Qed.

Lemma cs_cons_sel c cs sel_c sel' :
  NoDup (names c ++ flat_map names cs) ->
  incl sel_c (names c) -> incl sel' (flat_map names cs) ->
  In (name c) sel_c -> sem (sigma_of sel_c) c = true ->
  cs_ok (sigma_of (sel_c ++ sel')) (c :: cs) = cs_ok (sigma_of sel') cs
  /\ count_sel (sigma_of (sel_c ++ sel')) (c :: cs) = (count_sel (sigma_of sel') cs + 1)%Z.
Proof.
  intros Hnd Hc Hs Hin Hsem.
  destruct (NoDup_app_inv _ _ Hnd) as (_ & _ & Hdis).
  assert (Hag1 : forall y, In y (names c) -> sigma_of (sel_c ++ sel') y = sigma_of sel_c y).
  { intros y Hy. rewrite sigma_of_app.
    rewrite (sigma_of_notin sel' y); [apply orb_false_r|].
    intro Hy'. exact (Hdis y Hy (Hs y Hy')). }
  assert (Hag2 : forall y, In y (flat_map names cs) -> sigma_of (sel_c ++ sel') y = sigma_of sel' y).
  { intros y Hy. rewrite sigma_of_app.
    rewrite (sigma_of_notin sel_c y); [reflexivity|].
    intro Hy'. exact (Hdis y (Hc y Hy') Hy). }
  destruct (cs_ext _ _ cs Hag2) as [Hcnt Hok].
  destruct (sem_ext _ _ c Hag1) as [Hsemc _].
  assert (Hname : sigma_of (sel_c ++ sel') (name c) = true).
  { rewrite (Hag1 _ (name_in_names c)). apply sigma_of_In. exact Hin. }
  split.
  - unfold cs_ok at 1. cbn [forallb]. rewrite Hname, Hsemc, Hsem. cbn [andb]. exact Hok.
  - rewrite count_sel_cons, Hname, Hcnt. lia.
Qed.

Lemma cs_cons_unsel c cs sel' :
  NoDup (names c ++ flat_map names cs) ->
  incl sel' (flat_map names cs) ->
  cs_ok (sigma_of sel') (c :: cs) = cs_ok (sigma_of sel') cs
  /\ count_sel (sigma_of sel') (c :: cs) = count_sel (sigma_of sel') cs.
Proof.
  intros Hnd Hs.
  destruct (NoDup_app_inv _ _ Hnd) as (_ & _ & Hdis).
  assert (Hf : forall y, In y (names c) -> sigma_of sel' y = false).
  { intros y Hy. apply sigma_of_notin. intro Hy'. exact (Hdis y Hy (Hs y Hy')). }
  pose proof (Hf _ (name_in_names c)) as Hname.
  split.
  - unfold cs_ok at 1. cbn [forallb]. rewrite Hname, (none_intro _ c Hf). reflexivity.
  - rewrite count_sel_cons, Hname. lia.
Qed.

Lemma choose_none cs :
  cs_ok (sigma_of []) cs = true /\ count_sel (sigma_of []) cs = 0%Z.
Proof.
  split.
  - unfold cs_ok. apply forallb_forall. intros c Hc. cbn [sigma_of list_existsb_eq].
    apply none_intro. intros y _. reflexivity.
  - induction cs as [|c cs IH]; [reflexivity|]. rewrite count_sel_cons, IH. reflexivity.
Qed.

(* what the induction provides for every sub-tree *)
Definition has_sel (c : feature) : Prop :=
  forall x, exists sel,
    incl sel (names c) /\ In (name c) sel /\ sem (sigma_of sel) c = true
    /\ (In x sel -> In x (map name (core_features c))).

Lemma choose_k cs :
  Forall has_sel cs -> NoDup (flat_map names cs) ->
  forall k, (k <= List.length cs)%nat ->
  exists sel, incl sel (flat_map names cs) /\ cs_ok (sigma_of sel) cs = true
              /\ count_sel (sigma_of sel) cs = Z.of_nat k.
Proof.
  induction 1 as [|c cs Hc _ IH]; intros Hnd k Hk.
  - exists []. destruct (choose_none []) as [H1 H2]. cbn [List.length] in Hk.
    replace k with 0%nat by lia. split; [apply incl_refl|]. split; assumption.
  - cbn [flat_map] in Hnd. destruct (NoDup_app_inv _ _ Hnd) as (_ & Hnd' & _).
    cbn [List.length] in Hk. destruct k as [|k].
    + destruct (IH Hnd' 0%nat ltac:(lia)) as (sel' & Hi & Hok & Hcnt).
      exists sel'. destruct (cs_cons_unsel c cs sel' Hnd Hi) as [E1 E2].
      split; [cbn [flat_map]; apply incl_appr; exact Hi|].
      split; [rewrite E1; exact Hok | rewrite E2; exact Hcnt].
    + destruct (IH Hnd' k ltac:(lia)) as (sel' & Hi & Hok & Hcnt).
      destruct (Hc (name c)) as (sel_c & Hic & Hinc & Hsem & _).
      exists (sel_c ++ sel').
      destruct (cs_cons_sel c cs sel_c sel' Hnd Hic Hi Hinc Hsem) as [E1 E2].
      split; [cbn [flat_map]; apply incl_app; [apply incl_appl; exact Hic | apply incl_appr; exact Hi]|].
      split; [rewrite E1; exact Hok | rewrite E2, Hcnt; lia].
Qed.

Lemma choose_all cs :
  Forall has_sel cs -> NoDup (flat_map names cs) ->
  forall x, exists sel, incl sel (flat_map names cs) /\ cs_ok (sigma_of sel) cs = true
              /\ count_sel (sigma_of sel) cs = Z.of_nat (List.length cs)
              /\ (In x sel -> In x (map name (flat_map core_features cs))).
Proof.
  induction 1 as [|c cs Hc _ IH]; intros Hnd x.
  - exists []. destruct (choose_none []) as [H1 H2].
    split; [apply incl_refl|]. split; [exact H1|]. split; [exact H2|]. intros [].
  - cbn [flat_map] in Hnd. destruct (NoDup_app_inv _ _ Hnd) as (_ & Hnd' & _).
    destruct (IH Hnd' x) as (sel' & Hi & Hok & Hcnt & Hx').
    destruct (Hc x) as (sel_c & Hic & Hinc & Hsem & Hxc).
    exists (sel_c ++ sel').
    destruct (cs_cons_sel c cs sel_c sel' Hnd Hic Hi Hinc Hsem) as [E1 E2].
    split; [cbn [flat_map]; apply incl_app; [apply incl_appl; exact Hic | apply incl_appr; exact Hi]|].
    split; [rewrite E1; exact Hok|].
    split; [rewrite E2, Hcnt; cbn [List.length]; lia|].
    intros Hin. cbn [flat_map]. rewrite map_app. apply in_or_app.
    apply in_app_or in Hin. destruct Hin as [Hin | Hin]; [left; auto | right; auto].
Qed.

Lemma choose_avoid cs :
  Forall has_sel cs -> NoDup (flat_map names cs) ->
  forall x k, (k < List.length cs)%nat ->
  exists sel, incl sel (flat_map names cs) /\ cs_ok (sigma_of sel) cs = true
              /\ count_sel (sigma_of sel) cs = Z.of_nat k /\ ~ In x sel.
Proof.
  induction 1 as [|c cs Hc Hcs IH]; intros Hnd x k Hk; [cbn [List.length] in Hk; lia|].
  cbn [flat_map] in Hnd. destruct (NoDup_app_inv _ _ Hnd) as (_ & Hnd' & Hdis).
  cbn [List.length] in Hk.
  destruct (in_dec string_dec x (names c)) as [Hxc | Hxc].
  - (* x lies under c: leave c out *)
    destruct (choose_k cs Hcs Hnd' k ltac:(lia)) as (sel' & Hi & Hok & Hcnt).
    exists sel'. destruct (cs_cons_unsel c cs sel' Hnd Hi) as [E1 E2].
    split; [cbn [flat_map]; apply incl_appr; exact Hi|].
    split; [rewrite E1; exact Hok|]. split; [rewrite E2; exact Hcnt|].
    intro Hx. exact (Hdis x Hxc (Hi x Hx)).
  - destruct k as [|k].
    + exists []. destruct (choose_none (c :: cs)) as [H1 H2].
      split; [intros y []|]. split; [exact H1|]. split; [exact H2|]. intros [].
    + destruct (IH Hnd' x k ltac:(lia)) as (sel' & Hi & Hok & Hcnt & Hx').
      destruct (Hc x) as (sel_c & Hic & Hinc & Hsem & _).
      exists (sel_c ++ sel').
      destruct (cs_cons_sel c cs sel_c sel' Hnd Hic Hi Hinc Hsem) as [E1 E2].
      split; [cbn [flat_map]; apply incl_app; [apply incl_appl; exact Hic | apply incl_appr; exact Hi]|].
      split; [rewrite E1; exact Hok|]. split; [rewrite E2, Hcnt; lia|].
      intro Hx. apply in_app_or in Hx. destruct Hx as [Hx | Hx]; [|exact (Hx' Hx)].
      exact (Hxc (Hic x Hx)).
Qed.

(* --- one relation --- *)
Lemma not_forces_all_lt r : rel_sane r -> forces_all r = false -> (r_min r < nchildren r)%Z.
Proof.
  intros (H0 & H1 & H2 & H3) Hfa. unfold forces_all in Hfa.
  apply orb_false_elim in Hfa. destruct Hfa as [_ Hfa]. unfold nchildren in *.
  apply andb_false_elim in Hfa. destruct Hfa as [Hfa | Hfa].
  - apply Z.eqb_neq in Hfa. lia.
  - apply Z.ltb_ge in Hfa. lia.
Qed.

Lemma rel_choose r :
  Forall has_sel (r_children r) -> NoDup (rnames r) -> rel_sane r ->
  forall x, exists sel, incl sel (rnames r) /\ rel_ok (sigma_of sel) r = true
                        /\ (In x sel -> In x (map name (rcore r))).
Proof.
  intros Hcs Hnd Hsane x. unfold rnames in *.
  destruct (forces_all r) eqn:Hfa.
  - destruct (choose_all _ Hcs Hnd x) as (sel & Hi & Hok & Hcnt & Hx).
    exists sel. split; [exact Hi|]. split.
    + unfold rel_ok. rewrite Hok, Hcnt, andb_true_r.
      apply forces_all_min in Hfa. unfold nchildren in Hfa.
      destruct Hsane as (H0 & H1 & H2 & H3).
      unfold card_okb. apply andb_true_intro. split; [apply Z.leb_le | apply Z.leb_le]; lia.
    + unfold rcore. rewrite Hfa. exact Hx.
  - pose proof (not_forces_all_lt r Hsane Hfa) as Hlt. unfold nchildren in Hlt.
    destruct Hsane as (H0 & H1 & H2 & H3).
    destruct (choose_avoid _ Hcs Hnd x (Z.to_nat (r_min r)) ltac:(lia))
      as (sel & Hi & Hok & Hcnt & Hx).
    exists sel. split; [exact Hi|]. split.
    + unfold rel_ok. rewrite Hok, Hcnt, andb_true_r.
      unfold card_okb. apply andb_true_intro. split; [apply Z.leb_le | apply Z.leb_le]; lia.
    + intros Hin. contradiction.
Qed.

(* --- the relations of one feature --- *)
Lemma rs_choose rs :
  (forall r, In r rs -> Forall has_sel (r_children r)) ->
  NoDup (flat_map rnames rs) -> Forall rel_sane rs ->
  forall x, exists sel, incl sel (flat_map rnames rs)
                        /\ forallb (rel_ok (sigma_of sel)) rs = true
                        /\ (In x sel -> In x (map name (flat_map rcore rs))).
Proof.
  induction rs as [|r rs IH]; intros Hcs Hnd Hsane x.
  - exists []. split; [apply incl_refl|]. split; [reflexivity|]. intros [].
  - cbn [flat_map] in Hnd. destruct (NoDup_app_inv _ _ Hnd) as (Hnd1 & Hnd2 & Hdis).
    inversion Hsane as [|? ? Hs1 Hs2]; subst.
    destruct (rel_choose r (Hcs r (or_introl eq_refl)) Hnd1 Hs1 x) as (sel1 & Hi1 & Hok1 & Hx1).
    destruct (IH (fun r' Hr' => Hcs r' (or_intror Hr')) Hnd2 Hs2 x) as (sel2 & Hi2 & Hok2 & Hx2).
    exists (sel1 ++ sel2).
    assert (Hag1 : forall y, In y (rnames r) -> sigma_of (sel1 ++ sel2) y = sigma_of sel1 y).
    { intros y Hy. rewrite sigma_of_app.
      rewrite (sigma_of_notin sel2 y); [apply orb_false_r|].
      intro Hy'. exact (Hdis y Hy (Hi2 y Hy')). }
    assert (Hag2 : forall y, In y (flat_map rnames rs) -> sigma_of (sel1 ++ sel2) y = sigma_of sel2 y).
    { intros y Hy. rewrite sigma_of_app.
      rewrite (sigma_of_notin sel1 y); [reflexivity|].
      intro Hy'. exact (Hdis y (Hi1 y Hy') Hy). }
    split; [cbn [flat_map]; apply incl_app; [apply incl_appl; exact Hi1 | apply incl_appr; exact Hi2]|].
    split.
    + cbn [forallb]. rewrite (rel_ext _ _ r Hag1), Hok1. cbn [andb].
      rewrite <- Hok2. apply forallb_ext_in. intros r' Hr'. apply rel_ext.
      intros y Hy. apply Hag2. exact (in_rnames rs r' y Hr' Hy).
    + intros Hin. cbn [flat_map]. rewrite map_app. apply in_or_app.
      apply in_app_or in Hin. destruct Hin as [Hin | Hin]; [left; auto | right; auto].
Qed.

(* --- the whole tree --- *)
Lemma has_sel_all : forall f, NoDup (names f) -> Forall rel_sane (subrelations f) -> has_sel f.
Proof.
  apply (feature_ind3 (fun f => NoDup (names f) -> Forall rel_sane (subrelations f) -> has_sel f)).
  intros i rs IH Hnd Hsane x.
  rewrite names_unfold in Hnd. inversion Hnd as [|? ? Hnotin Hnd']; subst.
  rewrite subrelations_unfold in Hsane. rewrite Forall_forall in Hsane.
  assert (Hcs : forall r, In r rs -> Forall has_sel (r_children r)).
  { intros r Hr. apply Forall_forall. intros d Hd. apply (IH r d Hr Hd).
    - pose proof (NoDup_flat_map_in rnames rs r Hnd' Hr) as Hr'.
      unfold rnames in Hr'. exact (NoDup_flat_map_in names _ d Hr' Hd).
    - apply Forall_forall. intros r' Hr'. apply Hsane.
      apply in_flat_map. exists r. split; [exact Hr|]. right.
      apply in_flat_map. exists d. split; assumption. }
  assert (Hs : Forall rel_sane rs).
  { apply Forall_forall. intros r Hr. apply Hsane.
    apply in_flat_map. exists r. split; [exact Hr|]. left. reflexivity. }
  destruct (rs_choose rs Hcs Hnd' Hs x) as (sel & Hi & Hok & Hx).
  exists (f_name i :: sel).
  split; [|split; [|split]].
  - rewrite names_unfold. intros y [<- | Hy]; [left; reflexivity | right; exact (Hi y Hy)].
  - left. reflexivity.
  - rewrite sem_unfold.
    assert (Hhead : sigma_of (f_name i :: sel) (f_name i) = true)
      by (apply sigma_of_In; left; reflexivity).
    rewrite Hhead. cbn [andb]. rewrite <- Hok.
    apply forallb_ext_in. intros r Hr. apply rel_ext. intros y Hy.
    change (f_name i :: sel) with ([f_name i] ++ sel). rewrite sigma_of_app.
    rewrite (sigma_of_notin [f_name i] y); [reflexivity|].
    intros [<- | []]. apply Hnotin. exact (in_rnames rs r _ Hr Hy).
  - rewrite core_unfold. cbn [map]. intros [<- | Hin]; [left; reflexivity|].
    right. exact (Hx Hin).
Qed.

Theorem core_complete : forall f x,
  NoDup (names f) -> Forall rel_sane (subrelations f) ->
  In x (names f) -> (forall σ, sem σ f = true -> σ x = true) -> In x (map name (core_features f)).
Proof.
  intros f x Hnd Hsane _ Hall.
  destruct (has_sel_all f Hnd Hsane x) as (sel & _ & _ & Hsem & Hx).
  apply Hx. apply sigma_of_In. exact (Hall _ Hsem).
Qed.

Print Assumptions core_sound.
Print Assumptions core_sound_model.
Print Assumptions core_root.
Print Assumptions core_once.
Print Assumptions core_complete.
