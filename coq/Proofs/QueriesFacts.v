(* Proofs/QueriesFacts.v — relation classification, lookup, filtered listings (C03) *)
From Coq Require Import List Bool Ascii String ZArith Lia Permutation.
From FM Require Import Base.Result Base.Str Model.Ast Model.FM Model.Ctc Model.Queries Proofs.FMFacts.
Import ListNotations.
Local Open Scope list_scope.

(* ---- the classification, written from the property text: a function of (min, max, n) only ---- *)
Inductive rclass := CMandatory | COptional | CAlternative | COr | CMutex | CCardinal.

Definition rclass_eqb (a b : rclass) : bool :=
  match a, b with
  | CMandatory, CMandatory | COptional, COptional | CAlternative, CAlternative | COr, COr
  | CMutex, CMutex | CCardinal, CCardinal => true
  | _, _ => false
  end.

Definition classify3 (mn mx n : Z) : rclass :=
  if (n =? 1)%Z then
    if ((mn =? 1) && (mx =? 1))%Z then CMandatory
    else if ((mn =? 0) && (mx =? 1))%Z then COptional
    else CCardinal
  else
    if ((mn =? 1) && (mx =? 1))%Z then CAlternative
    else if ((mn =? 1) && (mx =? n))%Z then COr
    else if ((mn =? 0) && (mx =? 1))%Z then CMutex
    else CCardinal.

Definition classify (r : relation) : rclass := classify3 (r_min r) (r_max r) (nchildren r).

Definition flags (r : relation) : list bool :=
  [rel_is_mandatory r; rel_is_optional r; rel_is_alternative r; rel_is_or r; rel_is_mutex r;
   rel_is_cardinal r].

Definition count_true (l : list bool) : nat := List.length (filter (fun b => b) l).

Definition card_hyp (r : relation) : Prop :=
  (0 <= r_min r <= r_max r)%Z /\ (r_max r <= nchildren r)%Z /\ (1 <= nchildren r)%Z.

Ltac unfold_rel :=
  unfold flags, count_true, rel_is_cardinal in *;
  unfold flags, count_true, classify, classify3, rel_is_mandatory, rel_is_optional, rel_is_or,
    rel_is_alternative, rel_is_mutex, rel_is_cardinal, rel_is_group, card_hyp in *.

Ltac zb :=
  repeat match goal with
         | |- context [(?a =? ?b)%Z] => destruct (Z.eqb_spec a b)
         | |- context [(?a <? ?b)%Z] => destruct (Z.ltb_spec a b)
         end; simpl; try lia; try reflexivity; try discriminate.

(* each predicate is the classification *)
Lemma rel_pred_is_class r :
  card_hyp r ->
  rel_is_mandatory r = rclass_eqb (classify r) CMandatory /\
  rel_is_optional r = rclass_eqb (classify r) COptional /\
  rel_is_alternative r = rclass_eqb (classify r) CAlternative /\
  rel_is_or r = rclass_eqb (classify r) COr /\
  rel_is_mutex r = rclass_eqb (classify r) CMutex /\
  rel_is_cardinal r = rclass_eqb (classify r) CCardinal.
Proof.
  intros (H1 & H2 & H3). unfold_rel.
  revert H1 H2 H3. generalize (nchildren r) (r_min r) (r_max r).
  intros n mn mx H1 H2 H3.
  repeat split; zb.
Qed.

(* exactly one class *)
Theorem class_exactly_one r : card_hyp r -> count_true (flags r) = 1.
Proof.
  intros (H1 & H2 & H3). unfold_rel.
  revert H1 H2 H3. generalize (nchildren r) (r_min r) (r_max r).
  intros n mn mx H1 H2 H3. zb.
Qed.

(* ---- lookup ---- *)
Lemma find_by_name_unique (l : list feature) f :
  NoDup (map name l) -> In f l ->
  find (fun g => String.eqb (name g) (name f)) l = Some f.
Proof.
  induction l as [|g l IH]; simpl; intros Hnd Hin; [contradiction|].
  inversion Hnd as [|x xs Hnotin Hnd']; subst.
  destruct Hin as [Heq | Hin].
  - subst. rewrite String.eqb_refl. reflexivity.
  - destruct (String.eqb_spec (name g) (name f)) as [Heq | Hne].
    + exfalso. apply Hnotin. rewrite Heq. apply in_map. exact Hin.
    + apply IH; assumption.
Qed.

Lemma find_by_name_none (l : list feature) n :
  ~ In n (map name l) -> find (fun g => String.eqb (name g) n) l = None.
Proof.
  induction l as [|g l IH]; simpl; intros Hn; auto.
  destruct (String.eqb_spec (name g) n) as [Heq | Hne].
  - exfalso. apply Hn. left. exact Heq.
  - apply IH. intro H. apply Hn. right. exact H.
Qed.

Lemma nodupb_NoDup l : nodupb l = true -> NoDup l.
Proof.
  induction l as [|x l IH]; simpl; intros H; [constructor|].
  apply andb_prop in H. destruct H as [H1 H2]. constructor; auto.
  intro Hin. apply negb_true_iff in H1.
  assert (Hx : list_existsb_eq x l = true).
  { clear -Hin. induction l as [|y l IH]; simpl in *; [contradiction|].
    destruct Hin as [-> | Hin]; [rewrite String.eqb_refl; reflexivity|].
    rewrite (IH Hin). apply orb_true_r. }
  congruence.
Qed.

Lemma wf_names_get_features m :
  wf_names (root m) = true -> NoDup (map name (get_features m)).
Proof.
  intro H. unfold wf_names in H. apply andb_prop in H. destruct H as [H _].
  apply nodupb_NoDup in H. unfold names in H.
  eapply Permutation_NoDup; [|exact H].
  apply Permutation_map. apply Permutation_sym. apply get_features_perm.
Qed.

Theorem lookup_by_name m f :
  wf_names (root m) = true -> In f (get_features m) ->
  get_feature_by_name m (name f) = Some f.
Proof.
  intros Hwf Hin. unfold get_feature_by_name.
  apply find_by_name_unique; auto. apply wf_names_get_features; exact Hwf.
Qed.

Theorem lookup_missing m n :
  ~ In n (map name (get_features m)) -> get_feature_by_name m n = None.
Proof. apply find_by_name_none. Qed.

(* ---- feature-level predicates: what the classification and the feature's own fields imply ---- *)
Definition member_of_class (k : rclass) (p : option feature) (f : feature) : bool :=
  match p with
  | None => false
  | Some q => existsb (fun r => rclass_eqb (classify r) k && in_children f r) (rels q)
  end.
Definition has_group_of_class (k : rclass) (f : feature) : bool :=
  existsb (fun r => rclass_eqb (classify r) k) (rels f).

Definition rels_ok (f : feature) : Prop := Forall card_hyp (rels f).

Lemma existsb_ext_in {A} (p q : A -> bool) l :
  (forall x, In x l -> p x = q x) -> existsb p l = existsb q l.
Proof.
  induction l as [|x l IH]; simpl; intros H; auto.
  rewrite (H x (or_introl eq_refl)). f_equal. apply IH. intros y Hy. apply H. right; exact Hy.
Qed.

Lemma feat_mandatory_spec p f :
  (forall q, p = Some q -> rels_ok q) ->
  feat_is_mandatory p f = member_of_class CMandatory p f.
Proof.
  intros H. destruct p as [q|]; simpl; auto.
  apply existsb_ext_in. intros r Hr.
  assert (Hc : card_hyp r) by (eapply Forall_forall; [apply (H q eq_refl)|exact Hr]).
  destruct (rel_pred_is_class r Hc) as (-> & _). reflexivity.
Qed.

Lemma feat_optional_spec p f :
  (forall q, p = Some q -> rels_ok q) ->
  feat_is_optional p f = member_of_class COptional p f.
Proof.
  intros H. destruct p as [q|]; simpl; auto.
  apply existsb_ext_in. intros r Hr.
  assert (Hc : card_hyp r) by (eapply Forall_forall; [apply (H q eq_refl)|exact Hr]).
  destruct (rel_pred_is_class r Hc) as (_ & -> & _). reflexivity.
Qed.

Lemma feat_group_specs f :
  rels_ok f ->
  feat_is_alternative_group f = has_group_of_class CAlternative f /\
  feat_is_or_group f = has_group_of_class COr f /\
  feat_is_mutex_group f = has_group_of_class CMutex f /\
  feat_is_cardinality_group f = has_group_of_class CCardinal f.
Proof.
  intros H. unfold feat_is_alternative_group, feat_is_or_group, feat_is_mutex_group,
    feat_is_cardinality_group, has_group_of_class.
  repeat split; apply existsb_ext_in; intros r Hr;
    assert (Hc : card_hyp r) by (eapply Forall_forall; [exact H|exact Hr]);
    destruct (rel_pred_is_class r Hc) as (E1 & E2 & E3 & E4 & E5 & E6); congruence.
Qed.

(* filtered listings are filters of the full listing by the specification predicate *)
Definition all_rels_ok (m : fm) : Prop := forall f, In f (subfeatures (root m)) -> rels_ok f.

Lemma filter_ext_in' {A} (p q : A -> bool) l :
  (forall x, In x l -> p x = q x) -> filter p l = filter q l.
Proof.
  induction l as [|x l IH]; simpl; intros H; auto.
  rewrite (H x (or_introl eq_refl)). rewrite IH; [reflexivity|].
  intros y Hy. apply H. right; exact Hy.
Qed.

Theorem mandatory_listing_spec m :
  all_rels_ok m ->
  get_mandatory_features m
  = map snd (filter (fun x => member_of_class CMandatory (fst x) (snd x)) (get_features_ctx m)).
Proof.
  intros H. unfold get_mandatory_features, filter_ctx. f_equal.
  apply filter_ext_in'. intros [p f] Hin. simpl.
  apply feat_mandatory_spec. intros q ->.
  apply H. apply (get_features_ctx_parent m q f Hin).
Qed.

Theorem optional_listing_spec m :
  all_rels_ok m ->
  get_optional_features m
  = map snd (filter (fun x => member_of_class COptional (fst x) (snd x)) (get_features_ctx m)).
Proof.
  intros H. unfold get_optional_features, filter_ctx. f_equal.
  apply filter_ext_in'. intros [p f] Hin. simpl.
  apply feat_optional_spec. intros q ->.
  apply H. apply (get_features_ctx_parent m q f Hin).
Qed.

Lemma in_get_features_sub m f : In f (get_features m) -> In f (subfeatures (root m)).
Proof. intro H. eapply Permutation_in; [apply get_features_perm|exact H]. Qed.

Theorem group_listing_spec m :
  all_rels_ok m ->
  get_alternative_group_features m = filter (has_group_of_class CAlternative) (get_features m) /\
  get_or_group_features m = filter (has_group_of_class COr) (get_features m).
Proof.
  intros H. unfold get_alternative_group_features, get_or_group_features.
  split; apply filter_ext_in'; intros f Hin;
    destruct (feat_group_specs f (H f (in_get_features_sub m f Hin))) as (E1 & E2 & _); auto.
Qed.

(* the type listings are filters on the feature's own field — by definition; stated for the record *)
Theorem type_listing_spec m :
  get_boolean_features m = filter (fun f => ftype_eqb (f_type (info f)) TBoolean) (get_features m) /\
  get_numerical_features m
  = filter (fun f => ftype_eqb (f_type (info f)) TInteger || ftype_eqb (f_type (info f)) TReal)
           (get_features m) /\
  get_string_features m = filter (fun f => ftype_eqb (f_type (info f)) TString) (get_features m).
Proof. repeat split. Qed.

(* wf implies the per-relation hypothesis everywhere *)
Lemma in_subrelations_of_feature : forall f g r,
  In g (subfeatures f) -> In r (rels g) -> In r (subrelations f).
Proof.
  apply (feature_ind2
           (fun f => forall g r, In g (subfeatures f) -> In r (rels g) -> In r (subrelations f))
           (fun r0 => forall g r, In g (flat_map subfeatures (r_children r0)) -> In r (rels g) ->
                                  In r (flat_map subrelations (r_children r0)))).
  - intros i rs IH g r Hg Hr. simpl in Hg. destruct Hg as [<- | Hg].
    + simpl in *. clear IH. induction rs as [|r0 rs IHrs]; simpl in *; [contradiction|].
      destruct Hr as [-> | Hr].
      * destruct r as [a b cs]. left; reflexivity.
      * apply in_or_app. right. apply IHrs; exact Hr.
    + simpl. induction IH as [|r0 rs' H0 _ IHrs]; simpl in *; [contradiction|].
      apply in_app_or in Hg. destruct Hg as [Hg | Hg].
      * apply in_or_app. left. destruct r0 as [a b cs]. right. simpl in H0. eapply H0; eauto.
      * apply in_or_app. right. apply IHrs; exact Hg.
  - intros a b cs IH g r Hg Hr. simpl in *.
    induction IH as [|c cs' Hc _ IHcs]; simpl in *; [contradiction|].
    apply in_app_or in Hg. destruct Hg as [Hg | Hg]; apply in_or_app.
    + left. eapply Hc; eauto.
    + right. apply IHcs; exact Hg.
Qed.

Lemma rel_card_ok_hyp r : rel_card_ok r = true -> card_hyp r.
Proof.
  unfold rel_card_ok, card_hyp, nchildren. intro H.
  repeat (apply andb_prop in H; destruct H as [H ?]).
  apply Z.leb_le in H. apply Z.leb_le in H1. apply Z.leb_le in H2.
  apply negb_true_iff in H0. apply Nat.eqb_neq in H0. lia.
Qed.

Theorem wf_all_rels_ok m : wf (root m) = true -> all_rels_ok m.
Proof.
  intros H f Hf. unfold wf in H. apply andb_prop in H. destruct H as [_ H].
  rewrite forallb_forall in H. apply Forall_forall. intros r Hr.
  apply rel_card_ok_hyp. apply H. eapply in_subrelations_of_feature; eauto.
Qed.
