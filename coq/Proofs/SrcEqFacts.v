(* Proofs/SrcEqFacts.v — the source tie for the comparison methods of feature_model.py
   (Feature / Relation / Constraint / FeatureModel: __eq__, __lt__, _sort_key): the generated
   translations (Gen/Src_fm.v) equal the hand-written model Model/EqHash.v. *)
From Coq Require Import List Bool Ascii String ZArith Lia Permutation.
From FM Require Import Base.Result Base.Str Base.AstOp Model.Ast Model.FM Model.Queries Model.EqHash
     Model.PyRt Model.Loc Gen.Src_fm Proofs.FMFacts Proofs.C20Facts Proofs.SrcFmFacts.
Import ListNotations.
Local Open Scope list_scope.

(* ------------------------------------------------------------------ generic: the two sorts *)
(* Python's sorted() (stable insertion from the left) is the model's sort_by *)
Lemma py_insert_lt_insert {A K} (key : A -> K) (ltb : K -> K -> bool) (ltA : A -> A -> bool) :
  (forall x y, ltA x y = ltb (key x) (key y)) ->
  forall x l, py_insert_lt ltA x l = insert key ltb x l.
Proof.
  intros Hlt x l. induction l as [|y ys IH]; cbn [py_insert_lt insert]; [reflexivity|].
  rewrite Hlt, IH. reflexivity.
Qed.

Lemma py_sorted_lt_sort_by {A K} (key : A -> K) (ltb : K -> K -> bool) (ltA : A -> A -> bool) :
  (forall x y, ltA x y = ltb (key x) (key y)) ->
  forall l, py_sorted_lt ltA l = sort_by key ltb l.
Proof.
  intros Hlt l. unfold py_sorted_lt, sort_by. generalize (@nil A) as acc.
  induction l as [|x xs IH]; intros acc; cbn [fold_left]; [reflexivity|].
  rewrite (py_insert_lt_insert key ltb ltA Hlt). apply IH.
Qed.

(* both sorts give the sorted sequence of the keys *)
Lemma py_sorted_lt_keys {A K} (key : A -> K) (ltb : K -> K -> bool) (ltA : A -> A -> bool) :
  strict_total ltb ->
  (forall x y, ltA x y = ltb (key x) (key y)) ->
  forall l, map key (py_sorted_lt ltA l) = sort_by idk ltb (map key l).
Proof.
  intros _ Hlt l.
  rewrite (py_sorted_lt_sort_by key ltb ltA Hlt). apply map_key_sort.
Qed.

Lemma py_sorted_lt_keys_model {A K} (key : A -> K) (ltb : K -> K -> bool) (ltA : A -> A -> bool) :
  strict_total ltb ->
  (forall x y, ltA x y = ltb (key x) (key y)) ->
  forall l, map key (py_sorted_lt ltA l) = map key (sort_by key ltb l).
Proof.
  intros ST Hlt l. rewrite (py_sorted_lt_keys key ltb ltA ST Hlt), map_key_sort. reflexivity.
Qed.

(* ------------------------------------------------------------------ generic: list == and < *)
Lemma py_list_eqb_model {A} (eqb : A -> A -> bool) :
  forall l1 l2, py_list_eqb eqb l1 l2 = list_eqb eqb l1 l2.
Proof.
  induction l1 as [|x xs IH]; intros [|y ys]; cbn [py_list_eqb list_eqb]; try reflexivity.
  all: rewrite IH; reflexivity.
Qed.

(* two elementwise comparisons that each decide equality of a key agree on lists with the same keys *)
Lemma list_eqb_tie {A B K} (kA : A -> K) (kB : B -> K)
      (eqA : A -> A -> bool) (eqB : B -> B -> bool) :
  (forall x y, eqA x y = true <-> kA x = kA y) ->
  (forall x y, eqB x y = true <-> kB x = kB y) ->
  forall l1 l2 m1 m2, map kA l1 = map kB m1 -> map kA l2 = map kB m2 ->
    py_list_eqb eqA l1 l2 = list_eqb eqB m1 m2.
Proof.
  intros HA HB l1 l2 m1 m2 E1 E2.
  rewrite py_list_eqb_model. apply eq_true_iff_eq.
  rewrite (list_eqb_keys A K kA eqA HA), (list_eqb_keys B K kB eqB HB), E1, E2. tauto.
Qed.

(* the core fact: sorted(l1) == sorted(l2) in Python is the model's comparison of the sorted lists *)
Lemma sorted_eqb_tie {A B K} (kA : A -> K) (kB : B -> K) (ltb : K -> K -> bool)
      (ltA eqA : A -> A -> bool) (eqB : B -> B -> bool) :
  strict_total ltb ->
  (forall x y, ltA x y = ltb (kA x) (kA y)) ->
  (forall x y, eqA x y = true <-> kA x = kA y) ->
  (forall x y, eqB x y = true <-> kB x = kB y) ->
  forall l1 l2 m1 m2, map kA l1 = map kB m1 -> map kA l2 = map kB m2 ->
    py_list_eqb eqA (py_sorted_lt ltA l1) (py_sorted_lt ltA l2)
    = list_eqb eqB (sort_by kB ltb m1) (sort_by kB ltb m2).
Proof.
  intros ST Hlt HA HB l1 l2 m1 m2 E1 E2.
  apply (list_eqb_tie kA kB eqA eqB HA HB).
  - rewrite (py_sorted_lt_keys kA ltb ltA ST Hlt), E1, map_key_sort. reflexivity.
  - rewrite (py_sorted_lt_keys kA ltb ltA ST Hlt), E2, map_key_sort. reflexivity.
Qed.

(* Python's list < with (==, <) of a strict total order is the model's lexicographic order *)
Lemma py_list_ltb_strs : forall a b, py_list_ltb str_ltb String.eqb a b = strs_ltb a b.
Proof.
  induction a as [|x xs IH]; intros [|y ys]; cbn [py_list_ltb strs_ltb]; try reflexivity.
  destruct (String.eqb x y) eqn:Exy.
  - apply String.eqb_eq in Exy. subst y. rewrite str_ltb_irrefl. apply IH.
  - destruct (str_ltb x y) eqn:Lxy; [reflexivity|].
    destruct (str_ltb y x) eqn:Lyx; [reflexivity|].
    rewrite (str_ltb_total x y Lxy Lyx), String.eqb_refl in Exy. discriminate.
Qed.

(* one step of a tuple comparison: `if a == b then rest else a < b` is the model's trichotomy *)
Lemma lexstep_py {K} (ltb : K -> K -> bool) (eqb : K -> K -> bool) (a b : K) (rest : bool) :
  strict_total ltb ->
  (eqb a b = true <-> a = b) ->
  (if eqb a b then rest else ltb a b)
  = (if ltb a b then true else if ltb b a then false else rest).
Proof.
  intros (I & T & Tot) [Heq1 Heq2]. destruct (eqb a b).
  - pose proof (Heq1 eq_refl) as X. subst b. rewrite !(I a). reflexivity.
  - destruct (ltb a b) eqn:Lab; [reflexivity|].
    destruct (ltb b a) eqn:Lba; [reflexivity|].
    assert (a = b) as X by (apply Tot; assumption).
    apply Heq2 in X. discriminate.
Qed.

Lemma rkey_lt_tuple : forall k1 k2 : rkey,
  (let '(a1, a2, a3, a4) := k1 in
   let '(b1, b2, b3, b4) := k2 in
   if String.eqb a1 b1
   then if py_list_eqb String.eqb a2 b2
        then if Z.eqb a3 b3 then (if Z.eqb a4 b4 then false else Z.ltb a4 b4) else Z.ltb a3 b3
        else py_list_ltb str_ltb String.eqb a2 b2
   else str_ltb a1 b1)
  = rkey_ltb k1 k2.
Proof.
  intros [[[a1 a2] a3] a4] [[[b1 b2] b3] b4]. cbn [rkey_ltb].
  rewrite (lexstep_py str_ltb String.eqb a1 b1 _ str_st (String.eqb_eq a1 b1)).
  rewrite py_list_ltb_strs, py_list_eqb_model.
  rewrite (lexstep_py strs_ltb (list_eqb String.eqb) a2 b2 _ strs_st (list_eqb_streq a2 b2)).
  rewrite (lexstep_py Z.ltb Z.eqb a3 b3 _ Zltb_st (Z.eqb_eq a3 b3)).
  destruct (Z.eqb a4 b4) eqn:E4; [|reflexivity].
  apply Z.eqb_eq in E4. subst b4. rewrite Z.ltb_irrefl. reflexivity.
Qed.

(* ------------------------------------------------------------------ the listed lemmas *)
Definition orel_of (x : lrel) : orel := (name (fst (snd x)), fst x).

Lemma src_feat_lt : forall x y, py_Feature___lt__ x y = str_ltb (name (fst x)) (name (fst y)).
Proof. intros x y. reflexivity. Qed.

Lemma src_feat_eq : forall x y, py_Feature___eq__ x y = String.eqb (name (fst x)) (name (fst y)).
Proof. intros x y. reflexivity. Qed.

Lemma src_feat_eq_iff : forall x y, py_Feature___eq__ x y = true <-> name (fst x) = name (fst y).
Proof. intros x y. rewrite src_feat_eq. apply String.eqb_eq. Qed.

Lemma lr_children_names : forall x : lrel,
  map (fun c : lfeat => name (fst c)) (lr_children x) = child_names (fst x).
Proof.
  intros x. unfold lr_children, child_names. rewrite map_map. apply map_ext. intros c. reflexivity.
Qed.

Lemma src_rel_sort_key : forall x, py_Relation__sort_key x = relation_sort_key (orel_of x).
Proof.
  intros x. unfold py_Relation__sort_key, relation_sort_key, orel_of, lr_parent.
  cbn [fst snd]. f_equal. f_equal. f_equal.
  rewrite (fm_flat_map_single (fun c : lfeat => name (fst c))), lr_children_names.
  unfold sort_strs.
  pose proof (py_sorted_lt_keys_model (fun s : string => s) str_ltb (fun a b => str_ltb a b) str_st
                (fun a b => eq_refl) (child_names (fst x))) as H.
  rewrite !map_id in H. exact H.
Qed.

Lemma src_rel_children_eq : forall x y,
  py_list_eqb (fun a b => py_Feature___eq__ a b)
              (py_sorted_lt (fun a b => py_Feature___lt__ a b) (lr_children x))
              (py_sorted_lt (fun a b => py_Feature___lt__ a b) (lr_children y))
  = list_eqb String.eqb (sort_strs (child_names (fst x))) (sort_strs (child_names (fst y))).
Proof.
  intros x y. unfold sort_strs.
  apply (sorted_eqb_tie (fun c : lfeat => name (fst c)) (fun s : string => s) str_ltb).
  - exact str_st.
  - intros a b. apply src_feat_lt.
  - intros a b. apply src_feat_eq_iff.
  - intros a b. apply String.eqb_eq.
  - rewrite map_id. apply lr_children_names.
  - rewrite map_id. apply lr_children_names.
Qed.

Lemma src_rel_eq : forall x y, py_Relation___eq__ x y = relation_eqb (orel_of x) (orel_of y).
Proof.
  intros x y. unfold py_Relation___eq__, relation_eqb.
  rewrite src_rel_children_eq, src_feat_eq.
  unfold orel_of, lr_parent. cbn [fst snd andb].
  rewrite !andb_assoc. reflexivity.
Qed.

Lemma src_rel_lt : forall x y,
  py_Relation___lt__ x y = rkey_ltb (relation_sort_key (orel_of x)) (relation_sort_key (orel_of y)).
Proof.
  intros x y. unfold py_Relation___lt__. rewrite !src_rel_sort_key.
  apply rkey_lt_tuple.
Qed.

Lemma src_ctc_eq : forall a b, py_Constraint___eq__ a b = ctc_eqb str_lower a b.
Proof. intros a b. reflexivity. Qed.

Lemma src_ctc_lt : forall a b,
  py_Constraint___lt__ a b = str_ltb (ctc_key str_lower a) (ctc_key str_lower b).
Proof. intros a b. reflexivity. Qed.

Lemma loc_relations_orel : forall m, map orel_of (loc_relations m) = fm_relations m.
Proof.
  intros m. unfold fm_relations, loc_relations.
  rewrite <- (loc_subrelations_ctx (root m) []), map_map.
  apply map_ext. intros x. reflexivity.
Qed.

(* ---- the three sorted comparisons of FeatureModel.__eq__ ---- *)
Lemma src_fm_features_eq : forall a b,
  py_list_eqb (fun x y => py_Feature___eq__ x y)
              (py_sorted_lt (fun x y => py_Feature___lt__ x y) (loc_features a))
              (py_sorted_lt (fun x y => py_Feature___lt__ x y) (loc_features b))
  = list_eqb feature_eqb (sort_by name str_ltb (get_features a)) (sort_by name str_ltb (get_features b)).
Proof.
  intros a b.
  apply (sorted_eqb_tie (fun c : lfeat => name (fst c)) name str_ltb).
  - exact str_st.
  - intros x y. apply src_feat_lt.
  - intros x y. apply src_feat_eq_iff.
  - intros x y. apply feature_eqb_iff.
  - rewrite <- loc_features_erase, map_map. reflexivity.
  - rewrite <- loc_features_erase, map_map. reflexivity.
Qed.

Lemma src_fm_relations_eq : forall a b,
  py_list_eqb (fun x y => py_Relation___eq__ x y)
              (py_sorted_lt (fun x y => py_Relation___lt__ x y) (loc_relations a))
              (py_sorted_lt (fun x y => py_Relation___lt__ x y) (loc_relations b))
  = list_eqb relation_eqb (sort_by relation_sort_key rkey_ltb (fm_relations a))
                          (sort_by relation_sort_key rkey_ltb (fm_relations b)).
Proof.
  intros a b.
  apply (sorted_eqb_tie (fun x : lrel => relation_sort_key (orel_of x)) relation_sort_key rkey_ltb).
  - exact rkey_st.
  - intros x y. apply src_rel_lt.
  - intros x y. rewrite src_rel_eq. apply relation_eqb_iff.
  - intros x y. apply relation_eqb_iff.
  - rewrite <- loc_relations_orel, map_map. reflexivity.
  - rewrite <- loc_relations_orel, map_map. reflexivity.
Qed.

Lemma src_fm_ctcs_eq : forall l1 l2,
  py_list_eqb (fun x y => py_Constraint___eq__ x y)
              (py_sorted_lt (fun x y => py_Constraint___lt__ x y) l1)
              (py_sorted_lt (fun x y => py_Constraint___lt__ x y) l2)
  = list_eqb (ctc_eqb str_lower) (sort_by (ctc_key str_lower) str_ltb l1)
                                 (sort_by (ctc_key str_lower) str_ltb l2).
Proof.
  intros l1 l2.
  apply (sorted_eqb_tie (ctc_key str_lower) (ctc_key str_lower) str_ltb).
  - exact str_st.
  - intros x y. apply src_ctc_lt.
  - intros x y. rewrite src_ctc_eq. apply ctc_eqb_iff.
  - intros x y. apply ctc_eqb_iff.
  - reflexivity.
  - reflexivity.
Qed.

Theorem src_fm_eq : forall a b fuel, (fuel_tree (root a) <= fuel)%nat -> (fuel_tree (root b) <= fuel)%nat ->
  py_FeatureModel___eq__ fuel a b = Ok (fm_eqb str_lower a b).
Proof.
  intros a b fuel Ha Hb. unfold py_FeatureModel___eq__.
  rewrite (src_get_features a fuel Ha), (src_get_features b fuel Hb).
  rewrite (src_get_relations a fuel Ha), (src_get_relations b fuel Hb).
  cbn [bind].
  rewrite src_fm_features_eq, src_fm_relations_eq.
  unfold py_FeatureModel_get_constraints. rewrite src_fm_ctcs_eq.
  rewrite src_feat_eq. unfold fm_eqb, feature_eqb, fm_root_l. cbn [fst].
  destruct (String.eqb (name (root a)) (name (root b))); cbn [andb]; [|reflexivity].
  destruct (list_eqb (fun x y : feature => String.eqb (name x) (name y))
              (sort_by name str_ltb (get_features a)) (sort_by name str_ltb (get_features b)));
    cbn [andb]; [|reflexivity].
  destruct (list_eqb relation_eqb (sort_by relation_sort_key rkey_ltb (fm_relations a))
              (sort_by relation_sort_key rkey_ltb (fm_relations b))); cbn [andb]; reflexivity.
Qed.

Print Assumptions src_fm_eq.
Print Assumptions src_rel_eq.
Print Assumptions src_rel_lt.
