(* Proofs/C17Facts.v — the metrics report (Model/Metrics.v) is self-consistent: every named metric
   exactly once and in the table's order, the filter is a sub-list, no history, sizes and ratios of
   listings, the defining identities of the feature / constraint listings, the duplicated
   operations, totality. *)
From Coq Require Import List Bool Ascii String ZArith Lia Permutation.
From FM Require Import Base.Result Base.Str Base.PyFloat Base.AstOp Gen.Tables_core Model.Ast Model.FM
     Model.Ctc Model.Queries Model.Sem Model.Ops Model.EqHash Gen.Tables_metrics Model.Metrics
     Proofs.FMFacts Proofs.QueriesFacts Proofs.C16Facts Proofs.C18Facts.
Import ListNotations.
Local Open Scope list_scope.

(* ------------------------------------------------------------------ the case analysis on [metric] *)

(* [metric m meth = Ok e -> G]: one goal per branch of the if-chain, [tac] runs in each taken branch
   after [meth] has been replaced by its literal *)
Ltac metric_cases meth tac :=
  unfold metric; cbv zeta;
  repeat (match goal with
          | |- (if String.eqb meth ?s then _ else _) = _ -> _ =>
              let E := fresh "E" in
              destruct (String.eqb meth s) eqn:E; [apply String.eqb_eq in E; tac | clear E]
          end).

Lemma ctc_listing_entry_inv : forall m meth nm l base parent level e,
  ctc_listing_entry m meth nm l base parent level = Ok e ->
  exists li bi, l = Ok li /\ base = Ok bi /\
                e = listing meth nm (ctc_strs m li) (map (fun _ => ""%string) bi) parent level.
Proof.
  intros m meth nm l base parent level e H. unfold ctc_listing_entry in H.
  destruct l as [li|x]; [|discriminate H]. destruct base as [bi|x]; [|discriminate H].
  inversion H. exists li, bi. auto.
Qed.

(* ------------------------------------------------------------------ names, order, filter, history *)

Lemma metric_method_name : forall m meth e, metric m meth = Ok e -> me_method e = meth.
Proof.
  intros m meth e.
  metric_cases meth
    ltac:(intros Hm;
          first [ injection Hm as <-; reflexivity
                | apply ctc_listing_entry_inv in Hm;
                  destruct Hm as (li & bi & _ & _ & ->); reflexivity ]).
  intros Hm. discriminate Hm.
Qed.

Lemma mapM_names : forall {A B} (f : A -> result B) (key : B -> A),
  (forall x y, f x = Ok y -> key y = x) ->
  forall l r, mapM f l = Ok r -> map key r = l.
Proof.
  intros A B f key Hk l r H. apply mapM_Forall2 in H.
  induction H as [|x y xs ys Hxy _ IH]; [reflexivity|].
  cbn [map]. rewrite (Hk x y Hxy), IH. reflexivity.
Qed.

Theorem report_names : forall m r, report m None = Ok r -> map me_method r = metric_methods.
Proof.
  intros m r H. unfold report in H.
  apply (mapM_names (metric m) me_method (metric_method_name m) _ _ H).
Qed.

Theorem metric_methods_nodup : NoDup metric_methods.
Proof. apply nodupb_NoDup. vm_compute. reflexivity. Qed.

Lemma mapM_filter : forall {A B} (f : A -> result B) (key : B -> A) (p : A -> bool),
  (forall x y, f x = Ok y -> key y = x) ->
  forall l r r', mapM f l = Ok r -> mapM f (filter p l) = Ok r' ->
  r' = filter (fun y => p (key y)) r.
Proof.
  intros A B f key p Hk l. induction l as [|x xs IH]; intros r r' H H'.
  - cbn in H, H'. inversion H; inversion H'. reflexivity.
  - rewrite mapM_cons in H.
    destruct (f x) as [y|e] eqn:Ex; [|discriminate H].
    destruct (mapM f xs) as [ys|e] eqn:Exs; [|discriminate H].
    inversion H; subst r; clear H.
    cbn [filter] in H' |- *. rewrite (Hk x y Ex).
    destruct (p x) eqn:Px.
    + rewrite mapM_cons, Ex in H'.
      destruct (mapM f (filter p xs)) as [ys'|e] eqn:Exs'; [|discriminate H'].
      inversion H'; subst r'; clear H'. f_equal. apply IH; reflexivity.
    + apply IH; [reflexivity|exact H'].
Qed.

Theorem report_filter : forall m l r r', report m None = Ok r -> report m (Some l) = Ok r' ->
  r' = filter (fun e => list_existsb_eq (me_method e) l) r.
Proof.
  intros m l r r'. unfold report. generalize metric_methods. intros L H H'.
  exact (mapM_filter (metric m) me_method (fun n => list_existsb_eq n l)
                     (metric_method_name m) L r r' H H').
Qed.

Theorem metrics_history : forall st st' flt m, metrics_step st flt m = metrics_step st' flt m.
Proof. intros st st' flt m. reflexivity. Qed.

(* ------------------------------------------------------------------ sizes *)

Theorem entry_size : forall m meth e l,
  metric m meth = Ok e -> me_result e = MNames l -> me_size e = Some (zlen l).
Proof.
  intros m meth e l.
  metric_cases meth
    ltac:(intros Hm;
          first [ injection Hm as <-
                | apply ctc_listing_entry_inv in Hm; destruct Hm as (li & bi & _ & _ & ->) ];
          unfold listing, mk; cbn [me_result me_size]; intros Hres;
          first [ discriminate Hres | injection Hres as <-; reflexivity ]).
  intros Hm. discriminate Hm.
Qed.

Theorem listing_ratio : forall meth name_ l base parent level,
  me_ratio (listing meth name_ l base parent level) = Some (get_ratio (zlen l) (zlen base) 4).
Proof. reflexivity. Qed.

(* ------------------------------------------------------------------ ratios: rounding *)
Section Rounding.
Local Open Scope Z_scope.

(* [round_case_pos] / [round_case_neg] of Proofs/C16Facts.v with 10^nd = K instead of 100 *)
Lemma round_case_pos_K K a b P m T :
  0 < K -> 0 < b -> 0 < P -> 0 < T ->
  Z.abs (2 * (m * (b * P) - a)) <= b * P ->
  T * (b * P) <= a ->
  Z.abs (m * K * P * b - K * a) * (2 * T) <= b * T + K * a.
Proof.
  intros HK Hb HP HT Hm Hbig.
  set (X := m * (b * P) - a) in *.
  replace (m * K * P * b - K * a) with (K * X) by (unfold X; ring).
  rewrite Z.abs_mul in *.
  rewrite (Z.abs_eq K) by lia. change (Z.abs 2) with 2 in Hm.
  set (Y := Z.abs X) in *.
  assert (HY : 0 <= Y) by apply Z.abs_nonneg.
  set (D := b * P) in *.
  assert (H1 : 2 * Y * T <= D * T) by (apply Z.mul_le_mono_nonneg_r; lia).
  assert (HbT : 0 < b * T) by (apply Z.mul_pos_pos; lia).
  assert (H2 : K * (2 * Y * T) <= K * a) by (apply Z.mul_le_mono_nonneg_l; lia).
  replace (K * Y * (2 * T)) with (K * (2 * Y * T)) by ring.
  lia.
Qed.

Lemma round_case_neg_K K a b E m h T :
  0 < K -> 0 < a -> 0 < b -> 0 < E -> 0 < T ->
  Z.abs (2 * (m * b - a * E)) <= b ->
  Z.abs (2 * (h * E - m * K)) <= E ->
  T * b <= a * E ->
  Z.abs (h * b - K * a) * (2 * T) <= b * T + K * a.
Proof.
  intros HK Ha Hb HE HT Hm Hh Hbig.
  set (U := h * E - m * K) in *.
  set (V := m * b - a * E) in *.
  set (W := h * b - K * a).
  assert (HW : E * W = U * b + K * V) by (unfold U, V, W; ring).
  apply Z.abs_le in Hm. apply Z.abs_le in Hh.
  destruct Hm as [Hm1 Hm2]. destruct Hh as [Hh1 Hh2].
  assert (HbT : 0 <= b * T) by (apply Z.mul_nonneg_nonneg; lia).
  assert (A1 : 2 * U * (b * T) <= E * (b * T)) by (apply Z.mul_le_mono_nonneg_r; lia).
  assert (A2 : - E * (b * T) <= 2 * U * (b * T)) by (apply Z.mul_le_mono_nonneg_r; lia).
  assert (A3 : 2 * V * T <= b * T) by (apply Z.mul_le_mono_nonneg_r; lia).
  assert (A4 : - b * T <= 2 * V * T) by (apply Z.mul_le_mono_nonneg_r; lia).
  assert (B1 : K * (2 * V * T) <= K * (b * T)) by (apply Z.mul_le_mono_nonneg_l; lia).
  assert (B2 : K * (- b * T) <= K * (2 * V * T)) by (apply Z.mul_le_mono_nonneg_l; lia).
  assert (B3 : K * (T * b) <= K * (a * E)) by (apply Z.mul_le_mono_nonneg_l; lia).
  assert (HEW : E * (W * (2 * T)) = 2 * U * (b * T) + K * (2 * V * T)).
  { replace (E * (W * (2 * T))) with ((E * W) * (2 * T)) by ring. rewrite HW. ring. }
  assert (HEW' : E * (- W * (2 * T)) = - (2 * U * (b * T)) - K * (2 * V * T)).
  { replace (E * (- W * (2 * T))) with (- (E * (W * (2 * T)))) by ring. rewrite HEW. ring. }
  assert (HK' : E * (b * T + K * a) = E * (b * T) + K * (a * E)) by ring.
  apply (Z.mul_le_mono_pos_l _ _ E HE).
  rewrite HK'.
  replace (K * (- b * T)) with (- (K * (b * T))) in B2 by ring.
  replace (K * (T * b)) with (K * (b * T)) in B3 by ring.
  destruct (Z.abs_spec W) as [[_ HWa] | [_ HWa]]; rewrite HWa.
  - rewrite HEW. lia.
  - rewrite HEW'. lia.
Qed.

(* [pyround_div_bound_tight] for any number of decimals:
   |h/10^nd - a/b| <= 1/(2*10^nd) + (a/b) * 2^-53, multiplied by 10^nd * b * 2^53 *)
Theorem pyround_div_bound_tight_nd : forall a b nd, 0 < a -> 0 < b -> 0 <= nd ->
  let h := pyround_div a b nd in
  Z.abs (h * b - 10 ^ nd * a) * 2 ^ 53 <= b * 2 ^ 52 + 10 ^ nd * a.
Proof.
  intros a b nd Ha Hb Hnd h. unfold h, pyround_div.
  destruct (fdiv_shape a b Ha Hb) as (e & Hf & Hbig).
  rewrite Hf. unfold scale_round.
  assert (HK : 0 < 10 ^ nd) by (apply Z.pow_pos_nonneg; lia).
  set (K := 10 ^ nd) in *.
  change (2 ^ 53) with (2 * 2 ^ 52).
  set (T := 2 ^ 52) in *.
  assert (HT : 0 < T) by reflexivity.
  destruct (0 <=? e) eqn:C.
  - apply Z.leb_le in C.
    assert (HP : 0 < 2 ^ e) by (apply Z.pow_pos_nonneg; lia).
    assert (HD : 0 < b * 2 ^ e) by (apply Z.mul_pos_pos; lia).
    apply round_case_pos_K; auto.
    apply div_rne_bound'; exact HD.
  - apply Z.leb_gt in C.
    assert (HE : 0 < 2 ^ (- e)) by (apply Z.pow_pos_nonneg; lia).
    apply (round_case_neg_K K a b (2 ^ (- e)) (div_rne (a * 2 ^ (- e)) b)); auto.
    + apply div_rne_bound'; exact Hb.
    + apply div_rne_bound'; exact HE.
Qed.

Lemma pyround_div_zero : forall b nd, pyround_div 0 b nd = 0.
Proof. intros b nd. unfold pyround_div, fdiv. cbn. lia. Qed.

(* a quotient of naturals that is at most 1 rounds into [0, 10^nd] (10^nd < 2^52) *)
Lemma pyround_div_unit : forall a b nd, 0 <= a <= b -> 0 < b -> 0 <= nd -> 10 ^ nd < 2 ^ 52 ->
  0 <= pyround_div a b nd <= 10 ^ nd.
Proof.
  intros a b nd Hab Hb Hnd HK52.
  assert (HK : 0 < 10 ^ nd) by (apply Z.pow_pos_nonneg; lia).
  destruct (Z.eq_dec a 0) as [->|Hne].
  - rewrite pyround_div_zero. lia.
  - assert (Ha : 0 < a) by lia.
    pose proof (pyround_div_bound_tight_nd a b nd Ha Hb Hnd) as H. cbv zeta in H.
    set (h := pyround_div a b nd) in *. set (K := 10 ^ nd) in *.
    change (2 ^ 53) with (2 * 2 ^ 52) in H. set (T := 2 ^ 52) in *.
    assert (HKa : K * a <= K * b) by (apply Z.mul_le_mono_nonneg_l; lia).
    assert (HKb : K * b < T * b) by (apply Z.mul_lt_mono_pos_r; lia).
    assert (Hlt : Z.abs (h * b - K * a) < b).
    { pose proof (Z.abs_nonneg (h * b - K * a)) as Hn.
      set (Y := Z.abs (h * b - K * a)) in *.
      destruct (Z_lt_le_dec Y b) as [Hy|Hy]; [exact Hy|exfalso].
      assert (b * T <= Y * T) by (apply Z.mul_le_mono_nonneg_r; lia). lia. }
    apply Z.abs_lt in Hlt. destruct Hlt as [L1 L2].
    split.
    + destruct (Z_lt_le_dec h 0) as [Hneg|Hpos]; [exfalso|exact Hpos].
      assert (h * b <= (-1) * b) by (apply Z.mul_le_mono_nonneg_r; lia).
      assert (0 < K * a) by (apply Z.mul_pos_pos; lia). lia.
    + destruct (Z_lt_le_dec K h) as [Hbig|Hsm]; [exfalso|exact Hsm].
      assert ((K + 1) * b <= h * b) by (apply Z.mul_le_mono_nonneg_r; lia). lia.
Qed.

(* ratios: Python's round(n1/n2, p) of a sub-listing of its base is within [0, 1] (ten-thousandths) *)
Theorem get_ratio_range : forall n1 n2 p, 0 <= n1 <= n2 -> p = 2 \/ p = 4 ->
  0 <= get_ratio n1 n2 p <= 10000.
Proof.
  intros n1 n2 p H12 Hp. unfold get_ratio.
  destruct (n2 =? 0) eqn:E; [lia|]. apply Z.eqb_neq in E.
  assert (Hb : 0 < n2) by lia.
  destruct Hp as [->| ->].
  - pose proof (pyround_div_unit n1 n2 2 H12 Hb) as H.
    change (10 ^ 2) with 100 in H. change (10 ^ (4 - 2)) with 100.
    assert (H' : 0 <= pyround_div n1 n2 2 <= 100) by (apply H; [lia|reflexivity]). lia.
  - pose proof (pyround_div_unit n1 n2 4 H12 Hb) as H.
    change (10 ^ 4) with 10000 in H. change (10 ^ (4 - 4)) with 1.
    assert (H' : 0 <= pyround_div n1 n2 4 <= 10000) by (apply H; [lia|reflexivity]). lia.
Qed.

End Rounding.


(* ------------------------------------------------------------------ feature listings: splits *)

Lemma filter_split_perm {A} (p q : A -> bool) (l : list A) :
  (forall x, In x l -> q x = negb (p x)) -> Permutation (filter p l ++ filter q l) l.
Proof.
  induction l as [|x l IH]; intros H; [constructor|].
  cbn [filter]. rewrite (H x (or_introl eq_refl)).
  assert (IH' : Permutation (filter p l ++ filter q l) l).
  { apply IH. intros y Hy. apply H. right. exact Hy. }
  destruct (p x); cbn [negb].
  - cbn [app]. constructor. exact IH'.
  - apply Permutation_sym. apply Permutation_cons_app. apply Permutation_sym. exact IH'.
Qed.

Lemma names_split_perm (p q : feature -> bool) (l : list feature) :
  (forall x, q x = negb (p x)) ->
  Permutation (map name (filter p l) ++ map name (filter q l)) (map name l).
Proof.
  intros H. rewrite <- map_app. apply Permutation_map. apply filter_split_perm.
  intros x _. apply H.
Qed.

Theorem abstract_concrete_split : forall m,
  Permutation (abstract_names m ++ concrete_names m) (fnames m).
Proof. intros m. apply names_split_perm. reflexivity. Qed.

Theorem leaf_compound_split : forall m,
  Permutation (leaf_names_ m ++ map name (filter (fun f => negb (feat_is_leaf f)) (feats m))) (fnames m).
Proof. intros m. apply names_split_perm. reflexivity. Qed.

(* the listing with parents: the root, then only entries with a parent *)
Definition fctx_rest (m : fm) : list (option feature * feature) :=
  flat_map (fun pr => map (fun c => (Some (fst pr), c)) (r_children (snd pr)))
           (subrelations_ctx (root m)).

Lemma fctx_eq : forall m, fctx m = (None, root m) :: fctx_rest m.
Proof. reflexivity. Qed.

Lemma fctx_rest_some : forall m x, In x (fctx_rest m) -> exists q, fst x = Some q.
Proof.
  intros m x H. unfold fctx_rest in H. apply in_flat_map in H. destruct H as (pr & _ & H).
  apply in_map_iff in H. destruct H as (c & <- & _). eexists; reflexivity.
Qed.

Lemma tl_fnames : forall m, tl (fnames m) = map (fun x => name (snd x)) (fctx_rest m).
Proof.
  intros m. unfold fnames, feats. rewrite <- get_features_ctx_snd.
  change (get_features_ctx m) with ((None, root m) :: fctx_rest m).
  cbn [map tl]. rewrite map_map. reflexivity.
Qed.

Definition sol_pred (x : option feature * feature) : bool :=
  negb (feat_is_root (fst x)) && negb (feat_is_grouped (fst x) (snd x)).
Definition grp_pred (x : option feature * feature) : bool :=
  negb (feat_is_root (fst x)) && feat_is_grouped (fst x) (snd x).

Lemma solitary_names_eq : forall m,
  solitary_names m = map (fun x => name (snd x)) (filter sol_pred (fctx_rest m)).
Proof. reflexivity. Qed.

Lemma grouped_names_eq : forall m,
  grouped_names m = map (fun x => name (snd x)) (filter grp_pred (fctx_rest m)).
Proof. reflexivity. Qed.

Theorem solitary_grouped_split : forall m,
  Permutation (solitary_names m ++ grouped_names m) (tl (fnames m)).
Proof.
  intros m. rewrite solitary_names_eq, grouped_names_eq, tl_fnames, <- map_app.
  apply Permutation_map. apply filter_split_perm.
  intros x Hx. destruct (fctx_rest_some m x Hx) as [q Hq].
  unfold sol_pred, grp_pred. rewrite Hq. cbn [feat_is_root negb andb].
  rewrite negb_involutive. reflexivity.
Qed.


(* ------------------------------------------------------------------ mandatory / optional inside solitary *)

Lemma NoDup_app_disjoint {A} (l1 l2 : list A) x :
  NoDup (l1 ++ l2) -> In x l1 -> In x l2 -> False.
Proof.
  induction l1 as [|y l1 IH]; intros Hnd H1 H2; [contradiction|].
  cbn [app] in Hnd. inversion Hnd as [|y' l' Hnotin Hnd']; subst.
  destruct H1 as [->|H1].
  - apply Hnotin. apply in_or_app. right. exact H2.
  - apply IH; assumption.
Qed.

Lemma NoDup_app_r {A} (l1 l2 : list A) : NoDup (l1 ++ l2) -> NoDup l2.
Proof.
  induction l1 as [|y l1 IH]; intros H; [exact H|].
  cbn [app] in H. inversion H; subst. apply IH. assumption.
Qed.

(* with unique names, a name is a child name of at most one relation of the listing *)
Lemma unique_child_relation : forall rs r r' d d',
  NoDup (map name (flat_map r_children rs)) ->
  In r rs -> In r' rs -> In d (r_children r) -> In d' (r_children r') -> name d = name d' ->
  r = r'.
Proof.
  induction rs as [|a rs IH]; intros r r' d d' Hnd Hr Hr' Hd Hd' Hn; [contradiction|].
  cbn [flat_map] in Hnd. rewrite map_app in Hnd.
  assert (Hin : forall r0 d0, In r0 rs -> In d0 (r_children r0) ->
                              In (name d0) (map name (flat_map r_children rs))).
  { intros r0 d0 H0 H1. apply in_map. apply in_flat_map. exists r0. auto. }
  destruct Hr as [->|Hr]; destruct Hr' as [->|Hr'].
  - reflexivity.
  - exfalso. apply (NoDup_app_disjoint _ _ (name d) Hnd).
    + apply in_map. exact Hd.
    + rewrite Hn. apply (Hin r' d'); assumption.
  - exfalso. apply (NoDup_app_disjoint _ _ (name d') Hnd).
    + apply in_map. exact Hd'.
    + rewrite <- Hn. apply (Hin r d); assumption.
  - apply (IH r r' d d'); auto. apply NoDup_app_r in Hnd. exact Hnd.
Qed.

Lemma in_children_spec : forall f r,
  in_children f r = true <-> exists d, In d (r_children r) /\ name d = name f.
Proof.
  intros f r. unfold in_children. rewrite existsb_exists. split.
  - intros (d & Hd & E). apply String.eqb_eq in E. eauto.
  - intros (d & Hd & E). exists d. split; [exact Hd|]. apply String.eqb_eq. exact E.
Qed.

Lemma in_fctx_parent : forall m q c,
  In (Some q, c) (fctx m) -> In q (subfeatures (root m)).
Proof. intros m q c H. apply (get_features_ctx_parent m q c H). Qed.

(* a child of a single-child relation of q is not a member of a group relation of q *)
Lemma single_not_grouped : forall m q c r,
  wf_names (root m) = true -> In (Some q, c) (fctx m) ->
  In r (rels q) -> nchildren r = 1%Z -> in_children c r = true ->
  feat_is_grouped (Some q) c = false.
Proof.
  intros m q c r Hwf Hin Hr Hn Hc.
  destruct (feat_is_grouped (Some q) c) eqn:G; [exfalso|reflexivity].
  cbn [feat_is_grouped] in G. apply existsb_exists in G. destruct G as (r' & Hr' & G).
  apply andb_prop in G. destruct G as [Gg Gc].
  pose proof (in_fctx_parent m q c Hin) as Hq.
  pose proof (in_subrelations_of_feature (root m) q r Hq Hr) as Sr.
  pose proof (in_subrelations_of_feature (root m) q r' Hq Hr') as Sr'.
  pose proof (wf_names_get_features m Hwf) as Hnd.
  unfold get_features, get_relations in Hnd. cbn [map] in Hnd.
  inversion Hnd as [|x xs _ Hnd']; subst.
  apply in_children_spec in Hc. destruct Hc as (d & Hd & Ed).
  apply in_children_spec in Gc. destruct Gc as (d' & Hd' & Ed').
  assert (E : r = r').
  { apply (unique_child_relation (subrelations (root m)) r r' d d'); auto. congruence. }
  subst r'. unfold rel_is_group in Gg. rewrite Hn in Gg. discriminate Gg.
Qed.

Lemma wf_wf_names : forall f, wf f = true -> wf_names f = true.
Proof. intros f H. unfold wf in H. apply andb_prop in H. apply H. Qed.

Lemma mandatory_sol_pred : forall m x, wf_names (root m) = true -> In x (fctx m) ->
  feat_is_mandatory (fst x) (snd x) = true -> sol_pred x = true.
Proof.
  intros m [p c] Hwf Hin H. cbn [fst snd] in *. destruct p as [q|]; [|discriminate H].
  cbn [feat_is_mandatory] in H. apply existsb_exists in H. destruct H as (r & Hr & H).
  apply andb_prop in H. destruct H as [Hm Hc].
  unfold sol_pred. cbn [fst snd feat_is_root negb andb].
  rewrite (single_not_grouped m q c r Hwf Hin Hr); auto.
  unfold rel_is_mandatory in Hm. apply andb_prop in Hm. destruct Hm as [_ Hm].
  apply Z.eqb_eq in Hm. exact Hm.
Qed.

Lemma optional_sol_pred : forall m x, wf_names (root m) = true -> In x (fctx m) ->
  feat_is_optional (fst x) (snd x) = true -> sol_pred x = true.
Proof.
  intros m [p c] Hwf Hin H. cbn [fst snd] in *. destruct p as [q|]; [|discriminate H].
  cbn [feat_is_optional] in H. apply existsb_exists in H. destruct H as (r & Hr & H).
  apply andb_prop in H. destruct H as [Hm Hc].
  unfold sol_pred. cbn [fst snd feat_is_root negb andb].
  rewrite (single_not_grouped m q c r Hwf Hin Hr); auto.
  unfold rel_is_optional in Hm. apply andb_prop in Hm. destruct Hm as [_ Hm].
  apply Z.eqb_eq in Hm. exact Hm.
Qed.

Lemma solitary_names_full : forall m,
  solitary_names m = map (fun x => name (snd x)) (filter sol_pred (fctx m)).
Proof. reflexivity. Qed.

Lemma ctx_listing_inside_solitary : forall m (p : option feature -> feature -> bool),
  (forall x, In x (fctx m) -> p (fst x) (snd x) = true -> sol_pred x = true) ->
  incl (map name (filter_ctx p m)) (solitary_names m).
Proof.
  intros m p H n Hn. unfold filter_ctx in Hn. rewrite map_map in Hn.
  apply in_map_iff in Hn. destruct Hn as (x & <- & Hx).
  apply filter_In in Hx. destruct Hx as [Hx Px].
  rewrite solitary_names_full. apply (in_map (fun x => name (snd x))).
  apply filter_In. split; [exact Hx|]. apply H; assumption.
Qed.

Theorem mandatory_inside_solitary : forall m, wf (root m) = true ->
  incl (map name (get_mandatory_features m)) (solitary_names m).
Proof.
  intros m Hwf. apply ctx_listing_inside_solitary.
  intros x Hx. apply (mandatory_sol_pred m); [apply wf_wf_names; exact Hwf|exact Hx].
Qed.

Theorem optional_inside_solitary : forall m, wf (root m) = true ->
  incl (map name (get_optional_features m)) (solitary_names m).
Proof.
  intros m Hwf. apply ctx_listing_inside_solitary.
  intros x Hx. apply (optional_sol_pred m); [apply wf_wf_names; exact Hwf|exact Hx].
Qed.


(* ------------------------------------------------------------------ constraint listings *)

(* the loop of filterM_idx with its running index *)
Section Fmi.
  Context {A : Type} (p : A -> result bool).
  Fixpoint fmi (i : nat) (l : list A) : result (list nat) :=
    match l with
    | [] => Ok []
    | x :: xs => match p x with
                 | Err e => Err e
                 | Ok b => match fmi (S i) xs with
                           | Err e => Err e
                           | Ok r => Ok (if b then i :: r else r)
                           end
                 end
    end.
End Fmi.

Lemma filterM_idx_fmi : forall {A} (p : A -> result bool) l, filterM_idx p l = fmi p 0 l.
Proof. reflexivity. Qed.

Lemma fmi_cons_inv : forall {A} (p : A -> result bool) i x xs r,
  fmi p i (x :: xs) = Ok r ->
  exists b r', p x = Ok b /\ fmi p (S i) xs = Ok r' /\ r = if b then i :: r' else r'.
Proof.
  intros A p i x xs r H. cbn [fmi] in H.
  destruct (p x) as [b|e]; [|discriminate H].
  destruct (fmi p (S i) xs) as [r'|e]; [|discriminate H].
  inversion H. exists b, r'. auto.
Qed.

(* a listing is the disjoint union of two others *)
Lemma fmi_split : forall {A} (p1 p2 p3 : A -> result bool) l,
  Forall (fun x => forall b1 b2 b3, p1 x = Ok b1 -> p2 x = Ok b2 -> p3 x = Ok b3 ->
                                    b3 = b1 || b2 /\ b1 && b2 = false) l ->
  forall i l1 l2 l3, fmi p1 i l = Ok l1 -> fmi p2 i l = Ok l2 -> fmi p3 i l = Ok l3 ->
  Permutation (l1 ++ l2) l3.
Proof.
  intros A p1 p2 p3 l F. induction F as [|x xs Hx _ IH]; intros i l1 l2 l3 H1 H2 H3.
  - cbn in H1, H2, H3. inversion H1; inversion H2; inversion H3. constructor.
  - apply fmi_cons_inv in H1. destruct H1 as (b1 & r1 & E1 & R1 & ->).
    apply fmi_cons_inv in H2. destruct H2 as (b2 & r2 & E2 & R2 & ->).
    apply fmi_cons_inv in H3. destruct H3 as (b3 & r3 & E3 & R3 & ->).
    destruct (Hx b1 b2 b3 E1 E2 E3) as [-> Hd].
    pose proof (IH (S i) r1 r2 r3 R1 R2 R3) as P.
    destruct b1, b2; try discriminate Hd; cbn [orb app].
    + constructor. exact P.
    + apply Permutation_sym. apply Permutation_cons_app. apply Permutation_sym. exact P.
    + exact P.
Qed.

(* a listing is inside another one *)
Lemma fmi_incl : forall {A} (p1 p2 : A -> result bool) l,
  Forall (fun x => forall b2, p1 x = Ok true -> p2 x = Ok b2 -> b2 = true) l ->
  forall i l1 l2, fmi p1 i l = Ok l1 -> fmi p2 i l = Ok l2 ->
  incl l1 l2 /\ (List.length l1 <= List.length l2)%nat.
Proof.
  intros A p1 p2 l F. induction F as [|x xs Hx _ IH]; intros i l1 l2 H1 H2.
  - cbn in H1, H2. inversion H1; inversion H2. split; [apply incl_refl|apply le_n].
  - apply fmi_cons_inv in H1. destruct H1 as (b1 & r1 & E1 & R1 & ->).
    apply fmi_cons_inv in H2. destruct H2 as (b2 & r2 & E2 & R2 & ->).
    destruct (IH (S i) r1 r2 R1 R2) as [I L].
    destruct b1.
    + rewrite (Hx b2 E1 E2). split.
      * intros y [<-|Hy]; [left; reflexivity|right; apply I; exact Hy].
      * cbn [List.length]. lia.
    + destruct b2; split; try assumption.
      * apply incl_tl. exact I.
      * cbn [List.length]. lia.
Qed.

Lemma fmi_length : forall {A} (p : A -> result bool) l i r,
  fmi p i l = Ok r -> (List.length r <= List.length l)%nat.
Proof.
  intros A p l. induction l as [|x xs IH]; intros i r H.
  - cbn in H. inversion H. apply le_n.
  - apply fmi_cons_inv in H. destruct H as (b & r' & _ & R & ->).
    pose proof (IH (S i) r' R). destruct b; cbn [List.length]; lia.
Qed.

Lemma fmi_total : forall {A} (p : A -> result bool) l,
  Forall (fun x => exists b, p x = Ok b) l -> forall i, exists r, fmi p i l = Ok r.
Proof.
  intros A p l F. induction F as [|x xs [b Hb] _ IH]; intros i.
  - exists []. reflexivity.
  - destruct (IH (S i)) as [r Hr]. cbn [fmi]. rewrite Hb, Hr. eexists; reflexivity.
Qed.

Lemma Forall_ctcs_map : forall (P : node -> Prop) (l : list ctc),
  Forall (fun c => P (c_ast c)) l -> forall Q : ctc -> Prop,
  (forall c, P (c_ast c) -> Q c) -> Forall Q l.
Proof. intros P l F Q H. eapply Forall_impl; [|exact F]. intros c Hc. apply H, Hc. Qed.

Theorem requires_excludes_split_simple : forall m lr le ls,
  Forall (fun c => node_wf (c_ast c) = true) (ctcs m) ->
  get_requires_constraints m = Ok lr -> get_excludes_constraints m = Ok le ->
  get_simple_constraints m = Ok ls ->
  Permutation (lr ++ le) ls.
Proof.
  intros m lr le ls F Hr He Hs.
  unfold get_requires_constraints, get_excludes_constraints, get_simple_constraints, ctc_listing in *.
  rewrite filterM_idx_fmi in Hr, He, Hs.
  refine (fmi_split _ _ _ (ctcs m) _ 0 lr le ls Hr He Hs).
  eapply Forall_impl; [|exact F]. intros c Hwf b1 b2 b3 E1 E2 E3. cbv beta in *.
  rewrite (simple_def _ b1 b2 E1 E2) in E3. inversion E3. split; [reflexivity|].
  destruct b1; [|reflexivity].
  rewrite (requires_excludes_disjoint _ Hwf E1) in E2. inversion E2. reflexivity.
Qed.

Theorem simple_complex_split_logical : forall m ls lc ll,
  get_simple_constraints m = Ok ls -> get_complex_constraints m = Ok lc ->
  get_logical_constraints m = Ok ll ->
  Forall (fun c => node_wf (c_ast c) = true) (ctcs m) -> Permutation (ls ++ lc) ll.
Proof.
  intros m ls lc ll Hs Hc Hl F.
  unfold get_simple_constraints, get_complex_constraints, get_logical_constraints, ctc_listing in *.
  rewrite filterM_idx_fmi in Hs, Hc, Hl.
  refine (fmi_split _ _ _ (ctcs m) _ 0 ls lc ll Hs Hc Hl).
  eapply Forall_impl; [|exact F]. intros c Hwf b1 b2 b3 E1 E2 E3. cbv beta in *.
  destruct (wf_no_error _ Hwf) as (_ & _ & _ & _ & L).
  rewrite (complex_def _ b1 E1), L in E2. rewrite L in E3.
  inversion E2. inversion E3. destruct b1; split; reflexivity.
Qed.

Lemma pseudo_true_complex : forall n b, is_pseudocomplex n = Ok true -> is_complex n = Ok b -> b = true.
Proof.
  intros n b Hp Hc. unfold is_pseudocomplex in Hp. rewrite Hc in Hp.
  destruct b; [reflexivity|discriminate Hp].
Qed.

Lemma strict_true_complex : forall n b, is_strictcomplex n = Ok true -> is_complex n = Ok b -> b = true.
Proof.
  intros n b Hp Hc. unfold is_strictcomplex in Hp. rewrite Hc in Hp.
  destruct b; [reflexivity|discriminate Hp].
Qed.

Lemma requires_true_simple : forall n b, is_requires n = Ok true -> is_simple n = Ok b -> b = true.
Proof.
  intros n b Hr Hs. unfold is_simple in Hs. rewrite Hr in Hs. inversion Hs. reflexivity.
Qed.

Lemma excludes_true_simple : forall n b, is_excludes n = Ok true -> is_simple n = Ok b -> b = true.
Proof.
  intros n b He Hs. unfold is_simple in Hs.
  destruct (is_requires n) as [[|]|e]; [inversion Hs; reflexivity| |discriminate Hs].
  rewrite He in Hs. inversion Hs. reflexivity.
Qed.

Lemma ctc_listing_incl : forall (p1 p2 : node -> result bool) m l1 l2,
  (forall n b2, p1 n = Ok true -> p2 n = Ok b2 -> b2 = true) ->
  ctc_listing p1 m = Ok l1 -> ctc_listing p2 m = Ok l2 ->
  incl l1 l2 /\ (List.length l1 <= List.length l2)%nat.
Proof.
  intros p1 p2 m l1 l2 H H1 H2. unfold ctc_listing in H1, H2.
  rewrite filterM_idx_fmi in H1, H2.
  refine (fmi_incl _ _ (ctcs m) _ 0 l1 l2 H1 H2).
  apply Forall_forall. intros c _ b2. apply H.
Qed.

Theorem pseudo_strict_inside_complex_listing : forall m lp lst lc,
  get_pseudocomplex_constraints m = Ok lp -> get_strictcomplex_constraints m = Ok lst ->
  get_complex_constraints m = Ok lc ->
  incl lp lc /\ incl lst lc.
Proof.
  intros m lp lst lc Hp Hs Hc. split.
  - apply (ctc_listing_incl is_pseudocomplex is_complex m lp lc pseudo_true_complex Hp Hc).
  - apply (ctc_listing_incl is_strictcomplex is_complex m lst lc strict_true_complex Hs Hc).
Qed.

(* ------------------------------------------------------------------ duplicates of the operations *)

Theorem branching_factor_is_operation : forall m e,
  metric m "branching_factor" = Ok e -> me_result e = MHund (average_branching_factor m).
Proof.
  intros m e H.
  change (metric m "branching_factor")
    with (Ok (mk "branching_factor" "Branching factor" (MHund (average_branching_factor m))
                 None None None 0)) in H.
  inversion H. reflexivity.
Qed.

Lemma fold_left_max_nonneg : forall xs a, (0 <= a)%Z ->
  fold_left Z.max xs a = Z.max a (fold_right Z.max 0%Z xs).
Proof.
  induction xs as [|y ys IH]; intros a Ha; cbn [fold_left fold_right].
  - lia.
  - rewrite IH by lia. lia.
Qed.

Lemma zmax_list_fold_right : forall l, Forall (fun z => (0 <= z)%Z) l ->
  zmax_list l 0 = fold_right Z.max 0%Z l.
Proof.
  intros l F. destruct F as [|x xs Hx _]; [reflexivity|].
  unfold zmax_list. rewrite fold_left_max_nonneg by exact Hx. reflexivity.
Qed.

Theorem max_depth_is_operation : forall m e,
  metric m "max_depth_tree" = Ok e -> me_result e = MInt (max_depth_tree m).
Proof.
  intros m e H.
  change (metric m "max_depth_tree")
    with (Ok (mk "max_depth_tree" "Max depth of tree" (MInt (zmax_list (leaf_depths m) 0))
                 None None (Some "Depth of tree"%string) 1)) in H.
  inversion H. cbn [me_result mk]. f_equal.
  rewrite zmax_list_fold_right; [reflexivity|].
  unfold leaf_depths. apply Forall_forall. intros z Hz. apply in_map_iff in Hz.
  destruct Hz as (fa & <- & _). unfold zlen. lia.
Qed.

Theorem leaf_features_is_operation : forall m e,
  metric m "leaf_features" = Ok e -> me_result e = MNames (map name (leaf_features m)).
Proof.
  intros m e H.
  change (metric m "leaf_features")
    with (Ok (listing "leaf_features" "Leaf features" (leaf_names_ m) (fnames m) "Features" 1)) in H.
  inversion H. reflexivity.
Qed.


(* ------------------------------------------------------------------ totality *)

(* the three passes keep well-formedness (XOR / EQUIVALENCE included: only the meaning is lost) *)
Lemma simplify_WF : forall fuel n s, WF n -> simplify_fuel fuel n = Ok s -> WF s.
Proof.
  induction fuel as [|fuel IH]; intros n s Hwf H; [discriminate H|].
  destruct Hwf as [t|a Ha|o a b Ho Ha Hb].
  - cbn in H. inversion H. constructor.
  - cbn in H. destruct (simplify_fuel fuel a) as [a'|e] eqn:Ea; [|discriminate H].
    inversion H. constructor. apply (IH a a' Ha Ea).
  - assert (B : forall o' x y, is_binlog o' = true -> WF x -> WF y -> WF (bin o' x y))
      by (intros; constructor; assumption).
    assert (N : forall x, WF x -> WF (un NOT x)) by (intros; constructor; assumption).
    destruct o; try discriminate Ho; cbn in H.
    + (* REQUIRES *)
      destruct (simplify_fuel fuel a) as [a'|e] eqn:Ea; [|discriminate H].
      destruct (simplify_fuel fuel b) as [b'|e'] eqn:Eb; [|discriminate H].
      inversion H. apply B; [reflexivity|apply N, (IH a a' Ha Ea)|apply (IH b b' Hb Eb)].
    + (* EXCLUDES *)
      destruct (simplify_fuel fuel a) as [a'|e] eqn:Ea; [|discriminate H].
      destruct (simplify_fuel fuel b) as [b'|e'] eqn:Eb; [|discriminate H].
      inversion H. apply B; [reflexivity|apply N, (IH a a' Ha Ea)|apply N, (IH b b' Hb Eb)].
    + (* AND *)
      destruct (simplify_fuel fuel a) as [a'|e] eqn:Ea; [|discriminate H].
      destruct (simplify_fuel fuel b) as [b'|e'] eqn:Eb; [|discriminate H].
      inversion H. apply B; [reflexivity|apply (IH a a' Ha Ea)|apply (IH b b' Hb Eb)].
    + (* OR *)
      destruct (simplify_fuel fuel a) as [a'|e] eqn:Ea; [|discriminate H].
      destruct (simplify_fuel fuel b) as [b'|e'] eqn:Eb; [|discriminate H].
      inversion H. apply B; [reflexivity|apply (IH a a' Ha Ea)|apply (IH b b' Hb Eb)].
    + (* XOR *)
      destruct (simplify_fuel fuel (Node (DOp AND) (Some a) (Some (Node (DOp NOT) (Some b) None))))
        as [l1|e] eqn:E1; [|discriminate H].
      destruct (simplify_fuel fuel (Node (DOp AND) (Some (Node (DOp NOT) (Some l1) None)) (Some b)))
        as [l2|e] eqn:E2; [|discriminate H].
      inversion H.
      assert (W1 : WF l1) by (apply (IH _ l1 (B AND a (un NOT b) eq_refl Ha (N b Hb)) E1)).
      assert (W2 : WF l2) by (apply (IH _ l2 (B AND (un NOT l1) b eq_refl (N l1 W1) Hb) E2)).
      apply (B OR l2 b eq_refl W2 Hb).
    + (* IMPLIES *)
      destruct (simplify_fuel fuel a) as [a'|e] eqn:Ea; [|discriminate H].
      destruct (simplify_fuel fuel b) as [b'|e'] eqn:Eb; [|discriminate H].
      inversion H. apply B; [reflexivity|apply N, (IH a a' Ha Ea)|apply (IH b b' Hb Eb)].
    + (* EQUIVALENCE *)
      destruct (simplify_fuel fuel (Node (DOp IMPLIES) (Some a) (Some b))) as [l1|e] eqn:E1;
        [|discriminate H].
      destruct (simplify_fuel fuel (Node (DOp IMPLIES) (Some b) (Some l1))) as [r1|e] eqn:E2;
        [|discriminate H].
      inversion H.
      assert (W1 : WF l1) by (apply (IH _ l1 (B IMPLIES a b eq_refl Ha Hb) E1)).
      assert (W2 : WF r1) by (apply (IH _ r1 (B IMPLIES b l1 eq_refl Hb W1) E2)).
      apply (B AND l1 r1 eq_refl W1 W2).
Qed.

Lemma nnf_WF : forall n, WF n -> forall neg s, propagate_negation n neg = Ok s -> WF s.
Proof.
  induction 1 as [t|a Ha IHa|o a b Ho Ha IHa Hb IHb]; intros neg s H.
  - cbn in H. inversion H. destruct neg; repeat constructor.
  - cbn in H. apply (IHa _ _ H).
  - assert (D : forall s', Ok (if neg then un NOT (bin o a b) else bin o a b) = Ok s' -> WF s').
    { intros s' E. inversion E. destruct neg; repeat (constructor; try assumption). }
    destruct o; try discriminate Ho; try (apply D; exact H); clear D; cbn in H;
      (destruct (propagate_negation a neg) as [a'|e] eqn:Ea; [|discriminate H]);
      (destruct (propagate_negation b neg) as [b'|e'] eqn:Eb; [|discriminate H]);
      inversion H; destruct neg;
      (constructor; [reflexivity|apply (IHa _ _ Ea)|apply (IHb _ _ Eb)]).
Qed.

Lemma cnf_WF : forall fuel n s, WF n -> to_cnf_fuel fuel n = Ok s -> WF s.
Proof.
  induction fuel as [|fuel IH]; intros n s Hwf H; [discriminate H|].
  destruct Hwf as [t|a Ha|o a b Ho Ha Hb].
  - cbn in H. inversion H. constructor.
  - cbn in H. inversion H. constructor. exact Ha.
  - assert (D : forall s', Ok (bin o a b) = Ok s' -> WF s').
    { intros s' E. inversion E. constructor; assumption. }
    destruct o; try discriminate Ho; try (apply D; exact H); clear D.
    + rewrite to_cnf_and in H.
      destruct (to_cnf_fuel fuel a) as [a'|e] eqn:Ea; [|discriminate H].
      destruct (to_cnf_fuel fuel b) as [b'|e'] eqn:Eb; [|discriminate H].
      inversion H. constructor; [reflexivity|apply (IH a a' Ha Ea)|apply (IH b b' Hb Eb)].
    + rewrite to_cnf_or in H.
      destruct (to_cnf_fuel fuel a) as [a'|e] eqn:Ea; [|discriminate H].
      destruct (to_cnf_fuel fuel b) as [b'|e'] eqn:Eb; [|discriminate H].
      pose proof (IH a a' Ha Ea) as Wa. pose proof (IH b b' Hb Eb) as Wb.
      destruct (data_is AND a') eqn:Da.
      * destruct (WF_data_is_and a' Wa Da) as (x & y & -> & Wx & Wy).
        cbn [n_left n_right] in H. apply (IH _ s) in H; [exact H|].
        repeat (constructor; try reflexivity; try assumption).
      * destruct (data_is AND b') eqn:Db.
        -- destruct (WF_data_is_and b' Wb Db) as (x & y & -> & Wx & Wy).
           cbn [n_left n_right] in H. apply (IH _ s) in H; [exact H|].
           repeat (constructor; try reflexivity; try assumption).
        -- inversion H. constructor; [reflexivity|assumption|assumption].
Qed.

Lemma mapM_Forall_post : forall {A B} (f : A -> result B) (pre : A -> Prop) (post : B -> Prop),
  (forall x y, pre x -> f x = Ok y -> post y) ->
  forall l l', Forall pre l -> mapM f l = Ok l' -> Forall post l'.
Proof.
  intros A B f pre post Hf l l' F H. apply mapM_Forall2 in H.
  induction H as [|x y xs ys Hxy _ IH]; [constructor|].
  inversion F as [|x' xs' Px Fxs]; subst. constructor; [apply (Hf x y Px Hxy)|apply IH, Fxs].
Qed.

Lemma flat_split_WF : forall l l', Forall WF l -> flat_mapM split_formula l = Ok l' -> Forall WF l'.
Proof.
  intros l l' F H.
  assert (F' : Forall (fun p => WF p /\ True) l)
    by (eapply Forall_impl; [|exact F]; intros p W; split; [exact W|exact I]).
  destruct (flat_split_core _ and_closed_true l l' F' H) as [R _].
  eapply Forall_impl; [|exact R]. intros p [W _]. exact W.
Qed.

Lemma split_asts_WF : forall n parts, WF n -> split_asts n = Ok parts -> Forall WF parts.
Proof.
  intros n parts Hwf H. unfold split_asts in H.
  destruct (split_formula n) as [l0|e] eqn:E0; [|discriminate H].
  destruct (mapM (fun a => simplify_fuel (default_fuel a) a) l0) as [l1|e] eqn:E1; [|discriminate H].
  destruct (flat_mapM split_formula l1) as [l2|e] eqn:E2; [|discriminate H].
  destruct (mapM (fun a => propagate_negation a false) l2) as [l3|e] eqn:E3; [|discriminate H].
  destruct (flat_mapM split_formula l3) as [l4|e] eqn:E4; [|discriminate H].
  destruct (mapM (fun a => to_cnf_fuel (default_fuel a) a) l4) as [l5|e] eqn:E5; [|discriminate H].
  assert (F0 : Forall WF l0).
  { destruct (split_formula_core _ and_closed_true n Hwf I l0 E0) as [R _].
    eapply Forall_impl; [|exact R]. intros p [W _]. exact W. }
  assert (F1 : Forall WF l1).
  { apply (mapM_Forall_post _ WF WF) with (l := l0) (2 := F0) (3 := E1).
    intros x y Wx Hxy. apply (simplify_WF _ x y Wx Hxy). }
  pose proof (flat_split_WF l1 l2 F1 E2) as F2.
  assert (F3 : Forall WF l3).
  { apply (mapM_Forall_post _ WF WF) with (l := l2) (2 := F2) (3 := E3).
    intros x y Wx Hxy. apply (nnf_WF x Wx false y Hxy). }
  pose proof (flat_split_WF l3 l4 F3 E4) as F4.
  assert (F5 : Forall WF l5).
  { apply (mapM_Forall_post _ WF WF) with (l := l4) (2 := F4) (3 := E5).
    intros x y Wx Hxy. apply (cnf_WF _ x y Wx Hxy). }
  apply (flat_split_WF l5 parts F5 H).
Qed.

(* none of the six constraint predicates raises on a well-formed constraint whose split returns *)
Lemma pseudo_strict_ok : forall n parts, node_wf n = true -> split_asts n = Ok parts ->
  (exists b, is_pseudocomplex n = Ok b) /\ (exists b, is_strictcomplex n = Ok b).
Proof.
  intros n parts Hwf Hs.
  destruct (wf_no_error n Hwf) as (_ & _ & _ & [bc Hc] & _).
  unfold is_pseudocomplex, is_strictcomplex. rewrite Hc, Hs.
  destruct bc; [|split; eexists; reflexivity].
  pose proof (split_asts_WF n parts (node_wf_WF n Hwf) Hs) as F.
  split.
  - exists (forallb simple_b parts). apply forallM_ok.
    eapply Forall_impl; [|exact F]. intros p W. apply WF_simple_b, W.
  - exists (existsb (fun x => negb (simple_b x)) parts).
    apply (existsM_ok is_complex (fun x => negb (simple_b x))).
    eapply Forall_impl; [|exact F]. intros p W. apply WF_simple_b, W.
Qed.

Lemma ctc_listing_total : forall (p : node -> result bool) m,
  Forall (fun c => exists b, p (c_ast c) = Ok b) (ctcs m) -> exists l, ctc_listing p m = Ok l.
Proof.
  intros p m F. unfold ctc_listing. rewrite filterM_idx_fmi. apply fmi_total. exact F.
Qed.

Lemma mapM_total : forall {A B} (f : A -> result B) l,
  (forall x, In x l -> exists y, f x = Ok y) ->
  exists r, mapM f l = Ok r /\ List.length r = List.length l.
Proof.
  intros A B f l. induction l as [|x xs IH]; intros H.
  - exists []. split; reflexivity.
  - destruct (H x (or_introl eq_refl)) as [y Hy].
    destruct IH as (r & Hr & Lr). { intros z Hz. apply H. right. exact Hz. }
    exists (y :: r). rewrite mapM_cons, Hy, Hr. split; [reflexivity|].
    cbn [List.length]. rewrite Lr. reflexivity.
Qed.

Lemma ctc_listing_entry_ok : forall m meth nm l base parent level li bi,
  l = Ok li -> base = Ok bi -> exists e, ctc_listing_entry m meth nm l base parent level = Ok e.
Proof. intros m meth nm l base parent level li bi -> ->. eexists; reflexivity. Qed.

Theorem report_total : forall m,
  Forall (fun c => node_wf (c_ast c) = true /\ exists parts, split_asts (c_ast c) = Ok parts) (ctcs m) ->
  exists r, report m None = Ok r /\ List.length r = 40.
Proof.
  intros m F.
  assert (T : forall (p : node -> result bool),
            (forall n parts, node_wf n = true -> split_asts n = Ok parts -> exists b, p n = Ok b) ->
            exists l, ctc_listing p m = Ok l).
  { intros p Hp. apply ctc_listing_total. eapply Forall_impl; [|exact F].
    intros c [Hwf [parts Hs]]. apply (Hp _ parts Hwf Hs). }
  destruct (T is_simple) as [ls Hls].
  { intros n _ Hwf _. apply (wf_no_error n Hwf). }
  destruct (T is_requires) as [lr Hlr].
  { intros n _ Hwf _. apply (wf_no_error n Hwf). }
  destruct (T is_excludes) as [le Hle].
  { intros n _ Hwf _. apply (wf_no_error n Hwf). }
  destruct (T is_complex) as [lc Hlc].
  { intros n _ Hwf _. apply (wf_no_error n Hwf). }
  destruct (T is_pseudocomplex) as [lp Hlp].
  { intros n parts Hwf Hs. apply (pseudo_strict_ok n parts Hwf Hs). }
  destruct (T is_strictcomplex) as [lt Hlt].
  { intros n parts Hwf Hs. apply (pseudo_strict_ok n parts Hwf Hs). }
  clear T.
  change 40 with (List.length metric_methods). unfold report.
  apply mapM_total. intros meth Hin. unfold metric_methods in Hin.
  repeat (destruct Hin as [<-|Hin];
          [first [ eexists; reflexivity
                 | eapply ctc_listing_entry_ok;
                   first [eassumption | reflexivity] ] |]).
  contradiction.
Qed.


(* ------------------------------------------------------------------ ratios of the report *)

Lemma filter_length_impl {A} (p q : A -> bool) (l : list A) :
  (forall x, In x l -> p x = true -> q x = true) ->
  (List.length (filter p l) <= List.length (filter q l))%nat.
Proof.
  induction l as [|x l IH]; intros H; [apply le_n|].
  assert (IH' : (List.length (filter p l) <= List.length (filter q l))%nat).
  { apply IH. intros y Hy. apply H. right. exact Hy. }
  cbn [filter]. destruct (p x) eqn:Px.
  - rewrite (H x (or_introl eq_refl) Px). cbn [List.length]. lia.
  - destruct (q x); cbn [List.length]; lia.
Qed.

Lemma filter_length_le' {A} (p : A -> bool) (l : list A) :
  (List.length (filter p l) <= List.length l)%nat.
Proof. induction l as [|x l IH]; cbn [filter]; [apply le_n|]. destruct (p x); cbn [List.length]; lia. Qed.

(* a listing whose list is not longer than its base has its ratio in range *)
Lemma listing_range : forall meth nm l base parent level z,
  (List.length l <= List.length base)%nat ->
  me_ratio (listing meth nm l base parent level) = Some z -> (0 <= z <= 10000)%Z.
Proof.
  intros meth nm l base parent level z Hle H. rewrite listing_ratio in H. inversion H.
  apply get_ratio_range; [unfold zlen; lia|right; reflexivity].
Qed.

Lemma len_names_filter : forall (p : feature -> bool) l,
  (List.length (map name (filter p l)) <= List.length (map name l))%nat.
Proof. intros p l. rewrite !map_length. apply filter_length_le'. Qed.

Lemma len_names_filter_and : forall (p q : feature -> bool) l,
  (List.length (map name (filter (fun f => p f && q f) l)) <= List.length (map name (filter p l)))%nat.
Proof.
  intros p q l. rewrite !map_length. apply filter_length_impl.
  intros x _ H. apply andb_prop in H. apply H.
Qed.

Lemma len_names_filter_impl : forall (p q : feature -> bool) l,
  (forall f, p f = true -> q f = true) ->
  (List.length (map name (filter p l)) <= List.length (map name (filter q l)))%nat.
Proof. intros p q l H. rewrite !map_length. apply filter_length_impl. intros x _. apply H. Qed.

Lemma fctx_length : forall m, List.length (fctx m) = List.length (fnames m).
Proof.
  intros m. unfold fnames, feats, fctx. rewrite <- get_features_ctx_snd, !map_length. reflexivity.
Qed.

Lemma len_ctx_filter : forall m (p : option feature * feature -> bool),
  (List.length (map (fun x => name (snd x)) (filter p (fctx m))) <= List.length (fnames m))%nat.
Proof. intros m p. rewrite map_length, <- fctx_length. apply filter_length_le'. Qed.

Lemma len_ctx_listing_solitary : forall m (p : option feature -> feature -> bool),
  (forall x, In x (fctx m) -> p (fst x) (snd x) = true -> sol_pred x = true) ->
  (List.length (map name (filter_ctx p m)) <= List.length (solitary_names m))%nat.
Proof.
  intros m p H. unfold filter_ctx. rewrite solitary_names_full, !map_length.
  apply (filter_length_impl (fun x => p (fst x) (snd x)) sol_pred (fctx m) H).
Qed.

(* top features: the children of the root are among the children of all relations *)
Lemma len_children_subrelations : forall f,
  (List.length (children f) <= List.length (flat_map r_children (subrelations f)))%nat.
Proof.
  intros [i rs]. unfold children. cbn [rels subrelations].
  induction rs as [|r rs IH]; [apply le_n|].
  destruct r as [a b cs].
  change (flat_map r_children (Relation a b cs :: rs))
    with (cs ++ flat_map r_children rs).
  change (flat_map (fun r => match r with Relation _ _ cs0 => r :: flat_map subrelations cs0 end)
                   (Relation a b cs :: rs))
    with ((Relation a b cs :: flat_map subrelations cs)
            ++ flat_map (fun r => match r with Relation _ _ cs0 => r :: flat_map subrelations cs0 end) rs).
  rewrite flat_map_app'.
  change (flat_map r_children (Relation a b cs :: flat_map subrelations cs))
    with (cs ++ flat_map r_children (flat_map subrelations cs)).
  rewrite !app_length. lia.
Qed.

Lemma len_top : forall m,
  (List.length (map name (children (root m))) <= List.length (fnames m))%nat.
Proof.
  intros m. unfold fnames, feats, get_features, get_relations. rewrite !map_length.
  cbn [List.length]. pose proof (len_children_subrelations (root m)). lia.
Qed.

(* feature groups: every feature that has a group relation has a relation, and every relation of the
   tree belongs to one feature *)
Lemma rels_total : forall f,
  list_sum (map (fun g => List.length (rels g)) (subfeatures f)) = List.length (subrelations f).
Proof.
  apply (feature_ind2
           (fun f => list_sum (map (fun g => List.length (rels g)) (subfeatures f))
                     = List.length (subrelations f))
           (fun r => list_sum (map (fun g => List.length (rels g))
                                   (flat_map subfeatures (r_children r)))
                     = List.length (flat_map subrelations (r_children r)))).
  - intros i rs IH. cbn [subfeatures subrelations map rels]. rewrite list_sum_cons.
    induction IH as [|r rs' Hr _ IHrs]; [reflexivity|].
    destruct r as [a b cs]. cbn [r_children] in Hr.
    cbn [flat_map List.length]. rewrite map_app, list_sum_app, !app_length, Hr.
    cbn [List.length]. lia.
  - intros a b cs IH. cbn [r_children].
    induction IH as [|c cs' Hc _ IHcs]; [reflexivity|].
    cbn [flat_map]. rewrite map_app, list_sum_app, app_length, Hc, IHcs. reflexivity.
Qed.

Lemma list_sum_perm : forall l l', Permutation l l' -> list_sum l = list_sum l'.
Proof.
  induction 1 as [|x l l' _ IH|x y l|l l' l'' _ IH1 _ IH2].
  - reflexivity.
  - rewrite !list_sum_cons, IH. reflexivity.
  - rewrite !list_sum_cons. lia.
  - congruence.
Qed.

Lemma filter_le_sum : forall (p : feature -> bool) (w : feature -> nat) l,
  (forall f, p f = true -> (1 <= w f)%nat) ->
  (List.length (filter p l) <= list_sum (map w l))%nat.
Proof.
  intros p w l H. induction l as [|x l IH]; [apply le_n|].
  cbn [filter map]. rewrite list_sum_cons. destruct (p x) eqn:Px.
  - pose proof (H x Px). cbn [List.length]. lia.
  - lia.
Qed.

Lemma group_has_relation : forall f, is_group_feature f = true -> (1 <= List.length (rels f))%nat.
Proof.
  intros f H. unfold is_group_feature, feat_is_group, feat_is_cardinality_group in H.
  destruct (rels f) as [|r rs]; [discriminate H|].
  cbn [List.length]. lia.
Qed.

Lemma len_groups : forall m,
  (List.length (group_names m) <= List.length (map (fun _ => ""%string) (get_relations m)))%nat.
Proof.
  intros m. unfold group_names, feats, get_relations. rewrite !map_length.
  rewrite <- rels_total.
  rewrite <- (list_sum_perm _ _ (Permutation_map (fun g => List.length (rels g)) (get_features_perm m))).
  apply filter_le_sum. exact group_has_relation.
Qed.

Lemma existsb_impl {A} (p q : A -> bool) l :
  (forall x, p x = true -> q x = true) -> existsb p l = true -> existsb q l = true.
Proof.
  intros H E. apply existsb_exists in E. destruct E as (x & Hx & Px).
  apply existsb_exists. exists x. split; [exact Hx|apply H, Px].
Qed.

Lemma group_feature_l : forall f, feat_is_group f = true -> is_group_feature f = true.
Proof. intros f H. unfold is_group_feature. rewrite H. reflexivity. Qed.

Lemma alternative_is_group : forall f, feat_is_alternative_group f = true -> is_group_feature f = true.
Proof.
  intros f H. apply group_feature_l. revert H. apply existsb_impl. intros r H.
  unfold rel_is_alternative in H. apply andb_prop in H. apply H.
Qed.
Lemma or_is_group : forall f, feat_is_or_group f = true -> is_group_feature f = true.
Proof.
  intros f H. apply group_feature_l. revert H. apply existsb_impl. intros r H.
  unfold rel_is_or in H. apply andb_prop in H. apply H.
Qed.
Lemma mutex_is_group : forall f, feat_is_mutex_group f = true -> is_group_feature f = true.
Proof.
  intros f H. apply group_feature_l. revert H. apply existsb_impl. intros r H.
  unfold rel_is_mutex in H. apply andb_prop in H. apply H.
Qed.
(* "Feature groups" lists the owners of a group relation of any class (FMMetrics._is_group_feature),
   so the cardinality groups are a sub-listing: a single-child [0,0] relation is "cardinal" *)
Lemma cardinality_is_group : forall f, feat_is_cardinality_group f = true -> is_group_feature f = true.
Proof. intros f H. unfold is_group_feature. rewrite H. apply orb_true_r. Qed.

(* features in constraints: a duplicate-free list of names; inside the feature names when the
   constraints only mention features of the model *)
Definition ctc_names (m : fm) : list string :=
  fold_left (fun acc c => fold_left (fun a s => add_once s a) (ctc_features (c_ast c)) acc)
            (ctcs m) [].

Definition ctcs_closed (m : fm) : Prop :=
  Forall (fun c => incl (ctc_features (c_ast c)) (fnames m)) (ctcs m).

Lemma add_once_fold : forall (P : string -> Prop) ss acc,
  NoDup acc -> Forall P acc -> Forall P ss ->
  NoDup (fold_left (fun a s => add_once s a) ss acc)
  /\ Forall P (fold_left (fun a s => add_once s a) ss acc).
Proof.
  intros P ss. induction ss as [|s ss IH]; intros acc Hnd Hacc Hss; [split; assumption|].
  cbn [fold_left]. inversion Hss as [|s' ss' Ps Pss]; subst.
  destruct (add_once_spec s acc Hnd) as [Hnd' Hin].
  apply IH; [exact Hnd'| |exact Pss].
  apply Forall_forall. intros x Hx. apply Hin in Hx. destruct Hx as [Hx| ->]; [|exact Ps].
  rewrite Forall_forall in Hacc. apply Hacc, Hx.
Qed.

Lemma ctc_names_spec : forall m, ctcs_closed m ->
  NoDup (ctc_names m) /\ incl (ctc_names m) (fnames m).
Proof.
  intros m H. unfold ctc_names, ctcs_closed in *.
  assert (G : forall cs acc, Forall (fun c => incl (ctc_features (c_ast c)) (fnames m)) cs ->
              NoDup acc -> Forall (fun s => In s (fnames m)) acc ->
              let r := fold_left (fun acc c => fold_left (fun a s => add_once s a)
                                                         (ctc_features (c_ast c)) acc) cs acc in
              NoDup r /\ Forall (fun s => In s (fnames m)) r).
  { induction cs as [|c cs IH]; intros acc Hcs Hnd Hacc; [split; assumption|].
    cbn [fold_left]. inversion Hcs as [|c' cs' Hc Hcs']; subst.
    destruct (add_once_fold (fun s => In s (fnames m)) (ctc_features (c_ast c)) acc Hnd Hacc)
      as [Hnd' Hacc'].
    { apply Forall_forall. exact Hc. }
    apply IH; assumption. }
  destruct (G (ctcs m) [] H (NoDup_nil _) (Forall_nil _)) as [Hnd Hin].
  split; [exact Hnd|]. intros s Hs. rewrite Forall_forall in Hin. apply Hin, Hs.
Qed.

Lemma len_ctc_names : forall m, ctcs_closed m ->
  (List.length (ctc_names m) <= List.length (fnames m))%nat.
Proof. intros m H. destruct (ctc_names_spec m H) as [Hnd Hin]. apply NoDup_incl_length; assumption. Qed.

(* the metric keeps only the names of features (fm_metrics.extra_constraint_representativeness filters by
   _features_by_name): duplicate-free and inside the feature names WHATEVER the constraints mention *)
Lemma ctc_names_nodup : forall m, NoDup (ctc_names m).
Proof.
  intros m. unfold ctc_names.
  assert (G : forall cs acc, NoDup acc ->
              NoDup (fold_left (fun acc c => fold_left (fun a s => add_once s a) (ctc_features (c_ast c)) acc) cs acc)).
  { induction cs as [|c cs IH]; intros acc Hnd; [exact Hnd|]. cbn [fold_left]. apply IH.
    destruct (add_once_fold (fun _ => True) (ctc_features (c_ast c)) acc Hnd) as [Hnd' _];
      [apply Forall_forall; intros; exact I | apply Forall_forall; intros; exact I | exact Hnd']. }
  apply G. constructor.
Qed.

Lemma list_existsb_eq_In17 : forall s l, list_existsb_eq s l = true -> In s l.
Proof.
  intros s l. induction l as [|x xs IH]; cbn [list_existsb_eq]; [discriminate|].
  intros H. apply orb_prop in H. destruct H as [H|H]; [left; symmetry; apply String.eqb_eq, H|right; apply IH, H].
Qed.

Lemma len_ctc_names_filtered : forall m,
  (List.length (filter (fun s => list_existsb_eq s (fnames m)) (ctc_names m)) <= List.length (fnames m))%nat.
Proof.
  intros m. apply NoDup_incl_length.
  - apply NoDup_filter, ctc_names_nodup.
  - intros s Hs. apply filter_In in Hs. destruct Hs as [_ Hs]. apply list_existsb_eq_In17, Hs.
Qed.

Lemma fnames_nonempty : forall m, (1 <= List.length (fnames m))%nat.
Proof. intros m. unfold fnames, feats, get_features. cbn [map List.length]. lia. Qed.

(* constraint listings *)
Lemma ctc_strs_length : forall m l, List.length (ctc_strs m l) = List.length l.
Proof. intros m l. unfold ctc_strs. apply map_length. Qed.

Lemma ctc_entry_range : forall m meth nm l base parent level e z,
  ctc_listing_entry m meth nm l base parent level = Ok e ->
  (forall li bi, l = Ok li -> base = Ok bi -> (List.length li <= List.length bi)%nat) ->
  me_ratio e = Some z -> (0 <= z <= 10000)%Z.
Proof.
  intros m meth nm l base parent level e z H Hle Hr.
  apply ctc_listing_entry_inv in H. destruct H as (li & bi & El & Eb & ->).
  apply listing_range in Hr; [exact Hr|].
  rewrite ctc_strs_length, map_length. apply (Hle li bi El Eb).
Qed.

Lemma len_ctc_all : forall (p : node -> result bool) m li bi,
  ctc_listing p m = Ok li -> all_ctc_idx m = Ok bi -> (List.length li <= List.length bi)%nat.
Proof.
  intros p m li bi H Hb. unfold all_ctc_idx in Hb. inversion Hb. rewrite seq_length.
  unfold ctc_listing in H. rewrite filterM_idx_fmi in H. apply (fmi_length _ _ _ _ H).
Qed.

Lemma len_ctc_impl : forall (p1 p2 : node -> result bool) m,
  (forall n b2, p1 n = Ok true -> p2 n = Ok b2 -> b2 = true) ->
  forall li bi, ctc_listing p1 m = Ok li -> ctc_listing p2 m = Ok bi ->
  (List.length li <= List.length bi)%nat.
Proof. intros p1 p2 m H li bi H1 H2. apply (ctc_listing_incl p1 p2 m li bi H H1 H2). Qed.

Lemma Some_inj : forall {A} (a b : A), Some a = Some b -> a = b.
Proof. intros A a b H. inversion H. reflexivity. Qed.

Lemma Ok_inj : forall {A} (a b : A), Ok a = Ok b -> a = b.
Proof. intros A a b H. inversion H. reflexivity. Qed.

(* per metric: which hypothesis each ratio needs *)
Theorem metric_ratio_in_range : forall m meth e z,
  (meth = "mandatory_features"%string \/ meth = "optional_features"%string -> wf_names (root m) = true) ->
  metric m meth = Ok e -> me_ratio e = Some z -> (0 <= z <= 10000)%Z.
Proof.
  intros m meth e z Hwf.
  assert (L : forall nm l base parent level z,
            (List.length l <= List.length base)%nat ->
            me_ratio (listing meth nm l base parent level) = Some z -> (0 <= z <= 10000)%Z)
    by (intros; eapply listing_range; eassumption).
  assert (C : forall nm l base parent level z,
            (forall li bi, l = Ok li -> base = Ok bi -> (List.length li <= List.length bi)%nat) ->
            ctc_listing_entry m meth nm l base parent level = Ok e ->
            me_ratio e = Some z -> (0 <= z <= 10000)%Z)
    by (intros; eapply ctc_entry_range; eassumption).
  metric_cases meth
    ltac:(intros Hm;
          first [ apply Ok_inj in Hm; subst e; intros Hr;
                  first [ discriminate Hr
                        | revert Hr; apply L;
                          first [ apply len_names_filter
                                | apply len_names_filter_and
                                | apply len_top
                                | apply len_ctx_filter
                                | apply len_groups
                                | apply len_names_filter_impl; first [ exact alternative_is_group
                                                                     | exact or_is_group
                                                                     | exact mutex_is_group
                                                                     | exact cardinality_is_group ]
                                | apply len_ctx_listing_solitary; intros x Hx;
                                  first [ apply (mandatory_sol_pred m) | apply (optional_sol_pred m) ];
                                  [ apply Hwf; auto | exact Hx ] ] ]
                | revert Hm; apply C;
                  first [ apply len_ctc_all
                        | apply len_ctc_impl;
                          first [ exact requires_true_simple | exact excludes_true_simple
                                | exact pseudo_true_complex | exact strict_true_complex ] ]
                | idtac ]).
  3: { intros Hm. discriminate Hm. }
  - (* root_feature *)
    apply Ok_inj in Hm. subst e. unfold mk. cbn [me_ratio]. intros Hr. apply Some_inj in Hr. subst z.
    apply get_ratio_range; [|right; reflexivity].
    pose proof (fnames_nonempty m). unfold zlen. lia.
  - (* extra_constraint_representativeness *)
    apply Ok_inj in Hm. subst e. unfold mk. cbn [me_ratio]. intros Hr. apply Some_inj in Hr. subst z.
    apply get_ratio_range; [|left; reflexivity].
    pose proof (len_ctc_names_filtered m) as Hl. unfold ctc_names in Hl. unfold zlen. lia.
Qed.

(* the whole report.
   The statement of the task,
     forall m r e z, wf (root m) = true -> report m None = Ok r -> In e r -> me_ratio e = Some z ->
                     (0 <= z <= 10000)%Z,
   is FALSE (see [ratio_counterexample_names] below): the constraints may mention names that are
   not features.  (The second defect found here, cardinality groups that were not feature groups
   -- model [ce_card] -- was fixed in the code: "Feature groups" uses [is_group_feature].)
   With the explicit hypothesis: *)
Theorem report_ratios_in_range_full : forall m r e z, wf (root m) = true ->
  report m None = Ok r -> In e r -> me_ratio e = Some z -> (0 <= z <= 10000)%Z.
Proof.
  intros m r e z Hwf Hr Hin Hz. unfold report in Hr. apply mapM_Forall2 in Hr.
  assert (Hex : exists meth, metric m meth = Ok e).
  { clear -Hr Hin. induction Hr as [|x y xs ys Hxy _ IH]; [contradiction|].
    destruct Hin as [<-|Hin]; [exists x; exact Hxy|apply IH, Hin]. }
  destruct Hex as [meth Hm].
  apply (metric_ratio_in_range m meth e z); auto.
  intros _. apply wf_wf_names, Hwf.
Qed.

(* without any hypothesis on the model: every ratio except those two and mandatory / optional *)
Theorem report_ratios_in_range_unconditional : forall m r e z,
  report m None = Ok r -> In e r -> me_ratio e = Some z ->
  ~ In (me_method e) ["mandatory_features"; "optional_features";
                      "extra_constraint_representativeness"]%string ->
  (0 <= z <= 10000)%Z.
Proof.
  intros m r e z Hr Hin Hz Hnot. unfold report in Hr. apply mapM_Forall2 in Hr.
  assert (Hex : exists meth, metric m meth = Ok e).
  { clear -Hr Hin. induction Hr as [|x y xs ys Hxy _ IH]; [contradiction|].
    destruct Hin as [<-|Hin]; [exists x; exact Hxy|apply IH, Hin]. }
  destruct Hex as [meth Hm].
  rewrite (metric_method_name m meth e Hm) in Hnot. cbn [In] in Hnot.
  apply (metric_ratio_in_range m meth e z); auto.
  intros [H|H]; exfalso; apply Hnot; subst meth; auto 8.
Qed.


(* ------------------------------------------------------------------ counterexamples and a witness *)

Definition entry_of (r : list entry) (meth : string) : option entry :=
  find (fun e => String.eqb (me_method e) meth) r.
Definition names_of (r : list entry) (meth : string) : list string :=
  match entry_of r meth with
  | Some e => match me_result e with MNames l => l | _ => [] end
  | None => []
  end.
Definition ratio_of (r : list entry) (meth : string) : option Z :=
  match entry_of r meth with Some e => me_ratio e | None => None end.
Definition report_ratio (m : fm) (meth : string) : option Z :=
  match report m None with Ok r => ratio_of r meth | Err _ => None end.

(* a well-formed model with two [0,0] single-child relations and one or-group: two "cardinality
   groups"; before the fix of [group_names] they were counted against ONE "feature group" (ratio
   2.0); now the three owners R, A, B are feature groups and the ratio is 2/3 *)
Definition ce_card : fm :=
  {| root := Feature (mk_info "R")
               [Relation 0 0
                  [Feature (mk_info "A")
                     [Relation 0 0
                        [Feature (mk_info "B") [Relation 1 2 [leaf "C"; leaf "D"]]]]]];
     ctcs := [] |}.

(* a well-formed one-feature model with a constraint over two names that are not features *)
Definition ce_names : fm :=
  {| root := leaf "R"; ctcs := [{| c_name := "c"; c_ast := bin REQUIRES (term "A") (term "B") |}] |}.

Lemma report_ratio_witness : forall m meth z, report_ratio m meth = Some z ->
  exists r e, report m None = Ok r /\ In e r /\ me_ratio e = Some z.
Proof.
  intros m meth z H. unfold report_ratio in H.
  destruct (report m None) as [r|x]; [|discriminate H]. unfold ratio_of, entry_of in H.
  destruct (find (fun e => String.eqb (me_method e) meth) r) as [e|] eqn:F; [|discriminate H].
  apply find_some in F. exists r, e. split; [reflexivity|]. split; [apply F|exact H].
Qed.

Example ce_card_fixed :
  wf (root ce_card) = true /\
  (exists r, report ce_card None = Ok r /\
             names_of r "feature_groups" = ["R"; "A"; "B"]%string /\
             names_of r "cardinality_groups" = ["R"; "A"]%string) /\
  report_ratio ce_card "cardinality_groups" = Some 6667%Z /\
  report_ratio ce_card "feature_groups" = Some 10000%Z.
Proof.
  split; [vm_compute; reflexivity|]. split; [|split; vm_compute; reflexivity].
  destruct (report ce_card None) as [r|x] eqn:E; vm_compute in E; [|discriminate E].
  exists r. apply Ok_inj in E. subst r. split; [reflexivity|]. split; vm_compute; reflexivity.
Qed.

(* the former counterexample (a constraint naming something that is not a feature gave the ratio 2.0) is
   gone since fm_metrics filters the names by the model's features *)
Example ce_names_now_in_range :
  wf (root ce_names) = true /\ report_ratio ce_names "extra_constraint_representativeness" = Some 0%Z.
Proof. split; vm_compute; reflexivity. Qed.

Theorem report_ratios_in_range : forall m r e z, wf (root m) = true ->
  ctcs_closed m ->
  report m None = Ok r -> In e r -> me_ratio e = Some z -> (0 <= z <= 10000)%Z.
Proof. intros m r e z Hwf _. apply report_ratios_in_range_full, Hwf. Qed.

(* a witness: 7 features, a mandatory child next to an or-group under the root, two constraints *)
Definition ex_model : fm :=
  {| root := Feature (mk_info "R")
               [Relation 1 1 [Feature (mk_info "A")
                                [Relation 0 1 [Feature (mk_info "E") [Relation 1 1 [leaf "F"]]]]];
                Relation 1 3 [leaf "B"; leaf "C"; leaf "D"]];
     ctcs := [{| c_name := "c1"; c_ast := bin REQUIRES (term "B") (term "C") |};
              {| c_name := "c2"; c_ast := bin OR (term "D") (bin AND (term "E") (term "F")) |}] |}.

Example ex_model_hypotheses :
  wf (root ex_model) = true /\ ctcs_closed ex_model /\
  Forall (fun c => node_wf (c_ast c) = true /\ exists parts, split_asts (c_ast c) = Ok parts)
         (ctcs ex_model).
Proof.
  split; [vm_compute; reflexivity|]. split.
  - unfold ctcs_closed. apply Forall_forall. intros c Hc s Hs.
    apply list_existsb_eq_In. revert s Hs. apply Forall_forall. revert c Hc. apply Forall_forall.
    vm_compute. repeat constructor.
  - repeat (constructor; [split; [vm_compute; reflexivity|eexists; vm_compute; reflexivity]|]).
    constructor.
Qed.

Example ex_report : exists r,
  report ex_model None = Ok r /\ List.length r = 40 /\
  names_of r "mandatory_features" = ["A"; "F"]%string /\
  names_of r "solitary_features" = ["A"; "E"; "F"]%string /\
  incl (names_of r "mandatory_features") (names_of r "solitary_features") /\
  ratio_of r "mandatory_features" = Some 6667%Z.
Proof.
  destruct (report ex_model None) as [r|x] eqn:E; vm_compute in E; [|discriminate E].
  exists r. apply Ok_inj in E. subst r. split; [reflexivity|].
  split; [vm_compute; reflexivity|]. split; [vm_compute; reflexivity|].
  split; [vm_compute; reflexivity|]. split; [|vm_compute; reflexivity].
  intros s Hs. apply list_existsb_eq_In. revert s Hs. apply Forall_forall.
  vm_compute. repeat constructor.
Qed.

(* ------------------------------------------------------------------ assumptions *)
Print Assumptions metric_method_name.
Print Assumptions report_names.
Print Assumptions metric_methods_nodup.
Print Assumptions report_filter.
Print Assumptions metrics_history.
Print Assumptions entry_size.
Print Assumptions listing_ratio.
Print Assumptions pyround_div_bound_tight_nd.
Print Assumptions get_ratio_range.
Print Assumptions abstract_concrete_split.
Print Assumptions leaf_compound_split.
Print Assumptions solitary_grouped_split.
Print Assumptions mandatory_inside_solitary.
Print Assumptions optional_inside_solitary.
Print Assumptions requires_excludes_split_simple.
Print Assumptions simple_complex_split_logical.
Print Assumptions pseudo_strict_inside_complex_listing.
Print Assumptions branching_factor_is_operation.
Print Assumptions max_depth_is_operation.
Print Assumptions leaf_features_is_operation.
Print Assumptions split_asts_WF.
Print Assumptions report_total.
Print Assumptions metric_ratio_in_range.
Print Assumptions report_ratios_in_range.
Print Assumptions report_ratios_in_range_unconditional.
Print Assumptions ce_card_fixed.
Print Assumptions report_ratios_in_range_full.
Print Assumptions ce_names_now_in_range.
Print Assumptions ex_model_hypotheses.
Print Assumptions ex_report.
