(* Proofs/SrcTieC16.v — C16 stated about the TRANSLATED SOURCE of the tree-shape operations
   (Gen/Src_ops.v, Gen/Src_opobj.v). *)
From Coq Require Import List Bool String ZArith Permutation Lia.
From FM Require Import Base.Result Base.PyFloat Model.FM Model.Queries Model.Ops Model.PyRt Model.Loc
     Gen.Src_fm Gen.Src_ops Gen.Src_opobj Proofs.C16Facts Proofs.SrcFmFacts Proofs.SrcTreeOpsFacts Proofs.SrcVpFacts.
Import ListNotations.
Local Open Scope list_scope.

Lemma source_count_leafs : forall m fuel, (fuel_tree (root m) <= fuel)%nat ->
  py_count_leaf_features fuel m = Ok (Z.of_nat (List.length (spec_leaves (root m)))).
Proof. intros m fuel Hf. rewrite src_count_leaf_features by exact Hf. now rewrite count_leafs_spec. Qed.

Lemma source_leaves : forall m fuel, (fuel_tree (root m) <= fuel)%nat ->
  exists l, py_get_leaf_features fuel m = Ok l /\ Permutation (map fst l) (spec_leaves (root m)).
Proof.
  intros m fuel Hf. destruct (src_get_leaf_features m fuel Hf) as (l & Hl & He).
  exists l. split; [exact Hl|]. rewrite He. apply leaves_perm.
Qed.

Lemma source_max_depth : forall m fuel, (fuel_tree (root m) <= fuel)%nat -> rels_nonempty (root m) ->
  py_max_depth_tree fuel m = Ok (Z.of_nat (depth (root m))).
Proof. intros m fuel Hf Hn. rewrite src_max_depth_tree by assumption. now rewrite max_depth_spec. Qed.

(* ancestors of a feature object whose parent chain is anc: the chain itself, nearest first *)
Lemma source_ancestors : forall f anc fuel, (List.length anc < fuel)%nat ->
  exists l, py_get_feature_ancestors fuel (f, anc) = Ok l /\ map fst l = anc.
Proof.
  intros f anc fuel Hf. exists (loc_ancestors anc). split.
  - now apply src_get_feature_ancestors.
  - clear. induction anc as [|p a IH]; cbn; [reflexivity|]. now rewrite IH.
Qed.

Lemma source_abf : forall m fuel, (fuel_tree (root m) <= fuel)%nat ->
  py_average_branching_factor fuel m 2%Z = Ok (average_branching_factor m).
Proof. exact src_average_branching_factor. Qed.

Lemma source_variation_points : forall m fuel f vs, (fuel_tree (root m) <= fuel)%nat -> NoDup (names (root m)) ->
  exists l, py_variation_points fuel m = Ok l /\
    (In (f, vs) (map (fun kv => (fst (fst kv), map fst (snd kv))) l)
     <-> (In f (subfeatures (root m)) /\ vs = variants f /\ vs <> [])).
Proof.
  intros m fuel f vs Hf Hn. destruct (src_variation_points m fuel Hf Hn) as (l & Hl & Hp).
  exists l. split; [exact Hl|]. rewrite <- variation_points_spec. split; intro H.
  - eapply Permutation_in; [exact Hp|exact H].
  - eapply Permutation_in; [symmetry; exact Hp|exact H].
Qed.

(* the operation objects, in any state *)
Lemma src_obj_count_leafs : forall fuel s m,
  rmap py_FMCountLeafs_get_result (py_FMCountLeafs_execute fuel s m) = py_count_leaf_features fuel m.
Proof. intros fuel s m. unfold py_FMCountLeafs_execute. cbn. destruct (py_count_leaf_features fuel m); reflexivity. Qed.
Lemma src_obj_leaf_features : forall fuel s m,
  rmap py_FMLeafFeatures_get_result (py_FMLeafFeatures_execute fuel s m) = py_get_leaf_features fuel m.
Proof. intros fuel s m. unfold py_FMLeafFeatures_execute. cbn. destruct (py_get_leaf_features fuel m); reflexivity. Qed.
Lemma src_obj_max_depth : forall fuel s m,
  rmap py_FMMaxDepthTree_get_result (py_FMMaxDepthTree_execute fuel s m) = py_max_depth_tree fuel m.
Proof. intros fuel s m. unfold py_FMMaxDepthTree_execute. cbn. destruct (py_max_depth_tree fuel m); reflexivity. Qed.
Lemma src_obj_abf : forall fuel s m,
  rmap py_FMAverageBranchingFactor_get_result (py_FMAverageBranchingFactor_execute fuel s m)
  = py_average_branching_factor fuel m 2%Z.
Proof.
  intros fuel s m. unfold py_FMAverageBranchingFactor_execute. cbn.
  destruct (py_average_branching_factor fuel m 2%Z); reflexivity.
Qed.
Lemma src_obj_variation_points : forall fuel s m,
  rmap py_FMVariationPoints_get_result (py_FMVariationPoints_execute fuel s m) = py_variation_points fuel m.
Proof. intros fuel s m. unfold py_FMVariationPoints_execute. cbn. destruct (py_variation_points fuel m); reflexivity. Qed.
Lemma src_obj_ancestors : forall fuel s x m,
  rmap py_FMFeatureAncestors_get_result
       (py_FMFeatureAncestors_execute fuel (py_FMFeatureAncestors_set_feature s x) m)
  = py_get_feature_ancestors fuel x.
Proof.
  intros fuel s x m. unfold py_FMFeatureAncestors_execute, py_FMFeatureAncestors_set_feature. cbn.
  destruct (py_get_feature_ancestors fuel x); reflexivity.
Qed.

(* total on every well-formed model, the root-only model included *)
Lemma source_tree_ops_total : forall m fuel, (fuel_tree (root m) <= fuel)%nat -> rels_nonempty (root m) ->
  (exists v, py_count_leaf_features fuel m = Ok v) /\ (exists v, py_get_leaf_features fuel m = Ok v) /\
  (exists v, py_max_depth_tree fuel m = Ok v) /\ (exists v, py_average_branching_factor fuel m 2%Z = Ok v).
Proof.
  intros m fuel Hf Hn. repeat split.
  - eexists. now apply src_count_leaf_features.
  - destruct (src_get_leaf_features m fuel Hf) as (l & Hl & _). now exists l.
  - eexists. now apply src_max_depth_tree.
  - eexists. now apply src_average_branching_factor.
Qed.
