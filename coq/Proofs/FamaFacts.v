(* Proofs/FamaFacts.v — FaMa XML reader: every accepted document yields well-formed pointers and
   shape-correct constraints (C02). *)
From Coq Require Import List Bool Ascii String ZArith Lia.
From FM Require Import Base.Result Base.Str Base.AstOp Model.Ast Model.FM Model.PFM Model.Queries
     Gen.Tables_fide Format.Xml Proofs.FideFacts.
Import ListNotations.
Local Open Scope list_scope.

(* ------------------------------------------------------------------ the reader, un-nested *)
Definition fama_gor (child_tag : string) (here : path) (k : nat)
  : nat -> list xml -> Z -> Z -> list string -> result (list pfeature * Z * Z * list string) :=
  fix gor (j : nat) (items : list xml) (mn mx : Z) (seen : list string)
    : result (list pfeature * Z * Z * list string) :=
    match items with
    | [] => Ok ([], mn, mx, seen)
    | it :: its =>
        if tag_is child_tag it then
          match fama_parse_feature it (here ++ [(k, j)]) (PPath here) seen with
          | Err e => Err e
          | Ok (pc, seen') =>
              match gor (S j) its mn mx seen' with
              | Err e => Err e
              | Ok (pcs, a, b, s2) => Ok (pc :: pcs, a, b, s2)
              end
          end
        else if tag_is "cardinality" it then
          match xint "min" it with Err e => Err e | Ok a =>
          match xint "max" it with Err e => Err e | Ok b =>
            gor j its a b seen end end
        else gor j its mn mx seen
    end.

Definition fama_go (here : path)
  : nat -> list xml -> list string -> result (list prelation * list string) :=
  fix go (k : nat) (kids : list xml) (seen : list string) : result (list prelation * list string) :=
    match kids with
    | [] => Ok ([], seen)
    | rel :: rest =>
        let is_bin := tag_is "binaryrelation" rel in
        let is_set := tag_is "setrelation" rel in
        if is_bin || is_set then
          let child_tag := if is_bin then "solitaryfeature" else "groupedfeature" in
          match fama_gor child_tag here k 0%nat (x_children rel) 0%Z 0%Z seen with
          | Err e => Err e
          | Ok ([], _, _, _) => Err FlamaException
          | Ok ((_ :: _) as cs, a, b, seen') =>
              match go (S k) rest seen' with
              | Err e => Err e
              | Ok (prs, s3) => Ok (PRelation (PPath here) a b cs :: prs, s3)
              end
          end
        else go k rest seen
    end%string.

Lemma fama_parse_feature_eq : forall t attrs tx kids here parent seen,
  fama_parse_feature (Elem t attrs tx kids) here parent seen =
  let nm := match sassoc "name" attrs with Some s => s | None => "None"%string end in
  if list_existsb_eq nm seen then Err DuplicatedFeature
  else match fama_go here 0%nat kids (nm :: seen) with
       | Err e => Err e
       | Ok (prs, seen') => Ok (PFeature (mk_info nm) parent [] prs, seen')
       end.
Proof. reflexivity. Qed.

Fixpoint fama_doc (kids : list xml) (cur : option (pfeature * list ctc)) (seen : list string)
  : result pfm :=
  match kids with
  | [] => match cur with
          | Some (r, cs) => Ok {| proot := r; pctcs := cs |}
          | None => Err UnboundLocalError
          end
  | k :: rest =>
      if tag_is "feature" k then
        match fama_parse_feature k [] PNone seen with
        | Err e => Err e
        | Ok (r, seen') => fama_doc rest (Some (r, [])) seen'
        end
      else if tag_is "excludes" k || tag_is "requires" k then
        match fama_parse_ctc k seen with
        | Err e => Err e
        | Ok c => match cur with
                  | Some (r, cs) => fama_doc rest (Some (r, cs ++ [c])) seen
                  | None => Err UnboundLocalError
                  end
        end
      else fama_doc rest cur seen
  end.

Lemma fama_read_eq : forall doc, fama_read doc = fama_doc (x_children doc) None [].
Proof. reflexivity. Qed.

(* ------------------------------------------------------------------ pointers *)
Definition fama_wf_stmt (x : xml) : Prop :=
  forall here parent seen pf seen',
    fama_parse_feature x here parent seen = Ok (pf, seen') -> ptr_wf_at here parent pf = true.

Lemma fama_gor_wf : forall ct here k items,
  Forall fama_wf_stmt items ->
  forall j mn mx seen pcs a b s,
    fama_gor ct here k j items mn mx seen = Ok (pcs, a, b, s) -> wf_goc here k j pcs = true.
Proof.
  intros ct here k items HF. induction HF as [|it its Hit _ IH]; intros j mn mx seen pcs a b s H.
  - cbn in H. injection H as <- _ _ _. reflexivity.
  - cbn [fama_gor] in H. destruct (tag_is ct it).
    + destruct (fama_parse_feature it (here ++ [(k, j)]) (PPath here) seen) as [[pc seen1]|e] eqn:Hp;
        [|discriminate].
      destruct (fama_gor ct here k (S j) its mn mx seen1) as [[[[pcs' a'] b'] s2]|e] eqn:Hg;
        [|discriminate].
      injection H as <- _ _ _. cbn [wf_goc]. rewrite (Hit _ _ _ _ _ Hp). cbn [andb]. eauto.
    + destruct (tag_is "cardinality" it).
      * destruct (xint "min" it) as [a0|e]; [|discriminate].
        destruct (xint "max" it) as [b0|e]; [|discriminate]. eauto.
      * eauto.
Qed.

Lemma fama_go_wf : forall here kids,
  Forall (fun rel => Forall fama_wf_stmt (x_children rel)) kids ->
  forall k seen prs s, fama_go here k kids seen = Ok (prs, s) -> wf_go here k prs = true.
Proof.
  intros here kids HF. induction HF as [|rel rest Hrel _ IH]; intros k seen prs s H.
  - cbn in H. injection H as <- _. reflexivity.
  - cbn [fama_go] in H. cbv zeta in H.
    destruct (tag_is "binaryrelation" rel || tag_is "setrelation" rel); [|eauto].
    match type of H with
    | match ?g with _ => _ end = _ =>
        destruct g as [[[[[|c0 cs0] a] b] seen1]|e] eqn:Hg; [discriminate| |discriminate]
    end.
    destruct (fama_go here (S k) rest seen1) as [[prs' s3]|e] eqn:Hgo; [|discriminate].
    injection H as <- _. cbn [wf_go ptr_eqb]. rewrite path_eqb_refl.
    rewrite (fama_gor_wf _ _ _ _ Hrel _ _ _ _ _ _ _ _ Hg). cbn [andb]. eauto.
Qed.

Lemma fama_parse_feature_wf : forall x, fama_wf_stmt x /\ Forall fama_wf_stmt (x_children x).
Proof.
  induction x as [t attrs tx kids IH] using xml_ind2. cbn [x_children].
  assert (Hk : Forall fama_wf_stmt kids).
  { rewrite Forall_forall in *. intros k Hin. exact (proj1 (IH k Hin)). }
  split; [|exact Hk].
  intros here parent seen pf seen' H. rewrite fama_parse_feature_eq in H. cbv zeta in H.
  destruct (list_existsb_eq _ seen); [discriminate|].
  match type of H with
  | match ?g with _ => _ end = _ => destruct g as [[prs s1]|e] eqn:Hg; [|discriminate]
  end.
  injection H as <- _. rewrite ptr_wf_at_eq, ptr_eqb_refl. cbn.
  eapply fama_go_wf; [|exact Hg].
  rewrite Forall_forall in *. intros k Hin. exact (proj2 (IH k Hin)).
Qed.

(* ------------------------------------------------------------------ constraints *)
Lemma fama_parse_ctc_shape : forall el seen c,
  fama_parse_ctc el seen = Ok c -> node_shape_ok (c_ast c) = true.
Proof.
  intros el seen c H. unfold fama_parse_ctc in H.
  destruct (xattr "name" el) as [nm|]; [|discriminate].
  match type of H with
  | match ?X with _ => _ end = _ => destruct X as [o|]; [|discriminate]
  end.
  match type of H with
  | match ?X with _ => _ end = _ => destruct X as [[d op]|] eqn:Hd; [|discriminate]
  end.
  injection H as <-. cbn [c_ast].
  assert (Hop : astop_eqb op NOT = false).
  { destruct (tag_is "excludes" el && _) in Hd.
    - destruct (xattr "excludes" el); [|discriminate]. injection Hd as _ <-. reflexivity.
    - destruct (tag_is "requires" el && _) in Hd; [|discriminate].
      destruct (xattr "requires" el); [|discriminate]. injection Hd as _ <-. reflexivity. }
  cbn. rewrite Hop. reflexivity.
Qed.

Definition fama_inv (cur : option (pfeature * list ctc)) : Prop :=
  forall r cs, cur = Some (r, cs) ->
    ptr_wf_at [] PNone r = true /\ forallb (fun c => node_shape_ok (c_ast c)) cs = true.

Lemma fama_doc_inv : forall kids cur seen pm,
  fama_inv cur -> fama_doc kids cur seen = Ok pm ->
  ptr_wf pm = true /\ forallb (fun c => node_shape_ok (c_ast c)) (pctcs pm) = true.
Proof.
  induction kids as [|k rest IH]; intros cur seen pm Hinv H.
  - cbn in H. destruct cur as [[r cs]|]; [|discriminate]. injection H as <-.
    exact (Hinv r cs eq_refl).
  - cbn [fama_doc] in H. destruct (tag_is "feature" k).
    + destruct (fama_parse_feature k [] PNone seen) as [[r seen1]|e] eqn:Hp; [|discriminate].
      apply IH in H; [exact H|]. intros r0 cs0 Heq. injection Heq as <- <-.
      split; [|reflexivity]. exact (proj1 (fama_parse_feature_wf k) _ _ _ _ _ Hp).
    + destruct (tag_is "excludes" k || tag_is "requires" k).
      * destruct (fama_parse_ctc k seen) as [c|e] eqn:Hc; [|discriminate].
        destruct cur as [[r cs]|]; [|discriminate].
        apply IH in H; [exact H|]. intros r0 cs0 Heq. injection Heq as <- <-.
        destruct (Hinv r cs eq_refl) as [H1 H2]. split; [exact H1|].
        rewrite forallb_app, H2. cbn. rewrite (fama_parse_ctc_shape _ _ _ Hc). reflexivity.
      * eauto.
Qed.

Theorem fama_read_ptr_wf : forall x pm, fama_read x = Ok pm -> ptr_wf pm = true.
Proof.
  intros x pm H. rewrite fama_read_eq in H. eapply fama_doc_inv in H; [tauto|].
  intros r cs Heq. discriminate.
Qed.

Theorem fama_read_ctc_shape : forall x pm, fama_read x = Ok pm ->
  forallb (fun c => node_shape_ok (c_ast c)) (pctcs pm) = true.
Proof.
  intros x pm H. rewrite fama_read_eq in H. eapply fama_doc_inv in H; [tauto|].
  intros r cs Heq. discriminate.
Qed.

(* ------------------------------------------------------------------ no relation of an accepted document is empty *)
Definition fama_ne_stmt (x : xml) : Prop :=
  forall here parent seen pf seen',
    fama_parse_feature x here parent seen = Ok (pf, seen') -> rels_nonempty_p pf = true.

Lemma fama_gor_ne : forall ct here k items,
  Forall fama_ne_stmt items ->
  forall j mn mx seen pcs a b s,
    fama_gor ct here k j items mn mx seen = Ok (pcs, a, b, s) -> forallb rels_nonempty_p pcs = true.
Proof.
  intros ct here k items HF. induction HF as [|it its Hit _ IH]; intros j mn mx seen pcs a b s H.
  - cbn in H. injection H as <- _ _ _. reflexivity.
  - cbn [fama_gor] in H. destruct (tag_is ct it).
    + destruct (fama_parse_feature it (here ++ [(k, j)]) (PPath here) seen) as [[pc seen1]|e] eqn:Hp;
        [|discriminate].
      destruct (fama_gor ct here k (S j) its mn mx seen1) as [[[[pcs' a'] b'] s2]|e] eqn:Hg;
        [|discriminate].
      injection H as <- _ _ _. cbn [forallb]. rewrite (Hit _ _ _ _ _ Hp). cbn [andb]. eauto.
    + destruct (tag_is "cardinality" it).
      * destruct (xint "min" it) as [a0|e]; [|discriminate].
        destruct (xint "max" it) as [b0|e]; [|discriminate]. eauto.
      * eauto.
Qed.

Lemma fama_go_ne : forall here kids,
  Forall (fun rel => Forall fama_ne_stmt (x_children rel)) kids ->
  forall k seen prs s, fama_go here k kids seen = Ok (prs, s) ->
    forallb (fun r => negb (Nat.eqb (List.length (pr_children r)) 0)
                      && forallb rels_nonempty_p (pr_children r)) prs = true.
Proof.
  intros here kids HF. induction HF as [|rel rest Hrel _ IH]; intros k seen prs s H.
  - cbn in H. injection H as <- _. reflexivity.
  - cbn [fama_go] in H. cbv zeta in H.
    destruct (tag_is "binaryrelation" rel || tag_is "setrelation" rel); [|eauto].
    match type of H with
    | match ?g with _ => _ end = _ =>
        destruct g as [[[[[|c0 cs0] a] b] seen1]|e] eqn:Hg; [discriminate| |discriminate]
    end.
    destruct (fama_go here (S k) rest seen1) as [[prs' s3]|e] eqn:Hgo; [|discriminate].
    injection H as <- _.
    pose proof (fama_gor_ne _ _ _ _ Hrel _ _ _ _ _ _ _ _ Hg) as Hcs. cbn [forallb] in Hcs.
    cbn [forallb pr_children List.length Nat.eqb negb]. rewrite Hcs. cbn [andb]. eauto.
Qed.

Lemma fama_parse_feature_ne : forall x, fama_ne_stmt x /\ Forall fama_ne_stmt (x_children x).
Proof.
  induction x as [t attrs tx kids IH] using xml_ind2. cbn [x_children].
  assert (Hk : Forall fama_ne_stmt kids).
  { rewrite Forall_forall in *. intros k Hin. exact (proj1 (IH k Hin)). }
  split; [|exact Hk].
  intros here parent seen pf seen' H. rewrite fama_parse_feature_eq in H. cbv zeta in H.
  destruct (list_existsb_eq _ seen); [discriminate|].
  match type of H with
  | match ?g with _ => _ end = _ => destruct g as [[prs s1]|e] eqn:Hg; [|discriminate]
  end.
  injection H as <- _. rewrite rels_nonempty_p_eq.
  eapply fama_go_ne; [|exact Hg].
  rewrite Forall_forall in *. intros k Hin. exact (proj2 (IH k Hin)).
Qed.

Lemma fama_doc_ne : forall kids cur seen pm,
  (forall r cs, cur = Some (r, cs) -> rels_nonempty_p r = true) ->
  fama_doc kids cur seen = Ok pm -> rels_nonempty_p (proot pm) = true.
Proof.
  induction kids as [|k rest IH]; intros cur seen pm Hinv H.
  - cbn in H. destruct cur as [[r cs]|]; [|discriminate]. injection H as <-.
    exact (Hinv r cs eq_refl).
  - cbn [fama_doc] in H. destruct (tag_is "feature" k).
    + destruct (fama_parse_feature k [] PNone seen) as [[r seen1]|e] eqn:Hp; [|discriminate].
      apply IH in H; [exact H|]. intros r0 cs0 Heq. injection Heq as <- <-.
      exact (proj1 (fama_parse_feature_ne k) _ _ _ _ _ Hp).
    + destruct (tag_is "excludes" k || tag_is "requires" k).
      * destruct (fama_parse_ctc k seen) as [c|e] eqn:Hc; [|discriminate].
        destruct cur as [[r cs]|]; [|discriminate].
        apply IH in H; [exact H|]. intros r0 cs0 Heq. injection Heq as <- <-.
        exact (Hinv r cs eq_refl).
      * eauto.
Qed.

Theorem fama_read_nonempty : forall x pm, fama_read x = Ok pm -> rels_nonempty_p (proot pm) = true.
Proof.
  intros x pm H. rewrite fama_read_eq in H. eapply fama_doc_ne in H; [exact H|].
  intros r cs Heq. discriminate.
Qed.

(* a document whose root feature has a setRelation with only a cardinality element is rejected *)
Example fama_read_empty_relation :
  fama_read (Elem "feature-model" [] None
               [Elem "feature" [("name", "R")] None
                  [Elem "setRelation" [("name", "G")] None
                     [Elem "cardinality" [("min", "1"); ("max", "1")] None []]]])%string
  = Err FlamaException.
Proof. vm_compute; reflexivity. Qed.

(* the same relation with one grouped feature is accepted (so it is the missing feature that is rejected) *)
Example fama_read_one_feature :
  exists pm,
  fama_read (Elem "feature-model" [] None
               [Elem "feature" [("name", "R")] None
                  [Elem "setRelation" [("name", "G")] None
                     [Elem "cardinality" [("min", "1"); ("max", "1")] None [];
                      Elem "groupedFeature" [("name", "A")] None []]]])%string
  = Ok pm.
Proof. vm_compute; eexists; reflexivity. Qed.

Print Assumptions fama_read_ptr_wf.
Print Assumptions fama_read_ctc_shape.
Print Assumptions fama_read_nonempty.
Print Assumptions fama_read_empty_relation.
