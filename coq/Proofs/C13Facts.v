(* Proofs/C13Facts.v — the configuration estimate counts the valid configurations (C13).

   [confs] enumerates exactly the bit-vectors accepted by [Valid], without repetition, and
   [estimate] (transcription of the Python closed forms / polynomial slice) is its length whenever
   every relation has a sane cardinality (0 <= min, max = -1 or 0 <= max). *)
From Coq Require Import List Bool Ascii String ZArith Lia.
From FM Require Import Base.Result Base.Str Model.Ast Model.FM Model.Ctc Model.Queries Model.Sem
     Model.Ops.
Import ListNotations.
Local Open Scope list_scope.

(* hypothesis on cardinalities: every relation of the tree has 0 <= min and (max = -1 or 0 <= max) *)
Definition cards_sane (f : feature) : Prop :=
  Forall (fun r => (0 <= r_min r)%Z /\ (r_max r = -1 \/ 0 <= r_max r)%Z) (subrelations f).

(* ================================================================== unfolding of the enumerator *)
Lemma confs_unfold : forall i rs, confs (Feature i rs) = map (cons true) (rsconfs_with confs rs).
Proof. intros i rs. reflexivity. Qed.

Lemma csconfs_nil : forall g, csconfs_with g [] = [(0%Z, [])].
Proof. reflexivity. Qed.

Lemma csconfs_cons : forall g c cs,
  csconfs_with g (c :: cs) =
  map (fun kb => (fst kb, zeros (fsize c) ++ snd kb)) (csconfs_with g cs)
  ++ flat_map (fun x => map (fun kb => ((fst kb + 1)%Z, x ++ snd kb)) (csconfs_with g cs)) (g c).
Proof. reflexivity. Qed.

Lemma rsconfs_nil : forall g, rsconfs_with g [] = [[]].
Proof. reflexivity. Qed.

Lemma rsconfs_cons : forall g r rs,
  rsconfs_with g (r :: rs) = prod_app (rconfs_with g r) (rsconfs_with g rs).
Proof. reflexivity. Qed.

Lemma prod_app_cons : forall A (x : list A) xs ys,
  prod_app (x :: xs) ys = map (fun y => x ++ y) ys ++ prod_app xs ys.
Proof. reflexivity. Qed.

Lemma in_prod_app : forall A (xs ys : list (list A)) b,
  In b (prod_app xs ys) <-> exists x y, In x xs /\ In y ys /\ b = x ++ y.
Proof.
  intros A xs ys b. unfold prod_app. rewrite in_flat_map. split.
  - intros [x [Hx Hb]]. apply in_map_iff in Hb. destruct Hb as [y [Heq Hy]].
    exists x, y. auto.
  - intros [x [y [Hx [Hy Heq]]]]. exists x. split; auto. apply in_map_iff. exists y. auto.
Qed.

(* ================================================================== generic list lemmas *)
Lemma filter_map_comm : forall A B (f : A -> B) (p : B -> bool) l,
  filter p (map f l) = map f (filter (fun x => p (f x)) l).
Proof.
  intros A B f p l. induction l as [|x l IH]; simpl; auto.
  destruct (p (f x)); simpl; rewrite IH; reflexivity.
Qed.

Lemma filter_all_true : forall A (p : A -> bool) l,
  (forall x, In x l -> p x = true) -> filter p l = l.
Proof.
  intros A p l. induction l as [|x l IH]; intros H; simpl; auto.
  rewrite (H x (or_introl eq_refl)). f_equal. apply IH. intros y Hy. apply H. right. exact Hy.
Qed.

Lemma app_inv_length : forall A (x x' y y' : list A),
  List.length x = List.length x' -> x ++ y = x' ++ y' -> x = x' /\ y = y'.
Proof.
  intros A x. induction x as [|a x IH]; intros [|a' x'] y y' Hl Heq; simpl in *; try discriminate.
  - auto.
  - inversion Heq; subst. destruct (IH x' y y') as [E1 E2]; auto. subst. auto.
Qed.

Lemma NoDup_app_intro : forall A (l1 l2 : list A),
  NoDup l1 -> NoDup l2 -> (forall x, In x l1 -> In x l2 -> False) -> NoDup (l1 ++ l2).
Proof.
  intros A l1 l2 H1. induction H1 as [|x l1 Hx H1' IH]; intros H2 Hd; simpl; auto.
  constructor.
  - intro Hin. apply in_app_or in Hin. destruct Hin as [Hin | Hin]; auto.
    apply (Hd x); auto. left; reflexivity.
  - apply IH; auto. intros y Hy1 Hy2. apply (Hd y); auto. right; exact Hy1.
Qed.

Lemma NoDup_map_inj : forall A B (f : A -> B) l,
  (forall x y, In x l -> In y l -> f x = f y -> x = y) -> NoDup l -> NoDup (map f l).
Proof.
  intros A B f l Hinj Hnd. induction Hnd as [|x l Hx Hnd IH]; simpl; constructor.
  - intro Hin. apply in_map_iff in Hin. destruct Hin as [y [Heq Hy]].
    assert (y = x) by (apply Hinj; auto; [right; exact Hy | left; reflexivity]).
    subst. contradiction.
  - apply IH. intros a b Ha Hb. apply Hinj; right; assumption.
Qed.

Lemma NoDup_map_filter : forall A B (f : A -> B) (p : A -> bool) l,
  NoDup (map f l) -> NoDup (map f (filter p l)).
Proof.
  intros A B f p l. induction l as [|x l IH]; simpl; intros Hnd; auto.
  inversion Hnd as [|y l' Hx Hnd']; subst.
  destruct (p x); simpl; auto. constructor; auto.
  intro Hin. apply Hx. apply in_map_iff in Hin. destruct Hin as [z [Heq Hz]].
  apply filter_In in Hz. apply in_map_iff. exists z. tauto.
Qed.

Lemma NoDup_prod_app : forall A (xs ys : list (list A)),
  NoDup xs -> NoDup ys ->
  (forall x x', In x xs -> In x' xs -> List.length x = List.length x') ->
  NoDup (prod_app xs ys).
Proof.
  intros A xs ys Hxs. induction Hxs as [|x xs Hx Hxs IH]; intros Hys Hlen.
  - constructor.
  - rewrite prod_app_cons. apply NoDup_app_intro.
    + apply NoDup_map_inj; auto. intros a b _ _ Heq. apply app_inv_head in Heq. exact Heq.
    + apply IH; auto. intros a b Ha Hb. apply Hlen; right; assumption.
    + intros b Hb1 Hb2. apply in_map_iff in Hb1. destruct Hb1 as [y [Heq Hy]].
      apply in_prod_app in Hb2. destruct Hb2 as [x' [y' [Hx' [Hy' Heq']]]].
      subst b. apply app_inv_length in Heq'.
      * destruct Heq' as [E _]. subst x'. contradiction.
      * apply Hlen; [left; reflexivity | right; exact Hx'].
Qed.

(* ================================================================== soundness and completeness *)
Lemma csconfs_spec : forall cs,
  Forall (fun c => forall b, In b (confs c) <-> Valid c b) cs ->
  forall k b, In (k, b) (csconfs_with confs cs) <-> CsValid cs b k.
Proof.
  intros cs IH. induction IH as [|c cs Hc _ IHcs]; intros k b.
  - rewrite csconfs_nil. split.
    + intros [Heq | []]. inversion Heq; subst. constructor.
    + intros H. inversion H; subst. left; reflexivity.
  - rewrite csconfs_cons. rewrite in_app_iff, in_map_iff, in_flat_map. split.
    + intros [[[k' b'] [Heq Hin]] | [x [Hx Hin]]].
      * simpl in Heq. inversion Heq; subst. apply CsV_unsel. apply IHcs. exact Hin.
      * apply in_map_iff in Hin. destruct Hin as [[k' b'] [Heq Hin]].
        simpl in Heq. inversion Heq; subst. apply CsV_sel.
        -- apply Hc. exact Hx.
        -- apply IHcs. exact Hin.
    + intros H. inversion H as [|c0 cs0 bs1 bs2 k0 Hv Hcs|c0 cs0 bs2 k0 Hcs]; subst.
      * right. exists bs1. split; [apply Hc; exact Hv|].
        apply in_map_iff. exists (k0, bs2). split; [reflexivity|]. apply IHcs. exact Hcs.
      * left. exists (k, bs2). split; [reflexivity|]. apply IHcs. exact Hcs.
Qed.

Lemma rconfs_spec : forall mn mx cs,
  Forall (fun c => forall b, In b (confs c) <-> Valid c b) cs ->
  forall b, In b (rconfs_with confs (Relation mn mx cs)) <->
            exists k, CsValid cs b k /\ card_okb mn mx (List.length cs) k = true.
Proof.
  intros mn mx cs IH b. unfold rconfs_with. rewrite in_map_iff. split.
  - intros [[k b'] [Heq Hin]]. simpl in Heq. subst b'. apply filter_In in Hin.
    destruct Hin as [Hin Hok]. simpl in Hok. exists k. split; auto.
    apply (csconfs_spec cs IH). exact Hin.
  - intros [k [Hcs Hok]]. exists (k, b). split; [reflexivity|]. apply filter_In. split; auto.
    apply (csconfs_spec cs IH). exact Hcs.
Qed.

Lemma rsconfs_spec : forall rs,
  Forall (fun r => forall b, In b (rconfs_with confs r) <->
                     exists k, CsValid (r_children r) b k /\
                               card_okb (r_min r) (r_max r) (List.length (r_children r)) k = true) rs ->
  forall b, In b (rsconfs_with confs rs) <-> RsValid rs b.
Proof.
  intros rs IH. induction IH as [|r rs Hr _ IHrs]; intros b.
  - rewrite rsconfs_nil. split.
    + intros [Heq | []]. subst. constructor.
    + intros H. inversion H; subst. left; reflexivity.
  - rewrite rsconfs_cons, in_prod_app. split.
    + intros [x [y [Hx [Hy Heq]]]]. subst b. apply Hr in Hx. destruct Hx as [k [Hcs Hok]].
      destruct r as [mn mx cs]. simpl in *. apply RsV_cons with (k := k); auto.
      apply IHrs. exact Hy.
    + intros H. inversion H as [|mn mx cs rs0 bs1 bs2 k Hcs Hok Hrs]; subst.
      exists bs1, bs2. split; [|split; [apply IHrs; exact Hrs | reflexivity]].
      apply Hr. simpl. exists k. auto.
Qed.

Lemma confs_spec : forall f b, In b (confs f) <-> Valid f b.
Proof.
  apply (feature_ind2
           (fun f => forall b, In b (confs f) <-> Valid f b)
           (fun r => forall b, In b (rconfs_with confs r) <->
                      exists k, CsValid (r_children r) b k /\
                                card_okb (r_min r) (r_max r) (List.length (r_children r)) k = true)).
  - intros i rs IH b. rewrite confs_unfold, in_map_iff. split.
    + intros [bs [Heq Hin]]. subst b. constructor. apply (rsconfs_spec rs IH). exact Hin.
    + intros H. inversion H as [i0 rs0 bs Hrs]; subst. exists bs. split; [reflexivity|].
      apply (rsconfs_spec rs IH). exact Hrs.
  - intros mn mx cs IH b. simpl. apply rconfs_spec. exact IH.
Qed.

Theorem confs_complete : forall f b, Valid f b -> In b (confs f).
Proof. intros f b H. apply confs_spec. exact H. Qed.

Theorem confs_sound : forall f b, In b (confs f) -> Valid f b.
Proof. intros f b H. apply confs_spec. exact H. Qed.

(* ================================================================== lengths of the bit-vectors *)
Definition rsize (r : relation) : nat := list_sum (map fsize (r_children r)).

Lemma fsize_unfold : forall i rs, fsize (Feature i rs) = S (list_sum (map rsize rs)).
Proof.
  intros i rs. simpl. f_equal. f_equal. apply map_ext. intros [a b cs]. reflexivity.
Qed.

Lemma zeros_length : forall n, List.length (zeros n) = n.
Proof. intros n. unfold zeros. apply repeat_length. Qed.

Lemma csconfs_length : forall cs,
  Forall (fun c => forall b, In b (confs c) -> List.length b = fsize c) cs ->
  forall kb, In kb (csconfs_with confs cs) -> List.length (snd kb) = list_sum (map fsize cs).
Proof.
  intros cs IH. induction IH as [|c cs Hc _ IHcs]; intros kb Hin.
  - rewrite csconfs_nil in Hin. destruct Hin as [Heq | []]. subst. reflexivity.
  - rewrite csconfs_cons in Hin. apply in_app_or in Hin. simpl.
    destruct Hin as [Hin | Hin].
    + apply in_map_iff in Hin. destruct Hin as [kb' [Heq Hin]]. subst kb. simpl.
      rewrite app_length, zeros_length, (IHcs _ Hin). reflexivity.
    + apply in_flat_map in Hin. destruct Hin as [x [Hx Hin]].
      apply in_map_iff in Hin. destruct Hin as [kb' [Heq Hin]]. subst kb. simpl.
      rewrite app_length, (Hc _ Hx), (IHcs _ Hin). reflexivity.
Qed.

Lemma rconfs_length_bits : forall r,
  Forall (fun c => forall b, In b (confs c) -> List.length b = fsize c) (r_children r) ->
  forall b, In b (rconfs_with confs r) -> List.length b = rsize r.
Proof.
  intros [mn mx cs] IH b Hin. unfold rconfs_with in Hin. apply in_map_iff in Hin.
  destruct Hin as [kb [Heq Hin]]. subst b. apply filter_In in Hin. destruct Hin as [Hin _].
  apply (csconfs_length cs IH). exact Hin.
Qed.

Lemma rsconfs_length_bits : forall rs,
  Forall (fun r => forall b, In b (rconfs_with confs r) -> List.length b = rsize r) rs ->
  forall b, In b (rsconfs_with confs rs) -> List.length b = list_sum (map rsize rs).
Proof.
  intros rs IH. induction IH as [|r rs Hr _ IHrs]; intros b Hin.
  - rewrite rsconfs_nil in Hin. destruct Hin as [Heq | []]. subst. reflexivity.
  - rewrite rsconfs_cons in Hin. apply in_prod_app in Hin.
    destruct Hin as [x [y [Hx [Hy Heq]]]]. subst b. simpl.
    rewrite app_length, (Hr _ Hx), (IHrs _ Hy). reflexivity.
Qed.

Theorem confs_length : forall f b, In b (confs f) -> List.length b = fsize f.
Proof.
  apply (feature_ind2
           (fun f => forall b, In b (confs f) -> List.length b = fsize f)
           (fun r => forall b, In b (rconfs_with confs r) -> List.length b = rsize r)).
  - intros i rs IH b Hin. rewrite confs_unfold in Hin. apply in_map_iff in Hin.
    destruct Hin as [bs [Heq Hin]]. subst b. rewrite fsize_unfold. simpl. f_equal.
    apply (rsconfs_length_bits rs IH). exact Hin.
  - intros mn mx cs IH. apply rconfs_length_bits. exact IH.
Qed.

(* ================================================================== no repetition *)
Lemma confs_head : forall f b, In b (confs f) -> exists bs, b = true :: bs.
Proof.
  intros [i rs] b Hin. rewrite confs_unfold in Hin. apply in_map_iff in Hin.
  destruct Hin as [bs [Heq _]]. exists bs. auto.
Qed.

Lemma fsize_pos : forall f, exists n, fsize f = S n.
Proof. intros [i rs]. simpl. eauto. Qed.

Lemma zeros_not_conf : forall c, ~ In (zeros (fsize c)) (confs c).
Proof.
  intros c Hin. apply confs_head in Hin. destruct Hin as [bs Heq].
  destruct (fsize_pos c) as [n Hn]. rewrite Hn in Heq. discriminate.
Qed.

(* the bit part of the per-relation enumeration is a product *)
Lemma csconfs_snd_cons : forall c cs,
  map snd (csconfs_with confs (c :: cs)) =
  prod_app (zeros (fsize c) :: confs c) (map snd (csconfs_with confs cs)).
Proof.
  intros c cs. rewrite csconfs_cons, prod_app_cons, map_app. f_equal.
  - rewrite !map_map. reflexivity.
  - unfold prod_app. induction (confs c) as [|x xs IH]; simpl; auto.
    rewrite map_app, IH. f_equal. rewrite !map_map. reflexivity.
Qed.

Lemma csconfs_nodup : forall cs,
  Forall (fun c => NoDup (confs c)) cs ->
  NoDup (map snd (csconfs_with confs cs)).
Proof.
  intros cs IH. induction IH as [|c cs Hc _ IHcs].
  - rewrite csconfs_nil. simpl. constructor; auto. constructor.
  - rewrite csconfs_snd_cons. apply NoDup_prod_app; auto.
    + constructor; auto. apply zeros_not_conf.
    + assert (Hl : forall x, In x (zeros (fsize c) :: confs c) -> List.length x = fsize c).
      { intros x [Heq | Hx]; [subst; apply zeros_length | apply confs_length; exact Hx]. }
      intros x x' Hx Hx'. rewrite (Hl _ Hx), (Hl _ Hx'). reflexivity.
Qed.

Lemma rsconfs_nodup : forall rs,
  Forall (fun r => NoDup (rconfs_with confs r)) rs -> NoDup (rsconfs_with confs rs).
Proof.
  intros rs IH. induction IH as [|r rs Hr _ IHrs].
  - rewrite rsconfs_nil. constructor; auto. constructor.
  - rewrite rsconfs_cons. apply NoDup_prod_app; auto.
    assert (Hl : forall x, In x (rconfs_with confs r) -> List.length x = rsize r).
    { apply rconfs_length_bits. apply Forall_forall. intros c _. apply confs_length. }
    intros x x' Hx Hx'. rewrite (Hl _ Hx), (Hl _ Hx'). reflexivity.
Qed.

Theorem confs_nodup : forall f, NoDup (confs f).
Proof.
  apply (feature_ind2 (fun f => NoDup (confs f)) (fun r => NoDup (rconfs_with confs r))).
  - intros i rs IH. rewrite confs_unfold. apply NoDup_map_inj.
    + intros x y _ _ Heq. inversion Heq. reflexivity.
    + apply rsconfs_nodup. exact IH.
  - intros mn mx cs IH. unfold rconfs_with. apply NoDup_map_filter. apply csconfs_nodup. exact IH.
Qed.

(* ================================================================== the polynomial *)
Ltac zb :=
  repeat match goal with
         | |- context [Z.eqb ?a ?b] => destruct (Z.eqb_spec a b)
         | |- context [Z.leb ?a ?b] => destruct (Z.leb_spec a b)
         | |- context [Z.ltb ?a ?b] => destruct (Z.ltb_spec a b)
         end; simpl; try reflexivity; try lia.

Lemma zsum_cons : forall x l, zsum (x :: l) = (x + zsum l)%Z.
Proof. reflexivity. Qed.
Lemma zprod_cons : forall x l, zprod (x :: l) = (x * zprod l)%Z.
Proof. reflexivity. Qed.

(* [poly_step] as a structural recursion carrying the previous coefficient *)
Fixpoint pstep (prev : Z) (p : list Z) (c : Z) : list Z :=
  match p with
  | [] => [(c * prev)%Z]
  | x :: p' => (x + c * prev)%Z :: pstep x p' c
  end.

Lemma pstep_combine : forall p prev c,
  map (fun cp => (fst cp + c * snd cp)%Z) (combine (p ++ [0%Z]) (prev :: p)) = pstep prev p c.
Proof.
  induction p as [|x p IH]; intros prev c.
  - cbn [app combine map fst snd pstep]. f_equal; try ring.
  - cbn [app combine map fst snd pstep]. f_equal. apply IH.
Qed.

Lemma poly_step_pstep : forall p c, poly_step p c = pstep 0 p c.
Proof. intros p c. unfold poly_step. apply pstep_combine. Qed.

Lemma pstep_nth : forall p prev c k,
  nth k (pstep prev p c) 0%Z = (nth k p 0 + c * nth k (prev :: p) 0)%Z.
Proof.
  induction p as [|x p IH]; intros prev c k.
  - cbn [pstep]. destruct k as [|[|k]]; cbn [nth]; ring.
  - cbn [pstep]. destruct k as [|k]; cbn [nth]; [reflexivity|]. apply IH.
Qed.

Lemma pstep_length : forall p prev c, List.length (pstep prev p c) = S (List.length p).
Proof.
  induction p as [|x p IH]; intros prev c; cbn [pstep List.length]; [reflexivity|].
  rewrite IH. reflexivity.
Qed.

Lemma poly_step_nth : forall p c k,
  nth k (poly_step p c) 0%Z = (nth k p 0 + c * nth k (0 :: p) 0)%Z.
Proof. intros p c k. rewrite poly_step_pstep. apply pstep_nth. Qed.

Lemma poly_step_length : forall p c, List.length (poly_step p c) = S (List.length p).
Proof. intros p c. rewrite poly_step_pstep. apply pstep_length. Qed.

Lemma poly_step_comm : forall p a b,
  poly_step (poly_step p a) b = poly_step (poly_step p b) a.
Proof.
  intros p a b. apply nth_ext with (d := 0%Z) (d' := 0%Z).
  - rewrite !poly_step_length. reflexivity.
  - intros k _. destruct k as [|k]; repeat (rewrite !poly_step_nth; cbn [nth]); ring.
Qed.

Lemma fold_left_right_comm : forall A B (f : A -> B -> A),
  (forall p a b, f (f p a) b = f (f p b) a) ->
  forall l a0, fold_left f l a0 = fold_right (fun x p => f p x) a0 l.
Proof.
  intros A B f Hc l. induction l as [|x l IH]; intros a0; simpl; auto.
  rewrite IH. clear IH. induction l as [|y l IH]; simpl; auto.
  rewrite IH. apply Hc.
Qed.

Definition polyR (l : list Z) : list Z := fold_right (fun c p => poly_step p c) [1%Z] l.

Lemma poly_polyR : forall l, poly l = polyR l.
Proof. intros l. unfold poly, polyR. apply fold_left_right_comm. apply poly_step_comm. Qed.

Lemma polyR_cons : forall c l, polyR (c :: l) = poly_step (polyR l) c.
Proof. reflexivity. Qed.

Lemma polyR_length : forall l, List.length (polyR l) = S (List.length l).
Proof.
  induction l as [|c l IH]; [reflexivity|].
  rewrite polyR_cons, poly_step_length, IH. reflexivity.
Qed.

Lemma polyR_nth0 : forall l, nth 0 (polyR l) 0%Z = 1%Z.
Proof.
  induction l as [|c l IH]; [reflexivity|].
  rewrite polyR_cons, poly_step_nth. cbn [nth]. rewrite IH. ring.
Qed.

Lemma polyR_nth1 : forall l, nth 1 (polyR l) 0%Z = zsum l.
Proof.
  induction l as [|c l IH]; [reflexivity|].
  rewrite polyR_cons, poly_step_nth. cbn [nth]. rewrite IH, polyR_nth0, zsum_cons. ring.
Qed.

(* ================================================================== sums over ranges *)
Fixpoint rsum0 (f : nat -> Z) (m : nat) : Z :=
  match m with
  | O => 0%Z
  | S m' => (f O + rsum0 (fun j => f (S j)) m')%Z
  end.

Lemma rsum0_ext : forall m f g, (forall j, f j = g j) -> rsum0 f m = rsum0 g m.
Proof.
  induction m as [|m IH]; intros f g H; cbn [rsum0]; [reflexivity|].
  rewrite (H O). f_equal. apply IH. intros j. apply H.
Qed.

Lemma rsum0_zero : forall m f, (forall j, f j = 0%Z) -> rsum0 f m = 0%Z.
Proof.
  induction m as [|m IH]; intros f H; cbn [rsum0]; [reflexivity|].
  rewrite (H O), IH; [reflexivity|]. intros j. apply H.
Qed.

Lemma zsum_firstn : forall m P, zsum (firstn m P) = rsum0 (fun j => nth j P 0%Z) m.
Proof.
  induction m as [|m IH]; intros P; [reflexivity|].
  destruct P as [|x t].
  - cbn [firstn rsum0 nth]. rewrite rsum0_zero; [reflexivity|]. intros j. reflexivity.
  - cbn [firstn rsum0 nth]. rewrite zsum_cons. f_equal. rewrite IH. apply rsum0_ext.
    intros j. reflexivity.
Qed.

Lemma nth_skipn_add : forall a (P : list Z) j, nth j (skipn a P) 0%Z = nth (a + j) P 0%Z.
Proof.
  induction a as [|a IH]; intros P j; [reflexivity|].
  destruct P as [|x t].
  - cbn [skipn]. destruct j; reflexivity.
  - cbn [skipn Nat.add nth]. apply IH.
Qed.

Lemma zsum_slice_nat : forall m a P,
  zsum (firstn m (skipn a P)) = rsum0 (fun j => nth (a + j) P 0%Z) m.
Proof.
  intros m a P. rewrite zsum_firstn. apply rsum0_ext. intros j. apply nth_skipn_add.
Qed.

Lemma slice_eq : forall l a b, (0 <= a)%Z -> (0 <= b)%Z ->
  slice l a b =
  firstn (Z.to_nat (Z.min b (Z.of_nat (List.length l)) - Z.min a (Z.of_nat (List.length l))))
         (skipn (Z.to_nat (Z.min a (Z.of_nat (List.length l)))) l).
Proof.
  intros l a b Ha Hb. unfold slice. cbv beta zeta.
  destruct (Z.ltb_spec a 0); [lia|]. destruct (Z.ltb_spec b 0); [lia|]. reflexivity.
Qed.

(* ================================================================== counting entries *)
Lemma filter_all_false : forall A (p : A -> bool) l,
  (forall x, In x l -> p x = false) -> filter p l = [].
Proof.
  intros A p l. induction l as [|x l IH]; intros H; simpl; auto.
  rewrite (H x (or_introl eq_refl)). apply IH. intros y Hy. apply H. right. exact Hy.
Qed.

Lemma filter_length_split : forall A (p q r : A -> bool) l,
  (forall x, In x l -> p x = q x || r x) -> (forall x, In x l -> q x && r x = false) ->
  List.length (filter p l) = (List.length (filter q l) + List.length (filter r l))%nat.
Proof.
  intros A p q r l. induction l as [|x l IH]; intros H1 H2; simpl; auto.
  assert (E1 := H1 x (or_introl eq_refl)). assert (E2 := H2 x (or_introl eq_refl)).
  assert (IH' : List.length (filter p l) = (List.length (filter q l) + List.length (filter r l))%nat).
  { apply IH; intros y Hy; [apply H1 | apply H2]; right; exact Hy. }
  rewrite E1. destruct (q x); destruct (r x); simpl in *; try discriminate; lia.
Qed.

Lemma filter_length_le : forall A (p : A -> bool) l,
  (List.length (filter p l) <= List.length l)%nat.
Proof.
  intros A p l. induction l as [|x l IH]; simpl; auto. destruct (p x); simpl; lia.
Qed.

Lemma filter_negb_length : forall A (p : A -> bool) l,
  (List.length (filter (fun x => negb (p x)) l) + List.length (filter p l))%nat = List.length l.
Proof.
  intros A p l. induction l as [|x l IH]; simpl; auto. destruct (p x); simpl; lia.
Qed.

Lemma const_flat_map_length : forall A B (L : list B) (xs : list A),
  List.length (flat_map (fun _ => L) xs) = (List.length xs * List.length L)%nat.
Proof.
  intros A B L xs. induction xs as [|x xs IH]; simpl; auto. rewrite app_length, IH. reflexivity.
Qed.

Lemma const_flat_map_filter : forall A B (p : B -> bool) (L : list B) (xs : list A),
  filter p (flat_map (fun _ => L) xs) = flat_map (fun _ => filter p L) xs.
Proof.
  intros A B p L xs. induction xs as [|x xs IH]; simpl; auto. rewrite filter_app, IH. reflexivity.
Qed.

Lemma prod_app_length : forall A (xs ys : list (list A)),
  List.length (prod_app xs ys) = (List.length xs * List.length ys)%nat.
Proof.
  intros A xs ys. induction xs as [|x xs IH]; [reflexivity|].
  rewrite prod_app_cons, app_length, map_length, IH. reflexivity.
Qed.

Definition cnt (K : list Z) (k : Z) : Z := Z.of_nat (List.length (filter (Z.eqb k) K)).

Lemma count_range : forall m a K,
  Z.of_nat (List.length (filter (fun k => (Z.of_nat a <=? k) && (k <? Z.of_nat (a + m)))%Z K))
  = rsum0 (fun j => cnt K (Z.of_nat (a + j))) m.
Proof.
  induction m as [|m IH]; intros a K.
  - cbn [rsum0]. rewrite filter_all_false; [reflexivity|]. intros x _. zb.
  - cbn [rsum0].
    rewrite (filter_length_split _ _ (Z.eqb (Z.of_nat (a + 0)))
               (fun k => (Z.of_nat (S a) <=? k) && (k <? Z.of_nat (S a + m)))%Z).
    + rewrite Nat2Z.inj_add, IH. apply (f_equal2 Z.add); [reflexivity|].
      apply rsum0_ext. intros j.
      replace (a + S j)%nat with (S a + j)%nat by lia. reflexivity.
    + intros x _. zb.
    + intros x _. zb.
Qed.

(* ---- the numbers of selected children occurring in the per-relation enumeration *)
Definition ks (cs : list feature) : list Z := map fst (csconfs_with confs cs).
Definition nconfs (c : feature) : Z := Z.of_nat (List.length (confs c)).
Definition counts (cs : list feature) : list Z := map nconfs cs.

Lemma ks_nil : ks [] = [0%Z].
Proof. reflexivity. Qed.

Lemma ks_cons : forall c cs,
  ks (c :: cs) = ks cs ++ flat_map (fun _ => map (fun k => (k + 1)%Z) (ks cs)) (confs c).
Proof.
  intros c cs. unfold ks. rewrite csconfs_cons, map_app. f_equal.
  - rewrite map_map. apply map_ext. intros kb. reflexivity.
  - induction (confs c) as [|x xs IH]; simpl; auto.
    rewrite map_app, IH. f_equal. rewrite !map_map. apply map_ext. intros kb. reflexivity.
Qed.

Lemma rconfs_count : forall mn mx cs,
  List.length (rconfs_with confs (Relation mn mx cs))
  = List.length (filter (card_okb mn mx (List.length cs)) (ks cs)).
Proof.
  intros mn mx cs. unfold rconfs_with, ks. rewrite filter_map_comm, !map_length. reflexivity.
Qed.

Lemma ks_filter_cons : forall p c cs,
  Z.of_nat (List.length (filter p (ks (c :: cs))))
  = (Z.of_nat (List.length (filter p (ks cs)))
     + nconfs c * Z.of_nat (List.length (filter (fun k => p (k + 1)%Z) (ks cs))))%Z.
Proof.
  intros p c cs.
  rewrite ks_cons, filter_app, app_length, const_flat_map_filter, const_flat_map_length,
    filter_map_comm, map_length, Nat2Z.inj_add, Nat2Z.inj_mul.
  reflexivity.
Qed.

Lemma cnt_ks_cons : forall c cs k,
  cnt (ks (c :: cs)) k = (cnt (ks cs) k + nconfs c * cnt (ks cs) (k - 1))%Z.
Proof.
  intros c cs k. unfold cnt. rewrite ks_filter_cons. do 4 f_equal.
  apply filter_ext. intros x. zb.
Qed.

Lemma ks_length : forall cs,
  Z.of_nat (List.length (ks cs)) = zprod (map (fun c => (nconfs c + 1)%Z) cs).
Proof.
  induction cs as [|c cs IH]; [reflexivity|].
  rewrite ks_cons, app_length, const_flat_map_length, map_length, Nat2Z.inj_add, Nat2Z.inj_mul, IH.
  cbn [map]. rewrite zprod_cons. unfold nconfs. ring.
Qed.

Lemma ks_range : forall cs k, In k (ks cs) -> (0 <= k <= Z.of_nat (List.length cs))%Z.
Proof.
  induction cs as [|c cs IH]; intros k Hin.
  - rewrite ks_nil in Hin. destruct Hin as [Heq | []]. subst. simpl. lia.
  - rewrite ks_cons in Hin. cbn [List.length]. rewrite Nat2Z.inj_succ.
    apply in_app_or in Hin. destruct Hin as [Hin | Hin].
    + apply IH in Hin. lia.
    + apply in_flat_map in Hin. destruct Hin as [x [_ Hin]]. apply in_map_iff in Hin.
      destruct Hin as [k' [Heq Hin]]. apply IH in Hin. lia.
Qed.

Lemma cnt_ks_neg : forall cs k, (k < 0)%Z -> cnt (ks cs) k = 0%Z.
Proof.
  intros cs k Hk. unfold cnt. rewrite filter_all_false; [reflexivity|].
  intros x Hx. apply ks_range in Hx. zb.
Qed.

Lemma cnt_ks_nth : forall cs k, cnt (ks cs) (Z.of_nat k) = nth k (polyR (counts cs)) 0%Z.
Proof.
  induction cs as [|c cs IH]; intros k.
  - rewrite ks_nil. destruct k as [|k]; [reflexivity|].
    unfold cnt. cbn [filter]. destruct (Z.eqb_spec (Z.of_nat (S k)) 0) as [E|E]; [lia|].
    destruct k; reflexivity.
  - cbn [counts map]. fold (counts cs). rewrite polyR_cons, poly_step_nth, cnt_ks_cons.
    destruct k as [|k]; cbn [nth].
    + rewrite (IH 0%nat). rewrite cnt_ks_neg by lia. ring.
    + replace (Z.of_nat (S k) - 1)%Z with (Z.of_nat k) by lia. rewrite !IH. reflexivity.
Qed.

(* ---- per-relation counts *)
Lemma count_general : forall mn mx cs, (0 <= mn)%Z -> (mx = -1 \/ 0 <= mx)%Z ->
  Z.of_nat (List.length (filter (card_okb mn mx (List.length cs)) (ks cs)))
  = zsum (slice (poly (counts cs)) mn
                ((if (mx =? -1)%Z then Z.of_nat (List.length (counts cs)) else mx) + 1)).
Proof.
  intros mn mx cs Hmn Hmx. rewrite poly_polyR.
  assert (Hlc : List.length (counts cs) = List.length cs) by (unfold counts; apply map_length).
  rewrite Hlc.
  assert (Hb : (0 < (if (mx =? -1)%Z then Z.of_nat (List.length cs) else mx) + 1)%Z).
  { destruct (Z.eqb_spec mx (-1)); lia. }
  rewrite slice_eq by lia. rewrite polyR_length, Hlc.
  rewrite zsum_slice_nat.
  rewrite (rsum0_ext _ _ (fun j => cnt (ks cs)
     (Z.of_nat (Z.to_nat (Z.min mn (Z.of_nat (S (List.length cs)))) + j)))).
  2:{ intros j. symmetry. apply cnt_ks_nth. }
  rewrite <- count_range. do 2 f_equal. apply filter_ext_in. intros k Hk.
  apply ks_range in Hk. unfold card_okb, eff_max.
  destruct (Z.eqb_spec mx (-1)) as [E|E]; zb.
Qed.

Lemma count_11 : forall cs,
  Z.of_nat (List.length (filter (card_okb 1 1 (List.length cs)) (ks cs))) = zsum (counts cs).
Proof.
  intros cs. rewrite <- polyR_nth1, <- (cnt_ks_nth cs 1). unfold cnt. do 2 f_equal.
  apply filter_ext. intros k. unfold card_okb, eff_max. zb.
Qed.

Lemma count_all : forall mn mx cs,
  (forall k, (0 <= k <= Z.of_nat (List.length cs))%Z -> card_okb mn mx (List.length cs) k = true) ->
  Z.of_nat (List.length (filter (card_okb mn mx (List.length cs)) (ks cs)))
  = zprod (map (fun c => (nconfs c + 1)%Z) cs).
Proof.
  intros mn mx cs H. rewrite filter_all_true; [apply ks_length|].
  intros k Hk. apply H. apply ks_range. exact Hk.
Qed.

Lemma count_or : forall cs,
  Z.of_nat (List.length (filter (card_okb 1 (Z.of_nat (List.length cs)) (List.length cs)) (ks cs)))
  = (zprod (map (fun c => (nconfs c + 1)%Z) cs) - 1)%Z.
Proof.
  intros cs. rewrite <- ks_length.
  assert (H0 : cnt (ks cs) 0 = 1%Z) by exact (eq_trans (cnt_ks_nth cs 0) (polyR_nth0 _)).
  unfold cnt in H0.
  rewrite (filter_ext_in _ (fun k => negb (Z.eqb 0 k))).
  - pose proof (filter_negb_length _ (Z.eqb 0) (ks cs)) as Hn. lia.
  - intros k Hk. apply ks_range in Hk. unfold card_okb, eff_max.
    destruct (Z.eqb_spec (Z.of_nat (List.length cs)) (-1)); zb.
Qed.

(* ================================================================== the estimate *)
Definition est_rel (r : relation) : Z :=
  match r with
  | Relation mn mx cs =>
      if rel_is_mandatory r then match cs with c :: _ => estimate c | [] => 0%Z end
      else if rel_is_optional r then (match cs with c :: _ => estimate c | [] => 0%Z end + 1)%Z
      else if rel_is_alternative r then zsum (map estimate cs)
      else if rel_is_or r then (zprod (map (fun c => estimate c + 1)%Z cs) - 1)%Z
      else zsum (slice (poly (map estimate cs)) mn
                       ((if (mx =? -1)%Z then Z.of_nat (List.length (map estimate cs)) else mx) + 1))
  end.

Lemma flat_map_single : forall A B (F : A -> list B) (g : A -> B) l,
  (forall x, F x = [g x]) -> flat_map F l = map g l.
Proof.
  intros A B F g l H. induction l as [|x l IH]; simpl; auto. rewrite H, IH. reflexivity.
Qed.

Lemma estimate_unfold : forall i rs, estimate (Feature i rs) = zprod (map est_rel rs).
Proof.
  intros i rs. destruct rs as [|r rs]; [reflexivity|].
  cbn [estimate]. f_equal. apply flat_map_single.
  intros [mn mx cs]. unfold est_rel.
  destruct (rel_is_mandatory (Relation mn mx cs)); [reflexivity|].
  destruct (rel_is_optional (Relation mn mx cs)); [reflexivity|].
  destruct (rel_is_alternative (Relation mn mx cs)); [reflexivity|].
  destruct (rel_is_or (Relation mn mx cs)); reflexivity.
Qed.

Lemma subrelations_unfold : forall i rs,
  subrelations (Feature i rs) = flat_map (fun r => r :: flat_map subrelations (r_children r)) rs.
Proof. intros i rs. simpl. apply flat_map_ext. intros [a b cs]. reflexivity. Qed.

Definition sane_rel (r : relation) : Prop :=
  (0 <= r_min r)%Z /\ (r_max r = -1 \/ 0 <= r_max r)%Z.

Lemma est_rel_counts : forall mn mx cs,
  Forall (fun c => estimate c = nconfs c) cs ->
  (0 <= mn)%Z -> (mx = -1 \/ 0 <= mx)%Z ->
  est_rel (Relation mn mx cs) = Z.of_nat (List.length (rconfs_with confs (Relation mn mx cs))).
Proof.
  intros mn mx cs Hcs Hmn Hmx. rewrite rconfs_count.
  assert (Hmap : map estimate cs = counts cs).
  { unfold counts. apply map_ext_in. intros c Hc. rewrite Forall_forall in Hcs. apply Hcs. exact Hc. }
  assert (Hmap1 : map (fun c => (estimate c + 1)%Z) cs = map (fun c => (nconfs c + 1)%Z) cs).
  { apply map_ext_in. intros c Hc. rewrite Forall_forall in Hcs. rewrite (Hcs c Hc). reflexivity. }
  unfold est_rel.
  destruct (rel_is_mandatory (Relation mn mx cs)) eqn:Eman.
  { unfold rel_is_mandatory, nchildren in Eman. cbn [r_min r_max r_children] in Eman.
    apply andb_true_iff in Eman. destruct Eman as [Eman E3].
    apply andb_true_iff in Eman. destruct Eman as [E1 E2].
    apply Z.eqb_eq in E1. apply Z.eqb_eq in E2. apply Z.eqb_eq in E3. subst mn mx.
    rewrite count_11.
    destruct cs as [|c [|c' cs]]; cbn [List.length] in E3; try lia.
    inversion Hcs as [|c0 l0 Hc _]; subst. cbn [counts map]. rewrite zsum_cons. rewrite Hc.
    cbn. ring. }
  destruct (rel_is_optional (Relation mn mx cs)) eqn:Eopt.
  { unfold rel_is_optional, nchildren in Eopt. cbn [r_min r_max r_children] in Eopt.
    apply andb_true_iff in Eopt. destruct Eopt as [Eopt E3].
    apply andb_true_iff in Eopt. destruct Eopt as [E1 E2].
    apply Z.eqb_eq in E1. apply Z.eqb_eq in E2. apply Z.eqb_eq in E3. subst mn mx.
    rewrite count_all.
    - destruct cs as [|c [|c' cs]]; cbn [List.length] in E3; try lia.
      inversion Hcs as [|c0 l0 Hc _]; subst. cbn [map]. rewrite zprod_cons, Hc. cbn. ring.
    - intros k Hk. rewrite E3 in Hk. unfold card_okb, eff_max. zb. }
  destruct (rel_is_alternative (Relation mn mx cs)) eqn:Ealt.
  { unfold rel_is_alternative, nchildren in Ealt. cbn [r_min r_max r_children] in Ealt.
    apply andb_true_iff in Ealt. destruct Ealt as [Ealt E3].
    apply andb_true_iff in Ealt. destruct Ealt as [E1 E2].
    apply Z.eqb_eq in E1. apply Z.eqb_eq in E2. subst mn mx.
    rewrite count_11, Hmap. reflexivity. }
  destruct (rel_is_or (Relation mn mx cs)) eqn:Eor.
  { unfold rel_is_or, nchildren in Eor. cbn [r_min r_max r_children] in Eor.
    apply andb_true_iff in Eor. destruct Eor as [Eor E3].
    apply andb_true_iff in Eor. destruct Eor as [E1 E2].
    apply Z.eqb_eq in E1. apply Z.eqb_eq in E2. subst mn mx.
    rewrite count_or, Hmap1. reflexivity. }
  rewrite Hmap. symmetry. apply count_general; assumption.
Qed.

Lemma children_counts : forall cs,
  Forall (fun c => cards_sane c -> estimate c = Z.of_nat (List.length (confs c))) cs ->
  Forall sane_rel (flat_map subrelations cs) ->
  Forall (fun c => estimate c = nconfs c) cs.
Proof.
  intros cs IH. induction IH as [|c cs Hc _ IHcs]; intros Hs; constructor.
  - cbn [flat_map] in Hs. apply Forall_app in Hs. apply Hc. exact (proj1 Hs).
  - cbn [flat_map] in Hs. apply Forall_app in Hs. apply IHcs. exact (proj2 Hs).
Qed.

Theorem estimate_counts : forall f, cards_sane f -> estimate f = Z.of_nat (List.length (confs f)).
Proof.
  apply (feature_ind2
           (fun f => cards_sane f -> estimate f = Z.of_nat (List.length (confs f)))
           (fun r => Forall sane_rel (r :: flat_map subrelations (r_children r)) ->
                     est_rel r = Z.of_nat (List.length (rconfs_with confs r)))).
  - intros i rs IH Hs. unfold cards_sane in Hs. rewrite subrelations_unfold in Hs.
    fold sane_rel in Hs.
    rewrite estimate_unfold, confs_unfold, map_length.
    induction IH as [|r rs Hr _ IHrs].
    + reflexivity.
    + cbn [flat_map] in Hs. change (r :: flat_map subrelations (r_children r)
                                      ++ flat_map (fun r0 => r0 :: flat_map subrelations (r_children r0)) rs)
        with ((r :: flat_map subrelations (r_children r))
                ++ flat_map (fun r0 => r0 :: flat_map subrelations (r_children r0)) rs) in Hs.
      apply Forall_app in Hs. destruct Hs as [Hs1 Hs2].
      cbn [map]. rewrite zprod_cons, rsconfs_cons, prod_app_length, Nat2Z.inj_mul.
      rewrite (Hr Hs1), (IHrs Hs2). reflexivity.
  - intros mn mx cs IH Hs. cbn [r_children] in Hs.
    inversion Hs as [|r0 l0 [Hmn Hmx] Hrest]; subst. cbn [r_min r_max] in Hmn, Hmx.
    apply est_rel_counts; auto. apply children_counts; assumption.
Qed.

(* corollary: with any extra filter (cross-tree constraints) the estimate is an upper bound *)
Theorem estimate_upper : forall f (p : list bool -> bool), cards_sane f ->
  (Z.of_nat (List.length (filter p (confs f))) <= estimate f)%Z.
Proof.
  intros f p Hs. rewrite (estimate_counts f Hs). apply Nat2Z.inj_le. apply filter_length_le.
Qed.

(* with [NoDup], [confs_sound] and [confs_complete]: the estimate is the number of valid
   configurations, i.e. of any duplicate-free listing of them *)
Corollary estimate_counts_valid : forall f l,
  cards_sane f -> NoDup l -> (forall b, In b l <-> Valid f b) ->
  estimate f = Z.of_nat (List.length l).
Proof.
  intros f l Hs Hnd Hl. rewrite (estimate_counts f Hs). f_equal.
  apply Nat.le_antisymm; apply NoDup_incl_length; auto using confs_nodup;
    intros b Hb.
  - apply Hl. apply confs_sound. exact Hb.
  - apply confs_complete. apply Hl. exact Hb.
Qed.

(* ================================================================== a concrete tree *)
Definition ex_tree : feature :=
  Feature (mk_info "root")
    [ Relation 0 1 [leaf "a"; leaf "b"];                       (* mutex group *)
      Relation 1 2 [leaf "c"; leaf "d"; leaf "e"];             (* [1..2] group of 3 *)
      Relation 1 2 [Feature (mk_info "f") [Relation 0 1 [leaf "g"]]; leaf "h"];
                                                               (* or-group, non-leaf child with an optional child *)
      Relation 0 1 [leaf "o"] ].                               (* optional child *)

Example ex_tree_sane : cards_sane ex_tree.
Proof. unfold cards_sane. simpl. repeat constructor; simpl; lia. Qed.

Example ex_tree_estimate :
  estimate ex_tree = Z.of_nat (List.length (confs ex_tree)) /\ estimate ex_tree = 180%Z
  /\ (10 < estimate ex_tree)%Z.
Proof. vm_compute. repeat split; reflexivity. Qed.

(* [cards_sane] cannot be dropped: with max < -1 or min < 0 Python's negative slice indices make
   the estimate differ from the number of configurations *)
Example ex_insane_max :
  let f := Feature (mk_info "r") [Relation 0 (-2) [leaf "a"; leaf "b"; leaf "c"]] in
  estimate f = 7%Z /\ List.length (confs f) = 0%nat.
Proof. vm_compute. split; reflexivity. Qed.

Example ex_insane_min :
  let f := Feature (mk_info "r") [Relation (-1) 2 [leaf "a"; leaf "b"; leaf "c"]] in
  estimate f = 0%Z /\ List.length (confs f) = 7%nat.
Proof. vm_compute. split; reflexivity. Qed.

Print Assumptions confs_complete.
Print Assumptions confs_sound.
Print Assumptions confs_nodup.
Print Assumptions confs_length.
Print Assumptions estimate_counts.
Print Assumptions estimate_upper.
Print Assumptions estimate_counts_valid.
